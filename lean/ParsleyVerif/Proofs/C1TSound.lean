/-
  SOUNDNESS FOR THE EXACT TRIM MEANING (C01 with trims): every tree `run` returns for a parser of the
  fragment with trims is an exact derivation (`DerivesW`, Spec/DerivesW.lean) — the whitespace before a
  LeftTrim's operand and after a RightTrim's tree is the MAXIMAL run and the mode ACCEPTS it.
  Proofs/RunSound.lean generalised; the invariant carries what `ErrFree` / `OneAlt` promise (`OutShape`),
  also for cached answers, because that is what rules the two deviations of text/trim.go out
  (Spec/DerivesW.lean, findings F1 / F2 of Props/C01W.lean).
-/
import ParsleyVerif.Proofs.C1TComplete
namespace PV.C1T
open PV PV.Text

structure EntryS (cfg : Cfg) (bodyOf : Nat → G) (e : CacheEntry) : Prop where
  sound : ∀ x ∈ e.res.alts, DerivesW cfg (bodyOf e.idx) e.pos x
  shape : ErrFree cfg (bodyOf e.idx) → e.res.isNil = false → e.err = none

def CacheS (cfg : Cfg) (bodyOf : Nat → G) (st : St) : Prop := ∀ e ∈ st.cache, EntryS cfg bodyOf e

/-- the scope of the soundness theorem -/
def ScopeS (cfg : Cfg) (bodyOf : Nat → G) (g : G) : Prop := FragW cfg g ∧ SoundW cfg g ∧ GOK bodyOf g

def RunSoundOKW (cfg : Cfg) (bodyOf : Nat → G) (r : RunFn) : Prop :=
  ∀ g ctx pos st o st', ScopeS cfg bodyOf g → CacheS cfg bodyOf st → r g ctx pos st = some (o, st') →
    (∀ x ∈ o.res.alts, DerivesW cfg g pos x) ∧ OutShape cfg g o ∧ CacheS cfg bodyOf st'

theorem CacheS_of_eq {cfg : Cfg} {bodyOf : Nat → G} {st st' : St} (h : CacheS cfg bodyOf st)
    (e : st'.cache = st.cache) : CacheS cfg bodyOf st' := by
  unfold CacheS; rw [e]; exact h

theorem ScopeS.lookup {cfg : Cfg} {bodyOf : Nat → G} {g : G} {sh : SeqShape} (h : ScopeS cfg bodyOf g)
    (hs : g.shape = some sh) : ∀ d g', sh.lookup d = some g' → ScopeS cfg bodyOf g' :=
  fun d g' hl => ⟨shape_lookup_all h.1 hs d g' hl, shape_lookup_all h.2.1 hs d g' hl, shape_lookup_all h.2.2 hs d g' hl⟩

theorem DerivesSeqW.snoc {cfg : Cfg} {sh : SeqShape} {g : G} {n : Node} :
    ∀ {nodes : List Node} {d p : Nat}, DerivesSeqW cfg sh d p nodes →
      sh.lookup (d + nodes.length) = some g → DerivesW cfg g (endOf p nodes) n →
      DerivesSeqW cfg sh d p (nodes ++ [n])
  | [], d, p, _, hl, hd => by
    simp only [List.length_nil, Nat.add_zero] at hl
    exact .cons hl (by simpa [endOf] using hd) .nil
  | m :: rest, d, p, h, hl, hd => by
    cases h with
    | cons hl' hm hrest =>
      refine .cons hl' hm (DerivesSeqW.snoc (g := g) hrest ?_ ?_)
      · simpa [Nat.add_assoc, Nat.add_comm 1] using hl
      · rw [endOf_cons] at hd; exact hd

theorem seqParse_soundW (cfg : Cfg) (bodyOf : Nat → G) (r : RunFn) (hr : RunSoundOKW cfg bodyOf r)
    (gs : List G) (so : SeqOpts)
    (sh : SeqShape) (hg : ScopeS cfg bodyOf (.seq .seqOf gs so)) (hs : (G.seq .seqOf gs so).shape = some sh) (pos0 : Nat) :
    ∀ (fuel : Nat) (fr : Frame) ss st b ss' st',
      (CacheS cfg bodyOf st ∧ DerivesSeqW cfg sh 0 pos0 fr.nodes ∧ endOf pos0 fr.nodes = fr.pos ∧
        ∀ x ∈ ss.result.alts, DerivesW cfg (.seq .seqOf gs so) pos0 x) →
      fr.depth = fr.nodes.length →
      seqParse r sh fuel fr.depth fr.nodes fr.ctx fr.pos fr.merge ss st = some (b, ss', st') →
      (CacheS cfg bodyOf st → CacheS cfg bodyOf st') ∧
      ((∀ x ∈ ss.result.alts, DerivesW cfg (.seq .seqOf gs so) pos0 x) →
        ∀ x ∈ ss'.result.alts, DerivesW cfg (.seq .seqOf gs so) pos0 x) := by
  have hafter : ∀ (m : Bool) (ss : SeqSt) (o : Out), (seqAfter m ss o).result = ss.result := by
    intro m ss o; unfold seqAfter; split <;> rfl
  have hemit : ∀ (fr : Frame) (ss : SeqSt), fr.depth = fr.nodes.length → DerivesSeqW cfg sh 0 pos0 fr.nodes →
      endOf pos0 fr.nodes = fr.pos → sh.lenCheck fr.depth = true →
      (∀ x ∈ ss.result.alts, DerivesW cfg (.seq .seqOf gs so) pos0 x) →
      ∀ x ∈ (seqEmit sh fr ss).result.alts, DerivesW cfg (.seq .seqOf gs so) pos0 x := by
    intro fr ss hd hds hend hlc hres x hx
    simp only [seqEmit] at hx
    cases mem_appendNode _ _ _ hx with
    | inl h1 => exact hres x h1
    | inr h1 =>
      simp only [Res.alts, List.mem_singleton] at h1
      subst h1
      have hn : (if fr.depth > 0 then fr.nodes else []) = fr.nodes := by
        split
        · rfl
        · have : fr.nodes.length = 0 := by omega
          exact (List.length_eq_zero_iff.mp this).symm
      rw [hn]
      have hp : handleResult sh fr.pos fr.nodes = handleResult sh pos0 fr.nodes := by
        cases hnn : fr.nodes with
        | nil => rw [hnn] at hend; simp only [endOf_nil] at hend; rw [hend]
        | cons a b => exact handleResult_pos_irrel sh _ _ _ (by simp)
      rw [hp]
      exact DerivesW.seqOf hs hds (by rw [← hd]; exact hlc)
  refine seqParse_ind r sh
    (fun fr ss st => CacheS cfg bodyOf st ∧ DerivesSeqW cfg sh 0 pos0 fr.nodes ∧ endOf pos0 fr.nodes = fr.pos ∧
        ∀ x ∈ ss.result.alts, DerivesW cfg (.seq .seqOf gs so) pos0 x)
    (fun ss st ss' st' => (CacheS cfg bodyOf st → CacheS cfg bodyOf st') ∧
      ((∀ x ∈ ss.result.alts, DerivesW cfg (.seq .seqOf gs so) pos0 x) →
        ∀ x ∈ ss'.result.alts, DerivesW cfg (.seq .seqOf gs so) pos0 x))
    ?_ ?_ ?_ ?_ ?_
  · intro ss st; exact ⟨id, id⟩
  · intro a b c d e f h1 h2; exact ⟨fun h => h2.1 (h1.1 h), fun h => h2.2 (h1.2 h)⟩
  · intro fr ss st ss' st' hJ hE
    exact ⟨hE.1 hJ.1, hJ.2.1, hJ.2.2.1, hE.2 hJ.2.2.2⟩
  · intro fr ss st g' o st1 hJ hd hl hrun
    obtain ⟨j1, j2, j3, j4⟩ := hJ
    have hg' : ScopeS cfg bodyOf g' := hg.lookup hs fr.depth g' hl
    obtain ⟨hn, _, hc⟩ := hr g' fr.ctx fr.pos st.regCall o st1 hg' (CacheS_of_eq j1 rfl) hrun
    refine ⟨⟨fun _ => hc, fun h => by rw [hafter]; exact h⟩, ?_, ?_⟩
    · intro n hnm
      refine ⟨hc, ?_, ?_, by rw [hafter]; exact j4⟩
      · simp only [Frame.next]
        exact DerivesSeqW.snoc j2 (by rw [Nat.zero_add, ← hd]; exact hl) (by rw [j3]; exact hn n hnm)
      · simp only [Frame.next]; exact endOf_snoc _ _ _
    · intro _ hlc
      exact ⟨fun _ => hc, fun h => hemit fr _ hd j2 j3 hlc (by rw [hafter]; exact h)⟩
  · intro fr ss st hJ hd _ hlc
    obtain ⟨j1, j2, j3, j4⟩ := hJ
    exact ⟨id, fun h => hemit fr _ hd j2 j3 hlc (by rw [hafter]; exact h)⟩

theorem ScopeS.ltrim {cfg : Cfg} {bodyOf : Nat → G} {g : G} {m : WsMode} (h : ScopeS cfg bodyOf (.ltrim g m)) :
    (m = .spacesNl ∨ ErrFree cfg g) ∧ ScopeS cfg bodyOf g := by
  have h2 : SoundLocalW cfg (.ltrim g m) ∧ g.All (SoundLocalW cfg) := by simpa only [SoundW, G.All] using h.2.1
  exact ⟨by simpa [SoundLocalW] using h2.1, h.1.ltrim, h2.2, GOK_ltrim h.2.2⟩

theorem ScopeS.rtrim {cfg : Cfg} {bodyOf : Nat → G} {g : G} {m : WsMode} (h : ScopeS cfg bodyOf (.rtrim g m)) :
    (ErrFree cfg g ∧ (m = .spacesNl ∨ OneAlt g)) ∧ ScopeS cfg bodyOf g := by
  have h2 : SoundLocalW cfg (.rtrim g m) ∧ g.All (SoundLocalW cfg) := by simpa only [SoundW, G.All] using h.2.1
  exact ⟨h.1.rtrim.1, h.1.rtrim.2, h2.2, GOK_rtrim h.2.2⟩

theorem wsToErr_none {w : Option (Nat × WsErr)} (h : wsToErr w = none) : w = none := by
  cases w with
  | none => rfl
  | some p => simp [wsToErr] at h

theorem run_soundW (cfg : Cfg) (bodyOf : Nat → G) (henv : ∀ g' ∈ cfg.env, ScopeS cfg bodyOf g') :
    ∀ fuel, RunSoundOKW cfg bodyOf (run cfg fuel) := by
  intro fuel
  induction fuel with
  | zero => intro g ctx pos st o st' _ _ h; simp [run] at h
  | succ fuel ih =>
    intro g ctx pos st o st' hg hcs h
    have hf := hg.1
    cases hsh : g.shape with
    | some sh =>
      obtain ⟨gs, so, rfl⟩ : ∃ gs so, g = .seq .seqOf gs so := by
        cases g with
        | seq k gs so =>
          cases k with
          | seqOf => exact ⟨gs, so, rfl⟩
          | seqTry => have := G.All_self hf; simp [FragLocalW] at this
          | seqFirstOrAll => have := G.All_self hf; simp [FragLocalW] at this
        | many g1 ae so => have := G.All_self hf; simp [FragLocalW] at this
        | sepBy v s ae so => have := G.All_self hf; simp [FragLocalW] at this
        | _ => simp [G.shape] at hsh
      rw [run_seqfam cfg fuel _ sh ctx pos st hsh] at h
      split at h
      · cases h
      · unfold runSeq at h
        split at h
        · cases h
        · rename_i b ss st1 hsp
          have hfin : seqFinish sh pos ss st1 = (o, st') := by injection h
          have hE := seqParse_soundW cfg bodyOf (run cfg fuel) ih gs so sh hg hsh pos fuel ⟨0, [], ctx, pos, true⟩ {} st b ss st1
            ⟨hcs, .nil, rfl, (by intro x hx; cases hx)⟩ rfl hsp
          obtain ⟨f1, f2⟩ := seqFinish_res sh pos ss st1
          have f5 := seqFinish_errfree sh pos ss st1
          rw [hfin] at f1 f2 f5
          exact ⟨fun x hx => hE.2 (by intro x hx; cases hx) x (f1 x hx),
            ⟨fun _ => f5, fun h1 => by simp [OneAlt] at h1⟩, CacheS_of_eq (hE.1 hcs) f2⟩
    | none =>
    by_cases hlt : ∃ g' m, g = .ltrim g' m
    · obtain ⟨g', m, rfl⟩ := hlt
      obtain ⟨hm, hg'⟩ := hg.ltrim
      rw [run_ltrim] at h
      split at h
      · cases h
      · split at h
        · cases h
        · rename_i o1 st1 hr
          have hfin : ltrimFinish pos (skipWhitespaces cfg.file pos m).1 (wsToErr (skipWhitespaces cfg.file pos m).2) o1 st1 = (o, st') := by
            injection h
          obtain ⟨h1, h3, h4⟩ := ih g' ctx _ st o1 st1 hg' hcs hr
          obtain ⟨f1, f2⟩ := ltrimFinish_res pos (skipWhitespaces cfg.file pos m).1 (wsToErr (skipWhitespaces cfg.file pos m).2) o1 st1
          have f3 := OutShape_ltrim cfg g' m pos (skipWhitespaces cfg.file pos m).1 (wsToErr (skipWhitespaces cfg.file pos m).2) o1 st1 h3
          rw [hfin] at f1 f2 f3
          refine ⟨?_, f3, CacheS_of_eq h4 f2⟩
          intro x hx
          cases hw : wsToErr (skipWhitespaces cfg.file pos m).2 with
          | none => exact .ltrim (wsToErr_none hw) (h1 x (f1 x hx))
          | some w =>
            -- the mode rejects the run: with WsSpacesNl impossible, otherwise the operand is ErrFree
            exfalso
            cases hm with
            | inl h5 => subst h5; rw [skip_spacesNl] at hw; simp [wsToErr] at hw
            | inr h5 =>
              have := ltrimFinish_reject pos (skipWhitespaces cfg.file pos m).1 w o1 st1 (h3.1 h5)
              rw [hw] at hfin
              rw [hfin] at this
              simp only at this
              rw [this] at hx; cases hx
    by_cases hrt : ∃ g' m, g = .rtrim g' m
    · obtain ⟨g', m, rfl⟩ := hrt
      obtain ⟨⟨r1, r2⟩, hg'⟩ := hg.rtrim
      rw [run_rtrim_eq] at h
      split at h
      · cases h
      · split at h
        · cases h
        · rename_i o1 st1 hr
          have hfin : rtrimFinish cfg m o1 = o ∧ st1 = st' := by
            injection h with h; injection h with a b; exact ⟨a, b⟩
          obtain ⟨hfo, rfl⟩ := hfin
          subst hfo
          obtain ⟨h1, h3, h4⟩ := ih g' ctx _ st o1 st1 hg' hcs hr
          refine ⟨?_, OutShape_rtrim cfg g' m o1 h3, h4⟩
          intro x hx
          obtain ⟨n, hn, hxe, hok⟩ := rtrimFinish_sound cfg m o1 (h3.1 r1)
            (r2.elim .inl (fun ho => .inr (h3.2 ho))) x hx
          rw [hxe]
          exact .rtrim (h1 n hn) hok
    unfold run at h
    split at h
    · cases h
    · cases g with
      | term t =>
        simp only at h
        split at h
        · rename_i n hp
          cases h
          refine ⟨?_, ⟨fun _ _ => rfl, fun _ => by simp [Res.alts]⟩, hcs⟩
          intro x hx
          simp only [Res.alts, List.mem_singleton] at hx
          subst hx; exact .term hp
        · cases h
          exact ⟨(by intro x hx; cases hx), OutShape_nil _ _ _ _, CacheS_of_eq hcs (logEv_fields st cfg _).1⟩
        · cases h
          exact ⟨(by intro x hx; cases hx), OutShape_nil _ _ _ _, hcs⟩
      | empty =>
        simp only at h
        cases h
        refine ⟨?_, ⟨fun _ _ => rfl, fun _ => by simp [Res.alts]⟩, hcs⟩
        intro x hx
        simp only [Res.alts, List.mem_singleton] at hx
        subst hx; exact .empty
      | eof => have := G.All_self hf; simp [FragLocalW] at this
      | ref k =>
        simp only at h
        split at h
        · rename_i g' hk
          obtain ⟨h1, h3, h4⟩ := ih g' ctx pos st o st' (henv g' (List.mem_of_getElem? hk)) hcs h
          refine ⟨fun x hx => .ref hk (h1 x hx), ⟨?_, fun h5 => by simp [OneAlt] at h5⟩, h4⟩
          intro he
          simp only [ErrFree] at he
          obtain ⟨g2, hk2, ht⟩ := he
          rw [hk] at hk2; cases hk2
          exact h3.1 (ErrFree_of_top cfg g' ht)
        · cases h
          exact ⟨(by intro x hx; cases hx), OutShape_nil _ _ _ _, hcs⟩
      | memo idx body =>
        simp only at h
        have hg2 : body = bodyOf idx ∧ GOK bodyOf body := by simpa [GOK, G.All, LocalOK] using hg.2.2
        have hgb : ScopeS cfg bodyOf body := ⟨All_memo hg.1, All_memo hg.2.1, hg2.2⟩
        cases hc : cacheGet st.cache idx pos ctx with
        | some e =>
          simp only [hc] at h
          cases h
          obtain ⟨hm, hi, hp⟩ := cacheGet_some hc
          have hE := hcs e hm
          refine ⟨?_, ⟨?_, fun h5 => by simp [OneAlt] at h5⟩, CacheS_of_eq hcs (logEv_fields st cfg _).1⟩
          · intro x hx
            have := hE.sound x hx
            rw [hi, hp, ← hg2.1] at this
            exact .memo this
          · intro he
            simp only [ErrFree] at he
            exact hE.shape (by rw [hi, ← hg2.1]; exact he)
        | none =>
          simp only [hc] at h
          by_cases hcur : ctx.get idx > remaining cfg.file pos + Facts.curtailSlack
          · simp only [hcur, ↓reduceIte] at h
            cases h
            exact ⟨(by intro x hx; cases hx), OutShape_nil _ _ _ _, CacheS_of_eq hcs (logEv_fields st cfg _).1⟩
          · simp only [hcur, ↓reduceIte] at h
            split at h
            · cases h
            · rename_i o2 st2 hr
              cases h
              have hih := fun hc1 => ih _ _ _ _ _ _ hgb hc1 hr
              obtain ⟨h1, h3, h4⟩ := hih (CacheS_of_eq hcs (logEv_fields _ cfg _).1)
              refine ⟨fun x hx => .memo (h1 x hx),
                ⟨fun he => h3.1 (by simpa [ErrFree] using he), fun h5 => by simp [OneAlt] at h5⟩, ?_⟩
              intro e he
              cases mem_cacheSave he with
              | inl h5 =>
                subst h5
                refine ⟨?_, ?_⟩
                · intro x hx; simp only at hx ⊢; rw [← hg2.1]; exact h1 x hx
                · simp only; rw [← hg2.1]; exact h3.1
              | inr h5 => exact h4 e h5
      | any gs =>
        simp only at h
        have hgs : ∀ g' ∈ gs, ScopeS cfg bodyOf g' :=
          fun g' hg' => ⟨All_any hg.1 g' hg', All_any hg.2.1 g' hg', All_any hg.2.2 g' hg'⟩
        split at h
        · cases h
        · rename_i a st1 hl
          have hA := anyLoop_ind (run cfg fuel) ctx pos
            (fun a s => (∀ x ∈ a.res.alts, DerivesW cfg (.any gs) pos x) ∧ CacheS cfg bodyOf s) gs
            (by
              intro g' hg' a s o' s' hA hr
              obtain ⟨h1, _, h2⟩ := ih g' ctx pos s.regCall o' s' (hgs g' hg') (CacheS_of_eq hA.2 rfl) hr
              refine ⟨?_, h2⟩
              rw [(altErr_fields pos _ o'.err).2.1]
              intro x hx
              cases mem_appendNode _ _ _ hx with
              | inl h3 => exact hA.1 x h3
              | inr h3 => exact .any hg' (h1 x h3))
            {} st a st1 ⟨(by intro x hx; cases hx), hcs⟩ hl
          split at h
          · cases h
            exact ⟨(by intro x hx; cases hx), OutShape_nil _ _ _ _, hA.2⟩
          · cases h
            exact ⟨hA.1, ⟨fun _ _ => rfl, fun h5 => by simp [OneAlt] at h5⟩,
              CacheS_of_eq hA.2 (setError_ctxErr st1 a.err).2.1⟩
      | optional g' =>
        simp only at h
        have hg' : ScopeS cfg bodyOf g' := ⟨All_optional hg.1, All_optional hg.2.1, All_optional hg.2.2⟩
        split at h
        · cases h
        · rename_i o1 st1 hr
          cases h
          obtain ⟨h1, _, h2⟩ := ih g' ctx pos st o1 _ hg' hcs hr
          refine ⟨?_, ⟨fun h5 => by simp [ErrFree] at h5, fun h5 => by simp [OneAlt] at h5⟩, h2⟩
          intro x hx
          cases mem_appendNode _ _ _ hx with
          | inl h3 => exact .optSome (h1 x h3)
          | inr h3 =>
            simp only [Res.alts, List.mem_singleton] at h3
            subst h3; exact .optNone
      | choice gs => have := G.All_self hf; simp [FragLocalW] at this
      | name g' nm => have := G.All_self hf; simp [FragLocalW] at this
      | single g' => have := G.All_self hf; simp [FragLocalW] at this
      | suppress g' => have := G.All_self hf; simp [FragLocalW] at this
      | ltrim g' m => exact absurd ⟨g', m, rfl⟩ hlt
      | rtrim g' m => exact absurd ⟨g', m, rfl⟩ hrt
      | seq k gs o => simp [G.shape] at hsh
      | many g' ae o => simp [G.shape] at hsh
      | sepBy v s ae o => simp [G.shape] at hsh

end PV.C1T
