/-
  C17, part 17: family 8 ("arith2") — the inputs, the explicit count, the quadratic bounds and the doubling bound.
-/
import Mathlib.Tactic.Linarith
import ParsleyVerif.Proofs.CallsArith2Count
import ParsleyVerif.Proofs.CallsArithDouble
namespace PV.C17b
open PV.Text PV.C17

def ar2Cfg (ops : List Nat) : Cfg := famCfg arith2Env (arData ops)

/-- operators `*`, `/` (within a term) and `+`, `-` (between terms) -/
def Ops2OK (ops : List Nat) : Prop := ∀ o ∈ ops, o = 42 ∨ o = 47 ∨ o = 43 ∨ o = 45

theorem arData_isAr2 (ops : List Nat) (hops : Ops2OK ops) : IsAr2 ops.length (ar2Cfg ops) where
  env := rfl
  off := rfl
  max := rfl
  len := arData_length ops
  noParen := by
    intro p
    show fol (arData ops) 40 p = false
    rcases parity_cases p with rfl | ⟨a, rfl⟩ | ⟨a, rfl⟩
    · rw [fol_arData_zero]; simp
    · rw [fol_arData_odd]; simp
    · rw [fol_arData_even]
      cases h : ops[a]? with
      | none => simp
      | some o =>
        have := hops o (List.mem_of_getElem? h)
        rcases this with rfl | rfl | rfl | rfl <;> simp
  one := by
    intro p h1 h2
    show fol (arData ops) 49 p = true
    obtain ⟨a, rfl⟩ : ∃ a, p = 2 * a + 1 := ⟨p / 2, by omega⟩
    rw [fol_arData_odd]
    simp; omega
  op := by
    intro ch p hne h
    have h' : fol (arData ops) ch p = true := h
    rcases parity_cases p with rfl | ⟨a, rfl⟩ | ⟨a, rfl⟩
    · rw [fol_arData_zero] at h'; simp at h'; exact absurd h' hne
    · rw [fol_arData_odd] at h'; simp at h'; exact absurd h'.2 hne
    · rw [fol_arData_even] at h'
      have : a < ops.length := by
        rcases Nat.lt_or_ge a ops.length with h1 | h1
        · exact h1
        · rw [List.getElem?_eq_none_iff.mpr h1] at h'; simp at h'
      omega

/-- the numbers of operators `*`, `/` of the terms -/
def split2 : List Nat → List Nat
  | [] => [0]
  | o :: os => if o = 42 ∨ o = 47 then bump (split2 os) else 0 :: split2 os

theorem split2_ne : ∀ ops, split2 ops ≠ [] := by
  intro ops
  induction ops with
  | nil => simp [split2]
  | cons o os ih =>
    rw [split2]
    split
    · cases h : split2 os with
      | nil => exact absurd h ih
      | cons r rest => simp [bump]
    · simp

def isMul (o : Nat) : Bool := o == 42 || o == 47
def isAdd (o : Nat) : Bool := o == 43 || o == 45

/-- what the operators are, term by term -/
def Terms2Of (ops rs : List Nat) : Prop :=
  rs ≠ [] ∧ pre (rfOf rs) rs.length = ops.length + 1 ∧
  ∀ i, i < rs.length → ∀ t, t ≤ rfOf rs i →
    ((ops[pre (rfOf rs) i + t]?).map isMul = if t < rfOf rs i then some true else
        if i + 1 < rs.length then some false else none) ∧
    ((ops[pre (rfOf rs) i + t]?).map isAdd = if t < rfOf rs i then some false else
        if i + 1 < rs.length then some true else none)

theorem terms2Of_split : ∀ ops, Ops2OK ops → Terms2Of ops (split2 ops) := by
  intro ops
  induction ops with
  | nil =>
    intro _
    refine ⟨by simp [split2], rfl, ?_⟩
    intro i hi t ht
    simp only [split2, List.length_singleton] at hi
    have : i = 0 := by omega
    subst this
    have : t = 0 := by simpa [rfOf, split2] using ht
    subst this
    simp [rfOf, split2]
  | cons o os ih =>
    intro hops
    obtain ⟨hne, htot, hfact⟩ := ih (fun x hx => hops x (List.mem_cons_of_mem _ hx))
    obtain ⟨r', rest', hrs⟩ : ∃ r' rest', split2 os = r' :: rest' := by
      cases h : split2 os with
      | nil => exact absurd h hne
      | cons a b => exact ⟨a, b, rfl⟩
    have ho := hops o (List.mem_cons_self ..)
    by_cases hm : o = 42 ∨ o = 47
    · -- `*` or `/`: it joins the first term
      have hsp : split2 (o :: os) = (r' + 1) :: rest' := by simp [split2, hm, hrs, bump]
      have hmul : isMul o = true := by rcases hm with rfl | rfl <;> rfl
      have hadd : isAdd o = false := by rcases hm with rfl | rfl <;> rfl
      rw [hsp]
      rw [hrs] at htot hfact
      have hpre : ∀ i, pre (rfOf ((r' + 1) :: rest')) (i + 1) = pre (rfOf (r' :: rest')) (i + 1) + 1 := by
        intro i
        rw [pre_shift, pre_shift, rfOf_cons_succ, rfOf_cons_succ]
        simp [rfOf]; omega
      refine ⟨by simp, ?_, ?_⟩
      · simp only [List.length_cons] at htot ⊢
        rw [hpre, htot]
      · intro i hi t ht
        simp only [List.length_cons] at hi hfact ⊢
        cases i with
        | zero =>
          have hr0 : rfOf ((r' + 1) :: rest') 0 = r' + 1 := rfl
          rw [hr0] at ht ⊢
          cases t with
          | zero => simp [pre, hmul, hadd]
          | succ t =>
            have := hfact 0 (by omega) t (by simpa [rfOf] using (by omega : t ≤ r'))
            have hr0' : rfOf (r' :: rest') 0 = r' := rfl
            rw [hr0'] at this
            simp only [pre, Nat.zero_add] at this ⊢
            rw [List.getElem?_cons_succ, this.1, this.2]
            by_cases h : t < r'
            · have h' : t + 1 < r' + 1 := by omega
              simp [h, h']
            · have h' : ¬ t + 1 < r' + 1 := by omega
              simp [h, h']
        | succ i =>
          have hri : rfOf ((r' + 1) :: rest') (i + 1) = rfOf (r' :: rest') (i + 1) := rfl
          rw [hri] at ht ⊢
          have := hfact (i + 1) (by omega) t ht
          rw [hpre, show pre (rfOf (r' :: rest')) (i + 1) + 1 + t = (pre (rfOf (r' :: rest')) (i + 1) + t) + 1 by omega,
            List.getElem?_cons_succ]
          exact this
    · -- `+` or `-`: a new first term without operators
      have ho' : o = 43 ∨ o = 45 := by
        rcases ho with h | h | h | h
        · exact absurd (.inl h) hm
        · exact absurd (.inr h) hm
        · exact .inl h
        · exact .inr h
      have hmul : isMul o = false := by rcases ho' with rfl | rfl <;> rfl
      have hadd : isAdd o = true := by rcases ho' with rfl | rfl <;> rfl
      have hsp : split2 (o :: os) = 0 :: split2 os := by simp [split2, hm]
      rw [hsp]
      have hpre : ∀ i, pre (rfOf (0 :: split2 os)) (i + 1) = pre (rfOf (split2 os)) i + 1 := by
        intro i
        rw [pre_shift, rfOf_cons_succ]
        simp [rfOf]; omega
      refine ⟨by simp, ?_, ?_⟩
      · simp only [List.length_cons]
        rw [hpre, htot]
      · intro i hi t ht
        simp only [List.length_cons] at hi ⊢
        cases i with
        | zero =>
          have hr0 : rfOf (0 :: split2 os) 0 = 0 := rfl
          rw [hr0] at ht ⊢
          have : t = 0 := by omega
          subst this
          have hl : 0 < (split2 os).length := List.length_pos_iff.mpr hne
          simp [pre, hl, hmul, hadd]
        | succ i =>
          have hri : rfOf (0 :: split2 os) (i + 1) = rfOf (split2 os) i := rfl
          rw [hri] at ht ⊢
          have := hfact i (by omega) t ht
          rw [hpre, show pre (rfOf (split2 os)) i + 1 + t = (pre (rfOf (split2 os)) i + t) + 1 by omega,
            List.getElem?_cons_succ, this.1, this.2]
          by_cases h : t < rfOf (split2 os) i
          · simp [h]
          · by_cases h2 : i + 1 < (split2 os).length
            · have : i + 1 + 1 < (split2 os).length + 1 := by omega
              simp [h, h2, this]
            · have : ¬ i + 1 + 1 < (split2 os).length + 1 := by omega
              simp [h, h2, this]

theorem or_fol_eq (ops : List Nat) (a b : Nat) (x : Nat) :
    (fol (arData ops) a (2 * x + 2) || fol (arData ops) b (2 * x + 2)) =
      ((ops[x]?).map (fun o => o == a || o == b)).getD false := by
  rw [fol_arData_even, fol_arData_even]
  cases h : ops[x]? with
  | none => simp
  | some o =>
    simp only [Option.map_some, Option.getD_some]
    by_cases h1 : o = a
    · subst h1; simp
    · by_cases h2 : o = b
      · subst h2; simp
      · simp [h1, h2]

theorem arData_terms2 (ops : List Nat) (hops : Ops2OK ops) :
    Ar2Terms (ar2Cfg ops).file.data ops.length (rfOf (split2 ops)) ((split2 ops).length - 1) := by
  obtain ⟨hne, htot, hfact⟩ := terms2Of_split ops hops
  have hl : 0 < (split2 ops).length := List.length_pos_iff.mpr hne
  have hs : (split2 ops).length - 1 + 1 = (split2 ops).length := by omega
  refine ⟨by rw [hs]; exact htot, ?_, ?_⟩
  · intro i hi t ht
    show (fol (arData ops) 42 _ || fol (arData ops) 47 _) = _
    have := (hfact i (by omega) t ht).1
    rw [show qf (rfOf (split2 ops)) i + 1 + 2 * t = 2 * (pre (rfOf (split2 ops)) i + t) + 2 by unfold qf; omega,
      or_fol_eq]
    have e : (fun o : Nat => o == 42 || o == 47) = isMul := rfl
    rw [e, this]
    by_cases h : t < rfOf (split2 ops) i
    · simp [h]
    · by_cases h2 : i + 1 < (split2 ops).length <;> simp [h, h2]
  · intro i hi t ht
    show (fol (arData ops) 43 _ || fol (arData ops) 45 _) = _
    have := (hfact i (by omega) t ht).2
    rw [show qf (rfOf (split2 ops)) i + 1 + 2 * t = 2 * (pre (rfOf (split2 ops)) i + t) + 2 by unfold qf; omega,
      or_fol_eq]
    have e : (fun o : Nat => o == 43 || o == 45) = isAdd := rfl
    rw [e, this]
    by_cases h : t < rfOf (split2 ops) i
    · have : ¬ (t = rfOf (split2 ops) i ∧ i < (split2 ops).length - 1) := by omega
      simp [h, this]
    · have ht' : t = rfOf (split2 ops) i := by omega
      by_cases h2 : i + 1 < (split2 ops).length
      · have : t = rfOf (split2 ops) i ∧ i < (split2 ops).length - 1 := ⟨ht', by omega⟩
        simp [h, h2, this]
      · have : ¬ (t = rfOf (split2 ops) i ∧ i < (split2 ops).length - 1) := by omega
        simp [h, h2, this]

/-! ### the explicit count -/

def tcLevels2 (r : Nat) : Nat → Nat
  | 0 => 0
  | j + 1 => tcLevels2 r j + 8 + 2 * min j (r + 1) + 4 * min (min j (r + 1)) r

theorem TC2_eq (data : Bytes) (q r : Nat)
    (hp : ∀ t, t ≤ r → (fol data 42 (q + 1 + 2 * t) || fol data 47 (q + 1 + 2 * t)) = decide (t < r)) :
    ∀ j, TC2 data q j = tcLevels2 r j := by
  intro j
  induction j with
  | zero => rfl
  | succ j ih => rw [TC2_step data q r hp, ih, tcLevels2]

def firstRunsX2 (k : Nat) (rf : Nat → Nat) : Nat → Nat
  | 0 => 0
  | m + 1 => tcLevels2 (rf m) (2 * k + 4 - qf rf m) + firstRunsX2 k rf m

theorem firstRuns2_eq {data : Bytes} {k s : Nat} {rf : Nat → Nat} (ht : Ar2Terms data k rf s) :
    ∀ m, m ≤ s + 1 → firstRuns2 data k rf m = firstRunsX2 k rf m := by
  intro m
  induction m with
  | zero => intro _; rfl
  | succ m ih =>
    intro hm
    rw [firstRuns2, firstRunsX2, ih (by omega), TCf2, TC2_eq data (qf rf m) (rf m) (ht.mul m (by omega))]

/-- **the calls of the spine of `E`** for the input with `k` operators whose terms 0 … s have `rf i` operators `*`, `/`:
    per level 5 calls, two per alternative of the level below and one `T` per `+` or `-` behind them; the first run
    of `T` for every term -/
def arCount2 (k s : Nat) (rf : Nat → Nat) : Nat :=
  ((List.range (2 * k + 3)).map (fun j => 5 + 2 * pre rf (min j (s + 1)) + min j s)).sum + firstRunsX2 k rf (s + 1)

def arCalls2 (ops : List Nat) : Nat := arCount2 ops.length ((split2 ops).length - 1) (rfOf (split2 ops))

/-- **THEOREM (every operator string over {+, -, *, /})**: the parse succeeds; it makes `arCalls2 ops` calls in the
    spine of `E`, one for the element of Sentence and one `End` per alternative up to the one that spans the input
    (between 1 and k+1): between `arCalls2 ops + 2` and `arCalls2 ops + k + 2`, at most (2k+3)(13k+17) + k + 2 -/
theorem ar2_ops_parse (ops : List Nat) (hops : Ops2OK ops) :
    ∃ p, parse (ar2Cfg ops) (24 * ops.length + 44) (G.sentence (.ref 0)) = some p ∧ p.err = none ∧
      p.res.isNil = false ∧ arCalls2 ops + 2 ≤ p.st.calls ∧ p.st.calls ≤ arCalls2 ops + ops.length + 2 ∧
      p.st.calls ≤ (2 * ops.length + 3) * (13 * ops.length + 17) + ops.length + 2 := by
  have hc := arData_isAr2 ops hops
  have ht := arData_terms2 ops hops
  obtain ⟨p, h1, h2, h3, h4, h5⟩ := ar2_parse hc ht
  have e : EC2 (ar2Cfg ops).file.data ops.length (2 * ops.length + 3) = arCalls2 ops := by
    rw [EC2_exact ht, firstRuns2_eq ht _ (Nat.le_refl _)]
    rfl
  have := EC2_le ht
  rw [e] at h4 h5 this
  exact ⟨p, h1, h2, h3, h4, h5, by omega⟩

/-! ### a lower bound and the doubling bound -/

theorem levels2_ge (k s : Nat) (rf : Nat → Nat) (htot : pre rf (s + 1) = k + 1) (hs : s ≤ k) :
    5 * (2 * k + 3) + 2 * ((k + 2) * (k + 1)) ≤
      ((List.range (2 * k + 3)).map (fun j => 5 + 2 * pre rf (min j (s + 1)) + min j s)).sum := by
  have key : ∀ d, 5 * (k + 1 + d) + 2 * (d * (k + 1)) ≤
      ((List.range (k + 1 + d)).map (fun j => 5 + 2 * pre rf (min j (s + 1)) + min j s)).sum := by
    intro d
    induction d with
    | zero =>
      have := sum_range_ge (fun j => 5 + 2 * pre rf (min j (s + 1)) + min j s) 5 (k + 1) (fun j _ => by omega)
      simp only [Nat.add_zero, Nat.zero_mul]
      omega
    | succ d ih =>
      rw [show k + 1 + (d + 1) = (k + 1 + d) + 1 by omega, List.range_succ, List.map_append, List.sum_append]
      simp only [List.map_cons, List.map_nil, List.sum_cons, List.sum_nil]
      have e : min (k + 1 + d) (s + 1) = s + 1 := by omega
      rw [e, htot, Nat.add_mul, Nat.one_mul]
      omega
  have := key (k + 2)
  rw [show k + 1 + (k + 2) = 2 * k + 3 by omega] at this
  omega

theorem tcLevels2_ge (r : Nat) : ∀ D, 8 * D + 6 * triS r D ≤ tcLevels2 r D := by
  intro D
  induction D with
  | zero => simp [triS, tcLevels2]
  | succ D ih => rw [tcLevels2, triS]; omega

theorem tcLevels2_term (r u : Nat) (h : r + 1 ≤ u) : 18 * ((r + 1) * u) ≤ 2 * tcLevels2 r (2 * u + 1) := by
  have h1 := tcLevels2_ge r (2 * u + 1)
  have h2 := triS_high r (2 * u + 1 - r)
  rw [show r + (2 * u + 1 - r) = 2 * u + 1 by omega] at h2
  have h3 := triS_low r r (Nat.le_refl _)
  obtain ⟨w, hw⟩ : ∃ w, u = r + 1 + w := ⟨u - (r + 1), by omega⟩
  subst hw
  have e : 2 * (r + 1 + w) + 1 - r = r + 3 + 2 * w := by omega
  rw [e] at h2
  nlinarith

theorem firstRunsX2_ge (k : Nat) (rf : Nat → Nat) : ∀ m, pre rf m ≤ k + 1 →
    ∀ V, pre rf m + V = k + 1 →
      18 * ((k + 1) * (k + 1)) + 18 * pre rf m ≤ 4 * firstRunsX2 k rf m + 18 * (V * V) := by
  intro m
  induction m with
  | zero =>
    intro _ V hV
    simp only [pre, Nat.zero_add] at hV
    subst hV
    simp [firstRunsX2, pre]
  | succ m ih =>
    intro hm V hV
    rw [pre] at hm hV
    have h1 := ih (by omega) (rf m + 1 + V) (by omega)
    have e : 2 * k + 4 - qf rf m = 2 * (rf m + 1 + V) + 1 := by unfold qf; omega
    have h2 := tcLevels2_term (rf m) (rf m + 1 + V) (by omega)
    rw [firstRunsX2, e, pre]
    nlinarith

theorem arCount2_ge (k s : Nat) (rf : Nat → Nat) (htot : pre rf (s + 1) = k + 1) :
    26 * (k * k) + 118 * k + 112 ≤ 4 * arCount2 k s rf := by
  have hs : s ≤ k := by
    have := le_pre rf (s + 1)
    omega
  have h1 := levels2_ge k s rf htot hs
  have h2 := firstRunsX2_ge k rf (s + 1) (by omega) 0 (by omega)
  rw [htot] at h2
  unfold arCount2
  nlinarith

theorem arCalls2_ge (ops : List Nat) (hops : Ops2OK ops) :
    26 * (ops.length * ops.length) + 118 * ops.length + 112 ≤ 4 * arCalls2 ops := by
  have ht := arData_terms2 ops hops
  exact arCount2_ge ops.length _ _ ht.total

/-- **doubling, for all inputs**: if `ops'` has at most 2k+1 operators (k the number of operators of `ops`), every
    count in the range of `ops'` is at most 16 times every count in the range of `ops` -/
theorem ar2_double (ops ops' : List Nat) (hops : Ops2OK ops) (hk : ops'.length ≤ 2 * ops.length + 1)
    (c c' : Nat) (hc : arCalls2 ops + 2 ≤ c) (hc' : c' ≤ (2 * ops'.length + 3) * (13 * ops'.length + 17) + ops'.length + 2) :
    c' ≤ 16 * c := by
  have h1 := arCalls2_ge ops hops
  have h6 : (2 * ops'.length + 3) * (13 * ops'.length + 17) ≤
      (2 * (2 * ops.length + 1) + 3) * (13 * (2 * ops.length + 1) + 17) :=
    Nat.mul_le_mul (by omega) (by omega)
  generalize ops.length = k at *
  generalize ops'.length = k' at *
  nlinarith

/-! ### the harness's inputs: `1` and the operators `+ - * /` in turn -/

def ops2Cycle (i : Nat) : Nat := [43, 45, 42, 47].getD (i % 4) 43

def arith2Build : Nat → Nat → Bytes → Bytes
  | 0, _, acc => acc
  | fuel + 1, n, acc =>
    if acc.length < n - 1 then arith2Build fuel n (acc ++ [49, ops2Cycle ((acc.length + 1) / 2)]) else acc
def arith2Input (n : Nat) : Bytes := arith2Build n n [] ++ [49]

theorem ops2Cycle_ok (i : Nat) : ops2Cycle i = 42 ∨ ops2Cycle i = 47 ∨ ops2Cycle i = 43 ∨ ops2Cycle i = 45 := by
  unfold ops2Cycle
  have : i % 4 < 4 := Nat.mod_lt _ (by omega)
  generalize i % 4 = m at *
  match m, this with
  | 0, _ => simp
  | 1, _ => simp
  | 2, _ => simp
  | 3, _ => simp

theorem arith2Build_blocks (n : Nat) : ∀ fuel ops, Ops2OK ops →
    ∃ ops', Ops2OK ops' ∧ arith2Build fuel n (blocks ops) = blocks ops' := by
  intro fuel
  induction fuel with
  | zero => intro ops h; exact ⟨ops, h, rfl⟩
  | succ fuel ih =>
    intro ops h
    rw [arith2Build]
    split
    · rw [blocks_snoc]
      exact ih _ (by
        intro o ho
        rcases List.mem_append.mp ho with ho | ho
        · exact h o ho
        · simp only [List.mem_singleton] at ho
          rw [ho]; exact ops2Cycle_ok _)
    · exact ⟨ops, h, rfl⟩

theorem arith2Input_eq (n : Nat) : ∃ ops, Ops2OK ops ∧ arith2Input n = arData ops := by
  obtain ⟨ops, h1, h2⟩ := arith2Build_blocks n n [] (by intro o ho; cases ho)
  refine ⟨ops, h1, ?_⟩
  rw [arith2Input, ← blocks_end]
  congr 1

theorem arith2Build_le (m : Nat) : ∀ fuel acc, acc.length ≤ m → (arith2Build fuel m acc).length ≤ m := by
  intro fuel
  induction fuel with
  | zero => intro acc h; exact h
  | succ fuel ih =>
    intro acc h
    rw [arith2Build]
    split
    · apply ih
      simp; omega
    · exact h

theorem arith2Build_ge (m : Nat) : ∀ fuel acc, m ≤ 2 * fuel + acc.length + 1 → m ≤ (arith2Build fuel m acc).length + 1 := by
  intro fuel
  induction fuel with
  | zero => intro acc h; simpa [arith2Build] using h
  | succ fuel ih =>
    intro acc h
    rw [arith2Build]
    split
    · apply ih
      simp; omega
    · omega

theorem arith2Input_length (n : Nat) : n ≤ (arith2Input n).length ∧ (arith2Input n).length ≤ n + 1 := by
  have h1 := arith2Build_le n n [] (by simp)
  have h2 := arith2Build_ge n n [] (by simp; omega)
  simp only [arith2Input, List.length_append, List.length_singleton]
  omega

end PV.C17b
