/-
  Stage 4 of the core tie, part 1: the result handler of the Sequence family (`seqDefaultResultHandler`) and the
  value-level list primitives it and `sequence.parse` use.
-/
import ParsleyVerif.Proofs.CoreTieWrap
import ParsleyVerif.Proofs.CoreTieData
namespace PV.CoreTie
open PV.FactsCore

@[simp] theorem nodePos_eNode (n : PV.Node) (s : Context) : (CorePrelude.Node_Pos (eNode n) : CM Int) s = .ok (n.pos : Int) s := by
  cases n <;> rfl
@[simp] theorem nodeRpos_eNode (n : PV.Node) (s : Context) :
    (CorePrelude.Node_ReaderPos (eNode n) : CM Int) s = .ok (n.rpos : Int) s := by
  cases n <;> rfl
@[simp] theorem nodeToken_eNode (n : PV.Node) (s : Context) :
    (CorePrelude.Node_Token (eNode n) : CM CorePrelude.Bytes) s = .ok n.token s := by
  cases n with
  | term t v p r => rfl
  | empty p => simp [eNode, CorePrelude.Node_Token, PV.Node.token, CorePrelude.emptyToken]; decide +kernel
  | eof p => simp [eNode, CorePrelude.Node_Token, PV.Node.token, CorePrelude.eofToken]; decide +kernel
  | nt t c p r i => rfl

theorem eofTok_str : CorePrelude.Go.str "EOF" = eofTok := by decide +kernel

theorem any_isNil_map (l : List PV.Node) : (l.map eNode).any CorePrelude.Node.isNil = false := by
  induction l with
  | nil => rfl
  | cons n r ih => simp [ih]

theorem copy_replicate (l : List CNode) :
    CorePrelude.Go.copy (List.replicate l.length (default : CNode)) l = l := by
  simp [CorePrelude.Go.copy]

theorem mkList_len (l : List CNode) (s : Context) :
    (CorePrelude.Go.mkList (CorePrelude.Go.len l) : CM (List CNode)) s = .ok (List.replicate l.length default) s := by
  simp [CorePrelude.Go.mkList, CorePrelude.Go.len]

theorem newNonTerminal (tok : Text.Bytes) (n : PV.Node) (rest : List PV.Node) (i : Interp) (s : Context) :
    (CorePrelude.NewNonTerminalNode tok ((n :: rest).map eNode) (eInterp i) : CM CNode) s =
      .ok (eNode (.nt tok (n :: rest) n.pos ((rest.getLast?).getD n).rpos i)) s := by
  have hl : ((n :: rest).map eNode).getLast? = some (eNode ((rest.getLast?).getD n)) := by
    rw [List.getLast?_map]
    cases h : rest.getLast? with
    | none =>
      have : rest = [] := List.getLast?_eq_none_iff.mp h
      subst this; rfl
    | some x =>
      have : (n :: rest).getLast? = some x := by
        rw [List.getLast?_cons]; simp [h]
      simp [this]
  have ha := any_isNil_map (n :: rest)
  simp only [List.map_cons] at hl ha
  simp only [CorePrelude.NewNonTerminalNode, List.map_cons, hl, ha]
  simp [eNode]

/-- **seqDefaultResultHandler(returnSingle)**, translated, is the model's `handleResult` -/
theorem tie_handler (W : World Context) (sh : SeqShape) (pos : Nat) (nodes : List PV.Node) (s : Context) :
    seqDefaultResultHandler_parse W sh.single pos sh.token (nodes.map eNode) (eInterp sh.interp) s =
      .ok (eNode (handleResult sh pos nodes)) s := by
  match nodes with
  | [] => simp [seqDefaultResultHandler_parse, CorePrelude.Go.len, handleResult, CorePrelude.NewEmptyNonTerminalNode, eNode]
  | [n] =>
    cases hs : sh.single
    · have h1 := mkList_len [eNode n] s
      have h2 := copy_replicate [eNode n]
      have h3 := newNonTerminal sh.token n [] sh.interp s
      have hl : CorePrelude.Go.len [eNode n] = 1 := rfl
      simp only [List.map_cons, List.map_nil, List.length_cons, List.length_nil] at h1 h2 h3
      rw [hl] at h1
      have h2' : CorePrelude.Go.copy [(default : CNode)] [eNode n] = [eNode n] := h2
      have h3' : CorePrelude.NewNonTerminalNode sh.token [eNode n] (eInterp sh.interp) s =
          .ok (eNode (.nt sh.token [n] n.pos n.rpos sh.interp)) s := h3
      simp [seqDefaultResultHandler_parse, hs, handleResult, h1, hl, h2', h3']
    · simp [seqDefaultResultHandler_parse, hs, handleResult, CorePrelude.Go.len, CorePrelude.Go.nth]
  | n :: n2 :: rest =>
    have h1 := mkList_len ((n :: n2 :: rest).map eNode) s
    have h2 := copy_replicate ((n :: n2 :: rest).map eNode)
    have h3 := newNonTerminal sh.token n (n2 :: rest) sh.interp s
    generalize hL : CorePrelude.Go.len ((n :: n2 :: rest).map eNode) = L at h1
    have hl : ¬ (L = 0) := by rw [← hL]; simp [CorePrelude.Go.len]; omega
    have hl1 : ¬ (L = 1) := by rw [← hL]; simp [CorePrelude.Go.len]; omega
    simp only [List.length_map] at h2
    simp only [seqDefaultResultHandler_parse, hL, hl, hl1, decide_false, Bool.false_eq_true, if_false, bind_apply, h1,
      List.length_map, h2, h3, handleResult, pure_apply, ite_apply]

/-! ### the node buffer -/

theorem slice_take (buf : List CNode) (d : Nat) (h : d ≤ buf.length) (s : Context) :
    (CorePrelude.Go.slice buf 0 (d : Int) : CM (List CNode)) s = .ok (buf.take d) s := by
  simp [CorePrelude.Go.slice, h]

theorem nth_ok (buf : List CNode) (i : Nat) (x : CNode) (h : buf[i]? = some x) (s : Context) :
    (CorePrelude.Go.nth buf (i : Int) : CM CNode) s = .ok x s := by
  simp [CorePrelude.Go.nth, h]

end PV.CoreTie
