/-
  C12, step 3: nothing the parser core produces lies below the base offset of the file.
  (`parse` renders the position of the error it reports; to compare the rendering in two file sets the
  position has to be one of the file's own.)
-/
import ParsleyVerif.Proofs.ShiftRun
namespace PV
open PV.Text

/-! ### reader primitives -/

theorem readRune_ge (f : File) (pos ch p : Nat) (b : Bool) (h : readRune f pos ch = some (p, b))
    (hp : f.offset ≤ pos) : f.offset ≤ p := by
  unfold readRune at h
  simp only [File.pos] at h
  repeat' split at h
  all_goals simp_all
  all_goals omega

theorem matchString_ge (f : File) (pos : Nat) (s : Bytes) (p : Nat) (b : Bool) (h : matchString f pos s = some (p, b))
    (hp : f.offset ≤ pos) : f.offset ≤ p := by
  unfold matchString at h
  simp only [File.pos] at h
  repeat' split at h
  all_goals simp_all
  all_goals omega

theorem matchWord_ge (f : File) (pos : Nat) (s : Bytes) (p : Nat) (b : Bool) (h : matchWord f pos s = some (p, b))
    (hp : f.offset ≤ pos) : f.offset ≤ p := by
  unfold matchWord at h
  simp only [File.pos] at h
  repeat' split at h
  all_goals simp_all
  all_goals omega

theorem readRegexp_ge (e : Bytes → Option Nat) (f : File) (pos p : Nat) (v : Option Bytes)
    (h : readRegexp e f pos = some (p, v)) (hp : f.offset ≤ pos) : f.offset ≤ p := by
  unfold readRegexp at h
  simp only [File.pos] at h
  repeat' split at h
  all_goals simp_all
  all_goals omega

theorem readf_ge (fn : Bytes → Option Bytes × Nat) (f : File) (pos p : Nat) (v : Option Bytes)
    (h : readf fn f pos = some (p, v)) (hp : f.offset ≤ pos) : f.offset ≤ p := by
  unfold readf at h
  simp only [File.pos] at h
  repeat' split at h
  all_goals simp_all
  all_goals omega

theorem skipLoop_ge_c12 (f : File) : ∀ (l : Bytes) (cur nl : Nat), (nl = 0 ∨ f.offset ≤ nl) →
    ((skipLoop f l cur nl).2 = 0 ∨ f.offset ≤ (skipLoop f l cur nl).2) := by
  intro l
  induction l with
  | nil => intro cur nl h; simpa [skipLoop] using h
  | cons x r ih =>
    intro cur nl h
    unfold skipLoop
    split
    · apply ih
      split
      · right; unfold File.pos; omega
      · exact h
    · exact h

theorem skipWhitespaces_ge_c12 (f : File) (pos : Nat) (m : WsMode) :
    f.offset ≤ (skipWhitespaces f pos m).1 ∧
    (f.offset ≤ pos → ∀ q k, (skipWhitespaces f pos m).2 = some (q, k) → f.offset ≤ q) := by
  unfold skipWhitespaces
  have hl := skipLoop_ge_c12 f (List.drop (pos - f.offset) f.data) (pos - f.offset) 0 (Or.inl rfl)
  rcases skipLoop f (List.drop (pos - f.offset) f.data) (pos - f.offset) 0 with ⟨cur, nl⟩
  simp only [File.pos] at *
  repeat' split
  all_goals simp_all
  all_goals omega

/-! ### terminals -/

def TermOut.posGE (off : Nat) : TermOut → Prop
  | .node n => n.posGE off
  | .err e => off ≤ e.pos
  | .panic _ => True

theorem Terminal.parse_ge (P : Params) (f : File) (t : Terminal) (pos : Nat) (hp : f.offset ≤ pos) :
    (Terminal.parse P f t pos).posGE f.offset := by
  have hR := readRune_ge f
  have hS := matchString_ge f
  have hW := matchWord_ge f
  have hX := fun e => readRegexp_ge e f
  have hF := fun fn => readf_ge fn f
  cases t <;> simp only [Terminal.parse] <;> (repeat' split) <;>
    simp only [TermOut.posGE, Node.posGE, nf, other] <;> grind

/-! ### nodes, results, errors -/

theorem Node.posGEList_iff (off : Nat) (l : List Node) : Node.posGEList off l ↔ ∀ n ∈ l, Node.posGE off n := by
  induction l with
  | nil => simp [Node.posGEList]
  | cons x xs ih => simp [Node.posGEList, ih]

theorem Node.posGE_pos {off : Nat} {n : Node} (h : n.posGE off) : off ≤ n.pos := by
  cases n <;> simp_all [Node.posGE, Node.pos]
theorem Node.posGE_rpos {off : Nat} {n : Node} (h : n.posGE off) : off ≤ n.rpos := by
  cases n <;> simp_all [Node.posGE, Node.rpos]

theorem nlAppend1_ge {off : Nat} {l : List Node} {n : Node} (hl : ∀ x ∈ l, Node.posGE off x) (hn : n.posGE off) :
    ∀ x ∈ nlAppend1 l n, Node.posGE off x := by
  cases n with
  | empty p =>
    simp only [nlAppend1]
    split
    · exact hl
    · intro x hx; simp only [List.mem_append, List.mem_singleton] at hx
      rcases hx with hx | rfl
      · exact hl x hx
      · exact hn
  | _ =>
    simp only [nlAppend1]
    intro x hx; simp only [List.mem_append, List.mem_singleton] at hx
    rcases hx with hx | rfl
    · exact hl x hx
    · exact hn

theorem foldl_nlAppend1_ge {off : Nat} (l2 : List Node) : ∀ (l : List Node), (∀ x ∈ l, Node.posGE off x) →
    (∀ x ∈ l2, Node.posGE off x) → ∀ x ∈ l2.foldl nlAppend1 l, Node.posGE off x := by
  induction l2 with
  | nil => intro l hl _; exact hl
  | cons n ns ih =>
    intro l hl h2
    simp only [List.foldl_cons]
    exact ih _ (nlAppend1_ge hl (h2 n (by simp))) (fun x hx => h2 x (by simp [hx]))

theorem nlAppend_ge {off : Nat} {l : List Node} {r : Res} (hl : ∀ x ∈ l, Node.posGE off x) (hr : r.posGE off) :
    ∀ x ∈ nlAppend l r, Node.posGE off x := by
  cases r with
  | nil => exact hl
  | one n => exact nlAppend1_ge hl hr
  | list l2 => exact foldl_nlAppend1_ge l2 l hl hr

theorem appendNode_ge {off : Nat} {a c : Res} (ha : a.posGE off) (hc : c.posGE off) : (appendNode a c).posGE off := by
  cases a with
  | nil => cases c <;> exact hc
  | one n =>
    cases c with
    | nil => exact ha
    | one m => exact nlAppend_ge (l := [n]) (r := .one m) (by simpa [Res.posGE] using ha) hc
    | list m => exact nlAppend_ge (l := [n]) (r := .list m) (by simpa [Res.posGE] using ha) hc
  | list l =>
    cases c with
    | nil => exact ha
    | one m => exact nlAppend_ge (l := l) (r := .one m) ha hc
    | list m => exact nlAppend_ge (l := l) (r := .list m) ha hc

theorem errGE_none (off : Nat) : errGE off none := by intro x h; cases h
theorem errGE_some {off : Nat} {e : Err} (h : off ≤ e.pos) : errGE off (some e) := by
  intro x hx; cases hx; exact h

theorem pickErr_ge {off : Nat} {cur new : Option Err} (h1 : errGE off cur) (h2 : errGE off new) :
    errGE off (pickErr cur new) := by
  unfold pickErr
  repeat' split
  all_goals first | exact h1 | exact h2

/-! ### the context -/

theorem regCall_ge {off : Nat} {st : St} (h : st.posGE off) : st.regCall.posGE off := h

theorem logEv_ge {off : Nat} {st : St} (cfg : Cfg) (e : Ev) (h : st.posGE off) : (st.logEv cfg e).posGE off := by
  unfold St.logEv; split <;> exact h

theorem setError_ge {off : Nat} {st : St} {e : Option Err} (h : st.posGE off) (he : errGE off e) :
    (st.setError e).posGE off := by
  unfold St.setError
  repeat' split
  all_goals first | exact h | exact ⟨h.1, he⟩

theorem cacheGet_ge {off : Nat} {c : List CacheEntry} {idx pos : Nat} {ctx : Ctx} {e : CacheEntry}
    (hc : ∀ x ∈ c, CacheEntry.posGE off x) (h : cacheGet c idx pos ctx = some e) : e.posGE off := by
  unfold cacheGet at h
  split at h
  · cases h
  · rename_i e' hf
    split at h
    · cases h; exact hc _ (List.mem_of_find?_eq_some hf)
    · cases h

theorem cacheSave_ge {off : Nat} {c : List CacheEntry} {e : CacheEntry}
    (hc : ∀ x ∈ c, CacheEntry.posGE off x) (he : e.posGE off) : ∀ x ∈ cacheSave c e, CacheEntry.posGE off x := by
  intro x hx
  simp only [cacheSave, List.mem_cons, List.mem_filter] at hx
  rcases hx with rfl | ⟨hx, _⟩
  · exact he
  · exact hc x hx

/-! ### Sequence, Any, Choice -/

theorem handleResult_ge {off : Nat} (sh : SeqShape) {pos : Nat} {nodes : List Node} (hp : off ≤ pos)
    (hn : ∀ x ∈ nodes, Node.posGE off x) : (handleResult sh pos nodes).posGE off := by
  match nodes with
  | [] => simp [handleResult, Node.posGE, Node.posGEList, hp]
  | [n] =>
    have h := hn n (by simp)
    simp only [handleResult]
    split
    · exact h
    · simp [Node.posGE, Node.posGEList, h, Node.posGE_pos h, Node.posGE_rpos h]
  | n :: m :: rest =>
    have h := hn n (by simp)
    simp only [handleResult, Node.posGE, Node.posGEList_iff]
    refine ⟨Node.posGE_pos h, ?_, hn⟩
    cases hl : (m :: rest).getLast? with
    | none => simp at hl
    | some x =>
      have : x ∈ n :: m :: rest := List.mem_cons_of_mem _ (List.mem_of_getLast? hl)
      simpa using Node.posGE_rpos (hn x this)

def SeqSt.posGE (off : Nat) (ss : SeqSt) : Prop := ss.result.posGE off ∧ errGE off ss.err
def AltSt.posGE (off : Nat) (a : AltSt) : Prop := a.res.posGE off ∧ errGE off a.err ∧ errGE off a.nf

theorem altErr_ge {off : Nat} {pos : Nat} {a : AltSt} {e2 : Option Err} (ha : a.posGE off) (he : errGE off e2) :
    (altErr pos a e2).posGE off := by
  unfold altErr
  repeat' split
  all_goals first | exact ha | exact ⟨ha.1, he, ha.2.2⟩ | exact ⟨ha.1, ha.2.1, he⟩

/-! ### trims -/

theorem wsToErr_ge {off : Nat} {e : Option (Nat × WsErr)} (h : ∀ q k, e = some (q, k) → off ≤ q) :
    errGE off (wsToErr e) := by
  cases e with
  | none => exact errGE_none off
  | some qk => exact errGE_some (h qk.1 qk.2 rfl)

theorem setRposNode_ge (f : File) (m : WsMode) {n : Node} {ws : Option Err} (hn : n.posGE f.offset)
    (hws : errGE f.offset ws) :
    (setRposNode f m n ws).1.posGE f.offset ∧ errGE f.offset (setRposNode f m n ws).2 := by
  cases n with
  | term t v p r =>
    have h := skipWhitespaces_ge_c12 f r m
    simp only [Node.posGE] at hn
    simp only [setRposNode]
    exact ⟨⟨hn.1, h.1⟩, wsToErr_ge (h.2 hn.2)⟩
  | nt t c p r i =>
    have h := skipWhitespaces_ge_c12 f r m
    simp only [Node.posGE] at hn
    simp only [setRposNode]
    exact ⟨⟨hn.1, h.1, hn.2.2⟩, wsToErr_ge (h.2 hn.2.1)⟩
  | empty p =>
    have h := skipWhitespaces_ge_c12 f p m
    simp only [Node.posGE] at hn
    simp only [setRposNode]
    exact ⟨h.1, wsToErr_ge (h.2 hn)⟩
  | eof p => exact ⟨hn, hws⟩

theorem setRposList_ge (f : File) (m : WsMode) (l : List Node) : ∀ (ws : Option Err),
    (∀ x ∈ l, Node.posGE f.offset x) → errGE f.offset ws →
    (∀ x ∈ (setRposList f m l ws).1, Node.posGE f.offset x) ∧ errGE f.offset (setRposList f m l ws).2 := by
  induction l with
  | nil => intro ws _ hws; exact ⟨by simp [setRposList], hws⟩
  | cons n rest ih =>
    intro ws hl hws
    have h1 := setRposNode_ge f m (hl n (by simp)) hws
    have h2 := ih (setRposNode f m n ws).2 (fun x hx => hl x (by simp [hx])) h1.2
    simp only [setRposList]
    refine ⟨?_, h2.2⟩
    intro x hx
    simp only [List.mem_cons] at hx
    rcases hx with rfl | hx
    · exact h1.1
    · exact h2.1 x hx

theorem setRposRes_ge (f : File) (m : WsMode) {r : Res} (hr : r.posGE f.offset) :
    (setRposRes f m r).1.posGE f.offset ∧ errGE f.offset (setRposRes f m r).2 := by
  cases r with
  | nil => exact ⟨trivial, errGE_none _⟩
  | one n => exact setRposNode_ge f m hr (errGE_none _)
  | list l => exact setRposList_ge f m l none hr (errGE_none _)

/-! ### the loops -/

def GERel (off : Nat) (r : RunFn) : Prop :=
  ∀ g ctx pos st o st', off ≤ pos → St.posGE off st → r g ctx pos st = some (o, st') → Out.posGE off o ∧ St.posGE off st'

theorem seqAlts_ge {off : Nat} (k : Node → SeqSt → St → Option (Bool × SeqSt × St))
    (hk : ∀ n ss st res, Node.posGE off n → SeqSt.posGE off ss → St.posGE off st → k n ss st = some res →
      SeqSt.posGE off res.2.1 ∧ St.posGE off res.2.2) :
    ∀ (l : List Node) ss st res, (∀ x ∈ l, Node.posGE off x) → SeqSt.posGE off ss → St.posGE off st →
      seqAlts k l ss st = some res → SeqSt.posGE off res.2.1 ∧ St.posGE off res.2.2 := by
  intro l
  induction l with
  | nil => intro ss st res _ hss hst h; simp only [seqAlts] at h; cases h; exact ⟨hss, hst⟩
  | cons n rest ih =>
    intro ss st res hl hss hst h
    simp only [seqAlts] at h
    have hn := hl n (by simp)
    rcases hkn : k n ss st with _ | ⟨_ | _, ss1, st1⟩
    · simp [hkn] at h
    · have := hk n ss st _ hn hss hst hkn
      simp only [hkn] at h
      exact ih ss1 st1 res (fun x hx => hl x (by simp [hx])) this.1 this.2 h
    · have := hk n ss st _ hn hss hst hkn
      simp only [hkn] at h
      cases h
      exact this

theorem seqStep_ge {off : Nat} {r : RunFn} (hr : GERel off r) (sh : SeqShape) (depth : Nat) (ctx : Ctx) {pos : Nat}
    {st : St} {o : Out} {st1 : St} (hp : off ≤ pos) (hst : St.posGE off st)
    (h : seqStep_c12 r sh depth ctx pos st = some (o, st1)) : Out.posGE off o ∧ St.posGE off st1 := by
  unfold seqStep_c12 at h
  split at h
  · exact hr _ _ _ _ _ _ hp (regCall_ge hst) h
  · cases h; exact ⟨⟨trivial, errGE_none _⟩, hst⟩

theorem ssUpd_ge {off : Nat} {merge : Bool} {ss : SeqSt} {o : Out} (hss : SeqSt.posGE off ss) (ho : Out.posGE off o) :
    SeqSt.posGE off (ssUpd merge ss o) := by
  unfold ssUpd
  split <;> exact ⟨hss.1, pickErr_ge hss.2 ho.2⟩

theorem seqParse_ge {off : Nat} {r : RunFn} (hr : GERel off r) (sh : SeqShape) :
    ∀ fuel depth nodes ctx pos merge ss st res, off ≤ pos → (∀ x ∈ nodes, Node.posGE off x) →
      SeqSt.posGE off ss → St.posGE off st →
      seqParse r sh fuel depth nodes ctx pos merge ss st = some res →
      SeqSt.posGE off res.2.1 ∧ St.posGE off res.2.2 := by
  intro fuel
  induction fuel with
  | zero => intro _ _ _ _ _ _ _ _ _ _ _ _ h; simp [seqParse] at h
  | succ fuel ih =>
    intro depth nodes ctx pos merge ss st res hp hn hss hst h
    rw [seqParse_succ_c12] at h
    rcases hs : seqStep_c12 r sh depth ctx pos st with _ | ⟨o, st1⟩
    · simp [hs] at h
    · simp only [hs] at h
      have h1 := seqStep_ge hr sh depth ctx hp hst hs
      have hss1 := ssUpd_ge (merge := merge) hss h1.1
      generalize ssUpd merge ss o = ss1 at h hss1
      unfold seqCont at h
      split at h
      · have hH := handleResult_ge sh hp hn
        have hH0 : (handleResult sh pos []).posGE off := handleResult_ge sh hp (by simp)
        by_cases c1 : sh.lenCheck depth = true
        · by_cases c2 : depth > 0
          · simp only [c1, c2, if_true] at h
            cases h
            exact ⟨⟨appendNode_ge hss1.1 hH, hss1.2⟩, h1.2⟩
          · simp only [c1, c2, if_true, if_false] at h
            cases h
            exact ⟨⟨appendNode_ge hss1.1 hH0, hss1.2⟩, h1.2⟩
        · simp only [c1] at h
          cases h
          exact ⟨hss1, h1.2⟩
      · refine seqAlts_ge _ ?_ _ ss1 st1 res ?_ hss1 h1.2 h
        · intro n ss' st' res' hn' hss' hst' hk
          simp only [seqNext] at hk
          refine ih _ _ _ _ _ _ _ res' (Node.posGE_rpos hn') ?_ hss' hst' hk
          intro x hx
          simp only [List.mem_append, List.mem_singleton] at hx
          rcases hx with hx | rfl
          · exact hn x hx
          · exact hn'
        · have := h1.1.1
          intro x hx
          cases hres : o.res with
          | nil => simp [hres, Res.alts] at hx
          | one n => simp only [hres, Res.alts, List.mem_singleton] at hx; subst hx; simpa [hres, Res.posGE] using this
          | list l => simp only [hres, Res.alts] at hx; rw [hres] at this; exact this x hx

theorem anyLoop_ge {off : Nat} {r : RunFn} (hr : GERel off r) (ctx : Ctx) {pos : Nat} (hp : off ≤ pos) :
    ∀ (gs : List G) (a : AltSt) (st : St) res, AltSt.posGE off a → St.posGE off st →
      anyLoop r ctx pos gs a st = some res → AltSt.posGE off res.1 ∧ St.posGE off res.2 := by
  intro gs
  induction gs with
  | nil => intro a st res ha hst h; simp only [anyLoop] at h; cases h; exact ⟨ha, hst⟩
  | cons g gs ih =>
    intro a st res ha hst h
    simp only [anyLoop] at h
    rcases hs : r g ctx pos st.regCall with _ | ⟨o, st1⟩
    · simp [hs] at h
    · simp only [hs] at h
      have h1 := hr _ _ _ _ _ _ hp (regCall_ge hst) hs
      refine ih _ _ res (altErr_ge ?_ h1.1.2) h1.2 h
      exact ⟨appendNode_ge ha.1 h1.1.1, ha.2.1, ha.2.2⟩

theorem choiceLoop_ge {off : Nat} {r : RunFn} (hr : GERel off r) (ctx : Ctx) {pos : Nat} (hp : off ≤ pos) :
    ∀ (gs : List G) (a : AltSt) (st : St) res, AltSt.posGE off a → St.posGE off st →
      choiceLoop r ctx pos gs a st = some res →
      (∀ o, res.1 = some o → Out.posGE off o) ∧ AltSt.posGE off res.2.1 ∧ St.posGE off res.2.2 := by
  intro gs
  induction gs with
  | nil =>
    intro a st res ha hst h; simp only [choiceLoop] at h; cases h
    exact ⟨fun o ho => (by cases ho), ha, hst⟩
  | cons g gs ih =>
    intro a st res ha hst h
    simp only [choiceLoop] at h
    rcases hs : r g ctx pos st.regCall with _ | ⟨o, st1⟩
    · simp [hs] at h
    · simp only [hs] at h
      have h1 := hr _ _ _ _ _ _ hp (regCall_ge hst) hs
      have ha' : AltSt.posGE off (altErr pos { a with cp := cpUnion a.cp o.cp } o.err) :=
        altErr_ge (a := { a with cp := cpUnion a.cp o.cp }) ha h1.1.2
      split at h
      · cases h
        refine ⟨?_, ha', setError_ge h1.2 ha'.2.1⟩
        intro o' ho'; cases ho'
        exact ⟨h1.1.1, errGE_none _⟩
      · exact ih _ _ res ha' h1.2 h

/-! ### run -/

theorem altSt_default_ge (off : Nat) : AltSt.posGE off {} := ⟨trivial, errGE_none _, errGE_none _⟩
theorem seqSt_default_ge (off : Nat) : SeqSt.posGE off {} := ⟨trivial, errGE_none _⟩
theorem st_default_ge (off : Nat) : St.posGE off {} := ⟨fun c hc => (by cases hc), errGE_none _⟩

theorem seqFinish_ge {off : Nat} (sh : SeqShape) {pos : Nat} {ss : SeqSt} {st : St} (hp : off ≤ pos)
    (hss : SeqSt.posGE off ss) (hst : St.posGE off st) :
    Out.posGE off (seqFinish sh pos ss st).1 ∧ St.posGE off (seqFinish sh pos ss st).2 := by
  unfold seqFinish
  have he := hss.2
  by_cases hnil : ss.result.isNil = true
  · simp only [hnil, if_true]
    refine ⟨⟨trivial, ?_⟩, hst⟩
    intro x hx
    rcases hE : ss.err with _ | e
    · rcases sh.name with _ | nm <;> simp [hE] at hx
    · rcases hN : sh.name with _ | nm
      · simp only [hE, hN, Option.some.injEq] at hx; subst hx; exact he e hE
      · simp only [hE, hN] at hx
        split at hx
        · simp only [Option.some.injEq] at hx; subst hx; exact hp
        · simp only [Option.some.injEq] at hx; subst hx; exact he e hE
  · simp only [hnil]
    refine ⟨⟨hss.1, ?_⟩, setError_ge hst hss.2⟩
    intro x hx
    rcases sh.name with _ | nm <;> simp at hx

theorem seqTail_ge {off : Nat} {r : RunFn} (hr : GERel off r) (sh : SeqShape) (fuel : Nat) (ctx : Ctx) {pos : Nat}
    {st : St} {o : Out} {st' : St} (hp : off ≤ pos) (hst : St.posGE off st)
    (h : seqTail r sh fuel ctx pos st = some (o, st')) : Out.posGE off o ∧ St.posGE off st' := by
  unfold seqTail at h
  rcases hs : seqParse r sh fuel 0 [] ctx pos true {} st with _ | ⟨fst, ss, st1⟩
  · simp [hs] at h
  · simp only [hs, Option.some.injEq] at h
    have := seqParse_ge hr sh fuel 0 [] ctx pos true {} st _ hp (by simp) (seqSt_default_ge off) hst hs
    have h2 := seqFinish_ge sh hp this.1 this.2
    rw [h] at h2
    exact h2

theorem run_ge (cfg : Cfg) : ∀ fuel, GERel cfg.file.offset (run cfg fuel) := by
  intro fuel
  induction fuel with
  | zero => intro g ctx pos st o st' _ _ h; simp [run] at h
  | succ fuel ih =>
    intro g ctx pos st o st' hp hst h
    by_cases hmax : cfg.maxCalls ≠ 0 ∧ st.calls > cfg.maxCalls
    · cases g <;> simp [run, hmax] at h
    · cases g with
      | term t =>
        simp only [run, hmax, if_false] at h
        have ht := Terminal.parse_ge cfg.params cfg.file t pos hp
        split at h
        · rename_i n hn; rw [hn] at ht; cases h; exact ⟨⟨ht, errGE_none _⟩, hst⟩
        · rename_i e he; rw [he] at ht; cases h; exact ⟨⟨trivial, errGE_some ht⟩, logEv_ge _ _ hst⟩
        · cases h; exact ⟨⟨trivial, errGE_some hp⟩, hst⟩
      | empty =>
        simp only [run, hmax, if_false] at h
        cases h; exact ⟨⟨hp, errGE_none _⟩, hst⟩
      | eof =>
        simp only [run, hmax, if_false] at h
        split at h
        · cases h; exact ⟨⟨hp, errGE_none _⟩, hst⟩
        · cases h; exact ⟨⟨trivial, errGE_some hp⟩, logEv_ge _ _ hst⟩
      | ref k =>
        simp only [run, hmax, if_false] at h
        split at h
        · exact ih _ _ _ _ _ _ hp hst h
        · cases h; exact ⟨⟨trivial, errGE_some hp⟩, hst⟩
      | memo idx body =>
        simp only [run, hmax, if_false] at h
        split at h
        · rename_i e he
          have := cacheGet_ge hst.1 he
          cases h; exact ⟨this, logEv_ge _ _ hst⟩
        · split at h
          · cases h; exact ⟨⟨trivial, errGE_none _⟩, logEv_ge _ _ hst⟩
          · split at h
            · cases h
            · rename_i o2 st2 hb
              have hst1 : St.posGE cfg.file.offset ({ st with active := (idx, pos) :: st.active }) := hst
              have := ih _ _ _ _ _ _ hp (logEv_ge cfg _ hst1) hb
              cases h
              exact ⟨this.1, cacheSave_ge this.2.1 ⟨this.1.1, this.1.2⟩, this.2.2⟩
      | any gs =>
        simp only [run, hmax, if_false] at h
        split at h
        · cases h
        · rename_i a st1 ha
          have := anyLoop_ge ih ctx hp gs {} st _ (altSt_default_ge _) hst ha
          split at h
          · cases h
            refine ⟨⟨trivial, ?_⟩, this.2⟩
            split
            · rename_i e he; rw [← he]; exact this.1.2.1
            · exact this.1.2.2
          · cases h; exact ⟨⟨this.1.1, errGE_none _⟩, setError_ge this.2 this.1.2.1⟩
      | choice gs =>
        simp only [run, hmax, if_false] at h
        split at h
        · cases h
        · rename_i o1 a st1 hc
          have := choiceLoop_ge ih ctx hp gs {} st _ (altSt_default_ge _) hst hc
          cases h; exact ⟨this.1 _ rfl, this.2.2⟩
        · rename_i a st1 hc
          have := choiceLoop_ge ih ctx hp gs {} st _ (altSt_default_ge _) hst hc
          cases h
          refine ⟨⟨trivial, ?_⟩, this.2.2⟩
          split
          · rename_i e he; rw [← he]; exact this.2.1.2.1
          · exact this.2.1.2.2
      | optional g' =>
        simp only [run, hmax, if_false] at h
        split at h
        · cases h
        · rename_i o1 st1 hr
          have := ih _ _ _ _ _ _ hp hst hr
          cases h
          exact ⟨⟨appendNode_ge this.1.1 (show Res.posGE _ (.one (.empty pos)) from hp), this.1.2⟩, this.2⟩
      | suppress g' =>
        simp only [run, hmax, if_false] at h
        split at h
        · cases h
        · rename_i o1 st1 hr
          have := ih _ _ _ _ _ _ hp hst hr
          cases h
          exact ⟨⟨this.1.1, errGE_none _⟩, this.2⟩
      | name g' nm =>
        simp only [run, hmax, if_false] at h
        split at h
        · cases h
        · rename_i o1 st1 hr
          have := ih _ _ _ _ _ _ hp hst hr
          repeat' split at h
          all_goals cases h
          · exact ⟨⟨trivial, errGE_some hp⟩, this.2⟩
          · rename_i e he _; exact ⟨⟨trivial, by rw [← he]; exact this.1.2⟩, this.2⟩
          · exact ⟨⟨trivial, errGE_some hp⟩, this.2⟩
          · exact ⟨⟨this.1.1, errGE_none _⟩, this.2⟩
      | single g' =>
        simp only [run, hmax, if_false] at h
        split at h
        · cases h
        · rename_i o1 st1 hr
          have := ih _ _ _ _ _ _ hp hst hr
          repeat' split at h
          all_goals cases h
          · rename_i e he; exact ⟨⟨trivial, by rw [← he]; exact this.1.2⟩, this.2⟩
          · rename_i hres
            have h1 := this.1.1
            rw [hres] at h1
            simp only [Res.posGE, Node.posGE, Node.posGEList] at h1
            exact ⟨⟨h1.2.2.1, errGE_none _⟩, this.2⟩
          · exact ⟨⟨this.1.1, errGE_none _⟩, this.2⟩
      | ltrim g' m =>
        simp only [run, hmax, if_false] at h
        have hw := skipWhitespaces_ge_c12 cfg.file pos m
        rcases hsk : skipWhitespaces cfg.file pos m with ⟨pos', ws⟩
        rw [hsk] at hw h
        simp only [] at h hw
        have hwe : errGE cfg.file.offset (wsToErr ws) := wsToErr_ge (hw.2 hp)
        split at h
        · cases h
        · rename_i o1 st1 hr
          have := ih _ _ _ _ _ _ hw.1 hst hr
          repeat' split at h
          all_goals cases h
          all_goals refine ⟨⟨?_, ?_⟩, ?_⟩
          all_goals first
            | exact trivial
            | exact this.1.1
            | exact this.2
            | exact setError_ge this.2 (errGE_some hp)
            | exact errGE_none _
            | exact errGE_some hp
            | (intro x hx; cases hx; first | exact hwe _ (by assumption) | exact this.1.2 _ (by assumption) | exact hp)
      | rtrim g' m =>
        simp only [run, hmax, if_false] at h
        split at h
        · cases h
        · rename_i o1 st1 hr
          have := ih _ _ _ _ _ _ hp hst hr
          split at h
          · rename_i e he
            have hw := skipWhitespaces_ge_c12 cfg.file e.pos m
            rcases hsk : skipWhitespaces cfg.file e.pos m with ⟨errPos, x⟩
            rw [hsk] at hw h
            simp only [] at h hw
            cases h
            refine ⟨⟨this.1.1, ?_⟩, this.2⟩
            split
            · exact errGE_some hw.1
            · rw [← he]; exact this.1.2
          · have hs := setRposRes_ge cfg.file m this.1.1
            rcases hsr : setRposRes cfg.file m o1.res with ⟨res', ws⟩
            rw [hsr] at hs h
            simp only [] at h hs
            split at h <;> cases h
            · exact ⟨⟨trivial, hs.2⟩, this.2⟩
            · exact ⟨⟨hs.1, errGE_none _⟩, this.2⟩
      | seq k gs o' =>
        rw [run_seqFamily _ _ _ _ _ _ _ (Or.inl ⟨_, _, _, rfl⟩) rfl] at h
        simp only [hmax, if_false] at h
        exact seqTail_ge ih _ fuel ctx hp hst h
      | many g' ae o' =>
        rw [run_seqFamily _ _ _ _ _ _ _ (Or.inr (Or.inl ⟨_, _, _, rfl⟩)) rfl] at h
        simp only [hmax, if_false] at h
        exact seqTail_ge ih _ fuel ctx hp hst h
      | sepBy v s' ae o' =>
        rw [run_seqFamily _ _ _ _ _ _ _ (Or.inr (Or.inr ⟨_, _, _, _, rfl⟩)) rfl] at h
        simp only [hmax, if_false] at h
        exact seqTail_ge ih _ fuel ctx hp hst h

/-! ### parsley.Parse -/

theorem errorWithPosition_shift (b : Nat) (fs fs' : FileSet) (off : Nat)
    (hfs : ∀ p, off ≤ p → fs'.position (p + b) = fs.position p) (e : Err) (he : off ≤ e.pos) :
    errorWithPosition fs' (e.shift b) = errorWithPosition fs e := by
  unfold errorWithPosition
  rw [Err.shift_pos, hfs e.pos he]
  rfl

theorem parse_shift (b : Nat) (cfg : Cfg) (fs' : FileSet) (fuel : Nat) (g : G) (st : St)
    (hws : WsShift b cfg.file) (hst : St.posGE cfg.file.offset st)
    (hfs : ∀ p, cfg.file.offset ≤ p → fs'.position (p + b) = cfg.fileSet.position p) :
    parse (shiftCfg' b fs' cfg) fuel g (st.shift b) = (parse cfg fuel g st).map (ParseOut.shift b) := by
  unfold parse
  have hp0 : (shiftCfg' b fs' cfg).file.pos 0 = cfg.file.pos 0 + b := shiftFile_pos b cfg.file 0
  have hfs' : (shiftCfg' b fs' cfg).fileSet = fs' := rfl
  simp only [hp0, hfs']
  rw [run_shift' b cfg (shiftCfg' b fs' cfg) ⟨rfl, rfl, rfl, rfl, rfl⟩ hws]
  have hpos0 : cfg.file.offset ≤ cfg.file.pos 0 := by simp [File.pos]
  rcases hr : run cfg fuel g [] (cfg.file.pos 0) st with _ | ⟨o, st1⟩
  · rfl
  · have hge := run_ge cfg fuel _ _ _ _ _ _ hpos0 hst hr
    have hE := errorWithPosition_shift b cfg.fileSet fs' cfg.file.offset hfs
    rcases o with ⟨res, cp, oerr⟩
    have hoe : errGE cfg.file.offset oerr := hge.1.2
    have hce : errGE cfg.file.offset st1.ctxErr := hge.2.2
    simp only [Option.map_some, shiftOS, Out.shift, Res.shift_isNil, St.shift_ctxErr]
    have hE0 := hE ⟨cfg.file.pos 0, .other noMatchMsg⟩ hpos0
    rcases oerr with _ | e <;> rcases hcx : st1.ctxErr with _ | ce <;> by_cases hn : res.isNil = true
    all_goals
      try have hEe := hE e (hoe e rfl)
      try have hEc := hE ce (hce ce hcx)
      simp only [hn, Option.map_some, Option.map_none, Option.isNone_none, Option.isNone_some, Bool.and_true,
        Bool.and_false, if_true, Err.shift_kind, Err.shift_pos, gt_iff_lt, Nat.add_lt_add_iff_right,
        Bool.false_eq_true, if_false, ParseOut.shift]
      try simp only [Err.shift] at hE0
      try ((repeat' split) <;> simp_all [Err.shift] <;> rfl)

end PV
