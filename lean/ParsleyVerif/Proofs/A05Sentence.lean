/-
  C05 (full value theorem): through the `Sentence` wrapper.

  * `sentence_completeT`  Proofs/SentenceComplete.lean's `sentence_complete` with the fragment of Proofs/A05Rel.lean
                          (trims allowed): if the operand has a curtailed derivation `DC` from the empty context
                          that ends at the end of the input, `Sentence(operand)` returns a result;
  * `sentence_res_one`    `Sentence(operand)` never returns more than ONE tree: the sequence stops at the first
                          alternative of the operand after which `End` matches, so its result is `nil` or a
                          single node (never a node list).
-/
import ParsleyVerif.Proofs.A05Run
import ParsleyVerif.Proofs.SentenceComplete
namespace PV.A05
open PV PV.Text

theorem sentence_completeT (cfg : Cfg) (bodyOf : Nat → G) (henv : ∀ g' ∈ cfg.env, Frag cfg false g' ∧ GOK bodyOf g')
    (g : G) (hf : Frag cfg false g) (hg : GOK bodyOf g) (fuel : Nat) (pos : Nat) (st : St) (hst : CacheC cfg bodyOf st)
    (o : Out) (st' : St) (h : run cfg fuel (G.sentence g) [] pos st = some (o, st'))
    (y : Node) (hy : DC cfg zeroC g pos y) (hend : isEOF cfg.file y.rpos = true) :
    o.res.alts ≠ [] ∧ o.err = none := by
  cases fuel with
  | zero => simp [run] at h
  | succ f =>
    rw [run_seqfam cfg f _ (sentenceShape g) [] pos st (sentence_shape g)] at h
    split at h
    · cases h
    · unfold runSeq at h
      split at h
      · cases h
      · rename_i b ss st1 hsp
        have hfin : seqFinish (sentenceShape g) pos ss st1 = (o, st') := by injection h
        have hne : ss.result.alts ≠ [] := by
          cases f with
          | zero => simp [seqParse] at hsp
          | succ f1 =>
            have hsp' := hsp
            rw [show seqParse (run cfg (f1 + 1)) (sentenceShape g) (f1 + 1) 0 [] [] pos true {} st =
              seqParse (run cfg (f1 + 1)) (sentenceShape g) (f1 + 1) (Frame.mk 0 [] [] pos true).depth
                (Frame.mk 0 [] [] pos true).nodes (Frame.mk 0 [] [] pos true).ctx (Frame.mk 0 [] [] pos true).pos
                (Frame.mk 0 [] [] pos true).merge {} st from rfl, seqParse_succ] at hsp'
            have hl0 : (sentenceShape g).lookup (Frame.mk 0 [] [] pos true).depth = some g := rfl
            simp only [seqStep, hl0] at hsp'
            cases hr : run cfg (f1 + 1) g [] pos st.regCall with
            | none => simp [hr] at hsp'
            | some p =>
              obtain ⟨o1, st2⟩ := p
              obtain ⟨hO, _, _⟩ := run_completeT cfg bodyOf henv (f1 + 1) g [] pos st.regCall o1 st2 hf hg
                (CacheC_of_eq hst rfl) hr
              have hym : y ∈ o1.res.alts := hO zeroC y (by intro k _; exact Nat.zero_le _) hy
              have hnn : o1.res.isNil = false := by
                cases hres : o1.res with
                | nil => rw [hres] at hym; cases hym
                | one _ => rfl
                | list _ => rfl
              simp only [hr, hnn, Bool.false_eq_true, ↓reduceIte] at hsp'
              refine seqAlts_reach _ (fun s => s.result.alts ≠ []) y o1.res.alts hym ?_ ?_ ?_ _ _ _ _ _ hsp'
              · intro n _ ss2 st2 b2 ss3 st3 hk hq
                cases seqParse_result _ _ f1 ((Frame.mk 0 [] [] pos true).next n) ss2 st2 b2 ss3 st3 rfl hk with
                | inl h1 => rw [h1]; exact hq
                | inr h1 => exact h1
              · intro n _ ss2 st2 ss3 st3 hk
                exact seqParse_true_ne _ _ f1 _ ss2 st2 ss3 st3 hk
              · intro ss2 st2 b2 ss3 st3 hk
                exact seqParse_eof_ne cfg (f1 + 1) (sentenceShape g) f1 ((Frame.mk 0 [] [] pos true).next y) ss2 st2 b2 ss3 st3
                  rfl rfl rfl hend hk
        have hnil : ss.result.isNil = false := by
          cases hres : ss.result with
          | nil => rw [hres] at hne; exact absurd rfl hne
          | one _ => rfl
          | list _ => rfl
        have e1 : (seqFinish (sentenceShape g) pos ss st1).1.res = ss.result := by simp [seqFinish, hnil]
        have e2 : (seqFinish (sentenceShape g) pos ss st1).1.err = none := by
          simp only [seqFinish, hnil, Bool.false_eq_true, ↓reduceIte]
        rw [hfin] at e1 e2
        exact ⟨by rw [e1]; exact hne, e2⟩

/-! ### at most one tree -/

/-- how one pass over (part of) a sentence changes the collected result: not at all, or one tree is added and
    the enumeration stops -/
def Once (ss : SeqSt) (b : Bool) (ss' : SeqSt) : Prop :=
  (b = false ∧ ss'.result = ss.result) ∨ (b = true ∧ ∃ x, ss'.result = appendNode ss.result (.one x))

theorem seqAlts_once (k : Node → SeqSt → St → Option (Bool × SeqSt × St)) :
    ∀ (l : List Node), (∀ n ∈ l, ∀ ss st b ss' st', k n ss st = some (b, ss', st') → Once ss b ss') →
      ∀ ss st b ss' st', seqAlts k l ss st = some (b, ss', st') → Once ss b ss' := by
  intro l
  induction l with
  | nil =>
    intro _ ss st b ss' st' h
    simp only [seqAlts] at h
    cases h
    exact .inl ⟨rfl, rfl⟩
  | cons n rest ih =>
    intro hk ss st b ss' st' h
    simp only [seqAlts] at h
    split at h
    · cases h
    · rename_i ss1 st1 hk1
      injection h with h
      injection h with hb h
      injection h with h1 h2
      subst hb h1 h2
      exact hk n (List.mem_cons_self ..) _ _ _ _ _ hk1
    · rename_i ss1 st1 hk1
      have e1 := hk n (List.mem_cons_self ..) _ _ _ _ _ hk1
      have e2 := ih (fun n' hn' => hk n' (List.mem_cons_of_mem _ hn')) _ _ _ _ _ h
      rcases e1 with ⟨_, e1⟩ | ⟨e1, _⟩
      · rcases e2 with ⟨e2, e3⟩ | ⟨e2, x, e3⟩
        · exact .inl ⟨e2, by rw [e3, e1]⟩
        · exact .inr ⟨e2, x, by rw [e3, e1]⟩
      · cases e1

theorem run_eof_alts (cfg : Cfg) (fuel : Nat) (ctx : Ctx) (pos : Nat) (st : St) (o : Out) (st' : St)
    (h : run cfg fuel .eof ctx pos st = some (o, st')) : ∀ n ∈ o.res.alts, n.token = eofTok := by
  cases fuel with
  | zero => simp [run] at h
  | succ f =>
    unfold run at h
    split at h
    · cases h
    · simp only at h
      split at h
      · cases h
        intro n hn
        simp only [Res.alts, List.mem_singleton] at hn
        subst hn; rfl
      · cases h
        intro n hn; cases hn

theorem seqParse_sentence_once (cfg : Cfg) (f : Nat) (g : G) :
    ∀ (fuel : Nat) (fr : Frame) ss st b ss' st', fr.depth = fr.nodes.length → fr.depth ≤ 2 →
      (fr.depth = 2 → ∃ l, fr.nodes.getLast? = some l ∧ l.token = eofTok) →
      seqParse (run cfg f) (sentenceShape g) fuel fr.depth fr.nodes fr.ctx fr.pos fr.merge ss st = some (b, ss', st') →
      Once ss b ss' := by
  intro fuel
  induction fuel with
  | zero => intro fr ss st b ss' st' _ _ _ h; simp [seqParse] at h
  | succ fuel ih =>
    intro fr ss st b ss' st' hd hle hlast h
    rw [seqParse_succ] at h
    generalize hstep : seqStep (run cfg f) (sentenceShape g) fr st = step at h
    cases step with
    | none => simp at h
    | some p =>
    obtain ⟨o, st1⟩ := p
    simp only at h
    by_cases hnil : o.res.isNil = true
    · simp only [hnil, ↓reduceIte] at h
      by_cases hlc : (sentenceShape g).lenCheck fr.depth = true
      · simp only [hlc, ↓reduceIte] at h
        injection h with h
        injection h with hb h
        injection h with hs _
        subst hb hs
        have hd2 : fr.depth = 2 := by simpa [sentenceShape] using hlc
        obtain ⟨l, hl1, hl2⟩ := hlast hd2
        refine .inr ⟨?_, handleResult (sentenceShape g) fr.pos (if fr.depth > 0 then fr.nodes else []), ?_⟩
        · simp [emitB, hd2, hl1, hl2]
        · simp only [seqEmit, seqAfter_result]
      · simp only [hlc] at h
        injection h with h
        injection h with hb h
        injection h with hs _
        subst hb hs
        exact .inl ⟨rfl, seqAfter_result _ _ _⟩
    · have hnil' : o.res.isNil = false := by simpa using hnil
      simp only [hnil', Bool.false_eq_true, ↓reduceIte] at h
      -- there is an element at this depth: depth is 0 or 1
      have hdlt : fr.depth < 2 := by
        rcases Nat.lt_or_ge fr.depth 2 with h1 | h1
        · exact h1
        · have hd2 : fr.depth = 2 := by omega
          unfold seqStep at hstep
          have : (sentenceShape g).lookup fr.depth = none := by rw [hd2]; rfl
          simp only [this] at hstep
          cases hstep
          simp [Res.isNil] at hnil
      have hstep' := hstep
      unfold seqStep at hstep'
      have e := seqAlts_once _ o.res.alts
        (by
          intro n hn ss2 st2 b2 ss3 st3 hk
          refine ih (fr.next n) ss2 st2 b2 ss3 st3 (by simp [Frame.next, hd]) (by simp only [Frame.next]; omega) ?_ hk
          intro hd2
          have hd1 : fr.depth = 1 := by simp only [Frame.next] at hd2; omega
          have hl : (sentenceShape g).lookup fr.depth = some .eof := by rw [hd1]; rfl
          simp only [hl] at hstep'
          refine ⟨n, by simp [Frame.next], ?_⟩
          exact run_eof_alts cfg f fr.ctx fr.pos st.regCall o st1 hstep' n hn)
        _ _ _ _ _ h
      rcases e with ⟨e1, e2⟩ | ⟨e1, x, e2⟩
      · exact .inl ⟨e1, by rw [e2, seqAfter_result]⟩
      · exact .inr ⟨e1, x, by rw [e2, seqAfter_result]⟩

/-- **`Sentence(operand)` returns at most one tree** -/
theorem sentence_res_one (cfg : Cfg) (fuel : Nat) (g : G) (ctx : Ctx) (pos : Nat) (st : St) (o : Out) (st' : St)
    (h : run cfg fuel (G.sentence g) ctx pos st = some (o, st')) : o.res = .nil ∨ ∃ x, o.res = .one x := by
  cases fuel with
  | zero => simp [run] at h
  | succ f =>
    rw [run_seqfam cfg f _ (sentenceShape g) ctx pos st (sentence_shape g)] at h
    split at h
    · cases h
    · unfold runSeq at h
      split at h
      · cases h
      · rename_i b ss st1 hsp
        have hfin : seqFinish (sentenceShape g) pos ss st1 = (o, st') := by injection h
        have hres : o.res = if ss.result.isNil then .nil else ss.result := by
          have : o = (seqFinish (sentenceShape g) pos ss st1).1 := by rw [hfin]
          rw [this]
          by_cases hn : ss.result.isNil = true <;> simp [seqFinish, hn]
        have honce := seqParse_sentence_once cfg f g f ⟨0, [], ctx, pos, true⟩ {} st b ss st1 rfl (by simp)
          (by intro hc; simp at hc) hsp
        rcases honce with ⟨_, e⟩ | ⟨_, x, e⟩
        · left
          rw [hres, e]; rfl
        · right
          refine ⟨x, ?_⟩
          rw [hres, e]; rfl

end PV.A05
