/-
  C17, part 13: the arithmetic family — the inputs.  Every string `1 o₁ 1 … o_k 1` with operators in {*, +}
  (`arData ops`) satisfies the hypotheses of CallsArith.lean / CallsArithCount.lean (`arData_isAr`,
  `arData_terms`: its terms are the maximal runs of `*`), and the harness's input of every length parameter is such
  a string (`arithInput_eq`).
-/
import ParsleyVerif.Proofs.CallsArithCount
namespace PV.C17b
open PV.Text PV.C17

/-- `1 o₁ 1 o₂ … o_k 1` -/
def arData (ops : List Nat) : Bytes := 49 :: ops.flatMap (fun o => [o, 49])

theorem arData_cons (o : Nat) (os : List Nat) : arData (o :: os) = 49 :: o :: arData os := by
  simp [arData]

theorem arData_length : ∀ ops, (arData ops).length = 2 * ops.length + 1 := by
  intro ops
  induction ops with
  | nil => rfl
  | cons o os ih => rw [arData_cons]; simp only [List.length_cons, ih]; omega

theorem arData_even : ∀ ops i, (arData ops)[2 * i]? = if i ≤ ops.length then some 49 else none := by
  intro ops
  induction ops with
  | nil =>
    intro i
    cases i with
    | zero => rfl
    | succ i => simp [arData]
  | cons o os ih =>
    intro i
    cases i with
    | zero => simp [arData]
    | succ i =>
      rw [arData_cons, show 2 * (i + 1) = 2 * i + 1 + 1 by omega, List.getElem?_cons_succ, List.getElem?_cons_succ, ih]
      simp

theorem arData_odd : ∀ ops i, (arData ops)[2 * i + 1]? = ops[i]? := by
  intro ops
  induction ops with
  | nil => intro i; simp [arData]
  | cons o os ih =>
    intro i
    cases i with
    | zero => simp [arData]
    | succ i =>
      rw [arData_cons, show 2 * (i + 1) + 1 = (2 * i + 1) + 1 + 1 by omega, List.getElem?_cons_succ,
        List.getElem?_cons_succ, ih]
      simp

theorem fol_arData_even (ops : List Nat) (ch a : Nat) : fol (arData ops) ch (2 * a + 2) = (ops[a]? == some ch) := by
  rw [fol, show 2 * a + 2 - 1 = 2 * a + 1 by omega, arData_odd]

theorem fol_arData_odd (ops : List Nat) (ch a : Nat) :
    fol (arData ops) ch (2 * a + 1) = decide (a ≤ ops.length ∧ ch = 49) := by
  rw [fol, show 2 * a + 1 - 1 = 2 * a by omega, arData_even]
  by_cases h : a ≤ ops.length
  · by_cases h' : ch = 49
    · subst h'; simp [h]
    · have : ¬ (49 = ch) := fun x => h' x.symm
      simp [h, h', this]
  · simp [h]

theorem fol_arData_zero (ops : List Nat) (ch : Nat) : fol (arData ops) ch 0 = decide (ch = 49) := by
  simp only [fol, arData, Nat.zero_sub, List.getElem?_cons_zero]
  by_cases h' : ch = 49
  · subst h'; simp
  · have : ¬ (49 = ch) := fun x => h' x.symm
    simp [h', this]

def arCfg (ops : List Nat) : Cfg := famCfg arithEnv (arData ops)

def OpsOK (ops : List Nat) : Prop := ∀ o ∈ ops, o = 42 ∨ o = 43

theorem parity_cases (p : Nat) : p = 0 ∨ (∃ a, p = 2 * a + 1) ∨ (∃ a, p = 2 * a + 2) := by
  by_cases h0 : p = 0
  · exact .inl h0
  · by_cases h1 : p % 2 = 1
    · exact .inr (.inl ⟨p / 2, by omega⟩)
    · exact .inr (.inr ⟨p / 2 - 1, by omega⟩)

theorem arData_isAr (ops : List Nat) (hops : OpsOK ops) : IsAr ops.length (arCfg ops) where
  env := rfl
  off := rfl
  max := rfl
  len := arData_length ops
  noParen := by
    intro p
    show fol (arData ops) 40 p = false
    rcases parity_cases p with rfl | ⟨a, rfl⟩ | ⟨a, rfl⟩
    · rw [fol_arData_zero]; simp
    · rw [fol_arData_odd]; simp
    · rw [fol_arData_even]
      cases h : ops[a]? with
      | none => simp
      | some o =>
        have := hops o (List.mem_of_getElem? h)
        rcases this with rfl | rfl <;> simp
  one := by
    intro p h1 h2
    show fol (arData ops) 49 p = true
    obtain ⟨a, rfl⟩ : ∃ a, p = 2 * a + 1 := ⟨p / 2, by omega⟩
    rw [fol_arData_odd]
    simp; omega
  star := by
    intro p h
    have h' : fol (arData ops) 42 p = true := h
    rcases parity_cases p with rfl | ⟨a, rfl⟩ | ⟨a, rfl⟩
    · rw [fol_arData_zero] at h'; simp at h'
    · rw [fol_arData_odd] at h'; simp at h'
    · rw [fol_arData_even] at h'
      have : a < ops.length := by
        rcases Nat.lt_or_ge a ops.length with h1 | h1
        · exact h1
        · rw [List.getElem?_eq_none_iff.mpr h1] at h'; simp at h'
      omega
  plus := by
    intro p h
    have h' : fol (arData ops) 43 p = true := h
    rcases parity_cases p with rfl | ⟨a, rfl⟩ | ⟨a, rfl⟩
    · rw [fol_arData_zero] at h'; simp at h'
    · rw [fol_arData_odd] at h'; simp at h'
    · rw [fol_arData_even] at h'
      have : a < ops.length := by
        rcases Nat.lt_or_ge a ops.length with h1 | h1
        · exact h1
        · rw [List.getElem?_eq_none_iff.mpr h1] at h'; simp at h'
      omega

/-! ### the terms: the maximal runs of `*` -/

def bump : List Nat → List Nat
  | r :: rest => (r + 1) :: rest
  | [] => [1]

/-- the numbers of stars of the terms -/
def split : List Nat → List Nat
  | [] => [0]
  | o :: os => if o = 42 then bump (split os) else 0 :: split os

theorem split_ne : ∀ ops, split ops ≠ [] := by
  intro ops
  induction ops with
  | nil => simp [split]
  | cons o os ih =>
    rw [split]
    split
    · cases h : split os with
      | nil => exact absurd h ih
      | cons r rest => simp [bump]
    · simp

def rfOf (rs : List Nat) (i : Nat) : Nat := rs.getD i 0

theorem pre_shift (f : Nat → Nat) : ∀ i, pre f (i + 1) = f 0 + 1 + pre (fun j => f (j + 1)) i := by
  intro i
  induction i with
  | zero => simp [pre]
  | succ i ih => rw [pre, ih, pre]; omega

theorem rfOf_cons_succ (a : Nat) (rs : List Nat) : (fun j => rfOf (a :: rs) (j + 1)) = rfOf rs := by
  funext j; simp [rfOf]

/-- what the operators are, term by term -/
def TermsOf (ops rs : List Nat) : Prop :=
  rs ≠ [] ∧ pre (rfOf rs) rs.length = ops.length + 1 ∧
  ∀ i, i < rs.length → ∀ t, t ≤ rfOf rs i →
    ops[pre (rfOf rs) i + t]? = if t < rfOf rs i then some 42 else if i + 1 < rs.length then some 43 else none

theorem termsOf_split : ∀ ops, OpsOK ops → TermsOf ops (split ops) := by
  intro ops
  induction ops with
  | nil =>
    intro _
    refine ⟨by simp [split], rfl, ?_⟩
    intro i hi t ht
    simp only [split, List.length_singleton] at hi
    have : i = 0 := by omega
    subst this
    have : t = 0 := by simpa [rfOf, split] using ht
    subst this
    simp [rfOf, split]
  | cons o os ih =>
    intro hops
    obtain ⟨hne, htot, hfact⟩ := ih (fun x hx => hops x (List.mem_cons_of_mem _ hx))
    obtain ⟨r', rest', hrs⟩ : ∃ r' rest', split os = r' :: rest' := by
      cases h : split os with
      | nil => exact absurd h hne
      | cons a b => exact ⟨a, b, rfl⟩
    rcases hops o (List.mem_cons_self ..) with rfl | rfl
    · -- a star: it joins the first term
      have hsp : split (42 :: os) = (r' + 1) :: rest' := by simp [split, hrs, bump]
      rw [hsp]
      rw [hrs] at htot hfact
      have hpre : ∀ i, pre (rfOf ((r' + 1) :: rest')) (i + 1) = pre (rfOf (r' :: rest')) (i + 1) + 1 := by
        intro i
        rw [pre_shift, pre_shift, rfOf_cons_succ, rfOf_cons_succ]
        simp [rfOf]; omega
      refine ⟨by simp, ?_, ?_⟩
      · simp only [List.length_cons] at htot ⊢
        rw [hpre, htot]
      · intro i hi t ht
        simp only [List.length_cons] at hi hfact ⊢
        cases i with
        | zero =>
          have hr0 : rfOf ((r' + 1) :: rest') 0 = r' + 1 := rfl
          rw [hr0] at ht ⊢
          cases t with
          | zero => simp [pre]
          | succ t =>
            have := hfact 0 (by omega) t (by simpa [rfOf] using (by omega : t ≤ r'))
            have hr0' : rfOf (r' :: rest') 0 = r' := rfl
            rw [hr0'] at this
            simp only [pre, Nat.zero_add] at this ⊢
            rw [List.getElem?_cons_succ, this]
            by_cases h : t < r'
            · have h' : t + 1 < r' + 1 := by omega
              simp [h, h']
            · have h' : ¬ t + 1 < r' + 1 := by omega
              simp [h, h']
        | succ i =>
          have hri : rfOf ((r' + 1) :: rest') (i + 1) = rfOf (r' :: rest') (i + 1) := rfl
          rw [hri] at ht ⊢
          have := hfact (i + 1) (by omega) t ht
          rw [hpre, show pre (rfOf (r' :: rest')) (i + 1) + 1 + t = (pre (rfOf (r' :: rest')) (i + 1) + t) + 1 by omega,
            List.getElem?_cons_succ, this]
    · -- a plus: a new first term without stars
      have hsp : split (43 :: os) = 0 :: split os := by simp [split]
      rw [hsp]
      have hpre : ∀ i, pre (rfOf (0 :: split os)) (i + 1) = pre (rfOf (split os)) i + 1 := by
        intro i
        rw [pre_shift, rfOf_cons_succ]
        simp [rfOf]; omega
      refine ⟨by simp, ?_, ?_⟩
      · simp only [List.length_cons]
        rw [hpre, htot]
      · intro i hi t ht
        simp only [List.length_cons] at hi ⊢
        cases i with
        | zero =>
          have hr0 : rfOf (0 :: split os) 0 = 0 := rfl
          rw [hr0] at ht ⊢
          have : t = 0 := by omega
          subst this
          have hl : 0 < (split os).length := List.length_pos_iff.mpr hne
          simp [pre, hl]
        | succ i =>
          have hri : rfOf (0 :: split os) (i + 1) = rfOf (split os) i := rfl
          rw [hri] at ht ⊢
          have := hfact i (by omega) t ht
          rw [hpre, show pre (rfOf (split os)) i + 1 + t = (pre (rfOf (split os)) i + t) + 1 by omega,
            List.getElem?_cons_succ, this]
          by_cases h : t < rfOf (split os) i
          · simp [h]
          · by_cases h2 : i + 1 < (split os).length
            · have : i + 1 + 1 < (split os).length + 1 := by omega
              simp [h, h2, this]
            · have : ¬ i + 1 + 1 < (split os).length + 1 := by omega
              simp [h, h2, this]

theorem arData_terms (ops : List Nat) (hops : OpsOK ops) :
    ArTerms (arCfg ops).file.data ops.length (rfOf (split ops)) ((split ops).length - 1) := by
  obtain ⟨hne, htot, hfact⟩ := termsOf_split ops hops
  have hl : 0 < (split ops).length := List.length_pos_iff.mpr hne
  have hs : (split ops).length - 1 + 1 = (split ops).length := by omega
  refine ⟨by rw [hs]; exact htot, ?_, ?_⟩
  · intro i hi t ht
    show fol (arData ops) 42 _ = _
    have := hfact i (by omega) t ht
    rw [show qf (rfOf (split ops)) i + 1 + 2 * t = 2 * (pre (rfOf (split ops)) i + t) + 2 by unfold qf; omega,
      fol_arData_even, this]
    by_cases h : t < rfOf (split ops) i
    · simp [h]
    · by_cases h2 : i + 1 < (split ops).length <;> simp [h, h2]
  · intro i hi t ht
    show fol (arData ops) 43 _ = _
    have := hfact i (by omega) t ht
    rw [show qf (rfOf (split ops)) i + 1 + 2 * t = 2 * (pre (rfOf (split ops)) i + t) + 2 by unfold qf; omega,
      fol_arData_even, this]
    by_cases h : t < rfOf (split ops) i
    · have : ¬ (t = rfOf (split ops) i ∧ i < (split ops).length - 1) := by omega
      simp [h, this]
    · have ht' : t = rfOf (split ops) i := by omega
      by_cases h2 : i + 1 < (split ops).length
      · have : t = rfOf (split ops) i ∧ i < (split ops).length - 1 := ⟨ht', by omega⟩
        simp [h2, this]
      · have : ¬ (t = rfOf (split ops) i ∧ i < (split ops).length - 1) := by omega
        simp [h2, this]

/-! ### the explicit count -/

/-- the calls of the first `j` levels of the spine of `T` at a term with `r` stars -/
def tcLevels (r : Nat) : Nat → Nat
  | 0 => 0
  | j + 1 => tcLevels r j + 6 + min j (r + 1) + 4 * min (min j (r + 1)) r

theorem TC_eq (data : Bytes) (q r : Nat) (hp : ∀ t, t ≤ r → fol data 42 (q + 1 + 2 * t) = decide (t < r)) :
    ∀ j, TC data q j = tcLevels r j := by
  intro j
  induction j with
  | zero => rfl
  | succ j ih => rw [TC_step data q r hp, ih, tcLevels]

/-- the first runs of `T` for the terms 0 … m-1 -/
def firstRunsX (k : Nat) (rf : Nat → Nat) : Nat → Nat
  | 0 => 0
  | m + 1 => tcLevels (rf m) (2 * k + 4 - qf rf m) + firstRunsX k rf m

theorem firstRuns_eq {data : Bytes} {k s : Nat} {rf : Nat → Nat} (ht : ArTerms data k rf s) :
    ∀ m, m ≤ s + 1 → firstRuns data k rf m = firstRunsX k rf m := by
  intro m
  induction m with
  | zero => intro _; rfl
  | succ m ih =>
    intro hm
    rw [firstRuns, firstRunsX, ih (by omega), TCf, TC_eq data (qf rf m) (rf m) (ht.star m (by omega))]

/-- **the call count of the arithmetic family** on the input with `k` operators whose terms 0 … s have `rf i`
    stars: per level of the spine of `E` (2k+3 levels) 3 calls, one per alternative of the level below (the ends of
    its first min(j, s+1) terms) and one `T` per `+` behind them; the first run of `T` for every term; 2 for Sentence -/
def arCount (k s : Nat) (rf : Nat → Nat) : Nat :=
  ((List.range (2 * k + 3)).map (fun j => 3 + pre rf (min j (s + 1)) + min j s)).sum + firstRunsX k rf (s + 1) + 2

/-- the same for an operator string -/
def arCalls (ops : List Nat) : Nat := arCount ops.length ((split ops).length - 1) (rfOf (split ops))

/-- **THEOREM (every operator string over {*, +})**: the parse succeeds with exactly `arCalls ops` calls, which is at
    most (2k+3)(9k+11) + 2 -/
theorem ar_ops_parse (ops : List Nat) (hops : OpsOK ops) :
    ∃ p, parse (arCfg ops) (24 * ops.length + 44) (G.sentence (.ref 0)) = some p ∧ p.err = none ∧
      p.res.isNil = false ∧ p.st.calls = arCalls ops ∧
      p.st.calls ≤ (2 * ops.length + 3) * (9 * ops.length + 11) + 2 := by
  have hc := arData_isAr ops hops
  have ht := arData_terms ops hops
  obtain ⟨p, h1, h2, h3, h4⟩ := ar_parse hc ht
  refine ⟨p, h1, h2, h3, ?_, ?_⟩
  · rw [h4, EC_exact ht, firstRuns_eq ht _ (Nat.le_refl _)]
    rfl
  · rw [h4]
    have := EC_le ht
    omega

/-! ### the harness's inputs -/

def blocks (ops : List Nat) : Bytes := ops.flatMap (fun o => [49, o])

theorem blocks_snoc (ops : List Nat) (o : Nat) : blocks ops ++ [49, o] = blocks (ops ++ [o]) := by
  simp [blocks]

theorem blocks_end : ∀ ops, blocks ops ++ [49] = arData ops := by
  intro ops
  induction ops with
  | nil => rfl
  | cons o os ih =>
    rw [arData_cons, ← ih]
    simp [blocks]

theorem arithBuild_blocks (n : Nat) : ∀ fuel ops, OpsOK ops →
    ∃ ops', OpsOK ops' ∧ arithBuild fuel n (blocks ops) = blocks ops' := by
  intro fuel
  induction fuel with
  | zero => intro ops h; exact ⟨ops, h, rfl⟩
  | succ fuel ih =>
    intro ops h
    rw [arithBuild]
    split
    · split
      · rw [blocks_snoc]
        exact ih _ (by
          intro o ho
          rcases List.mem_append.mp ho with ho | ho
          · exact h o ho
          · simp at ho; exact .inl ho)
      · rw [blocks_snoc]
        exact ih _ (by
          intro o ho
          rcases List.mem_append.mp ho with ho | ho
          · exact h o ho
          · simp at ho; exact .inr ho)
    · exact ⟨ops, h, rfl⟩

/-- the harness's input of every length parameter is `1 o₁ 1 … o_k 1` with operators in {*, +} -/
theorem arithInput_eq (n : Nat) : ∃ ops, OpsOK ops ∧ arithInput n = arData ops := by
  obtain ⟨ops, h1, h2⟩ := arithBuild_blocks n n [] (by intro o ho; cases ho)
  refine ⟨ops, h1, ?_⟩
  rw [arithInput, ← blocks_end]
  congr 1

end PV.C17b
