import ParsleyVerif.Proofs.SliceTrim
/-
  Histories: the invariant holds in every reachable state; frame lemmas lifted to operation lists.
-/
namespace PV.Slice

/-- somebody may still read through `h`: it is (or was) in the pool, or the memo table holds it -/
def Held (s : St) (h : Handle) : Prop := (∃ e ∈ s.pool, e.h = h) ∨ (∃ kv ∈ s.memo, kv.2 = h)

theorem Held.hwf {s : St} {top : Nat → Nat} (inv : Inv s top) {h : Handle} (hh : Held s h) : HWF s top h := by
  rcases hh with ⟨e, he, rfl⟩ | ⟨kv, hkv, rfl⟩
  · exact inv.pool e he
  · exact (inv.memo kv hkv).1

theorem Held.ext {s s' : St} (x : Ext s s') {h : Handle} (hh : Held s h) : Held s' h := by
  rcases hh with ⟨e, he, rfl⟩ | ⟨kv, hkv, rfl⟩
  · obtain ⟨k, hk, rfl⟩ := List.getElem_of_mem he
    obtain ⟨e', he', hh', _⟩ := x.pool k s.pool[k] (by simp [hk])
    exact Or.inl ⟨e', List.mem_of_getElem? he', hh'⟩
  · obtain ⟨l, hl, _⟩ := x.memo
    exact Or.inr ⟨kv, by rw [hl]; exact List.mem_append_right _ hkv, rfl⟩

/-- one step, any operation: invariant and pool/memo extension -/
theorem step_any (grow : Nat → Nat) {s : St} {top : Nat → Nat} (inv : Inv s top) (op : Op) :
    (∃ top', Inv (step grow s op).1 top') ∧ Ext s (step grow s op).1 := by
  cases hop : op.isTrim with
  | false => exact ⟨(step_ok grow inv op hop).inv, (step_ok grow inv op hop).ext⟩
  | true =>
    cases op with
    | setReaderPos i d => exact step_trim_inv grow inv i d
    | _ => simp [Op.isTrim] at hop

theorem run_cons (grow : Nat → Nat) (op : Op) (ops : List Op) (s : St) :
    run grow (op :: ops) s = run grow ops (step grow s op).1 := rfl

theorem run_append (grow : Nat → Nat) (a b : List Op) (s : St) : run grow (a ++ b) s = run grow b (run grow a s) := by
  simp [run, List.foldl_append]

theorem run_inv (grow : Nat → Nat) (ops : List Op) : ∀ {s : St} {top : Nat → Nat}, Inv s top →
    (∃ top', Inv (run grow ops s) top') ∧ Ext s (run grow ops s) := by
  induction ops with
  | nil => intro s top inv; exact ⟨⟨top, inv⟩, Ext.refl _⟩
  | cons op ops ih =>
    intro s top inv
    obtain ⟨⟨top1, inv1⟩, x1⟩ := step_any grow inv op
    obtain ⟨i2, x2⟩ := ih inv1
    exact ⟨i2, x1.trans x2⟩

/-- every reachable state satisfies the invariant -/
theorem reachable_inv (grow : Nat → Nat) (ops : List Op) : ∃ top, Inv (run grow ops {}) top :=
  (run_inv grow ops Inv.init).1

/-- one framed step does not change what a held handle reads -/
theorem step_frame (grow : Nat → Nat) {s : St} {top : Nat → Nat} (inv : Inv s top) (op : Op) (hop : op.isTrim = false)
    {h : Handle} (hh : Held s h) : render (step grow s op).1 h = render s h :=
  render_frame (step_ok grow inv op hop).frame inv.nodes inv.cellok h (hh.hwf inv)

theorem run_frame (grow : Nat → Nat) (ops : List Op) (hops : ∀ op ∈ ops, op.isTrim = false) :
    ∀ {s : St} {top : Nat → Nat}, Inv s top → ∀ {h : Handle}, Held s h → render (run grow ops s) h = render s h := by
  induction ops with
  | nil => intro s top inv h hh; rfl
  | cons op ops ih =>
    intro s top inv h hh
    have hop := hops op (by simp)
    obtain ⟨⟨top1, inv1⟩, x1⟩ := step_any grow inv op
    rw [run_cons, ih (fun o ho => hops o (by simp [ho])) inv1 (hh.ext x1)]
    exact step_frame grow inv op hop hh

/-! ### the trim discipline -/

/-- every SetReaderPos of the history is applied to a pool entry that is unshared at that moment -/
def Disciplined (grow : Nat → Nat) : St → List Op → Prop
  | _, [] => True
  | s, op :: rest => (∀ i d, op = Op.setReaderPos i d → unshared s i = true) ∧ Disciplined grow (step grow s op).1 rest

/-- executable form of `Disciplined` -/
def disciplinedB (grow : Nat → Nat) : St → List Op → Bool
  | _, [] => true
  | s, op :: rest =>
    (match op with
     | .setReaderPos i _ => unshared s i
     | _ => true) && disciplinedB grow (step grow s op).1 rest

theorem disciplinedB_sound (grow : Nat → Nat) (ops : List Op) :
    ∀ (s : St), disciplinedB grow s ops = true → Disciplined grow s ops := by
  induction ops with
  | nil => intro s _; trivial
  | cons op ops ih =>
    intro s h
    simp only [disciplinedB, Bool.and_eq_true] at h
    refine ⟨fun i d hop => ?_, ih _ h.2⟩
    subst hop
    exact h.1

theorem render_pool_irrel (s : St) (pool : List Entry) (h : Handle) :
    render ({ s with pool := pool } : St) h = render s h := rfl

theorem unshared_spec {s : St} {i : Nat} (hu : unshared s i = true) :
    ∃ h, s.get i = some h ∧
      (∀ k h', k ≠ i → s.get k = some h' → affected s (trimNodes s h) (trimArr h) h' = false) ∧
      (∀ kv ∈ s.memo, affected s (trimNodes s h) (trimArr h) kv.2 = false) := by
  unfold unshared at hu
  cases hg : s.get i with
  | none => simp [hg] at hu
  | some h =>
    simp only [hg, Bool.and_eq_true, List.all_eq_true] at hu
    refine ⟨h, rfl, fun k h' hki hk => ?_, fun kv hkv => ?_⟩
    · have hlt : k < s.pool.length := by
        obtain ⟨e, he, _, _⟩ := get_some hk
        exact old_lt he
      have := hu.1 k (List.mem_range.mpr hlt)
      simp only [hk, Bool.or_eq_true, beq_iff_eq, Bool.not_eq_true'] at this
      rcases this with h1 | h1
      · exact absurd h1 hki
      · exact h1
    · have := hu.2 kv hkv
      simpa using this

/-- one disciplined SetReaderPos: every other live entry and every memo entry reads as before -/
theorem step_trim_frame (grow : Nat → Nat) {s : St} {top : Nat → Nat} (inv : Inv s top) (i d : Nat)
    (hu : unshared s i = true) :
    (∀ (k : Nat) (e e' : Entry), s.pool[k]? = some e → (step grow s (Op.setReaderPos i d)).1.pool[k]? = some e' → e'.live = true →
      render (step grow s (Op.setReaderPos i d)).1 e.h = render s e.h) ∧
    (∀ kv ∈ s.memo, render (step grow s (Op.setReaderPos i d)).1 kv.2 = render s kv.2) := by
  obtain ⟨h, hg, hp, hm⟩ := unshared_spec hu
  simp only [step, hg]
  split
  · exact ⟨fun _ _ _ _ _ _ => rfl, fun _ _ => rfl⟩
  · have hshape := (setRP_shape d inv h).2.2.2.2
    refine ⟨fun k e e' hk hk' hl' => ?_, fun kv hkv => ?_⟩
    · show render (setRP d s h).1 e.h = render s e.h
      have hlt := old_lt hk
      -- entry k of the new pool is entry k of the old pool with entry i killed
      have hk2 : ((setRP d s h).1.kill i).pool[k]? = some e' := by
        have : (((setRP d s h).1.kill i).push (setRP d s h).2).pool[k]? = some e' := hk'
        simp only [St.push] at this
        rw [List.getElem?_append_left (by simp [St.kill]; rw [hshape]; exact hlt)] at this
        exact this
      obtain ⟨e0, h0, _, hlv⟩ := kill_pool_get hk2
      obtain ⟨hl0, hki, rfl⟩ := hlv hl'
      have hpool : (setRP d s h).1.pool = s.pool := by rw [hshape]
      rw [hpool, hk] at h0
      cases h0
      have hgk : s.get k = some e.h := by simp [St.get, hk, hl0]
      exact trim_frame d inv h e.h (inv.pool e (List.mem_of_getElem? hk)) (hp k e.h hki hgk)
    · show render (setRP d s h).1 kv.2 = render s kv.2
      exact trim_frame d inv h kv.2 (inv.memo kv hkv).1 (hm kv hkv)

/-- what a live entry / a memo entry reads is the same before and after a disciplined history -/
theorem run_disciplined (grow : Nat → Nat) (ops : List Op) :
    ∀ {s : St} {top : Nat → Nat}, Inv s top → Disciplined grow s ops →
      (∀ (k : Nat) (e e' : Entry), s.pool[k]? = some e → (run grow ops s).pool[k]? = some e' → e'.live = true →
        render (run grow ops s) e.h = render s e.h) ∧
      (∀ kv ∈ s.memo, render (run grow ops s) kv.2 = render s kv.2) := by
  induction ops with
  | nil => intro s top inv _; exact ⟨fun _ _ _ _ _ _ => rfl, fun _ _ => rfl⟩
  | cons op ops ih =>
    intro s top inv hd
    obtain ⟨⟨top1, inv1⟩, x1⟩ := step_any grow inv op
    obtain ⟨ih1, ih2⟩ := ih inv1 hd.2
    obtain ⟨_, x2⟩ := run_inv grow ops inv1
    have one : (∀ (k : Nat) (e e' : Entry), s.pool[k]? = some e → (step grow s op).1.pool[k]? = some e' → e'.live = true →
          render (step grow s op).1 e.h = render s e.h) ∧
        (∀ kv ∈ s.memo, render (step grow s op).1 kv.2 = render s kv.2) := by
      cases hop : op.isTrim with
      | false =>
        exact ⟨fun k e e' hk _ _ => step_frame grow inv op hop (Or.inl ⟨e, List.mem_of_getElem? hk, rfl⟩),
          fun kv hkv => step_frame grow inv op hop (Or.inr ⟨kv, hkv, rfl⟩)⟩
      | true =>
        cases op with
        | setReaderPos i d => exact step_trim_frame grow inv i d (hd.1 i d rfl)
        | _ => simp [Op.isTrim] at hop
    refine ⟨fun k e e' hk hk' hl' => ?_, fun kv hkv => ?_⟩
    · rw [run_cons] at hk' ⊢
      obtain ⟨e1, he1, hh1, _⟩ := x1.pool k e hk
      obtain ⟨e2, he2, _, hl2⟩ := x2.pool k e1 he1
      rw [he2] at hk'; cases hk'
      rw [← hh1, ih1 k e1 e' he1 he2 hl', hh1]
      exact one.1 k e e1 hk he1 (hl2 hl')
    · rw [run_cons]
      obtain ⟨l, hl, _⟩ := x1.memo
      rw [ih2 kv (by rw [hl]; exact List.mem_append_right _ hkv)]
      exact one.2 kv hkv

/-! ### the trace of returned values -/

/-- every recorded value is still held and still reads what was recorded -/
def TraceOK (s : St) (T : Trace) : Prop := ∀ p ∈ T, Held s p.1 ∧ render s p.1 = p.2

theorem traceStep_ok (grow : Nat → Nat) {s : St} {top : Nat → Nat} (inv : Inv s top) (op : Op) (hop : op.isTrim = false)
    {T : Trace} (ht : TraceOK s T) : TraceOK (traceStep grow (s, T) op).1 (traceStep grow (s, T) op).2 := by
  obtain ⟨_, x1⟩ := step_any grow inv op
  have hold : ∀ p ∈ T, Held (step grow s op).1 p.1 ∧ render (step grow s op).1 p.1 = p.2 := by
    intro p hp
    obtain ⟨h1, h2⟩ := ht p hp
    exact ⟨h1.ext x1, by rw [step_frame grow inv op hop h1]; exact h2⟩
  unfold traceStep
  simp only
  split
  · rename_i hlt
    intro p hp
    rcases List.mem_append.mp hp with h | h
    · exact hold p h
    · simp only [List.mem_singleton] at h
      subst h
      refine ⟨Or.inl ?_, rfl⟩
      cases hl : (step grow s op).1.pool.getLast? with
      | none =>
        rw [List.getLast?_eq_none_iff] at hl
        rw [hl] at hlt; simp at hlt
      | some e => exact ⟨e, List.mem_of_getLast? hl, by simp⟩
  · exact hold

theorem runTrace_ok (grow : Nat → Nat) (ops : List Op) (hops : ∀ op ∈ ops, op.isTrim = false) :
    ∀ {s : St} {top : Nat → Nat} {T : Trace}, Inv s top → TraceOK s T →
      TraceOK (runTrace grow ops (s, T)).1 (runTrace grow ops (s, T)).2 := by
  induction ops with
  | nil => intro s top T _ ht; exact ht
  | cons op ops ih =>
    intro s top T inv ht
    have hop := hops op (by simp)
    obtain ⟨⟨top1, inv1⟩, _⟩ := step_any grow inv op
    have h1 := traceStep_ok grow inv op hop ht
    have hs : (traceStep grow (s, T) op).1 = (step grow s op).1 := by
      unfold traceStep; simp only; split <;> rfl
    have : runTrace grow (op :: ops) (s, T) = runTrace grow ops ((traceStep grow (s, T) op).1, (traceStep grow (s, T) op).2) := rfl
    rw [this]
    apply ih (fun o ho => hops o (by simp [ho])) (top := top1) _ h1
    rw [hs]; exact inv1

/-! ### asking a memoized parser again -/

theorem find_append_fresh (l m : List (Nat × Handle)) (key : Nat) (hf : ∀ kv ∈ l, kv.1 ≠ key) :
    (l ++ m).find? (fun kv => kv.1 == key) = m.find? (fun kv => kv.1 == key) := by
  induction l with
  | nil => rfl
  | cons x xs ih =>
    simp only [List.cons_append, List.find?_cons]
    have : (x.1 == key) = false := by simpa using hf x (by simp)
    rw [this]
    exact ih (fun kv hkv => hf kv (by simp [hkv]))

theorem memoStore_success (grow : Nat → Nat) (s : St) (key i : Nat)
    (hst : (step grow s (Op.memoStore key i)).2 = Out.none) :
    ∃ h, (step grow s (Op.memoStore key i)).1 =
      ({ (s.consume i h) with memo := (key, h.clip) :: (s.consume i h).memo } : St).push h.clip := by
  simp only [step, doMemoStore] at hst ⊢
  cases hg : s.get i with
  | none => rw [hg] at hst; simp at hst
  | some h =>
    rw [hg] at hst
    simp only at hst ⊢
    split at hst
    · simp at hst
    · rename_i hany
      rw [if_neg hany]
      exact ⟨h, by simp⟩

theorem memo_stable (grow : Nat → Nat) {s : St} {top : Nat → Nat} (inv : Inv s top) (key i : Nat) (ops : List Op)
    (hops : ∀ op ∈ ops, op.isTrim = false) (hst : (step grow s (Op.memoStore key i)).2 = Out.none) :
    ∃ h, (step grow s (Op.memoStore key i)).1.pool.getLast? = some ⟨h, true⟩ ∧
      (step grow (run grow ops (step grow s (Op.memoStore key i)).1) (Op.memoHit key)).1.pool.getLast? = some ⟨h, true⟩ ∧
      (step grow (run grow ops (step grow s (Op.memoStore key i)).1) (Op.memoHit key)).2 = Out.none ∧
      render (step grow (run grow ops (step grow s (Op.memoStore key i)).1) (Op.memoHit key)).1 h =
        render (step grow s (Op.memoStore key i)).1 h := by
  obtain ⟨⟨top1, inv1⟩, _⟩ := step_any grow inv (Op.memoStore key i)
  obtain ⟨h0, heq⟩ := memoStore_success grow s key i hst
  generalize (step grow s (Op.memoStore key i)).1 = s1 at inv1 heq ⊢
  obtain ⟨_, x2⟩ := run_inv grow ops inv1
  have hmem : (key, h0.clip) ∈ s1.memo := by rw [heq]; simp [St.push]
  have hlast : s1.pool.getLast? = some ⟨h0.clip, true⟩ := by rw [heq]; simp [St.push]
  have hfr := run_frame grow ops hops inv1 (h := h0.clip) (Or.inr ⟨(key, h0.clip), hmem, rfl⟩)
  obtain ⟨l, hl, hfresh⟩ := x2.memo
  have hhead : s1.memo.find? (fun kv => kv.1 == key) = some (key, h0.clip) := by rw [heq]; simp [St.push]
  have hfind : (run grow ops s1).memo.find? (fun kv => kv.1 == key) = some (key, h0.clip) := by
    rw [hl, find_append_fresh l _ key (fun kv hkv => hfresh kv hkv (key, h0.clip) hmem)]
    exact hhead
  refine ⟨h0.clip, hlast, ?_, ?_, ?_⟩
  · simp [step, hfind, St.push]
  · simp [step, hfind]
  · simp only [step, hfind]
    exact hfr

/-! ### the trace is the pool -/

theorem kill_length (s : St) (i : Nat) : (s.kill i).pool.length = s.pool.length := by simp [St.kill]

theorem setRP_pool (d : Nat) (s : St) (h : Handle) : (setRP d s h).1.pool = s.pool := by cases h <;> rfl

theorem step_pool_length (grow : Nat → Nat) (s : St) (op : Op) :
    (step grow s op).1.pool.length = s.pool.length ∨ (step grow s op).1.pool.length = s.pool.length + 1 := by
  cases op <;> simp only [step, doMemoStore, doAppend]
  all_goals (repeat' split)
  all_goals first
    | (left; rfl)
    | (right; simp [St.push, allocNode, consume_pool_length, kill_length, setRP_pool]; done)
    | (left; simp [kill_length]; done)

theorem drop_last {α : Type} : ∀ (l : List α) (n : Nat) (hne : l ≠ []), l.length = n + 1 → l.drop n = [l.getLast hne]
  | [], _, hne, _ => absurd rfl hne
  | [x], n, _, h => by
    have : n = 0 := by simpa using h
    subst this; rfl
  | x :: y :: ys, 0, _, h => by simp at h
  | x :: y :: ys, n + 1, _, h => by
    have := drop_last (y :: ys) n (by simp) (by simpa using h)
    simp only [List.drop_succ_cons]
    rw [this]
    simp

/-- the trace records exactly the pool, in order -/
theorem runTrace_complete (grow : Nat → Nat) (ops : List Op) :
    ∀ {s : St} {top : Nat → Nat} {T : Trace}, Inv s top → T.map (·.1) = s.pool.map (·.h) →
      (runTrace grow ops (s, T)).2.map (·.1) = (runTrace grow ops (s, T)).1.pool.map (·.h) := by
  induction ops with
  | nil => intro s top T _ h; exact h
  | cons op ops ih =>
    intro s top T inv hT
    obtain ⟨⟨top1, inv1⟩, x1⟩ := step_any grow inv op
    have hs : (traceStep grow (s, T) op).1 = (step grow s op).1 := by
      unfold traceStep; simp only; split <;> rfl
    have : runTrace grow (op :: ops) (s, T) = runTrace grow ops ((traceStep grow (s, T) op).1, (traceStep grow (s, T) op).2) := rfl
    rw [this]
    apply ih (top := top1) (by rw [hs]; exact inv1)
    -- handles of old entries are unchanged
    have hpre : ((step grow s op).1.pool.map (·.h)).take s.pool.length = s.pool.map (·.h) := by
      apply List.ext_getElem?
      intro k
      simp only [List.getElem?_take, List.getElem?_map]
      by_cases hk : k < s.pool.length
      · obtain ⟨e', he', hh', _⟩ := x1.pool k s.pool[k] (by simp [hk])
        simp [hk, he', hh']
      · simp [hk]
    unfold traceStep
    simp only
    rcases step_pool_length grow s op with hl | hl
    · rw [if_neg (by omega)]
      simp only
      rw [hT, ← hpre, List.take_of_length_le (by simp [hl])]
    · rw [if_pos (by omega)]
      simp only [List.map_append, List.map_cons, List.map_nil]
      rw [hT, ← hpre]
      have hne : (step grow s op).1.pool ≠ [] := by
        intro h; rw [h] at hl; simp at hl
      rw [List.getLast?_eq_some_getLast hne]
      simp only [Option.map_some, Option.getD_some]
      conv => rhs; rw [← List.take_append_drop s.pool.length ((step grow s op).1.pool.map (·.h))]
      congr 1
      rw [← List.map_drop, drop_last _ _ hne hl]
      rfl

end PV.Slice
