/-
  The tie of the TERMINAL PARSERS, part 1: Rune, Op, Word, Bool, Nil (one or two reader calls, a typed leaf).
-/
import ParsleyVerif.Proofs.TermTieBasics
namespace PV.TermTie
open PV.CoreTie PV.Text PV.TermPrelude PV.FactsTerm

variable {σ : Type}

/-- the simp set of the terminal ties: the monad, the prelude's constructors, the embedding of the model's values -/
syntax "term_simp" " [" Lean.Parser.Tactic.simpLemma,* "]" : tactic
macro_rules
  | `(tactic| term_simp [$ls,*]) => `(tactic| simp only [bindT, pureT, iteT, callT_some, callT_none, panicT, Option.map_some,
      Option.map_none, ePB, ePS, CorrT, eNode_term, eErr1_mk, eKind, eVal, nf, other, NewTerminalNode, NewOpNode, NewBoolNode,
      NewNilNode, NewIntegerNode, NewFloatNode, NewCharNode, NewStringNode, NewTimeDurationNode, TermPrelude.Val.ofRune, TermPrelude.Val.ofString,
      TermPrelude.Val.ofInt64, TermPrelude.Val.ofFloat64, TermPrelude.Val.ofDuration, TermPrelude.Val.ofBool, TermPrelude.Val.nil, CorePrelude.NewError, CorePrelude.NewErrorf,
      CorePrelude.NotFoundError, CorePrelude.Data.EmptyIntSet, goStr_eq_tokOf, stringOfRune_nat, Go.stringOfBytes,
      Bool.not_true, Bool.not_false, Bool.false_eq_true, Bool.true_eq_false, if_true, if_false, ite_true, ite_false, decide_true,
      decide_false, Option.isNone_some, Option.isNone_none, Int.reduceEq, Int.reduceNe, decide_not, Nat.reduceEqDiff, eq_self, reduceIte,
      Bool.and_true, Bool.true_and, Bool.and_false, Bool.false_and, Bool.or_true, Bool.true_or, Bool.or_false, Bool.false_or,
      Bool.not_not, $ls,*])

/-- closes what `term_simp` leaves -/
macro "term_done" : tactic =>
  `(tactic| first | done | simp [eErr1, eKind, eNode, eVal, CorePrelude.Cause.isNil, CorePrelude.Err.isNil, pureT])

/-- terminal.Rune(ch); `name` = strconv.Quote(string(ch)) -/
theorem tie_Rune (T : TWorld) (cfg : Cfg) (hT : TWorldRel T cfg) (ch : Nat) (name : Bytes) (m : IntMap) (pos : Nat) (s : σ) :
    CorrT (Rune_parse T (ch : Int) name m (pos : Int) s) s ((Terminal.rune ch name).parse cfg.params cfg.file pos) := by
  unfold Rune_parse Terminal.parse
  rw [bindT, hT.readRune]
  cases h : readRune cfg.file pos ch with
  | none => term_simp [h]
  | some r =>
    obtain ⟨rp, b⟩ := r
    cases b <;> term_simp [h]
    all_goals term_done

/-- terminal.Op(op); `name` = strconv.Quote(op) -/
theorem tie_Op (T : TWorld) (cfg : Cfg) (hT : TWorldRel T cfg) (op name : Bytes) (m : IntMap) (pos : Nat) (s : σ) :
    CorrT (Op_parse T op name m (pos : Int) s) s ((Terminal.op op name).parse cfg.params cfg.file pos) := by
  unfold Op_parse Terminal.parse
  rw [bindT, hT.matchString]
  cases h : matchString cfg.file pos op with
  | none => term_simp [h]
  | some r =>
    obtain ⟨rp, b⟩ := r
    cases b <;> term_simp [h]
    all_goals term_done

/-- terminal.Word(schema, word, value); `name` = strconv.Quote(word), the token is strings.ToUpper(word), the value is opaque -/
theorem tie_Word (T : TWorld) (cfg : Cfg) (hT : TWorldRel T cfg) (schema : CorePrelude.Opaque) (w : Bytes) (valId : Nat)
    (name : Bytes) (m : IntMap) (pos : Nat) (s : σ) :
    CorrT (Word_parse T schema w (eVal (.opaque valId)) name (upperAscii w) m (pos : Int) s) s
      ((Terminal.word w valId name).parse cfg.params cfg.file pos) := by
  unfold Word_parse Terminal.parse
  rw [bindT, hT.matchWord]
  cases h : matchWord cfg.file pos w with
  | none => term_simp [h]
  | some r =>
    obtain ⟨rp, b⟩ := r
    cases b <;> term_simp [h]
    all_goals term_done

/-- terminal.Bool(schema, trueStr, falseStr) -/
theorem tie_Bool (T : TWorld) (cfg : Cfg) (hT : TWorldRel T cfg) (schema : CorePrelude.Opaque) (ts fs : Bytes)
    (m : IntMap) (pos : Nat) (s : σ) :
    CorrT (Bool_parse T schema ts fs (CorePrelude.Go.str "boolean") m (pos : Int) s) s
      ((Terminal.bool ts fs).parse cfg.params cfg.file pos) := by
  unfold Bool_parse Terminal.parse
  rw [bindT, hT.matchWord]
  cases h : matchWord cfg.file pos ts with
  | none => term_simp [h]
  | some r =>
    obtain ⟨rp, b⟩ := r
    cases b
    · term_simp [h, hT.matchWord]
      cases h2 : matchWord cfg.file pos fs with
      | none => term_simp [h2]
      | some r2 =>
        obtain ⟨rp2, b2⟩ := r2
        cases b2 <;> term_simp [h2]
        all_goals term_done
    · term_simp [h]

/-- terminal.Nil(schema, nilStr): the name in the error is the word itself -/
theorem tie_Nil (T : TWorld) (cfg : Cfg) (hT : TWorldRel T cfg) (schema : CorePrelude.Opaque) (w : Bytes)
    (m : IntMap) (pos : Nat) (s : σ) :
    CorrT (Nil_parse T schema w w m (pos : Int) s) s ((Terminal.nil w).parse cfg.params cfg.file pos) := by
  unfold Nil_parse Terminal.parse
  rw [bindT, hT.matchWord]
  cases h : matchWord cfg.file pos w with
  | none => term_simp [h]
  | some r =>
    obtain ⟨rp, b⟩ := r
    cases b <;> term_simp [h]
    all_goals term_done

end PV.TermTie
