/-
  SOUNDNESS of a stratified grammar THROUGH the `Sentence` wrapper (the "only if" half of the C04 iff for the
  stratified meaning `DerivesS`; the "if" half is Proofs/StratSentence.lean):

    if `Sentence(g) = SeqOf(g, End)` returns a result, then some tree returned by the operand — hence, by the
    joint invariant `run_strat`, a derivation `DerivesS` of the stratified meaning — ends at the end of the input.

  The `End` parser is not a stratum-1 parser (`upOK .eof = false`), so `run_strat` does not speak about the
  wrapper itself; the sequence loop over `[g, End]` is followed here with the generic principle `seqParse_ind`.

  Also: a parser accepted by the stratification check is in the scope `Core` of C04 (no trims), and the
  termination certificate of `Sentence(g)` is that of `g`.
-/
import ParsleyVerif.Proofs.StratSentence
import ParsleyVerif.Proofs.WFTCheck
namespace PV.S04
open PV PV.Text PV.Strat PV.WFT

/-! ### from the stratification check to the scope of C04 -/

mutual
theorem core_of_lowOK (cfg : Cfg) (s : Cert) : ∀ g : G, lowOK s g = true → g.All (TermS cfg) → g.Core (TermGood cfg)
  | .term t, _, ha => by simp only [G.All, TermS] at ha; simp only [G.Core]; exact ha.1
  | .empty, _, _ => by simp only [G.Core]
  | .eof, h, _ => by simp [lowOK] at h
  | .ref _, _, _ => by simp only [G.Core]
  | .memo _ g, h, ha => by
    simp only [lowOK, Bool.and_eq_true] at h
    simp only [G.All] at ha
    simp only [G.Core]; exact core_of_lowOK cfg s g h.2 ha.2
  | .any gs, h, ha => by
    simp only [lowOK] at h
    simp only [G.All] at ha
    simp only [G.Core]; exact core_of_lowOKList cfg s gs h ha.2
  | .choice gs, h, ha => by
    simp only [lowOK] at h
    simp only [G.All] at ha
    simp only [G.Core]; exact core_of_lowOKList cfg s gs h ha.2
  | .seq _ gs _, h, ha => by
    simp only [lowOK, Bool.and_eq_true] at h
    simp only [G.All] at ha
    simp only [G.Core]; exact core_of_lowOKList cfg s gs h.2 ha.2
  | .many g _ _, h, ha => by
    simp only [lowOK, Bool.and_eq_true] at h
    simp only [G.All] at ha
    simp only [G.Core]; exact core_of_lowOK cfg s g h.2 ha.2
  | .sepBy v sp _ _, h, ha => by
    simp only [lowOK, Bool.and_eq_true] at h
    simp only [G.All] at ha
    simp only [G.Core]; exact ⟨core_of_lowOK cfg s v h.1.2 ha.2.1, core_of_lowOK cfg s sp h.2 ha.2.2⟩
  | .optional g, h, ha => by
    simp only [lowOK] at h
    simp only [G.All] at ha
    simp only [G.Core]; exact core_of_lowOK cfg s g h ha.2
  | .name g _, h, ha => by
    simp only [lowOK] at h
    simp only [G.All] at ha
    simp only [G.Core]; exact core_of_lowOK cfg s g h ha.2
  | .single g, h, ha => by
    simp only [lowOK] at h
    simp only [G.All] at ha
    simp only [G.Core]; exact core_of_lowOK cfg s g h ha.2
  | .suppress g, h, ha => by
    simp only [lowOK] at h
    simp only [G.All] at ha
    simp only [G.Core]; exact core_of_lowOK cfg s g h ha.2
  | .ltrim _ _, h, _ => by simp [lowOK] at h
  | .rtrim _ _, h, _ => by simp [lowOK] at h
theorem core_of_lowOKList (cfg : Cfg) (s : Cert) : ∀ gs : List G, lowOKList s gs = true → AllList (TermS cfg) gs →
    CoreList (TermGood cfg) gs
  | [], _, _ => by simp only [CoreList]
  | g :: gs, h, ha => by
    simp only [lowOKList, Bool.and_eq_true] at h
    simp only [AllList] at ha
    simp only [CoreList]; exact ⟨core_of_lowOK cfg s g h.1 ha.1, core_of_lowOKList cfg s gs h.2 ha.2⟩
end

theorem core_of_leafOK (cfg : Cfg) (s : Cert) (g : G) (h : leafOK s g = true) (ha : g.All (TermS cfg)) :
    g.Core (TermGood cfg) := by
  simp only [leafOK, Bool.and_eq_true] at h
  exact core_of_lowOK cfg s g h.1 ha

mutual
theorem core_of_upOK (cfg : Cfg) (s : Cert) : ∀ g : G, upOK s g = true → g.All (TermS cfg) → g.Core (TermGood cfg)
  | .term t, _, ha => by simp only [G.All, TermS] at ha; simp only [G.Core]; exact ha.1
  | .empty, _, _ => by simp only [G.Core]
  | .eof, h, _ => by simp [upOK] at h
  | .ref _, _, _ => by simp only [G.Core]
  | .memo i g, h, ha => by
    by_cases hi : s.lowIdx i = true
    · simp only [upOK, hi, ↓reduceIte] at h
      exact core_of_leafOK cfg s _ h ha
    · simp only [upOK, hi, Bool.false_eq_true, ↓reduceIte] at h
      simp only [G.All] at ha
      simp only [G.Core]; exact core_of_upOK cfg s g h ha.2
  | .any gs, h, ha => by
    simp only [upOK] at h
    simp only [G.All] at ha
    simp only [G.Core]; exact core_of_upOKList cfg s gs h ha.2
  | .optional g, h, ha => by
    simp only [upOK] at h
    simp only [G.All] at ha
    simp only [G.Core]; exact core_of_upOK cfg s g h ha.2
  | .seq .seqOf gs _, h, ha => by
    simp only [upOK, Bool.and_eq_true] at h
    simp only [G.All] at ha
    simp only [G.Core]; exact core_of_upOKList cfg s gs h.2 ha.2
  | .seq .seqTry gs o, h, ha => by simp only [upOK] at h; exact core_of_leafOK cfg s _ h ha
  | .seq .seqFirstOrAll gs o, h, ha => by simp only [upOK] at h; exact core_of_leafOK cfg s _ h ha
  | .choice gs, h, ha => by simp only [upOK] at h; exact core_of_leafOK cfg s _ h ha
  | .many g ae o, h, ha => by simp only [upOK] at h; exact core_of_leafOK cfg s _ h ha
  | .sepBy v sp ae o, h, ha => by simp only [upOK] at h; exact core_of_leafOK cfg s _ h ha
  | .name g nm, h, ha => by simp only [upOK] at h; exact core_of_leafOK cfg s _ h ha
  | .single g, h, ha => by simp only [upOK] at h; exact core_of_leafOK cfg s _ h ha
  | .suppress g, h, ha => by simp only [upOK] at h; exact core_of_leafOK cfg s _ h ha
  | .ltrim _ _, h, _ => by simp [upOK] at h
  | .rtrim _ _, h, _ => by simp [upOK] at h
theorem core_of_upOKList (cfg : Cfg) (s : Cert) : ∀ gs : List G, upOKList s gs = true → AllList (TermS cfg) gs →
    CoreList (TermGood cfg) gs
  | [], _, _ => by simp only [CoreList]
  | g :: gs, h, ha => by
    simp only [upOKList, Bool.and_eq_true] at h
    simp only [AllList] at ha
    simp only [CoreList]; exact ⟨core_of_upOK cfg s g h.1 ha.1, core_of_upOKList cfg s gs h.2 ha.2⟩
end

theorem UpS.core {cfg : Cfg} {s : Cert} {bodyOf : Nat → G} {g : G} (h : UpS cfg s bodyOf g) : g.Core (TermGood cfg) :=
  core_of_upOK cfg s g h.ok h.terms

theorem LowS.core {cfg : Cfg} {s : Cert} {bodyOf : Nat → G} {g : G} (h : LowS cfg s bodyOf g) : g.Core (TermGood cfg) :=
  core_of_lowOK cfg s g h.ok h.terms

/-- the stratified grammar and its `Sentence` wrapper are in the scope of `c04_sentence_sound` -/
theorem scope_of_strat {cfg : Cfg} {s : Cert} {bodyOf : Nat → G} (henv : EnvS cfg s bodyOf) {g : G}
    (hg : UpS cfg s bodyOf g) :
    Scope cfg (G.sentence g) ∧ (∀ g' ∈ cfg.env, GOK bodyOf g') ∧ GOK bodyOf (G.sentence g) := by
  refine ⟨⟨?_, ?_⟩, ?_, ?_⟩
  · show (G.seq .seqOf [g, .eof] { interp := .select 0 }).Core (TermGood cfg)
    simp only [G.Core, CoreList]
    exact ⟨UpS.core hg, trivial, trivial⟩
  · intro g' hg'
    obtain ⟨k, hk, hkg⟩ := List.getElem_of_mem hg'
    have hk' : cfg.env[k]? = some g' := by rw [List.getElem?_eq_getElem hk, hkg]
    cases hl : s.lowRule k with
    | true => exact LowS.core (henv.low k g' hk' hl)
    | false => exact UpS.core (henv.up k g' hk' hl)
  · intro g' hg'
    obtain ⟨k, hk, hkg⟩ := List.getElem_of_mem hg'
    have hk' : cfg.env[k]? = some g' := by rw [List.getElem?_eq_getElem hk, hkg]
    cases hl : s.lowRule k with
    | true => exact (henv.low k g' hk' hl).gok
    | false => exact (henv.up k g' hk' hl).gok
  · show (G.seq .seqOf [g, .eof] { interp := .select 0 }).All (LocalOK bodyOf)
    simp only [G.All, AllList, LocalOK, and_true, true_and]
    exact hg.gok

/-! ### the termination certificate of the wrapper -/

theorem wfT_sentence (rx : Nat → Bool) (c : WFCert) (env : List G) (g : G) :
    wfT rx c env (G.sentence g) = wfT rx c env g := by
  simp [wfT, G.sentence, wfLocalT, wfLocalListT]

/-! ### soundness through the wrapper -/

theorem run_eof_inv (cfg : Cfg) (fuel : Nat) (ctx : Ctx) (pos : Nat) (st : St) (o : Out) (st' : St)
    (h : run cfg fuel .eof ctx pos st = some (o, st')) :
    st'.cache = st.cache ∧ (o.res.alts ≠ [] → isEOF cfg.file pos = true) := by
  cases fuel with
  | zero => simp [run] at h
  | succ f =>
    unfold run at h
    split at h
    · cases h
    · simp only at h
      split at h
      · rename_i he
        cases h
        exact ⟨rfl, fun _ => he⟩
      · cases h
        exact ⟨(logEv_fields st cfg _).1, fun hne => absurd rfl hne⟩

/-- **`Sentence(g)` returns a result only if some `DerivesS`-derivation of `g` ends at the end of the input** -/
theorem sentence_sound_strat (cfg : Cfg) (s : Cert) (bodyOf : Nat → G) (henv : EnvS cfg s bodyOf)
    (g : G) (hg : UpS cfg s bodyOf g) (fuel : Nat) (pos : Nat) (hin : InFile cfg.file pos) (st : St)
    (hst : CacheS cfg s bodyOf st) (o : Out) (st' : St)
    (h : run cfg fuel (G.sentence g) [] pos st = some (o, st')) (hne : o.res.alts ≠ []) :
    ∃ y, DerivesS cfg s g pos y ∧ isEOF cfg.file y.rpos = true := by
  cases fuel with
  | zero => simp [run] at h
  | succ f =>
    rw [run_seqfam cfg f _ (sentenceShape g) [] pos st (sentence_shape g)] at h
    split at h
    · cases h
    · unfold runSeq at h
      split at h
      · cases h
      · rename_i b ss st1 hsp
        have hfin : seqFinish (sentenceShape g) pos ss st1 = (o, st') := by injection h
        have hres : ss.result.alts ≠ [] := by
          intro hc
          apply hne
          have hsub := (seqFinish_res (sentenceShape g) pos ss st1).1
          rw [hfin] at hsub
          cases ho : o.res.alts with
          | nil => rfl
          | cons x l =>
            have := hsub x (by rw [ho]; exact List.mem_cons_self ..)
            rw [hc] at this; cases this
        have hrs := run_strat cfg s bodyOf henv f
        have key := seqParse_ind (run cfg f) (sentenceShape g)
          (fun fr _ st => CacheS cfg s bodyOf st ∧ (fr.depth = 0 → fr.ctx = [] ∧ fr.pos = pos) ∧
            (fr.depth = 1 → ∃ y, DerivesS cfg s g pos y ∧ fr.pos = y.rpos) ∧
            (2 ≤ fr.depth → ∃ y, DerivesS cfg s g pos y ∧ isEOF cfg.file y.rpos = true))
          (fun ss st ss' st' => (CacheS cfg s bodyOf st → CacheS cfg s bodyOf st') ∧
            ((ss.result.alts ≠ [] → ∃ y, DerivesS cfg s g pos y ∧ isEOF cfg.file y.rpos = true) →
              (ss'.result.alts ≠ [] → ∃ y, DerivesS cfg s g pos y ∧ isEOF cfg.file y.rpos = true)))
          (fun _ _ => ⟨id, id⟩)
          (fun _ _ _ _ _ _ h1 h2 => ⟨fun hc => h2.1 (h1.1 hc), fun hr => h2.2 (h1.2 hr)⟩)
          (fun fr ss st ss' st' hJ hE => ⟨hE.1 hJ.1, hJ.2⟩)
          ?hcall ?hnone f ⟨0, [], [], pos, true⟩ {} st b ss st1
          ⟨hst, fun _ => ⟨rfl, rfl⟩, (fun hc => by cases hc), (fun hc => by simp at hc)⟩ rfl hsp
        · exact key.2 (fun hc => absurd rfl hc) hres
        case hcall =>
          intro fr ss0 st0 g' o1 st2 hJ hd hl hrun
          obtain ⟨hC, h0, h1, _⟩ := hJ
          obtain ⟨d, nodes, ctx, p, m⟩ := fr
          simp only at hd hl hrun h0 h1 ⊢
          match d, hl, hrun, h0, h1 with
          | 0, hl, hrun, h0, _ =>
            have hg' : g' = g := by simpa [sentenceShape] using hl.symm
            subst hg'
            obtain ⟨hctx, hp⟩ := h0 rfl
            subst hctx hp
            obtain ⟨_, _, hsnd, hC1⟩ := hrs g' [] p st0.regCall o1 st2 hg hin (CtxUp.nil s)
              (MixCache.of_eq hC rfl) hrun
            refine ⟨⟨fun _ => hC1, (fun hr => by rw [PV.seqAfter_result]; exact hr)⟩, ?_, ?_⟩
            · intro n hn
              refine ⟨hC1, (fun hc => by simp [Frame.next] at hc), fun _ => ⟨n, hsnd n hn, rfl⟩,
                (fun hc => by simp [Frame.next] at hc)⟩
            · intro _ hlc
              simp [sentenceShape] at hlc
          | 1, hl, hrun, _, h1 =>
            have hg' : g' = .eof := by simpa [sentenceShape] using hl.symm
            subst hg'
            obtain ⟨y, hy, hp⟩ := h1 rfl
            obtain ⟨hcache, heof⟩ := run_eof_inv cfg f ctx p st0.regCall o1 st2 hrun
            have hC1 : CacheS cfg s bodyOf st2 := MixCache.of_eq hC (by rw [hcache]; rfl)
            refine ⟨⟨fun _ => hC1, (fun hr => by rw [PV.seqAfter_result]; exact hr)⟩, ?_, ?_⟩
            · intro n hn
              have hne1 : o1.res.alts ≠ [] := by intro hc; rw [hc] at hn; cases hn
              refine ⟨hC1, (fun hc => by simp [Frame.next] at hc), (fun hc => by simp [Frame.next] at hc),
                fun _ => ⟨y, hy, (by rw [← hp]; exact heof hne1)⟩⟩
            · intro _ hlc
              simp [sentenceShape] at hlc
          | d + 2, hl, _, _, _ => simp [sentenceShape] at hl
        case hnone =>
          intro fr ss0 st0 hJ hd hl hlc
          obtain ⟨_, _, _, h2⟩ := hJ
          have hd2 : 2 ≤ fr.depth := by
            have : fr.depth = 2 := by simpa [sentenceShape] using hlc
            omega
          exact ⟨id, fun _ _ => h2 hd2⟩

end PV.S04
