/-
  C17, part 5: exact call counts, for EVERY input length, of two more families of the suite
  (harness/cmd/corr/c17.go):
    family 6 — separated list  L → a (, a)*  (SepBy, no Memoize), input `a (,a)^k`:      2k + 4 calls
    family 5 — nested brackets S → ( S ) | a (memoized),          input `(^k a )^k`:      5k + 5 calls
  with generic single-step lemmas for `(*sequence).parse`, Any of two parsers, Sentence and Parse that the
  per-family inductions are built from.
-/
import ParsleyVerif.Proofs.CallsPbA
import ParsleyVerif.Proofs.RunMono
namespace PV.C17
open PV.Text

variable {cfg : Cfg}

/-! ### the reader on a file at base offset 1 -/
theorem readRune_hit (f : File) (hoff : f.offset = 1) (pos ch : Nat) (h1 : 1 ≤ pos) (hch : ch < 128)
    (hd : f.data[pos - 1]? = some ch) : readRune f pos ch = some (pos + 1, true) := by
  have hlt : pos - 1 < f.data.length := by
    rcases Nat.lt_or_ge (pos - 1) f.data.length with h | h
    · exact h
    · rw [List.getElem?_eq_none_iff.mpr h] at hd; cases hd
  have a1 : ¬ pos < 1 := by omega
  have a2 : ¬ pos - 1 ≥ f.data.length := by omega
  have a3 : ch < 0x80 := hch
  simp only [readRune, hoff, a1, File.len, a2, a3, hd, ↓reduceIte, File.pos]
  simp; omega

theorem readRune_miss (f : File) (hoff : f.offset = 1) (pos ch b : Nat) (h1 : 1 ≤ pos) (hch : ch < 128)
    (hd : f.data[pos - 1]? = some b) (hne : ch ≠ b) : readRune f pos ch = some (pos, false) := by
  have hlt : pos - 1 < f.data.length := by
    rcases Nat.lt_or_ge (pos - 1) f.data.length with h | h
    · exact h
    · rw [List.getElem?_eq_none_iff.mpr h] at hd; cases hd
  have a1 : ¬ pos < 1 := by omega
  have a2 : ¬ pos - 1 ≥ f.data.length := by omega
  have a3 : ch < 0x80 := hch
  simp only [readRune, hoff, a1, File.len, a2, a3, hd, hne, ↓reduceIte]

theorem readRune_end (f : File) (hoff : f.offset = 1) (pos ch : Nat) (h1 : 1 ≤ pos)
    (hlen : f.data.length ≤ pos - 1) : readRune f pos ch = some (pos, false) := by
  have a1 : ¬ pos < 1 := by omega
  have a2 : pos - 1 ≥ f.data.length := hlen
  simp only [readRune, hoff, a1, File.len, a2, ↓reduceIte]

/-! ### terminals in `run` -/
theorem run_rune_ok (h0 : cfg.maxCalls = 0) (fuel : Nat) (ch : Nat) (nm : Bytes) (ctx : Ctx) (pos rp : Nat) (st : St)
    (hr : readRune cfg.file pos ch = some (rp, true)) :
    run cfg (fuel + 1) (.term (.rune ch nm)) ctx pos st =
      some (⟨.one (.term (Utf8.encodeRune ch) (.rune ch) pos rp), [], none⟩, st) := by
  simp only [run, h0, Terminal.parse, hr]
  simp

theorem run_rune_fail (h0 : cfg.maxCalls = 0) (fuel : Nat) (ch : Nat) (nm : Bytes) (ctx : Ctx) (pos q : Nat) (st : St)
    (hr : readRune cfg.file pos ch = some (q, false)) :
    ∃ st', run cfg (fuel + 1) (.term (.rune ch nm)) ctx pos st = some (⟨.nil, [], some ⟨pos, .notFound nm⟩⟩, st') ∧
      st'.calls = st.calls ∧ st'.cache = st.cache := by
  simp only [run, h0, Terminal.parse, hr, nf]
  exact ⟨_, by simp; rfl, (logEv_fields _ _ _).2.2.1, (logEv_fields _ _ _).1⟩

theorem run_eof_ok (h0 : cfg.maxCalls = 0) (fuel : Nat) (ctx : Ctx) (pos : Nat) (st : St)
    (he : isEOF cfg.file pos = true) :
    run cfg (fuel + 1) .eof ctx pos st = some (⟨.one (.eof pos), [], none⟩, st) := by
  simp [run, h0, he]

theorem seqAlts_single (k : Node → SeqSt → St → Option (Bool × SeqSt × St)) (n : Node) (ss : SeqSt) (st : St)
    (b : Bool) (ss' : SeqSt) (st' : St) (h : k n ss st = some (b, ss', st')) :
    seqAlts k [n] ss st = some (b, ss', st') := by
  simp only [seqAlts, h]
  cases b <;> rfl

theorem cpUnion_nil_right (a : List Nat) : cpUnion a [] = a := by
  cases a <;> simp [cpUnion]

def sentShOf (g : G) : SeqShape :=
  { lookup := fun i => [g, G.eof][i]?, lenCheck := fun len => len == 2, token := seqTok,
    interp := .select 0, single := false, name := none }

/-- **Sentence(g)** when the first alternative `g` returns ends at the end of the input: one call for `g`, one
    for `End` (which matches, so the other alternatives are not tried) -/
theorem sentence_first (h0 : cfg.maxCalls = 0) (f : Nat) (g : G) (pos : Nat) (st st1 : St) (R : Res) (cp : List Nat)
    (e : Option Err) (h : Node) (rest : List Node)
    (hrun : run cfg (f + 3) g [] pos st.regCall = some (⟨R, cp, e⟩, st1))
    (hR : R.alts = h :: rest) (hgt : h.rpos > pos) (heof : isEOF cfg.file h.rpos = true) :
    ∃ o st', run cfg (f + 4) (G.sentence g) [] pos st = some (o, st') ∧ o.res.isNil = false ∧ o.err = none ∧
      st'.calls = st1.calls + 1 := by
  generalize hsh : sentShOf g = sh
  have hshape : (G.sentence g).shape = some sh := by rw [← hsh]; rfl
  have hl0 : sh.lookup 0 = some g := by rw [← hsh]; rfl
  have hl1 : sh.lookup 1 = some .eof := by rw [← hsh]; rfl
  have hl2 : sh.lookup 2 = none := by rw [← hsh]; rfl
  have hlc : sh.lenCheck 2 = true := by rw [← hsh]; rfl
  have hnm : sh.name = none := by rw [← hsh]; rfl
  rw [run_shape h0 (f + 3) _ sh [] pos st hshape]
  rw [seqParse]
  simp only [hl0, hrun, ↓reduceIte, hnm]
  have key : ∀ (ss : SeqSt), ∃ ss', seqAlts (fun nd ss st =>
        seqParse (run cfg (f + 3)) sh (f + 2) (0 + 1) ([] ++ [nd])
          (if nd.rpos > pos then [] else []) nd.rpos (true && !(decide (nd.rpos > pos))) ss st)
        (h :: rest) ss st1 = some (true, ss', st1.regCall) ∧ ss'.result.isNil = false := by
    intro ss
    simp only [seqAlts, hgt, ↓reduceIte, decide_true, Bool.not_true, Bool.and_false, List.nil_append, Nat.zero_add]
    rw [seqParse]
    simp only [hl1, run_eof_ok h0 (f + 2) [] h.rpos st1.regCall heof]
    simp only [pickErr_none, Bool.false_eq_true, ↓reduceIte, Res.alts, seqAlts]
    rw [seqParse]
    simp only [hl2, hlc, pickErr_none, ↓reduceIte]
    refine ⟨{ ss with result := appendNode ss.result (.one (handleResult sh h.rpos [h, .eof h.rpos])) }, ?_, ?_⟩
    · simp [Node.rpos, Node.token, eofTok]
    · cases hs : ss.result <;> simp [appendNode, Res.isNil]
  cases R with
  | nil => cases hR
  | one y =>
    have hR' : [y] = h :: rest := hR
    cases hR'
    dsimp only [Res.alts]
    obtain ⟨ss', k1, k2⟩ := key { cp := cpUnion [] cp, err := pickErr none e }
    simp only [k1, k2, Bool.false_eq_true, ↓reduceIte]
    exact ⟨_, _, rfl, k2, rfl, by rw [(setError_ctxErr _ _).2.2.2.2]; rfl⟩
  | list l =>
    have hR' : l = h :: rest := hR
    subst hR'
    dsimp only [Res.alts]
    obtain ⟨ss', k1, k2⟩ := key { cp := cpUnion [] cp, err := pickErr none e }
    simp only [k1, k2, Bool.false_eq_true, ↓reduceIte]
    exact ⟨_, _, rfl, k2, rfl, by rw [(setError_ctxErr _ _).2.2.2.2]; rfl⟩

/-- `parsley.Parse` around a run that succeeded -/
theorem parse_of_run (fuel : Nat) (g : G) (o : Out) (st' : St)
    (h : run cfg fuel g [] (cfg.file.pos 0) {} = some (o, st')) (hn : o.res.isNil = false) (he : o.err = none) :
    parse cfg fuel g = some { res := o.res, err := none, msg := none, st := st' } := by
  simp only [parse, h, hn, he]
  rfl


/-! ### single steps of `(*sequence).parse`, for any sequence shape -/

theorem seqAlts_single_eq (k : Node → SeqSt → St → Option (Bool × SeqSt × St)) (n : Node) (ss : SeqSt) (st : St) :
    seqAlts k [n] ss st = k n ss st := by
  simp only [seqAlts]
  cases h : k n ss st with
  | none => rfl
  | some x =>
    obtain ⟨b, ss', st'⟩ := x
    cases b <;> rfl

/-- the state of the sequence object after an element answered without error and without curtailing parsers -/
theorem seqSt_after_clean (merge : Bool) (ss : SeqSt) :
    (if merge = true then { cp := cpUnion ss.cp [], result := ss.result, err := pickErr ss.err none : SeqSt }
      else { cp := ss.cp, result := ss.result, err := pickErr ss.err none }) = ss := by
  cases merge
  · rfl
  · simp only [↓reduceIte, cpUnion_nil_right]; rfl

/-- element `d` is a rune that matches: one call, and the sequence goes on behind it -/
theorem seq_step_rune_ok (h0 : cfg.maxCalls = 0) (sh : SeqShape) (fr f d : Nat) (nodes : List Node) (ctx : Ctx)
    (pos : Nat) (merge : Bool) (ss : SeqSt) (st : St) (ch : Nat) (nm : Bytes) (rp : Nat)
    (hl : sh.lookup d = some (.term (.rune ch nm))) (hr : readRune cfg.file pos ch = some (rp, true)) :
    seqParse (run cfg (fr + 1)) sh (f + 1) d nodes ctx pos merge ss st =
      seqParse (run cfg (fr + 1)) sh f (d + 1) (nodes ++ [.term (Utf8.encodeRune ch) (.rune ch) pos rp])
        (if rp > pos then [] else ctx) rp (merge && !(decide (rp > pos))) ss st.regCall := by
  conv => lhs; rw [seqParse]
  simp only [hl, run_rune_ok h0 fr ch nm ctx pos rp st.regCall hr, seqSt_after_clean]
  dsimp only [Res.alts]
  rw [seqAlts_single_eq]
  rfl

/-- element `d` is a rune that does not match -/
theorem seq_step_rune_fail (h0 : cfg.maxCalls = 0) (sh : SeqShape) (fr f d : Nat) (nodes : List Node) (ctx : Ctx)
    (pos : Nat) (merge : Bool) (ss : SeqSt) (st : St) (ch : Nat) (nm : Bytes) (q : Nat)
    (hl : sh.lookup d = some (.term (.rune ch nm))) (hr : readRune cfg.file pos ch = some (q, false)) :
    ∃ b ss' st', seqParse (run cfg (fr + 1)) sh (f + 1) d nodes ctx pos merge ss st = some (b, ss', st') ∧
      st'.calls = st.calls + 1 ∧ st'.cache = st.cache ∧
      ss'.result = (if sh.lenCheck d = true then
        appendNode ss.result (.one (handleResult sh pos (if d > 0 then nodes else []))) else ss.result) := by
  obtain ⟨st1, h1, h2, h3⟩ := run_rune_fail h0 fr ch nm ctx pos q st.regCall hr
  rw [seqParse]
  simp only [hl, h1]
  by_cases hlc : sh.lenCheck d = true
  · simp only [hlc, ↓reduceIte]
    by_cases hd : d > 0
    · simp only [hd, ↓reduceIte]
      refine ⟨_, _, st1, rfl, h2, h3, ?_⟩
      cases merge <;> rfl
    · simp only [hd, ↓reduceIte]
      refine ⟨_, _, st1, rfl, h2, h3, ?_⟩
      cases merge <;> rfl
  · simp only [hlc, Bool.false_eq_true, ↓reduceIte]
    refine ⟨_, _, st1, rfl, h2, h3, ?_⟩
    cases merge <;> rfl

/-- there is no element `d` (the sequence is complete): no call, the node is emitted -/
theorem seq_step_done (sh : SeqShape) (r : RunFn) (f d : Nat) (nodes : List Node) (ctx : Ctx)
    (pos : Nat) (merge : Bool) (ss : SeqSt) (st : St)
    (hl : sh.lookup d = none) (hlc : sh.lenCheck d = true) (hd : d > 0) :
    ∃ b, seqParse r sh (f + 1) d nodes ctx pos merge ss st =
      some (b, { ss with result := appendNode ss.result (.one (handleResult sh pos nodes)) }, st) := by
  rw [seqParse]
  simp only [hl, hlc, hd, ↓reduceIte, seqSt_after_clean]
  exact ⟨_, rfl⟩

theorem handleResult_rpos (sh : SeqShape) (hs : sh.single = false) (pos : Nat) (nodes : List Node) (l : Node)
    (hl : nodes.getLast? = some l) : (handleResult sh pos nodes).rpos = l.rpos := by
  match nodes, hl with
  | [n], hl => simp only [List.getLast?_singleton, Option.some.injEq] at hl; subst hl; simp [handleResult, hs, Node.rpos]
  | n :: m :: rest, hl =>
    rw [List.getLast?_cons_cons] at hl
    simp [handleResult, hl, Node.rpos]


/-! ## family 6: separated list `L → a (, a)*` (SepBy), input `a (,a)^k` -/

def sepA : G := .term (.rune 97 [34, 97, 34])
def sepC : G := .term (.rune 44 [34, 44, 34])
def sepL : G := .sepBy sepA sepC false {}
def sepEnv : List G := [sepL]
def sepData : Nat → Bytes
  | 0 => [97]
  | k + 1 => 97 :: 44 :: sepData k
def sepFile (k : Nat) : File := { name := "f", data := sepData k, offset := 1 }

/-- the harness's input `"a" + strings.Repeat(",a", k)` -/
theorem sepData_eq (k : Nat) : sepData k = 97 :: (List.replicate k [44, 97]).flatten := by
  induction k with
  | zero => rfl
  | succ k ih => rw [sepData, ih]; simp [List.replicate_succ]

theorem sepData_length (k : Nat) : (sepData k).length = 2 * k + 1 := by
  induction k with
  | zero => rfl
  | succ k ih => simp only [sepData, List.length_cons, ih]; omega

theorem sepData_get : ∀ k i, i < 2 * k + 1 → (sepData k)[i]? = some (if i % 2 = 0 then 97 else 44) := by
  intro k
  induction k with
  | zero => intro i hi; have : i = 0 := by omega
            subst this; rfl
  | succ k ih =>
    intro i hi
    match i with
    | 0 => rfl
    | 1 => rfl
    | i + 2 =>
      simp only [sepData, List.getElem?_cons_succ]
      rw [ih i (by omega)]
      have : (i + 2) % 2 = i % 2 := by omega
      rw [this]

structure IsSep (k : Nat) (cfg : Cfg) : Prop where
  env : cfg.env = sepEnv
  file : cfg.file = sepFile k
  max : cfg.maxCalls = 0

def sepSh : SeqShape :=
  { lookup := fun i => if i % 2 == 0 then some sepA else some sepC,
    lenCheck := fun len => (len == 0 && false) || len % 2 == 1,
    token := sepByTok, interp := .none, single := false, name := none }

theorem sepL_shape : sepL.shape = some sepSh := rfl

/-- the loop of SepBy from element `d` at position `d+1`: every remaining token matches (one call each), the
    separator after the last value fails (one call), the list node is emitted there -/
theorem sep_loop {k : Nat} (hc : IsSep k cfg) (fr : Nat) : ∀ j d, d + j = 2 * k + 1 →
    ∀ (f : Nat) (nodes : List Node) (ctx : Ctx) (merge : Bool) (ss : SeqSt) (st : St), j + 1 ≤ f →
      (d > 0 → ∃ l, nodes.getLast? = some l ∧ l.rpos = d + 1) →
      ∃ b ss' st' x, seqParse (run cfg (fr + 1)) sepSh f d nodes ctx (d + 1) merge ss st = some (b, ss', st') ∧
        ss'.result = appendNode ss.result (.one x) ∧ x.rpos = 2 * k + 2 ∧ st'.calls = st.calls + j + 1 := by
  intro j
  induction j with
  | zero =>
    intro d hd f nodes ctx merge ss st hf hlast
    obtain ⟨f, rfl⟩ : ∃ f', f = f' + 1 := ⟨f - 1, by omega⟩
    have hodd : d % 2 = 1 := by omega
    have hl : sepSh.lookup d = some (.term (.rune 44 [34, 44, 34])) := by
      simp [sepSh, hodd, sepC]
    have hr : readRune cfg.file (d + 1) 44 = some (d + 1, false) := by
      rw [hc.file]
      exact readRune_end (sepFile k) rfl (d + 1) 44 (by omega) (by simp [sepFile, sepData_length]; omega)
    obtain ⟨b, ss', st', h1, h2, _, h4⟩ := seq_step_rune_fail hc.max sepSh fr f d nodes ctx (d + 1) merge ss st 44 _ _ hl hr
    have hlc : sepSh.lenCheck d = true := by simp [sepSh, hodd]
    have hd0 : d > 0 := by omega
    rw [hlc] at h4
    simp only [↓reduceIte, hd0] at h4
    obtain ⟨l, e1, e2⟩ := hlast hd0
    refine ⟨b, ss', st', _, h1, h4, ?_, by rw [h2]⟩
    rw [handleResult_rpos sepSh rfl _ nodes l e1, e2]; omega
  | succ j ih =>
    intro d hd f nodes ctx merge ss st hf hlast
    obtain ⟨f, rfl⟩ : ∃ f', f = f' + 1 := ⟨f - 1, by omega⟩
    have hget := sepData_get k d (by omega)
    have key : ∀ (ch : Nat) (nm : Bytes), ch < 128 → sepSh.lookup d = some (.term (.rune ch nm)) →
        (sepData k)[d]? = some ch →
        ∃ b ss' st' x, seqParse (run cfg (fr + 1)) sepSh (f + 1) d nodes ctx (d + 1) merge ss st = some (b, ss', st') ∧
          ss'.result = appendNode ss.result (.one x) ∧ x.rpos = 2 * k + 2 ∧ st'.calls = st.calls + (j + 1) + 1 := by
      intro ch nm hch hl hdat
      have hr : readRune cfg.file (d + 1) ch = some (d + 1 + 1, true) := by
        rw [hc.file]
        exact readRune_hit (sepFile k) rfl (d + 1) ch (by omega) hch (by simpa [sepFile] using hdat)
      rw [seq_step_rune_ok hc.max sepSh fr f d nodes ctx (d + 1) merge ss st ch nm _ hl hr]
      obtain ⟨b, ss', st', x, h1, h2, h3, h4⟩ := ih (d + 1) (by omega) f
        (nodes ++ [.term (Utf8.encodeRune ch) (.rune ch) (d + 1) (d + 1 + 1)])
        (if d + 1 + 1 > d + 1 then [] else ctx) (merge && !(decide (d + 1 + 1 > d + 1))) ss st.regCall (by omega)
        (fun _ => ⟨.term (Utf8.encodeRune ch) (.rune ch) (d + 1) (d + 1 + 1), by simp, rfl⟩)
      refine ⟨b, ss', st', x, h1, h2, h3, ?_⟩
      rw [h4]; simp [St.regCall]; omega
    by_cases hev : d % 2 = 0
    · simp only [hev, ↓reduceIte] at hget
      exact key 97 [34, 97, 34] (by omega) (by simp [sepSh, hev, sepA]) hget
    · simp only [hev, ↓reduceIte] at hget
      exact key 44 [34, 44, 34] (by omega) (by simp [sepSh, hev, sepC]) hget


/-- the closed form of family 6 -/
def sepCalls (k : Nat) : Nat := 2 * k + 4

/-- **family 6, every k**: `Sentence(L)` on `a (,a)^k` (length n = 2k+1) succeeds with exactly 2k+4 = n+3 calls -/
theorem sep_parse {k : Nat} (hc : IsSep k cfg) :
    ∃ p, parse cfg (2 * k + 8) (G.sentence (.ref 0)) = some p ∧ p.err = none ∧ p.res.isNil = false ∧
      p.st.calls = sepCalls k := by
  have hpos : cfg.file.pos 0 = 1 := by rw [hc.file]; rfl
  -- the SepBy
  obtain ⟨b, ss', st1, x, h1, h2, h3, h4⟩ := sep_loop hc (2 * k + 4) (2 * k + 1) 0 (by omega) (2 * k + 5) [] [] true {}
    (({} : St).regCall) (by omega) (fun h => absurd h (by omega))
  have hres : ss'.result = .one x := h2
  have hL : run cfg (2 * k + 6) sepL [] 1 ({} : St).regCall = some (⟨.one x, ss'.cp, none⟩, st1.setError ss'.err) := by
    rw [run_shape hc.max (2 * k + 5) sepL sepSh [] 1 _ sepL_shape, h1]
    simp only [hres, Res.isNil, Bool.false_eq_true, ↓reduceIte]
  have href : run cfg (2 * k + 4 + 3) (.ref 0) [] 1 ({} : St).regCall = some (⟨.one x, ss'.cp, none⟩, st1.setError ss'.err) := by
    rw [run_ref hc.max (2 * k + 6) 0 sepL (by rw [hc.env]; rfl)]
    exact hL
  have heof : isEOF cfg.file x.rpos = true := by
    rw [hc.file, h3]; simp [isEOF, sepFile, File.len, sepData_length]
  obtain ⟨o, st', r1, r2, r3, r4⟩ := sentence_first hc.max (2 * k + 4) (.ref 0) 1 {} _ (.one x) _ none x []
    href rfl (by omega) heof
  have := parse_of_run (cfg := cfg) (2 * k + 8) (G.sentence (.ref 0)) o st' (by rw [hpos]; exact r1) r2 r3
  refine ⟨_, this, rfl, r2, ?_⟩
  show st'.calls = _
  rw [r4, (setError_ctxErr _ _).2.2.2.2, h4]
  simp [St.regCall, sepCalls]; omega

def sepCfg (k : Nat) : Cfg :=
  { env := sepEnv, file := sepFile k, fileSet := {},
    params := { floatOk := fun _ => true, durErr := fun _ => none, regexp := fun _ _ => none } }

theorem sepCfg_is (k : Nat) : IsSep k (sepCfg k) := ⟨rfl, rfl, rfl⟩


/-! ### more generic steps -/

/-- element `d` answers with a single node and no error, while curtailing parsers are no longer merged -/
theorem seq_step_one (sh : SeqShape) (r : RunFn) (f d : Nat) (nodes : List Node) (ctx : Ctx)
    (pos : Nat) (ss : SeqSt) (st st1 : St) (g : G) (x : Node) (cp : List Nat)
    (hl : sh.lookup d = some g) (hr : r g ctx pos st.regCall = some (⟨.one x, cp, none⟩, st1)) :
    seqParse r sh (f + 1) d nodes ctx pos false ss st =
      seqParse r sh f (d + 1) (nodes ++ [x]) (if x.rpos > pos then [] else ctx) x.rpos
        (false && !(decide (x.rpos > pos))) ss st1 := by
  conv => lhs; rw [seqParse]
  simp only [hl, hr, pickErr_none, Bool.false_eq_true, ↓reduceIte]
  dsimp only [Res.alts]
  rw [seqAlts_single_eq]

/-- Any of two parsers -/
theorem run_any2 (h0 : cfg.maxCalls = 0) (f : Nat) (g1 g2 : G) (ctx : Ctx) (pos : Nat) (st : St) (o1 o2 : Out)
    (s1 s2 : St) (h1 : run cfg (f + 1) g1 ctx pos st.regCall = some (o1, s1))
    (h2 : run cfg (f + 1) g2 ctx pos s1.regCall = some (o2, s2))
    (hn : (appendNode o1.res o2.res).isNil = false) :
    ∃ cp st', run cfg (f + 2) (.any [g1, g2]) ctx pos st = some (⟨appendNode o1.res o2.res, cp, none⟩, st') ∧
      st'.calls = s2.calls ∧ st'.cache = s2.cache := by
  rw [run_any_eq h0]
  simp only [anyLoop, h1, h2]
  obtain ⟨_, a2, _, _⟩ := altErr_fields pos
    { cp := cpUnion ({} : AltSt).cp o1.cp, res := appendNode ({} : AltSt).res o1.res, err := ({} : AltSt).err,
      nf := ({} : AltSt).nf } o1.err
  generalize altErr pos _ o1.err = A at a2
  have a2' : A.res = o1.res := a2
  obtain ⟨_, b2, _, _⟩ := altErr_fields pos
    { cp := cpUnion A.cp o2.cp, res := appendNode A.res o2.res, err := A.err, nf := A.nf } o2.err
  generalize altErr pos _ o2.err = B at b2
  have b2' : B.res = appendNode o1.res o2.res := by rw [b2, a2']
  simp only [b2', hn, Bool.false_eq_true, ↓reduceIte]
  exact ⟨_, _, rfl, (setError_ctxErr _ _).2.2.2.2, (setError_ctxErr _ _).2.1⟩


/-! ## family 5: nested brackets `S → ( S ) | a` (memoized), input `(^k a )^k` -/

def brO : G := .term (.rune 40 [34, 40, 34])
def brC : G := .term (.rune 41 [34, 41, 34])
def brA : G := .term (.rune 97 [34, 97, 34])
def brS : G := .seq .seqOf [brO, .ref 0, brC] {}
def brBody : G := .any [brS, brA]
def brP : G := .memo 0 brBody
def brEnv : List G := [brP]
def brData (k : Nat) : Bytes := List.replicate k 40 ++ 97 :: List.replicate k 41
def brFile (k : Nat) : File := { name := "f", data := brData k, offset := 1 }

theorem brData_length (k : Nat) : (brData k).length = 2 * k + 1 := by
  simp [brData]; omega

theorem brData_open (k i : Nat) (h : i < k) : (brData k)[i]? = some 40 := by
  rw [brData, List.getElem?_append_left (by simpa using h), List.getElem?_replicate]
  simp [h]

theorem brData_mid (k : Nat) : (brData k)[k]? = some 97 := by
  rw [brData, List.getElem?_append_right (by simp)]
  simp

theorem brData_close (k i : Nat) (h1 : k < i) (h2 : i ≤ 2 * k) : (brData k)[i]? = some 41 := by
  rw [brData, List.getElem?_append_right (by simp; omega)]
  simp only [List.length_replicate]
  obtain ⟨m, hm⟩ : ∃ m, i - k = m + 1 := ⟨i - k - 1, by omega⟩
  rw [hm, List.getElem?_cons_succ, List.getElem?_replicate]
  simp; omega

structure IsBr (k : Nat) (cfg : Cfg) : Prop where
  env : cfg.env = brEnv
  file : cfg.file = brFile k
  max : cfg.maxCalls = 0

def brSh : SeqShape :=
  { lookup := fun i => [brO, G.ref 0, brC][i]?, lenCheck := fun len => len == 3, token := seqTok,
    interp := .none, single := false, name := none }

theorem brS_shape : brS.shape = some brSh := rfl

theorem br_not_curtailed (cfg : Cfg) (pos : Nat) :
    ¬ Ctx.get [] 0 > remaining cfg.file pos + Facts.curtailSlack := by
  simp [Ctx.get]

/-- **the nest**: `S` at position `d+1` (behind `d` opening brackets), `j = k - d` brackets to go: one node ending
    behind the matching closing bracket, 5 calls per bracket pair (`( S )`, `a`; `(`, `S`, `)`) and 3 for the
    innermost `a` (`( S )`, `a`; `(`) -/
theorem br_level {k : Nat} (hc : IsBr k cfg) : ∀ j d, d + j = k → ∀ st : St, st.cache = [] →
    ∃ x cp st', run cfg (4 * j + 4) brP [] (d + 1) st = some (⟨.one x, cp, none⟩, st') ∧
      x.rpos + d = 2 * k + 2 ∧ st'.calls = st.calls + 5 * j + 3 := by
  intro j
  induction j with
  | zero =>
    intro d hd st hcache
    have hdk : d = k := by omega
    subst hdk
    rw [brP, run_memo_eq hc.max 3 0 brBody [] (d + 1) st (by rw [hcache]; rfl) (br_not_curtailed cfg _)]
    -- `( S )` fails on its first element
    have hrO : readRune cfg.file (d + 1) 40 = some (d + 1, false) := by
      rw [hc.file]
      exact readRune_miss (brFile d) rfl (d + 1) 40 97 (by omega) (by omega) (by simpa [brFile] using brData_mid d) (by omega)
    obtain ⟨b, ss', s1, e1, e2, e3, e4⟩ := seq_step_rune_fail hc.max brSh 0 0 0 [] (Ctx.inc [] 0) (d + 1) true {}
      (memoEnter cfg 0 (d + 1) st).regCall 40 [34, 40, 34] _ rfl hrO
    have hlc : brSh.lenCheck 0 = false := rfl
    rw [hlc] at e4
    simp only [Bool.false_eq_true, ↓reduceIte] at e4
    have hS : ∃ cp1 er1, run cfg 2 brS (Ctx.inc [] 0) (d + 1) (memoEnter cfg 0 (d + 1) st).regCall =
        some (⟨.nil, cp1, er1⟩, s1) := by
      rw [run_shape hc.max 1 brS brSh _ _ _ brS_shape, e1]
      have : ss'.result.isNil = true := by rw [e4]; rfl
      simp only [this, ↓reduceIte]
      exact ⟨_, _, rfl⟩
    obtain ⟨cp1, er1, hS⟩ := hS
    -- `a` matches
    have hrA : readRune cfg.file (d + 1) 97 = some (d + 1 + 1, true) := by
      rw [hc.file]
      exact readRune_hit (brFile d) rfl (d + 1) 97 (by omega) (by omega) (by simpa [brFile] using brData_mid d)
    have hA := run_rune_ok hc.max 1 97 [34, 97, 34] (Ctx.inc [] 0) (d + 1) _ s1.regCall hrA
    obtain ⟨cp, s2, r1, r2, _⟩ := run_any2 hc.max 1 brS brA (Ctx.inc [] 0) (d + 1) (memoEnter cfg 0 (d + 1) st) _ _ s1 _
      hS hA rfl
    rw [brBody, r1]
    refine ⟨_, cp, _, rfl, ?_, ?_⟩
    · simp [Node.rpos]; omega
    · show s2.calls = _
      rw [r2]
      show s1.calls + 1 = _
      rw [e2]
      show (memoEnter cfg 0 (d + 1) st).calls + 1 + 1 + 1 = _
      rw [(memoEnter_fields _ _ _ _).1]
  | succ j ih =>
    intro d hd st hcache
    rw [brP, run_memo_eq hc.max (4 * (j + 1) + 3) 0 brBody [] (d + 1) st (by rw [hcache]; rfl) (br_not_curtailed cfg _)]
    generalize hst0 : (memoEnter cfg 0 (d + 1) st).regCall = st0
    have hst0c : st0.calls = st.calls + 1 ∧ st0.cache = [] := by
      rw [← hst0]
      exact ⟨by show (memoEnter cfg 0 (d + 1) st).calls + 1 = _; rw [(memoEnter_fields _ _ _ _).1],
        by show (memoEnter cfg 0 (d + 1) st).cache = _; rw [(memoEnter_fields _ _ _ _).2, hcache]⟩
    -- `(` matches
    have hrO : readRune cfg.file (d + 1) 40 = some (d + 1 + 1, true) := by
      rw [hc.file]
      exact readRune_hit (brFile k) rfl (d + 1) 40 (by omega) (by omega)
        (by simpa [brFile] using brData_open k d (by omega))
    -- the inner `S`
    obtain ⟨x, cpx, s2, i1, i2, i3⟩ := ih (d + 1) (by omega) st0.regCall.regCall hst0c.2
    have href : run cfg (4 * j + 4 + 1) (.ref 0) [] (d + 1 + 1) st0.regCall.regCall = some (⟨.one x, cpx, none⟩, s2) := by
      rw [run_ref hc.max (4 * j + 4) 0 brP (by rw [hc.env]; rfl)]
      exact i1
    -- `)` matches behind it
    have hrC : readRune cfg.file x.rpos 41 = some (x.rpos + 1, true) := by
      rw [hc.file]
      exact readRune_hit (brFile k) rfl x.rpos 41 (by omega) (by omega)
        (by simpa [brFile] using brData_close k (x.rpos - 1) (by omega) (by omega))
    have hgt1 : d + 1 + 1 > d + 1 := by omega
    have hgt2 : x.rpos > d + 1 + 1 := by omega
    have hseq : ∃ b y, seqParse (run cfg (4 * j + 4 + 1)) brSh (4 * j + 4 + 1) 0 [] (Ctx.inc [] 0) (d + 1) true {} st0 =
        some (b, { result := .one y }, s2.regCall) ∧ y.rpos = x.rpos + 1 := by
      rw [show 4 * j + 4 + 1 = (4 * j + 4) + 1 from rfl]
      rw [seq_step_rune_ok hc.max brSh (4 * j + 4) (4 * j + 4) 0 [] (Ctx.inc [] 0) (d + 1) true {} st0 40 [34, 40, 34] _ rfl hrO]
      simp only [hgt1, ↓reduceIte, decide_true, Bool.not_true, Bool.and_false, List.nil_append]
      rw [show 4 * j + 4 = (4 * j + 3) + 1 from rfl]
      rw [seq_step_one brSh (run cfg (4 * j + 3 + 1 + 1)) (4 * j + 3) 1 _ [] (d + 1 + 1) {} st0.regCall s2 (.ref 0) x cpx rfl href]
      simp only [hgt2, ↓reduceIte, decide_true, Bool.not_true, Bool.and_false]
      rw [show 4 * j + 3 = (4 * j + 2) + 1 from rfl]
      rw [seq_step_rune_ok hc.max brSh (4 * j + 2 + 1 + 1) (4 * j + 2) 2 _ [] x.rpos false {} s2 41 [34, 41, 34] _ rfl hrC]
      obtain ⟨b, hb⟩ := seq_step_done brSh (run cfg (4 * j + 2 + 1 + 1 + 1)) (4 * j + 1) 3
        ([Node.term (Utf8.encodeRune 40) (Val.rune 40) (d + 1) (d + 1 + 1)] ++ [x] ++
          [Node.term (Utf8.encodeRune 41) (Val.rune 41) x.rpos (x.rpos + 1)])
        (if x.rpos + 1 > x.rpos then [] else []) (x.rpos + 1) (false && !(decide (x.rpos + 1 > x.rpos))) {} s2.regCall
        rfl rfl (by omega)
      rw [show 4 * j + 2 = (4 * j + 1) + 1 from rfl, hb]
      refine ⟨b, _, rfl, ?_⟩
      rw [handleResult_rpos brSh rfl _ _ (Node.term (Utf8.encodeRune 41) (Val.rune 41) x.rpos (x.rpos + 1)) (by simp)]
      rfl
    obtain ⟨b, y, q1, q2⟩ := hseq
    have hS : run cfg (4 * j + 4 + 1 + 1) brS (Ctx.inc [] 0) (d + 1) st0 = some (⟨.one y, [], none⟩, s2.regCall.setError none) := by
      rw [run_shape hc.max (4 * j + 4 + 1) brS brSh _ _ _ brS_shape, q1]
      rfl
    -- `a` does not match
    have hrA : readRune cfg.file (d + 1) 97 = some (d + 1, false) := by
      rw [hc.file]
      exact readRune_miss (brFile k) rfl (d + 1) 97 40 (by omega) (by omega)
        (by simpa [brFile] using brData_open k d (by omega)) (by omega)
    obtain ⟨s3, t1, t2, _⟩ := run_rune_fail hc.max (4 * j + 4 + 1) 97 [34, 97, 34] (Ctx.inc [] 0) (d + 1) _
      (s2.regCall.setError none).regCall hrA
    rw [← hst0] at hS
    obtain ⟨cp, s4, r1, r2, _⟩ := run_any2 hc.max (4 * j + 4 + 1) brS brA (Ctx.inc [] 0) (d + 1) (memoEnter cfg 0 (d + 1) st) _ _ _ _
      hS t1 rfl
    rw [show 4 * (j + 1) + 3 = 4 * j + 4 + 1 + 2 by omega, brBody, r1]
    refine ⟨y, cp, _, rfl, by omega, ?_⟩
    show s4.calls = _
    rw [r2, t2]
    show s2.calls + 1 + 1 = _
    rw [i3]
    show st0.calls + 1 + 1 + 5 * j + 3 + 1 + 1 = _
    rw [hst0c.1]; omega


/-- the closed form of family 5 -/
def brCalls (k : Nat) : Nat := 5 * k + 5

/-- **family 5, every k**: `Sentence(S)` on `(^k a )^k` (length n = 2k+1) succeeds with exactly 5k+5 calls -/
theorem br_parse {k : Nat} (hc : IsBr k cfg) :
    ∃ p, parse cfg (4 * k + 8) (G.sentence (.ref 0)) = some p ∧ p.err = none ∧ p.res.isNil = false ∧
      p.st.calls = brCalls k := by
  have hpos : cfg.file.pos 0 = 1 := by rw [hc.file]; rfl
  obtain ⟨x, cp, s1, h1, h2, h3⟩ := br_level hc k 0 (by omega) ({} : St).regCall rfl
  have href : run cfg (4 * k + 4 + 3) (.ref 0) [] 1 ({} : St).regCall = some (⟨.one x, cp, none⟩, s1) := by
    rw [run_ref hc.max (4 * k + 4 + 2) 0 brP (by rw [hc.env]; rfl)]
    exact run_mono cfg (4 * k + 4) (4 * k + 4 + 2) (by omega) _ _ _ _ _ h1
  have heof : isEOF cfg.file x.rpos = true := by
    have : x.rpos = 2 * k + 2 := by omega
    rw [hc.file, this]; simp [isEOF, brFile, File.len, brData_length]
  obtain ⟨o, st', r1, r2, r3, r4⟩ := sentence_first hc.max (4 * k + 4) (.ref 0) 1 {} _ (.one x) _ none x []
    href rfl (by omega) heof
  have := parse_of_run (cfg := cfg) (4 * k + 8) (G.sentence (.ref 0)) o st' (by rw [hpos]; exact r1) r2 r3
  refine ⟨_, this, rfl, r2, ?_⟩
  show st'.calls = _
  rw [r4, h3]
  simp [St.regCall, brCalls]; omega

def brCfg (k : Nat) : Cfg :=
  { env := brEnv, file := brFile k, fileSet := {},
    params := { floatOk := fun _ => true, durErr := fun _ => none, regexp := fun _ _ => none } }

theorem brCfg_is (k : Nat) : IsBr k (brCfg k) := ⟨rfl, rfl, rfl⟩

end PV.C17
