/-
  C08 helper lemmas, part 4: the answers of `Terminal.spec` are positioned inside [pos, pos + |rest|],
  and the only panic it contains is the documented one of terminal.Regexp (missing capturing group).
-/
import ParsleyVerif.Proofs.TerminalParse
namespace PV
open PV.Text

/-- nodes are terminal leaves, start at `pos` and end inside the input; errors are positioned inside the input -/
def Ranged (l : Bytes) (pos : Nat) : TermOut → Prop
  | .node n => (n.pos = pos ∧ pos ≤ n.rpos ∧ n.rpos ≤ pos + l.length) ∧ ∃ tok v p r, n = .term tok v p r
  | .err e => pos ≤ e.pos ∧ e.pos ≤ pos + l.length
  | .panic _ => True

def NoPanic : TermOut → Prop
  | .panic _ => False
  | _ => True

theorem ranged_nf (l : Bytes) (pos : Nat) (name : Bytes) : Ranged l pos (nf pos name) ∧ NoPanic (nf pos name) := by
  simp [Ranged, NoPanic, nf]

theorem ranged_other (l : Bytes) (pos q : Nat) (msg : String) (h1 : pos ≤ q) (h2 : q ≤ pos + l.length) :
    Ranged l pos (other q msg) ∧ NoPanic (other q msg) := by
  simp [Ranged, NoPanic, other]; omega

theorem ranged_node (l : Bytes) (pos k : Nat) (tok : Bytes) (v : Val) (h : k ≤ l.length) :
    Ranged l pos (.node (.term tok v pos (pos + k))) ∧ NoPanic (.node (.term tok v pos (pos + k))) := by
  refine ⟨⟨⟨rfl, ?_, ?_⟩, _, _, _, _, rfl⟩, trivial⟩
  · show pos ≤ pos + k; omega
  · show pos + k ≤ pos + l.length; omega

theorem head_drop_lt (r : Bytes) (n q : Nat) (h : (r.drop n).head? = some q) : n < r.length := by
  cases hd : r.drop n with
  | nil => rw [hd] at h; simp at h
  | cons a t =>
    have : (r.drop n).length = t.length + 1 := by rw [hd]; rfl
    rw [List.length_drop] at this; omega

theorem wordAt_le (w l : Bytes) (h : wordAt w l = true) : w.length ≤ l.length :=
  ((wordAt_iff w l).mp h).1.length_le

theorem integerSpec_ranged (l : Bytes) (pos : Nat) : Ranged l pos (integerSpec l pos) ∧ NoPanic (integerSpec l pos) := by
  unfold integerSpec
  cases hm : integerMatch l with
  | none => exact ranged_nf l pos _
  | some k =>
    simp only []
    split
    · exact ranged_nf l pos _
    · cases parseInt0 (l.take k) with
      | none => exact ranged_other l pos pos _ (by omega) (by omega)
      | some v => exact ranged_node l pos k _ _ (integerMatch_le l k hm)

theorem floatSpec_ranged (P : Params) (l : Bytes) (pos : Nat) : Ranged l pos (floatSpec P l pos) ∧ NoPanic (floatSpec P l pos) := by
  unfold floatSpec
  cases hm : floatMatch l with
  | none => exact ranged_nf l pos _
  | some k =>
    simp only []
    split
    · exact ranged_node l pos k _ _ (floatMatch_le l k hm)
    · exact ranged_other l pos pos _ (by omega) (by omega)

theorem durationSpec_ranged (P : Params) (l : Bytes) (pos : Nat) :
    Ranged l pos (durationSpec P l pos) ∧ NoPanic (durationSpec P l pos) := by
  unfold durationSpec
  cases hm : durationMatch l with
  | none => exact ranged_nf l pos _
  | some k =>
    simp only []
    cases P.durErr (l.take k) with
    | none => exact ranged_node l pos k _ _ (durationMatch_le l k hm)
    | some msg => simp [Ranged, NoPanic]

theorem charSpec_ranged (l : Bytes) (pos : Nat) : Ranged l pos (charSpec l pos) ∧ NoPanic (charSpec l pos) := by
  unfold charSpec
  split
  · rename_i r
    cases hm : charMatch r with
    | none => exact ranged_other _ pos _ _ (by omega) (by simp)
    | some k =>
      have hk := (charMatch_le r k hm).2
      simp only []
      split
      · rename_i hd
        have := head_drop_lt r k 39 hd
        split
        · have e : pos + 1 + k + 1 = pos + (1 + k + 1) := by omega
          rw [e]; exact ranged_node _ pos _ _ _ (by simp; omega)
        · exact ranged_other _ pos _ _ (by omega) (by simp; omega)
      · exact ranged_other _ pos _ _ (by omega) (by simp; omega)
  · exact ranged_nf l pos _

theorem quotedSpec_ranged (q : Nat) (r : Bytes) (pos : Nat) (hq : q = 34 ∨ q = 96) :
    Ranged (q :: r) pos (quotedSpec q (if q = 96 then backquoteBody else unquoteString) r pos) ∧
    NoPanic (quotedSpec q (if q = 96 then backquoteBody else unquoteString) r pos) := by
  unfold quotedSpec
  split
  · rename_i hd
    have : 0 < r.length := by
      cases r with
      | nil => simp at hd
      | cons _ _ => simp
    exact ranged_node _ pos 2 _ _ (by simp; omega)
  · have hn := body_le q r
    generalize ((if r = [] then (none, 0) else (if q = 96 then backquoteBody else unquoteString) r) : Option Bytes × Nat) = vn at hn
    obtain ⟨v, n⟩ := vn
    simp only [] at hn ⊢
    split
    · rename_i hd
      have := head_drop_lt r n q hd
      have e : pos + 1 + n + 1 = pos + (1 + n + 1) := by omega
      rw [e]; exact ranged_node _ pos _ _ _ (by simp; omega)
    · simp [Ranged, NoPanic]; omega

theorem stringSpec_ranged (bq : Bool) (l : Bytes) (pos : Nat) : Ranged l pos (stringSpec bq l pos) ∧ NoPanic (stringSpec bq l pos) := by
  unfold stringSpec
  split
  · exact quotedSpec_ranged 34 _ pos (Or.inl rfl)
  · split
    · exact quotedSpec_ranged 96 _ pos (Or.inr rfl)
    · exact ranged_nf _ pos _
  · exact ranged_nf _ pos _

theorem regexpSpec_ranged (P : Params) (id : Nat) (tok name : Bytes) (g : Bool) (l : Bytes) (pos : Nat)
    (hl : P.LenOk (.regexp id tok name g)) : Ranged l pos (regexpSpec P id tok name g l pos) := by
  unfold regexpSpec
  split
  · exact (ranged_nf l pos _).1
  · cases hp : P.regexp id l with
    | none => exact (ranged_nf l pos _).1
    | some p =>
      obtain ⟨m, gv⟩ := p
      have hm := hl l m gv hp
      simp only []
      split
      · cases gv with
        | none => simp [Ranged]
        | some gg => exact (ranged_node l pos m _ _ hm).1
      · exact (ranged_node l pos m _ _ hm).1

theorem regexpSpec_noPanic (P : Params) (id : Nat) (tok name : Bytes) (g : Bool) (l : Bytes) (pos : Nat)
    (hg : P.GroupOk (.regexp id tok name g)) : NoPanic (regexpSpec P id tok name g l pos) := by
  unfold regexpSpec
  split
  · exact (ranged_nf l pos _).2
  · cases hp : P.regexp id l with
    | none => exact (ranged_nf l pos _).2
    | some p =>
      obtain ⟨m, gv⟩ := p
      simp only []
      cases g with
      | false => simp [NoPanic]
      | true =>
        have := hg l m gv hp
        cases gv with
        | none => simp at this
        | some gg => simp [NoPanic]

theorem spec_ranged (P : Params) (l : Bytes) (pos : Nat) (t : Terminal) (hl : P.LenOk t) :
    Ranged l pos (Terminal.spec P l pos t) := by
  cases t with
  | rune ch name =>
    simp only [Terminal.spec]
    cases hw : runeW ch l with
    | none => exact (ranged_nf l pos _).1
    | some w => exact (ranged_node l pos w _ _ (runeW_bounds ch l w hw).2).1
  | op s name =>
    simp only [Terminal.spec]
    split
    · rename_i hp; exact (ranged_node l pos _ _ _ hp.length_le).1
    · exact (ranged_nf l pos _).1
  | word w v name =>
    simp only [Terminal.spec]
    split
    · rename_i hp; exact (ranged_node l pos _ _ _ (wordAt_le w l hp)).1
    · exact (ranged_nf l pos _).1
  | bool t e =>
    simp only [Terminal.spec]
    split
    · rename_i hp; exact (ranged_node l pos _ _ _ (wordAt_le t l hp)).1
    · split
      · rename_i hp; exact (ranged_node l pos _ _ _ (wordAt_le e l hp)).1
      · exact (ranged_nf l pos _).1
  | nil s =>
    simp only [Terminal.spec]
    split
    · rename_i hp; exact (ranged_node l pos _ _ _ (wordAt_le s l hp)).1
    · exact (ranged_nf l pos _).1
  | integer => exact (integerSpec_ranged l pos).1
  | float => exact (floatSpec_ranged P l pos).1
  | string bq => exact (stringSpec_ranged bq l pos).1
  | char => exact (charSpec_ranged l pos).1
  | duration => exact (durationSpec_ranged P l pos).1
  | regexp id tok name g => exact regexpSpec_ranged P id tok name g l pos hl

theorem spec_noPanic (P : Params) (l : Bytes) (pos : Nat) (t : Terminal) (hg : P.GroupOk t) :
    NoPanic (Terminal.spec P l pos t) := by
  cases t with
  | rune ch name =>
    simp only [Terminal.spec]
    cases hw : runeW ch l <;> simp [NoPanic, nf]
  | op s name => simp only [Terminal.spec]; split <;> simp [NoPanic, nf]
  | word w v name => simp only [Terminal.spec]; split <;> simp [NoPanic, nf]
  | bool t e =>
    simp only [Terminal.spec]
    split
    · simp [NoPanic]
    · split <;> simp [NoPanic, nf]
  | nil s => simp only [Terminal.spec]; split <;> simp [NoPanic, nf]
  | integer => exact (integerSpec_ranged l pos).2
  | float => exact (floatSpec_ranged P l pos).2
  | string bq => exact (stringSpec_ranged bq l pos).2
  | char => exact (charSpec_ranged l pos).2
  | duration => exact (durationSpec_ranged P l pos).2
  | regexp id tok name g => exact regexpSpec_noPanic P id tok name g l pos hg

end PV
