/-
  Small facts about the value-level helpers of the parser core: AppendNode, the result cache, the
  left-recursion context, error selection.
-/
import ParsleyVerif.Spec.Core
namespace PV
open PV.Text

/-! ### AppendNode never invents alternatives -/

theorem mem_nlAppend1 (nl : List Node) (n x : Node) (h : x ∈ nlAppend1 nl n) : x ∈ nl ∨ x = n := by
  unfold nlAppend1 at h
  split at h
  · split at h
    · exact .inl h
    · simpa using h
  · simpa using h

theorem mem_foldl_nlAppend1 (l : List Node) : ∀ (nl : List Node) (x : Node),
    x ∈ l.foldl nlAppend1 nl → x ∈ nl ∨ x ∈ l := by
  induction l with
  | nil => intro nl x h; exact .inl h
  | cons n l ih =>
    intro nl x h
    rw [List.foldl_cons] at h
    cases ih _ _ h with
    | inl h1 =>
      cases mem_nlAppend1 _ _ _ h1 with
      | inl h2 => exact .inl h2
      | inr h2 => exact .inr (h2 ▸ List.mem_cons_self ..)
    | inr h1 => exact .inr (List.mem_cons_of_mem _ h1)

theorem mem_nlAppend (nl : List Node) (b : Res) (x : Node) (h : x ∈ nlAppend nl b) : x ∈ nl ∨ x ∈ b.alts := by
  cases b with
  | nil => exact .inl h
  | one n =>
    cases mem_nlAppend1 _ _ _ h with
    | inl h1 => exact .inl h1
    | inr h1 => exact .inr (by simp [Res.alts, h1])
  | list l => exact mem_foldl_nlAppend1 l nl x h

theorem mem_appendNode (a b : Res) (x : Node) (h : x ∈ (appendNode a b).alts) : x ∈ a.alts ∨ x ∈ b.alts := by
  cases a with
  | nil => exact .inr (by simpa [appendNode] using h)
  | one n =>
    cases b with
    | nil => exact .inl (by simpa [appendNode] using h)
    | one m =>
      simp only [appendNode, Res.alts] at h
      cases mem_nlAppend [n] (.one m) x h with
      | inl h1 => exact .inl (by simpa [Res.alts] using h1)
      | inr h1 => exact .inr h1
    | list l =>
      simp only [appendNode, Res.alts] at h
      cases mem_nlAppend [n] (.list l) x h with
      | inl h1 => exact .inl (by simpa [Res.alts] using h1)
      | inr h1 => exact .inr h1
  | list la =>
    cases b with
    | nil => exact .inl (by simpa [appendNode] using h)
    | one m =>
      simp only [appendNode, Res.alts] at h
      exact mem_nlAppend la (.one m) x h
    | list l =>
      simp only [appendNode, Res.alts] at h
      exact mem_nlAppend la (.list l) x h

theorem alts_nil_of_isNil {r : Res} (h : r.isNil = true) : r.alts = [] := by
  cases r <;> simp_all [Res.isNil, Res.alts]

theorem isNil_iff (r : Res) : r.isNil = true ↔ r = .nil := by
  cases r <;> simp [Res.isNil]

/-! ### the result cache -/

theorem cacheGet_some {c : List CacheEntry} {idx pos : Nat} {ctx : Ctx} {e : CacheEntry}
    (h : cacheGet c idx pos ctx = some e) : e ∈ c ∧ e.idx = idx ∧ e.pos = pos := by
  unfold cacheGet at h
  split at h
  · cases h
  · rename_i e' hf
    split at h
    · cases h
      have := List.find?_some hf
      have hm := List.mem_of_find?_eq_some hf
      simp only [Bool.and_eq_true, beq_iff_eq] at this
      exact ⟨hm, this.1, this.2⟩
    · cases h

theorem mem_cacheSave {c : List CacheEntry} {e x : CacheEntry} (h : x ∈ cacheSave c e) : x = e ∨ x ∈ c := by
  unfold cacheSave at h
  cases h with
  | head => exact .inl rfl
  | tail _ hm => exact .inr (List.mem_filter.mp hm).1

/-! ### the left-recursion context -/

theorem Ctx.get_nil (k : Nat) : Ctx.get [] k = 0 := rfl

theorem find_map_of_pres {α : Type} (f : α → α) (p : α → Bool) (h : ∀ x, p (f x) = p x) :
    ∀ l : List α, List.find? p (l.map f) = (l.find? p).map f := by
  intro l
  induction l with
  | nil => rfl
  | cons x l ih =>
    simp only [List.map_cons, List.find?_cons, h]
    cases p x with
    | true => rfl
    | false => exact ih

def incF (k : Nat) (kv : Nat × Nat) : Nat × Nat := if kv.1 == k then (kv.1, kv.2 + 1) else kv

theorem incF_fst (k : Nat) (kv : Nat × Nat) : (incF k kv).1 = kv.1 := by
  unfold incF; split <;> rfl

theorem find_map_inc (k j : Nat) (c : Ctx) :
    List.find? (fun kv => kv.1 == j) (c.map (incF k)) = (List.find? (fun kv => kv.1 == j) c).map (incF k) :=
  find_map_of_pres (incF k) (fun kv => kv.1 == j) (fun x => by simp only [incF_fst]) c

theorem Ctx.inc_eq (c : Ctx) (k : Nat) :
    Ctx.inc c k = if c.any (·.1 == k) then c.map (incF k) else c ++ [(k, 1)] := rfl

theorem Ctx.get_inc_self (c : Ctx) (k : Nat) : Ctx.get (Ctx.inc c k) k = Ctx.get c k + 1 := by
  rw [Ctx.inc_eq]
  unfold Ctx.get
  split
  · rename_i hany
    rw [find_map_inc]
    cases hf : List.find? (fun kv => kv.1 == k) c with
    | none =>
      have := List.find?_eq_none.mp hf
      simp only [List.any_eq_true] at hany
      obtain ⟨x, hx, hxk⟩ := hany
      exact absurd hxk (by simpa using this x hx)
    | some kv =>
      have hk := List.find?_some hf
      simp only [Option.map_some, Option.getD_some]
      unfold incF
      simp [hk]
  · rename_i hany
    have hnone : List.find? (fun kv => kv.1 == k) c = none := by
      apply List.find?_eq_none.mpr
      intro x hx hxk
      exact hany (List.any_eq_true.mpr ⟨x, hx, hxk⟩)
    rw [List.find?_append, hnone]
    simp

theorem Ctx.get_inc_other (c : Ctx) (k j : Nat) (h : j ≠ k) : Ctx.get (Ctx.inc c k) j = Ctx.get c j := by
  rw [Ctx.inc_eq]
  unfold Ctx.get
  split
  · rw [find_map_inc]
    cases hf : List.find? (fun kv => kv.1 == j) c with
    | none => rfl
    | some kv =>
      have hj := List.find?_some hf
      simp only [beq_iff_eq] at hj
      have hkj : (kv.1 == k) = false := by
        simp only [beq_eq_false_iff_ne, ne_eq, hj]; exact h
      simp only [Option.map_some, Option.getD_some]
      unfold incF
      simp [hkj]
  · rw [List.find?_append]
    cases hf : List.find? (fun kv => kv.1 == j) c with
    | none =>
      have : (k == j) = false := by
        simp only [beq_eq_false_iff_ne, ne_eq]; exact fun e => h e.symm
      simp [this]
    | some kv => simp

/-! ### error selection keeps one of its arguments -/

theorem pickErr_cases (cur new : Option Err) : pickErr cur new = cur ∨ pickErr cur new = new := by
  unfold pickErr
  cases new with
  | none => exact .inl rfl
  | some e =>
    cases cur with
    | none => exact .inr rfl
    | some c => simp only; split <;> simp

theorem setError_ctxErr (st : St) (e : Option Err) :
    ((st.setError e).ctxErr = st.ctxErr ∨ (st.setError e).ctxErr = e) ∧
    (st.setError e).cache = st.cache ∧ (st.setError e).active = st.active ∧
    (st.setError e).log = st.log ∧ (st.setError e).calls = st.calls := by
  unfold St.setError
  cases e with
  | none => simp
  | some e =>
    simp only
    split
    · simp
    · split <;> simp

theorem altErr_fields (pos : Nat) (a : AltSt) (e : Option Err) :
    (altErr pos a e).cp = a.cp ∧ (altErr pos a e).res = a.res ∧
    ((altErr pos a e).err = a.err ∨ (altErr pos a e).err = e) ∧
    ((altErr pos a e).nf = a.nf ∨ (altErr pos a e).nf = e) := by
  cases e with
  | none => simp [altErr]
  | some e2 =>
    cases ha : a.err with
    | none =>
      by_cases h2 : e2.pos > pos
      · simp [altErr, ha, h2]
      · cases hk : e2.kind.isNotFound <;> simp [altErr, ha, h2, hk]
    | some c =>
      by_cases h1 : e2.pos ≥ c.pos
      · by_cases h2 : e2.pos > pos
        · simp [altErr, ha, h1, h2]
        · cases hk : e2.kind.isNotFound <;> simp [altErr, ha, h1, h2, hk]
      · simp [altErr, ha, h1]

theorem logEv_fields (st : St) (cfg : Cfg) (ev : Ev) :
    (st.logEv cfg ev).cache = st.cache ∧ (st.logEv cfg ev).ctxErr = st.ctxErr ∧
    (st.logEv cfg ev).calls = st.calls ∧ (st.logEv cfg ev).active = st.active ∧
    ((st.logEv cfg ev).log = st.log ∨ (st.logEv cfg ev).log = ev :: st.log) := by
  unfold St.logEv
  split <;> simp

end PV
