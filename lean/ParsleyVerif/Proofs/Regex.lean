/-
  The five hand-written matchers of Model/Terminal.lean compute exactly the leftmost-first match
  (`Rx.Re.first`, Spec/Regex.lean) of the five expressions whose printed text is the source text of the repository
  (`Rx.integerSx_src` … `Rx.backquoteSx_src`), for every list of bytes.
-/
import ParsleyVerif.Proofs.RegexInt
import ParsleyVerif.Proofs.RegexChar
import ParsleyVerif.Proofs.RegexDuration
import ParsleyVerif.Proofs.RegexLang
namespace PV
open PV.Text
open Rx

theorem integerMatch_eq_first (l : Bytes) : integerMatch l = integerRe.first l := by
  unfold integerMatch Re.first
  rw [integerRe_eq, head?_signed _ _ _ (fun c t e hc => by rw [e]; exact intBody_sign _ c t hc)]
  rw [intBody_head (signLen l) l.length (l.drop (signLen l)) (by simp)]
  rfl

theorem backquoteMatch_eq_first (l : Bytes) : backquoteMatch l = backquoteRe.first l := by
  unfold backquoteMatch Re.first
  rw [backquoteRe_eq, head?_plus_byte _ _ _ (Nat.le_refl _)]

theorem charMatch_eq_first (l : Bytes) : charMatch l = charRe.first l := by
  unfold Re.first
  rw [charRe_eq, charCore_head]

theorem floatMatch_eq_first (l : Bytes) : floatMatch l = floatRe.first l := by
  unfold Re.first
  rw [floatRe_eq, head?_signed _ _ _ (fun c t e hc => by rw [e]; exact floatBody_sign _ c t hc (by rw [← e]; exact Nat.le_refl _)),
    floatBody_head (signLen l) l.length (l.drop (signLen l)) (by simp)]
  unfold floatMatch floatModel
  simp only [List.drop_drop]
  rfl

theorem durationMatch_eq_first (l : Bytes) : durationMatch l = durationRe.first l := by
  unfold Re.first
  rw [durationRe_eq, head?_signed _ _ _ (fun c t e hc => by rw [e]; exact item_sign _ c t hc),
    head?_items (signLen l) l.length (l.drop (signLen l)) (by simp)]
  rfl

end PV
