/-
  The five hand-written matchers of Model/Terminal.lean compute exactly the leftmost-first match
  (`Rx.Re.first`, Spec/Regex.lean) of the five expressions whose printed text is the source text of the repository
  (`Rx.integerSx_src` … `Rx.backquoteSx_src`), for every list of bytes.
-/
import ParsleyVerif.Proofs.RegexInt
import ParsleyVerif.Proofs.RegexChar
namespace PV
open PV.Text
open Rx

theorem integerMatch_eq_first (l : Bytes) : integerMatch l = integerRe.first l := by
  unfold integerMatch Re.first
  rw [integerRe_eq, head?_signed _ _ _ (fun c t e hc => by rw [e]; exact intBody_sign _ c t hc)]
  rw [intBody_head (signLen l) l.length (l.drop (signLen l)) (by simp)]
  rfl


theorem backquoteMatch_eq_first (l : Bytes) : backquoteMatch l = backquoteRe.first l := by
  unfold backquoteMatch Re.first
  rw [backquoteRe_eq, head?_plus_byte _ _ _ (Nat.le_refl _)]

theorem charMatch_eq_first (l : Bytes) : charMatch l = charRe.first l := by
  unfold Re.first
  rw [charRe_eq, charCore_head]

end PV
