/-
  parsley.StaticCheck / (*NonTerminalNode).StaticCheck, translated, against the model's `check`.
-/
import ParsleyVerif.Proofs.TreeTieAbs
namespace PV.TreeTie
open PV.CorePrelude hiding Node World
open PV.TreePrelude PV.FactsTree
open PV.Walk (T ICap Checker check checkList)

/-- is the interpreter value a parsley.StaticChecker (the library's types: by their method sets; a user-defined type:
    the world says) -/
def isChecker (W : TW) : TInterp → Bool
  | .nil => false
  | .select _ => true
  | .fn _ => false
  | .custom id => W.implements id (Go.str "parsley.StaticChecker")

/-- what a checker answers, as the pair `i.StaticCheck` returns -/
def encChk : Except Nat (Option Nat) → TValue × TErr
  | .ok sch => (encS sch, PV.CorePrelude.Err.nil)
  | .error e => (PV.TreePrelude.Value.nil, encErr e)

/-- `SubSk x sk`: x is a sub-skeleton of sk -/
inductive SubSk : Sk → Sk → Prop
  | refl (sk : Sk) : SubSk sk sk
  | nt {x : Sk} {a : Ptr} {kids : List Sk} {k : Sk} : k ∈ kids → SubSk x k → SubSk x (.nt a kids)
  | list {x : Sk} {items : List Sk} {k : Sk} : k ∈ items → SubSk x k → SubSk x (.list items)

theorem SubSk.trans {x y z : Sk} (h1 : SubSk x y) (h2 : SubSk y z) : SubSk x z := by
  induction h2 with
  | refl => exact h1
  | nt hm _ ih => exact .nt hm ih
  | list hm _ ih => exact .list hm ih

/-- the hypotheses of the StaticCheck tie: how the model's parameters (`caps`, `chk`) are the world's.
    * user-defined checkers do not write the store;
    * an interpreter value has a number iff it is not nil; the model's `checker` capability is the dynamic type test;
    * a user-defined checker answers what the model's `chk` answers on the tree the heap shows below the node, and
      leaves the store alone (the model's checkers are functions of the tree);
    * `chk` on the numbers of the library's own checker (interpreter.Select) is that checker, on the nodes of the tree
      under consideration (`root`), in the states that differ from the initial heap `h0` in schemas only. -/
structure CheckWorld (W : TW) (E : Enc) (uctx : TValue) (caps : Nat → ICap) (chk : Checker) (h0 : Heap) (root : Sk) : Prop where
  /-- user-defined checkers do not write the store -/
  readOnly : ∀ id u n, ReadOnly (W.StaticCheck id u n)
  nilCode : ∀ i, E.icode i = none ↔ i = PV.TreePrelude.Interp.nil
  caps : ∀ i k, E.icode i = some k → (caps k).checker = isChecker W i
  custom : ∀ (id : Nat) (k : Nat) (a : Ptr) (kids : List Sk) (s : TSt) (c : TCell),
    E.icode (.custom id) = some k → W.implements id (Go.str "parsley.StaticChecker") = true →
    s.heap a = some c → c.interpreter = .custom id → Shaped s.heap (.nt a kids) →
    W.StaticCheck id uctx (.ref a) s = .ok (encChk (chk k (absT E s.heap (.nt a kids)))) s
  select : ∀ (sel : selectInterpreter) (k : Nat) (a : Ptr) (kids : List Sk) (s : TSt) (c : TCell),
    E.icode (.select sel) = some k → SubSk (.nt a kids) root → SameShape h0 s.heap →
    s.heap a = some c → c.interpreter = .select sel → Shaped s.heap (.nt a kids) →
    selectInterpreter_StaticCheck W sel uctx (.ref a) s = .ok (encChk (chk k (absT E s.heap (.nt a kids)))) s

theorem CheckWorld.sub {W : TW} {E : Enc} {uctx : TValue} {caps : Nat → ICap} {chk : Checker} {h0 : Heap} {root sk : Sk}
    (cw : CheckWorld W E uctx caps chk h0 root) (h : SubSk sk root) : CheckWorld W E uctx caps chk h0 sk :=
  ⟨cw.readOnly, cw.nilCode, cw.caps, cw.custom, fun sel k a kids s c h1 h2 => cw.select sel k a kids s c h1 (h2.trans h)⟩

/-- the call-back parsley.StaticCheck hands to Walk (`r`: the cell of the captured variable staticCheckErr) -/
def scStep (W : TW) (uctx : TValue) (r : Nat) (n : TN) : TM Bool :=
  match n with
  | .ref p => do
    let err ← NonTerminalNode_StaticCheck W p uctx
    if err.isNil then pure false else do
      Boxed.setErr r err
      pure true
  | _ => pure false

/-- (*NonTerminalNode).StaticCheck, translated, in one equation -/
theorem ntStaticCheck_eq (W : TW) (a : Ptr) (uctx : TValue) (s : TSt) (c : TCell) (hc : s.heap a = some c) :
    NonTerminalNode_StaticCheck W a uctx s =
      if isChecker W c.interpreter then
        ((match c.interpreter with
          | .select sel => selectInterpreter_StaticCheck W sel uctx (.ref a)
          | .custom id => W.StaticCheck id uctx (.ref a)
          | _ => TreePrelude.Go.noMethod) >>= fun (r : TValue × TErr) =>
            if r.2.isNil then (do let t ← TreePrelude.Go.load a; TreePrelude.Go.store a { t with schema := r.1 }; pure PV.CorePrelude.Err.nil)
            else (pure r.2 : TM TErr)) s
      else .ok PV.CorePrelude.Err.nil s := by
  cases hi : c.interpreter with
  | nil => simp [NonTerminalNode_StaticCheck, hc, hi, isChecker, TreePrelude.Interp.isNil]
  | select sel =>
    simp [NonTerminalNode_StaticCheck, hc, hi, isChecker, TreePrelude.Interp.isNil, TreePrelude.Interp.asIface]
    cases selectInterpreter_StaticCheck W sel uctx (.ref a) s with
    | ok r s' => obtain ⟨v, e⟩ := r; cases e <;> simp [CorePrelude.Err.isNil]
    | panic => rfl
    | nofuel => rfl
  | fn f =>
    simp [NonTerminalNode_StaticCheck, hc, hi, isChecker, TreePrelude.Interp.isNil, TreePrelude.Interp.asIface]
  | custom id =>
    cases hw : W.implements id (Go.str "parsley.StaticChecker")
    · simp [NonTerminalNode_StaticCheck, hc, hi, isChecker, TreePrelude.Interp.isNil, TreePrelude.Interp.asIface, hw]
    · simp [NonTerminalNode_StaticCheck, hc, hi, isChecker, TreePrelude.Interp.isNil, TreePrelude.Interp.asIface, hw]
      cases W.StaticCheck id uctx (.ref a) s with
      | ok r s' => obtain ⟨v, e⟩ := r; cases e <;> simp [CorePrelude.Err.isNil]
      | panic => rfl
      | nofuel => rfl

/-- what a run of the check over (part of) a tree leaves behind: only schemas below the given addresses changed, the
    first error — if any — is in the cell `r` -/
structure CheckPost (r : Nat) (addrs : List Ptr) (s s' : TSt) (e : Option Nat) : Prop where
  shape : SameShape s.heap s'.heap
  frame : ∀ b, b ∉ addrs → s'.heap b = s.heap b
  vars : s'.vars = match e with
    | some e => s.vars.set r (.err (encErr e))
    | none => s.vars
  uctx : s'.userCtx = s.userCtx
  ext : s'.ext = s.ext

theorem CheckPost.kids {r : Nat} {l : List Ptr} {s s' : TSt} {e : Option Nat} (p : CheckPost r l s s' e) :
    SameKids s.heap s'.heap := p.shape.kids

theorem CheckPost.len {r : Nat} {l : List Ptr} {s s' : TSt} {e : Option Nat} (p : CheckPost r l s s' e) :
    s'.vars.length = s.vars.length := by
  rw [p.vars]; cases e <;> simp

theorem CheckPost.agree {r : Nat} {l l' : List Ptr} {s s' : TSt} {e : Option Nat} (p : CheckPost r l s s' e)
    (hd : ∀ a ∈ l', a ∉ l) : Agree s.heap s'.heap l' := fun a ha => p.frame a (hd a ha)

theorem setErr_apply (r : Nat) (e : TErr) (s : TSt) (hr : r < s.vars.length) :
    (Boxed.setErr r e : TM Unit) s = .ok () { s with vars := s.vars.set r (.err e) } := by
  simp [Boxed.setErr, Boxed.set, hr]

theorem sameShape_hset (h : Heap) (a : Ptr) (c : TCell) (v : TValue) (hc : h a = some c) :
    SameShape h (hset h a { c with schema := v }) := by
  intro b
  by_cases hb : b = a
  · subst hb; simp [hset, hc, stripS]
  · simp [hset, hb]

theorem sameKids_hset (h : Heap) (a : Ptr) (c c' : TCell) (hc : h a = some c) (hk : c'.children = c.children) :
    SameKids h (hset h a c') := by
  intro b
  by_cases hb : b = a
  · subst hb; simp [hset, hc, hk]
  · simp [hset, hb]

theorem nodup_append_disj {l₁ l₂ : List Ptr} (h : (l₁ ++ l₂).Nodup) : ∀ a ∈ l₂, a ∉ l₁ := by
  intro a h2 h1
  exact (List.nodup_append.mp h).2.2 a h1 a h2 rfl

/-! the model's `check` on a non-terminal, case by case -/

theorem check_nt_err (caps : Nat → ICap) (chk : Checker) (i : Nat) (ip sc : Option Nat) (cs : List T) (e : Nat)
    (h : (checkList caps chk cs).2 = some e) :
    check caps chk (.nt i ip sc cs) = (.nt i ip sc (checkList caps chk cs).1, some e) := by
  rcases hcl : checkList caps chk cs with ⟨cs', _ | e'⟩
  · rw [hcl] at h; cases h
  · rw [hcl] at h; cases h; simp [check, hcl]

theorem check_nt_plain (caps : Nat → ICap) (chk : Checker) (i : Nat) (ip sc : Option Nat) (cs : List T)
    (h : (checkList caps chk cs).2 = none) (hno : ∀ k, ip = some k → (caps k).checker = false) :
    check caps chk (.nt i ip sc cs) = (.nt i ip sc (checkList caps chk cs).1, none) := by
  rcases hcl : checkList caps chk cs with ⟨cs', _ | e'⟩
  · cases ip with
    | none => simp [check, hcl]
    | some k => simp [check, hcl, hno k rfl]
  · rw [hcl] at h; cases h

theorem check_nt_checker (caps : Nat → ICap) (chk : Checker) (i : Nat) (k : Nat) (sc : Option Nat) (cs : List T)
    (h : (checkList caps chk cs).2 = none) (hyes : (caps k).checker = true) :
    check caps chk (.nt i (some k) sc cs) =
      match chk k (.nt i (some k) sc (checkList caps chk cs).1) with
      | .ok s => (.nt i (some k) s (checkList caps chk cs).1, none)
      | .error e => (.nt i (some k) sc (checkList caps chk cs).1, some e) := by
  rcases hcl : checkList caps chk cs with ⟨cs', _ | e'⟩
  · cases h2 : chk k (T.nt i (some k) sc cs') <;> simp [check, hcl, hyes, h2]
  · rw [hcl] at h; cases h

theorem checkList_cons_err (caps : Nat → ICap) (chk : Checker) (c : T) (rest : List T) (e : Nat)
    (h : (check caps chk c).2 = some e) :
    checkList caps chk (c :: rest) = ((check caps chk c).1 :: rest, some e) := by
  rcases hc : check caps chk c with ⟨c', _ | e'⟩
  · rw [hc] at h; cases h
  · rw [hc] at h; cases h; simp [checkList, hc]

theorem checkList_cons_ok (caps : Nat → ICap) (chk : Checker) (c : T) (rest : List T)
    (h : (check caps chk c).2 = none) :
    checkList caps chk (c :: rest) = ((check caps chk c).1 :: (checkList caps chk rest).1, (checkList caps chk rest).2) := by
  rcases hc : check caps chk c with ⟨c', _ | e'⟩
  · simp [checkList, hc]
  · rw [hc] at h; cases h

set_option maxHeartbeats 1000000 in
mutual
/-- the check of one tree: the call-back over the nodes in post-order against the model's `check` -/
theorem check_visit (W : TW) (E : Enc) (uctx : TValue) (caps : Nat → ICap) (chk : Checker) (h0 : Heap) (r : Nat) :
    ∀ (sk : Sk) (s : TSt), CheckWorld W E uctx caps chk h0 sk → SameShape h0 s.heap → Shaped s.heap sk → sk.addrs.Nodup →
      r < s.vars.length →
      ∃ s', visit (scStep W uctx r) sk.post s = .ok (check caps chk (absT E s.heap sk)).2.isSome s' ∧
        absT E s'.heap sk = (check caps chk (absT E s.heap sk)).1 ∧
        CheckPost r sk.addrs s s' (check caps chk (absT E s.heap sk)).2
  | .leaf n, s, _, _, hs, _, _ => by
    refine ⟨s, ?_, by simp [absT, check], ⟨SameShape.refl _, fun _ _ => rfl, by simp [absT, check], rfl, rfl⟩⟩
    cases n <;> simp [LeafNode, Shaped] at hs <;> simp [Sk.post, visit, scStep, absT, check]
  | .list [], s, _, _, hs, _, _ => absurd rfl hs.1
  | .list (first :: rest), s, cw, h0s, hs, hnd, hr => by
    have hnd1 : first.addrs.Nodup := by
      simp only [Sk.addrs, addrsL] at hnd; exact (List.nodup_append.mp hnd).1
    obtain ⟨s', hv, ha, hp⟩ := check_visit W E uctx caps chk h0 r first s (cw.sub (.list (by simp) (.refl _))) h0s hs.2.1 hnd1 hr
    have hrest : absL E s'.heap rest = absL E s.heap rest := by
      apply absL_agree
      apply hp.agree
      simp only [Sk.addrs, addrsL] at hnd
      exact nodup_append_disj hnd
    refine ⟨s', ?_, ?_, ?_⟩
    · simp only [Sk.post, visit_append, bind_apply, hv, absT, absL, check]
      cases (check caps chk (absT E s.heap first)).2 <;> simp [visit, scStep]
    · simp only [absT, absL, check, ha, hrest]
    · simp only [absT, absL, check]
      exact ⟨hp.shape, fun b hb => hp.frame b (by simp [Sk.addrs, addrsL] at hb; exact hb.1), hp.vars, hp.uctx, hp.ext⟩
  | .nt a kids, s, cw, h0s, hs, hnd, hr => by
    obtain ⟨⟨c, hc, hch⟩, hl⟩ := hs
    have hndk : (addrsL kids).Nodup := by simp only [Sk.addrs] at hnd; exact (List.nodup_cons.mp hnd).2
    have hak : a ∉ addrsL kids := by simp only [Sk.addrs] at hnd; exact (List.nodup_cons.mp hnd).1
    obtain ⟨s1, hv, ha, hp⟩ := checkL_visit W E uctx caps chk h0 r kids s
      (fun k hk => cw.sub (.nt hk (.refl _))) h0s hl hndk hr
    have h0s1 : SameShape h0 s1.heap := h0s.trans hp.shape
    have hc1 : s1.heap a = some c := by rw [hp.frame a hak]; exact hc
    have hr1 : r < s1.vars.length := by rw [hp.len]; exact hr
    have hs1 : Shaped s1.heap (.nt a kids) := ⟨⟨c, hc1, hch⟩, shapedL_sameKids hp.kids kids hl⟩
    have habs0 : absT E s.heap (.nt a kids) =
        .nt (E.key (.ref a)) (E.icode c.interpreter) (decS c.schema) (absL E s.heap kids) := by
      simp only [absT, hc]
    have habs1 : absT E s1.heap (.nt a kids) =
        .nt (E.key (.ref a)) (E.icode c.interpreter) (decS c.schema) (checkList caps chk (absL E s.heap kids)).1 := by
      simp only [absT, hc1, ha]
    rw [habs0]
    simp only [Sk.post, visit_append, bind_apply, hv]
    cases he : (checkList caps chk (absL E s.heap kids)).2 with
    | some e =>
      rw [he] at hp
      rw [check_nt_err caps chk _ _ _ _ e he]
      refine ⟨s1, by simp, habs1, ?_⟩
      exact ⟨hp.shape, fun b hb => hp.frame b (by simp [Sk.addrs] at hb; exact hb.2), hp.vars, hp.uctx, hp.ext⟩
    | none =>
      rw [he] at hp
      have hvars1 : s1.vars = s.vars := hp.vars
      simp only [Option.isSome_none, Bool.false_eq_true, ↓reduceIte, visit_single, scStep, bind_apply,
        ntStaticCheck_eq W a uctx s1 c hc1]
      cases hchk : isChecker W c.interpreter with
      | false =>
        rw [check_nt_plain caps chk _ _ _ _ he (fun k hk => by rw [cw.caps _ k hk, hchk])]
        refine ⟨s1, by simp [CorePrelude.Err.isNil], habs1, ?_⟩
        exact ⟨hp.shape, fun b hb => hp.frame b (by simp [Sk.addrs] at hb; exact hb.2), hvars1, hp.uctx, hp.ext⟩
      | true =>
        obtain ⟨k, hk⟩ : ∃ k, E.icode c.interpreter = some k := by
          cases hk : E.icode c.interpreter with
          | some k => exact ⟨k, rfl⟩
          | none => rw [(cw.nilCode _).mp hk] at hchk; simp [isChecker] at hchk
        have hcap : (caps k).checker = true := by rw [cw.caps _ k hk, hchk]
        have hdisp : (match c.interpreter with
            | .select sel => selectInterpreter_StaticCheck W sel uctx (.ref a)
            | .custom id => W.StaticCheck id uctx (.ref a)
            | _ => TreePrelude.Go.noMethod) s1 =
            .ok (encChk (chk k (absT E s1.heap (.nt a kids)))) s1 := by
          cases hi : c.interpreter with
          | nil => rw [hi] at hchk; simp [isChecker] at hchk
          | fn f => rw [hi] at hchk; simp [isChecker] at hchk
          | select sel => exact cw.select sel k a kids s1 c (hi ▸ hk) (.refl _) h0s1 hc1 hi hs1
          | custom id =>
            rw [hi] at hchk
            exact cw.custom id k a kids s1 c (hi ▸ hk) (by simpa [isChecker] using hchk) hc1 hi hs1
        rw [habs1] at hdisp
        rw [hk] at hdisp habs1 ⊢
        rw [check_nt_checker caps chk _ k _ _ he hcap]
        simp only [↓reduceIte, hdisp]
        cases hres : chk k (.nt (E.key (.ref a)) (some k) (decS c.schema) (checkList caps chk (absL E s.heap kids)).1) with
        | error e =>
          refine ⟨{ s1 with vars := s1.vars.set r (.err (encErr e)) }, ?_, ?_, ?_⟩
          · simp [encChk, setErr_apply r (encErr e) s1 hr1]
          · exact habs1
          · exact ⟨hp.shape, fun b hb => hp.frame b (by simp [Sk.addrs] at hb; exact hb.2), by simp [hvars1], hp.uctx, hp.ext⟩
        | ok sch =>
          have hkids2 : Agree s1.heap (hset s1.heap a { c with schema := encS sch }) (addrsL kids) := by
            intro b hb
            exact hset_other _ _ _ _ (fun e => hak (e ▸ hb))
          refine ⟨{ s1 with heap := hset s1.heap a { c with schema := encS sch } }, ?_, ?_, ?_⟩
          · simp [encChk, CorePrelude.Err.isNil, load_some hc1, store_some _ hc1]
          · simp only [absT, hset_same, absL_agree E kids hkids2, ha, hk, decS_encS]
          · refine ⟨hp.shape.trans (sameShape_hset _ _ _ _ hc1), ?_, hvars1, hp.uctx, hp.ext⟩
            intro b hb
            simp only [Sk.addrs, List.mem_cons, not_or] at hb
            show hset s1.heap a _ b = s.heap b
            rw [hset_other _ _ _ _ hb.1]
            exact hp.frame b hb.2
/-- the check of a sequence of children against `checkList` -/
theorem checkL_visit (W : TW) (E : Enc) (uctx : TValue) (caps : Nat → ICap) (chk : Checker) (h0 : Heap) (r : Nat) :
    ∀ (kids : List Sk) (s : TSt), (∀ k ∈ kids, CheckWorld W E uctx caps chk h0 k) → SameShape h0 s.heap → ShapedL s.heap kids →
      (addrsL kids).Nodup → r < s.vars.length →
      ∃ s', visit (scStep W uctx r) (postL kids) s = .ok (checkList caps chk (absL E s.heap kids)).2.isSome s' ∧
        absL E s'.heap kids = (checkList caps chk (absL E s.heap kids)).1 ∧
        CheckPost r (addrsL kids) s s' (checkList caps chk (absL E s.heap kids)).2
  | [], s, _, _, _, _, _ =>
    ⟨s, by simp [postL, visit, absL, checkList], by simp [absL, checkList],
      ⟨SameShape.refl _, fun _ _ => rfl, by simp [absL, checkList], rfl, rfl⟩⟩
  | k :: rest, s, cw, h0s, hs, hnd, hr => by
    have hnd' := List.nodup_append.mp (by simpa only [addrsL] using hnd)
    obtain ⟨s1, hv, ha, hp⟩ := check_visit W E uctx caps chk h0 r k s (cw k (by simp)) h0s hs.1 hnd'.1 hr
    have hrest : absL E s1.heap rest = absL E s.heap rest := by
      apply absL_agree
      apply hp.agree
      intro b hb hb'
      exact hnd'.2.2 b hb' b hb rfl
    simp only [postL, visit_append, bind_apply, hv, absL]
    cases he : (check caps chk (absT E s.heap k)).2 with
    | some e =>
      rw [he] at hp
      rw [checkList_cons_err caps chk _ _ e he]
      refine ⟨s1, by simp, by simp [absL, ha, hrest], ?_⟩
      exact ⟨hp.shape, fun b hb => hp.frame b (by simp [addrsL] at hb; exact hb.1), hp.vars, hp.uctx, hp.ext⟩
    | none =>
      rw [he] at hp
      have hvars1 : s1.vars = s.vars := hp.vars
      obtain ⟨s2, hv2, ha2, hp2⟩ := checkL_visit W E uctx caps chk h0 r rest s1 (fun x hx => cw x (by simp [hx]))
        (h0s.trans hp.shape) (shapedL_sameKids hp.kids rest hs.2) hnd'.2.1 (by rw [hp.len]; exact hr)
      rw [hrest] at hv2 ha2 hp2
      have hk2 : absT E s2.heap k = absT E s1.heap k := by
        apply abs_agree
        apply hp2.agree
        intro b hb hb'
        exact hnd'.2.2 b hb b hb' rfl
      rw [checkList_cons_ok caps chk _ _ he]
      refine ⟨s2, by simp [hv2], by simp [absL, hk2, ha, ha2], ?_⟩
      refine ⟨hp.shape.trans hp2.shape, ?_, ?_, hp2.uctx.trans hp.uctx, hp2.ext.trans hp.ext⟩
      · intro b hb
        simp only [addrsL, List.mem_append, not_or] at hb
        rw [hp2.frame b hb.2, hp.frame b hb.1]
      · rw [hp2.vars, hvars1]
end

/-! ### the call-back keeps the shape; parsley.StaticCheck -/

theorem schemaDispatch_readOnly (W : TW) (_u : Unit) (n : TN) :
    ReadOnly (match n with
      | TreePrelude.Node.empty e => EmptyNode_Schema W e
      | TreePrelude.Node.eof e => EndNode_Schema W e
      | TreePrelude.Node.list l => NodeList_Schema W l
      | TreePrelude.Node.ref p => NonTerminalNode_Schema W p
      | TreePrelude.Node.term t => TerminalNode_Schema W t
      | _ => CorePrelude.Go.panic : TM TValue) := by
  cases n
  · exact ReadOnly.panic
  · exact ReadOnly.pure _
  · exact ReadOnly.pure _
  · exact ReadOnly.pure _
  · exact ReadOnly.bind (ReadOnly.load _) (fun _ => ReadOnly.pure _)
  · exact ReadOnly.pure _

theorem childrenDispatch_readOnly (W : TW) (n : TN) :
    ReadOnly (match n with
      | TreePrelude.Node.ref p => NonTerminalNode_Children W p
      | _ => TreePrelude.Go.noMethod : TM (List TN)) := by
  cases n <;> first | exact ReadOnly.noMethod | exact ReadOnly.bind (ReadOnly.load _) (fun _ => ReadOnly.pure _)

/-- interpreter.Select's StaticCheck does not write the store -/
theorem selectSC_readOnly (W : TW) (sel : selectInterpreter) (u : TValue) (n : TN) :
    ReadOnly (selectInterpreter_StaticCheck W sel u n) := by
  unfold selectInterpreter_StaticCheck
  refine ReadOnly.bind (childrenDispatch_readOnly W n) (fun nodes => ?_)
  refine ReadOnly.bind ?_ (fun _ => ?_)
  · split
    · exact ReadOnly.panic
    · exact ReadOnly.pure _
  · refine ReadOnly.bind (ReadOnly.nth _ _) (fun t1 => ?_)
    exact ReadOnly.bind (schemaDispatch_readOnly W () t1) (fun _ => ReadOnly.pure _)

/-- `n.Schema()`: nil for ast.EmptyNode, parser.EndNode and ast.NodeList, the stored schema for the two struct types -/
def childSchema (h : Heap) : TN → Option TValue
  | .nil => none
  | .empty _ => some PV.TreePrelude.Value.nil
  | .eof _ => some PV.TreePrelude.Value.nil
  | .list _ => some PV.TreePrelude.Value.nil
  | .ref p => (h p).map (·.schema)
  | .term t => some t.schema

/-- **interpreter.Select's StaticCheck, translated**: the schema of child `i`, the documented panic when there is no such
    child; nothing is written -/
theorem tie_Select_StaticCheck (W : TW) (i : Int) (u : TValue) (a : Ptr) (s : TSt) (c : TCell) (hc : s.heap a = some c) :
    selectInterpreter_StaticCheck W ⟨i⟩ u (.ref a) s =
      match (if 0 ≤ i ∧ i < (c.children.length : Int) then (c.children[i.toNat]?).bind (childSchema s.heap) else none) with
      | some v => .ok (v, PV.CorePrelude.Err.nil) s
      | none => .panic := by
  simp only [selectInterpreter_StaticCheck, NonTerminalNode_Children, bind_apply, load_some hc, pure_apply,
    CorePrelude.Go.len]
  by_cases h1 : i < 0
  · have : ¬ (0 ≤ i ∧ i < (c.children.length : Int)) := by omega
    simp [h1, this]
  · by_cases h2 : (c.children.length : Int) ≤ i
    · have : ¬ (0 ≤ i ∧ i < (c.children.length : Int)) := by omega
      simp [h1, h2, this]
    · have h0 : 0 ≤ i := by omega
      have h3 : i < (c.children.length : Int) := by omega
      simp only [ge_iff_le, h1, h2, decide_false, Bool.or_self, Bool.false_eq_true, ↓reduceIte, pure_apply, h0, h3, and_self,
        CorePrelude.Go.nth]
      have hlt : i.toNat < c.children.length := by omega
      simp only [List.getElem?_eq_getElem hlt, Option.bind_some]
      cases hn : c.children[i.toNat] with
      | nil => simp [childSchema]
      | empty p => simp [childSchema, EmptyNode_Schema]
      | eof p => simp [childSchema, EndNode_Schema]
      | list l => simp [childSchema, NodeList_Schema]
      | term t => simp [childSchema, TerminalNode_Schema]
      | ref p =>
        cases hp : s.heap p with
        | none => simp [childSchema, NonTerminalNode_Schema, load_apply, hp]
        | some c' => simp [childSchema, NonTerminalNode_Schema, load_some hp, hp]

/-- (*NonTerminalNode).StaticCheck writes nothing but a schema -/
theorem ntSC_sameKids (W : TW) (hro : ∀ id u n, ReadOnly (W.StaticCheck id u n)) (p : Ptr) (u : TValue) (s : TSt) (e : TErr)
    (s' : TSt) (h : NonTerminalNode_StaticCheck W p u s = .ok e s') :
    SameKids s.heap s'.heap ∧ s'.vars = s.vars := by
  cases hc : s.heap p with
  | none => simp [NonTerminalNode_StaticCheck, load_apply, hc] at h
  | some c =>
    rw [ntStaticCheck_eq W p u s c hc] at h
    split at h
    · simp only [bind_apply] at h
      have hd : ReadOnly (match c.interpreter with
          | .select sel => selectInterpreter_StaticCheck W sel u (.ref p)
          | .custom id => W.StaticCheck id u (.ref p)
          | _ => TreePrelude.Go.noMethod : TM (TValue × TErr)) := by
        split
        · exact selectSC_readOnly W _ u _
        · exact hro _ _ _
        · exact ReadOnly.noMethod
      cases hx : (match c.interpreter with
          | .select sel => selectInterpreter_StaticCheck W sel u (.ref p)
          | .custom id => W.StaticCheck id u (.ref p)
          | _ => TreePrelude.Go.noMethod : TM (TValue × TErr)) s with
      | ok r s1 =>
        have := hd s r s1 hx
        subst this
        rw [hx] at h
        simp only at h
        split at h
        · simp [load_some hc, store_some _ hc] at h
          obtain ⟨_, rfl⟩ := h
          exact ⟨sameKids_hset _ _ _ _ hc rfl, rfl⟩
        · simp at h
          obtain ⟨_, rfl⟩ := h
          exact ⟨SameKids.refl _, rfl⟩
      | panic => rw [hx] at h; cases h
      | nofuel => rw [hx] at h; cases h
    · simp at h
      obtain ⟨_, rfl⟩ := h
      exact ⟨SameKids.refl _, rfl⟩

theorem scStep_kidStable (W : TW) (hro : ∀ id u n, ReadOnly (W.StaticCheck id u n)) (u : TValue) (r : Nat) :
    KidStable (scStep W u r) := by
  intro n s b s' h
  cases n with
  | ref p =>
    simp only [scStep, bind_apply] at h
    cases hx : NonTerminalNode_StaticCheck W p u s with
    | ok e s1 =>
      rw [hx] at h
      have hk := (ntSC_sameKids W hro p u s e s1 hx).1
      simp only at h
      by_cases hn : e.isNil = true
      · simp [hn] at h; obtain ⟨_, rfl⟩ := h; exact hk
      · by_cases hr : r < s1.vars.length
        · simp [hn, setErr_apply r e s1 hr] at h; obtain ⟨_, rfl⟩ := h; exact hk
        · simp [hn, Boxed.setErr, Boxed.set, hr] at h
    | panic => rw [hx] at h; cases h
    | nofuel => rw [hx] at h; cases h
  | _ => simp [scStep] at h; obtain ⟨_, rfl⟩ := h; exact SameKids.refl _

theorem visit_congr {f g : TN → TM Bool} (h : ∀ n s, f n s = g n s) (l : List TN) (s : TSt) : visit f l s = visit g l s := by
  have : f = g := funext fun n => funext fun s => h n s
  rw [this]

/-- `walk_visit` for a call-back given up to extensional equality -/
theorem walk_visit_ext (W : TW) (f g : TN → TM Bool) (hfg : ∀ n s, f n s = g n s) (hg : KidStable g) (sk : Sk) (fuel : Nat)
    (s : TSt) (hs : Shaped s.heap sk) (hfu : sk.fuel ≤ fuel) : Walk W fuel sk.node f s = visit g sk.post s := by
  have : f = g := funext fun n => funext fun s => hfg n s
  rw [this]
  exact walk_visit W g hg sk fuel s hs hfu

theorem kidStable_congr {f g : TN → TM Bool} (h : ∀ n s, f n s = g n s) (hg : KidStable g) : KidStable f := by
  have : f = g := funext fun n => funext fun s => h n s
  rw [this]; exact hg

/-- **parsley.StaticCheck, translated, is the model's `check`**: on every tree-shaped heap (distinct addresses), with
    every checker behaviour: the error returned, and the tree the heap shows afterwards (the schemas stored) -/
theorem tie_StaticCheck (W : TW) (E : Enc) (uctx : TValue) (caps : Nat → ICap) (chk : Checker) (sk : Sk) (fuel : Nat)
    (s : TSt) (cw : CheckWorld W E uctx caps chk s.heap sk) (hs : Shaped s.heap sk) (hnd : sk.addrs.Nodup)
    (hfu : sk.fuel ≤ fuel) :
    ∃ s', StaticCheck W fuel uctx sk.node s = .ok (encErrO (check caps chk (absT E s.heap sk)).2) s' ∧
      absT E s'.heap sk = (check caps chk (absT E s.heap sk)).1 ∧
      Shaped s'.heap sk ∧ (∀ b, b ∉ sk.addrs → s'.heap b = s.heap b) ∧
      s'.vars = s.vars ++ [.err (encErrO (check caps chk (absT E s.heap sk)).2)] ∧
      s'.userCtx = s.userCtx ∧ s'.ext = s.ext := by
  let s0 : TSt := { s with vars := s.vars ++ [.err PV.CorePrelude.Err.nil] }
  have hr : s.vars.length < s0.vars.length := by simp [s0]
  obtain ⟨s', hv, ha, hp⟩ := check_visit W E uctx caps chk s.heap s.vars.length sk s0 cw (SameShape.refl _) hs hnd hr
  refine ⟨s', ?_, ha, shaped_sameKids hp.kids sk hs, hp.frame, ?_, hp.uctx, hp.ext⟩
  · simp only [StaticCheck, bind_apply, Boxed.newErr, Boxed.new]
    rw [walk_visit_ext W _ (scStep W uctx s.vars.length) ?_ (scStep_kidStable W cw.readOnly uctx _) sk fuel s0 hs hfu, hv]
    · have hvars := hp.vars
      show Boxed.getErr s.vars.length s' = _
      simp only [bind_apply, Boxed.getErr, Boxed.get, hvars]
      cases (check caps chk (absT E s.heap sk)).2 <;>
        simp [s0, encErrO]
    · intro n st
      cases n with
      | ref p =>
        cases hx : NonTerminalNode_StaticCheck W p uctx st with
        | ok e s1 => cases e <;> simp [scStep, hx, CorePrelude.Err.isNil]
        | panic => simp [scStep, hx]
        | nofuel => simp [scStep, hx]
      | _ => simp [scStep]
  · rw [hp.vars]
    cases (check caps chk (absT E s.heap sk)).2 <;> simp [s0, encErrO]

end PV.TreeTie
