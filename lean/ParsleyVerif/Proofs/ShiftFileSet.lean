/-
  C12, step 4: the hypothesis of `c12_parse` about the two file sets holds for the file sets the library
  builds: the same file added to two file sets (the second one already holding `b` more positions) gets
  base offsets `b` apart, and every position of the file renders the same line:column in both.
-/
import ParsleyVerif.Spec.Shift
import ParsleyVerif.Proofs.Search
namespace PV
open PV.Text

/-- (f *File) Position does not look at the base offset -/
theorem Text.File.position_offset (f : File) (o : Nat) (p : Nat) :
    File.position { f with offset := o } p = File.position f p := rfl

theorem Text.FileSet.position_last (fs0 : FileSet) (h : fs0.WF) (f : File) (p : Nat) (hp : fs0.pos ≤ p) :
    (fs0.addFile f).1.position p =
      if p ≥ fs0.pos + f.len + Facts.fileSetGap then .unknown else f.position (p - fs0.pos) := by
  have hp1 := h.pos
  unfold FileSet.position FileSet.addFile
  simp only []
  have hne : ¬ p = 0 := by omega
  by_cases hge : p ≥ fs0.pos + f.len + Facts.fileSetGap
  · simp [hge]
  · simp only [hne, hge, false_or, if_false]
    have hs : goSearch (fs0.offsets ++ [fs0.pos]).length (fun i => decide ((fs0.offsets ++ [fs0.pos]).getD i 0 > p))
        = fs0.offsets.length + 1 := by
      have hall : ∀ k, k < fs0.offsets.length + 1 →
          (fun i => decide ((fs0.offsets ++ [fs0.pos]).getD i 0 > p)) k = false := by
        intro k hk
        simp only [decide_eq_false_iff_not, Nat.not_lt, gt_iff_lt]
        by_cases hk' : k < fs0.offsets.length
        · have : (fs0.offsets ++ [fs0.pos]).getD k 0 = fs0.offsets[k] := by
            simp [List.getD, List.getElem?_append_left hk', hk']
          rw [this]
          exact Nat.le_trans (h.le _ (List.getElem_mem hk')) hp
        · have hk2 : k = fs0.offsets.length := by omega
          subst hk2
          simp [List.getD]
          exact hp
      apply goSearch_unique
      · intro a c hac hc hfa
        have : a < fs0.offsets.length + 1 := by simp at hc; omega
        have := hall a this
        simp only [hfa] at this
        cases this
      · simp
      · exact hall
      · simp
    rw [hs]
    have hf : (fs0.files ++ [{ f with offset := fs0.pos }])[fs0.offsets.length + 1 - 1]? = some { f with offset := fs0.pos } := by
      simp [← h.len]
    have ho : (fs0.offsets ++ [fs0.pos])[fs0.offsets.length + 1 - 1]? = some fs0.pos := by
      simp
    simp only [Nat.add_one_ne_zero, if_false, hf, ho]
    rfl

/-- the same file added to two file sets -/
theorem Text.FileSet.addFile_shift (fs0 fs0' : FileSet) (h : fs0.WF) (h' : fs0'.WF) (f : File) (hle : fs0.pos ≤ fs0'.pos) :
    (fs0'.addFile f).2 = shiftFile (fs0'.pos - fs0.pos) (fs0.addFile f).2 ∧
    ∀ p, (fs0.addFile f).2.offset ≤ p →
      (fs0'.addFile f).1.position (p + (fs0'.pos - fs0.pos)) = (fs0.addFile f).1.position p := by
  constructor
  · simp only [FileSet.addFile, shiftFile]
    congr 1
    omega
  · intro p hp
    have hp' : fs0.pos ≤ p := hp
    rw [FileSet.position_last fs0 h f p hp', FileSet.position_last fs0' h' f _ (by omega)]
    have e1 : p + (fs0'.pos - fs0.pos) - fs0'.pos = p - fs0.pos := by omega
    rw [e1]
    by_cases hge : p ≥ fs0.pos + f.len + Facts.fileSetGap
    · have : p + (fs0'.pos - fs0.pos) ≥ fs0'.pos + f.len + Facts.fileSetGap := by omega
      simp [hge, this]
    · have : ¬ p + (fs0'.pos - fs0.pos) ≥ fs0'.pos + f.len + Facts.fileSetGap := by omega
      simp [hge, this]

/-- AddFile keeps a file set well formed; the empty file set is -/
theorem Text.FileSet.WF_empty : FileSet.WF {} := ⟨rfl, fun o ho => (by cases ho), by decide⟩

theorem Text.FileSet.WF_addFile (fs : FileSet) (h : fs.WF) (f : File) : (fs.addFile f).1.WF := by
  refine ⟨?_, ?_, ?_⟩
  · simp [FileSet.addFile, h.len]
  · intro o ho
    simp only [FileSet.addFile, List.mem_append, List.mem_singleton] at ho ⊢
    rcases ho with ho | rfl
    · have := h.le o ho; omega
    · omega
  · have := h.pos
    simp only [FileSet.addFile]; omega

end PV
