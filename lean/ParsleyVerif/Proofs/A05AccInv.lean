/-
  C05, the CONVERSE ("ill-formed input is rejected"), step 1: inversion of exact trees.

  `A05.T P f k q x` (Proofs/A05Unique.lean) is the relation "`x` is an exact tree of nonterminal `k` of the
  arithmetic grammar started at `q`"; `c05_returned_exact` shows that everything `run` returns on the root is
  `Sentence[y, EOF]` around such a `y`.  Here: every exact tree IS the tree of a well-formed concrete expression
  (`A05.Cst`, the syntax with layout) whose text is what the file holds between the first token and the end of
  the tree:

      T P f k q x  →  ∃ e : Cst, e.WF k ∧ rest f (sk f q) = e.render ++ rest f x.rpos ∧ x = e.tree (sk f q)

  (rule by rule: literal — the language of the Integer terminal from `c08_integer_value` —, parenthesis, operator
  spine), and every `Cst` is the layout of a `PExpr` under a whitespace function (`Cst.strip`, `Cst.chunks`).
  Everything lives in `PV.A05Acc`.
-/
import ParsleyVerif.Props.C05V
namespace PV.A05Acc
open PV PV.Text PV.A05

/-! ### whitespace at a position -/

/-- the whitespace run the skip of mode WsSpacesNl passes at `q` -/
def wsAt (f : File) (q : Nat) : Bytes := (rest f q).takeWhile isWs

theorem mem_takeWhile_isWs : ∀ (l : Bytes) (b : Nat), b ∈ l.takeWhile isWs → isWs b = true
  | [], b, h => by simp at h
  | c :: r, b, h => by
    by_cases hc : isWs c = true
    · simp only [List.takeWhile_cons, hc, ↓reduceIte, List.mem_cons] at h
      rcases h with rfl | h
      · exact hc
      · exact mem_takeWhile_isWs r b h
    · simp [hc] at h

theorem wsAt_ok (f : File) (q : Nat) : WsOK (wsAt f q) := by
  intro b hb
  exact mem_takeWhile_isWs _ b hb

section
variable {P : Params} {f : File} (hoff : 1 ≤ f.offset)
include hoff

theorem sk_len (q : Nat) (hq : InFile f q) : sk f q = q + (wsAt f q).length := by
  rw [sk_eq f q hq hoff]; rfl

theorem rest_split (q : Nat) (hq : InFile f q) : rest f q = wsAt f q ++ rest f (sk f q) := by
  rw [rest_sk f q hq hoff]
  exact (List.takeWhile_append_dropWhile (p := isWs) (l := rest f q)).symm

theorem sk_idem (q : Nat) (hq : InFile f q) : sk f (sk f q) = sk f q :=
  sk_of_head f (sk f q) (sk_inFile f q hq hoff) hoff (fun b hb => head_sk_not_ws f q hq hoff b hb)

/-! ### the leaves -/

theorem rune_leaf {c q : Nat} {x : Node} (h : RuneAtQ P f c q x) (hq : InFile f q) (hc : c < 0x80) :
    rest f (sk f q) = c :: (wsAt f (sk f q + 1) ++ rest f x.rpos) ∧
    x = .term (Utf8.encodeRune c) (.rune c) (sk f q) (sk f q + 1 + (wsAt f (sk f q + 1)).length) ∧
    sk f x.rpos = x.rpos ∧ InFile f x.rpos := by
  obtain ⟨hh, rfl⟩ := h.form hoff hq hc
  have h1 := sk_inFile f q hq hoff
  cases hr : rest f (sk f q) with
  | nil => rw [hr] at hh; cases hh
  | cons b t =>
    rw [hr] at hh
    simp only [List.head?_cons, Option.some.injEq] at hh
    subst hh
    have h2 : InFile f (sk f q + 1) := inFile_add f _ 1 h1 (by rw [hr]; simp)
    have h3 : rest f (sk f q + 1) = t := by rw [rest_add f _ 1 h1, hr]; rfl
    refine ⟨?_, ?_, ?_, ?_⟩
    · simp only [Node.rpos]
      rw [← rest_split hoff _ h2, h3]
    · rw [sk_len hoff _ h2]
    · simp only [Node.rpos]; exact sk_idem hoff _ h2
    · simp only [Node.rpos]; exact sk_inFile f _ h2 hoff

theorem lit_leaf {q : Nat} {x : Node} (h : LitAt P f q x) (hq : InFile f q) :
    ∃ lex, LitOK lex ∧ rest f (sk f q) = lex ++ (wsAt f (sk f q + lex.length) ++ rest f x.rpos) ∧
      x = .term (tokOf "INTEGER") (.int (Lang.intValue lex)) (sk f q)
        (sk f q + lex.length + (wsAt f (sk f q + lex.length)).length) ∧
      sk f x.rpos = x.rpos ∧ InFile f x.rpos := by
  obtain ⟨n, hn, rfl⟩ := h
  have h1 := sk_inFile f q hq hoff
  obtain ⟨k, hk, _, hlo, hhi, rfl⟩ := (c08_integer_value P f (sk f q) n h1).mp hn
  have hle := longestPrefix_le hk
  have hlen : ((rest f (sk f q)).take k).length = k := by rw [List.length_take]; omega
  have h2 : InFile f (sk f q + k) := inFile_add f _ k h1 hle
  have h3 : rest f (sk f q + k) = (rest f (sk f q)).drop k := rest_add f _ k h1
  refine ⟨(rest f (sk f q)).take k, ⟨longestPrefix_mem hk, hlo, hhi⟩, ?_, ?_, ?_, ?_⟩
  · rw [hlen, mv_term]
    simp only [Node.rpos]
    rw [← rest_split hoff _ h2, h3, List.take_append_drop]
  · rw [hlen, mv_term, sk_len hoff _ h2]
  · rw [mv_term]; simp only [Node.rpos]; exact sk_idem hoff _ h2
  · rw [mv_term]; simp only [Node.rpos]; exact sk_inFile f _ h2 hoff

omit hoff in
theorem opByte_of_ofRune {c : Nat} {o : Op} (h : Op.ofRune c = some o) : opByte o = c := by
  unfold Op.ofRune at h
  split at h <;> first | (cases h; rfl) | (subst_vars; cases h; rfl) | cases h

/-! ### every exact tree is the tree of a well-formed concrete expression -/

theorem T_toCst {k q : Nat} {x : Node} (h : T P f k q x) : InFile f q →
    ∃ e : Cst, e.WF k ∧ rest f (sk f q) = e.render ++ rest f x.rpos ∧ x = e.tree (sk f q) ∧
      sk f x.rpos = x.rpos ∧ InFile f x.rpos := by
  induction h with
  | @lit k q x h =>
    intro hq
    obtain ⟨lex, hl, hr, hx, hs, hi⟩ := lit_leaf hoff h hq
    refine ⟨.lit lex (wsAt f (sk f q + lex.length)), ⟨hl, wsAt_ok _ _⟩, ?_, ?_, hs, hi⟩
    · simpa [Cst.render] using hr
    · simpa [Cst.tree] using hx
  | @paren k q lp e rp h1 _ h3 ih =>
    intro hq
    obtain ⟨r1, x1, s1, i1⟩ := rune_leaf hoff h1 hq (by omega)
    obtain ⟨e', hwf, r2, x2, s2, i2⟩ := ih i1
    obtain ⟨r3, x3, s3, i3⟩ := rune_leaf hoff h3 i2 (by omega)
    rw [s1] at r2 x2
    rw [s2] at r3 x3
    have hlp : lp.rpos = sk f q + 1 + (wsAt f (sk f q + 1)).length := by rw [x1]; rfl
    have hep : e.rpos = lp.rpos + e'.render.length := by rw [x2, Cst.tree_rpos]
    refine ⟨.paren (wsAt f (sk f q + 1)) e' (wsAt f (e.rpos + 1)), ⟨wsAt_ok _ _, hwf, wsAt_ok _ _⟩, ?_, ?_, ?_, ?_⟩
    · rw [parN_rpos, r1, r2, r3]
      simp [Cst.render]
    · have e1 : lp = .term (Utf8.encodeRune 40) (.rune 40) (sk f q) lp.rpos := by rw [x1]; rfl
      simp only [Cst.tree]
      rw [← hlp, ← hep, ← x2, ← x3, ← e1]
    · rw [parN_rpos]; exact s3
    · rw [parN_rpos]; exact i3
  | @bin k j q l op r hkj hj1 _ h2 _ ih1 ih2 =>
    intro hq
    obtain ⟨l', hwl, r1, x1, s1, i1⟩ := ih1 hq
    obtain ⟨c, o, hco, hlev, hrune⟩ := h2
    obtain ⟨r2, x2, s2, i2⟩ := rune_leaf hoff hrune i1 (ofRune_ascii hco)
    obtain ⟨r', hwr, r3, x3, s3, i3⟩ := ih2 i2
    rw [s1] at r2 x2
    rw [s2] at r3 x3
    have hc : opByte o = c := opByte_of_ofRune hco
    have hlp : l.rpos = sk f q + l'.render.length := by rw [x1, Cst.tree_rpos]
    have hop : op.rpos = l.rpos + 1 + (wsAt f (l.rpos + 1)).length := by rw [x2]; rfl
    refine ⟨.bin o l' (wsAt f (l.rpos + 1)) r', ⟨by omega, by rw [hlev]; exact hwl, wsAt_ok _ _, by rw [hlev]; exact hwr⟩,
      ?_, ?_, ?_, ?_⟩
    · rw [binN_rpos, r1, r2, r3]
      simp [Cst.render, hc]
    · have e2 : op = .term (Utf8.encodeRune c) (.rune c) l.rpos op.rpos := by rw [x2]; rfl
      simp only [Cst.tree]
      rw [hc, ← hlp, ← hop, ← x1, ← x3, ← e2]
    · rw [binN_rpos]; exact s3
    · rw [binN_rpos]; exact i3

end

/-! ### from the syntax with layout to the plain syntax and a whitespace function -/

/-- forget the layout -/
def strip : Cst → PExpr
  | .lit lex _ => .lit lex
  | .bin o l _ r => .bin o (strip l) (strip r)
  | .paren _ e _ => .paren (strip e)

/-- the whitespace chunks in token order (one per token) -/
def chunks : Cst → List Bytes
  | .lit _ ws => [ws]
  | .bin _ l ws r => chunks l ++ ws :: chunks r
  | .paren ws1 e ws2 => ws1 :: (chunks e ++ [ws2])

theorem strip_WF (e : Cst) : ∀ n, e.WF n → (strip e).WF n := by
  induction e with
  | lit lex ws => intro n h; exact h.1
  | bin o l ws r ihl ihr => intro n h; exact ⟨h.1, ihl _ h.2.1, ihr _ h.2.2.2⟩
  | paren ws1 e ws2 ih => intro n h; exact ih _ h.2.1

theorem chunks_ok (e : Cst) : ∀ n, e.WF n → ∀ b ∈ chunks e, WsOK b := by
  induction e with
  | lit lex ws =>
    intro n h b hb
    simp only [chunks, List.mem_singleton] at hb
    subst hb; exact h.2
  | bin o l ws r ihl ihr =>
    intro n h b hb
    simp only [chunks, List.mem_append, List.mem_cons] at hb
    rcases hb with hb | rfl | hb
    · exact ihl _ h.2.1 b hb
    · exact h.2.2.1
    · exact ihr _ h.2.2.2 b hb
  | paren ws1 e ws2 ih =>
    intro n h b hb
    simp only [chunks, List.mem_append, List.mem_cons, List.not_mem_nil, or_false] at hb
    rcases hb with rfl | hb | rfl
    · exact h.1
    · exact ih _ h.2.1 b hb
    · exact h.2.2

/-- a whitespace function that agrees with the chunks of `e` from token `i` on lays `strip e` out as `e` -/
theorem layout_strip (e : Cst) : ∀ (ws : Nat → Bytes) (i : Nat),
    (∀ k b, (chunks e)[k]? = some b → ws (i + k) = b) →
    (strip e).layout ws i = (e, i + (chunks e).length) := by
  induction e with
  | lit lex w =>
    intro ws i h
    have := h 0 w rfl
    simp only [Nat.add_zero] at this
    simp [strip, PExpr.layout, chunks, this]
  | bin o l w r ihl ihr =>
    intro ws i h
    have hl := ihl ws i (by
      intro k b hk
      refine h k b ?_
      simp only [chunks]
      rw [List.getElem?_append_left (by
        have := List.getElem?_eq_some_iff.mp hk
        exact this.1)]
      exact hk)
    have hw : ws (i + (chunks l).length) = w := by
      refine h _ w ?_
      simp only [chunks]
      rw [List.getElem?_append_right (Nat.le_refl _)]
      simp
    have hr := ihr ws (i + (chunks l).length + 1) (by
      intro k b hk
      have := h ((chunks l).length + 1 + k) b (by
        simp only [chunks]
        rw [List.getElem?_append_right (by omega)]
        rw [show (chunks l).length + 1 + k - (chunks l).length = k + 1 by omega]
        simpa using hk)
      rw [← this]; congr 1; omega)
    simp only [strip, PExpr.layout, hl, hr, hw, chunks, List.length_append, List.length_cons]
    congr 1; omega
  | paren w1 e w2 ih =>
    intro ws i h
    have h1 : ws i = w1 := by
      have := h 0 w1 rfl
      simpa using this
    have he := ih ws (i + 1) (by
      intro k b hk
      have := h (k + 1) b (by
        simp only [chunks, List.getElem?_cons_succ]
        rw [List.getElem?_append_left (List.getElem?_eq_some_iff.mp hk).1]
        exact hk)
      rw [← this]; congr 1; omega)
    have h2 : ws (i + 1 + (chunks e).length) = w2 := by
      have := h ((chunks e).length + 1) w2 (by
        simp only [chunks, List.getElem?_cons_succ]
        rw [List.getElem?_append_right (Nat.le_refl _)]
        simp)
      rw [← this]; congr 1; omega
    simp only [strip, PExpr.layout, he, h1, h2, chunks, List.length_append, List.length_cons, List.length_nil]
    congr 1; omega

/-- the whitespace function of a text `ws0 ++ e.render` -/
def wsFn (ws0 : Bytes) (e : Cst) : Nat → Bytes
  | 0 => ws0
  | k + 1 => (chunks e)[k]?.getD []

theorem wsFn_layout (ws0 : Bytes) (e : Cst) : ((strip e).layout (wsFn ws0 e) 1).1 = e := by
  rw [layout_strip e (wsFn ws0 e) 1 (by
    intro k b hk
    rw [Nat.add_comm]
    simp [wsFn, hk])]

theorem wsFn_admissible (ws0 : Bytes) (e : Cst) (n : Nat) (h0 : WsOK ws0) (he : e.WF n) : Admissible (wsFn ws0 e) := by
  intro i
  cases i with
  | zero => exact h0
  | succ k =>
    simp only [wsFn]
    cases hk : (chunks e)[k]? with
    | none => intro b hb; simp at hb
    | some c =>
      simp only [Option.getD_some]
      exact chunks_ok e n he c (List.mem_of_getElem? hk)

/-- a text `ws0 ++ e.render` is the rendering of a plain expression under an admissible whitespace function -/
theorem render_of_cst (ws0 : Bytes) (e : Cst) (h0 : WsOK ws0) (he : e.WF 0) :
    ∃ (pe : PExpr) (ws : Nat → Bytes), pe.WF 0 ∧ Admissible ws ∧ ws 0 = ws0 ∧ (pe.layout ws 1).1 = e ∧
      render pe ws = ws0 ++ e.render :=
  ⟨strip e, wsFn ws0 e, strip_WF e 0 he, wsFn_admissible ws0 e 0 h0 he, rfl, wsFn_layout ws0 e,
    by simp only [render, wsFn_layout]; rfl⟩

end PV.A05Acc
