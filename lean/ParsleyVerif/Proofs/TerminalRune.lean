/-
  C08 helper lemmas, part 6: what `ReadRune` (through `runeW`) accepts, in terms of the UTF-8 encoding of
  the rune asked for.
-/
import ParsleyVerif.Proofs.TerminalRange
namespace PV
open PV.Text

theorem runeError_valid : Utf8.ValidScalar Utf8.runeError := by
  unfold Utf8.ValidScalar Utf8.runeError; omega

theorem prefix_singleton (c : Nat) (l : Bytes) : [c] <+: l ↔ l.head? = some c := by
  cases l with
  | nil => simp
  | cons a t => simp [List.cons_prefix_cons, eq_comm]

/-- a Unicode scalar value other than U+FFFD is matched exactly when its UTF-8 encoding is next -/
theorem runeW_valid (ch : Nat) (l : Bytes) (hv : Utf8.ValidScalar ch) (hne : ch ≠ Utf8.runeError) :
    runeW ch l = if Utf8.encodeRune ch <+: l then some (Utf8.encodeRune ch).length else none := by
  unfold runeW
  by_cases hc : ch < 0x80
  · rw [if_pos hc]
    have e : Utf8.encodeRune ch = [ch] := by simp [Utf8.encodeRune, hc]
    rw [e]
    by_cases hh : l.head? = some ch
    · rw [if_pos hh, if_pos ((prefix_singleton ch l).mpr hh)]; rfl
    · rw [if_neg hh, if_neg (fun hp => hh ((prefix_singleton ch l).mp hp))]
  · rw [if_neg hc]
    by_cases hp : Utf8.encodeRune ch <+: l
    · obtain ⟨t, ht⟩ := hp
      have hd := Utf8.decode_encode ch t hv
      rw [ht] at hd
      have hl : l ≠ [] := by
        intro h0
        have := (Utf8.encodeRune_length_le ch).1
        rw [h0] at ht
        have h2 : (Utf8.encodeRune ch ++ t).length = 0 := by rw [ht]; rfl
        rw [List.length_append] at h2; omega
      rw [if_pos ⟨hl, by rw [hd]⟩, if_pos ⟨t, ht⟩, hd]
    · rw [if_neg hp, if_neg]
      intro ⟨hl, hd⟩
      cases Utf8.decodeRune_decoded l hl with
      | invalid hi => rw [hi] at hd; exact hne hd.symm
      | valid _ h2 =>
        rw [hd] at h2
        exact hp ⟨l.drop (Utf8.decodeRune l).2, by rw [← h2]; exact List.take_append_drop _ _⟩

/-- U+FFFD is matched by its encoding EF BF BD and also by any byte (sequence head) that is not valid
    UTF-8: one byte is consumed then, although the token of the node is EF BF BD -/
theorem runeW_runeError (l : Bytes) :
    runeW Utf8.runeError l =
      if Utf8.encodeRune Utf8.runeError <+: l then some 3
      else if l ≠ [] ∧ Utf8.decodeRune l = (Utf8.runeError, 1) then some 1 else none := by
  unfold runeW
  rw [if_neg (by unfold Utf8.runeError; omega)]
  by_cases hp : Utf8.encodeRune Utf8.runeError <+: l
  · obtain ⟨t, ht⟩ := hp
    have hd := Utf8.decode_encode Utf8.runeError t runeError_valid
    rw [ht] at hd
    have hl : l ≠ [] := by
      rw [← ht]; intro h0
      have h2 := congrArg List.length h0
      rw [List.length_append] at h2
      have h3 : (Utf8.encodeRune Utf8.runeError).length = 3 := by decide
      rw [h3] at h2; simp at h2
    rw [if_pos ⟨hl, by rw [hd]⟩, if_pos ⟨t, ht⟩, hd]
    rfl
  · rw [if_neg hp]
    by_cases hl : l = []
    · subst hl; simp
    · cases Utf8.decodeRune_decoded l hl with
      | invalid hi => rw [if_pos ⟨hl, by rw [hi]⟩, if_pos ⟨hl, hi⟩, hi]
      | valid _ h2 =>
        have hne : (Utf8.decodeRune l).1 ≠ Utf8.runeError := by
          intro he
          rw [he] at h2
          exact hp ⟨l.drop (Utf8.decodeRune l).2, by rw [← h2]; exact List.take_append_drop _ _⟩
        rw [if_neg (fun hh => hne hh.2), if_neg (fun hh => hne (by rw [hh.2]))]

/-- a rune that is not a Unicode scalar value (surrogate, or above U+10FFFF) is never found -/
theorem runeW_invalid (ch : Nat) (l : Bytes) (h : ¬ Utf8.ValidScalar ch) : runeW ch l = none := by
  unfold runeW
  have hc : ¬ ch < 0x80 := by intro hc; apply h; unfold Utf8.ValidScalar; omega
  rw [if_neg hc, if_neg]
  intro ⟨hl, hd⟩
  cases Utf8.decodeRune_decoded l hl with
  | invalid hi => rw [hi] at hd; exact h (hd ▸ runeError_valid)
  | valid h1 _ => exact h (hd ▸ h1)

end PV
