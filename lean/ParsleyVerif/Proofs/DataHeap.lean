import ParsleyVerif.Model.Data
import ParsleyVerif.Spec.SetSpec
import ParsleyVerif.Proofs.Search
namespace PV.Data

/-! ### heap access lemmas -/

theorem cells_modify_same (h : Heap) (a : Nat) (f : List Int → List Int) (ha : a < h.length) :
    cells (h.modify a f) a = f (cells h a) := by
  simp [cells, List.getD_eq_getElem?_getD, ha]

theorem cells_modify_ne (h : Heap) (a b : Nat) (f : List Int → List Int) (hne : a ≠ b) :
    cells (h.modify a f) b = cells h b := by
  simp [cells, List.getD_eq_getElem?_getD, hne]

theorem cells_append_lt (h : Heap) (c : List Int) (a : Nat) (ha : a < h.length) :
    cells (h ++ [c]) a = cells h a := by
  simp [cells, List.getD_eq_getElem?_getD, List.getElem?_append_left ha]

theorem cells_append_eq (h : Heap) (c : List Int) : cells (h ++ [c]) h.length = c := by
  simp [cells, List.getD_eq_getElem?_getD]

/-- slice well-formedness: points into the heap, and its capacity is the array's size -/
def SWF (h : Heap) (s : Slice) : Prop :=
  s.arr < h.length ∧ s.len ≤ s.cap ∧ (cells h s.arr).length = s.cap

/-- everything below `base` is untouched -/
def Frame (base : Nat) (h h' : Heap) : Prop :=
  h.length ≤ h'.length ∧ ∀ a, a < base → cells h' a = cells h a

theorem Frame.refl (base : Nat) (h : Heap) : Frame base h h := ⟨Nat.le_refl _, fun _ _ => rfl⟩

theorem Frame.trans {base : Nat} {h1 h2 h3 : Heap} (a : Frame base h1 h2) (b : Frame base h2 h3) :
    Frame base h1 h3 :=
  ⟨Nat.le_trans a.1 b.1, fun x hx => by rw [b.2 x hx, a.2 x hx]⟩

theorem Frame.view_eq {base : Nat} {h h' : Heap} (f : Frame base h h') (s : Slice) (hs : s.arr < base) :
    PV.Data.view h' s = PV.Data.view h s := by
  simp [PV.Data.view, f.2 s.arr hs]

theorem Frame.mono {b b' : Nat} {h h' : Heap} (f : Frame b h h') (hb : b' ≤ b) : Frame b' h h' :=
  ⟨f.1, fun a ha => f.2 a (by omega)⟩

theorem Frame.swf {base : Nat} {h h' : Heap} (f : Frame base h h') {s : Slice} (w : SWF h s)
    (hs : s.arr < base) : SWF h' s := by
  refine ⟨by have := f.1; have := w.1; omega, w.2.1, ?_⟩
  rw [f.2 s.arr hs]; exact w.2.2

theorem make_spec (h : Heap) (len cap : Nat) (hl : len ≤ cap) :
    SWF (make h len cap).1 (make h len cap).2 ∧ Frame h.length h (make h len cap).1 ∧
    (make h len cap).2.arr = h.length ∧ (make h len cap).2.len = len ∧
    cells (make h len cap).1 h.length = List.replicate cap 0 := by
  refine ⟨⟨?_, ?_, ?_⟩, ⟨?_, ?_⟩, rfl, rfl, ?_⟩
  · simp [make]
  · exact hl
  · show (cells (h ++ [_]) h.length).length = cap
    simp [cells_append_eq]
  · simp [make]
  · intro a ha; exact cells_append_lt h _ a ha
  · exact cells_append_eq _ _

theorem append_spec (grow : Nat → Nat) (h : Heap) (s : Slice) (v : Int) (w : SWF h s) (base : Nat)
    (hb : base ≤ s.arr) :
    SWF (append grow h s v).1 (append grow h s v).2 ∧
    view (append grow h s v).1 (append grow h s v).2 = view h s ++ [v] ∧
    Frame base h (append grow h s v).1 ∧ base ≤ (append grow h s v).2.arr ∧
    (append grow h s v).2.len = s.len + 1 := by
  obtain ⟨w1, w2, w3⟩ := w
  unfold append
  by_cases hlt : s.len < s.cap
  · rw [if_pos hlt]
    refine ⟨⟨?_, ?_, ?_⟩, ?_, ⟨?_, ?_⟩, ?_, ?_⟩
    · simpa [writeCell] using w1
    · show s.len + 1 ≤ s.cap; omega
    · show (cells (writeCell h s.arr s.len v) s.arr).length = s.cap
      simp [writeCell, cells_modify_same _ _ _ w1, w3]
    · show List.take (s.len + 1) (cells (writeCell h s.arr s.len v) s.arr) = List.take s.len (cells h s.arr) ++ [v]
      simp only [writeCell, cells_modify_same _ _ _ w1]
      apply List.ext_getElem?
      intro i
      simp only [List.getElem?_take, List.getElem?_set, List.getElem?_append]
      grind
    · simp [writeCell]
    · intro a ha
      exact cells_modify_ne _ _ _ _ (by omega)
    · exact hb
    · rfl
  · rw [if_neg hlt]
    have hv : (view h s).length = s.len := by simp [view]; omega
    refine ⟨⟨?_, ?_, ?_⟩, ?_, ⟨?_, ?_⟩, ?_, ?_⟩
    · simp
    · show s.len + 1 ≤ max (grow s.cap) (s.len + 1); omega
    · show (cells (h ++ [_]) h.length).length = max (grow s.cap) (s.len + 1)
      rw [cells_append_eq]
      simp [hv]
      omega
    · show List.take (s.len + 1) (cells (h ++ [_]) h.length) = view h s ++ [v]
      rw [cells_append_eq]
      rw [List.take_append_of_le_length (by simp [hv])]
      rw [List.take_of_length_le (by simp [hv])]
    · simp
    · intro a ha
      exact cells_append_lt _ _ _ (by omega)
    · show base ≤ h.length; omega
    · rfl

end PV.Data
