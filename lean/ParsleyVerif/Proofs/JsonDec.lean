/-
  A boolean equality test on evaluator values with its soundness, so that closed examples of `evaluate` can be
  checked by kernel evaluation (`decide +kernel`): `V` is a nested inductive type and has no derived
  `DecidableEq`.
-/
import ParsleyVerif.Model.Eval
namespace PV
open PV.Text

mutual
def V.beq : V → V → Bool
  | .nil, .nil => true
  | .int a, .int b => a == b
  | .str a, .str b => a == b
  | .rune a, .rune b => a == b
  | .bool a, .bool b => a == b
  | .float a, .float b => a == b
  | .dur a, .dur b => a == b
  | .opaque a, .opaque b => a == b
  | .arr a, .arr b => V.beqList a b
  | .obj a, .obj b => V.beqPairs a b
  | _, _ => false
def V.beqList : List V → List V → Bool
  | [], [] => true
  | a :: as, b :: bs => V.beq a b && V.beqList as bs
  | _, _ => false
def V.beqPairs : List (Bytes × V) → List (Bytes × V) → Bool
  | [], [] => true
  | (k, a) :: as, (k', b) :: bs => k == k' && V.beq a b && V.beqPairs as bs
  | _, _ => false
end

mutual
theorem V.beq_sound : ∀ (a b : V), V.beq a b = true → a = b
  | .nil, b, h => by cases b <;> simp_all [V.beq]
  | .int a, b, h => by cases b <;> simp_all [V.beq]
  | .str a, b, h => by cases b <;> simp_all [V.beq]
  | .rune a, b, h => by cases b <;> simp_all [V.beq]
  | .bool a, b, h => by cases b <;> simp_all [V.beq]
  | .float a, b, h => by cases b <;> simp_all [V.beq]
  | .dur a, b, h => by cases b <;> simp_all [V.beq]
  | .opaque a, b, h => by cases b <;> simp_all [V.beq]
  | .arr a, b, h => by
    cases b with
    | arr b => simp only [V.beq] at h; rw [V.beqList_sound a b h]
    | _ => simp [V.beq] at h
  | .obj a, b, h => by
    cases b with
    | obj b => simp only [V.beq] at h; rw [V.beqPairs_sound a b h]
    | _ => simp [V.beq] at h
theorem V.beqList_sound : ∀ (a b : List V), V.beqList a b = true → a = b
  | [], b, h => by cases b <;> simp_all [V.beqList]
  | a :: as, b, h => by
    cases b with
    | nil => simp [V.beqList] at h
    | cons b bs =>
      simp only [V.beqList, Bool.and_eq_true] at h
      rw [V.beq_sound a b h.1, V.beqList_sound as bs h.2]
theorem V.beqPairs_sound : ∀ (a b : List (Bytes × V)), V.beqPairs a b = true → a = b
  | [], b, h => by cases b <;> simp_all [V.beqPairs]
  | (k, a) :: as, b, h => by
    cases b with
    | nil => simp [V.beqPairs] at h
    | cons kb bs =>
      obtain ⟨k', b⟩ := kb
      simp only [V.beqPairs, Bool.and_eq_true, beq_iff_eq] at h
      rw [h.1.1, V.beq_sound a b h.1.2, V.beqPairs_sound as bs h.2]
end

/-- `evaluate` answered the value `v` -/
def outIsValue (o : Option EvaluateOut) (v : V) : Bool :=
  match o with | some (.value w) => V.beq w v | _ => false

theorem outIsValue_sound {o : Option EvaluateOut} {v : V} (h : outIsValue o v = true) : o = some (.value v) := by
  unfold outIsValue at h
  split at h
  · rw [V.beq_sound _ _ h]
  · cases h

/-- `evaluate` answered the error text `m` -/
def outIsError (o : Option EvaluateOut) (m : Bytes) : Bool :=
  match o with | some (.error m') => m' == m | _ => false

theorem outIsError_sound {o : Option EvaluateOut} {m : Bytes} (h : outIsError o m = true) : o = some (.error m) := by
  unfold outIsError at h
  split at h
  · simp only [beq_iff_eq] at h; rw [h]
  · cases h

end PV
