/-
  C05 (full value theorem), EXISTENCE: on the text `ws0 ++ render e` the arithmetic grammar has a curtailed
  derivation `DC … zeroC` of the tree `e.tree` — constructed directly by induction on `e`.

  The premises `c i ≤ remaining + curtailSlack` of the `memo` rule hold along the left spine because an
  expression with `k` operators on its left spine is at least `k` bytes long, so the counters, which grow by
  one per left-nested operator, never exceed the remaining input (`Hc`); every right operand and every
  parenthesised expression starts after an operator / a parenthesis, i.e. after consumed input, where the
  counters are reset.
-/
import ParsleyVerif.Proofs.A05Syntax
import ParsleyVerif.Proofs.A05Rel
namespace PV.A05
open PV PV.Text

/-! ### literals in the text -/

/-- bytes that can continue an integer literal after its first byte -/
def tailOK (b : Nat) : Bool := Lang.hexDigit b || b == 120 || b == 88

theorem isIntBody_all (l : Bytes) (h : Lang.isIntBody l = true) : ∀ b ∈ l, tailOK b = true := by
  simp only [Lang.isIntBody, Bool.or_eq_true] at h
  rcases h with (h | h) | h
  · cases l with
    | nil => simp [Lang.decimalLit] at h
    | cons d r =>
      simp only [Lang.decimalLit, Bool.and_eq_true, star_iff] at h
      intro b hb
      cases hb with
      | head =>
        have := h.1
        simp only [Lang.nzDigit, Bool.and_eq_true, decide_eq_true_eq] at this
        simp [tailOK, Lang.hexDigit]; omega
      | tail _ hm =>
        have := h.2 b hm
        simp only [Lang.digit, Bool.and_eq_true, decide_eq_true_eq] at this
        simp [tailOK, Lang.hexDigit]; omega
  · cases l with
    | nil => simp [Lang.hexLit] at h
    | cons d r =>
      cases r with
      | nil => by_cases hd : d = 48 <;> simp [Lang.hexLit, hd] at h
      | cons x t =>
        by_cases hd : d = 48
        · subst hd
          simp only [Lang.hexLit, Bool.and_eq_true, Bool.or_eq_true, decide_eq_true_eq, plus1_iff] at h
          intro b hb
          cases hb with
          | head => decide
          | tail _ hm =>
            cases hm with
            | head =>
              rcases h.1 with h1 | h1 <;> subst h1 <;> decide
            | tail _ hm2 =>
              have := h.2.2 b hm2
              simp [tailOK, this]
        · simp [Lang.hexLit, hd] at h
  · cases l with
    | nil => simp [Lang.octalLit] at h
    | cons d r =>
      by_cases hd : d = 48
      · subst hd
        simp only [Lang.octalLit, star_iff] at h
        intro b hb
        cases hb with
        | head => decide
        | tail _ hm =>
          have := h b hm
          simp only [Lang.octDigit, Bool.and_eq_true, decide_eq_true_eq] at this
          simp [tailOK, Lang.hexDigit]; omega
      · simp [Lang.octalLit, hd] at h

/-- every byte of an integer literal after the first one is a (hex) digit or `x` -/
theorem isInt_tail (l : Bytes) (h : Lang.isInt l = true) : ∀ b ∈ l.tail, tailOK b = true := by
  unfold Lang.isInt Lang.optSign at h
  simp only [Bool.or_eq_true] at h
  rcases h with h | h
  · intro b hb
    exact isIntBody_all l h b (List.mem_of_mem_tail hb)
  · cases l with
    | nil => cases h
    | cons s r =>
      simp only [Bool.and_eq_true] at h
      intro b hb
      exact isIntBody_all r h.2 b hb

/-- what follows a literal in a rendered expression -/
def FollowOK (tl : Bytes) : Prop :=
  ∀ b, tl.head? = some b → isWs b = true ∨ b = 43 ∨ b = 45 ∨ b = 42 ∨ b = 47 ∨ b = 41

theorem isWs_cases {b : Nat} (h : isWs b = true) : b = 32 ∨ b = 9 ∨ b = 10 ∨ b = 12 := by
  simpa [isWs, Facts.wsBytes] using h

theorem FollowOK.tail {tl : Bytes} (h : FollowOK tl) : ∀ b, tl.head? = some b → tailOK b = false ∧ b ≠ 46 := by
  intro b hb
  rcases h b hb with h1 | rfl | rfl | rfl | rfl | rfl
  · rcases isWs_cases h1 with rfl | rfl | rfl | rfl <;> decide
  all_goals decide

theorem int_longest (lex tl : Bytes) (h : Lang.isInt lex = true) (htl : FollowOK tl) :
    Lang.longestPrefix Lang.isInt (lex ++ tl) = some lex.length := by
  obtain ⟨c, lex', rfl, _⟩ := isInt_head lex h
  refine longestPrefix_eq_some (by simp) (by simpa using h) ?_
  intro j hj hj2
  cases htl' : tl with
  | nil => subst htl'; simp at hj hj2; omega
  | cons b t =>
    subst htl'
    have hb := (htl.tail b rfl).1
    cases hi : Lang.isInt ((c :: lex' ++ b :: t).take j) with
    | false => rfl
    | true =>
      have hmem : b ∈ ((c :: lex' ++ b :: t).take j).tail := by
        have hj' : lex'.length + 1 < j := by simpa using hj
        obtain ⟨k, rfl⟩ : ∃ k, j = (lex'.length + 1) + (k + 1) := ⟨j - (lex'.length + 1) - 1, by omega⟩
        have : (c :: lex' ++ b :: t).take (lex'.length + 1 + (k + 1)) = (c :: lex') ++ b :: t.take k := by
          rw [show lex'.length + 1 + (k + 1) = (c :: lex').length + (k + 1) from by simp,
            show c :: lex' ++ b :: t = (c :: lex') ++ (b :: t) from rfl, List.take_length_add_append]
          rfl
        rw [this]
        simp
      have := isInt_tail _ hi b hmem
      rw [hb] at this; cases this

/-- `Integer()` at the first byte of a literal that is followed by whitespace, an operator, `)` or nothing -/
theorem integer_at (P : Params) (f : File) (p : Nat) (lex tl : Bytes) (hp : InFile f p)
    (hr : rest f p = lex ++ tl) (hl : LitOK lex) (htl : FollowOK tl) :
    Terminal.parse P f .integer p = .node (.term (tokOf "INTEGER") (.int (Lang.intValue lex)) p (p + lex.length)) := by
  rw [c08_integer_value P f p _ hp]
  have htake : (rest f p).take lex.length = lex := by rw [hr]; simp
  refine ⟨lex.length, by rw [hr]; exact int_longest lex tl hl.1 htl, ?_, ?_, ?_, by rw [htake]⟩
  · rw [hr]
    simp only [List.drop_left]
    intro h46
    exact (htl.tail 46 h46).2 rfl
  · rw [htake]; exact hl.2.1
  · rw [htake]; exact hl.2.2

/-! ### whitespace in the text -/

theorem head_not_ws {b : Nat} (hb : b = 43 ∨ b = 45 ∨ (48 ≤ b ∧ b ≤ 57) ∨ b = 40) : isWs b = false := by
  cases hw : isWs b with
  | false => rfl
  | true => rcases isWs_cases hw with rfl | rfl | rfl | rfl <;> omega

theorem sk_ws (f : File) (hoff : 1 ≤ f.offset) (p : Nat) (ws tl : Bytes) (hp : InFile f p) (hr : rest f p = ws ++ tl)
    (hws : WsOK ws) (htl : ∀ b, tl.head? = some b → isWs b = false) : sk f p = p + ws.length := by
  rw [sk_eq f p hp hoff, hr, wsRun_append ws tl hws htl]

theorem rest_drop (f : File) (p k : Nat) (a b : Bytes) (hp : InFile f p) (hr : rest f p = a ++ b) (hk : k = a.length) :
    InFile f (p + k) ∧ rest f (p + k) = b := by
  subst hk
  refine ⟨inFile_add f p _ hp (by rw [hr]; simp), ?_⟩
  rw [rest_add f p _ hp, hr]; simp

section
variable (cfg : Cfg) (hoff : 1 ≤ cfg.file.offset)
include hoff

/-- `Trim(Integer())` on a literal with its whitespace -/
theorem dc_lit (c : Nat → Nat) (q p : Nat) (lex ws suf : Bytes) (hq : InFile cfg.file q) (hsk : sk cfg.file q = p)
    (hr : rest cfg.file p = lex ++ (ws ++ suf)) (hl : LitOK lex) (hws : WsOK ws) (hs : Stop suf) :
    DC cfg c (trimT .integer) q (.term (tokOf "INTEGER") (.int (Lang.intValue lex)) p (p + lex.length + ws.length)) := by
  have hp : InFile cfg.file p := by rw [← hsk]; exact sk_inFile _ q hq hoff
  have hfo : FollowOK (ws ++ suf) := by
    intro b hb
    cases ws with
    | nil =>
      rcases hs b (by simpa using hb) with h | h | h | h | h
      · exact .inr (.inl h)
      · exact .inr (.inr (.inl h))
      · exact .inr (.inr (.inr (.inl h)))
      · exact .inr (.inr (.inr (.inr (.inl h))))
      · exact .inr (.inr (.inr (.inr (.inr h))))
    | cons w t =>
      simp only [List.cons_append, List.head?_cons, Option.some.injEq] at hb
      subst hb
      exact .inl (hws _ (List.mem_cons_self ..))
  have hn := integer_at cfg.params cfg.file p lex (ws ++ suf) hp hr hl hfo
  have hd := DC.trim (cfg := cfg) (c := c) (t := .integer) (pos := q) (by rw [hsk]; exact hn)
  obtain ⟨h1, h2⟩ := rest_drop cfg.file p lex.length lex (ws ++ suf) hp hr rfl
  rw [mv_term, sk_ws cfg.file hoff _ ws suf h1 h2 hws hs.not_ws] at hd
  exact hd

/-- `Trim(Rune(ch))` on the byte with its whitespace -/
theorem dc_rune (c : Nat → Nat) (q p ch : Nat) (ws tl : Bytes) (hq : InFile cfg.file q) (hsk : sk cfg.file q = p)
    (hch : ch < 0x80) (hr : rest cfg.file p = ch :: (ws ++ tl)) (hws : WsOK ws)
    (htl : ∀ b, tl.head? = some b → isWs b = false) :
    DC cfg c (trimT (.rune ch [34, ch, 34])) q (.term (Utf8.encodeRune ch) (.rune ch) p (p + 1 + ws.length)) := by
  have hp : InFile cfg.file p := by rw [← hsk]; exact sk_inFile _ q hq hoff
  have hn : Terminal.parse cfg.params cfg.file (.rune ch [34, ch, 34]) p =
      .node (.term (Utf8.encodeRune ch) (.rune ch) p (p + 1)) :=
    (rune_node_iff cfg.params cfg.file p ch _ _ hp hch).mpr ⟨by rw [hr]; rfl, rfl⟩
  have hd := DC.trim (cfg := cfg) (c := c) (t := .rune ch [34, ch, 34]) (pos := q) (by rw [hsk]; exact hn)
  obtain ⟨h1, h2⟩ := rest_drop cfg.file p 1 [ch] (ws ++ tl) hp (by rw [hr]; rfl) rfl
  rw [mv_term, sk_ws cfg.file hoff _ ws tl h1 h2 hws htl] at hd
  exact hd

end

/-! ### sequences of three -/

theorem dc_seq3 {cfg : Cfg} {c : Nat → Nat} {a b d : G} {o : SeqOpts} {q : Nat} {x1 x2 x3 : Node}
    (h1 : DC cfg c a q x1) (hc1 : x1.rpos > q) (h2 : DC cfg zeroC b x1.rpos x2)
    (h3 : DC cfg zeroC d x2.rpos x3) :
    DC cfg c (.seq .seqOf [a, b, d] o) q (.nt (o.token.getD seqTok) [x1, x2, x3] x1.pos x3.rpos o.interp) := by
  have hs := DC.seqOf (cfg := cfg) (c := c) (gs := [a, b, d]) (o := o) (pos := q) (nodes := [x1, x2, x3]) rfl
    (.cons rfl h1 (by
      rw [if_pos hc1]
      exact .cons rfl h2 (by
        have : (if x2.rpos > x1.rpos then zeroC else zeroC) = zeroC := by split <;> rfl
        rw [this]
        exact .cons rfl h3 .nil))) rfl
  simpa [handleResult] using hs

/-! ### the arithmetic grammar -/

/-- the counters leave room for the operators on the left spine -/
def Hc (n : Nat) (c : Nat → Nat) (e : Cst) (R : Nat) : Prop :=
  (n = 0 → c 0 + e.leftOps ≤ R + 1) ∧ (n ≤ 1 → c 1 + e.leftOps ≤ R + 1)

section
variable (cfg : Cfg) (henv : cfg.env = Garith.env) (hoff : 1 ≤ cfg.file.offset)
include henv

theorem env0 : cfg.env[0]? = some Garith.expr := by rw [henv]; rfl
theorem env1 : cfg.env[1]? = some Garith.term := by rw [henv]; rfl
theorem env2 : cfg.env[2]? = some Garith.factor := by rw [henv]; rfl

/-- term → factor -/
theorem up21 {c : Nat → Nat} {q : Nat} {x : Node} (h : DC cfg (bump c 1) (.ref 2) q x)
    (hc : c 1 ≤ remaining cfg.file q + Facts.curtailSlack) : DC cfg c (.ref 1) q x :=
  .ref (env1 cfg henv) (.memo hc (.any (g := .ref 2) (by simp) h))

/-- expr → term -/
theorem up10 {c : Nat → Nat} {q : Nat} {x : Node} (h : DC cfg (bump c 0) (.ref 1) q x)
    (hc : c 0 ≤ remaining cfg.file q + Facts.curtailSlack) : DC cfg c (.ref 0) q x :=
  .ref (env0 cfg henv) (.memo hc (.any (g := .ref 1) (by simp) h))

/-- a factor is a term is an expression -/
theorem lift2 {n : Nat} {c : Nat → Nat} {q : Nat} {x : Node} (h : ∀ c', DC cfg c' (.ref 2) q x) (hn : n ≤ 2)
    (h0 : n = 0 → c 0 ≤ remaining cfg.file q + Facts.curtailSlack)
    (h1 : n ≤ 1 → c 1 ≤ remaining cfg.file q + Facts.curtailSlack) : DC cfg c (.ref n) q x := by
  match n, hn with
  | 2, _ => exact h c
  | 1, _ => exact up21 cfg henv (h _) (h1 (by omega))
  | 0, _ =>
    refine up10 cfg henv (up21 cfg henv (h _) ?_) (h0 rfl)
    simp only [bump]
    exact h1 (by omega)

theorem dc_bin0 {c : Nat → Nat} {q : Nat} {x1 x2 x3 : Node}
    (hc : c 0 ≤ remaining cfg.file q + Facts.curtailSlack)
    (h1 : DC cfg (bump c 0) (.ref 0) q x1) (hc1 : x1.rpos > q) (h2 : DC cfg zeroC Garith.addop x1.rpos x2)
    (h3 : DC cfg zeroC (.ref 1) x2.rpos x3) : DC cfg c (.ref 0) q (binN x1 x2 x3) :=
  .ref (env0 cfg henv) (.memo hc (.any (g := Garith.exprSeq) (by simp)
    (dc_seq3 (o := Garith.bin) h1 hc1 h2 h3)))

theorem dc_bin1 {c : Nat → Nat} {q : Nat} {x1 x2 x3 : Node}
    (hc : c 1 ≤ remaining cfg.file q + Facts.curtailSlack)
    (h1 : DC cfg (bump c 1) (.ref 1) q x1) (hc1 : x1.rpos > q) (h2 : DC cfg zeroC Garith.mulop x1.rpos x2)
    (h3 : DC cfg zeroC (.ref 2) x2.rpos x3) : DC cfg c (.ref 1) q (binN x1 x2 x3) :=
  .ref (env1 cfg henv) (.memo hc (.any (g := Garith.termSeq) (by simp)
    (dc_seq3 (o := Garith.bin) h1 hc1 h2 h3)))

include hoff

omit henv in
/-- an operator leaf -/
theorem dc_op (o : Op) (q : Nat) (ws tl : Bytes) (hq : InFile cfg.file q)
    (hr : rest cfg.file q = opByte o :: (ws ++ tl)) (hws : WsOK ws)
    (htl : ∀ b, tl.head? = some b → isWs b = false) :
    DC cfg zeroC (if o.level = 0 then Garith.addop else Garith.mulop) q
      (.term (Utf8.encodeRune (opByte o)) (.rune (opByte o)) q (q + 1 + ws.length)) := by
  have hsk : sk cfg.file q = q := by
    refine sk_of_head cfg.file q hq hoff ?_
    intro b hb
    rw [hr] at hb
    simp only [List.head?_cons, Option.some.injEq] at hb
    subst hb
    cases o <;> decide
  have hd := dc_rune cfg hoff zeroC q q (opByte o) ws tl hq hsk (opByte_ascii o) hr hws htl
  cases o
  · exact .any (g := trimT (.rune 43 [34, 43, 34])) (by simp [Garith.trim, Garith.rn, trimT]) hd
  · exact .any (g := trimT (.rune 45 [34, 45, 34])) (by simp [Garith.trim, Garith.rn, trimT]) hd
  · exact .any (g := trimT (.rune 42 [34, 42, 34])) (by simp [Garith.trim, Garith.rn, trimT]) hd
  · exact .any (g := trimT (.rune 47 [34, 47, 34])) (by simp [Garith.trim, Garith.rn, trimT]) hd

omit henv in
theorem hc_zero (n : Nat) (e : Cst) (q p : Nat) (suf : Bytes) (hq : InFile cfg.file q) (hsk : sk cfg.file q = p)
    (hr : rest cfg.file p = e.render ++ suf) : Hc n zeroC e (remaining cfg.file q) := by
  have h1 : remaining cfg.file q = (rest cfg.file q).length := remaining_spec cfg.file q hq
  have h2 : (rest cfg.file p).length ≤ (rest cfg.file q).length := by
    rw [← hsk, rest_sk cfg.file q hq hoff]
    exact (List.dropWhile_suffix _).length_le
  have h3 := e.leftOps_le
  rw [hr] at h2
  simp only [List.length_append] at h2
  constructor <;> intro _ <;> simp only [zeroC] <;> omega

/-- **existence**: the tree of `e` has a curtailed derivation -/
theorem dc_tree (e : Cst) : ∀ (n : Nat) (c : Nat → Nat) (q p : Nat) (suf : Bytes), n ≤ 2 → e.WF n →
    InFile cfg.file q → sk cfg.file q = p → rest cfg.file p = e.render ++ suf → Stop suf →
    Hc n c e (remaining cfg.file q) → DC cfg c (.ref n) q (e.tree p) := by
  induction e with
  | lit lex ws =>
    intro n c q p suf hn hwf hq hsk hr hs hc
    refine lift2 cfg henv ?_ hn (fun h => by have := hc.1 h; simp [Facts.curtailSlack]; omega)
      (fun h => by have := hc.2 h; simp [Facts.curtailSlack]; omega)
    intro c'
    refine .ref (env2 cfg henv) (.any (g := trimT .integer) (by simp [Garith.trim, trimT]) ?_)
    exact dc_lit cfg hoff c' q p lex ws suf hq hsk (by simpa [Cst.render] using hr) hwf.1 hwf.2 hs
  | paren ws1 e ws2 ih =>
    intro n c q p suf hn hwf hq hsk hr hs hc
    obtain ⟨hw1, hwe, hw2⟩ := hwf
    refine lift2 cfg henv ?_ hn (fun h => by have := hc.1 h; simp [Facts.curtailSlack]; omega)
      (fun h => by have := hc.2 h; simp [Facts.curtailSlack]; omega)
    intro c'
    have hp : InFile cfg.file p := by rw [← hsk]; exact sk_inFile _ q hq hoff
    have hqp : q ≤ p := by rw [← hsk]; exact sk_ge _ q hq hoff
    simp only [Cst.render] at hr
    obtain ⟨b, t, hbt, hb⟩ := e.render_head 0 hwe
    -- '('
    have h1 := dc_rune cfg hoff c' q p 40 ws1 (e.render ++ (41 :: ws2) ++ suf) hq hsk (by decide)
      (by rw [hr]; simp) hw1 (by
        intro b' hb'
        rw [hbt] at hb'
        simp only [List.cons_append, List.head?_cons, Option.some.injEq] at hb'
        subst hb'
        exact head_not_ws hb)
    -- the expression inside
    obtain ⟨i1, r1⟩ := rest_drop cfg.file p (1 + ws1.length) (40 :: ws1) (e.render ++ (41 :: ws2 ++ suf)) hp
      (by rw [hr]; simp) (by simp; omega)
    have hsk1 : sk cfg.file (p + (1 + ws1.length)) = p + (1 + ws1.length) := by
      refine sk_of_head cfg.file _ i1 hoff ?_
      intro b' hb'
      rw [r1, hbt] at hb'
      simp only [List.cons_append, List.head?_cons, Option.some.injEq] at hb'
      subst hb'
      exact head_not_ws hb
    have h2 := ih 0 zeroC _ _ (41 :: ws2 ++ suf) (by omega) hwe i1 hsk1 r1 (Stop_close _)
      (hc_zero cfg hoff 0 e _ _ _ i1 hsk1 r1)
    -- ')'
    obtain ⟨i2, r2⟩ := rest_drop cfg.file _ e.render.length e.render (41 :: ws2 ++ suf) i1 r1 rfl
    have hsk2 : sk cfg.file (p + (1 + ws1.length) + e.render.length) = p + (1 + ws1.length) + e.render.length := by
      refine sk_of_head cfg.file _ i2 hoff ?_
      intro b' hb'
      rw [r2] at hb'
      simp only [List.cons_append, List.head?_cons, Option.some.injEq] at hb'
      subst hb'; decide
    have h3 := dc_rune cfg hoff zeroC _ _ 41 ws2 suf i2 hsk2 (by decide) (by rw [r2]; simp) hw2 hs.not_ws
    refine .ref (env2 cfg henv) (.any (g := Garith.parenSeq) (by simp) ?_)
    have hseq := dc_seq3 (o := Garith.sel1) (a := trimT (.rune 40 [34, 40, 34])) (b := .ref 0)
      (d := trimT (.rune 41 [34, 41, 34])) h1 (by simp only [Node.rpos]; omega)
      (by simp only [Node.rpos]; rw [show p + 1 + ws1.length = p + (1 + ws1.length) by omega]; exact h2)
      (by rw [Cst.tree_rpos]; exact h3)
    simp only [Cst.tree, parN]
    have e1 : p + 1 + ws1.length = p + (1 + ws1.length) := by omega
    rw [e1]
    show DC cfg c' (.seq .seqOf [trimT (.rune 40 [34, 40, 34]), .ref 0, trimT (.rune 41 [34, 41, 34])] Garith.sel1) q _
    simpa [Garith.sel1, Node.pos, Node.rpos, Nat.add_assoc] using hseq
  | bin o l ws r ihl ihr =>
    intro n c q p suf hn hwf hq hsk hr hs hc
    obtain ⟨hno, hwl, hws, hwr⟩ := hwf
    have hp : InFile cfg.file p := by rw [← hsk]; exact sk_inFile _ q hq hoff
    have hqp : q ≤ p := by rw [← hsk]; exact sk_ge _ q hq hoff
    simp only [Cst.render] at hr
    obtain ⟨b, t, hbt, hb⟩ := r.render_head _ hwr
    have hrl : rest cfg.file p = l.render ++ (opByte o :: (ws ++ r.render) ++ suf) := by rw [hr]; simp
    -- the operator
    obtain ⟨i1, r1⟩ := rest_drop cfg.file p l.render.length l.render _ hp hrl rfl
    have hrnw : ∀ b', (r.render ++ suf).head? = some b' → isWs b' = false := by
      intro b' hb'
      rw [hbt] at hb'
      simp only [List.cons_append, List.head?_cons, Option.some.injEq] at hb'
      subst hb'
      exact head_not_ws hb
    have h2 := dc_op cfg hoff o _ ws (r.render ++ suf) i1 (by rw [r1]; simp) hws hrnw
    -- the right operand
    obtain ⟨i2, r2⟩ := rest_drop cfg.file _ (1 + ws.length) (opByte o :: ws) (r.render ++ suf) i1
      (by rw [r1]; simp) (by simp; omega)
    have hsk2 : sk cfg.file (p + l.render.length + (1 + ws.length)) = p + l.render.length + (1 + ws.length) :=
      sk_of_head cfg.file _ i2 hoff (by rw [r2]; exact hrnw)
    have h3 := ihr (o.level + 1) zeroC _ _ suf (by have := level_le_one o; omega) hwr i2 hsk2 r2 hs
      (hc_zero cfg hoff _ r _ _ _ i2 hsk2 r2)
    have hlpos := l.render_length _ hwl
    have e1 : p + l.render.length + 1 + ws.length = p + l.render.length + (1 + ws.length) := by omega
    rw [e1] at h2
    -- at the operator's own level
    have hown : ∀ c', Hc o.level c' (.bin o l ws r) (remaining cfg.file q) →
        DC cfg c' (.ref o.level) q ((Cst.bin o l ws r).tree p) := by
      intro c' hc'
      simp only [Cst.tree]
      rw [e1]
      cases hlv : o.level with
      | zero =>
        rw [hlv] at hc' hwl h3
        have hcc := hc'.1 rfl
        have hcc1 := hc'.2 (by omega)
        simp only [Cst.leftOps] at hcc hcc1
        have h1 := ihl 0 (bump c' 0) q p _ (by omega) hwl hq hsk hrl (Stop_op o _)
          ⟨fun _ => by simp only [bump, ↓reduceIte]; omega, fun _ => by simp only [bump]; simp; omega⟩
        refine dc_bin0 cfg henv (by simp [Facts.curtailSlack]; omega) h1 (by rw [Cst.tree_rpos]; omega)
          (by rw [Cst.tree_rpos]; simpa [hlv] using h2) (by simpa [Node.rpos] using h3)
      | succ k =>
        have hk : k = 0 := by have := level_le_one o; omega
        subst hk
        rw [hlv] at hc' hwl h3
        have hcc1 := hc'.2 (by omega)
        simp only [Cst.leftOps] at hcc1
        have h1 := ihl 1 (bump c' 1) q p _ (by omega) hwl hq hsk hrl (Stop_op o _)
          ⟨fun h => by omega, fun _ => by simp only [bump, ↓reduceIte]; omega⟩
        refine dc_bin1 cfg henv (by simp [Facts.curtailSlack]; omega) h1 (by rw [Cst.tree_rpos]; omega)
          (by rw [Cst.tree_rpos]; simpa [hlv] using h2) (by simpa [Node.rpos] using h3)
    -- lifting to the requested level
    rcases Nat.lt_or_ge n o.level with hlt | hge
    · have hn0 : n = 0 := by have := level_le_one o; omega
      have hl1 : o.level = 1 := by have := level_le_one o; omega
      subst hn0
      have hcc := hc.1 rfl
      have hcc1 := hc.2 (by omega)
      have := hown (bump c 0) (by
        rw [hl1]
        exact ⟨fun h => by omega, fun _ => by simp only [bump]; simpa using hcc1⟩)
      rw [hl1] at this
      exact up10 cfg henv this (by simp [Facts.curtailSlack]; omega)
    · have : n = o.level := by omega
      subst this
      exact hown c hc

end

end PV.A05
