/-
  THE REUSE INVARIANT WITH TRIMS (C01 with trims, completeness, half A): the result cache, the curtailing
  sets, the context reset of seq.go and the two trims of text/trim.go never lose a CURTAILED derivation
  (`DerivesCW`, Spec/DerivesW.lean).  Proofs/RunComplete.lean generalised: the statement is the same with
  `DerivesCW` / `FragW` in place of `DerivesC` / `Frag`; the invariant carries, in addition, what the scope
  predicates `ErrFree` / `OneAlt` promise about an answer (`OutShape`) — also for cached answers.

  LeftTrim needs nothing new: `run` calls the operand at the position after the whitespace with the SAME
  context, `DerivesCW.ltrim` derives the operand there under the SAME counters, and `OutC` does not mention
  the relation between counters and positions at all.
-/
import ParsleyVerif.Proofs.C1TBasics
import ParsleyVerif.Proofs.RunComplete
namespace PV.C1T
open PV PV.Text

/-- what a result computed under `ctx` with curtailing set `cp` promises -/
def OutC (cfg : Cfg) (g : G) (ctx : Ctx) (pos : Nat) (o : Out) : Prop :=
  ∀ (c' : Nat → Nat) (x : Node), (∀ k ∈ o.cp, ctx.get k ≤ c' k) → DerivesCW cfg c' g pos x → x ∈ o.res.alts

structure EntryC (cfg : Cfg) (bodyOf : Nat → G) (e : CacheEntry) : Prop where
  keys : ∀ kv ∈ e.ctx, kv.1 ∈ e.cp
  complete : ∀ (c' : Nat → Nat) (x : Node), (∀ kv ∈ e.ctx, kv.2 ≤ c' kv.1) →
      DerivesCW cfg c' (.memo e.idx (bodyOf e.idx)) e.pos x → x ∈ e.res.alts
  noEOF : NoEOF e.res
  /-- a cached answer of an `ErrFree` body is a result or an error, never both -/
  shape : ErrFree cfg (bodyOf e.idx) → e.res.isNil = false → e.err = none

def CacheC (cfg : Cfg) (bodyOf : Nat → G) (st : St) : Prop := ∀ e ∈ st.cache, EntryC cfg bodyOf e

def RunCompleteOK (cfg : Cfg) (bodyOf : Nat → G) (r : RunFn) : Prop :=
  ∀ g ctx pos st o st', FragW cfg g → GOK bodyOf g → CacheC cfg bodyOf st → r g ctx pos st = some (o, st') →
    OutC cfg g ctx pos o ∧ NoEOF o.res ∧ OutShape cfg g o ∧ CacheC cfg bodyOf st'

theorem CacheC_of_eq {cfg : Cfg} {bodyOf : Nat → G} {st st' : St} (h : CacheC cfg bodyOf st)
    (e : st'.cache = st.cache) : CacheC cfg bodyOf st' := by
  unfold CacheC; rw [e]; exact h

/-! ### Any -/

theorem anyLoop_completeW (cfg : Cfg) (bodyOf : Nat → G) (r : RunFn) (hr : RunCompleteOK cfg bodyOf r)
    (ctx : Ctx) (pos : Nat) :
    ∀ (gs : List G), (∀ g ∈ gs, FragW cfg g ∧ GOK bodyOf g) →
      ∀ a st a' st', CacheC cfg bodyOf st → NoEOF a.res → anyLoop r ctx pos gs a st = some (a', st') →
        CacheC cfg bodyOf st' ∧ NoEOF a'.res ∧ (∀ x ∈ a.res.alts, x ∈ a'.res.alts) ∧ (∀ k ∈ a.cp, k ∈ a'.cp) ∧
        ∀ g ∈ gs, ∀ (c' : Nat → Nat) (x : Node), (∀ k ∈ a'.cp, ctx.get k ≤ c' k) → DerivesCW cfg c' g pos x →
          x ∈ a'.res.alts := by
  intro gs
  induction gs with
  | nil =>
    intro _ a st a' st' hC hN h
    simp only [anyLoop] at h
    cases h
    exact ⟨hC, hN, fun x hx => hx, fun k hk => hk, (by intro g hg; cases hg)⟩
  | cons g gs ih =>
    intro hgs a st a' st' hC hN h
    simp only [anyLoop] at h
    split at h
    · cases h
    · rename_i o st1 hrun
      obtain ⟨hg1, hg2⟩ := hgs g (List.mem_cons_self ..)
      obtain ⟨hO, hNo, _, hC1⟩ := hr g ctx pos st.regCall o st1 hg1 hg2 (CacheC_of_eq hC rfl) hrun
      obtain ⟨f1, f2, _, _⟩ := altErr_fields pos { a with cp := cpUnion a.cp o.cp, res := appendNode a.res o.res } o.err
      have hN1 : NoEOF (altErr pos { a with cp := cpUnion a.cp o.cp, res := appendNode a.res o.res } o.err).res := by
        rw [f2]; exact NoEOF_append hN hNo
      obtain ⟨c1, c2, c3, c4, c5⟩ := ih (fun g' hg' => hgs g' (List.mem_cons_of_mem _ hg')) _ _ _ _ hC1 hN1 h
      rw [f2] at c3
      rw [f1] at c4
      refine ⟨c1, c2, fun x hx => c3 x (mem_appendNode_left _ _ _ hx), fun k hk => c4 k (mem_cpUnion_left _ _ _ hk), ?_⟩
      intro g' hg' c' x hdom hd
      cases hg' with
      | head =>
        refine c3 x (mem_appendNode_right _ _ _ (hO c' x ?_ hd))
        intro k hk
        exact hdom k (c4 k (mem_cpUnion_right _ _ _ hk))
      | tail _ hm => exact c5 g' hm c' x hdom hd

/-! ### Sequence -/

/-- **Completeness principle for the sequence loop** (dual to `seqParse_ind`): every chain of nodes the
    elements can derive from the frame on — under counters that dominate the frame's context on the
    FINAL curtailing set while merging is on, under any counters once it is off — is emitted. -/
theorem seqParse_completeW (cfg : Cfg) (bodyOf : Nat → G) (r : RunFn) (hr : RunCompleteOK cfg bodyOf r)
    (sh : SeqShape)
    (hlook : ∀ d g', sh.lookup d = some g' → FragW cfg g' ∧ GOK bodyOf g')
    (hlc : ∀ d g', sh.lookup d = some g' → sh.lenCheck d = false)
    (htok : sh.token ≠ eofTok) (pos0 : Nat) :
    ∀ (fuel : Nat) (fr : Frame) ss st b ss' st',
      CacheC cfg bodyOf st → fr.depth = fr.nodes.length → (fr.merge = false → fr.ctx = []) →
      (∀ n ∈ fr.nodes, n.token ≠ eofTok) → endOf pos0 fr.nodes = fr.pos →
      seqParse r sh fuel fr.depth fr.nodes fr.ctx fr.pos fr.merge ss st = some (b, ss', st') →
      b = false ∧ CacheC cfg bodyOf st' ∧ SeqLe ss ss' ∧
      ∀ (c' : Nat → Nat) (rest : List Node), (fr.merge = true → ∀ k ∈ ss'.cp, fr.ctx.get k ≤ c' k) →
        DerivesSeqCW cfg c' sh fr.depth fr.pos rest → sh.lenCheck (fr.depth + rest.length) = true →
        handleResult sh pos0 (fr.nodes ++ rest) ∈ ss'.result.alts := by
  intro fuel
  induction fuel with
  | zero => intro fr ss st b ss' st' _ _ _ _ _ h; simp [seqParse] at h
  | succ fuel ih =>
    intro fr ss st b ss' st' hC hd hm hne hend h
    rw [seqParse_succ] at h
    generalize hstep : seqStep r sh fr st = step at h
    unfold seqStep at hstep
    cases step with
    | none => simp at h
    | some p =>
    obtain ⟨o, st1⟩ := p
    simp only at h
    -- what the call of element `depth` gives
    have hfacts : CacheC cfg bodyOf st1 ∧ NoEOF o.res ∧
        (∀ g', sh.lookup fr.depth = some g' → OutC cfg g' fr.ctx fr.pos o) ∧
        (sh.lookup fr.depth = none → o.res.isNil = true) := by
      cases hl : sh.lookup fr.depth with
      | none =>
        simp only [hl] at hstep
        cases hstep
        exact ⟨hC, NoEOF_nil, (by intro g' hg'; cases hg'), fun _ => rfl⟩
      | some g' =>
        simp only [hl] at hstep
        obtain ⟨hg1, hg2⟩ := hlook _ _ hl
        obtain ⟨hO, hN, _, hC1⟩ := hr g' fr.ctx fr.pos st.regCall o st1 hg1 hg2 (CacheC_of_eq hC rfl) hstep
        exact ⟨hC1, hN, (by intro g'' hg''; cases hg''; exact hO), (by intro hc; cases hc)⟩
    obtain ⟨hC1, hNo, hOut, hnone⟩ := hfacts
    -- the domination premise for the element, from the one for the whole frame
    have hdomEl : ∀ (c' : Nat → Nat) (fin : SeqSt), SeqLe (seqAfter fr.merge ss o) fin →
        (fr.merge = true → ∀ k ∈ fin.cp, fr.ctx.get k ≤ c' k) → ∀ k ∈ o.cp, fr.ctx.get k ≤ c' k := by
      intro c' fin hle hdom k hk
      cases hmg : fr.merge with
      | true =>
        refine hdom hmg k (hle.2.1 k ?_)
        rw [hmg]; exact seqAfter_cp_right ss o k hk
      | false => rw [hm hmg]; exact Nat.zero_le _
    -- the tree emitted at this depth
    have hemitEq : handleResult sh fr.pos (if fr.depth > 0 then fr.nodes else []) = handleResult sh pos0 fr.nodes := by
      have hn : (if fr.depth > 0 then fr.nodes else []) = fr.nodes := by
        split
        · rfl
        · have : fr.nodes.length = 0 := by omega
          exact (List.length_eq_zero_iff.mp this).symm
      rw [hn]
      cases hnn : fr.nodes with
      | nil => rw [hnn] at hend; simp only [endOf_nil] at hend; rw [hend]
      | cons a b => exact handleResult_pos_irrel sh _ _ _ (by simp)
    by_cases hnil : o.res.isNil = true
    · -- the element failed (or there is no further element)
      have halts : o.res.alts = [] := alts_nil_of_isNil hnil
      have hnocons : ∀ (c' : Nat → Nat) (n : Node) (rest1 : List Node) (fin : SeqSt), SeqLe (seqAfter fr.merge ss o) fin →
          (fr.merge = true → ∀ k ∈ fin.cp, fr.ctx.get k ≤ c' k) →
          ¬ DerivesSeqCW cfg c' sh fr.depth fr.pos (n :: rest1) := by
        intro c' n rest1 fin hle hdom hds
        cases hds with
        | cons hl' hn' _ =>
          have := hOut _ hl' c' n (hdomEl c' fin hle hdom) hn'
          rw [halts] at this; cases this
      simp only [hnil, ↓reduceIte] at h
      by_cases hlcd : sh.lenCheck fr.depth = true
      · simp only [hlcd, ↓reduceIte] at h
        injection h with h
        injection h with hb h
        injection h with hs hst
        subst hb hs hst
        have hle : SeqLe (seqAfter fr.merge ss o) (seqEmit sh fr (seqAfter fr.merge ss o)) := by
          refine ⟨fun x hx => mem_appendNode_left _ _ _ hx, fun k hk => hk, ?_⟩
          intro hN
          refine NoEOF_append hN ?_
          intro x hx
          simp only [Res.alts, List.mem_singleton] at hx
          subst hx
          rw [hemitEq]
          exact handleResult_token sh pos0 fr.nodes htok hne
        refine ⟨emitB_false fr hne, hC1, (SeqLe_after _ _ _).trans hle, ?_⟩
        intro c' rest hdom hds _
        cases rest with
        | nil =>
          rw [List.append_nil]
          simp only [seqEmit]
          refine mem_appendNode_right _ _ _ ?_
          rw [hemitEq]; simp [Res.alts]
        | cons n rest1 => exact absurd hds (hnocons c' n rest1 _ hle hdom)
      · simp only [hlcd] at h
        injection h with h
        injection h with hb h
        injection h with hs hst
        subst hb hs hst
        refine ⟨rfl, hC1, SeqLe_after _ _ _, ?_⟩
        intro c' rest hdom hds hlen
        cases rest with
        | nil => simp only [List.length_nil, Nat.add_zero] at hlen; exact absurd hlen hlcd
        | cons n rest1 => exact absurd hds (hnocons c' n rest1 _ (SeqLe.refl _) hdom)
    · -- the element returned alternatives
      have hnil' : o.res.isNil = false := by simpa using hnil
      simp only [hnil', Bool.false_eq_true, ↓reduceIte] at h
      obtain ⟨g', hl⟩ : ∃ g', sh.lookup fr.depth = some g' := by
        cases hl : sh.lookup fr.depth with
        | none => exact absurd (hnone hl) hnil
        | some g' => exact ⟨g', rfl⟩
      -- the frame each alternative continues with
      have hnext : ∀ n ∈ o.res.alts, (fr.next n).depth = (fr.next n).nodes.length ∧
          ((fr.next n).merge = false → (fr.next n).ctx = []) ∧
          (∀ m ∈ (fr.next n).nodes, m.token ≠ eofTok) ∧ endOf pos0 (fr.next n).nodes = (fr.next n).pos := by
        intro n hn
        refine ⟨by simp [Frame.next, hd], ?_, ?_, by simp only [Frame.next]; exact endOf_snoc _ _ _⟩
        · intro hmf
          simp only [Frame.next] at hmf ⊢
          by_cases hc : n.rpos > fr.pos
          · simp [hc]
          · simp only [hc, decide_false, Bool.not_false, Bool.and_true] at hmf
            simp only [hc, ↓reduceIte]
            exact hm hmf
        · intro m hmm
          simp only [Frame.next, List.mem_append, List.mem_singleton] at hmm
          cases hmm with
          | inl h1 => exact hne m h1
          | inr h1 => rw [h1]; exact hNo n hn
      obtain ⟨t1, t2, t3, t4⟩ := seqAlts_trace _ (CacheC cfg bodyOf) o.res.alts
        (by
          intro n hn ss2 st2 b2 ss3 st3 hC2 hk
          obtain ⟨n1, n2, n3, n4⟩ := hnext n hn
          obtain ⟨i1, i2, i3, _⟩ := ih (fr.next n) ss2 st2 b2 ss3 st3 hC2 n1 n2 n3 n4 hk
          exact ⟨i1, i2, i3⟩)
        _ _ _ _ _ hC1 h
      refine ⟨t1, t2, (SeqLe_after _ _ _).trans t3, ?_⟩
      intro c' rest hdom hds hlen
      cases rest with
      | nil =>
        simp only [List.length_nil, Nat.add_zero] at hlen
        rw [hlc _ _ hl] at hlen; cases hlen
      | cons n rest1 =>
        cases hds with
        | cons hl' hn' hrest =>
          have hnm : n ∈ o.res.alts := hOut _ hl' c' n (hdomEl c' ss' t3 hdom) hn'
          obtain ⟨ss2, st2, ss3, st3, hC2, hk, hle3⟩ := t4 n hnm
          obtain ⟨n1, n2, n3, n4⟩ := hnext n hnm
          obtain ⟨_, _, _, i4⟩ := ih (fr.next n) ss2 st2 false ss3 st3 hC2 n1 n2 n3 n4 hk
          have := i4 (if n.rpos > fr.pos then zeroC else c') rest1 ?_ (by simpa [Frame.next] using hrest)
            (by simpa [Frame.next, Nat.add_assoc, Nat.add_comm 1] using hlen)
          · refine hle3.1 _ ?_
            simpa [Frame.next, List.append_assoc] using this
          · intro hmg k hk3
            simp only [Frame.next] at hmg ⊢
            by_cases hc : n.rpos > fr.pos
            · simp [hc] at hmg
            · simp only [hc, decide_false, Bool.not_false, Bool.and_true] at hmg
              simp only [hc, ↓reduceIte]
              exact hdom hmg k (hle3.2.1 k hk3)

/-! ### the induction -/

theorem seqFinish_errfree (sh : SeqShape) (pos : Nat) (ss : SeqSt) (st : St) :
    (seqFinish sh pos ss st).1.res.isNil = false → (seqFinish sh pos ss st).1.err = none := by
  by_cases hnil : ss.result.isNil = true
  · intro h
    have : (seqFinish sh pos ss st).1.res = .nil := by simp [seqFinish, hnil]
    rw [this] at h; simp [Res.isNil] at h
  · have hnil' : ss.result.isNil = false := by simpa using hnil
    intro _
    simp [seqFinish, hnil']

theorem OutShape_nil (cfg : Cfg) (g : G) (cp : List Nat) (err : Option Err) : OutShape cfg g ⟨.nil, cp, err⟩ :=
  ⟨fun _ h => by simp [Res.isNil] at h, fun _ => by simp [Res.alts]⟩

theorem FragW.ltrim {cfg : Cfg} {g : G} {m : WsMode} (h : FragW cfg (.ltrim g m)) : FragW cfg g := by
  have : FragLocalW cfg (.ltrim g m) ∧ g.All (FragLocalW cfg) := by simpa [FragW, G.All] using h
  exact this.2

theorem FragW.rtrim {cfg : Cfg} {g : G} {m : WsMode} (h : FragW cfg (.rtrim g m)) :
    (ErrFree cfg g ∧ (m = .spacesNl ∨ OneAlt g)) ∧ FragW cfg g := by
  have : FragLocalW cfg (.rtrim g m) ∧ g.All (FragLocalW cfg) := by simpa only [FragW, G.All] using h
  exact ⟨by simpa [FragLocalW] using this.1, this.2⟩

theorem GOK_ltrim {bodyOf : Nat → G} {g : G} {m : WsMode} (h : GOK bodyOf (.ltrim g m)) : GOK bodyOf g := by
  have : LocalOK bodyOf (.ltrim g m) ∧ g.All (LocalOK bodyOf) := by simpa [GOK, G.All] using h
  exact this.2

theorem GOK_rtrim {bodyOf : Nat → G} {g : G} {m : WsMode} (h : GOK bodyOf (.rtrim g m)) : GOK bodyOf g := by
  have : LocalOK bodyOf (.rtrim g m) ∧ g.All (LocalOK bodyOf) := by simpa [GOK, G.All] using h
  exact this.2

/-- the derivations of a token do not depend on the counters -/
theorem derivesCW_oneAlt (cfg : Cfg) : ∀ (g : G), OneAlt g → ∀ {c c2 : Nat → Nat} {pos : Nat} {x : Node},
    DerivesCW cfg c g pos x → DerivesCW cfg c2 g pos x
  | .term _, _, _, _, _, _, h => by cases h with | term hp => exact .term hp
  | .empty, _, _, _, _, _, h => by cases h with | empty => exact .empty
  | .ltrim g _, ho, _, _, _, _, h => by
    cases h with
    | ltrim hws hd => exact .ltrim hws (derivesCW_oneAlt cfg g (by simpa [OneAlt] using ho) hd)
  | .rtrim g _, ho, _, _, _, _, h => by
    cases h with
    | rtrim hd hok => exact .rtrim (derivesCW_oneAlt cfg g (by simpa [OneAlt] using ho) hd) hok
  | .eof, ho, _, _, _, _, _ => by simp [OneAlt] at ho
  | .ref _, ho, _, _, _, _, _ => by simp [OneAlt] at ho
  | .memo _ _, ho, _, _, _, _, _ => by simp [OneAlt] at ho
  | .any _, ho, _, _, _, _, _ => by simp [OneAlt] at ho
  | .choice _, ho, _, _, _, _, _ => by simp [OneAlt] at ho
  | .seq _ _ _, ho, _, _, _, _, _ => by simp [OneAlt] at ho
  | .many _ _ _, ho, _, _, _, _, _ => by simp [OneAlt] at ho
  | .sepBy _ _ _ _, ho, _, _, _, _, _ => by simp [OneAlt] at ho
  | .optional _, ho, _, _, _, _, _ => by simp [OneAlt] at ho
  | .name _ _, ho, _, _, _, _, _ => by simp [OneAlt] at ho
  | .single _, ho, _, _, _, _, _ => by simp [OneAlt] at ho
  | .suppress _, ho, _, _, _, _, _ => by simp [OneAlt] at ho

theorem run_completeW (cfg : Cfg) (bodyOf : Nat → G) (henv : ∀ g' ∈ cfg.env, FragW cfg g' ∧ GOK bodyOf g') :
    ∀ fuel, RunCompleteOK cfg bodyOf (run cfg fuel) := by
  intro fuel
  induction fuel with
  | zero => intro g ctx pos st o st' _ _ _ h; simp [run] at h
  | succ fuel ih =>
    intro g ctx pos st o st' hf hg hcs h
    cases hsh : g.shape with
    | some sh =>
      obtain ⟨gs, so, rfl⟩ : ∃ gs so, g = .seq .seqOf gs so := by
        cases g with
        | seq k gs so =>
          cases k with
          | seqOf => exact ⟨gs, so, rfl⟩
          | seqTry => have := G.All_self hf; simp [FragLocalW] at this
          | seqFirstOrAll => have := G.All_self hf; simp [FragLocalW] at this
        | many g1 ae so => have := G.All_self hf; simp [FragLocalW] at this
        | sepBy v s ae so => have := G.All_self hf; simp [FragLocalW] at this
        | _ => simp [G.shape] at hsh
      rw [run_seqfam cfg fuel _ sh ctx pos st hsh] at h
      split at h
      · cases h
      · unfold runSeq at h
        split at h
        · cases h
        · rename_i b ss st1 hsp
          have hfin : seqFinish sh pos ss st1 = (o, st') := by injection h
          obtain ⟨s1, s2⟩ := seqOf_shape hsh
          have htok : sh.token ≠ eofTok := by
            rw [s2]
            have := G.All_self hf
            simpa [FragLocalW] using this
          obtain ⟨_, c2, c3, c4⟩ := seqParse_completeW cfg bodyOf (run cfg fuel) ih sh
            (fun d g' hl => ⟨shape_lookup_all hf hsh d g' hl, shape_lookup_all hg hsh d g' hl⟩) s1 htok pos fuel
            ⟨0, [], ctx, pos, true⟩ {} st b ss st1 hcs rfl (by intro hc; cases hc) (by intro n hn; cases hn) rfl hsp
          obtain ⟨f1, f2⟩ := seqFinish_res sh pos ss st1
          obtain ⟨f3, f4⟩ := seqFinish_complete sh pos ss st1
          have f5 := seqFinish_errfree sh pos ss st1
          rw [hfin] at f1 f2 f3 f4 f5
          refine ⟨?_, fun x hx => c3.2.2 NoEOF_nil x (f1 x hx), ⟨fun _ => f5, fun h1 => by simp [OneAlt] at h1⟩,
            CacheC_of_eq c2 f2⟩
          intro c' x hdom hd
          cases hd with
          | seqOf hs' hds hlen =>
            rename_i sh' nodes
            have : sh' = sh := by rw [hsh] at hs'; injection hs' with e; exact e.symm
            subst this
            refine f3 _ ?_
            have := c4 c' nodes (by intro _ k hk; rw [f4] at hdom; exact hdom k hk) hds
              (by simpa using hlen)
            simpa using this
    | none =>
    by_cases hlt : ∃ g' m, g = .ltrim g' m
    · -- LeftTrim: the operand at the position after the whitespace, under the same context
      obtain ⟨g', m, rfl⟩ := hlt
      rw [run_ltrim] at h
      split at h
      · cases h
      · split at h
        · cases h
        · rename_i o1 st1 hr
          have hfin : ltrimFinish pos (skipWhitespaces cfg.file pos m).1 (wsToErr (skipWhitespaces cfg.file pos m).2) o1 st1 = (o, st') := by
            injection h
          obtain ⟨h1, h2, h3, h4⟩ := ih g' ctx _ st o1 st1 hf.ltrim (GOK_ltrim hg) hcs hr
          obtain ⟨f1, f2⟩ := ltrimFinish_res pos (skipWhitespaces cfg.file pos m).1 (wsToErr (skipWhitespaces cfg.file pos m).2) o1 st1
          have f3 := OutShape_ltrim cfg g' m pos (skipWhitespaces cfg.file pos m).1 (wsToErr (skipWhitespaces cfg.file pos m).2) o1 st1 h3
          rw [hfin] at f1 f2 f3
          refine ⟨?_, fun x hx => h2 x (f1 x hx), f3, CacheC_of_eq h4 f2⟩
          intro c' x hdom hd
          cases hd with
          | ltrim hws hd' =>
            have hw : wsToErr (skipWhitespaces cfg.file pos m).2 = none := by rw [hws]; rfl
            rw [hw] at hfin
            obtain ⟨e1, e2⟩ := ltrimFinish_ok pos (skipWhitespaces cfg.file pos m).1 o1 st1
            rw [hfin] at e1 e2
            simp only at e1 e2
            rw [e1]
            exact h1 c' x (by intro k hk; exact hdom k (by rw [e2]; exact hk)) hd'
    by_cases hrt : ∃ g' m, g = .rtrim g' m
    · -- RightTrim: every alternative of the operand, moved
      obtain ⟨g', m, rfl⟩ := hrt
      rw [run_rtrim_eq] at h
      split at h
      · cases h
      · split at h
        · cases h
        · rename_i o1 st1 hr
          have hfin : rtrimFinish cfg m o1 = o ∧ st1 = st' := by
            injection h with h; injection h with a b; exact ⟨a, b⟩
          obtain ⟨hfo, rfl⟩ := hfin
          obtain ⟨⟨r1, r2⟩, r3⟩ := hf.rtrim
          obtain ⟨h1, h2, h3, h4⟩ := ih g' ctx _ st o1 st1 r3 (GOK_rtrim hg) hcs hr
          have herr := h3.1 r1
          have hone : m = .spacesNl ∨ o1.res.alts.length ≤ 1 := r2.elim .inl (fun ho => .inr (h3.2 ho))
          subst hfo
          refine ⟨?_, rtrimFinish_noEOF cfg m o1 h2, OutShape_rtrim cfg g' m o1 h3, h4⟩
          intro c' x hdom hd
          cases hd with
          | rtrim hd' hok =>
            rename_i n
            cases he : o1.err with
            | some e =>
              have hcp : (rtrimFinish cfg m o1).cp = o1.cp := by unfold rtrimFinish; rw [he]
              have hn := h1 c' n (by intro k hk; exact hdom k (by rw [hcp]; exact hk)) hd'
              have hnn : o1.res.isNil = false := by
                cases hh : o1.res.isNil with
                | false => rfl
                | true => rw [alts_nil_of_isNil hh] at hn; cases hn
              have := herr hnn
              rw [he] at this; cases this
            | none =>
              cases hs : (setRposRes cfg.file m o1.res).2 with
              | none =>
                have hcp : (rtrimFinish cfg m o1).cp = o1.cp := by
                  unfold rtrimFinish; rw [he]; simp only [hs]
                have hn := h1 c' n (by intro k hk; exact hdom k (by rw [hcp]; exact hk)) hd'
                exact (rtrimFinish_complete cfg m o1 herr hone n hn hok).1
              | some w =>
                -- a rejected run: only with a rejecting mode over a token, whose derivations do not depend on
                -- the counters (the answer's curtailing set is empty here)
                exfalso
                cases r2 with
                | inl h5 => subst h5; rw [setRposRes_snd_spacesNl] at hs; cases hs
                | inr h5 =>
                  have hn := h1 (fun k => ctx.get k) n (by intro k _; exact Nat.le_refl _)
                    (derivesCW_oneAlt cfg g' h5 hd')
                  have hys := setRposRes_snd_one cfg.file m o1.res n hn (h3.2 h5)
                  rw [hs] at hys
                  have : movedErr cfg m n = some w := by unfold movedErr; exact hys.symm
                  rw [hok] at this; cases this
    unfold run at h
    split at h
    · cases h
    · cases g with
      | term t =>
        simp only at h
        have hT : ∀ pos n, t.parse cfg.params cfg.file pos = .node n → n.token ≠ eofTok := by
          simpa [FragW, G.All, FragLocalW] using hf
        split at h
        · rename_i n hp
          cases h
          refine ⟨?_, ?_, ⟨fun _ _ => rfl, fun _ => by simp [Res.alts]⟩, hcs⟩
          · intro c' x _ hd
            cases hd with
            | term hp' => rw [hp] at hp'; cases hp'; simp [Res.alts]
          · intro x hx
            simp only [Res.alts, List.mem_singleton] at hx
            subst hx; exact hT _ _ hp
        · rename_i e hp
          cases h
          refine ⟨?_, NoEOF_nil, OutShape_nil _ _ _ _, CacheC_of_eq hcs (logEv_fields st cfg _).1⟩
          intro c' x _ hd
          cases hd with
          | term hp' => rw [hp] at hp'; cases hp'
        · rename_i site hp
          cases h
          refine ⟨?_, NoEOF_nil, OutShape_nil _ _ _ _, hcs⟩
          intro c' x _ hd
          cases hd with
          | term hp' => rw [hp] at hp'; cases hp'
      | empty =>
        simp only at h
        cases h
        refine ⟨?_, ?_, ⟨fun _ _ => rfl, fun _ => by simp [Res.alts]⟩, hcs⟩
        · intro c' x _ hd
          cases hd with
          | empty => simp [Res.alts]
        · intro x hx
          simp only [Res.alts, List.mem_singleton] at hx
          subst hx; simp [Node.token, eofTok]
      | eof => have := G.All_self hf; simp [FragLocalW] at this
      | ref k =>
        simp only at h
        split at h
        · rename_i g' hk
          obtain ⟨e1, e2⟩ := henv g' (List.mem_of_getElem? hk)
          obtain ⟨h1, h2, h3, h4⟩ := ih g' ctx pos st o st' e1 e2 hcs h
          refine ⟨?_, h2, ⟨?_, fun h5 => by simp [OneAlt] at h5⟩, h4⟩
          · intro c' x hdom hd
            cases hd with
            | ref hk' hd' => rw [hk] at hk'; cases hk'; exact h1 c' x hdom hd'
          · intro he
            simp only [ErrFree] at he
            obtain ⟨g2, hk2, ht⟩ := he
            rw [hk] at hk2; cases hk2
            exact h3.1 (ErrFree_of_top cfg g' ht)
        · rename_i hk
          cases h
          refine ⟨?_, NoEOF_nil, OutShape_nil _ _ _ _, hcs⟩
          intro c' x _ hd
          cases hd with
          | ref hk' hd' => rw [hk'] at hk; cases hk
      | memo idx body =>
        simp only at h
        have hg2 : body = bodyOf idx ∧ GOK bodyOf body := by simpa [GOK, G.All, LocalOK] using hg
        have hf2 : FragW cfg body := by
          have : FragLocalW cfg (.memo idx body) ∧ body.All (FragLocalW cfg) := by simpa [FragW, G.All] using hf
          exact this.2
        cases hc : cacheGet st.cache idx pos ctx with
        | some e =>
          simp only [hc] at h
          cases h
          obtain ⟨hm, hi, hp⟩ := cacheGet_some hc
          have hE := hcs e hm
          refine ⟨?_, hE.noEOF, ⟨?_, fun h5 => by simp [OneAlt] at h5⟩, CacheC_of_eq hcs (logEv_fields st cfg _).1⟩
          · intro c' x hdom hd
            simp only at hdom
            refine hE.complete c' x ?_ (by rw [hi, hp, ← hg2.1]; exact hd)
            intro kv hkv
            have h1 := cacheGet_ctx hc kv hkv
            have h2 := hdom kv.1 (hE.keys kv hkv)
            omega
          · intro he
            simp only [ErrFree] at he
            exact hE.shape (by rw [hi, ← hg2.1]; exact he)
        | none =>
          simp only [hc] at h
          by_cases hcur : ctx.get idx > remaining cfg.file pos + Facts.curtailSlack
          · simp only [hcur, ↓reduceIte] at h
            cases h
            refine ⟨?_, NoEOF_nil, OutShape_nil _ _ _ _, CacheC_of_eq hcs (logEv_fields st cfg _).1⟩
            intro c' x hdom hd
            have h1 := hdom idx (by simp)
            cases hd with
            | memo hle _ => omega
          · simp only [hcur, ↓reduceIte] at h
            split at h
            · cases h
            · rename_i o2 st2 hr
              cases h
              have hih := fun hc1 => ih _ _ _ _ _ _ hf2 hg2.2 hc1 hr
              obtain ⟨h1, h2, h3, h4⟩ := hih (CacheC_of_eq hcs (logEv_fields _ cfg _).1)
              have hOut : OutC cfg (.memo idx body) ctx pos o := by
                intro c' x hdom hd
                cases hd with
                | memo hle hd' =>
                  refine h1 (bump c' idx) x ?_ hd'
                  intro k hk
                  by_cases hki : k = idx
                  · subst hki
                    rw [Ctx.get_inc_self]
                    have := hdom k hk
                    simp only [bump, ↓reduceIte]; omega
                  · rw [Ctx.get_inc_other _ _ _ hki]
                    have := hdom k hk
                    simp only [bump, hki, ↓reduceIte]; exact this
              have hSh : ErrFree cfg body → o.res.isNil = false → o.err = none := h3.1
              refine ⟨hOut, h2, ⟨fun he => hSh (by simpa [ErrFree] using he), fun h5 => by simp [OneAlt] at h5⟩, ?_⟩
              intro e he
              cases mem_cacheSave he with
              | inl h5 =>
                subst h5
                refine ⟨?_, ?_, h2, ?_⟩
                · intro kv hkv
                  exact (mem_ctx_filter.mp hkv).2
                · intro c' x hdom hd
                  simp only at hdom hd ⊢
                  rw [← hg2.1] at hd
                  exact hOut c' x (get_le_of_filter hdom) hd
                · simp only
                  rw [← hg2.1]; exact hSh
              | inr h5 => exact h4 e h5
      | any gs =>
        simp only at h
        have hgs : ∀ g' ∈ gs, FragW cfg g' ∧ GOK bodyOf g' := by
          have a1 : FragLocalW cfg (.any gs) ∧ AllList (FragLocalW cfg) gs := by simpa [FragW, G.All] using hf
          have a2 : LocalOK bodyOf (.any gs) ∧ AllList (LocalOK bodyOf) gs := by simpa [GOK, G.All] using hg
          exact fun g' hg' => ⟨AllList_mem a1.2 g' hg', AllList_mem a2.2 g' hg'⟩
        split at h
        · cases h
        · rename_i a st1 hl
          obtain ⟨a1, a2, _, _, a5⟩ := anyLoop_completeW cfg bodyOf (run cfg fuel) ih ctx pos gs hgs {} st a st1 hcs NoEOF_nil hl
          have hOut : ∀ (c' : Nat → Nat) (x : Node), (∀ k ∈ a.cp, ctx.get k ≤ c' k) → DerivesCW cfg c' (.any gs) pos x →
              x ∈ a.res.alts := by
            intro c' x hdom hd
            cases hd with
            | any hm hd' => exact a5 _ hm c' x hdom hd'
          split at h
          · rename_i hnil
            cases h
            refine ⟨?_, NoEOF_nil, OutShape_nil _ _ _ _, a1⟩
            intro c' x hdom hd
            have := hOut c' x hdom hd
            rw [alts_nil_of_isNil hnil] at this; cases this
          · cases h
            exact ⟨hOut, a2, ⟨fun _ _ => rfl, fun h5 => by simp [OneAlt] at h5⟩,
              CacheC_of_eq a1 (setError_ctxErr st1 a.err).2.1⟩
      | optional g' =>
        simp only at h
        have hf' : FragW cfg g' := by
          have : FragLocalW cfg (.optional g') ∧ g'.All (FragLocalW cfg) := by simpa [FragW, G.All] using hf
          exact this.2
        have hg' : GOK bodyOf g' := by
          have : LocalOK bodyOf (.optional g') ∧ g'.All (LocalOK bodyOf) := by simpa [GOK, G.All] using hg
          exact this.2
        split at h
        · cases h
        · rename_i o1 st1 hr
          cases h
          obtain ⟨h1, h2, _, h4⟩ := ih g' ctx pos st o1 _ hf' hg' hcs hr
          refine ⟨?_, ?_, ⟨fun h5 => by simp [ErrFree] at h5, fun h5 => by simp [OneAlt] at h5⟩, h4⟩
          · intro c' x hdom hd
            cases hd with
            | optSome hd' => exact mem_appendNode_left _ _ _ (h1 c' x hdom hd')
            | optNone => exact mem_appendNode_right _ _ _ (by simp [Res.alts])
          · refine NoEOF_append h2 ?_
            intro x hx
            simp only [Res.alts, List.mem_singleton] at hx
            subst hx; simp [Node.token, eofTok]
      | choice gs => have := G.All_self hf; simp [FragLocalW] at this
      | name g' nm => have := G.All_self hf; simp [FragLocalW] at this
      | single g' => have := G.All_self hf; simp [FragLocalW] at this
      | suppress g' => have := G.All_self hf; simp [FragLocalW] at this
      | ltrim g' m => exact absurd ⟨g', m, rfl⟩ hlt
      | rtrim g' m => exact absurd ⟨g', m, rfl⟩ hrt
      | seq k gs o => simp [G.shape] at hsh
      | many g' ae o => simp [G.shape] at hsh
      | sepBy v s ae o => simp [G.shape] at hsh

end PV.C1T
