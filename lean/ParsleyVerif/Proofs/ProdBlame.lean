/-
  "A productive parser fails without an error only through the curtailment of an active parser of smaller
  rank" — the second half of the productivity argument of C06 (the first: Proofs/ProdRun.lean), needed for
  exactness: by induction on fuel over all cases of `run`, free of positions and of the ghost log.

  For a parser that is productive below rank `r` (`Prod.pr`), without SuppressError / Any, Choice, SeqTry
  without parsers (`LocLow`), whose Memoize operands are productive below their own rank (`MemoPr`): a call
  that returns NEITHER a result NOR an error is blamed (`Blame`) on a parser of its set of curtailing
  parsers that is active at the call position and has rank below `r`.  The same for cached outcomes, with
  the counters they were stored with.
-/
import ParsleyVerif.Proofs.ProdBasics
namespace PV
namespace Prod
open PV.Text

/-- the operand of every Memoize is productive below the rank of its index -/
def MemoPr (c : ProdCert) : G → Prop
  | .memo i b => pr c (c.prank i) b = true
  | _ => True

structure EntB (c : ProdCert) (e : CacheEntry) : Prop where
  blame : e.res.isNil = true → e.err = none → Blame c e.ctx e.cp (c.prank e.idx)
  ne : NE e.res

def CacheBlame (c : ProdCert) (st : St) : Prop := ∀ e ∈ st.cache, EntB c e

structure BPost (c : ProdCert) (g : G) (ctx : Ctx) (o : Out) (st' : St) : Prop where
  cb : CacheBlame c st'
  blame : ∀ r, pr c r g = true → o.res.isNil = true → o.err = none → Blame c ctx o.cp r
  ne : NE o.res

structure EnvBlame (c : ProdCert) (cfg : Cfg) : Prop where
  core : ∀ g ∈ cfg.env, g.Core (TermGood cfg)
  low : ∀ g ∈ cfg.env, g.All (LocLow cfg)
  mp : ∀ g ∈ cfg.env, g.All (MemoPr c)
  rules : ∀ k g, cfg.env[k]? = some g → pr c (c.rrank k) g = true

def RunBlameOK (c : ProdCert) (cfg : Cfg) (r : RunFn) : Prop :=
  ∀ g ctx pos st o st', g.Core (TermGood cfg) → g.All (LocLow cfg) → g.All (MemoPr c) → CacheBlame c st →
    r g ctx pos st = some (o, st') → BPost c g ctx o st'

theorem CacheBlame_of_eq {c : ProdCert} {st st' : St} (h : CacheBlame c st) (e : st'.cache = st.cache) :
    CacheBlame c st' := by
  unfold CacheBlame; rw [e]; exact h

/-- a new error always lands in `err` or `nf`, or `err` already holds one -/
theorem altErr_some_ne (pos : Nat) (a : AltSt) (e2 : Err) :
    (altErr pos a (some e2)).err ≠ none ∨ (altErr pos a (some e2)).nf ≠ none := by
  cases ha : a.err with
  | none =>
    by_cases h2 : e2.pos > pos
    · left; simp [altErr, ha, h2]
    · cases hk : e2.kind.isNotFound with
      | false => left; simp [altErr, ha, h2, hk]
      | true => right; simp [altErr, ha, h2, hk]
  | some c =>
    left
    by_cases h1 : e2.pos ≥ c.pos
    · by_cases h2 : e2.pos > pos
      · simp [altErr, ha, h1, h2]
      · cases hk : e2.kind.isNotFound with
        | false => simp [altErr, ha, h1, h2, hk]
        | true => simp [altErr, ha, h1, h2, hk]
    · simp [altErr, ha, h1]

theorem altErr_none (pos : Nat) (a : AltSt) : altErr pos a none = a := rfl

/-- if the accumulator holds no error after an alternative, it held none before and the alternative
    returned none -/
theorem altErr_none_inv {pos : Nat} {a : AltSt} {e : Option Err}
    (h1 : (altErr pos a e).err = none) (h2 : (altErr pos a e).nf = none) :
    e = none ∧ a.err = none ∧ a.nf = none := by
  cases e with
  | none => rw [altErr_none] at h1 h2; exact ⟨rfl, h1, h2⟩
  | some e2 =>
    cases altErr_some_ne pos a e2 with
    | inl h => exact absurd h1 h
    | inr h => exact absurd h2 h

/-! ### the Sequence family -/

def BJ (c : ProdCert) (sh : SeqShape) (ctx0 : Ctx) (fr : Frame) (ss : SeqSt) (st : St) : Prop :=
  CacheBlame c st ∧ NE ss.result ∧ (fr.ctx = [] ∨ (fr.ctx = ctx0 ∧ fr.merge = true)) ∧
  (∀ i, i < fr.depth → sh.lookup i ≠ none)

def BE (c : ProdCert) (ss : SeqSt) (st : St) (ss' : SeqSt) (st' : St) : Prop :=
  (CacheBlame c st → CacheBlame c st') ∧ (NE ss.result → NE ss'.result) ∧ (∀ j ∈ ss.cp, j ∈ ss'.cp) ∧
  (ss.result.isNil = false → ss'.result.isNil = false) ∧ (ss.err ≠ none → ss'.err ≠ none)

def BQ (c : ProdCert) (g : G) (ctx0 : Ctx) (ss : SeqSt) (_st : St) : Prop :=
  ∀ r, pr c r g = true → ss.result.isNil = false ∨ ss.err ≠ none ∨ Blame c ctx0 ss.cp r

theorem BE_trans {c : ProdCert} (a : SeqSt) (b : St) (c' : SeqSt) (d : St) (e : SeqSt) (f : St)
    (h1 : BE c a b c' d) (h2 : BE c c' d e f) : BE c a b e f :=
  ⟨fun h => h2.1 (h1.1 h), fun h => h2.2.1 (h1.2.1 h), fun j hj => h2.2.2.1 j (h1.2.2.1 j hj),
    fun h => h2.2.2.2.1 (h1.2.2.2.1 h), fun h => h2.2.2.2.2 (h1.2.2.2.2 h)⟩

theorem BJ_stable {c : ProdCert} {sh : SeqShape} {ctx0 : Ctx} (fr : Frame) (ss : SeqSt) (st : St) (ss' : SeqSt) (st' : St)
    (hJ : BJ c sh ctx0 fr ss st) (hE : BE c ss st ss' st') : BJ c sh ctx0 fr ss' st' :=
  ⟨hE.1 hJ.1, hE.2.1 hJ.2.1, hJ.2.2.1, hJ.2.2.2⟩

theorem pickErr_ne_left {a b : Option Err} (h : a ≠ none) : pickErr a b ≠ none := by
  cases a with
  | none => exact absurd rfl h
  | some x =>
    cases b with
    | none => simp [pickErr]
    | some y => simp only [pickErr]; split <;> simp

theorem pickErr_ne_right {a b : Option Err} (h : b ≠ none) : pickErr a b ≠ none := by
  cases b with
  | none => exact absurd rfl h
  | some y =>
    cases a with
    | none => simp [pickErr]
    | some x => simp only [pickErr]; split <;> simp

theorem seqAfter_cp_left' (m : Bool) (ss : SeqSt) (o : Out) : ∀ k ∈ ss.cp, k ∈ (seqAfter m ss o).cp := by
  intro k hk
  unfold seqAfter
  split
  · exact mem_cpUnion_left _ _ k hk
  · exact hk

theorem seqAfter_cp_right' (ss : SeqSt) (o : Out) : ∀ k ∈ o.cp, k ∈ (seqAfter true ss o).cp := by
  intro k hk
  unfold seqAfter
  simp only [↓reduceIte]
  exact mem_cpUnion_right _ _ k hk

section seq
variable {c : ProdCert} {cfg : Cfg} {r : RunFn}

theorem seqParse_blame (hr : RunBlameOK c cfg r) (g : G) (sh : SeqShape)
    (hg : g.Core (TermGood cfg)) (hgl : g.All (LocLow cfg)) (hgm : g.All (MemoPr c)) (hs : g.shape = some sh)
    (ctx0 : Ctx) :
    ∀ (fuel : Nat) (fr : Frame) ss st b ss' st', BJ c sh ctx0 fr ss st → fr.depth = fr.nodes.length →
      seqParse r sh fuel fr.depth fr.nodes fr.ctx fr.pos fr.merge ss st = some (b, ss', st') →
      BE c ss st ss' st' ∧ BQ c g ctx0 ss' st' := by
  have hshape := shape_low hs (G.All_self hgl)
  refine seqParse_est r sh (BJ c sh ctx0) (BE c) (BQ c g ctx0) BE_trans BJ_stable ?_ ?_
  · intro fr ss st g' o st1 hJ hd hl hrun
    obtain ⟨j1, j2, j3, j4⟩ := hJ
    have hp := hr g' fr.ctx fr.pos st.regCall o st1 (shape_lookup_core hg hs fr.depth g' hl)
      (shape_lookup_all hgl hs fr.depth g' hl) (shape_lookup_all hgm hs fr.depth g' hl)
      (CacheBlame_of_eq j1 rfl) hrun
    have hE1 : BE c ss st (seqAfter fr.merge ss o) st1 :=
      ⟨fun _ => hp.cb, fun h => by rw [seqAfter_result]; exact h, seqAfter_cp_left' _ _ _,
        fun h => by rw [seqAfter_result]; exact h, fun h => by rw [seqAfter_err]; exact pickErr_ne_left h⟩
    refine ⟨fun hnn => ⟨hE1, hp.ne hnn, ?_⟩, ?_, ?_⟩
    · intro n _
      refine ⟨hp.cb, by rw [seqAfter_result]; exact j2, ?_, ?_⟩
      · simp only [Frame.next]
        by_cases hc : n.rpos > fr.pos
        · left; simp [hc]
        · simp only [hc, ↓reduceIte]
          cases j3 with
          | inl h => exact .inl h
          | inr h => exact .inr ⟨h.1, by simp [h.2]⟩
      · simp only [Frame.next]
        intro i hi
        by_cases hid : i < fr.depth
        · exact j4 i hid
        · have : i = fr.depth := by omega
          subst this
          rw [hl]; exact fun hc => by cases hc
    · intro _ _
      have e1 : (seqEmit sh fr (seqAfter fr.merge ss o)).result.isNil = false := by
        simp only [seqEmit]; exact appendNode_one_not_nil _ _
      refine ⟨⟨fun _ => hp.cb, fun h => ?_, fun j hj => seqAfter_cp_left' _ _ _ j hj, fun _ => e1,
        fun h => ?_⟩, fun _ _ => .inl e1⟩
      · simp only [seqEmit]
        exact NE_appendNode (by rw [seqAfter_result]; exact h) (NE_one _)
      · show (seqAfter fr.merge ss o).err ≠ none
        rw [seqAfter_err]; exact pickErr_ne_left h
    · intro hn hlc
      refine ⟨hE1, ?_⟩
      intro r' hpr
      have hpr' := prShape hs hpr fr.depth g' hl hlc
      by_cases he : o.err = none
      · have hb := hp.blame r' hpr' hn he
        cases j3 with
        | inl h => rw [h] at hb; exact absurd hb Blame.not_nil
        | inr h =>
          rw [h.1] at hb
          refine .inr (.inr (hb.mono_cp ?_))
          rw [h.2]
          exact seqAfter_cp_right' ss o
      · exact .inr (.inl (by rw [seqAfter_err]; exact pickErr_ne_right he))
  · intro fr ss st hJ hd hl
    obtain ⟨j1, j2, j3, j4⟩ := hJ
    have e1 : (seqEmit sh fr (seqAfter fr.merge ss ⟨.nil, [], none⟩)).result.isNil = false := by
      simp only [seqEmit]; exact appendNode_one_not_nil _ _
    refine ⟨hshape.2 fr.depth hl j4, ⟨id, fun h => ?_, fun j hj => seqAfter_cp_left' _ _ _ j hj, fun _ => e1,
      fun h => ?_⟩, fun _ _ => .inl e1⟩
    · simp only [seqEmit]
      exact NE_appendNode (by rw [seqAfter_result]; exact h) (NE_one _)
    · show (seqAfter fr.merge ss ⟨.nil, [], none⟩).err ≠ none
      rw [seqAfter_err]; exact pickErr_ne_left h

end seq

/-- the end of a Sequence -/
theorem seqFinish_blame {c : ProdCert} {g : G} {sh : SeqShape} {ctx : Ctx} {pos : Nat} {st st1 : St} {ss : SeqSt}
    (hcb : CacheBlame c st) (h : BE c {} st ss st1 ∧ BQ c g ctx ss st1) :
    BPost c g ctx (seqFinish sh pos ss st1).1 (seqFinish sh pos ss st1).2 := by
  obtain ⟨hE, hQ⟩ := h
  have hne := hE.2.1 NE_nil
  by_cases hnil : ss.result.isNil = true
  · have e1 : (seqFinish sh pos ss st1).2 = st1 := by simp [seqFinish, hnil]
    have e2 : (seqFinish sh pos ss st1).1.res = .nil := by simp [seqFinish, hnil]
    have e3 : (seqFinish sh pos ss st1).1.cp = ss.cp := by simp [seqFinish, hnil]
    rw [e1]
    refine ⟨hE.1 hcb, ?_, by rw [e2]; exact NE_nil⟩
    intro r hpr _ he
    rw [e3]
    rcases hQ r hpr with h1 | h1 | h1
    · rw [hnil] at h1; cases h1
    · exfalso
      apply h1
      simp only [seqFinish, hnil, ↓reduceIte] at he
      cases hse : ss.err with
      | none => rfl
      | some e =>
        exfalso
        cases hn : sh.name with
        | none => simp [hse, hn] at he
        | some nm =>
          simp only [hse, hn] at he
          split at he <;> cases he
    · exact h1
  · have hnil' : ss.result.isNil = false := by simpa using hnil
    have e1 : (seqFinish sh pos ss st1).2 = st1.setError ss.err := by simp [seqFinish, hnil']
    have e2 : (seqFinish sh pos ss st1).1.res = ss.result := by simp [seqFinish, hnil']
    rw [e1]
    refine ⟨CacheBlame_of_eq (hE.1 hcb) (setError_ctxErr st1 ss.err).2.1, ?_, by rw [e2]; exact hne⟩
    intro r _ hn
    rw [e2, hnil'] at hn; cases hn

/-! ### the induction -/

theorem run_blame (c : ProdCert) (cfg : Cfg) (henv : EnvBlame c cfg) : ∀ fuel, RunBlameOK c cfg (run cfg fuel) := by
  intro fuel
  induction fuel with
  | zero => intro g ctx pos st o st' _ _ _ _ h; simp [run] at h
  | succ fuel ih =>
    intro g ctx pos st o st' hg hgl hgm hcb h
    have hloc : LocLow cfg g := G.All_self hgl
    cases hsh : g.shape with
    | some sh =>
      rw [run_seqfam cfg fuel g sh ctx pos st hsh] at h
      split at h
      · cases h
      · unfold runSeq at h
        split at h
        · cases h
        · rename_i b ss st1 hsp
          cases h
          exact seqFinish_blame hcb (seqParse_blame ih g sh hg hgl hgm hsh ctx fuel ⟨0, [], ctx, pos, true⟩ {} st b ss st1
            ⟨hcb, NE_nil, .inr ⟨rfl, rfl⟩, fun i hi => by simp at hi⟩ rfl hsp)
    | none =>
    unfold run at h
    split at h
    · cases h
    · cases g with
      | term t =>
        simp only at h
        split at h
        · cases h
          exact ⟨hcb, (by intro _ _ hn; cases hn), NE_one _⟩
        · cases h
          exact ⟨CacheBlame_of_eq hcb (logEv_fields st cfg _).1, (by intro _ _ _ he; cases he), NE_nil⟩
        · cases h
          exact ⟨hcb, (by intro _ _ _ he; cases he), NE_nil⟩
      | empty =>
        simp only at h
        cases h
        exact ⟨hcb, (by intro _ _ hn; cases hn), NE_one _⟩
      | eof =>
        simp only at h
        split at h
        · cases h
          exact ⟨hcb, (by intro _ _ hn; cases hn), NE_one _⟩
        · cases h
          exact ⟨CacheBlame_of_eq hcb (logEv_fields st cfg _).1, (by intro _ _ _ he; cases he), NE_nil⟩
      | ref k =>
        simp only at h
        split at h
        · rename_i g' hk
          have hm := List.mem_of_getElem? hk
          have hp := ih g' ctx pos st o st' (henv.core g' hm) (henv.low g' hm) (henv.mp g' hm) hcb h
          refine ⟨hp.cb, ?_, hp.ne⟩
          intro r hpr hn he
          simp only [pr, decide_eq_true_eq] at hpr
          exact (hp.blame _ (henv.rules k g' hk) hn he).mono_r hpr
        · cases h
          exact ⟨hcb, (by intro _ _ _ he; cases he), NE_nil⟩
      | memo idx body =>
        simp only at h
        have hbody : body.Core (TermGood cfg) := by simpa [G.Core] using hg
        have hbodyL : body.All (LocLow cfg) := by simp only [G.All] at hgl; exact hgl.2
        have hbodyM : body.All (MemoPr c) := by simp only [G.All] at hgm; exact hgm.2
        have hprb : pr c (c.prank idx) body = true := by simp only [G.All] at hgm; exact hgm.1
        cases hc : cacheGet st.cache idx pos ctx with
        | some e =>
          simp only [hc] at h
          cases h
          obtain ⟨hm, hi, _⟩ := cacheGet_some hc
          have hE := hcb e hm
          refine ⟨CacheBlame_of_eq hcb (logEv_fields st cfg _).1, ?_, hE.ne⟩
          intro r hpr hn he
          simp only [pr, Bool.and_eq_true, decide_eq_true_eq] at hpr
          obtain ⟨j, hj, h2, h3⟩ := hE.blame hn he
          exact ⟨j, hj, cacheGet_live hc j h2, by rw [hi] at h3; omega⟩
        | none =>
          simp only [hc] at h
          by_cases hcur : ctx.get idx > remaining cfg.file pos + Facts.curtailSlack
          · simp only [hcur, ↓reduceIte] at h
            cases h
            refine ⟨CacheBlame_of_eq hcb (logEv_fields st cfg _).1, ?_, NE_nil⟩
            intro r hpr _ _
            simp only [pr, Bool.and_eq_true, decide_eq_true_eq] at hpr
            exact ⟨idx, List.mem_singleton.mpr rfl, by omega, hpr.1⟩
          · simp only [hcur, ↓reduceIte] at h
            split at h
            · cases h
            · rename_i o2 st2 hr
              cases h
              have hcb1 : CacheBlame c (({ st with active := (idx, pos) :: st.active } : St).logEv cfg
                  (.body idx pos ((st.active.filter (fun a : Nat × Nat => a.1 == idx && a.2 == pos)).length + 1))) :=
                CacheBlame_of_eq hcb (logEv_fields _ cfg _).1
              have hp := ih body (ctx.inc idx) pos _ o st2 hbody hbodyL hbodyM hcb1 hr
              have hblame : ∀ r, c.prank idx ≤ r → o.res.isNil = true → o.err = none →
                  ∃ j, j ∈ o.cp ∧ 1 ≤ ctx.get j ∧ c.prank j < r := by
                intro r hr hn he
                obtain ⟨j, hj, h2, h3⟩ := hp.blame _ hprb hn he
                have hji : j ≠ idx := by intro hc; subst hc; omega
                rw [Ctx.get_inc_other _ _ _ hji] at h2
                exact ⟨j, hj, h2, by omega⟩
              refine ⟨?_, ?_, hp.ne⟩
              · intro x hx
                cases mem_cacheSave hx with
                | inl h1 =>
                  subst h1
                  refine ⟨?_, hp.ne⟩
                  intro hn he
                  obtain ⟨j, hj, h3, h4⟩ := hblame (c.prank idx) (Nat.le_refl _) hn he
                  exact ⟨j, hj, by show 1 ≤ (ctx.filter o.cp).get j; rw [get_filter hj]; exact h3, h4⟩
                | inr h1 => exact hp.cb x h1
              · intro r hpr hn he
                simp only [pr, Bool.and_eq_true, decide_eq_true_eq] at hpr
                exact hblame r (by omega) hn he
      | any gs =>
        simp only at h
        have hgs : CoreList (TermGood cfg) gs := by simpa [G.Core] using hg
        have hgsL : AllList (LocLow cfg) gs := by simp only [G.All] at hgl; exact hgl.2
        have hgsM : AllList (MemoPr c) gs := by simp only [G.All] at hgm; exact hgm.2
        split at h
        · cases h
        · rename_i a st1 hl
          have hA := anyLoop_ind2 (run cfg fuel) ctx pos
            (fun rest a s => (∃ pre, gs = pre ++ rest) ∧ CacheBlame c s ∧ NE a.res ∧
              ∀ r, prAny c r gs = true → prAny c r rest = true ∨
                (a.res.isNil = true → a.err = none → a.nf = none → Blame c ctx a.cp r))
            (by
              intro g' rest a s o' s' hA hr
              obtain ⟨⟨pre, hpre⟩, a1, a2, a3⟩ := hA
              have hmem : g' ∈ gs := by rw [hpre]; simp
              have hp := ih g' ctx pos s.regCall o' s' (CoreList_mem hgs g' hmem) (AllList_mem hgsL g' hmem)
                (AllList_mem hgsM g' hmem) (CacheBlame_of_eq a1 rfl) hr
              obtain ⟨f1, f2, _, _⟩ := altErr_fields pos
                { a with cp := cpUnion a.cp o'.cp, res := appendNode a.res o'.res } o'.err
              refine ⟨⟨pre ++ [g'], by rw [hpre]; simp⟩, hp.cb, by rw [f2]; exact NE_appendNode a2 hp.ne, ?_⟩
              intro r hprgs
              rw [f1, f2]
              have hnil : (appendNode a.res o'.res).isNil = true → a.res.isNil = true ∧ o'.res.isNil = true := by
                intro hn; rw [appendNode_isNil] at hn; simpa using hn
              cases a3 r hprgs with
              | inl hrest =>
                simp only [prAny, Bool.or_eq_true] at hrest
                cases hrest with
                | inl hpr =>
                  refine .inr (fun hn he hnf => ?_)
                  obtain ⟨q1, _, _⟩ := altErr_none_inv he hnf
                  exact (hp.blame r hpr (hnil hn).2 q1).mono_cp (mem_cpUnion_right _ _)
                | inr hrest => exact .inl hrest
              | inr hbl =>
                refine .inr (fun hn he hnf => ?_)
                obtain ⟨_, q2, q3⟩ := altErr_none_inv he hnf
                exact (hbl (hnil hn).1 q2 q3).mono_cp (mem_cpUnion_left _ _))
            gs {} st a st1 ⟨⟨[], rfl⟩, hcb, NE_nil, fun r hr => .inl hr⟩ hl
          obtain ⟨_, a1, a2, a3⟩ := hA
          split at h
          · rename_i hnil
            cases h
            refine ⟨a1, ?_, NE_nil⟩
            intro r hpr _ he
            simp only [pr] at hpr
            cases a3 r hpr with
            | inl h1 => simp [prAny] at h1
            | inr h1 =>
              cases hae : a.err with
              | some e => simp [hae] at he
              | none =>
                simp only [hae] at he
                exact h1 hnil hae he
          · rename_i hnil
            cases h
            refine ⟨CacheBlame_of_eq a1 (setError_ctxErr st1 a.err).2.1, ?_, a2⟩
            intro r _ hn
            exact absurd hn hnil
      | choice gs =>
        simp only at h
        have hgs : CoreList (TermGood cfg) gs := by simpa [G.Core] using hg
        have hgsL : AllList (LocLow cfg) gs := by simp only [G.All] at hgl; exact hgl.2
        have hgsM : AllList (MemoPr c) gs := by simp only [G.All] at hgm; exact hgm.2
        have hF := choiceLoop_ind2 (run cfg fuel) ctx pos
          (fun rest a s => (∃ pre, gs = pre ++ rest) ∧ CacheBlame c s ∧
            ∀ r, prAny c r gs = true → prAny c r rest = true ∨
              (a.err = none → a.nf = none → Blame c ctx a.cp r))
          (fun out a s => CacheBlame c s ∧
            (out = none → ∀ r, prAny c r gs = true → a.err = none → a.nf = none → Blame c ctx a.cp r) ∧
            ∀ o', out = some o' → o'.res.isNil = false ∧ NE o'.res)
          (by
            intro a s hA
            obtain ⟨_, a1, a3⟩ := hA
            refine ⟨a1, fun _ r hr => ?_, (by intro o' ho; cases ho)⟩
            cases a3 r hr with
            | inl h1 => simp [prAny] at h1
            | inr h1 => exact h1)
          (by
            intro g' rest a s o' s' hA hr
            obtain ⟨⟨pre, hpre⟩, a1, a3⟩ := hA
            have hmem : g' ∈ gs := by rw [hpre]; simp
            have hp := ih g' ctx pos s.regCall o' s' (CoreList_mem hgs g' hmem) (AllList_mem hgsL g' hmem)
              (AllList_mem hgsM g' hmem) (CacheBlame_of_eq a1 rfl) hr
            obtain ⟨f1, _, _, _⟩ := altErr_fields pos { a with cp := cpUnion a.cp o'.cp } o'.err
            refine ⟨fun hnn => ⟨CacheBlame_of_eq hp.cb (setError_ctxErr s' _).2.1, (by intro hc; cases hc), ?_⟩,
              fun hn => ⟨⟨pre ++ [g'], by rw [hpre]; simp⟩, hp.cb, ?_⟩⟩
            · intro o2 ho2
              cases ho2
              exact ⟨hnn, hp.ne⟩
            · intro r hprgs
              rw [f1]
              cases a3 r hprgs with
              | inl hrest =>
                simp only [prAny, Bool.or_eq_true] at hrest
                cases hrest with
                | inl hpr =>
                  refine .inr (fun he hnf => ?_)
                  obtain ⟨q1, _, _⟩ := altErr_none_inv he hnf
                  exact (hp.blame r hpr hn q1).mono_cp (mem_cpUnion_right _ _)
                | inr hrest => exact .inl hrest
              | inr hbl =>
                refine .inr (fun he hnf => ?_)
                obtain ⟨_, q2, q3⟩ := altErr_none_inv he hnf
                exact (hbl q2 q3).mono_cp (mem_cpUnion_left _ _))
        have hinit : (∃ pre, gs = pre ++ gs) ∧ CacheBlame c st ∧
            ∀ r, prAny c r gs = true → prAny c r gs = true ∨
              (({} : AltSt).err = none → ({} : AltSt).nf = none → Blame c ctx ({} : AltSt).cp r) :=
          ⟨⟨[], rfl⟩, hcb, fun r hr => .inl hr⟩
        split at h
        · cases h
        · rename_i o1 a st1 hl
          cases h
          obtain ⟨a1, _, a4⟩ := hF gs {} st (some o) a st' hinit hl
          obtain ⟨b2, b3⟩ := a4 o rfl
          refine ⟨a1, ?_, b3⟩
          intro r _ hn
          rw [b2] at hn; cases hn
        · rename_i a st1 hl
          cases h
          obtain ⟨a1, a3, _⟩ := hF gs {} st none a st' hinit hl
          refine ⟨a1, ?_, NE_nil⟩
          intro r hpr _ he
          simp only [pr] at hpr
          cases hae : a.err with
          | some e => simp [hae] at he
          | none =>
            simp only [hae] at he
            exact a3 rfl r hpr hae he
      | optional g' =>
        simp only at h
        have hg' : g'.Core (TermGood cfg) := by simpa [G.Core] using hg
        have hgl' : g'.All (LocLow cfg) := by simp only [G.All] at hgl; exact hgl.2
        have hgm' : g'.All (MemoPr c) := by simp only [G.All] at hgm; exact hgm.2
        split at h
        · cases h
        · rename_i o1 st1 hr
          cases h
          have hp := ih g' ctx pos st o1 _ hg' hgl' hgm' hcb hr
          refine ⟨hp.cb, ?_, NE_appendNode hp.ne (NE_one _)⟩
          intro r _ hn
          rw [appendNode_one_not_nil] at hn; cases hn
      | name g' nm =>
        simp only at h
        have hg' : g'.Core (TermGood cfg) := by simpa [G.Core] using hg
        have hgl' : g'.All (LocLow cfg) := by simp only [G.All] at hgl; exact hgl.2
        have hgm' : g'.All (MemoPr c) := by simp only [G.All] at hgm; exact hgm.2
        split at h
        · cases h
        · rename_i o1 st1 hr
          have hp := ih g' ctx pos st o1 st1 hg' hgl' hgm' hcb hr
          split at h
          · split at h
            · cases h; exact ⟨hp.cb, (by intro _ _ _ he; cases he), NE_nil⟩
            · cases h; exact ⟨hp.cb, (by intro _ _ _ he; cases he), NE_nil⟩
          · split at h
            · cases h; exact ⟨hp.cb, (by intro _ _ _ he; cases he), NE_nil⟩
            · rename_i hnn
              cases h
              refine ⟨hp.cb, ?_, hp.ne⟩
              intro r _ hn
              exact absurd hn hnn
      | single g' =>
        simp only at h
        have hg' : g'.Core (TermGood cfg) := by simpa [G.Core] using hg
        have hgl' : g'.All (LocLow cfg) := by simp only [G.All] at hgl; exact hgl.2
        have hgm' : g'.All (MemoPr c) := by simp only [G.All] at hgm; exact hgm.2
        split at h
        · cases h
        · rename_i o1 st1 hr
          have hp := ih g' ctx pos st o1 st1 hg' hgl' hgm' hcb hr
          split at h
          · cases h; exact ⟨hp.cb, (by intro _ _ _ he; cases he), NE_nil⟩
          · rename_i he1
            split at h
            · cases h
              exact ⟨hp.cb, (by intro _ _ hn; cases hn), NE_one _⟩
            · cases h
              refine ⟨hp.cb, ?_, hp.ne⟩
              intro r hpr hn _
              simp only [pr] at hpr
              exact hp.blame r hpr hn he1
      | suppress g' => exact hloc.elim
      | ltrim g' m => simp [G.Core] at hg
      | rtrim g' m => simp [G.Core] at hg
      | seq k gs o => simp [G.shape] at hsh
      | many g' ae o => simp [G.shape] at hsh
      | sepBy v s ae o => simp [G.shape] at hsh

/-! ### the certificate check gives `MemoPr` everywhere -/

mutual
theorem ok_memoPr (c : ProdCert) : ∀ (g : G) (L : List Nat), ok c L g = true → g.All (MemoPr c)
  | .term _, _, _ => by simp only [G.All, MemoPr]
  | .empty, _, _ => by simp only [G.All, MemoPr]
  | .eof, _, _ => by simp only [G.All, MemoPr]
  | .ref _, _, _ => by simp only [G.All, MemoPr]
  | .memo i b, L, h => by
    simp only [ok, Bool.and_eq_true] at h
    simp only [G.All, MemoPr]
    exact ⟨h.1, ok_memoPr c b _ h.2⟩
  | .any gs, L, h => by
    simp only [ok] at h
    simp only [G.All, MemoPr]
    exact ⟨trivial, okAll_memoPr c gs L h⟩
  | .choice gs, L, h => by
    simp only [ok] at h
    simp only [G.All, MemoPr]
    exact ⟨trivial, okAll_memoPr c gs L h⟩
  | .seq _ gs _, L, h => by
    simp only [ok] at h
    simp only [G.All, MemoPr]
    exact ⟨trivial, okSeq_memoPr c gs L true h⟩
  | .many g _ _, L, h => by
    simp only [ok, Bool.and_eq_true] at h
    simp only [G.All, MemoPr]
    exact ⟨trivial, ok_memoPr c g L h.1.1.1.1⟩
  | .sepBy v s _ _, L, h => by
    simp only [ok, Bool.and_eq_true] at h
    simp only [G.All, MemoPr]
    exact ⟨trivial, ok_memoPr c v L h.1.1.1.1.1.1.1, ok_memoPr c s [] h.1.1.1.1.1.2⟩
  | .optional g, L, h => by
    simp only [ok, Bool.and_eq_true] at h
    simp only [G.All, MemoPr]
    exact ⟨trivial, ok_memoPr c g L h.1⟩
  | .name g _, L, h => by
    simp only [ok] at h
    simp only [G.All, MemoPr]
    exact ⟨trivial, ok_memoPr c g L h⟩
  | .ltrim g _, L, h => by
    simp only [ok] at h
    simp only [G.All, MemoPr]
    exact ⟨trivial, ok_memoPr c g L h⟩
  | .rtrim g _, L, h => by
    simp only [ok] at h
    simp only [G.All, MemoPr]
    exact ⟨trivial, ok_memoPr c g L h⟩
  | .single g, L, h => by
    simp only [ok] at h
    simp only [G.All, MemoPr]
    exact ⟨trivial, ok_memoPr c g L h⟩
  | .suppress g, L, h => by
    simp only [ok] at h
    simp only [G.All, MemoPr]
    exact ⟨trivial, ok_memoPr c g L h⟩
theorem okAll_memoPr (c : ProdCert) : ∀ (gs : List G) (L : List Nat), okAll c L gs = true → AllList (MemoPr c) gs
  | [], _, _ => by simp only [AllList]
  | g :: gs, L, h => by
    simp only [okAll, Bool.and_eq_true] at h
    simp only [AllList]
    exact ⟨ok_memoPr c g L h.1, okAll_memoPr c gs L h.2⟩
theorem okSeq_memoPr (c : ProdCert) : ∀ (gs : List G) (L : List Nat) (first : Bool), okSeq c L first gs = true →
    AllList (MemoPr c) gs
  | [], _, _, _ => by simp only [AllList]
  | g :: gs, L, first, h => by
    simp only [okSeq, Bool.and_eq_true] at h
    simp only [AllList]
    exact ⟨ok_memoPr c g L h.1.1, okSeq_memoPr c gs _ false h.2⟩
end

end Prod
end PV
