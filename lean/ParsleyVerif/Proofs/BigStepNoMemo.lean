/-
  A grammar without Memoize never logs a curtail event (only Memoize curtails), so for such grammars the
  hypothesis `NoCurtail` of the big-step theorem holds on every run.
-/
import ParsleyVerif.Proofs.MemoBasics
namespace PV
open PV.Text

namespace Big

def NoMemoLocal : G → Prop
  | .memo _ _ => False
  | _ => True

/-- no Memoize anywhere in `g` -/
def MemoFree (g : G) : Prop := g.All NoMemoLocal

theorem noCurtail_logEv {cfg : Cfg} {st : St} {ev : Ev} (h : NoCurtail st.log) (hev : ∀ i p, ev ≠ .curtail i p) :
    NoCurtail (st.logEv cfg ev).log := by
  cases (logEv_fields st cfg ev).2.2.2.2 with
  | inl h1 => rw [h1]; exact h
  | inr h1 =>
    rw [h1]
    intro i p hm
    cases hm with
    | head => exact hev i p rfl
    | tail _ hm => exact h i p hm

def RunNC (r : RunFn) : Prop :=
  ∀ g ctx pos st o st', MemoFree g → r g ctx pos st = some (o, st') → NoCurtail st.log → NoCurtail st'.log

theorem run_nocurtail (cfg : Cfg) (henv : ∀ g' ∈ cfg.env, MemoFree g') : ∀ fuel, RunNC (run cfg fuel) := by
  intro fuel
  induction fuel with
  | zero => intro g ctx pos st o st' _ h; simp [run] at h
  | succ fuel ih =>
    intro g ctx pos st o st' hg h hnc
    cases hsh : g.shape with
    | some sh =>
      rw [run_seqfam cfg fuel g sh ctx pos st hsh] at h
      split at h
      · cases h
      · unfold runSeq at h
        split at h
        · cases h
        · rename_i b ss st1 hsp
          have hfin := seqFinish_fields sh pos ss st1
          generalize seqFinish sh pos ss st1 = fin at h hfin
          obtain ⟨fo, fs⟩ := fin
          cases h
          have hE := seqParse_ind (run cfg fuel) sh (fun _ _ _ => True)
            (fun _ s _ s' => NoCurtail s.log → NoCurtail s'.log)
            (fun _ _ => id) (fun _ _ _ _ _ _ h1 h2 => fun h => h2 (h1 h)) (fun _ _ _ _ _ _ _ => trivial)
            (fun fr _ s g' o' s1 _ _ hl hrun =>
              have h1 : NoCurtail s.log → NoCurtail s1.log :=
                fun h => ih g' fr.ctx fr.pos _ o' s1 (shape_lookup_all hg hsh _ _ hl) hrun h
              ⟨h1, fun _ _ => trivial, fun _ _ => h1⟩)
            (fun _ _ _ _ _ _ _ => id)
            fuel ⟨0, [], ctx, pos, true⟩ {} st b ss st1 trivial rfl hsp
          simp only at hfin
          cases hfin.2 with
          | inl h1 => rw [h1]; exact hE hnc
          | inr h1 => rw [h1, setError_log]; exact hE hnc
    | none =>
    cases hw : g.wrap cfg.file pos with
    | some w =>
      rw [run_wrap cfg fuel g w ctx pos st hw] at h
      split at h
      · cases h
      · split at h
        · cases h
        · rename_i o1 st1 hrun
          cases h
          rw [wrap_fix_eq hw]
          exact ih _ _ _ _ _ _ (wrap_all hg hw) hrun hnc
    | none =>
    unfold run at h
    split at h
    · cases h
    · cases g with
      | term t =>
        simp only at h
        split at h
        · cases h; exact hnc
        · cases h; exact noCurtail_logEv hnc (by intro _ _ hc; cases hc)
        · cases h; exact hnc
      | empty => simp only at h; cases h; exact hnc
      | eof =>
        simp only at h
        split at h
        · cases h; exact hnc
        · cases h; exact noCurtail_logEv hnc (by intro _ _ hc; cases hc)
      | ref k =>
        simp only at h
        split at h
        · rename_i g' hk
          exact ih g' ctx pos st o st' (henv g' (List.mem_of_getElem? hk)) h hnc
        · cases h; exact hnc
      | memo idx body =>
        have := G.All_self hg
        simp [NoMemoLocal] at this
      | any gs =>
        simp only at h
        have hgs : AllList NoMemoLocal gs := by
          have : NoMemoLocal (.any gs) ∧ AllList NoMemoLocal gs := by simpa [MemoFree, G.All] using hg
          exact this.2
        split at h
        · cases h
        · rename_i a st1 hl
          have hA := anyLoop_ind (run cfg fuel) ctx pos (fun _ s => NoCurtail s.log) gs
            (fun g' hg' _ s o' s' hA hr => ih g' ctx pos _ o' s' (AllList_mem hgs g' hg') hr hA)
            {} st a st1 hnc hl
          split at h
          · cases h; exact hA
          · cases h; rw [setError_log]; exact hA
      | choice gs =>
        simp only at h
        have hgs : AllList NoMemoLocal gs := by
          have : NoMemoLocal (.choice gs) ∧ AllList NoMemoLocal gs := by simpa [MemoFree, G.All] using hg
          exact this.2
        have hF := choiceLoop_ind (run cfg fuel) ctx pos (fun _ s => NoCurtail s.log)
          (fun _ _ s => NoCurtail s.log) gs (fun _ _ hA => hA)
          (fun g' hg' _ s o' s' hA hr =>
            have h1 : NoCurtail s'.log := ih g' ctx pos _ o' s' (AllList_mem hgs g' hg') hr hA
            ⟨fun _ => by rw [setError_log]; exact h1, fun _ => h1⟩)
        split at h
        · cases h
        · rename_i o1 a st1 hl
          cases h
          exact hF {} st _ a _ hnc hl
        · rename_i a st1 hl
          cases h
          exact hF {} st _ a _ hnc hl
      | optional g' => simp [G.wrap] at hw
      | name g' nm => simp [G.wrap] at hw
      | single g' => simp [G.wrap] at hw
      | suppress g' => simp [G.wrap] at hw
      | ltrim g' m => simp [G.wrap] at hw
      | rtrim g' m => simp [G.wrap] at hw
      | seq k gs o => simp [G.shape] at hsh
      | many g' ae o => simp [G.shape] at hsh
      | sepBy v s ae o => simp [G.shape] at hsh

end Big

end PV
