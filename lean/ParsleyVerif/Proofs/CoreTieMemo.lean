/-
  Stage 2 of the core tie: combinator.Memoize — translated closure vs. `run … (.memo idx body)`.
-/
import ParsleyVerif.Proofs.CoreTieWrap
import ParsleyVerif.Proofs.CoreTieCache
namespace PV.CoreTie
open PV.FactsCore

theorem slice3_full {α : Type} (l : List α) (s : Context) :
    (CorePrelude.Go.slice3 l 0 (CorePrelude.Go.len l) (CorePrelude.Go.len l) : CM (List α)) s = .ok l s := by
  simp [CorePrelude.Go.slice3, CorePrelude.Go.slice, CorePrelude.Go.len]

/-- the clip of memoize.go (`nl[:len(nl):len(nl)]`) is the identity at value level; stated on the slice expression alone, so that
    the tie below does not depend on how the type test around it is written (a type switch, a comma-ok assertion, a helper) -/
theorem slice3_map (l : List PV.Node) (s : Context) :
    (CorePrelude.Go.slice3 (l.map eNode) 0 (CorePrelude.Go.len (l.map eNode)) (CorePrelude.Go.len (l.map eNode)) : CM (List CNode)) s
      = .ok (l.map eNode) s := slice3_full _ s

/-- **combinator.Memoize** (its captured `parserIndex` is the model's memo index): IF the world's `parse` agrees with
    `run cfg fuel` on the operand, THEN the translated closure agrees with `run cfg (fuel+1)` on the Memoize node -/
theorem tie_Memoize (W : World Context) (cfg : Cfg) (h0 : cfg.maxCalls = 0) (hw : WorldRel W cfg) (fuel : Nat)
    (p : Parser) (g : G) (idx : Nat) (hp : Agrees W cfg fuel p g) :
    AgreesF (Memoize_parse W p (idx : Int)) cfg (fuel + 1) (.memo idx g) := by
  intro m c pos s st hm hs
  rw [run, if_neg (run_budget0 cfg h0 st)]
  have hget := tie_Get W s.resultCache st.cache hs.cache idx pos m c hm s
  dsimp only
  cases hc : cacheGet st.cache idx pos c with
  | some e =>
    rw [hc] at hget
    obtain ⟨r, e1, rr⟩ := hget
    exact corr_intro (by simp [Memoize_parse, Context_ResultCache, e1, eOut, rr.node, rr.cp, rr.err]) (hs.logEv cfg _)
  | none =>
    rw [hc] at hget
    dsimp only
    have hg := hm.get idx
    have hrem := hw.remaining pos
    have hslack : Facts.curtailSlack = 1 := rfl
    by_cases hcur : c.get idx > Text.remaining cfg.file pos + Facts.curtailSlack
    · rw [if_pos hcur]
      refine corr_intro ?_ (hs.logEv cfg _)
      core_simp [Memoize_parse, Context_ResultCache, hget, Context_Reader, hg, hrem, eOut, eSet_single, eSet]
    · rw [if_neg hcur]
      -- the body runs in a state that differs from `st` in ghost fields only
      generalize hst1 : ({ st with active := (idx, pos) :: st.active } : St).logEv cfg
        (.body idx pos ((st.active.filter (fun a => a.1 == idx && a.2 == pos)).length + 1)) = st1
      have r1 : StRel s st1 := by
        rw [← hst1]
        exact (hs.of_fields (st' := { st with active := (idx, pos) :: st.active }) rfl rfl rfl).logEv cfg _
      have h := hp _ _ pos s st1 (hm.inc idx) r1
      cases hr : run cfg fuel g (c.inc idx) pos st1 with
      | none =>
        rw [hr] at h
        core_simp [Memoize_parse, Context_ResultCache, hget, Context_Reader, hg, hrem, corr_none h, Corr]
      | some r =>
        obtain ⟨o, st2⟩ := r
        rw [hr] at h
        obtain ⟨s2, e2, r2⟩ := corr_some h
        dsimp only
        have rres : ResultRel (Result.mk (CorePrelude.Data.IntMap_Filter m (eSet o.cp)) (eSet o.cp) (eErr o.err) (eRes o.res))
            (CacheEntry.mk idx pos (c.filter o.cp) o.cp o.err o.res) :=
          ⟨rfl, rfl, rfl, hm.filter o.cp⟩
        obtain ⟨rc', e3, r3⟩ := tie_Save W s2.resultCache st2.cache r2.cache _ _ rres s2
        refine corr_intro (s' := { s2 with resultCache := rc' }) ?_ ⟨r2.calls, r2.err, r3, r2.noTransform, r2.noStaticCheck⟩
        -- whatever the shape of the type test around the clip: decided by the kind of the result
        obtain ⟨ores, ocp, oerr⟩ := o
        cases ores with
        | nil =>
          simp (disch := omega) [Memoize_parse, Context_ResultCache, hget, Context_Reader, hg, hrem, dec_false, dec_true, e2, eOut, eRes] at e3 ⊢
          simp [e3]
        | one n =>
          cases n <;>
          · simp (disch := omega) [Memoize_parse, Context_ResultCache, hget, Context_Reader, hg, hrem, dec_false, dec_true, e2, eOut, eRes, eNode, CorePrelude.Node.asNodeList] at e3 ⊢
            simp [e3]
        | list l =>
          simp (disch := omega) [Memoize_parse, Context_ResultCache, hget, Context_Reader, hg, hrem, dec_false, dec_true, e2, eOut, eRes, slice3_map] at e3 ⊢
          simp [e3]

end PV.CoreTie
