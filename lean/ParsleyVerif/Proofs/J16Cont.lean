/-
  C16, full value theorem — layer 3b: arrays and objects, and the recursion over documents.
-/
import ParsleyVerif.Proofs.J16Value
namespace PV.J16
open PV PV.Text

/-! ### positions of the expected trees -/

theorem tree_pos : ∀ (d : JDoc) (p : Nat), (d.tree p).pos = p
  | .null, _ => rfl
  | .bool true, _ => rfl
  | .bool false, _ => rfl
  | .int _, _ => rfl
  | .dec _, _ => rfl
  | .str _, _ => rfl
  | .arr .nil _, _ => rfl
  | .arr (.cons _ _ _ _) _, _ => rfl
  | .obj .nil _, _ => rfl
  | .obj (.cons _ _ _ _ _ _ _) _, _ => rfl

theorem tree_rpos : ∀ (d : JDoc) (p : Nat), (d.tree p).rpos = p + d.render.length
  | .null, _ => rfl
  | .bool true, _ => rfl
  | .bool false, _ => rfl
  | .int _, _ => rfl
  | .dec _, _ => rfl
  | .str _, _ => rfl
  | .arr .nil close, p => by
    simp only [JDoc.tree, JDoc.render, Node.rpos, List.length_cons, List.length_append, List.length_nil]; omega
  | .arr (.cons _ wb d r) close, p => by
    simp only [JDoc.tree, JDoc.render, Node.rpos, List.length_cons, List.length_append, List.length_nil]; omega
  | .obj .nil close, p => by
    simp only [JDoc.tree, JDoc.render, Node.rpos, List.length_cons, List.length_append, List.length_nil]; omega
  | .obj (.cons _ wb k wk wv d r) close, p => by
    simp only [JDoc.tree, JDoc.render, Node.rpos, List.length_cons, List.length_append, List.length_nil]; omega

theorem tree_isTN : ∀ (d : JDoc) (p : Nat), IsTN (d.tree p)
  | .null, _ => trivial
  | .bool true, _ => trivial
  | .bool false, _ => trivial
  | .int _, _ => trivial
  | .dec _, _ => trivial
  | .str _, _ => trivial
  | .arr .nil _, _ => trivial
  | .arr (.cons _ _ _ _) _, _ => trivial
  | .obj .nil _, _ => trivial
  | .obj (.cons _ _ _ _ _ _ _) _, _ => trivial

/-- the end of the last node of `n :: l` -/
def lastRpos (n : Node) (l : List Node) : Nat := (((n :: l).getLast?).getD n).rpos

theorem lastRpos_nil (n : Node) : lastRpos n [] = n.rpos := rfl
theorem lastRpos_cons (n a : Node) (l : List Node) : lastRpos n (a :: l) = lastRpos a l := by
  unfold lastRpos
  rw [List.getLast?_cons_cons]
  cases h : (a :: l).getLast? with
  | none => simp at h
  | some x => rfl

theorem items_last : ∀ (r : JItems) (n : Node) (e : Nat), n.rpos = e →
    lastRpos n (r.moreNodes e) = e + r.renderMore.length
  | .nil, n, e, h => by simp [JItems.moreNodes, JItems.renderMore, lastRpos_nil, h]
  | .cons wc wb d r, n, e, _ => by
    simp only [JItems.moreNodes, JItems.renderMore, lastRpos_cons]
    rw [items_last r _ _ (tree_rpos d _)]
    simp only [List.length_append, List.length_cons]; omega

theorem items_even : ∀ (r : JItems) (p : Nat), (r.moreNodes p).length % 2 = 0
  | .nil, _ => rfl
  | .cons wc wb d r, p => by
    simp only [JItems.moreNodes, List.length_cons]
    have := items_even r (p + wc.length + 1 + wb.length + d.render.length)
    omega

theorem kvNode_rpos (k : List SElem) (wk wv : Bytes) (vlen : Nat) (vt : Nat → Node) (p : Nat) :
    (kvNode k wk wv vlen vt p).rpos = p + (renderStr k).length + wk.length + 1 + wv.length + vlen := rfl

theorem mems_last : ∀ (r : JMems) (n : Node) (e : Nat), n.rpos = e →
    lastRpos n (r.moreNodes e) = e + r.renderMore.length
  | .nil, n, e, h => by simp [JMems.moreNodes, JMems.renderMore, lastRpos_nil, h]
  | .cons wc wb k wk wv d r, n, e, _ => by
    simp only [JMems.moreNodes, JMems.renderMore, lastRpos_cons]
    rw [mems_last r _ _ (kvNode_rpos _ _ _ _ _ _)]
    simp only [List.length_append, List.length_cons]; omega

theorem mems_even : ∀ (r : JMems) (p : Nat), (r.moreNodes p).length % 2 = 0
  | .nil, _ => rfl
  | .cons wc wb k wk wv d r, p => by
    simp only [JMems.moreNodes, List.length_cons]
    have := mems_even r (p + wc.length + 1 + wb.length + (renderStr k).length + wk.length + 1 + wv.length + d.render.length)
    omega

/-! ### first bytes -/

theorem render_head : ∀ (d : JDoc), d.OK → ∃ c t, d.render = c :: t ∧ isWs c = false
  | .null, _ => ⟨110, _, rfl, by decide⟩
  | .bool true, _ => ⟨116, _, rfl, by decide⟩
  | .bool false, _ => ⟨102, _, rfl, by decide⟩
  | .int i, _ => by
    obtain ⟨c, r, hcr, hc⟩ := int_head i
    refine ⟨c, r, hcr, ?_⟩
    simp only [isWs, Facts.wsBytes, List.contains_cons, List.contains_nil, Bool.or_false, Bool.or_eq_false_iff, beq_eq_false_iff_ne]
    omega
  | .dec d, hd => by
    obtain ⟨c, r, hcr, hc⟩ := dec_head d hd
    refine ⟨c, r, hcr, ?_⟩
    simp only [isWs, Facts.wsBytes, List.contains_cons, List.contains_nil, Bool.or_false, Bool.or_eq_false_iff, beq_eq_false_iff_ne]
    omega
  | .str _, _ => ⟨34, _, rfl, by decide⟩
  | .arr .nil _, _ => ⟨91, _, rfl, by decide⟩
  | .arr (.cons _ _ _ _) _, _ => ⟨91, _, rfl, by decide⟩
  | .obj .nil _, _ => ⟨123, _, rfl, by decide⟩
  | .obj (.cons _ _ _ _ _ _ _) _, _ => ⟨123, _, rfl, by decide⟩

theorem render_stop (d : JDoc) (hd : d.OK) (T : Bytes) : Stop (d.render ++ T) := by
  obtain ⟨c, t, hct, hc⟩ := render_head d hd
  rw [hct, List.cons_append]; exact stop_cons c _ hc

/-- whitespace, then `,` or a closer: a delimiter -/
theorem delim_ws_then (w : Bytes) (c : Nat) (l : Bytes) (hw : WsNl w) (hc : c = 44 ∨ c = 93 ∨ c = 125) :
    Delim (w ++ c :: l) := by
  cases w with
  | nil => exact delim_cons (by omega)
  | cons b r =>
    have := hw b (by simp)
    exact delim_cons (by omega)

theorem wsSp_nl {w : Bytes} (h : WsSp w) : WsNl w := fun b hb => by
  rcases h b hb with h | h
  · exact .inl h
  · exact .inr (.inl h)

theorem delim_items (r : JItems) (hr : r.OK) (close : Bytes) (hc : WsNl close) (tail : Bytes) :
    Delim (r.renderMore ++ (close ++ 93 :: tail)) := by
  cases r with
  | nil => exact delim_ws_then close 93 tail hc (by omega)
  | cons wc wb d r =>
    simp only [JItems.renderMore, List.append_assoc, List.cons_append]
    exact delim_ws_then wc 44 _ (wsSp_nl (by simp only [JItems.OK] at hr; exact hr.1)) (by omega)

theorem delim_mems (r : JMems) (hr : r.OK) (close : Bytes) (hc : WsNl close) (tail : Bytes) :
    Delim (r.renderMore ++ (close ++ 125 :: tail)) := by
  cases r with
  | nil => exact delim_ws_then close 125 tail hc (by omega)
  | cons wc wb k wk wv d r =>
    simp only [JMems.renderMore, List.append_assoc, List.cons_append]
    exact delim_ws_then wc 44 _ (wsSp_nl (by simp only [JMems.OK] at hr; exact hr.1)) (by omega)

/-! ### shapes -/

def elemsShape : SeqShape :=
  { lookup := fun i => if i % 2 == 0 then some (.ltrim Gjson.value .spacesNl) else some Gjson.comma,
    lenCheck := fun len => (len == 0 && true) || len % 2 == 1,
    token := sepByTok, interp := .array, single := false, name := none }
theorem elems_shape : Gjson.elems.shape = some elemsShape := rfl

def membersShape : SeqShape :=
  { lookup := fun i => if i % 2 == 0 then some (.ltrim Gjson.keyValue .spacesNl) else some Gjson.comma,
    lenCheck := fun len => (len == 0 && true) || len % 2 == 1,
    token := sepByTok, interp := .object, single := false, name := none }
theorem members_shape : Gjson.members.shape = some membersShape := rfl

def arrayShape : SeqShape :=
  { lookup := fun i => [Gjson.rn 91, Gjson.elems, .ltrim (Gjson.rn 93) .spacesNl][i]?,
    lenCheck := fun len => len == 3, token := seqTok, interp := .select 1, single := false, name := none }
theorem array_shape : Gjson.array.shape = some arrayShape := rfl

def objectShape : SeqShape :=
  { lookup := fun i => [Gjson.rn 123, Gjson.members, .ltrim (Gjson.rn 125) .spacesNl][i]?,
    lenCheck := fun len => len == 3, token := seqTok, interp := .select 1, single := false, name := none }
theorem object_shape : Gjson.object.shape = some objectShape := rfl

def kvShape : SeqShape :=
  { lookup := fun i => [.term (.string false), .ltrim (Gjson.rn 58) .spaces, .ltrim Gjson.value .spacesNl][i]?,
    lenCheck := fun len => len == 3, token := seqTok, interp := .none, single := false, name := none }
theorem kv_shape : Gjson.keyValue.shape = some kvShape := rfl

theorem lookup_even (sh : SeqShape) (v s : G) (hsh : sh.lookup = fun i => if i % 2 == 0 then some v else some s)
    (depth : Nat) (h : depth % 2 = 0) : sh.lookup depth = some v := by
  rw [hsh]; simp [h]

theorem lookup_odd (sh : SeqShape) (v s : G) (hsh : sh.lookup = fun i => if i % 2 == 0 then some v else some s)
    (depth : Nat) (h : depth % 2 = 1) : sh.lookup depth = some s := by
  rw [hsh]; simp [h]

/-! ### the pieces -/

section
variable {cfg : Cfg} (hS : Std cfg)
include hS

/-- LeftTrim in mode WsSpacesNl: any run of spaces, tabs, LF is skipped -/
theorem ltrim_nl_ok {g : G} {p : Nat} {w l : Bytes} {n : Node} (hat : At cfg p (w ++ l)) (hw : WsNl w) (hl : Stop l)
    (h : Succ cfg g (p + w.length) n) : Succ cfg (.ltrim g .spacesNl) p n :=
  succ_ltrim' hS hat (wsNl_isWs hw) hl trivial h

/-- `,` / `:` after spaces and tabs -/
theorem sep_ok {c : Nat} (hc : c < 0x80) (hcw : isWs c = false) {p : Nat} {w l : Bytes} (hat : At cfg p (w ++ c :: l))
    (hw : WsSp w) : Succ cfg (.ltrim (Gjson.rn c) .spaces) p (runeLeaf c (p + w.length)) :=
  succ_ltrim' hS hat (wsSp_isWs hw) (stop_cons c l hcw) (wsSp_ok hw) (succ_rune hS hc hat.adv)

/-- the separator fails where a closer stands -/
theorem comma_fails {c : Nat} (hcw : isWs c = false) (hne : c ≠ 44) {p : Nat} {w l : Bytes} (hat : At cfg p (w ++ c :: l))
    (hw : WsNl w) : Fails cfg Gjson.comma p :=
  fails_ltrim' hS hat (wsNl_isWs hw) (stop_cons c l hcw) (fails_rune hS (by omega) hat.adv (by simp; omega))

/-- the closer after spaces, tabs, LF -/
theorem closer_ok {c : Nat} (hc : c < 0x80) (hcw : isWs c = false) {p : Nat} {w l : Bytes} (hat : At cfg p (w ++ c :: l))
    (hw : WsNl w) : Succ cfg (.ltrim (Gjson.rn c) .spacesNl) p (runeLeaf c (p + w.length)) :=
  ltrim_nl_ok hS hat hw (stop_cons c l hcw) (succ_rune hS hc hat.adv)

/-- `[` elems `]` -/
theorem array_of_elems {pos : Nat} {X close tail : Bytes} {en : Node} (hat : At cfg pos (91 :: X))
    (hel : Succ cfg Gjson.elems (pos + 1) en) (hat2 : At cfg en.rpos (close ++ 93 :: tail)) (hc : WsNl close) :
    Succ cfg Gjson.array pos
      (.nt seqTok [runeLeaf 91 pos, en, runeLeaf 93 (en.rpos + close.length)] pos (en.rpos + close.length + 1) (.select 1)) := by
  have hch : ShChain cfg arrayShape 0 pos [runeLeaf 91 pos, en, runeLeaf 93 (en.rpos + close.length)] :=
    .step (g := Gjson.rn 91) rfl (succ_rune hS (by omega) hat)
      (.step (g := Gjson.elems) rfl hel
        (.step (g := .ltrim (Gjson.rn 93) .spacesNl) rfl (closer_ok hS (by omega) (by decide) hat2 hc)
          (.stopNone rfl)))
  exact succ_seqfam hS.mc array_shape hch rfl

theorem object_of_members {pos : Nat} {X close tail : Bytes} {en : Node} (hat : At cfg pos (123 :: X))
    (hel : Succ cfg Gjson.members (pos + 1) en) (hat2 : At cfg en.rpos (close ++ 125 :: tail)) (hc : WsNl close) :
    Succ cfg Gjson.object pos
      (.nt seqTok [runeLeaf 123 pos, en, runeLeaf 125 (en.rpos + close.length)] pos (en.rpos + close.length + 1) (.select 1)) := by
  have hch : ShChain cfg objectShape 0 pos [runeLeaf 123 pos, en, runeLeaf 125 (en.rpos + close.length)] :=
    .step (g := Gjson.rn 123) rfl (succ_rune hS (by omega) hat)
      (.step (g := Gjson.members) rfl hel
        (.step (g := .ltrim (Gjson.rn 125) .spacesNl) rfl (closer_ok hS (by omega) (by decide) hat2 hc)
          (.stopNone rfl)))
  exact succ_seqfam hS.mc object_shape hch rfl

theorem value_of_array {pos : Nat} {X : Bytes} {n : Node} (hat : At cfg pos (91 :: X)) (h : Succ cfg Gjson.array pos n) :
    Succ cfg (.ref 0) pos n := by
  have hnn : NotNum 91 := by unfold NotNum; omega
  refine succ_value hS (pre := [.term (.string false), .term .float, .term .integer]) rfl ?_ h
  intro g' hg'
  simp only [List.mem_cons, List.not_mem_nil, or_false] at hg'
  rcases hg' with rfl | rfl | rfl
  · exact fails_string hS hat (by simp)
  · exact fails_float hS hat (floatMatch_notNum hnn)
  · exact fails_integer hS hat (integerMatch_notNum hnn)

theorem value_of_object {pos : Nat} {X : Bytes} {n : Node} (hat : At cfg pos (123 :: X)) (h : Succ cfg Gjson.object pos n) :
    Succ cfg (.ref 0) pos n := by
  have hnn : NotNum 123 := by unfold NotNum; omega
  refine succ_value hS (pre := [.term (.string false), .term .float, .term .integer, Gjson.array]) rfl ?_ h
  intro g' hg'
  simp only [List.mem_cons, List.not_mem_nil, or_false] at hg'
  rcases hg' with rfl | rfl | rfl | rfl
  · exact fails_string hS hat (by simp)
  · exact fails_float hS hat (floatMatch_notNum hnn)
  · exact fails_integer hS hat (integerMatch_notNum hnn)
  · exact fails_array hS hat (by simp)

/-- the elements, given their chain -/
theorem elems_of_chain {p : Nat} {n : Node} {l : List Node} (hch : ShChain cfg elemsShape 0 p (n :: l))
    (hev : l.length % 2 = 0) : Succ cfg Gjson.elems p (.nt sepByTok (n :: l) n.pos (lastRpos n l) .array) := by
  have := succ_seqfam hS.mc elems_shape hch (by simp [elemsShape]; omega)
  rwa [handleResult_cons elemsShape p n l rfl] at this

theorem members_of_chain {p : Nat} {n : Node} {l : List Node} (hch : ShChain cfg membersShape 0 p (n :: l))
    (hev : l.length % 2 = 0) : Succ cfg Gjson.members p (.nt sepByTok (n :: l) n.pos (lastRpos n l) .object) := by
  have := succ_seqfam hS.mc members_shape hch (by simp [membersShape]; omega)
  rwa [handleResult_cons membersShape p n l rfl] at this

/-- `[` ws `]` -/
theorem elems_empty {p : Nat} {close tail : Bytes} (hat : At cfg p (close ++ 93 :: tail)) (hc : WsNl close) :
    Succ cfg Gjson.elems p (.nt sepByTok [] p p .array) := by
  have hf : Fails cfg (.ltrim Gjson.value .spacesNl) p :=
    fails_ltrim' hS hat (wsNl_isWs hc) (stop_cons 93 tail (by decide)) (fails_value_closer hS hat.adv (.inl rfl))
  exact succ_seqfam hS.mc elems_shape (.stopFail (g := .ltrim Gjson.value .spacesNl) rfl hf) rfl

/-- `{` ws `}` -/
theorem members_empty {p : Nat} {close tail : Bytes} (hat : At cfg p (close ++ 125 :: tail)) (hc : WsNl close) :
    Succ cfg Gjson.members p (.nt sepByTok [] p p .object) := by
  have hf : Fails cfg (.ltrim Gjson.keyValue .spacesNl) p :=
    fails_ltrim' hS hat (wsNl_isWs hc) (stop_cons 125 tail (by decide))
      (fails_seqOf hS.mc (fails_string hS hat.adv (by simp)))
  exact succ_seqfam hS.mc members_shape (.stopFail (g := .ltrim Gjson.keyValue .spacesNl) rfl hf) rfl

/-- a key/value member, given the tree of its value -/
theorem kv_ok (k : List SElem) (hk : StrOK k) (wk wv : Bytes) (hwk : WsSp wk) (hwv : WsNl wv) (d : JDoc) (hd : d.OK)
    {p : Nat} {T : Bytes} (hat : At cfg p (renderStr k ++ (wk ++ 58 :: (wv ++ (d.render ++ T)))))
    (hv : Succ cfg (.ref 0) (p + (renderStr k).length + wk.length + 1 + wv.length)
      (d.tree (p + (renderStr k).length + wk.length + 1 + wv.length))) :
    Succ cfg Gjson.keyValue p (kvNode k wk wv d.render.length d.tree p) := by
  have hat1 := hat.adv
  have hat2 := hat1.adv.adv1
  have hcolon := sep_ok hS (c := 58) (by omega) (by decide) hat1 hwk
  have hval : Succ cfg (.ltrim Gjson.value .spacesNl) (p + (renderStr k).length + wk.length + 1)
      (d.tree (p + (renderStr k).length + wk.length + 1 + wv.length)) :=
    ltrim_nl_ok hS hat2 hwv (render_stop d hd T) hv
  have hch : ShChain cfg kvShape 0 p
      [.term strTok (.str (decodeStr k)) p (p + (renderStr k).length),
       runeLeaf 58 (p + (renderStr k).length + wk.length),
       d.tree (p + (renderStr k).length + wk.length + 1 + wv.length)] :=
    .step (g := .term (.string false)) rfl (succ_string hS k hk hat)
      (.step (g := .ltrim (Gjson.rn 58) .spaces) rfl hcolon
        (.step (g := .ltrim Gjson.value .spacesNl) rfl hval (.stopNone rfl)))
  have := succ_seqfam hS.mc kv_shape hch rfl
  rw [handleResult_cons kvShape p _ _ rfl] at this
  simp only [lastRpos, List.getLast?_cons_cons, List.getLast?_singleton, Option.getD_some, tree_rpos] at this
  exact this

end

end PV.J16
