/-
  THE COMBINATORIAL HALF (C01, completeness, half B), tree version — no `run` here.

  `Contains cfg k e g pos x`: the tree `x` has a derivation from `g` at `pos` in which — on the part of
  it that still starts at `pos` (through references, memoized bodies, alternatives, options, and
  sequence elements preceded by zero-width elements only) — a `memo k` node spans `pos … e`.

  `Acyclic cfg bodyOf`: no derivation of the body of a memoized parser `k` spanning `pos … e` contains, in
  that sense, a `memo k` node with the SAME span: the same (index, start, end) is never nested in itself.
  Without such a nesting the ends of nested activations that share a start strictly shrink, so there are
  at most `remaining + 1` of them and no curtailment test fails.  (With such a nesting the cycle can be
  pumped: the span has infinitely many DERIVATIONS.  `Acyclic` is a sufficient condition for "finitely
  many trees", not an equivalent one: `P → P | a` is cyclic although its only tree is `a`, because
  `memo`/`any`/`ref` steps leave no trace in the tree; for such grammars the ends theorem applies.)

  Under `Acyclic` every derivation IS a curtailed derivation from the zero counters, tree for tree.
-/
import ParsleyVerif.Proofs.CurtailCover
namespace PV
open PV.Text

mutual
inductive Contains (cfg : Cfg) (k e : Nat) : G → Nat → Node → Prop
  | here {body pos x} : Derives cfg (.memo k body) pos x → x.rpos = e → Contains cfg k e (.memo k body) pos x
  | ref {r g pos x} : cfg.env[r]? = some g → Contains cfg k e g pos x → Contains cfg k e (.ref r) pos x
  | memo {i g pos x} : Contains cfg k e g pos x → Contains cfg k e (.memo i g) pos x
  | any {gs g pos x} : g ∈ gs → Contains cfg k e g pos x → Contains cfg k e (.any gs) pos x
  | optSome {g pos x} : Contains cfg k e g pos x → Contains cfg k e (.optional g) pos x
  | seqOf {gs o sh pos nodes} : (G.seq .seqOf gs o).shape = some sh → ContainsSeq cfg k e sh 0 pos nodes →
      sh.lenCheck nodes.length = true → Contains cfg k e (.seq .seqOf gs o) pos (handleResult sh pos nodes)
inductive ContainsSeq (cfg : Cfg) (k e : Nat) : SeqShape → Nat → Nat → List Node → Prop
  | head {sh d pos g n rest} : sh.lookup d = some g → Contains cfg k e g pos n →
      DerivesSeq cfg sh (d + 1) n.rpos rest → ContainsSeq cfg k e sh d pos (n :: rest)
  | tail {sh d pos g n rest} : sh.lookup d = some g → Derives cfg g pos n → n.rpos = pos →
      ContainsSeq cfg k e sh (d + 1) n.rpos rest → ContainsSeq cfg k e sh d pos (n :: rest)
end

/-- the same (memo index, start, end) is never nested in itself -/
def Acyclic (cfg : Cfg) (bodyOf : Nat → G) : Prop :=
  ∀ k pos x, InFile cfg.file pos → ¬ Contains cfg k x.rpos (bodyOf k) pos x

/-! ### positions of derivations (through the sized ones) -/

/-- in the fragment, no trims, terminals stay inside the file -/
def PosOK (cfg : Cfg) (g : G) : Prop := Frag cfg g ∧ g.Core (TermGood cfg)

theorem derives_pos (cfg : Cfg) (henv : ∀ g' ∈ cfg.env, PosOK cfg g') {g : G} {pos : Nat} {x : Node}
    (h : Derives cfg g pos x) (hg : PosOK cfg g) (hin : InFile cfg.file pos) : pos ≤ x.rpos ∧ x.rpos ≤ cfg.hi := by
  obtain ⟨n, hn⟩ := (derivesN_of_derives_both cfg (fun g' hg' => (henv g' hg').1)).1 h hg.1
  exact (derivesN_pos cfg (fun g' hg' => (henv g' hg').2) n).1 _ _ _ hg.2 hin hn

theorem derivesSeq_pos (cfg : Cfg) (henv : ∀ g' ∈ cfg.env, PosOK cfg g') {sh : SeqShape} {d pos : Nat} {nodes : List Node}
    (h : DerivesSeq cfg sh d pos nodes) (hg : ∀ d g', sh.lookup d = some g' → PosOK cfg g') (hin : InFile cfg.file pos) :
    pos ≤ endOf pos nodes ∧ endOf pos nodes ≤ cfg.hi := by
  obtain ⟨n, hn⟩ := (derivesN_of_derives_both cfg (fun g' hg' => (henv g' hg').1)).2 h (fun d g' hl => (hg d g' hl).1)
  exact (derivesN_pos cfg (fun g' hg' => (henv g' hg').2) n).2 _ _ _ _ (fun d g' hl => (hg d g' hl).2) hin hn

theorem PosOK.lookup {cfg : Cfg} {g : G} {sh : SeqShape} (h : PosOK cfg g) (hs : g.shape = some sh) :
    ∀ d g', sh.lookup d = some g' → PosOK cfg g' :=
  fun d g' hl => ⟨shape_lookup_all h.1 hs d g' hl, shape_lookup_core h.2 hs d g' hl⟩

/-- the contained node ends no later than the tree that contains it -/
theorem contains_end_le (cfg : Cfg) (henv : ∀ g' ∈ cfg.env, PosOK cfg g') (k e : Nat) :
    (∀ {g pos x}, Contains cfg k e g pos x → PosOK cfg g → InFile cfg.file pos →
      e ≤ x.rpos ∧ pos ≤ x.rpos ∧ x.rpos ≤ cfg.hi) ∧
    (∀ {sh d pos nodes}, ContainsSeq cfg k e sh d pos nodes → (∀ d g', sh.lookup d = some g' → PosOK cfg g') →
      InFile cfg.file pos → e ≤ endOf pos nodes ∧ pos ≤ endOf pos nodes ∧ endOf pos nodes ≤ cfg.hi) := by
  let M1 : (g : G) → (pos : Nat) → (x : Node) → Contains cfg k e g pos x → Prop :=
    fun g pos x _ => PosOK cfg g → InFile cfg.file pos → e ≤ x.rpos ∧ pos ≤ x.rpos ∧ x.rpos ≤ cfg.hi
  let M2 : (sh : SeqShape) → (d pos : Nat) → (nodes : List Node) → ContainsSeq cfg k e sh d pos nodes → Prop :=
    fun sh d pos nodes _ => (∀ d g', sh.lookup d = some g' → PosOK cfg g') → InFile cfg.file pos →
      e ≤ endOf pos nodes ∧ pos ≤ endOf pos nodes ∧ endOf pos nodes ≤ cfg.hi
  have c1 : ∀ {body : G} {pos : Nat} {x : Node} (a : Derives cfg (G.memo k body) pos x) (a_1 : x.rpos = e),
      M1 _ _ _ (.here a a_1) := by
    intro body pos x hd he hg hin
    have := derives_pos cfg henv hd hg hin
    omega
  have c2 : ∀ {r : Nat} {g : G} {pos : Nat} {x : Node} (a : cfg.env[r]? = some g) (a_1 : Contains cfg k e g pos x),
      M1 _ _ _ a_1 → M1 _ _ _ (.ref a a_1) := by
    intro r g pos x hk _ ih _ hin
    exact ih (henv g (List.mem_of_getElem? hk)) hin
  have c3 : ∀ {i : Nat} {g : G} {pos : Nat} {x : Node} (a : Contains cfg k e g pos x), M1 _ _ _ a → M1 _ _ _ (.memo (i := i) a) := by
    intro i g pos x _ ih hg hin
    have h1 : FragLocal cfg (.memo i g) ∧ g.All (FragLocal cfg) := by simpa [Frag, G.All] using hg.1
    exact ih ⟨h1.2, by simpa [G.Core] using hg.2⟩ hin
  have c4 : ∀ {gs : List G} {g : G} {pos : Nat} {x : Node} (a : g ∈ gs) (a_1 : Contains cfg k e g pos x),
      M1 _ _ _ a_1 → M1 _ _ _ (.any a a_1) := by
    intro gs g pos x hm _ ih hg hin
    have h1 : FragLocal cfg (.any gs) ∧ AllList (FragLocal cfg) gs := by simpa [Frag, G.All] using hg.1
    have h2 : CoreList (TermGood cfg) gs := by simpa [G.Core] using hg.2
    exact ih ⟨AllList_mem h1.2 g hm, CoreList_mem h2 g hm⟩ hin
  have c5 : ∀ {g : G} {pos : Nat} {x : Node} (a : Contains cfg k e g pos x), M1 _ _ _ a → M1 _ _ _ (.optSome a) := by
    intro g pos x _ ih hg hin
    have h1 : FragLocal cfg (.optional g) ∧ g.All (FragLocal cfg) := by simpa [Frag, G.All] using hg.1
    exact ih ⟨h1.2, by simpa [G.Core] using hg.2⟩ hin
  have c6 : ∀ {gs : List G} {o : SeqOpts} {sh : SeqShape} {pos : Nat} {nodes : List Node}
      (a : (G.seq SeqKind.seqOf gs o).shape = some sh) (a_1 : ContainsSeq cfg k e sh 0 pos nodes)
      (a_2 : sh.lenCheck nodes.length = true), M2 _ _ _ _ a_1 → M1 _ _ _ (.seqOf a a_1 a_2) := by
    intro gs o sh pos nodes hs _ _ ih hg hin
    obtain ⟨i1, i2, i3⟩ := ih (hg.lookup hs) hin
    rw [handleResult_rpos]
    exact ⟨i1, i2, i3⟩
  have c7 : ∀ {sh : SeqShape} {d pos : Nat} {g : G} {n : Node} {rest : List Node} (a : sh.lookup d = some g)
      (a_1 : Contains cfg k e g pos n) (a_2 : DerivesSeq cfg sh (d + 1) n.rpos rest),
      M1 _ _ _ a_1 → M2 _ _ _ _ (.head a a_1 a_2) := by
    intro sh d pos g n rest hl _ hds ih hg hin
    obtain ⟨i1, i2, i3⟩ := ih (hg d g hl) hin
    have := derivesSeq_pos cfg henv hds hg (InFile_of_le hin i2 i3)
    rw [endOf_cons]
    omega
  have c8 : ∀ {sh : SeqShape} {d pos : Nat} {g : G} {n : Node} {rest : List Node} (a : sh.lookup d = some g)
      (a_1 : Derives cfg g pos n) (a_2 : n.rpos = pos) (a_3 : ContainsSeq cfg k e sh (d + 1) n.rpos rest),
      M2 _ _ _ _ a_3 → M2 _ _ _ _ (.tail a a_1 a_2 a_3) := by
    intro sh d pos g n rest hl _ hz _ ih hg hin
    rw [endOf_cons]
    have := ih hg (by rw [hz]; exact hin)
    omega
  exact ⟨fun {g pos x} h => @Contains.rec cfg k e M1 M2 c1 c2 c3 c4 c5 c6 c7 c8 g pos x h,
    fun {sh d pos nodes} h => @ContainsSeq.rec cfg k e M1 M2 c1 c2 c3 c4 c5 c6 c7 c8 sh d pos nodes h⟩

theorem cut_trees (cfg : Cfg) (bodyOf : Nat → G) (henv : ∀ g' ∈ cfg.env, GoodG cfg bodyOf g')
    (hac : Acyclic cfg bodyOf) : ∀ n,
    (∀ g pos x (c bound : Nat → Nat), GoodG cfg bodyOf g → InFile cfg.file pos → DerivesN cfg n g pos x →
      (∀ k, c k + bound k ≤ cfg.hi + 1) → (∀ k, x.rpos ≤ bound k) →
      DerivesC cfg c g pos x ∨ ∃ k, bound k ≤ cfg.hi ∧ Contains cfg k (bound k) g pos x) ∧
    (∀ sh d pos nodes (c bound : Nat → Nat), (∀ d g', sh.lookup d = some g' → GoodG cfg bodyOf g') →
      InFile cfg.file pos → DerivesSeqN cfg n sh d pos nodes →
      (∀ k, c k + bound k ≤ cfg.hi + 1) → (∀ k, endOf pos nodes ≤ bound k) →
      DerivesSeqC cfg c sh d pos nodes ∨ ∃ k, bound k ≤ cfg.hi ∧ ContainsSeq cfg k (bound k) sh d pos nodes) := by
  have henvC : ∀ g' ∈ cfg.env, g'.Core (TermGood cfg) := fun g' hg' => (henv g' hg').2
  intro n
  induction n using Nat.strongRecOn with
  | _ n ih =>
    refine ⟨?_, ?_⟩
    · intro g pos x c bound hg hin h hinv hend
      cases h with
      | term hp => exact .inl (.term hp)
      | empty => exact .inl .empty
      | optNone => exact .inl .optNone
      | ref hk hd =>
        cases (ih _ (by omega)).1 _ _ _ c bound (henv _ (List.mem_of_getElem? hk)) hin hd hinv hend with
        | inl h1 => exact .inl (.ref hk h1)
        | inr h1 => obtain ⟨k, h2, h3⟩ := h1; exact .inr ⟨k, h2, .ref hk h3⟩
      | any hm hd =>
        cases (ih _ (by omega)).1 _ _ _ c bound (hg.any _ hm) hin hd hinv hend with
        | inl h1 => exact .inl (.any hm h1)
        | inr h1 => obtain ⟨k, h2, h3⟩ := h1; exact .inr ⟨k, h2, .any hm h3⟩
      | optSome hd =>
        cases (ih _ (by omega)).1 _ _ _ c bound hg.optional hin hd hinv hend with
        | inl h1 => exact .inl (.optSome h1)
        | inr h1 => obtain ⟨k, h2, h3⟩ := h1; exact .inr ⟨k, h2, .optSome h3⟩
      | seqOf hs hds hl =>
        rw [handleResult_rpos] at hend
        cases (ih _ (by omega)).2 _ _ _ _ c bound (hg.lookup hs) hin hds hinv hend with
        | inl h1 => exact .inl (.seqOf hs h1 hl)
        | inr h1 => obtain ⟨k, h2, h3⟩ := h1; exact .inr ⟨k, h2, .seqOf hs h3 hl⟩
      | memo hd =>
        rename_i m i body
        obtain ⟨hb, hgb⟩ := hg.memo
        obtain ⟨p1, p2⟩ := (derivesN_pos cfg henvC _).1 _ _ _ hgb.2 hin hd
        by_cases hlt : x.rpos < bound i
        · have hguard : c i ≤ remaining cfg.file pos + Facts.curtailSlack := by
            rw [remaining_eq hin]
            have := hinv i
            omega
          cases (ih _ (by omega)).1 _ _ _ (bump c i) (setB bound i x.rpos) hgb hin hd
              (by
                intro k
                by_cases hk : k = i
                · subst hk; simp only [bump, setB, ↓reduceIte]; have := hinv k; omega
                · simp only [bump, setB, hk, ↓reduceIte]; exact hinv k)
              (by
                intro k
                by_cases hk : k = i
                · subst hk; simp only [setB, ↓reduceIte]; exact Nat.le_refl _
                · simp only [setB, hk, ↓reduceIte]; exact hend k) with
          | inl h1 => exact .inl (.memo hguard h1)
          | inr h1 =>
            obtain ⟨k, f1, f2⟩ := h1
            by_cases hk : k = i
            · -- the body would contain `memo i` with our own span: excluded by acyclicity
              subst hk
              simp only [setB, ↓reduceIte] at f2
              rw [hb] at f2
              exact absurd f2 (hac k pos x hin)
            · simp only [setB, hk, ↓reduceIte] at f1 f2
              exact .inr ⟨k, f1, .memo f2⟩
        · have he : x.rpos = bound i := by have := hend i; omega
          refine .inr ⟨i, by omega, .here ((derives_of_derivesN cfg _).1 _ _ _ (.memo hd)) he⟩
    · intro sh d pos nodes c bound hg hin h hinv hend
      cases h with
      | nil => exact .inl .nil
      | cons hl hx hrest =>
        rename_i a b g' x rest
        obtain ⟨p1, p2⟩ := (derivesN_pos cfg henvC _).1 _ _ _ (hg _ _ hl).2 hin hx
        have hin' : InFile cfg.file x.rpos := InFile_of_le hin p1 p2
        obtain ⟨q1, q2⟩ := (derivesN_pos cfg henvC _).2 _ _ _ _ (fun d g' hl' => (hg d g' hl').2) hin' hrest
        rw [endOf_cons] at hend
        cases (ih a (by omega)).1 _ _ _ c bound (hg _ _ hl) hin hx hinv (fun k => by have := hend k; omega) with
        | inr h1 =>
          obtain ⟨k, h2, h3⟩ := h1
          exact .inr ⟨k, h2, .head hl h3 ((derives_of_derivesN cfg _).2 _ _ _ _ hrest)⟩
        | inl hy =>
          by_cases hc : x.rpos > pos
          · cases (ih b (by omega)).2 _ _ _ _ zeroC (topB cfg) hg hin' hrest
                (by intro k; simp [zeroC, topB]) (by intro k; simp only [topB]; omega) with
            | inl r1 =>
              refine .inl (.cons hl hy ?_)
              simp only [hc, ↓reduceIte]; exact r1
            | inr h2 =>
              obtain ⟨k, f1, _⟩ := h2
              simp only [topB] at f1
              omega
          · have hxe : x.rpos = pos := by omega
            cases (ih b (by omega)).2 _ _ _ _ c bound hg hin' hrest hinv hend with
            | inl r1 =>
              refine .inl (.cons hl hy ?_)
              simp only [hc, ↓reduceIte]; exact r1
            | inr h2 =>
              obtain ⟨k, f1, f2⟩ := h2
              exact .inr ⟨k, f1, .tail hl ((derives_of_derivesN cfg _).1 _ _ _ hx) hxe f2⟩

/-- **(B), trees.**  In an acyclic grammar every derivation is a curtailed derivation from the empty
    left-recursion context — the same tree. -/
theorem derivesC_of_derives_tree (cfg : Cfg) (bodyOf : Nat → G)
    (henv : ∀ g' ∈ cfg.env, Frag cfg g' ∧ GoodG cfg bodyOf g') (hac : Acyclic cfg bodyOf)
    (g : G) (hf : Frag cfg g) (hg : GoodG cfg bodyOf g)
    (pos : Nat) (hin : InFile cfg.file pos) (x : Node) (h : Derives cfg g pos x) :
    DerivesC cfg zeroC g pos x := by
  obtain ⟨n, hn⟩ := derivesN_of_derives cfg (fun g' hg' => (henv g' hg').1) h hf
  have henvG : ∀ g' ∈ cfg.env, GoodG cfg bodyOf g' := fun g' hg' => (henv g' hg').2
  have hp := (derivesN_pos cfg (fun g' hg' => (henvG g' hg').2) n).1 _ _ _ hg.2 hin hn
  cases (cut_trees cfg bodyOf henvG hac n).1 g pos x zeroC (topB cfg) hg hin hn
      (by intro k; simp [zeroC, topB]) (by intro k; simp only [topB]; omega) with
  | inl h1 => exact h1
  | inr h1 =>
    obtain ⟨k, f1, _⟩ := h1
    simp only [topB] at f1
    omega

end PV
