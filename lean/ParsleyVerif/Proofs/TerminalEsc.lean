/-
  C08 helper lemmas, part 7: strconv.UnquoteChar as modelled = the escape table `Lang.escElem`
  (each element denotes one code point).
-/
import ParsleyVerif.Spec.LangString
import ParsleyVerif.Proofs.TerminalString
import ParsleyVerif.Proofs.TerminalInt
namespace PV
open PV.Text

theorem isHex_eq (b : Nat) : isHex b = Lang.hexDigit b := rfl
theorem isOct_eq (b : Nat) : isOct b = Lang.octDigit b := rfl
theorem allHex_eq (l : Bytes) : allHex l = l.all Lang.hexDigit := rfl

/-- the result of UnquoteChar rebuilt from (code point, width) -/
def stepOf (s : Bytes) (cw : Option (Nat × Nat)) : Option (Nat × Bytes) := cw.map (fun p => (p.1, s.drop p.2))

theorem bool_not_true {b : Bool} (h : ¬ b = true) : b = false := by cases b <;> simp_all

theorem hexEsc_eq (c e : Nat) (r2 : Bytes) (n : Nat) (any : Bool)
    (hn : (if e = 120 then 2 else if e = 117 then 4 else 8) = n) (ha : any = decide (e = 120)) :
    hexEsc e r2 = stepOf (c :: e :: r2) (Lang.hexEscape n any r2) := by
  unfold hexEsc Lang.hexEscape stepOf
  simp only []
  rw [hn, allHex_eq, natOfDigits_eq]
  have hd : (c :: e :: r2).drop (2 + n) = r2.drop n := by simp [Nat.add_comm]
  by_cases c1 : r2.length < n
  · rw [if_pos c1, if_neg (by omega)]; rfl
  · rw [if_neg c1]
    by_cases c2 : (r2.take n).all Lang.hexDigit = true
    · rw [if_neg (by simp [c2])]
      by_cases c3 : e = 120
      · rw [if_pos c3, if_pos ⟨by omega, c2, Or.inl (by rw [ha]; simp [c3])⟩]
        simp only [Option.map_some, hd]
      · rw [if_neg c3]
        have hany : any = false := by rw [ha]; simp [c3]
        by_cases c4 : Utf8.validRune (Lang.digitsValue 16 (r2.take n)) = true
        · rw [if_neg (by simp [c4]), if_pos ⟨by omega, c2, Or.inr c4⟩]
          simp only [Option.map_some, hd]
        · rw [if_pos (by simp [bool_not_true c4]), if_neg (by simp [hany, c4])]
          rfl
    · rw [if_pos (by simp [bool_not_true c2]), if_neg (fun h => c2 h.2.1)]
      rfl

theorem octEsc_eq (c e : Nat) (r2 : Bytes) : octEsc e r2 = stepOf (c :: e :: r2) (Lang.octEscape e r2) := by
  unfold octEsc Lang.octEscape stepOf
  simp only []
  rw [natOfDigits_eq]
  have ho : (r2.take 2).all isOct = (r2.take 2).all Lang.octDigit := rfl
  rw [ho]
  by_cases c1 : r2.length < 2
  · rw [if_pos c1, if_neg (by omega)]; rfl
  · rw [if_neg c1]
    by_cases c2 : (r2.take 2).all Lang.octDigit = true
    · rw [if_neg (by simp [c2])]
      by_cases c3 : Lang.digitsValue 8 (e :: r2.take 2) > 255
      · rw [if_pos c3, if_neg (by omega)]; rfl
      · rw [if_neg c3, if_pos ⟨by omega, c2, by omega⟩]
        rfl
    · rw [if_pos (by simp [bool_not_true c2]), if_neg (fun h => c2 h.2.1)]
      rfl

theorem lookup_none (e : Nat) (h1 : e ≠ 97) (h2 : e ≠ 98) (h3 : e ≠ 102) (h4 : e ≠ 110) (h5 : e ≠ 114)
    (h6 : e ≠ 116) (h7 : e ≠ 118) (h8 : e ≠ 92) : Lang.simpleEscapes.lookup e = none := by
  have b1 : (e == 97) = false := by simp [h1]
  have b2 : (e == 98) = false := by simp [h2]
  have b3 : (e == 102) = false := by simp [h3]
  have b4 : (e == 110) = false := by simp [h4]
  have b5 : (e == 114) = false := by simp [h5]
  have b6 : (e == 116) = false := by simp [h6]
  have b7 : (e == 118) = false := by simp [h7]
  have b8 : (e == 92) = false := by simp [h8]
  simp [Lang.simpleEscapes, List.lookup, b1, b2, b3, b4, b5, b6, b7, b8]

theorem escTail_eq (q c e : Nat) (r2 : Bytes) (hq : q = 34 ∨ q = 39) :
    escTail q e r2 = stepOf (c :: e :: r2)
      (match Lang.simpleEscapes.lookup e with
        | some v => some (v, 2)
        | none =>
          if e = q then some (e, 2)
          else if e = 120 then Lang.hexEscape 2 true r2
          else if e = 117 then Lang.hexEscape 4 false r2
          else if e = 85 then Lang.hexEscape 8 false r2
          else if Lang.octDigit e = true then Lang.octEscape e r2
          else none) := by
  unfold escTail
  by_cases c1 : e = 97
  · subst c1; rfl
  rw [if_neg c1]
  by_cases c2 : e = 98
  · subst c2; rfl
  rw [if_neg c2]
  by_cases c3 : e = 102
  · subst c3; rfl
  rw [if_neg c3]
  by_cases c4 : e = 110
  · subst c4; rfl
  rw [if_neg c4]
  by_cases c5 : e = 114
  · subst c5; rfl
  rw [if_neg c5]
  by_cases c6 : e = 116
  · subst c6; rfl
  rw [if_neg c6]
  by_cases c7 : e = 118
  · subst c7; rfl
  rw [if_neg c7]
  by_cases c8 : e = 92
  · subst c8
    rcases hq with hq | hq <;> subst hq <;> rfl
  rw [lookup_none e c1 c2 c3 c4 c5 c6 c7 c8]
  simp only []
  by_cases d1 : e = 120
  · have hne : e ≠ q := by omega
    rw [if_pos (by simp [d1]), if_neg hne, if_pos d1]
    exact hexEsc_eq c e r2 2 true (by simp [d1]) (by simp [d1])
  by_cases d2 : e = 117
  · have hne : e ≠ q := by omega
    rw [if_pos (by simp [d2]), if_neg hne, if_neg d1, if_pos d2]
    exact hexEsc_eq c e r2 4 false (by simp [d2]) (by simp [d2])
  by_cases d3 : e = 85
  · have hne : e ≠ q := by omega
    rw [if_pos (by simp [d3]), if_neg hne, if_neg d1, if_neg d2, if_pos d3]
    exact hexEsc_eq c e r2 8 false (by simp [d3]) (by simp [d3])
  rw [if_neg (by simp [d1, d2, d3])]
  by_cases d4 : 48 ≤ e ∧ e ≤ 55
  · have hne : e ≠ q := by omega
    rw [if_pos (by simpa using d4), if_neg hne, if_neg d1, if_neg d2, if_neg d3,
      if_pos (by simpa [Lang.octDigit] using d4)]
    exact octEsc_eq c e r2
  rw [if_neg (by simpa using d4), if_neg c8]
  have hoct : ¬ (Lang.octDigit e = true) := by simpa [Lang.octDigit] using d4
  by_cases d5 : e = q
  · rw [if_pos d5]
    have : (e = 39 || e = 34) = true := by rcases hq with hq | hq <;> simp [d5, hq]
    rw [if_pos this, if_neg (by simp [d5])]
    rfl
  · rw [if_neg d5, if_neg d1, if_neg d2, if_neg d3, if_neg hoct]
    by_cases d6 : (e = 39 || e = 34) = true
    · rw [if_pos d6, if_pos d5]; rfl
    · rw [if_neg d6]; rfl

theorem escElem_cons (q c : Nat) (r : Bytes) : Lang.escElem q (c :: r) =
    if c = q then none
    else if c ≠ 92 then (if c < 0x80 then some (c, 1) else some (Utf8.decodeRune (c :: r)))
    else match r with
      | [] => none
      | e :: r2 =>
        match Lang.simpleEscapes.lookup e with
        | some v => some (v, 2)
        | none =>
          if e = q then some (e, 2)
          else if e = 120 then Lang.hexEscape 2 true r2
          else if e = 117 then Lang.hexEscape 4 false r2
          else if e = 85 then Lang.hexEscape 8 false r2
          else if Lang.octDigit e = true then Lang.octEscape e r2
          else none := rfl

/-- **UnquoteChar = the escape table**: the rune returned is the code point of the element at the head
    of the input, the tail is the input without that element -/
theorem unquoteChar_eq (s : Bytes) (q : Nat) (hq : q = 34 ∨ q = 39) :
    unquoteChar s q = stepOf s (Lang.escElem q s) := by
  cases s with
  | nil => rfl
  | cons c r =>
    rw [unquoteChar_cons]
    rw [escElem_cons]
    by_cases c1 : c = q
    · rw [if_pos (by rcases hq with hq | hq <;> simp [c1, hq]), if_pos c1]; rfl
    · rw [if_neg (by simp [c1]), if_neg c1]
      by_cases c2 : c ≥ 0x80
      · rw [if_pos c2, if_pos (by omega), if_neg (by omega)]; rfl
      · rw [if_neg c2]
        by_cases c3 : c ≠ 92
        · rw [if_pos c3, if_pos c3, if_pos (by omega)]; rfl
        · rw [if_neg c3, if_neg c3]
          cases r with
          | nil => rfl
          | cons e r2 => exact escTail_eq q c e r2 hq

end PV
