/-
  The productivity invariant of C06, by induction on fuel over all cases of `run`.

  For a grammar accepted by the certificate (`Prod.productive`, Spec/Productive.lean), from every state
  satisfying the invariant (the fresh context does), under every left-recursion context whose active
  parsers the certificate knows (`LiveIn`), for every fuel:

  * `err`   every returned error lies at or before a terminal failure of the log (`TFge`), or it is PENDING:
            a not-found error at the call position, returned WITHOUT a result;
  * `fail`  a call of a parser that is productive below rank `r` and returns no result is accompanied by a
            terminal failure at or after the call position, or it is BLAMED on the curtailment of a parser
            that is active at the call position and has rank below `r`;
  * the context error always lies at or before a terminal failure; cached outcomes satisfy `err` / `fail`
    with the context counters they were stored with.

  A pending error can only travel upwards through failing calls at the same position; the places where an
  error is kept next to a result (Optional, a repetition accepting zero elements, a Sequence element reached
  without consumption) are productive below every active rank (`ok`), so `fail` turns the pending error
  into a real one there.  At the root nothing is active: no blame, every error is real.
-/
import ParsleyVerif.Proofs.ProdBasics
namespace PV
namespace Prod
open PV.Text

/-- the local side conditions of C06 with the trivially true name relations: no trims, terminals do not
    panic inside the file, references resolve -/
abbrev LocP (cfg : Cfg) : G → Prop := LocErr cfg (fun _ _ => True) (fun _ => True) False

/-- an error value: a terminal failed at or after it, or it is pending (a not-found error at the position
    `pos` of a call that returned no result) -/
def EOK (log : List Ev) (pos : Nat) (res : Res) (e : Err) : Prop :=
  TFge log e.pos ∨ (res.isNil = true ∧ e.pos = pos ∧ e.kind.isNotFound = true)

theorem EOK.mono {log log' : List Ev} {pos : Nat} {res : Res} {e : Err} (hs : log <:+ log') :
    EOK log pos res e → EOK log' pos res e
  | .inl h => .inl (h.mono hs)
  | .inr h => .inr h

structure EntOK (c : ProdCert) (log : List Ev) (e : CacheEntry) : Prop where
  err : ∀ er, e.err = some er → EOK log e.pos e.res er
  nil : e.res.isNil = true → TFge log e.pos ∨ Blame c e.ctx e.cp (c.prank e.idx)
  ne : NE e.res

theorem EntOK.mono {c : ProdCert} {log log' : List Ev} {e : CacheEntry} (hs : log <:+ log') (h : EntOK c log e) :
    EntOK c log' e :=
  ⟨fun er her => (h.err er her).mono hs, fun hn => (h.nil hn).imp (TFge.mono hs) id, h.ne⟩

structure PSt (c : ProdCert) (st : St) : Prop where
  cache : ∀ e ∈ st.cache, EntOK c st.log e
  ctxErr : ∀ er, st.ctxErr = some er → TFge st.log er.pos

structure PPost (c : ProdCert) (g : G) (ctx : Ctx) (pos : Nat) (st0 : St) (o : Out) (st' : St) : Prop where
  pst : PSt c st'
  log : st0.log <:+ st'.log
  err : ∀ er, o.err = some er → EOK st'.log pos o.res er
  fail : ∀ r, pr c r g = true → o.res.isNil = true → TFge st'.log pos ∨ Blame c ctx o.cp r
  ne : NE o.res

/-- what the certificate check provides -/
structure EnvProd (c : ProdCert) (cfg : Cfg) : Prop where
  ghost : cfg.ghost = true
  wf : EnvOK c.wf cfg
  loc : ∀ g ∈ cfg.env, g.All (LocP cfg)
  rules : ∀ k g, cfg.env[k]? = some g → ok c (c.live k) g = true ∧ pr c (c.rrank k) g = true

def RunProdOK (c : ProdCert) (cfg : Cfg) (r : RunFn) : Prop :=
  ∀ g L ctx pos st o st', GWF c.wf cfg g → g.All (LocP cfg) → ok c L g = true → LiveIn L ctx →
    Good c.wf cfg ctx pos st → PSt c st → r g ctx pos st = some (o, st') → PPost c g ctx pos st o st'

theorem PSt_of_eq {c : ProdCert} {st st' : St} (h : PSt c st) (hc : st'.cache = st.cache)
    (he : st'.ctxErr = st.ctxErr) (hl : st.log <:+ st'.log) : PSt c st' :=
  ⟨fun e hm => (h.cache e (hc ▸ hm)).mono hl, fun er her => (h.ctxErr er (he ▸ her)).mono hl⟩

theorem PSt_regCall {c : ProdCert} {st : St} (h : PSt c st) : PSt c st.regCall :=
  PSt_of_eq h rfl rfl (List.suffix_refl _)

theorem PSt_logEv {c : ProdCert} {st : St} (h : PSt c st) (cfg : Cfg) (ev : Ev) : PSt c (st.logEv cfg ev) :=
  PSt_of_eq h (logEv_fields st cfg ev).1 (logEv_fields st cfg ev).2.1 (logEv_suffix st cfg ev)

theorem PSt_setError {c : ProdCert} {st : St} (h : PSt c st) (e : Option Err)
    (he : ∀ er, e = some er → TFge st.log er.pos) : PSt c (st.setError e) := by
  obtain ⟨h1, h2, _, h4, _⟩ := setError_ctxErr st e
  refine ⟨by rw [h2, h4]; exact h.cache, ?_⟩
  intro er her
  rw [h4]
  cases h1 with
  | inl h1 => exact h.ctxErr er (h1 ▸ her)
  | inr h1 => exact he er (h1 ▸ her)

theorem isNil_one (n : Node) : (Res.one n).isNil = false := rfl

/-- the state after a sub-call is a state the next sub-call at the same position may start in -/
theorem Good_step {c : ProdCert} {cfg : Cfg} {r : RunFn} (hpos : RunPosOK cfg r) (hcons : RunConsOK c.wf cfg r)
    {g : G} {ctx : Ctx} {pos : Nat} {st st' : St} {o : Out} (hg : GWF c.wf cfg g)
    (h : Good c.wf cfg ctx pos st) (hr : r g ctx pos st = some (o, st')) : Good c.wf cfg ctx pos st' :=
  Good_after h (hpos g ctx pos st o st' hg.core h.1 hr) (hcons g ctx pos st o st' hg h hr)

/-! ### the Sequence family, beyond the first element -/

/-- every error the Sequence object holds lies at or before a terminal failure -/
def SsGood (st : St) (ss : SeqSt) : Prop := ∀ e, ss.err = some e → TFge st.log e.pos

/-- what holds when `parse(depth, …)` is entered with `depth ≥ 1` -/
def PJ (c : ProdCert) (cfg : Cfg) (sh : SeqShape) (ctx0 : Ctx) (pos0 : Nat) (fr : Frame) (ss : SeqSt) (st : St) : Prop :=
  SeqJ cfg pos0 fr ss st ∧ CacheCons c.wf st ∧ PSt c st ∧ SsGood st ss ∧ NE ss.result ∧ 1 ≤ fr.depth ∧
  (fr.pos = pos0 → fr.ctx = ctx0 ∧ fr.merge = true ∧
    ∀ i, i < fr.depth → ∀ gi, sh.lookup i = some gi → mayBeEmpty c.wf gi = true) ∧
  (fr.pos ≠ pos0 → fr.ctx = []) ∧
  (∀ i, i < fr.depth → sh.lookup i ≠ none)

/-- how the Sequence object and the context state evolve -/
def PE (c : ProdCert) (cfg : Cfg) (pos0 : Nat) (ss : SeqSt) (st : St) (ss' : SeqSt) (st' : St) : Prop :=
  SeqE cfg pos0 ss st ss' st' ∧ (CacheCons c.wf st → CacheCons c.wf st') ∧ (PSt c st → PSt c st') ∧
  st.log <:+ st'.log ∧ (SsGood st ss → SsGood st' ss') ∧ (NE ss.result → NE ss'.result) ∧
  (∀ j ∈ ss.cp, j ∈ ss'.cp) ∧ (ss.result.isNil = false → ss'.result.isNil = false)

/-- what every call of `parse(depth, …)` establishes: a result, a terminal failure, or blame -/
def PQ (c : ProdCert) (g : G) (ctx0 : Ctx) (pos0 : Nat) (ss : SeqSt) (st : St) : Prop :=
  ∀ r, pr c r g = true → ss.result.isNil = false ∨ TFge st.log pos0 ∨ Blame c ctx0 ss.cp r

theorem PE_trans {c : ProdCert} {cfg : Cfg} {pos0 : Nat} (a : SeqSt) (b : St) (c' : SeqSt) (d : St) (e : SeqSt) (f : St)
    (h1 : PE c cfg pos0 a b c' d) (h2 : PE c cfg pos0 c' d e f) : PE c cfg pos0 a b e f := by
  obtain ⟨a1, a2, a3, a4, a5, a6, a7, a8⟩ := h1
  obtain ⟨b1, b2, b3, b4, b5, b6, b7, b8⟩ := h2
  exact ⟨SeqE_trans a1 b1, fun h => b2 (a2 h), fun h => b3 (a3 h), a4.trans b4, fun h => b5 (a5 h),
    fun h => b6 (a6 h), fun j hj => b7 j (a7 j hj), fun h => b8 (a8 h)⟩

theorem PJ_stable {c : ProdCert} {cfg : Cfg} {sh : SeqShape} {ctx0 : Ctx} {pos0 : Nat} (fr : Frame) (ss : SeqSt) (st : St)
    (ss' : SeqSt) (st' : St) (hJ : PJ c cfg sh ctx0 pos0 fr ss st) (hE : PE c cfg pos0 ss st ss' st') :
    PJ c cfg sh ctx0 pos0 fr ss' st' := by
  obtain ⟨j1, j2, j3, j4, j5, j6, j7, j8, j9⟩ := hJ
  obtain ⟨e1, e2, e3, _, e5, e6, _, _⟩ := hE
  exact ⟨SeqJ_stable j1 e1, e2 j2, e3 j3, e5 j4, e6 j5, j6, j7, j8, j9⟩

theorem seqAfter_cp_left (m : Bool) (ss : SeqSt) (o : Out) : ∀ k ∈ ss.cp, k ∈ (seqAfter m ss o).cp := by
  intro k hk
  unfold seqAfter
  split
  · exact mem_cpUnion_left _ _ k hk
  · exact hk

theorem seqAfter_cp_right (ss : SeqSt) (o : Out) : ∀ k ∈ o.cp, k ∈ (seqAfter true ss o).cp := by
  intro k hk
  unfold seqAfter
  simp only [↓reduceIte]
  exact mem_cpUnion_right _ _ k hk

theorem SsGood_after {st st1 : St} {ss : SeqSt} {o : Out} (m : Bool) (h : SsGood st ss) (hl : st.log <:+ st1.log)
    (he : ∀ e, o.err = some e → TFge st1.log e.pos) : SsGood st1 (seqAfter m ss o) := by
  intro e her
  rw [seqAfter_err] at her
  cases pickErr_cases ss.err o.err with
  | inl h1 => exact (h e (h1 ▸ her)).mono hl
  | inr h1 => exact he e (h1 ▸ her)

theorem seqEmit_fields (sh : SeqShape) (fr : Frame) (ss : SeqSt) :
    (seqEmit sh fr ss).err = ss.err ∧ (seqEmit sh fr ss).cp = ss.cp ∧
    (seqEmit sh fr ss).result.isNil = false ∧ (NE ss.result → NE (seqEmit sh fr ss).result) := by
  refine ⟨rfl, rfl, ?_, ?_⟩
  · simp only [seqEmit]; exact appendNode_one_not_nil _ _
  · intro h
    simp only [seqEmit]
    exact NE_appendNode h (NE_one _)

section frames
variable {c : ProdCert} {cfg : Cfg} {r : RunFn}

/-- the frame entered with an alternative `n` of element `depth` -/
theorem PJ_next (sh : SeqShape) (ctx0 : Ctx) (pos0 : Nat) (fr : Frame) (ss : SeqSt) (st : St) (g' : G) (o : Out) (st1 : St)
    (hJ : SeqJ cfg pos0 fr ss st)
    (k6 : fr.pos = pos0 → fr.ctx = ctx0 ∧ fr.merge = true ∧
      ∀ i, i < fr.depth → ∀ gi, sh.lookup i = some gi → mayBeEmpty c.wf gi = true)
    (k7 : fr.pos ≠ pos0 → fr.ctx = []) (k8 : ∀ i, i < fr.depth → sh.lookup i ≠ none)
    (hl : sh.lookup fr.depth = some g')
    (hpost : Post cfg fr.pos st.regCall o st1) (hcs : ConsPost c.wf g' fr.pos o st1) (hpst : PSt c st1)
    (hgood : SsGood st1 (seqAfter fr.merge ss o)) (hne : NE ss.result) :
    ∀ n ∈ o.res.alts, PJ c cfg sh ctx0 pos0 (fr.next n) (seqAfter fr.merge ss o) st1 := by
  obtain ⟨j1, j2, j3, j4, j5, j6⟩ := hJ
  have hact : st1.active = st.active := hpost.active
  intro n hn
  obtain ⟨hnp, hnw⟩ := hpost.nodes n hn
  have hb := Node.WF_bounds cfg.hi n hnw
  refine ⟨⟨?_, ?_, ?_, hpost.stOK, ?_, SeqStOK_after _ j6 j2 hpost.err⟩, hcs.cache, hpst,
    hgood, by rw [seqAfter_result]; exact hne, by simp only [Frame.next]; omega, ?_, ?_, ?_⟩
  · simp only [Frame.next]
    exact ⟨by have := j1.1; omega, by unfold Cfg.hi at hb; omega⟩
  · simp only [Frame.next]; omega
  · simp only [Frame.next]
    exact Chain_append cfg.hi n fr.nodes pos0 fr.pos j3 hnp hnw
  · simp only [Frame.next]
    rw [hact]
    exact ActOK_next j5 n.rpos (by omega)
  · simp only [Frame.next]
    intro he
    have hfp : fr.pos = pos0 := by omega
    have hnr : ¬ n.rpos > fr.pos := by omega
    obtain ⟨q1, q2, q3⟩ := k6 hfp
    refine ⟨by simp only [hnr, ↓reduceIte]; exact q1, by simp [q2, hnr], ?_⟩
    intro i hi gi hgi
    by_cases hid : i < fr.depth
    · exact q3 i hid gi hgi
    · have : i = fr.depth := by omega
      subst this
      rw [hl] at hgi
      cases hgi
      cases hm : mayBeEmpty c.wf g' with
      | true => rfl
      | false =>
        have := hcs.cons hm n hn
        omega
  · simp only [Frame.next]
    intro hne
    by_cases hc : n.rpos > fr.pos
    · simp only [hc, ↓reduceIte]
    · simp only [hc, ↓reduceIte]
      apply k7
      omega
  · simp only [Frame.next]
    intro i hi
    by_cases hid : i < fr.depth
    · exact k8 i hid
    · have : i = fr.depth := by omega
      subst this
      rw [hl]; exact fun hc => by cases hc

/-- the call of element `depth ≥ 1` -/
theorem PJ_call (hpos : RunPosOK cfg r) (hcons : RunConsOK c.wf cfg r) (hr : RunProdOK c cfg r)
    (g : G) (sh : SeqShape) (hg : GWF c.wf cfg g) (hgl : g.All (LocP cfg)) (hs : g.shape = some sh)
    (L : List Nat) (hok : ok c L g = true) (ctx0 : Ctx) (pos0 : Nat) (hlive : LiveIn L ctx0)
    (fr : Frame) (ss : SeqSt) (st : St) (g' : G) (o : Out) (st1 : St)
    (hJ : PJ c cfg sh ctx0 pos0 fr ss st) (hd : fr.depth = fr.nodes.length)
    (hl : sh.lookup fr.depth = some g') (hrun : r g' fr.ctx fr.pos st.regCall = some (o, st1)) :
    (o.res.isNil = false →
      PE c cfg pos0 ss st (seqAfter fr.merge ss o) st1 ∧ o.res.alts ≠ [] ∧
      ∀ n ∈ o.res.alts, PJ c cfg sh ctx0 pos0 (fr.next n) (seqAfter fr.merge ss o) st1) ∧
    (o.res.isNil = true → sh.lenCheck fr.depth = true →
      PE c cfg pos0 ss st (seqEmit sh fr (seqAfter fr.merge ss o)) st1 ∧
      PQ c g ctx0 pos0 (seqEmit sh fr (seqAfter fr.merge ss o)) st1) ∧
    (o.res.isNil = true → sh.lenCheck fr.depth = false →
      PE c cfg pos0 ss st (seqAfter fr.merge ss o) st1 ∧ PQ c g ctx0 pos0 (seqAfter fr.merge ss o) st1) := by
  obtain ⟨⟨j1, j2, j3, j4, j5, j6⟩, k1, k2, k3, k4, k5, k6, k7, k8⟩ := hJ
  have hg' := GWF_lookup hg hs fr.depth g' hl
  have hgl' := shape_lookup_all hgl hs fr.depth g' hl
  have hpre : Pre cfg fr.ctx fr.pos st.regCall := ⟨j1, StOK_regCall j4, j5⟩
  have hgood : Good c.wf cfg fr.ctx fr.pos st.regCall := ⟨hpre, CacheCons_of_eq k1 rfl⟩
  have hpost := hpos g' fr.ctx fr.pos st.regCall o st1 hg'.core hpre hrun
  have hcs := hcons g' fr.ctx fr.pos st.regCall o st1 hg' hgood hrun
  obtain ⟨Ld, hokd, hfirm, hLd⟩ := okShape hs hok fr.depth g' hl
  have hliveD : LiveIn Ld fr.ctx := by
    by_cases hp : fr.pos = pos0
    · obtain ⟨q1, _, q3⟩ := k6 hp
      rw [hLd q3, q1]; exact hlive
    · rw [k7 hp]; exact LiveIn.nil _
  have hprod := hr g' Ld fr.ctx fr.pos st.regCall o st1 hg' hgl' hokd hliveD hgood (PSt_regCall k2) hrun
  have hlog : st.log <:+ st1.log := hprod.log
  have hact : st1.active = st.active := hpost.active
  have hcalls : st.calls ≤ st1.calls := by
    have := hpost.calls
    have e : st.regCall.calls = st.calls + 1 := rfl
    omega
  -- a failing element beyond the first is accompanied by a terminal failure
  have hfail : o.res.isNil = true → TFge st1.log fr.pos := by
    intro hn
    cases hprod.fail _ (hfirm (.inl (by omega))) hn with
    | inl h => exact h
    | inr h => exact absurd h (Blame.not_firm hliveD)
  have herr : ∀ e, o.err = some e → TFge st1.log e.pos := by
    intro e he
    cases hprod.err e he with
    | inl h => exact h
    | inr h => rw [h.2.1]; exact hfail h.1
  have hE1 : PE c cfg pos0 ss st (seqAfter fr.merge ss o) st1 :=
    ⟨⟨fun _ => hpost.stOK, fun h => SeqStOK_after _ h j2 hpost.err, hact, hcalls⟩, fun _ => hcs.cache,
      fun _ => hprod.pst, hlog, fun h => SsGood_after _ h hlog herr, fun h => by rw [seqAfter_result]; exact h,
      seqAfter_cp_left _ _ _, fun h => by rw [seqAfter_result]; exact h⟩
  refine ⟨fun hnn => ⟨hE1, hprod.ne hnn,
    PJ_next sh ctx0 pos0 fr ss st g' o st1 ⟨j1, j2, j3, j4, j5, j6⟩ k6 k7 k8 hl hpost hcs hprod.pst
      (SsGood_after _ k3 hlog herr) k4⟩, ?_, ?_⟩
  · intro _ hlc
    obtain ⟨f1, f2, f3, f4⟩ := seqEmit_fields sh fr (seqAfter fr.merge ss o)
    refine ⟨⟨⟨fun _ => hpost.stOK, fun h => SeqStOK_emit sh fr (SeqStOK_after _ h j2 hpost.err) hd j3, hact, hcalls⟩,
      fun _ => hcs.cache, fun _ => hprod.pst, hlog, ?_, fun h => f4 (by rw [seqAfter_result]; exact h), ?_, fun _ => f3⟩, ?_⟩
    · intro h e he
      rw [f1] at he
      exact SsGood_after _ h hlog herr e he
    · intro j hj
      rw [f2]; exact seqAfter_cp_left _ _ _ j hj
    · intro _ _; exact .inl f3
  · intro hn hlc
    refine ⟨hE1, ?_⟩
    intro r' hpr
    have hpr' := prShape hs hpr fr.depth g' hl hlc
    cases hprod.fail r' hpr' hn with
    | inl h => exact .inr (.inl (h.le j2))
    | inr h =>
      by_cases hp : fr.pos = pos0
      · obtain ⟨q1, q2, _⟩ := k6 hp
        rw [q1] at h
        refine .inr (.inr (h.mono_cp ?_))
        rw [q2]
        exact seqAfter_cp_right ss o
      · rw [k7 hp] at h
        exact absurd h Blame.not_nil

/-- where the elements end -/
theorem PJ_none (g : G) (sh : SeqShape) (hs : g.shape = some sh) (ctx0 : Ctx) (pos0 : Nat)
    (fr : Frame) (ss : SeqSt) (st : St)
    (hJ : PJ c cfg sh ctx0 pos0 fr ss st) (hd : fr.depth = fr.nodes.length) (hl : sh.lookup fr.depth = none) :
    sh.lenCheck fr.depth = true ∧
    PE c cfg pos0 ss st (seqEmit sh fr (seqAfter fr.merge ss ⟨.nil, [], none⟩)) st ∧
    PQ c g ctx0 pos0 (seqEmit sh fr (seqAfter fr.merge ss ⟨.nil, [], none⟩)) st := by
  obtain ⟨⟨j1, j2, j3, j4, j5, j6⟩, k1, k2, k3, k4, k5, k6, k7, k8⟩ := hJ
  obtain ⟨f1, f2, f3, f4⟩ := seqEmit_fields sh fr (seqAfter fr.merge ss ⟨.nil, [], none⟩)
  refine ⟨lookupNone_len hs fr.depth k5 hl k8, ⟨⟨id, fun h => SeqStOK_emit sh fr (SeqStOK_after _ h j2 (by intro er he; cases he)) hd j3,
      rfl, Nat.le_refl _⟩, id, id, List.suffix_refl _, ?_, fun h => f4 (by rw [seqAfter_result]; exact h), ?_, fun _ => f3⟩, ?_⟩
  · intro h e he
    rw [f1] at he
    exact SsGood_after _ h (List.suffix_refl _) (by intro e he; cases he) e he
  · intro j hj
    rw [f2]; exact seqAfter_cp_left _ _ _ j hj
  · intro _ _; exact .inl f3

/-- the Sequence loop from depth 1 on -/
theorem seqParse_prod (hpos : RunPosOK cfg r) (hcons : RunConsOK c.wf cfg r) (hr : RunProdOK c cfg r)
    (g : G) (sh : SeqShape) (hg : GWF c.wf cfg g) (hgl : g.All (LocP cfg)) (hs : g.shape = some sh)
    (L : List Nat) (hok : ok c L g = true) (ctx0 : Ctx) (pos0 : Nat) (hlive : LiveIn L ctx0) :
    ∀ (fuel : Nat) (fr : Frame) ss st b ss' st', PJ c cfg sh ctx0 pos0 fr ss st → fr.depth = fr.nodes.length →
      seqParse r sh fuel fr.depth fr.nodes fr.ctx fr.pos fr.merge ss st = some (b, ss', st') →
      PE c cfg pos0 ss st ss' st' ∧ PQ c g ctx0 pos0 ss' st' :=
  seqParse_est r sh (PJ c cfg sh ctx0 pos0) (PE c cfg pos0) (PQ c g ctx0 pos0) PE_trans PJ_stable
    (fun fr ss st g' o st1 hJ hd hl hrun =>
      PJ_call hpos hcons hr g sh hg hgl hs L hok ctx0 pos0 hlive fr ss st g' o st1 hJ hd hl hrun)
    (fun fr ss st hJ hd hl => PJ_none g sh hs ctx0 pos0 fr ss st hJ hd hl)

end frames

/-! ### the Sequence family: the first element -/

/-- what the Sequence loop leaves behind -/
structure SeqFin (c : ProdCert) (g : G) (ctx : Ctx) (pos : Nat) (st0 : St) (ss' : SeqSt) (st' : St) : Prop where
  pst : PSt c st'
  log : st0.log <:+ st'.log
  good : ss'.result.isNil = false → SsGood st' ss'
  err : ∀ e, ss'.err = some e → EOK st'.log pos ss'.result e
  q : PQ c g ctx pos ss' st'
  ne : NE ss'.result

theorem pickErr_none_left (e : Option Err) : pickErr none e = e := by
  cases e <;> rfl

theorem cpUnion_nil_left (b : List Nat) : cpUnion [] b = b := by
  cases b <;> simp [cpUnion]

section first
variable {c : ProdCert} {cfg : Cfg} {r : RunFn}

theorem seqFirst_prod (hpos : RunPosOK cfg r) (hcons : RunConsOK c.wf cfg r) (hr : RunProdOK c cfg r)
    (g : G) (sh : SeqShape) (hg : GWF c.wf cfg g) (hgl : g.All (LocP cfg)) (hs : g.shape = some sh)
    (L : List Nat) (hok : ok c L g = true) (ctx : Ctx) (pos : Nat) (hlive : LiveIn L ctx)
    (st : St) (hgood : Good c.wf cfg ctx pos st) (hps : PSt c st)
    (fuel : Nat) (b : Bool) (ss' : SeqSt) (st' : St)
    (h : seqParse r sh fuel 0 [] ctx pos true {} st = some (b, ss', st')) : SeqFin c g ctx pos st ss' st' := by
  cases fuel with
  | zero => simp [seqParse] at h
  | succ fuel =>
    simp only [seqParse] at h
    obtain ⟨⟨hin, hst, hact⟩, hcc⟩ := hgood
    cases hl : sh.lookup 0 with
    | none =>
      simp only [hl] at h
      by_cases hlc : sh.lenCheck 0 = true
      · simp only [hlc, ↓reduceIte, gt_iff_lt, Nat.lt_irrefl] at h
        cases h
        refine ⟨hps, List.suffix_refl _, ?_, ?_, ?_, ?_⟩
        · intro _ e he; simp [pickErr] at he
        · intro e he; simp [pickErr] at he
        · intro _ _; exact .inl rfl
        · exact NE_appendNode NE_nil (NE_one _)
      · have hlc' : sh.lenCheck 0 = false := by simpa using hlc
        simp only [hlc', Bool.false_eq_true, ↓reduceIte] at h
        cases h
        refine ⟨hps, List.suffix_refl _, ?_, ?_, ?_, NE_nil⟩
        · intro hc; cases hc
        · intro e he; simp [pickErr] at he
        · intro r' hpr
          have := prShape_none hs hpr hl
          rw [hlc'] at this; cases this
    | some g0 =>
      simp only [hl] at h
      split at h
      · cases h
      · rename_i o st1 hrun
        have hg' := GWF_lookup hg hs 0 g0 hl
        have hgl' := shape_lookup_all hgl hs 0 g0 hl
        have hpre : Pre cfg ctx pos st.regCall := ⟨hin, StOK_regCall hst, hact⟩
        have hgood' : Good c.wf cfg ctx pos st.regCall := ⟨hpre, CacheCons_of_eq hcc rfl⟩
        have hpost := hpos g0 ctx pos st.regCall o st1 hg'.core hpre hrun
        have hcs := hcons g0 ctx pos st.regCall o st1 hg' hgood' hrun
        obtain ⟨Ld, hokd, hfirm, hLd⟩ := okShape hs hok 0 g0 hl
        have hLd' : Ld = L := hLd (fun i hi => by omega)
        subst hLd'
        have hprod := hr g0 Ld ctx pos st.regCall o st1 hg' hgl' hokd hlive hgood' (PSt_regCall hps) hrun
        have hlog : st.log <:+ st1.log := hprod.log
        have e1 : (seqAfter true ({} : SeqSt) o).err = o.err := by rw [seqAfter_err]; exact pickErr_none_left _
        have e2 : (seqAfter true ({} : SeqSt) o).result = .nil := by rw [seqAfter_result]
        split at h
        · -- the first element failed
          rename_i hnil
          have hnil' : o.res.isNil = true := by rw [hnil]; rfl
          by_cases hlc : sh.lenCheck 0 = true
          · -- an emission next to the error: the element is productive below every active rank
            have hfail : TFge st1.log pos := by
              cases hprod.fail _ (hfirm (.inr hlc)) hnil' with
              | inl h => exact h
              | inr h => exact absurd h (Blame.not_firm hlive)
            have herr : ∀ e, o.err = some e → TFge st1.log e.pos := by
              intro e he
              cases hprod.err e he with
              | inl h => exact h
              | inr h => rw [h.2.1]; exact hfail
            have hpst := hprod.pst
            simp only [hlc, ↓reduceIte, gt_iff_lt, Nat.lt_irrefl] at h
            cases h
            refine ⟨hpst, hlog, ?_, ?_, ?_, ?_⟩
            · intro _ e he
              simp only [pickErr_none_left] at he
              exact herr e he
            · intro e he
              simp only [pickErr_none_left] at he
              exact .inl (herr e he)
            · intro _ _; exact .inl rfl
            · exact NE_appendNode NE_nil (NE_one _)
          · have hlc' : sh.lenCheck 0 = false := by simpa using hlc
            have hpst := hprod.pst
            have herr := hprod.err
            have hfl := hprod.fail
            rw [hnil] at herr
            simp only [hlc', Bool.false_eq_true, ↓reduceIte] at h
            cases h
            refine ⟨hpst, hlog, ?_, ?_, ?_, NE_nil⟩
            · intro hc; cases hc
            · intro e he
              simp only [pickErr_none_left] at he
              exact herr e he
            · intro r' hpr
              have hpr' := prShape hs hpr 0 g0 hl hlc'
              cases hfl r' hpr' hnil' with
              | inl h => exact .inr (.inl h)
              | inr h =>
                refine .inr (.inr (h.mono_cp ?_))
                intro j hj
                simp only [cpUnion_nil_left]
                exact hj
        · -- alternatives: the loop continues at depth 1
          rename_i hnn'
          have hnn2 : o.res.isNil = false := by
            cases ho : o.res with
            | nil => exact absurd ho hnn'
            | one n => rfl
            | list l => rfl
          have h : seqAlts (fun n ss st =>
              seqParse r sh fuel (0 + 1) ([] ++ [n]) (if n.rpos > pos then [] else ctx) n.rpos
                (true && !decide (n.rpos > pos)) ss st) o.res.alts (seqAfter true {} o) st1 = some (b, ss', st') := h
          have herr : ∀ e, o.err = some e → TFge st1.log e.pos := by
            intro e he
            cases hprod.err e he with
            | inl h => exact h
            | inr h => rw [hnn2] at h; cases h.1
          have hgood1 : SsGood st1 (seqAfter true ({} : SeqSt) o) := by
            intro e he
            rw [e1] at he
            exact herr e he
          have hJ0 : SeqJ cfg pos ⟨0, [], ctx, pos, true⟩ {} st :=
            ⟨hin, Nat.le_refl _, by unfold Chain; exact ⟨rfl, hin.2⟩, hst, hact,
              ⟨(by intro x hx; cases hx), (by intro er her; cases her)⟩⟩
          have hnext := PJ_next (c := c) sh ctx pos ⟨0, [], ctx, pos, true⟩ {} st g0 o st1 hJ0
            (fun _ => ⟨rfl, rfl, fun i hi => by simp at hi⟩) (fun hne => absurd rfl hne)
            (fun i hi => by simp at hi) hl hpost hcs hprod.pst hgood1 NE_nil
          have := seqAlts_est _ (PE c cfg pos) (PQ c g ctx pos) PE_trans
            (fun n ss st => PJ c cfg sh ctx pos ((⟨0, [], ctx, pos, true⟩ : Frame).next n) ss st)
            (fun n ss st ss' st' hP hE => PJ_stable _ _ _ _ _ hP hE) o.res.alts (hprod.ne hnn2)
            (by
              intro n _ ss2 st2 b2 ss3 st3 hJ2 hk
              have := seqParse_prod hpos hcons hr g sh hg hgl hs Ld hok ctx pos hlive fuel
                ((⟨0, [], ctx, pos, true⟩ : Frame).next n) ss2 st2 b2 ss3 st3 hJ2 (by simp [Frame.next])
              apply this
              simpa [Frame.next] using hk)
            _ _ b ss' st' hnext h
          obtain ⟨⟨_, _, e3, e4, e5, e6, _, _⟩, hq⟩ := this
          refine ⟨e3 hprod.pst, hlog.trans e4, fun _ => e5 hgood1, ?_, hq, e6 (by rw [e2]; exact NE_nil)⟩
          intro e he
          exact .inl (e5 hgood1 e he)

end first

/-! ### Any / Choice -/

theorem okAll_mem {c : ProdCert} {L : List Nat} : ∀ {gs : List G}, okAll c L gs = true → ∀ g ∈ gs, ok c L g = true
  | [], _, g, hg => by cases hg
  | g' :: gs, h, g, hg => by
    simp only [okAll, Bool.and_eq_true] at h
    cases hg with
    | head => exact h.1
    | tail _ hm => exact okAll_mem h.2 g hm

/-- the accumulator of Any / Choice: `err` holds real errors only, `nf` may hold a pending one -/
def AltP (pos : Nat) (s : St) (a : AltSt) : Prop :=
  (∀ e, a.err = some e → TFge s.log e.pos) ∧
  (∀ e, a.nf = some e → TFge s.log e.pos ∨ (e.pos = pos ∧ e.kind.isNotFound = true))

theorem AltP_altErr {pos : Nat} {s s' : St} {a : AltSt} {res : Res} (h : AltP pos s a) (hl : s.log <:+ s'.log)
    (e : Option Err) (he : ∀ er, e = some er → EOK s'.log pos res er) : AltP pos s' (altErr pos a e) := by
  cases e with
  | none =>
    have : altErr pos a none = a := rfl
    rw [this]
    exact ⟨fun e he => (h.1 e he).mono hl, fun e he => (h.2 e he).imp (TFge.mono hl) id⟩
  | some e2 =>
    have h2 := he e2 rfl
    rcases altErr_cases pos a e2 with ⟨c1, c2⟩ | ⟨c1, c2, c3⟩ | ⟨c1, c2, c3, c4⟩
    · rw [AltP, c1, c2]
      exact ⟨fun e he => (h.1 e he).mono hl, fun e he => (h.2 e he).imp (TFge.mono hl) id⟩
    · rw [AltP, c1, c2]
      refine ⟨?_, fun e he => (h.2 e he).imp (TFge.mono hl) id⟩
      intro e he
      cases he
      cases h2 with
      | inl h3 => exact h3
      | inr h3 =>
        exfalso
        cases c3 with
        | inl c3 => omega
        | inr c3 => rw [h3.2.2] at c3; cases c3
    · rw [AltP, c1, c2]
      refine ⟨fun e he => (h.1 e he).mono hl, ?_⟩
      intro e he
      cases he
      cases h2 with
      | inl h3 => exact .inl h3
      | inr h3 => exact .inr ⟨h3.2.1, c4⟩

/-- the error Any / Choice return when no alternative matched -/
theorem AltP_final {pos : Nat} {s : St} {a : AltSt} (h : AltP pos s a) :
    ∀ er, (match a.err with | some e => some e | none => a.nf) = some er → EOK s.log pos .nil er := by
  intro er her
  cases hae : a.err with
  | some e => simp only [hae] at her; cases her; exact .inl (h.1 _ hae)
  | none =>
    simp only [hae] at her
    cases h.2 _ her with
    | inl h1 => exact .inl h1
    | inr h1 => exact .inr ⟨rfl, h1.1, h1.2⟩

/-! ### the end of a Sequence -/

theorem seqFinish_prod {c : ProdCert} {g : G} {sh : SeqShape} {ctx : Ctx} {pos : Nat} {st0 st : St} {ss : SeqSt}
    (hf : SeqFin c g ctx pos st0 ss st) :
    PPost c g ctx pos st0 (seqFinish sh pos ss st).1 (seqFinish sh pos ss st).2 := by
  by_cases hnil : ss.result.isNil = true
  · have e1 : (seqFinish sh pos ss st).2 = st := by simp [seqFinish, hnil]
    have e2 : (seqFinish sh pos ss st).1.res = .nil := by simp [seqFinish, hnil]
    have e3 : (seqFinish sh pos ss st).1.cp = ss.cp := by simp [seqFinish, hnil]
    rw [e1]
    refine ⟨hf.pst, hf.log, ?_, ?_, by rw [e2]; exact NE_nil⟩
    · intro er her
      rw [e2]
      simp only [seqFinish, hnil, ↓reduceIte] at her
      cases hse : ss.err with
      | none => simp [hse] at her
      | some e =>
        have hb : EOK st.log pos .nil e := by
          have := hf.err e hse
          rw [(isNil_iff _).mp hnil] at this; exact this
        cases hn : sh.name with
        | none => simp only [hse, hn] at her; cases her; exact hb
        | some nm =>
          simp only [hse, hn] at her
          split at her
          · rename_i hc
            cases her
            simp only [Bool.and_eq_true, decide_eq_true_eq] at hc
            cases hb with
            | inl h => exact .inl (by rw [hc.1] at h; exact h)
            | inr h => exact .inr ⟨rfl, rfl, rfl⟩
          · cases her; exact hb
    · intro r hpr _
      rw [e3]
      rcases hf.q r hpr with h | h | h
      · rw [hnil] at h; cases h
      · exact .inl h
      · exact .inr h
  · have hnil' : ss.result.isNil = false := by simpa using hnil
    have e1 : (seqFinish sh pos ss st).2 = st.setError ss.err := by simp [seqFinish, hnil']
    have e2 : (seqFinish sh pos ss st).1.res = ss.result := by simp [seqFinish, hnil']
    have e3 : (seqFinish sh pos ss st).1.err = none := by
      simp only [seqFinish, hnil', Bool.false_eq_true, ↓reduceIte]
    have h4 := (setError_ctxErr st ss.err).2.2.2.1
    rw [e1]
    refine ⟨PSt_setError hf.pst _ (hf.good hnil'), by rw [h4]; exact hf.log, ?_, ?_, by rw [e2]; exact hf.ne⟩
    · rw [e3]; intro er her; cases her
    · intro r _ hn
      rw [e2, hnil'] at hn; cases hn

/-! ### the induction -/

theorem run_prod (c : ProdCert) (cfg : Cfg) (henv : EnvProd c cfg) : ∀ fuel, RunProdOK c cfg (run cfg fuel) := by
  intro fuel
  induction fuel with
  | zero => intro g L ctx pos st o st' _ _ _ _ _ _ h; simp [run] at h
  | succ fuel ih =>
    intro g L ctx pos st o st' hg hgl hok hlive hgood hps h
    have hpos : RunPosOK cfg (run cfg fuel) := run_pos cfg henv.wf.core fuel
    have hcons : RunConsOK c.wf cfg (run cfg fuel) := run_cons c.wf cfg henv.wf fuel
    have hgh := henv.ghost
    obtain ⟨hpre, hcc⟩ := hgood
    obtain ⟨hin, hst, hact⟩ := hpre
    have hloc : LocP cfg g := G.All_self hgl
    cases hsh : g.shape with
    | some sh =>
      rw [run_seqfam cfg fuel g sh ctx pos st hsh] at h
      split at h
      · cases h
      · unfold runSeq at h
        split at h
        · cases h
        · rename_i b ss st1 hsp
          cases h
          exact seqFinish_prod (seqFirst_prod hpos hcons ih g sh hg hgl hsh L hok ctx pos hlive st
            ⟨⟨hin, hst, hact⟩, hcc⟩ hps fuel b ss st1 hsp)
    | none =>
    unfold run at h
    split at h
    · cases h
    · cases g with
      | term t =>
        simp only at h
        have hT : TermGood cfg t := by simpa [G.Core] using hg.core
        obtain ⟨_, hTe⟩ := hT pos hin
        split at h
        · cases h
          exact ⟨hps, List.suffix_refl _, (by intro er her; cases her), (by intro _ _ hn; cases hn), NE_one _⟩
        · rename_i e hp
          cases h
          have hlog : (st.logEv cfg (.termFail e.pos e.kind)).log = .termFail e.pos e.kind :: st.log :=
            logEv_ghost_c06 hgh st _
          refine ⟨PSt_logEv hps cfg _, logEv_suffix st cfg _, ?_, ?_, NE_nil⟩
          · intro er her
            cases her
            exact .inl (by rw [hlog]; exact TFge.head _ _ _ _ (Nat.le_refl _))
          · intro _ _ _
            exact .inl (by rw [hlog]; exact TFge.head _ _ _ _ (hTe e hp).1)
        · rename_i site hp
          exact (hloc pos site hin hp).elim
      | empty =>
        simp only at h
        cases h
        exact ⟨hps, List.suffix_refl _, (by intro er her; cases her), (by intro _ _ hn; cases hn), NE_one _⟩
      | eof =>
        simp only at h
        split at h
        · cases h
          exact ⟨hps, List.suffix_refl _, (by intro er her; cases her), (by intro _ _ hn; cases hn), NE_one _⟩
        · cases h
          have hlog : (st.logEv cfg (.termFail pos (.other endErrMsg))).log = .termFail pos (.other endErrMsg) :: st.log :=
            logEv_ghost_c06 hgh st _
          refine ⟨PSt_logEv hps cfg _, logEv_suffix st cfg _, ?_, ?_, NE_nil⟩
          · intro er her
            cases her
            exact .inl (by rw [hlog]; exact TFge.head _ _ _ _ (Nat.le_refl _))
          · intro _ _ _
            exact .inl (by rw [hlog]; exact TFge.head _ _ _ _ (Nat.le_refl _))
      | ref k =>
        simp only at h
        split at h
        · rename_i g' hk
          have hm := List.mem_of_getElem? hk
          obtain ⟨hok', hpr'⟩ := henv.rules k g' hk
          have hsub : ∀ j ∈ L, j ∈ c.live k := by
            intro j hj
            simp only [ok, List.all_eq_true] at hok
            simpa using hok j hj
          have hp := ih g' (c.live k) ctx pos st o st' (henv.wf.rules g' hm) (henv.loc g' hm) hok' (hlive.sub hsub)
            ⟨⟨hin, hst, hact⟩, hcc⟩ hps h
          refine ⟨hp.pst, hp.log, hp.err, ?_, hp.ne⟩
          intro r hpr hn
          simp only [pr, decide_eq_true_eq] at hpr
          exact (hp.fail _ hpr' hn).imp id (Blame.mono_r hpr)
        · rename_i hk
          exact (hloc hk).elim
      | memo idx body =>
        simp only at h
        have hbody : GWF c.wf cfg body := ⟨by simpa [G.Core] using hg.core, by
          have := hg.loc; simp only [G.All] at this; exact this.2⟩
        have hbodyL : body.All (LocP cfg) := by simp only [G.All] at hgl; exact hgl.2
        have hokb : pr c (c.prank idx) body = true ∧ ok c (idx :: L) body = true := by
          simpa [ok] using hok
        cases hc : cacheGet st.cache idx pos ctx with
        | some e =>
          simp only [hc] at h
          cases h
          obtain ⟨hm, hi, hp⟩ := cacheGet_some hc
          have hE := hps.cache e hm
          have hsuf := logEv_suffix st cfg (.hit idx pos)
          refine ⟨PSt_logEv hps cfg _, hsuf, ?_, ?_, hE.ne⟩
          · intro er her
            have := (hE.err er her).mono hsuf
            rw [hp] at this; exact this
          · intro r hpr hn
            simp only [pr, Bool.and_eq_true, decide_eq_true_eq] at hpr
            cases hE.nil hn with
            | inl h1 => exact .inl (by rw [hp] at h1; exact h1.mono hsuf)
            | inr h1 =>
              obtain ⟨j, hj, h2, h3⟩ := h1
              exact .inr ⟨j, hj, cacheGet_live hc j h2, by rw [hi] at h3; omega⟩
        | none =>
          simp only [hc] at h
          by_cases hcur : ctx.get idx > remaining cfg.file pos + Facts.curtailSlack
          · simp only [hcur, ↓reduceIte] at h
            cases h
            refine ⟨PSt_logEv hps cfg _, logEv_suffix st cfg _, (by intro er her; cases her), ?_, NE_nil⟩
            intro r hpr _
            simp only [pr, Bool.and_eq_true, decide_eq_true_eq] at hpr
            exact .inr ⟨idx, List.mem_singleton.mpr rfl, by omega, hpr.1⟩
          · simp only [hcur, ↓reduceIte] at h
            split at h
            · cases h
            · rename_i o2 st2 hr
              cases h
              have hpre1 := Pre_memo_body idx ⟨hin, hst, hact⟩ hcur
              have hf := logEv_fields ({ st with active := (idx, pos) :: st.active }) cfg
                (.body idx pos ((st.active.filter (fun a : Nat × Nat => a.1 == idx && a.2 == pos)).length + 1))
              have hsuf := logEv_suffix ({ st with active := (idx, pos) :: st.active }) cfg
                (.body idx pos ((st.active.filter (fun a : Nat × Nat => a.1 == idx && a.2 == pos)).length + 1))
              simp only at hf hsuf
              have hcc1 := CacheCons_of_eq hcc (memo_body_cache cfg st idx pos
                ((st.active.filter (fun a : Nat × Nat => a.1 == idx && a.2 == pos)).length + 1))
              generalize hs1 : ({ st with active := (idx, pos) :: st.active } : St).logEv cfg
                (.body idx pos ((st.active.filter (fun a : Nat × Nat => a.1 == idx && a.2 == pos)).length + 1)) = st1
                at hr hf hsuf hpre1 hcc1
              have hps1 : PSt c st1 := PSt_of_eq hps hf.1 hf.2.1 hsuf
              have hp := ih body (idx :: L) (ctx.inc idx) pos st1 o st2 hbody hbodyL hokb.2 (hlive.inc idx)
                ⟨hpre1, hcc1⟩ hps1 hr
              -- blame on the parser itself is impossible: the body is productive below its own rank
              have hblame : ∀ r, c.prank idx ≤ r → o.res.isNil = true →
                  TFge st2.log pos ∨ ∃ j, j ∈ o.cp ∧ 1 ≤ ctx.get j ∧ c.prank j < r := by
                intro r hr hn
                cases hp.fail _ hokb.1 hn with
                | inl h1 => exact .inl h1
                | inr h1 =>
                  obtain ⟨j, hj, h2, h3⟩ := h1
                  have hji : j ≠ idx := by intro hc; subst hc; omega
                  rw [Ctx.get_inc_other _ _ _ hji] at h2
                  exact .inr ⟨j, hj, h2, by omega⟩
              refine ⟨⟨?_, hp.pst.ctxErr⟩, hsuf.trans hp.log, hp.err, ?_, hp.ne⟩
              · intro x hx
                cases mem_cacheSave hx with
                | inl h1 =>
                  subst h1
                  refine ⟨hp.err, ?_, hp.ne⟩
                  intro hn
                  cases hblame (c.prank idx) (Nat.le_refl _) hn with
                  | inl h2 => exact .inl h2
                  | inr h2 =>
                    obtain ⟨j, hj, h3, h4⟩ := h2
                    exact .inr ⟨j, hj, by show 1 ≤ (ctx.filter o.cp).get j; rw [get_filter hj]; exact h3, h4⟩
                | inr h1 => exact hp.pst.cache x h1
              · intro r hpr hn
                simp only [pr, Bool.and_eq_true, decide_eq_true_eq] at hpr
                exact hblame r (by omega) hn
      | any gs =>
        simp only at h
        have hgs : ∀ g' ∈ gs, GWF c.wf cfg g' :=
          GWF_list (by simpa [G.Core] using hg.core) (by have := hg.loc; simp only [G.All] at this; exact this.2)
        have hgsL : AllList (LocP cfg) gs := by simp only [G.All] at hgl; exact hgl.2
        have hoks : okAll c L gs = true := by simpa [ok] using hok
        split at h
        · cases h
        · rename_i a st1 hl
          have hA := anyLoop_ind2 (run cfg fuel) ctx pos
            (fun rest a s => (∃ pre, gs = pre ++ rest) ∧ Good c.wf cfg ctx pos s ∧ PSt c s ∧ st.log <:+ s.log ∧
              AltP pos s a ∧ NE a.res ∧
              ∀ r, prAny c r gs = true → prAny c r rest = true ∨
                (a.res.isNil = true → TFge s.log pos ∨ Blame c ctx a.cp r))
            (by
              intro g' rest a s o' s' hA hr
              obtain ⟨⟨pre, hpre⟩, a1, a2, a3, a4, a5, a6⟩ := hA
              have hmem : g' ∈ gs := by rw [hpre]; simp
              have hgr := Good_regCall a1
              have hp := ih g' L ctx pos s.regCall o' s' (hgs g' hmem) (AllList_mem hgsL g' hmem)
                (okAll_mem hoks g' hmem) hlive hgr (PSt_regCall a2) hr
              have hlog : s.log <:+ s'.log := hp.log
              obtain ⟨f1, f2, _, _⟩ := altErr_fields pos
                { a with cp := cpUnion a.cp o'.cp, res := appendNode a.res o'.res } o'.err
              refine ⟨⟨pre ++ [g'], by rw [hpre]; simp⟩, Good_step hpos hcons (hgs g' hmem) hgr hr, hp.pst,
                a3.trans hlog, AltP_altErr (a := { a with cp := cpUnion a.cp o'.cp, res := appendNode a.res o'.res })
                  a4 hlog _ hp.err, by rw [f2]; exact NE_appendNode a5 hp.ne, ?_⟩
              intro r hprgs
              rw [f1, f2]
              have hnil : (appendNode a.res o'.res).isNil = true → a.res.isNil = true ∧ o'.res.isNil = true := by
                intro hn; rw [appendNode_isNil] at hn; simpa using hn
              cases a6 r hprgs with
              | inl hrest =>
                simp only [prAny, Bool.or_eq_true] at hrest
                cases hrest with
                | inl hpr =>
                  refine .inr (fun hn => ?_)
                  exact (hp.fail r hpr (hnil hn).2).imp id (Blame.mono_cp (mem_cpUnion_right _ _))
                | inr hrest => exact .inl hrest
              | inr hbl =>
                refine .inr (fun hn => ?_)
                exact (hbl (hnil hn).1).imp (TFge.mono hlog) (Blame.mono_cp (mem_cpUnion_left _ _)))
            gs {} st a st1
            ⟨⟨[], rfl⟩, ⟨⟨hin, hst, hact⟩, hcc⟩, hps, List.suffix_refl _,
              ⟨(by intro e he; cases he), (by intro e he; cases he)⟩, NE_nil, fun r hr => .inl hr⟩ hl
          obtain ⟨_, _, a2, a3, a4, a5, a6⟩ := hA
          split at h
          · rename_i hnil
            cases h
            refine ⟨a2, a3, AltP_final a4, ?_, NE_nil⟩
            intro r hpr _
            simp only [pr] at hpr
            cases a6 r hpr with
            | inl h1 => simp [prAny] at h1
            | inr h1 => exact h1 hnil
          · rename_i hnil
            cases h
            have h4 := (setError_ctxErr st1 a.err).2.2.2.1
            refine ⟨PSt_setError a2 _ a4.1, by rw [h4]; exact a3, (by intro er her; cases her), ?_, a5⟩
            intro r _ hn
            exact absurd hn hnil
      | choice gs =>
        simp only at h
        have hgs : ∀ g' ∈ gs, GWF c.wf cfg g' :=
          GWF_list (by simpa [G.Core] using hg.core) (by have := hg.loc; simp only [G.All] at this; exact this.2)
        have hgsL : AllList (LocP cfg) gs := by simp only [G.All] at hgl; exact hgl.2
        have hoks : okAll c L gs = true := by simpa [ok] using hok
        have hF := choiceLoop_ind2 (run cfg fuel) ctx pos
          (fun rest a s => (∃ pre, gs = pre ++ rest) ∧ Good c.wf cfg ctx pos s ∧ PSt c s ∧ st.log <:+ s.log ∧
            AltP pos s a ∧
            ∀ r, prAny c r gs = true → prAny c r rest = true ∨ TFge s.log pos ∨ Blame c ctx a.cp r)
          (fun out a s => PSt c s ∧ st.log <:+ s.log ∧
            (out = none → AltP pos s a ∧ ∀ r, prAny c r gs = true → TFge s.log pos ∨ Blame c ctx a.cp r) ∧
            ∀ o', out = some o' → o'.err = none ∧ o'.res.isNil = false ∧ NE o'.res)
          (by
            intro a s hA
            obtain ⟨_, _, a2, a3, a4, a6⟩ := hA
            refine ⟨a2, a3, fun _ => ⟨a4, fun r hr => ?_⟩, (by intro o' ho; cases ho)⟩
            cases a6 r hr with
            | inl h1 => simp [prAny] at h1
            | inr h1 => exact h1)
          (by
            intro g' rest a s o' s' hA hr
            obtain ⟨⟨pre, hpre⟩, a1, a2, a3, a4, a6⟩ := hA
            have hmem : g' ∈ gs := by rw [hpre]; simp
            have hgr := Good_regCall a1
            have hp := ih g' L ctx pos s.regCall o' s' (hgs g' hmem) (AllList_mem hgsL g' hmem)
              (okAll_mem hoks g' hmem) hlive hgr (PSt_regCall a2) hr
            have hlog : s.log <:+ s'.log := hp.log
            obtain ⟨f1, _, _, _⟩ := altErr_fields pos { a with cp := cpUnion a.cp o'.cp } o'.err
            have hA1 : AltP pos s' (altErr pos { a with cp := cpUnion a.cp o'.cp } o'.err) :=
              AltP_altErr (a := { a with cp := cpUnion a.cp o'.cp }) a4 hlog _ hp.err
            refine ⟨fun hnn => ?_, fun hn => ?_⟩
            · have h4 := (setError_ctxErr s' (altErr pos { a with cp := cpUnion a.cp o'.cp } o'.err).err).2.2.2.1
              refine ⟨PSt_setError hp.pst _ hA1.1, by rw [h4]; exact a3.trans hlog, (by intro hc; cases hc), ?_⟩
              intro o2 ho2
              cases ho2
              exact ⟨rfl, hnn, hp.ne⟩
            · refine ⟨⟨pre ++ [g'], by rw [hpre]; simp⟩, Good_step hpos hcons (hgs g' hmem) hgr hr, hp.pst,
                a3.trans hlog, hA1, ?_⟩
              intro r hprgs
              rw [f1]
              cases a6 r hprgs with
              | inl hrest =>
                simp only [prAny, Bool.or_eq_true] at hrest
                cases hrest with
                | inl hpr =>
                  exact .inr ((hp.fail r hpr hn).imp id (Blame.mono_cp (mem_cpUnion_right _ _)))
                | inr hrest => exact .inl hrest
              | inr hbl =>
                exact .inr (hbl.imp (TFge.mono hlog) (Blame.mono_cp (mem_cpUnion_left _ _))))
        have hinit : (∃ pre, gs = pre ++ gs) ∧ Good c.wf cfg ctx pos st ∧ PSt c st ∧ st.log <:+ st.log ∧
            AltP pos st {} ∧ ∀ r, prAny c r gs = true → prAny c r gs = true ∨ TFge st.log pos ∨ Blame c ctx ({} : AltSt).cp r :=
          ⟨⟨[], rfl⟩, ⟨⟨hin, hst, hact⟩, hcc⟩, hps, List.suffix_refl _,
            ⟨(by intro e he; cases he), (by intro e he; cases he)⟩, fun r hr => .inl hr⟩
        split at h
        · cases h
        · rename_i o1 a st1 hl
          cases h
          obtain ⟨a1, a2, _, a4⟩ := hF gs {} st (some o) a st' hinit hl
          obtain ⟨b1, b2, b3⟩ := a4 o rfl
          refine ⟨a1, a2, (by rw [b1]; intro er her; cases her), ?_, b3⟩
          intro r _ hn
          rw [b2] at hn; cases hn
        · rename_i a st1 hl
          cases h
          obtain ⟨a1, a2, a3, _⟩ := hF gs {} st none a st' hinit hl
          obtain ⟨b1, b2⟩ := a3 rfl
          refine ⟨a1, a2, AltP_final b1, ?_, NE_nil⟩
          intro r hpr _
          simp only [pr] at hpr
          exact b2 r hpr
      | optional g' =>
        simp only at h
        have hg' : GWF c.wf cfg g' := ⟨by simpa [G.Core] using hg.core, by
          have := hg.loc; simp only [G.All] at this; exact this.2⟩
        have hgl' : g'.All (LocP cfg) := by simp only [G.All] at hgl; exact hgl.2
        have hok' : ok c L g' = true ∧ pr c (minRank c L) g' = true := by simpa [ok] using hok
        split at h
        · cases h
        · rename_i o1 st1 hr
          cases h
          have hp := ih g' L ctx pos st o1 _ hg' hgl' hok'.1 hlive ⟨⟨hin, hst, hact⟩, hcc⟩ hps hr
          refine ⟨hp.pst, hp.log, ?_, ?_, NE_appendNode hp.ne (NE_one _)⟩
          · intro er her
            refine .inl ?_
            cases hp.err er her with
            | inl h1 => exact h1
            | inr h1 =>
              rw [h1.2.1]
              cases hp.fail _ hok'.2 h1.1 with
              | inl h2 => exact h2
              | inr h2 => exact absurd h2 (Blame.not_firm hlive)
          · intro r _ hn
            rw [appendNode_one_not_nil] at hn; cases hn
      | name g' nm =>
        simp only at h
        have hg' : GWF c.wf cfg g' := ⟨by simpa [G.Core] using hg.core, by
          have := hg.loc; simp only [G.All] at this; exact this.2⟩
        have hgl' : g'.All (LocP cfg) := by simp only [G.All] at hgl; exact hgl.2
        have hok' : ok c L g' = true := by simpa [ok] using hok
        split at h
        · cases h
        · rename_i o1 st1 hr
          have hp := ih g' L ctx pos st o1 st1 hg' hgl' hok' hlive ⟨⟨hin, hst, hact⟩, hcc⟩ hps hr
          have hpost := hpos g' ctx pos st o1 st1 hg'.core ⟨hin, hst, hact⟩ hr
          -- no result is returned next to an error: then the error is a real one
          have hdrop : ∀ e, o1.err = some e → ∀ r, pr c r (.name g' nm) = true →
              TFge st1.log pos ∨ Blame c ctx o1.cp r := by
            intro e he r hpr
            simp only [pr] at hpr
            by_cases hn1 : o1.res.isNil = true
            · exact hp.fail r hpr hn1
            · cases hp.err e he with
              | inl h1 => exact .inl (h1.le (hpost.err e he).1)
              | inr h1 => exact absurd h1.1 hn1
          split at h
          · rename_i e he
            split at h
            · rename_i hc
              cases h
              simp only [Bool.and_eq_true, decide_eq_true_eq] at hc
              refine ⟨hp.pst, hp.log, ?_, fun r hpr _ => hdrop e he r hpr, NE_nil⟩
              intro er her
              cases her
              cases hp.err e he with
              | inl h1 => exact .inl (by rw [hc.1] at h1; exact h1)
              | inr h1 => exact .inr ⟨rfl, rfl, rfl⟩
            · rename_i hc
              cases h
              refine ⟨hp.pst, hp.log, ?_, fun r hpr _ => hdrop e he r hpr, NE_nil⟩
              intro er her
              cases her
              cases hp.err e he with
              | inl h1 => exact .inl h1
              | inr h1 => exact .inr ⟨rfl, h1.2.1, h1.2.2⟩
          · rename_i he
            split at h
            · rename_i hn
              cases h
              refine ⟨hp.pst, hp.log, ?_, ?_, NE_nil⟩
              · intro er her
                cases her
                exact .inr ⟨rfl, rfl, rfl⟩
              · intro r hpr _
                simp only [pr] at hpr
                exact hp.fail r hpr hn
            · cases h
              refine ⟨hp.pst, hp.log, (by intro er her; cases her), ?_, hp.ne⟩
              intro r hpr hn
              simp only [pr] at hpr
              exact hp.fail r hpr hn
      | single g' =>
        simp only at h
        have hg' : GWF c.wf cfg g' := ⟨by simpa [G.Core] using hg.core, by
          have := hg.loc; simp only [G.All] at this; exact this.2⟩
        have hgl' : g'.All (LocP cfg) := by simp only [G.All] at hgl; exact hgl.2
        have hok' : ok c L g' = true := by simpa [ok] using hok
        split at h
        · cases h
        · rename_i o1 st1 hr
          have hp := ih g' L ctx pos st o1 st1 hg' hgl' hok' hlive ⟨⟨hin, hst, hact⟩, hcc⟩ hps hr
          have hpost := hpos g' ctx pos st o1 st1 hg'.core ⟨hin, hst, hact⟩ hr
          split at h
          · rename_i e he
            cases h
            refine ⟨hp.pst, hp.log, ?_, ?_, NE_nil⟩
            · intro er her
              cases her
              cases hp.err e he with
              | inl h1 => exact .inl h1
              | inr h1 => exact .inr ⟨rfl, h1.2.1, h1.2.2⟩
            · intro r hpr _
              simp only [pr] at hpr
              by_cases hn1 : o1.res.isNil = true
              · exact hp.fail r hpr hn1
              · cases hp.err e he with
                | inl h1 => exact .inl (h1.le (hpost.err e he).1)
                | inr h1 => exact absurd h1.1 hn1
          · split at h
            · cases h
              refine ⟨hp.pst, hp.log, (by intro er her; cases her), ?_, NE_one _⟩
              intro r _ hn
              cases hn
            · cases h
              refine ⟨hp.pst, hp.log, (by intro er her; cases her), ?_, hp.ne⟩
              intro r hpr hn
              simp only [pr] at hpr
              exact hp.fail r hpr hn
      | suppress g' =>
        simp only at h
        have hg' : GWF c.wf cfg g' := ⟨by simpa [G.Core] using hg.core, by
          have := hg.loc; simp only [G.All] at this; exact this.2⟩
        have hgl' : g'.All (LocP cfg) := by simp only [G.All] at hgl; exact hgl.2
        have hok' : ok c L g' = true := by simpa [ok] using hok
        split at h
        · cases h
        · rename_i o1 st1 hr
          cases h
          have hp := ih g' L ctx pos st o1 _ hg' hgl' hok' hlive ⟨⟨hin, hst, hact⟩, hcc⟩ hps hr
          refine ⟨hp.pst, hp.log, (by intro er her; cases her), ?_, hp.ne⟩
          intro r hpr hn
          simp only [pr] at hpr
          exact hp.fail r hpr hn
      | ltrim g' m => exact absurd hg.core (by simp [G.Core])
      | rtrim g' m => exact absurd hg.core (by simp [G.Core])
      | seq k gs o => simp [G.shape] at hsh
      | many g' ae o => simp [G.shape] at hsh
      | sepBy v s ae o => simp [G.shape] at hsh

end Prod
end PV
