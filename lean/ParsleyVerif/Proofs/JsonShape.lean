/-
  C16, tree shape: every derivation of the JSON grammar's `value` rule is a JSON tree.  One finite check of the
  rule body on abstract derivations (Proofs/ArithAbs.lean).
-/
import ParsleyVerif.Proofs.ArithShape
import ParsleyVerif.Spec.JsonSem
namespace PV
open PV.Text

/-! ### the terminals -/

theorem string_parse_leaf {P : Params} {f : File} {bq : Bool} {pos : Nat} {x : Node}
    (h : Terminal.parse P f (.string bq) pos = .node x) : ∃ tok s p r, x = .term tok (.str s) p r := by
  simp only [Terminal.parse] at h
  split at h
  · cases h
  · simp [nf] at h
  · split at h
    · cases h
    · cases h; exact ⟨_, _, _, _, rfl⟩
    · split at h
      · cases h
      · split at h
        · cases h
        · cases h
        · cases h; exact ⟨_, _, _, _, rfl⟩

theorem float_parse_leaf {P : Params} {f : File} {pos : Nat} {x : Node}
    (h : Terminal.parse P f .float pos = .node x) : ∃ tok l p r, x = .term tok (.float l) p r := by
  simp only [Terminal.parse] at h
  split at h
  · cases h
  · split at h
    · cases h; exact ⟨_, _, _, _, rfl⟩
    · simp [other] at h
  · simp [nf] at h

theorem bool_parse_leaf {P : Params} {f : File} {t e : Bytes} {pos : Nat} {x : Node}
    (h : Terminal.parse P f (.bool t e) pos = .node x) : ∃ tok b p r, x = .term tok (.bool b) p r := by
  simp only [Terminal.parse] at h
  split at h
  · cases h
  · cases h; exact ⟨_, _, _, _, rfl⟩
  · split at h
    · cases h
    · cases h; exact ⟨_, _, _, _, rfl⟩
    · simp [nf] at h

theorem nil_parse_leaf {P : Params} {f : File} {s : Bytes} {pos : Nat} {x : Node}
    (h : Terminal.parse P f (.nil s) pos = .node x) : ∃ tok p r, x = .term tok .nil p r := by
  simp only [Terminal.parse] at h
  split at h
  · cases h
  · cases h; exact ⟨_, _, _, rfl⟩
  · simp [nf] at h

/-! ### SepBy -/

/-- without ReturnSingle the result handler always builds a non-terminal over all the nodes -/
theorem handleResult_nt (sh : SeqShape) (hs : sh.single = false) (pos : Nat) (nodes : List Node) :
    ∃ p q, handleResult sh pos nodes = .nt sh.token nodes p q sh.interp := by
  cases nodes with
  | nil => exact ⟨_, _, rfl⟩
  | cons n rest =>
    cases rest with
    | nil => exact ⟨n.pos, n.rpos, by simp [handleResult, hs]⟩
    | cons m rest' => exact ⟨_, _, rfl⟩

variable {cfg : Cfg} {R : Nat → Nat → Node → Prop}

/-- SepBy(v, s) derives a non-terminal over `v s v s … v` (or nothing): values at the even places, separators
    at the odd places, never a trailing separator -/
theorem DerivesR.sepBy_inv {v s : G} {ae : Bool} {o : SeqOpts} {pos x} (ho : o.single = false)
    (h : DerivesR cfg R (.sepBy v s ae o) pos x) :
    ∃ nodes p q, x = .nt (o.token.getD sepByTok) nodes p q o.interp ∧ (nodes = [] ∨ nodes.length % 2 = 1) ∧
      (∀ i n, nodes[i]? = some n → i % 2 = 0 → ∃ p', DerivesR cfg R v p' n) ∧
      (∀ i n, nodes[i]? = some n → i % 2 = 1 → ∃ p', DerivesR cfg R s p' n) := by
  let sh : SeqShape :=
    { lookup := fun i => if i % 2 == 0 then some v else some s, lenCheck := fun len => (len == 0 && ae) || len % 2 == 1,
      token := o.token.getD sepByTok, interp := o.interp, single := o.single, name := o.name }
  obtain ⟨nodes, hd, hl, rfl⟩ := h.seq_inv (sh := sh) rfl
  obtain ⟨p, q, hh⟩ := handleResult_nt sh ho pos nodes
  refine ⟨nodes, p, q, hh, ?_, ?_, ?_⟩
  · simp only [sh, Bool.or_eq_true, Bool.and_eq_true, beq_iff_eq] at hl
    rcases hl with ⟨h0, _⟩ | h1
    · exact .inl (List.length_eq_zero_iff.mp h0)
    · exact .inr h1
  · intro i n hn hi
    obtain ⟨g, p', hg, hdn⟩ := hd.get i n hn
    simp only [sh, Nat.zero_add, hi, beq_self_eq_true, ↓reduceIte, Option.some.injEq] at hg
    subst hg
    exact ⟨p', hdn⟩
  · intro i n hn hi
    obtain ⟨g, p', hg, hdn⟩ := hd.get i n hn
    simp only [sh, Nat.zero_add, hi] at hg
    simp at hg
    subst hg
    exact ⟨p', hdn⟩

/-! ### the `value` rule -/

/-- what the rule derives -/
def jsonR (f : File) : Nat → Nat → Node → Prop
  | 0, _, x => IsJsonTree f x
  | _, _, _ => True

theorem rune_leaf_of_term {c pos x} (h : DerivesR cfg R (Gjson.rn c) pos x) : IsRuneLeaf cfg.file c x :=
  rune_parse_leaf h.term_inv

theorem comma_leaf {pos x} (h : DerivesR cfg R Gjson.comma pos x) : IsRuneLeaf cfg.file 44 x :=
  rune_leaf_of_term h.ltrim_inv

/-- the JSON trees are closed under the body of the `value` rule -/
theorem json_closed (cfg : Cfg) (henv : cfg.env = Gjson.env) : ClosedR cfg (jsonR cfg.file) := by
  intro k g pos x hk h
  rw [henv] at hk
  match k, hk with
  | 0, hk =>
    simp only [Gjson.env, List.getElem?_cons_zero, Option.some.injEq] at hk
    subst hk
    obtain ⟨g, hm, dg⟩ := h.name_inv.choice_inv
    simp only [Gjson.alts, List.mem_cons, List.not_mem_nil, or_false] at hm
    rcases hm with rfl | rfl | rfl | rfl | rfl | rfl | rfl
    · obtain ⟨tok, s, p, r, rfl⟩ := string_parse_leaf dg.term_inv
      exact .str
    · obtain ⟨tok, s, p, r, rfl⟩ := float_parse_leaf dg.term_inv
      exact .float
    · obtain ⟨tok, s, p, r, rfl⟩ := integer_parse_leaf dg.term_inv
      exact .int
    · -- array
      obtain ⟨x1, x2, x3, d1, d2, d3, rfl⟩ := dg.seqOf3_inv
      obtain ⟨nodes, p, q, rfl, hlen, hev, hodd⟩ := DerivesR.sepBy_inv rfl d2
      refine .arr (rune_leaf_of_term d1) (rune_leaf_of_term d3.ltrim_inv) hlen ?_ ?_
      · intro i n hn hi
        obtain ⟨p', dn⟩ := hodd i n hn hi
        exact comma_leaf dn
      · intro i n hn hi
        obtain ⟨p', dn⟩ := hev i n hn hi
        exact dn.ltrim_inv.ref_inv
    · -- object
      obtain ⟨x1, x2, x3, d1, d2, d3, rfl⟩ := dg.seqOf3_inv
      obtain ⟨nodes, p, q, rfl, hlen, hev, hodd⟩ := DerivesR.sepBy_inv rfl d2
      have hkv : ∀ i n, nodes[i]? = some n → i % 2 = 0 →
          ∃ tok k kp kr colon v, n = .nt seqTok [.term tok (.str k) kp kr, colon, v] kp v.rpos .none ∧
            IsRuneLeaf cfg.file 58 colon ∧ IsJsonTree cfg.file v := by
        intro i n hn hi
        obtain ⟨p', dn⟩ := hev i n hn hi
        obtain ⟨y1, y2, y3, e1, e2, e3, rfl⟩ := dn.ltrim_inv.seqOf3_inv
        obtain ⟨tok, s, kp, kr, rfl⟩ := string_parse_leaf e1.term_inv
        exact ⟨tok, s, kp, kr, y2, y3, rfl, rune_leaf_of_term e2.ltrim_inv, e3.ltrim_inv.ref_inv⟩
      refine .obj (rune_leaf_of_term d1) (rune_leaf_of_term d3.ltrim_inv) hlen ?_ ?_ ?_
      · intro i n hn hi
        obtain ⟨p', dn⟩ := hodd i n hn hi
        exact comma_leaf dn
      · intro i n hn hi
        obtain ⟨tok, k, kp, kr, colon, v, rfl, hc, _⟩ := hkv i n hn hi
        exact ⟨_, _, _, _, _, _, _, _, _, rfl, hc⟩
      · intro i tk3 k0 colon v p3 q3 i3 hn hi
        obtain ⟨tok, k, kp, kr, colon', v', heq, _, hv⟩ := hkv i _ hn hi
        simp only [Node.nt.injEq, List.cons.injEq, and_true] at heq
        obtain ⟨_, ⟨_, _, rfl⟩, _⟩ := heq
        exact hv
    · obtain ⟨tok, s, p, r, rfl⟩ := bool_parse_leaf dg.term_inv
      exact .bool
    · obtain ⟨tok, p, r, rfl⟩ := nil_parse_leaf dg.term_inv
      exact .null
  | k + 1, hk => trivial

/-- every derivation of `value` is a JSON tree -/
theorem json_derives_tree (cfg : Cfg) (henv : cfg.env = Gjson.env) (pos : Nat) (x : Node)
    (h : Derives cfg (.ref 0) pos x) : IsJsonTree cfg.file x :=
  (derives_abs cfg (jsonR cfg.file) (json_closed cfg henv) h).ref_inv

/-- RightTrim moves the end of a JSON tree; it stays a JSON tree -/
theorem IsJsonTree.setRpos {f : File} {m : WsMode} {x : Node} (h : IsJsonTree f x) :
    IsJsonTree f (setRposNode f m x none).1 := by
  cases h with
  | str => exact .str
  | float => exact .float
  | int => exact .int
  | bool => exact .bool
  | null => exact .null
  | arr h1 h2 h3 h4 h5 => exact .arr h1 h2 h3 h4 h5
  | obj h1 h2 h3 h4 h5 h6 => exact .obj h1 h2 h3 h4 h5 h6

/-- every derivation of `Trim(value)` is a JSON tree -/
theorem json_derives_trim (cfg : Cfg) (henv : cfg.env = Gjson.env) (pos : Nat) (x : Node)
    (h : Derives cfg (.rtrim (.ltrim (.ref 0) .spacesNl) .spacesNl) pos x) : IsJsonTree cfg.file x := by
  obtain ⟨y, hy, hx⟩ := (derives_abs cfg (jsonR cfg.file) (json_closed cfg henv) h).rtrim_inv
  have hj : IsJsonTree cfg.file y := hy.ltrim_inv.ref_inv
  rcases hx with rfl | rfl
  · exact hj
  · exact hj.setRpos

end PV
