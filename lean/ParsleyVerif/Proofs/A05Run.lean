/-
  C05 (full value theorem): `run` on the fragment of Proofs/A05Rel.lean.

  * `run_trimT_res`, `run_trimT_halts`: what `Trim(terminal)` answers;
  * `run_completeT`: the reuse invariant of Proofs/RunComplete.lean (`run_complete`) extended by the case
    `Trim(terminal)` — every curtailed derivation `DC` is found;
  * `run_soundT`: the soundness induction of Proofs/RunSound.lean on the fragment with the trims read exactly —
    every returned tree is an exact derivation `DSR`.
  The Any / Sequence arguments are those of Proofs/RunComplete.lean and Proofs/RunSound.lean, restated for
  `DC` / `DSR` (those files cannot be changed and their relations have no rule for the trims).
-/
import ParsleyVerif.Proofs.A05Rel
import ParsleyVerif.Proofs.RunComplete
namespace PV.A05
open PV PV.Text

/-! ### Trim(terminal) -/

/-- the end of text.RightTrim, after the operand answered `o` -/
def rtrimFinish (cfg : Cfg) (m : WsMode) (o : Out) : Out :=
  match o.err with
  | some e =>
    let (errPos, _) := skipWhitespaces cfg.file e.pos m
    ⟨o.res, o.cp, some (if !e.kind.isWs && errPos > e.pos then ⟨errPos, e.kind⟩ else e)⟩
  | none =>
    let (res', ws) := setRposRes cfg.file m o.res
    match ws with
    | some w => ⟨.nil, [], some w⟩
    | none => ⟨res', o.cp, none⟩

theorem run_rtrim (cfg : Cfg) (fuel : Nat) (g : G) (m : WsMode) (ctx : Ctx) (pos : Nat) (st : St) :
    run cfg (fuel + 1) (.rtrim g m) ctx pos st =
      if cfg.maxCalls ≠ 0 ∧ st.calls > cfg.maxCalls then none else
      match run cfg fuel g ctx pos st with
      | none => none
      | some (o, st1) => some (rtrimFinish cfg m o, st1) := by
  conv => lhs; unfold run
  by_cases hb : cfg.maxCalls ≠ 0 ∧ st.calls > cfg.maxCalls
  · rw [if_pos hb, if_pos hb]
  · rw [if_neg hb, if_neg hb]
    cases hr : run cfg fuel g ctx pos st with
    | none => simp only [hr]
    | some r =>
      obtain ⟨o, st1⟩ := r
      simp only [hr, rtrimFinish]
      cases ho : o.err with
      | some e => rfl
      | none =>
        simp only
        cases hs : setRposRes cfg.file m o.res with
        | mk res' ws => cases ws <;> rfl

theorem run_term (cfg : Cfg) (fuel : Nat) (t : Terminal) (ctx : Ctx) (pos : Nat) (st : St) :
    run cfg (fuel + 1) (.term t) ctx pos st =
      if cfg.maxCalls ≠ 0 ∧ st.calls > cfg.maxCalls then none else
      match t.parse cfg.params cfg.file pos with
      | .node n => some (⟨.one n, [], none⟩, st)
      | .err e => some (⟨.nil, [], some e⟩, st.logEv cfg (.termFail e.pos e.kind))
      | .panic site => some (⟨.nil, [], some ⟨pos, .panic (tokOf site)⟩⟩, st) := by
  conv => lhs; unfold run
  rfl

theorem ltrimFinish_none (pos pos' : Nat) (o : Out) (st : St) :
    (ltrimFinish pos pos' none o st).1 = o := by
  unfold ltrimFinish
  cases ho : o.err with
  | none => simp only; cases o; simp_all
  | some e => simp only; cases o; simp_all

/-- what `Trim(terminal)` answers: the terminal's node at the position after the whitespace, with its end moved
    past the whitespace that follows — or nothing; the cache is not touched -/
theorem run_trimT_res (cfg : Cfg) (fuel : Nat) (t : Terminal) (ctx : Ctx) (pos : Nat) (st : St) (o : Out) (st' : St)
    (h : run cfg fuel (trimT t) ctx pos st = some (o, st')) :
    st'.cache = st.cache ∧ o.cp = [] ∧
    ((∃ n, t.parse cfg.params cfg.file (sk cfg.file pos) = .node n ∧ o.res = .one (mv cfg.file n) ∧ o.err = none) ∨
     ((∀ n, t.parse cfg.params cfg.file (sk cfg.file pos) ≠ .node n) ∧ o.res = .nil ∧ o.err.isSome)) := by
  obtain ⟨f1, rfl⟩ : ∃ f, fuel = f + 1 := by
    cases fuel with
    | zero => simp [run] at h
    | succ f => exact ⟨f, rfl⟩
  unfold trimT at h
  rw [run_rtrim] at h
  split at h
  · cases h
  · cases hr1 : run cfg f1 (.ltrim (.term t) .spacesNl) ctx pos st with
    | none => simp [hr1] at h
    | some r1 =>
      obtain ⟨o1, st1⟩ := r1
      simp only [hr1, Option.some.injEq, Prod.mk.injEq] at h
      obtain ⟨ho, hst⟩ := h
      subst hst
      obtain ⟨f2, rfl⟩ : ∃ f, f1 = f + 1 := by
        cases f1 with
        | zero => simp [run] at hr1
        | succ f => exact ⟨f, rfl⟩
      rw [run_ltrim] at hr1
      split at hr1
      · cases hr1
      · cases hr2 : run cfg f2 (.term t) ctx (skipWhitespaces cfg.file pos .spacesNl).1 st with
        | none => simp [hr2] at hr1
        | some r2 =>
          obtain ⟨o2, st2⟩ := r2
          simp only [hr2, Option.some.injEq] at hr1
          have hws : wsToErr (skipWhitespaces cfg.file pos .spacesNl).2 = none := by
            rw [skip_spacesNl_snd]; rfl
          rw [hws] at hr1
          have ho1 : o1 = o2 := by
            have := ltrimFinish_none pos (skipWhitespaces cfg.file pos .spacesNl).1 o2 st2
            rw [hr1] at this; exact this
          have hc1 : st1.cache = st2.cache := by
            have := (ltrimFinish_res pos (skipWhitespaces cfg.file pos .spacesNl).1 none o2 st2).2
            rw [hr1] at this; exact this
          subst ho1
          obtain ⟨f3, rfl⟩ : ∃ f, f2 = f + 1 := by
            cases f2 with
            | zero => simp [run] at hr2
            | succ f => exact ⟨f, rfl⟩
          rw [run_term] at hr2
          split at hr2
          · cases hr2
          · show st1.cache = st.cache ∧ o.cp = [] ∧ _
            cases hp : t.parse cfg.params cfg.file (skipWhitespaces cfg.file pos .spacesNl).1 with
            | node n =>
              simp only [hp, Option.some.injEq, Prod.mk.injEq] at hr2
              obtain ⟨rfl, rfl⟩ := hr2
              have hfin : rtrimFinish cfg .spacesNl ⟨.one n, [], none⟩ = ⟨.one (mv cfg.file n), [], none⟩ := by
                simp only [rtrimFinish, setRposRes]
                have h2 := setRpos_snd_none cfg.file n
                cases hs : setRposNode cfg.file .spacesNl n none with
                | mk n' ws =>
                  rw [hs] at h2
                  simp only at h2
                  subst h2
                  simp only [mv, hs]
              rw [hfin] at ho
              subst ho
              exact ⟨hc1, rfl, .inl ⟨n, by simpa [sk] using hp, rfl, rfl⟩⟩
            | err e =>
              simp only [hp, Option.some.injEq, Prod.mk.injEq] at hr2
              obtain ⟨rfl, rfl⟩ := hr2
              subst ho
              refine ⟨by rw [hc1]; exact (logEv_fields st cfg _).1, rfl, .inr ⟨?_, rfl, rfl⟩⟩
              intro n hn
              simp only [sk] at hn
              rw [hp] at hn; cases hn
            | panic s =>
              simp only [hp, Option.some.injEq, Prod.mk.injEq] at hr2
              obtain ⟨rfl, rfl⟩ := hr2
              subst ho
              refine ⟨hc1, rfl, .inr ⟨?_, rfl, rfl⟩⟩
              intro n hn
              simp only [sk] at hn
              rw [hp] at hn; cases hn

/-- `Trim(terminal)` answers with three units of fuel -/
theorem run_trimT_halts (cfg : Cfg) (h0 : cfg.maxCalls = 0) (f : Nat) (t : Terminal) (ctx : Ctx) (pos : Nat) (st : St) :
    ∃ x, run cfg (f + 3) (trimT t) ctx pos st = some x := by
  unfold trimT
  rw [run_rtrim, run_ltrim, run_term]
  simp only [h0, ne_eq, not_true_eq_false, false_and, ↓reduceIte]
  cases t.parse cfg.params cfg.file (skipWhitespaces cfg.file pos .spacesNl).1 <;> exact ⟨_, rfl⟩

/-! ### completeness: the reuse invariant with `DC` -/

def OutC (cfg : Cfg) (g : G) (ctx : Ctx) (pos : Nat) (o : Out) : Prop :=
  ∀ (c' : Nat → Nat) (x : Node), (∀ k ∈ o.cp, ctx.get k ≤ c' k) → DC cfg c' g pos x → x ∈ o.res.alts

structure EntryC (cfg : Cfg) (bodyOf : Nat → G) (e : CacheEntry) : Prop where
  keys : ∀ kv ∈ e.ctx, kv.1 ∈ e.cp
  complete : ∀ (c' : Nat → Nat) (x : Node), (∀ kv ∈ e.ctx, kv.2 ≤ c' kv.1) →
      DC cfg c' (.memo e.idx (bodyOf e.idx)) e.pos x → x ∈ e.res.alts
  noEOF : NoEOF e.res

def CacheC (cfg : Cfg) (bodyOf : Nat → G) (st : St) : Prop := ∀ e ∈ st.cache, EntryC cfg bodyOf e

def RunCompleteOK (cfg : Cfg) (bodyOf : Nat → G) (r : RunFn) : Prop :=
  ∀ g ctx pos st o st', Frag cfg false g → GOK bodyOf g → CacheC cfg bodyOf st → r g ctx pos st = some (o, st') →
    OutC cfg g ctx pos o ∧ NoEOF o.res ∧ CacheC cfg bodyOf st'

theorem CacheC_of_eq {cfg : Cfg} {bodyOf : Nat → G} {st st' : St} (h : CacheC cfg bodyOf st)
    (e : st'.cache = st.cache) : CacheC cfg bodyOf st' := by
  unfold CacheC; rw [e]; exact h

theorem anyLoop_complete (cfg : Cfg) (bodyOf : Nat → G) (r : RunFn) (hr : RunCompleteOK cfg bodyOf r)
    (ctx : Ctx) (pos : Nat) :
    ∀ (gs : List G), (∀ g ∈ gs, Frag cfg false g ∧ GOK bodyOf g) →
      ∀ a st a' st', CacheC cfg bodyOf st → NoEOF a.res → anyLoop r ctx pos gs a st = some (a', st') →
        CacheC cfg bodyOf st' ∧ NoEOF a'.res ∧ (∀ x ∈ a.res.alts, x ∈ a'.res.alts) ∧ (∀ k ∈ a.cp, k ∈ a'.cp) ∧
        ∀ g ∈ gs, ∀ (c' : Nat → Nat) (x : Node), (∀ k ∈ a'.cp, ctx.get k ≤ c' k) → DC cfg c' g pos x →
          x ∈ a'.res.alts := by
  intro gs
  induction gs with
  | nil =>
    intro _ a st a' st' hC hN h
    simp only [anyLoop] at h
    cases h
    exact ⟨hC, hN, fun x hx => hx, fun k hk => hk, (by intro g hg; cases hg)⟩
  | cons g gs ih =>
    intro hgs a st a' st' hC hN h
    simp only [anyLoop] at h
    split at h
    · cases h
    · rename_i o st1 hrun
      obtain ⟨hg1, hg2⟩ := hgs g (List.mem_cons_self ..)
      obtain ⟨hO, hNo, hC1⟩ := hr g ctx pos st.regCall o st1 hg1 hg2 (CacheC_of_eq hC rfl) hrun
      obtain ⟨f1, f2, _, _⟩ := altErr_fields pos { a with cp := cpUnion a.cp o.cp, res := appendNode a.res o.res } o.err
      have hN1 : NoEOF (altErr pos { a with cp := cpUnion a.cp o.cp, res := appendNode a.res o.res } o.err).res := by
        rw [f2]; exact NoEOF_append hN hNo
      obtain ⟨c1, c2, c3, c4, c5⟩ := ih (fun g' hg' => hgs g' (List.mem_cons_of_mem _ hg')) _ _ _ _ hC1 hN1 h
      rw [f2] at c3
      rw [f1] at c4
      refine ⟨c1, c2, fun x hx => c3 x (mem_appendNode_left _ _ _ hx), fun k hk => c4 k (mem_cpUnion_left _ _ _ hk), ?_⟩
      intro g' hg' c' x hdom hd
      cases hg' with
      | head =>
        refine c3 x (mem_appendNode_right _ _ _ (hO c' x ?_ hd))
        intro k hk
        exact hdom k (c4 k (mem_cpUnion_right _ _ _ hk))
      | tail _ hm => exact c5 g' hm c' x hdom hd

theorem seqParse_complete (cfg : Cfg) (bodyOf : Nat → G) (r : RunFn) (hr : RunCompleteOK cfg bodyOf r)
    (sh : SeqShape)
    (hlook : ∀ d g', sh.lookup d = some g' → Frag cfg false g' ∧ GOK bodyOf g')
    (hlc : ∀ d g', sh.lookup d = some g' → sh.lenCheck d = false)
    (htok : sh.token ≠ eofTok) (pos0 : Nat) :
    ∀ (fuel : Nat) (fr : Frame) ss st b ss' st',
      CacheC cfg bodyOf st → fr.depth = fr.nodes.length → (fr.merge = false → fr.ctx = []) →
      (∀ n ∈ fr.nodes, n.token ≠ eofTok) → endOf pos0 fr.nodes = fr.pos →
      seqParse r sh fuel fr.depth fr.nodes fr.ctx fr.pos fr.merge ss st = some (b, ss', st') →
      b = false ∧ CacheC cfg bodyOf st' ∧ SeqLe ss ss' ∧
      ∀ (c' : Nat → Nat) (rest : List Node), (fr.merge = true → ∀ k ∈ ss'.cp, fr.ctx.get k ≤ c' k) →
        DCSeq cfg c' sh fr.depth fr.pos rest → sh.lenCheck (fr.depth + rest.length) = true →
        handleResult sh pos0 (fr.nodes ++ rest) ∈ ss'.result.alts := by
  intro fuel
  induction fuel with
  | zero => intro fr ss st b ss' st' _ _ _ _ _ h; simp [seqParse] at h
  | succ fuel ih =>
    intro fr ss st b ss' st' hC hd hm hne hend h
    rw [seqParse_succ] at h
    generalize hstep : seqStep r sh fr st = step at h
    unfold seqStep at hstep
    cases step with
    | none => simp at h
    | some p =>
    obtain ⟨o, st1⟩ := p
    simp only at h
    have hfacts : CacheC cfg bodyOf st1 ∧ NoEOF o.res ∧
        (∀ g', sh.lookup fr.depth = some g' → OutC cfg g' fr.ctx fr.pos o) ∧
        (sh.lookup fr.depth = none → o.res.isNil = true) := by
      cases hl : sh.lookup fr.depth with
      | none =>
        simp only [hl] at hstep
        cases hstep
        exact ⟨hC, NoEOF_nil, (by intro g' hg'; cases hg'), fun _ => rfl⟩
      | some g' =>
        simp only [hl] at hstep
        obtain ⟨hg1, hg2⟩ := hlook _ _ hl
        obtain ⟨hO, hN, hC1⟩ := hr g' fr.ctx fr.pos st.regCall o st1 hg1 hg2 (CacheC_of_eq hC rfl) hstep
        exact ⟨hC1, hN, (by intro g'' hg''; cases hg''; exact hO), (by intro hc; cases hc)⟩
    obtain ⟨hC1, hNo, hOut, hnone⟩ := hfacts
    have hdomEl : ∀ (c' : Nat → Nat) (fin : SeqSt), SeqLe (seqAfter fr.merge ss o) fin →
        (fr.merge = true → ∀ k ∈ fin.cp, fr.ctx.get k ≤ c' k) → ∀ k ∈ o.cp, fr.ctx.get k ≤ c' k := by
      intro c' fin hle hdom k hk
      cases hmg : fr.merge with
      | true =>
        refine hdom hmg k (hle.2.1 k ?_)
        rw [hmg]; exact seqAfter_cp_right ss o k hk
      | false => rw [hm hmg]; exact Nat.zero_le _
    have hemitEq : handleResult sh fr.pos (if fr.depth > 0 then fr.nodes else []) = handleResult sh pos0 fr.nodes := by
      have hn : (if fr.depth > 0 then fr.nodes else []) = fr.nodes := by
        split
        · rfl
        · have : fr.nodes.length = 0 := by omega
          exact (List.length_eq_zero_iff.mp this).symm
      rw [hn]
      cases hnn : fr.nodes with
      | nil => rw [hnn] at hend; simp only [endOf_nil] at hend; rw [hend]
      | cons a b => exact handleResult_pos_irrel sh _ _ _ (by simp)
    by_cases hnil : o.res.isNil = true
    · have halts : o.res.alts = [] := alts_nil_of_isNil hnil
      have hnocons : ∀ (c' : Nat → Nat) (n : Node) (rest1 : List Node) (fin : SeqSt), SeqLe (seqAfter fr.merge ss o) fin →
          (fr.merge = true → ∀ k ∈ fin.cp, fr.ctx.get k ≤ c' k) →
          ¬ DCSeq cfg c' sh fr.depth fr.pos (n :: rest1) := by
        intro c' n rest1 fin hle hdom hds
        cases hds with
        | cons hl' hn' _ =>
          have := hOut _ hl' c' n (hdomEl c' fin hle hdom) hn'
          rw [halts] at this; cases this
      simp only [hnil, ↓reduceIte] at h
      by_cases hlcd : sh.lenCheck fr.depth = true
      · simp only [hlcd, ↓reduceIte] at h
        injection h with h
        injection h with hb h
        injection h with hs hst
        subst hb hs hst
        have hle : SeqLe (seqAfter fr.merge ss o) (seqEmit sh fr (seqAfter fr.merge ss o)) := by
          refine ⟨fun x hx => mem_appendNode_left _ _ _ hx, fun k hk => hk, ?_⟩
          intro hN
          refine NoEOF_append hN ?_
          intro x hx
          simp only [Res.alts, List.mem_singleton] at hx
          subst hx
          rw [hemitEq]
          exact handleResult_token sh pos0 fr.nodes htok hne
        refine ⟨emitB_false fr hne, hC1, (SeqLe_after _ _ _).trans hle, ?_⟩
        intro c' rest hdom hds _
        cases rest with
        | nil =>
          rw [List.append_nil]
          simp only [seqEmit]
          refine mem_appendNode_right _ _ _ ?_
          rw [hemitEq]; simp [Res.alts]
        | cons n rest1 => exact absurd hds (hnocons c' n rest1 _ hle hdom)
      · simp only [hlcd] at h
        injection h with h
        injection h with hb h
        injection h with hs hst
        subst hb hs hst
        refine ⟨rfl, hC1, SeqLe_after _ _ _, ?_⟩
        intro c' rest hdom hds hlen
        cases rest with
        | nil => simp only [List.length_nil, Nat.add_zero] at hlen; exact absurd hlen hlcd
        | cons n rest1 => exact absurd hds (hnocons c' n rest1 _ (SeqLe.refl _) hdom)
    · have hnil' : o.res.isNil = false := by simpa using hnil
      simp only [hnil', Bool.false_eq_true, ↓reduceIte] at h
      obtain ⟨g', hl⟩ : ∃ g', sh.lookup fr.depth = some g' := by
        cases hl : sh.lookup fr.depth with
        | none => exact absurd (hnone hl) hnil
        | some g' => exact ⟨g', rfl⟩
      have hnext : ∀ n ∈ o.res.alts, (fr.next n).depth = (fr.next n).nodes.length ∧
          ((fr.next n).merge = false → (fr.next n).ctx = []) ∧
          (∀ m ∈ (fr.next n).nodes, m.token ≠ eofTok) ∧ endOf pos0 (fr.next n).nodes = (fr.next n).pos := by
        intro n hn
        refine ⟨by simp [Frame.next, hd], ?_, ?_, by simp only [Frame.next]; exact endOf_snoc _ _ _⟩
        · intro hmf
          simp only [Frame.next] at hmf ⊢
          by_cases hc : n.rpos > fr.pos
          · simp [hc]
          · simp only [hc, decide_false, Bool.not_false, Bool.and_true] at hmf
            simp only [hc, ↓reduceIte]
            exact hm hmf
        · intro m hmm
          simp only [Frame.next, List.mem_append, List.mem_singleton] at hmm
          cases hmm with
          | inl h1 => exact hne m h1
          | inr h1 => rw [h1]; exact hNo n hn
      obtain ⟨t1, t2, t3, t4⟩ := seqAlts_trace _ (CacheC cfg bodyOf) o.res.alts
        (by
          intro n hn ss2 st2 b2 ss3 st3 hC2 hk
          obtain ⟨n1, n2, n3, n4⟩ := hnext n hn
          obtain ⟨i1, i2, i3, _⟩ := ih (fr.next n) ss2 st2 b2 ss3 st3 hC2 n1 n2 n3 n4 hk
          exact ⟨i1, i2, i3⟩)
        _ _ _ _ _ hC1 h
      refine ⟨t1, t2, (SeqLe_after _ _ _).trans t3, ?_⟩
      intro c' rest hdom hds hlen
      cases rest with
      | nil =>
        simp only [List.length_nil, Nat.add_zero] at hlen
        rw [hlc _ _ hl] at hlen; cases hlen
      | cons n rest1 =>
        cases hds with
        | cons hl' hn' hrest =>
          have hnm : n ∈ o.res.alts := hOut _ hl' c' n (hdomEl c' ss' t3 hdom) hn'
          obtain ⟨ss2, st2, ss3, st3, hC2, hk, hle3⟩ := t4 n hnm
          obtain ⟨n1, n2, n3, n4⟩ := hnext n hnm
          obtain ⟨_, _, _, i4⟩ := ih (fr.next n) ss2 st2 false ss3 st3 hC2 n1 n2 n3 n4 hk
          have := i4 (if n.rpos > fr.pos then zeroC else c') rest1 ?_ (by simpa [Frame.next] using hrest)
            (by simpa [Frame.next, Nat.add_assoc, Nat.add_comm 1] using hlen)
          · refine hle3.1 _ ?_
            simpa [Frame.next, List.append_assoc] using this
          · intro hmg k hk3
            simp only [Frame.next] at hmg ⊢
            by_cases hc : n.rpos > fr.pos
            · simp [hc] at hmg
            · simp only [hc, decide_false, Bool.not_false, Bool.and_true] at hmg
              simp only [hc, ↓reduceIte]
              exact hdom hmg k (hle3.2.1 k hk3)

theorem GOK_mem {bodyOf : Nat → G} {gs : List G} (h : AllList (LocalOK bodyOf) gs) : ∀ g ∈ gs, GOK bodyOf g :=
  fun g hg => AllList_mem h g hg

theorem shape_lookup_frag {cfg : Cfg} {b : Bool} {gs : List G} {o : SeqOpts} {sh : SeqShape} (hf : FragL cfg b gs)
    (hs : (G.seq .seqOf gs o).shape = some sh) (i : Nat) (g' : G) (hl : sh.lookup i = some g') : Frag cfg b g' := by
  simp only [G.shape, Option.some.injEq] at hs
  subst hs
  exact FragL_mem hf g' (List.mem_of_getElem? hl)

theorem run_completeT (cfg : Cfg) (bodyOf : Nat → G) (henv : ∀ g' ∈ cfg.env, Frag cfg false g' ∧ GOK bodyOf g') :
    ∀ fuel, RunCompleteOK cfg bodyOf (run cfg fuel) := by
  intro fuel
  induction fuel with
  | zero => intro g ctx pos st o st' _ _ _ h; simp [run] at h
  | succ fuel ih =>
    intro g ctx pos st o st' hf hg hcs h
    cases g with
    | seq k gs so =>
      obtain ⟨rfl, htk, hfl⟩ := Frag_seq hf
      obtain ⟨sh, hsh⟩ : ∃ sh, (G.seq .seqOf gs so).shape = some sh := ⟨_, rfl⟩
      rw [run_seqfam cfg fuel _ sh ctx pos st hsh] at h
      split at h
      · cases h
      · unfold runSeq at h
        split at h
        · cases h
        · rename_i b ss st1 hsp
          have hfin : seqFinish sh pos ss st1 = (o, st') := by injection h
          obtain ⟨s1, s2⟩ := seqOf_shape hsh
          have htok : sh.token ≠ eofTok := by rw [s2]; exact htk
          obtain ⟨_, c2, c3, c4⟩ := seqParse_complete cfg bodyOf (run cfg fuel) ih sh
            (fun d g' hl => ⟨shape_lookup_frag hfl hsh d g' hl, shape_lookup_all hg hsh d g' hl⟩) s1 htok pos fuel
            ⟨0, [], ctx, pos, true⟩ {} st b ss st1 hcs rfl (by intro hc; cases hc) (by intro n hn; cases hn) rfl hsp
          obtain ⟨f1, f2⟩ := seqFinish_res sh pos ss st1
          obtain ⟨f3, f4⟩ := seqFinish_complete sh pos ss st1
          rw [hfin] at f1 f2 f3 f4
          refine ⟨?_, fun x hx => c3.2.2 NoEOF_nil x (f1 x hx), CacheC_of_eq c2 f2⟩
          intro c' x hdom hd
          cases hd with
          | seqOf hs' hds hlen =>
            rename_i sh' nodes
            have : sh' = sh := by rw [hsh] at hs'; injection hs' with e; exact e.symm
            subst this
            refine f3 _ ?_
            have := c4 c' nodes (by intro _ k hk; rw [f4] at hdom; exact hdom k hk) hds
              (by simpa using hlen)
            simpa using this
    | rtrim g1 m =>
      obtain ⟨t, rfl, rfl, hT⟩ := Frag_rtrim hf
      obtain ⟨e1, e2, e3⟩ := run_trimT_res cfg (fuel + 1) t ctx pos st o st' h
      refine ⟨?_, ?_, CacheC_of_eq hcs e1⟩
      · intro c' x _ hd
        cases hd with
        | trim hp =>
          rcases e3 with ⟨n, hn, hres, _⟩ | ⟨hno, _, _⟩
          · rw [hn] at hp; cases hp
            rw [hres]; simp [Res.alts]
          · exact absurd hp (hno _)
      · intro x hx
        rcases e3 with ⟨n, hn, hres, _⟩ | ⟨_, hres, _⟩
        · rw [hres] at hx
          simp only [Res.alts, List.mem_singleton] at hx
          subst hx
          rw [mv_token]; exact hT _ _ hn
        · rw [hres] at hx; cases hx
    | ref k =>
      unfold run at h
      split at h
      · cases h
      · simp only at h
        split at h
        · rename_i g' hk
          obtain ⟨e1, e2⟩ := henv g' (List.mem_of_getElem? hk)
          obtain ⟨h1, h2, h3⟩ := ih g' ctx pos st o st' e1 e2 hcs h
          refine ⟨?_, h2, h3⟩
          intro c' x hdom hd
          cases hd with
          | ref hk' hd' => rw [hk] at hk'; cases hk'; exact h1 c' x hdom hd'
        · rename_i hk
          cases h
          refine ⟨?_, NoEOF_nil, hcs⟩
          intro c' x _ hd
          cases hd with
          | ref hk' hd' => rw [hk'] at hk; cases hk
    | memo idx body =>
      unfold run at h
      split at h
      · cases h
      · simp only at h
        have hg2 : body = bodyOf idx ∧ GOK bodyOf body := by simpa [GOK, G.All, LocalOK] using hg
        have hf2 : Frag cfg false body := by simpa [Frag] using hf
        cases hc : cacheGet st.cache idx pos ctx with
        | some e =>
          simp only [hc] at h
          cases h
          obtain ⟨hm, hi, hp⟩ := cacheGet_some hc
          have hE := hcs e hm
          refine ⟨?_, hE.noEOF, CacheC_of_eq hcs (logEv_fields st cfg _).1⟩
          intro c' x hdom hd
          simp only at hdom
          refine hE.complete c' x ?_ (by rw [hi, hp, ← hg2.1]; exact hd)
          intro kv hkv
          have h1 := cacheGet_ctx hc kv hkv
          have h2 := hdom kv.1 (hE.keys kv hkv)
          omega
        | none =>
          simp only [hc] at h
          by_cases hcur : ctx.get idx > remaining cfg.file pos + Facts.curtailSlack
          · simp only [hcur, ↓reduceIte] at h
            cases h
            refine ⟨?_, NoEOF_nil, CacheC_of_eq hcs (logEv_fields st cfg _).1⟩
            intro c' x hdom hd
            have h1 := hdom idx (by simp)
            cases hd with
            | memo hle _ => omega
          · simp only [hcur, ↓reduceIte] at h
            split at h
            · cases h
            · rename_i o2 st2 hr
              cases h
              have hih := fun hc1 => ih _ _ _ _ _ _ hf2 hg2.2 hc1 hr
              obtain ⟨h1, h2, h3⟩ := hih (CacheC_of_eq hcs (logEv_fields _ cfg _).1)
              have hOut : OutC cfg (.memo idx body) ctx pos o := by
                intro c' x hdom hd
                cases hd with
                | memo hle hd' =>
                  refine h1 (bump c' idx) x ?_ hd'
                  intro k hk
                  by_cases hki : k = idx
                  · subst hki
                    rw [Ctx.get_inc_self]
                    have := hdom k hk
                    simp only [bump, ↓reduceIte]; omega
                  · rw [Ctx.get_inc_other _ _ _ hki]
                    have := hdom k hk
                    simp only [bump, hki, ↓reduceIte]; exact this
              refine ⟨hOut, h2, ?_⟩
              intro e he
              cases mem_cacheSave he with
              | inl h4 =>
                subst h4
                refine ⟨?_, ?_, h2⟩
                · intro kv hkv
                  exact (mem_ctx_filter.mp hkv).2
                · intro c' x hdom hd
                  simp only at hdom hd ⊢
                  rw [← hg2.1] at hd
                  exact hOut c' x (get_le_of_filter hdom) hd
              | inr h4 => exact h3 e h4
    | any gs =>
      unfold run at h
      split at h
      · cases h
      · simp only at h
        have hgs : ∀ g' ∈ gs, Frag cfg false g' ∧ GOK bodyOf g' := by
          have a1 : FragL cfg false gs := by simpa [Frag] using hf
          have a2 : LocalOK bodyOf (.any gs) ∧ AllList (LocalOK bodyOf) gs := by simpa [GOK, G.All] using hg
          exact fun g' hg' => ⟨FragL_mem a1 g' hg', AllList_mem a2.2 g' hg'⟩
        split at h
        · cases h
        · rename_i a st1 hl
          obtain ⟨a1, a2, _, _, a5⟩ := anyLoop_complete cfg bodyOf (run cfg fuel) ih ctx pos gs hgs {} st a st1 hcs NoEOF_nil hl
          have hOut : ∀ (c' : Nat → Nat) (x : Node), (∀ k ∈ a.cp, ctx.get k ≤ c' k) → DC cfg c' (.any gs) pos x →
              x ∈ a.res.alts := by
            intro c' x hdom hd
            cases hd with
            | any hm hd' => exact a5 _ hm c' x hdom hd'
          split at h
          · rename_i hnil
            cases h
            refine ⟨?_, NoEOF_nil, a1⟩
            intro c' x hdom hd
            have := hOut c' x hdom hd
            rw [alts_nil_of_isNil hnil] at this; cases this
          · cases h
            exact ⟨hOut, a2, CacheC_of_eq a1 (setError_ctxErr st1 a.err).2.1⟩
    | term t => simp [Frag] at hf
    | empty => simp [Frag] at hf
    | eof => simp [Frag] at hf
    | choice gs => simp [Frag] at hf
    | optional g' => simp [Frag] at hf
    | name g' nm => simp [Frag] at hf
    | single g' => simp [Frag] at hf
    | suppress g' => simp [Frag] at hf
    | ltrim g' m => simp [Frag] at hf
    | many g' ae o => simp [Frag] at hf
    | sepBy v s ae o => simp [Frag] at hf

/-! ### soundness with the trims read exactly -/

def CacheS (cfg : Cfg) (R : Nat → Nat → Node → Prop) (bodyOf : Nat → G) (st : St) : Prop :=
  ∀ e ∈ st.cache, ∀ x ∈ e.res.alts, DSR cfg R (bodyOf e.idx) e.pos x

def RunSoundOK (cfg : Cfg) (R : Nat → Nat → Node → Prop) (bodyOf : Nat → G) (r : RunFn) : Prop :=
  ∀ g ctx pos st o st', Frag cfg true g → GOK bodyOf g → CacheS cfg R bodyOf st → r g ctx pos st = some (o, st') →
    (∀ x ∈ o.res.alts, DSR cfg R g pos x) ∧ CacheS cfg R bodyOf st'

theorem CacheS_of_eq {cfg : Cfg} {R : Nat → Nat → Node → Prop} {bodyOf : Nat → G} {st st' : St}
    (h : CacheS cfg R bodyOf st) (e : st'.cache = st.cache) : CacheS cfg R bodyOf st' := by
  unfold CacheS; rw [e]; exact h

theorem seqParse_sound (cfg : Cfg) (R : Nat → Nat → Node → Prop) (bodyOf : Nat → G) (r : RunFn)
    (hr : RunSoundOK cfg R bodyOf r) (gs : List G) (so : SeqOpts)
    (sh : SeqShape) (hfl : FragL cfg true gs) (hg : GOK bodyOf (.seq .seqOf gs so))
    (hs : (G.seq .seqOf gs so).shape = some sh) (pos0 : Nat) :
    ∀ (fuel : Nat) (fr : Frame) ss st b ss' st',
      (CacheS cfg R bodyOf st ∧ DSRSeq cfg R sh 0 pos0 fr.nodes ∧ endOf pos0 fr.nodes = fr.pos ∧
        ∀ x ∈ ss.result.alts, DSR cfg R (.seq .seqOf gs so) pos0 x) →
      fr.depth = fr.nodes.length →
      seqParse r sh fuel fr.depth fr.nodes fr.ctx fr.pos fr.merge ss st = some (b, ss', st') →
      (CacheS cfg R bodyOf st → CacheS cfg R bodyOf st') ∧
      ((∀ x ∈ ss.result.alts, DSR cfg R (.seq .seqOf gs so) pos0 x) →
        ∀ x ∈ ss'.result.alts, DSR cfg R (.seq .seqOf gs so) pos0 x) := by
  have hafter : ∀ (m : Bool) (ss : SeqSt) (o : Out), (seqAfter m ss o).result = ss.result := by
    intro m ss o; unfold seqAfter; split <;> rfl
  have hemit : ∀ (fr : Frame) (ss : SeqSt), fr.depth = fr.nodes.length → DSRSeq cfg R sh 0 pos0 fr.nodes →
      endOf pos0 fr.nodes = fr.pos → sh.lenCheck fr.depth = true →
      (∀ x ∈ ss.result.alts, DSR cfg R (.seq .seqOf gs so) pos0 x) →
      ∀ x ∈ (seqEmit sh fr ss).result.alts, DSR cfg R (.seq .seqOf gs so) pos0 x := by
    intro fr ss hd hds hend hlc hres x hx
    simp only [seqEmit] at hx
    cases mem_appendNode _ _ _ hx with
    | inl h1 => exact hres x h1
    | inr h1 =>
      simp only [Res.alts, List.mem_singleton] at h1
      subst h1
      have hn : (if fr.depth > 0 then fr.nodes else []) = fr.nodes := by
        split
        · rfl
        · have : fr.nodes.length = 0 := by omega
          exact (List.length_eq_zero_iff.mp this).symm
      rw [hn]
      have hp : handleResult sh fr.pos fr.nodes = handleResult sh pos0 fr.nodes := by
        cases hnn : fr.nodes with
        | nil => rw [hnn] at hend; simp only [endOf_nil] at hend; rw [hend]
        | cons a b => exact handleResult_pos_irrel sh _ _ _ (by simp)
      rw [hp]
      exact DSR.seqOf hs hds (by rw [← hd]; exact hlc)
  refine seqParse_ind r sh
    (fun fr ss st => CacheS cfg R bodyOf st ∧ DSRSeq cfg R sh 0 pos0 fr.nodes ∧ endOf pos0 fr.nodes = fr.pos ∧
        ∀ x ∈ ss.result.alts, DSR cfg R (.seq .seqOf gs so) pos0 x)
    (fun ss st ss' st' => (CacheS cfg R bodyOf st → CacheS cfg R bodyOf st') ∧
      ((∀ x ∈ ss.result.alts, DSR cfg R (.seq .seqOf gs so) pos0 x) →
        ∀ x ∈ ss'.result.alts, DSR cfg R (.seq .seqOf gs so) pos0 x))
    ?_ ?_ ?_ ?_ ?_
  · intro ss st; exact ⟨id, id⟩
  · intro a b c d e f h1 h2; exact ⟨fun h => h2.1 (h1.1 h), fun h => h2.2 (h1.2 h)⟩
  · intro fr ss st ss' st' hJ hE
    exact ⟨hE.1 hJ.1, hJ.2.1, hJ.2.2.1, hE.2 hJ.2.2.2⟩
  · intro fr ss st g' o st1 hJ hd hl hrun
    obtain ⟨j1, j2, j3, j4⟩ := hJ
    have hg' : GOK bodyOf g' := shape_lookup_all hg hs fr.depth g' hl
    have hf' : Frag cfg true g' := shape_lookup_frag hfl hs fr.depth g' hl
    obtain ⟨hn, hc⟩ := hr g' fr.ctx fr.pos st.regCall o st1 hf' hg' (CacheS_of_eq j1 rfl) hrun
    refine ⟨⟨fun _ => hc, fun h => by rw [hafter]; exact h⟩, ?_, ?_⟩
    · intro n hnm
      refine ⟨hc, ?_, ?_, by rw [hafter]; exact j4⟩
      · simp only [Frame.next]
        exact DSRSeq.snoc j2 (by rw [Nat.zero_add, ← hd]; exact hl) (by rw [j3]; exact hn n hnm)
      · simp only [Frame.next]; exact endOf_snoc _ _ _
    · intro _ hlc
      exact ⟨fun _ => hc, fun h => hemit fr _ hd j2 j3 hlc (by rw [hafter]; exact h)⟩
  · intro fr ss st hJ hd _ hlc
    obtain ⟨j1, j2, j3, j4⟩ := hJ
    exact ⟨id, fun h => hemit fr _ hd j2 j3 hlc (by rw [hafter]; exact h)⟩

theorem run_soundT (cfg : Cfg) (R : Nat → Nat → Node → Prop) (hR : Closed cfg R) (bodyOf : Nat → G)
    (henv : ∀ g' ∈ cfg.env, Frag cfg true g' ∧ GOK bodyOf g') :
    ∀ fuel, RunSoundOK cfg R bodyOf (run cfg fuel) := by
  intro fuel
  induction fuel with
  | zero => intro g ctx pos st o st' _ _ _ h; simp [run] at h
  | succ fuel ih =>
    intro g ctx pos st o st' hf hg hcs h
    cases g with
    | seq k gs so =>
      obtain ⟨rfl, _, hfl⟩ := Frag_seq hf
      obtain ⟨sh, hsh⟩ : ∃ sh, (G.seq .seqOf gs so).shape = some sh := ⟨_, rfl⟩
      rw [run_seqfam cfg fuel _ sh ctx pos st hsh] at h
      split at h
      · cases h
      · unfold runSeq at h
        split at h
        · cases h
        · rename_i b ss st1 hsp
          cases h
          have hE := seqParse_sound cfg R bodyOf (run cfg fuel) ih gs so sh hfl hg hsh pos fuel
            ⟨0, [], ctx, pos, true⟩ {} st b ss st1
            ⟨hcs, .nil, rfl, (by intro x hx; cases hx)⟩ rfl hsp
          obtain ⟨f1, f2⟩ := seqFinish_res sh pos ss st1
          exact ⟨fun x hx => hE.2 (by intro x hx; cases hx) x (f1 x hx), CacheS_of_eq (hE.1 hcs) f2⟩
    | rtrim g1 m =>
      obtain ⟨t, rfl, rfl, _⟩ := Frag_rtrim hf
      obtain ⟨e1, _, e3⟩ := run_trimT_res cfg (fuel + 1) t ctx pos st o st' h
      refine ⟨?_, CacheS_of_eq hcs e1⟩
      intro x hx
      rcases e3 with ⟨n, hn, hres, _⟩ | ⟨_, hres, _⟩
      · rw [hres] at hx
        simp only [Res.alts, List.mem_singleton] at hx
        subst hx
        exact DSR.trim hn
      · rw [hres] at hx; cases hx
    | ref k =>
      unfold run at h
      split at h
      · cases h
      · simp only at h
        split at h
        · rename_i g' hk
          obtain ⟨e1, e2⟩ := henv g' (List.mem_of_getElem? hk)
          obtain ⟨h1, h2⟩ := ih g' ctx pos st o st' e1 e2 hcs h
          exact ⟨fun x hx => .ref (hR k g' pos x hk (h1 x hx)), h2⟩
        · cases h
          exact ⟨(by intro x hx; cases hx), hcs⟩
    | memo idx body =>
      unfold run at h
      split at h
      · cases h
      · simp only at h
        have hg2 : body = bodyOf idx ∧ GOK bodyOf body := by simpa [GOK, G.All, LocalOK] using hg
        have hf2 : Frag cfg true body := by simpa [Frag] using hf
        cases hc : cacheGet st.cache idx pos ctx with
        | some e =>
          simp only [hc] at h
          cases h
          obtain ⟨hm, hi, hp⟩ := cacheGet_some hc
          refine ⟨?_, CacheS_of_eq hcs (logEv_fields st cfg _).1⟩
          intro x hx
          have := hcs e hm x hx
          rw [hi, hp, ← hg2.1] at this
          exact .memo this
        | none =>
          simp only [hc] at h
          by_cases hcur : ctx.get idx > remaining cfg.file pos + Facts.curtailSlack
          · simp only [hcur, ↓reduceIte] at h
            cases h
            exact ⟨(by intro x hx; cases hx), CacheS_of_eq hcs (logEv_fields st cfg _).1⟩
          · simp only [hcur, ↓reduceIte] at h
            split at h
            · cases h
            · rename_i o2 st2 hr
              cases h
              have hih := fun hc1 => ih _ _ _ _ _ _ hf2 hg2.2 hc1 hr
              obtain ⟨h1, h2⟩ := hih (CacheS_of_eq hcs (logEv_fields _ cfg _).1)
              refine ⟨fun x hx => .memo (h1 x hx), ?_⟩
              intro e he x hx
              cases mem_cacheSave he with
              | inl h3 => subst h3; simp only at hx ⊢; rw [← hg2.1]; exact h1 x hx
              | inr h3 => exact h2 e h3 x hx
    | any gs =>
      unfold run at h
      split at h
      · cases h
      · simp only at h
        have hfl : FragL cfg true gs := by simpa [Frag] using hf
        have hgs : AllList (LocalOK bodyOf) gs := by
          have : LocalOK bodyOf (.any gs) ∧ AllList (LocalOK bodyOf) gs := by simpa [GOK, G.All] using hg
          exact this.2
        split at h
        · cases h
        · rename_i a st1 hl
          have hA := anyLoop_ind (run cfg fuel) ctx pos
            (fun a s => (∀ x ∈ a.res.alts, DSR cfg R (.any gs) pos x) ∧ CacheS cfg R bodyOf s) gs
            (by
              intro g' hg' a s o' s' hA hr
              obtain ⟨h1, h2⟩ := ih g' ctx pos s.regCall o' s' (FragL_mem hfl g' hg') (AllList_mem hgs g' hg')
                (CacheS_of_eq hA.2 rfl) hr
              refine ⟨?_, h2⟩
              rw [(altErr_fields pos _ o'.err).2.1]
              intro x hx
              cases mem_appendNode _ _ _ hx with
              | inl h3 => exact hA.1 x h3
              | inr h3 => exact .any hg' (h1 x h3))
            {} st a st1 ⟨(by intro x hx; cases hx), hcs⟩ hl
          split at h
          · cases h
            exact ⟨(by intro x hx; cases hx), hA.2⟩
          · cases h
            exact ⟨hA.1, CacheS_of_eq hA.2 (setError_ctxErr st1 a.err).2.1⟩
    | term t => simp [Frag] at hf
    | empty => simp [Frag] at hf
    | eof =>
      unfold run at h
      split at h
      · cases h
      · simp only at h
        split at h
        · rename_i he
          cases h
          refine ⟨?_, hcs⟩
          intro x hx
          simp only [Res.alts, List.mem_singleton] at hx
          subst hx; exact .eof he
        · cases h
          exact ⟨(by intro x hx; cases hx), CacheS_of_eq hcs (logEv_fields st cfg _).1⟩
    | choice gs => simp [Frag] at hf
    | optional g' => simp [Frag] at hf
    | name g' nm => simp [Frag] at hf
    | single g' => simp [Frag] at hf
    | suppress g' => simp [Frag] at hf
    | ltrim g' m => simp [Frag] at hf
    | many g' ae o => simp [Frag] at hf
    | sepBy v s ae o => simp [Frag] at hf

end PV.A05
