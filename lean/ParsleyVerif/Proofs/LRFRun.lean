/-
  C03, the syntactic link: in a grammar accepted by the certificate `lrf` (Spec/LRF.lean) no memoized body
  is ever started while it is running at the same position, and nothing is curtailed.

  Invariant of a call `run g ctx pos st` (by induction on fuel, on top of the positional invariant `run_pos`
  and the soundness of `mayBeEmpty`, `run_cons`):

    `Disj`     — no frame `(i, pos)` of the activation stack at the CURRENT position has its index `i` among
                 the Memoize indexes that `g` can enter at its start position (`lrfMemos`);
    `CtxExact` — the left-recursion context counts EXACTLY the frames at the current position
                 (`ctx.get k = actCount st.active k pos`; `ActOK` of RunPos.lean is the inequality `≥`);
    `Clean`    — the ghost log has no curtail event and only body events of depth 1.

  Descending to a sub-parser at a left position shrinks `lrfMemos` (a reference: closure (i) of the
  certificate); entering `memo i b` pushes `(i, pos)`, and `i ∉ lrfMemos b` is condition (ii); an element of
  a sequence that is reached after a consuming element runs at a later position, where the stack has no
  frame at all and the context was reset; an element reached at the same position is a left position
  because every earlier element returned a zero-width node, hence may be empty (`run_cons`).
  At a Memoize entry `Disj` gives `actCount = 0`, so the logged depth is 1, and `CtxExact` gives
  `ctx.get i = 0`, so the curtailment test fails.
-/
import ParsleyVerif.Spec.LRF
import ParsleyVerif.Proofs.WFCons
import ParsleyVerif.Proofs.MemoBasics
namespace PV.LRF
open PV PV.Text

/-! ### `lrfMemos` at left positions -/

theorem memosAny_mem {c : LRFCert} : ∀ {gs : List G} {g : G}, g ∈ gs → ∀ i ∈ lrfMemos c g, i ∈ lrfMemosAny c gs
  | [], g, hg, _, _ => by cases hg
  | g' :: gs, g, hg, k, hk => by
    simp only [lrfMemosAny, List.mem_append]
    cases hg with
    | head => exact .inl hk
    | tail _ hm => exact .inr (memosAny_mem hm k hk)

theorem memosSeq_lookup {c : LRFCert} : ∀ (gs : List G) (d : Nat) (gd : G),
    (∀ i, i < d → ∀ gi, gs[i]? = some gi → mayBeEmpty c.wf gi = true) → gs[d]? = some gd →
    ∀ k ∈ lrfMemos c gd, k ∈ lrfMemosSeq c gs
  | [], d, gd, _, hl => by simp at hl
  | g :: gs, 0, gd, _, hl => by
    simp only [List.getElem?_cons_zero, Option.some.injEq] at hl
    subst hl
    intro k hk
    simp only [lrfMemosSeq, List.mem_append]
    exact .inl hk
  | g :: gs, d + 1, gd, hprev, hl => by
    have h0 := hprev 0 (by omega) g rfl
    intro k hk
    simp only [lrfMemosSeq, h0, ↓reduceIte, List.mem_append]
    exact .inr (memosSeq_lookup gs d gd
      (fun i hi gi hgi => hprev (i + 1) (by omega) gi (by simpa using hgi)) (by simpa using hl) k hk)

/-- element `d` of a Sequence-family parser is a left position when every earlier element may be empty -/
theorem memos_lookup {c : LRFCert} {cfg : Cfg} {g : G} {sh : SeqShape} (hs : g.shape = some sh)
    (hloc : LocalP c.wf cfg g) (d : Nat) (gd : G)
    (hprev : ∀ i, i < d → ∀ gi, sh.lookup i = some gi → mayBeEmpty c.wf gi = true)
    (hl : sh.lookup d = some gd) : ∀ k ∈ lrfMemos c gd, k ∈ lrfMemos c g := by
  cases g with
  | seq k gs o =>
    simp only [G.shape, Option.some.injEq] at hs
    subst hs
    simp only at hl hprev
    simp only [lrfMemos]
    exact memosSeq_lookup gs d gd hprev hl
  | many g1 ae o =>
    simp only [G.shape, Option.some.injEq] at hs
    subst hs
    simp only [Option.some.injEq] at hl hprev
    subst hl
    simp only [lrfMemos]
    exact fun k hk => hk
  | sepBy v s ae o =>
    simp only [G.shape, Option.some.injEq] at hs
    subst hs
    simp only [LocalP] at hloc
    simp only at hl hprev
    simp only [lrfMemos, List.mem_append]
    intro k hk
    match d, hprev, hl with
    | 0, _, hl => simp at hl; subst hl; exact .inl hk
    | 1, hprev, hl =>
      simp at hl; subst hl
      have hv := hprev 0 (by omega) v (by simp)
      simp only [hv, ↓reduceIte]
      exact .inr hk
    | d + 2, hprev, _ =>
      have hv := hprev 0 (by omega) v (by simp)
      have hs' := hprev 1 (by omega) s (by simp)
      exact absurd ⟨hv, hs'⟩ hloc
  | _ => simp [G.shape] at hs

/-! ### the ghost log -/

/-- nothing curtailed, nothing re-entered -/
def Clean (log : List Ev) : Prop := NoCurtail log ∧ NoReentry log

theorem Clean_cons {log : List Ev} {ev : Ev} (h : Clean log) (h1 : ∀ i p, ev ≠ .curtail i p)
    (h2 : ∀ i p d, ev = .body i p d → d = 1) : Clean (ev :: log) := by
  refine ⟨fun i p hm => ?_, fun i p d hm => ?_⟩
  · cases hm with
    | head => exact h1 i p rfl
    | tail _ hm => exact h.1 i p hm
  · cases hm with
    | head => exact h2 i p d rfl
    | tail _ hm => exact h.2 i p d hm

theorem Clean_logEv {cfg : Cfg} {st : St} {ev : Ev} (h : Clean st.log) (h1 : ∀ i p, ev ≠ .curtail i p)
    (h2 : ∀ i p d, ev = .body i p d → d = 1) : Clean (st.logEv cfg ev).log := by
  cases (logEv_fields st cfg ev).2.2.2.2 with
  | inl e => rw [e]; exact h
  | inr e => rw [e]; exact Clean_cons h h1 h2

/-! ### the activation stack -/

theorem actCount_zero {act : List (Nat × Nat)} {k pos : Nat} (h : ∀ a ∈ act, ¬ (a.1 = k ∧ a.2 = pos)) :
    actCount act k pos = 0 := by
  unfold actCount
  rw [List.length_eq_zero_iff, List.filter_eq_nil_iff]
  intro a ha
  have := h a ha
  simpa only [Bool.and_eq_true, beq_iff_eq] using this

theorem actCount_zero_of_lt {act : List (Nat × Nat)} {p q : Nat} (k : Nat) (h : ∀ a ∈ act, a.2 ≤ p) (hq : p < q) :
    actCount act k q = 0 :=
  actCount_zero (fun a ha hc => by have := h a ha; omega)

theorem actCount_cons_self (act : List (Nat × Nat)) (k pos : Nat) :
    actCount ((k, pos) :: act) k pos = actCount act k pos + 1 := by
  simp [actCount]

theorem actCount_cons_other (act : List (Nat × Nat)) (idx k pos : Nat) (hk : k ≠ idx) :
    actCount ((idx, pos) :: act) k pos = actCount act k pos := by
  have : (idx == k) = false := by
    simp only [beq_eq_false_iff_ne, ne_eq]; exact fun e => hk e.symm
  simp [actCount, this]

/-- no frame at the current position belongs to a Memoize that `g` can enter at its start position -/
def Disj (c : LRFCert) (g : G) (pos : Nat) (act : List (Nat × Nat)) : Prop :=
  ∀ a ∈ act, a.2 = pos → a.1 ∉ lrfMemos c g

theorem Disj.mono {c : LRFCert} {g g' : G} {pos : Nat} {act : List (Nat × Nat)} (h : Disj c g pos act)
    (hsub : ∀ i ∈ lrfMemos c g', i ∈ lrfMemos c g) : Disj c g' pos act :=
  fun a ha hp hm => h a ha hp (hsub _ hm)

/-- **CtxExact**: the left-recursion context counts exactly the frames at the current position -/
def CtxExact (ctx : Ctx) (pos : Nat) (act : List (Nat × Nat)) : Prop := ∀ k, ctx.get k = actCount act k pos

theorem CtxExact_init (pos : Nat) : CtxExact [] pos [] := fun _ => rfl

theorem CtxExact_memo {ctx : Ctx} {pos : Nat} {act : List (Nat × Nat)} (h : CtxExact ctx pos act) (idx : Nat) :
    CtxExact (ctx.inc idx) pos ((idx, pos) :: act) := by
  intro k
  by_cases hk : k = idx
  · subst hk
    rw [Ctx.get_inc_self, actCount_cons_self, h k]
  · rw [Ctx.get_inc_other _ _ _ hk, actCount_cons_other _ _ _ _ hk, h k]

/-- the step of a sequence: consumed → context reset and no frame at the new position; else unchanged -/
theorem CtxExact_next {ctx : Ctx} {pos p0 : Nat} {act : List (Nat × Nat)} (h : CtxExact ctx pos act)
    (hle : ∀ a ∈ act, a.2 ≤ p0) (hp : p0 ≤ pos) (q : Nat) (hq : pos ≤ q) :
    CtxExact (if q > pos then [] else ctx) q act := by
  by_cases hc : q > pos
  · simp only [hc, ↓reduceIte]
    intro k
    rw [Ctx.get_nil, actCount_zero_of_lt k hle (by omega)]
  · simp only [hc, ↓reduceIte]
    have : q = pos := by omega
    subst this
    exact h

/-! ### the certificate, semantically -/

/-- condition (ii) of the certificate as a predicate on one sub-parser -/
def LrfP (c : LRFCert) : G → Prop
  | .memo i g => i ∉ lrfMemos c g
  | _ => True

structure EnvLRF (c : LRFCert) (cfg : Cfg) : Prop where
  env : EnvOK c.wf cfg
  loc : ∀ g ∈ cfg.env, g.All (LrfP c)
  closed : ∀ k g, cfg.env[k]? = some g → ∀ i ∈ lrfMemos c g, i ∈ c.lm k

/-- the states a call may start in -/
structure LPre (c : LRFCert) (cfg : Cfg) (g : G) (ctx : Ctx) (pos : Nat) (st : St) : Prop where
  good : Good c.wf cfg ctx pos st
  disj : Disj c g pos st.active
  ctxEq : CtxExact ctx pos st.active
  clean : Clean st.log

def RunLrfOK (c : LRFCert) (cfg : Cfg) (r : RunFn) : Prop :=
  ∀ g ctx pos st o st', GWF c.wf cfg g → g.All (LrfP c) → LPre c cfg g ctx pos st →
    r g ctx pos st = some (o, st') → Clean st'.log

/-! ### the Sequence family -/

def LJ (c : LRFCert) (cfg : Cfg) (g : G) (sh : SeqShape) (ctx0 : Ctx) (pos0 : Nat) (act0 : List (Nat × Nat))
    (fr : Frame) (ss : SeqSt) (st : St) : Prop :=
  ConsJ c.wf cfg g sh ctx0 pos0 fr ss st ∧ st.active = act0 ∧ CtxExact fr.ctx fr.pos act0 ∧ Clean st.log

def LE (c : LRFCert) (cfg : Cfg) (g : G) (pos0 : Nat) (ss : SeqSt) (st : St) (ss' : SeqSt) (st' : St) : Prop :=
  ConsE c.wf cfg g pos0 ss st ss' st' ∧ (Clean st.log → Clean st'.log)

theorem seqParse_lrf (c : LRFCert) (cfg : Cfg) (r : RunFn) (hr : RunPosOK cfg r) (hc : RunConsOK c.wf cfg r)
    (hl : RunLrfOK c cfg r) (g : G) (sh : SeqShape) (hg : GWF c.wf cfg g) (hall : g.All (LrfP c))
    (hs : g.shape = some sh) (ctx0 : Ctx) (pos0 : Nat) (act0 : List (Nat × Nat))
    (hdisj : Disj c g pos0 act0) (hle : ∀ a ∈ act0, a.2 ≤ pos0) :
    ∀ (fuel : Nat) (fr : Frame) ss st b ss' st', LJ c cfg g sh ctx0 pos0 act0 fr ss st →
      fr.depth = fr.nodes.length →
      seqParse r sh fuel fr.depth fr.nodes fr.ctx fr.pos fr.merge ss st = some (b, ss', st') →
      LE c cfg g pos0 ss st ss' st' := by
  refine seqParse_ind r sh (LJ c cfg g sh ctx0 pos0 act0) (LE c cfg g pos0) ?_ ?_ ?_ ?_ ?_
  · intro ss st
    exact ⟨ConsE_refl c.wf cfg g pos0 ss st, id⟩
  · intro a b c' d e f h1 h2
    exact ⟨ConsE_trans c.wf cfg g pos0 a b c' d e f h1.1 h2.1, fun h => h2.2 (h1.2 h)⟩
  · intro fr ss st ss' st' hJ hE
    obtain ⟨hJ0, hact, hex, hcl⟩ := hJ
    exact ⟨ConsJ_stable c.wf cfg g sh ctx0 pos0 fr ss st ss' st' hJ0 hE.1,
      by rw [hE.1.1.2.2.1]; exact hact, hex, hE.2 hcl⟩
  · intro fr ss st g' o st1 hJ hd hlk hrun
    obtain ⟨hJ0, hact, hex, hcl⟩ := hJ
    obtain ⟨e1, e2, e3⟩ := ConsJ_call c.wf cfg r hr hc g sh hg hs ctx0 pos0 fr ss st g' o st1 hJ0 hd hlk hrun
    obtain ⟨⟨j1, j2, j3, j4, j5, j6⟩, k1, k2, k3⟩ := hJ0
    have hg' := GWF_lookup hg hs fr.depth g' hlk
    have hall' := shape_lookup_all hall hs fr.depth g' hlk
    have hpre : Pre cfg fr.ctx fr.pos st.regCall := ⟨j1, StOK_regCall j4, j5⟩
    have hpost := hr g' fr.ctx fr.pos st.regCall o st1 hg'.core hpre hrun
    have hdisj' : Disj c g' fr.pos st.regCall.active := by
      show Disj c g' fr.pos st.active
      rw [hact]
      intro a ha hap
      by_cases he : fr.pos = pos0
      · intro hm
        exact hdisj a ha (by omega)
          (memos_lookup hs (G.All_self hg.loc) fr.depth g' (k2 he).2 hlk _ hm)
      · have := hle a ha
        omega
    have hclean1 : Clean st1.log :=
      hl g' fr.ctx fr.pos st.regCall o st1 hg' hall'
        ⟨⟨hpre, CacheCons_of_eq k1 rfl⟩, hdisj', (by show CtxExact fr.ctx fr.pos st.active; rw [hact]; exact hex), hcl⟩
        hrun
    have hact1 : st1.active = act0 := by rw [hpost.active]; exact hact
    refine ⟨⟨e1, fun _ => hclean1⟩, ?_, fun h1 h2 => ⟨e3 h1 h2, fun _ => hclean1⟩⟩
    intro n hn
    refine ⟨e2 n hn, hact1, ?_, hclean1⟩
    obtain ⟨hnp, hnw⟩ := hpost.nodes n hn
    have hb := Node.WF_bounds cfg.hi n hnw
    simp only [Frame.next]
    exact CtxExact_next hex hle j2 n.rpos (by omega)
  · intro fr ss st hJ hd hlk hlc
    exact ⟨ConsJ_none c.wf cfg g sh hs ctx0 pos0 fr ss st hJ.1 hd hlk hlc, id⟩

/-! ### the one-child combinators -/

theorem wrap_core_facts {c : LRFCert} {T : Terminal → Prop} {f : File} {pos : Nat} {g : G} {w : Wrap}
    (hg : g.Core T) (hw : g.wrap f pos = some w) :
    w.cpos = pos ∧ w.child.Core T ∧ lrfMemos c w.child = lrfMemos c g := by
  cases g <;> simp only [G.wrap, Option.some.injEq, reduceCtorEq] at hw <;> subst hw <;>
    simp only [G.Core] at hg <;> exact ⟨rfl, hg, by simp only [lrfMemos]⟩

/-! ### the induction -/

theorem run_lrf (c : LRFCert) (cfg : Cfg) (henv : EnvLRF c cfg) : ∀ fuel, RunLrfOK c cfg (run cfg fuel) := by
  intro fuel
  induction fuel with
  | zero => intro g ctx pos st o st' _ _ _ h; simp [run] at h
  | succ fuel ih =>
    intro g ctx pos st o st' hg hall hpre h
    have hposOK : RunPosOK cfg (run cfg fuel) := run_pos cfg henv.env.core fuel
    have hconsOK : RunConsOK c.wf cfg (run cfg fuel) := run_cons c.wf cfg henv.env fuel
    obtain ⟨hgood, hdisj, hex, hcl⟩ := hpre
    cases hsh : g.shape with
    | some sh =>
      rw [run_seqfam cfg fuel g sh ctx pos st hsh] at h
      split at h
      · cases h
      · unfold runSeq at h
        split at h
        · cases h
        · rename_i b ss st1 hsp
          cases h
          have hE := seqParse_lrf c cfg (run cfg fuel) hposOK hconsOK ih g sh hg hall hsh ctx pos st.active
            hdisj hgood.1.2.2.1 fuel ⟨0, [], ctx, pos, true⟩ {} st b ss st1
            ⟨ConsJ_init hgood, rfl, hex, hcl⟩ rfl hsp
          have hc1 := hE.2 hcl
          show Clean (seqFinish sh pos ss st1).2.log
          cases (seqFinish_fields sh pos ss st1).2 with
          | inl e => rw [e]; exact hc1
          | inr e => rw [e, setError_log]; exact hc1
    | none =>
    cases hw : g.wrap cfg.file pos with
    | some w =>
      rw [run_wrap cfg fuel g w ctx pos st hw] at h
      split at h
      · cases h
      · split at h
        · cases h
        · rename_i o1 st1 hr
          cases h
          rw [wrap_fix_eq hw]
          obtain ⟨hp, hcore, hmem⟩ := wrap_core_facts (c := c) hg.core hw
          rw [hp] at hr
          exact ih w.child ctx pos st o1 st1 ⟨hcore, wrap_all hg.loc hw⟩ (wrap_all hall hw)
            ⟨hgood, hdisj.mono (fun i hi => by rw [← hmem]; exact hi), hex, hcl⟩ hr
    | none =>
    unfold run at h
    split at h
    · cases h
    · cases g with
      | term t =>
        simp only at h
        split at h
        · cases h; exact hcl
        · cases h
          exact Clean_logEv hcl (by intro _ _ hc; cases hc) (by intro _ _ _ hc; cases hc)
        · cases h; exact hcl
      | empty => simp only at h; cases h; exact hcl
      | eof =>
        simp only at h
        split at h
        · cases h; exact hcl
        · cases h
          exact Clean_logEv hcl (by intro _ _ hc; cases hc) (by intro _ _ _ hc; cases hc)
      | ref k =>
        simp only at h
        split at h
        · rename_i g' hk
          have hm := List.mem_of_getElem? hk
          exact ih g' ctx pos st o st' (henv.env.rules g' hm) (henv.loc g' hm)
            ⟨hgood, hdisj.mono (fun i hi => by simp only [lrfMemos]; exact henv.closed k g' hk i hi), hex, hcl⟩ h
        · cases h; exact hcl
      | memo idx body =>
        simp only at h
        have hbody : GWF c.wf cfg body := ⟨by simpa [G.Core] using hg.core, by
          have := hg.loc; simp only [G.All] at this; exact this.2⟩
        have hallb : body.All (LrfP c) := by simp only [G.All] at hall; exact hall.2
        have hnot : idx ∉ lrfMemos c body := by simp only [G.All] at hall; exact hall.1
        cases hc : cacheGet st.cache idx pos ctx with
        | some e =>
          simp only [hc] at h
          cases h
          exact Clean_logEv hcl (by intro _ _ hc; cases hc) (by intro _ _ _ hc; cases hc)
        | none =>
          simp only [hc] at h
          -- the Memoize is not on the stack at this position: depth 1, counter 0
          have hz : actCount st.active idx pos = 0 :=
            actCount_zero (fun a ha hc => hdisj a ha hc.2 (by simp only [lrfMemos, hc.1]; exact List.mem_cons_self ..))
          have hcur : ¬ ctx.get idx > remaining cfg.file pos + Facts.curtailSlack := by
            rw [hex idx, hz]; omega
          simp only [hcur, ↓reduceIte] at h
          split at h
          · cases h
          · rename_i o2 st2 hr
            cases h
            show Clean st2.log
            have hpre1 := Pre_memo_body idx hgood.1 hcur
            have hf := logEv_fields ({ st with active := (idx, pos) :: st.active }) cfg
              (.body idx pos ((st.active.filter (fun a : Nat × Nat => a.1 == idx && a.2 == pos)).length + 1))
            simp only at hf
            have hlen : (st.active.filter (fun a : Nat × Nat => a.1 == idx && a.2 == pos)).length = 0 := hz
            have hcl1 : Clean (({ st with active := (idx, pos) :: st.active } : St).logEv cfg
                (.body idx pos ((st.active.filter (fun a : Nat × Nat => a.1 == idx && a.2 == pos)).length + 1))).log :=
              Clean_logEv (st := { st with active := (idx, pos) :: st.active }) hcl (by intro _ _ hc; cases hc)
                (by intro _ _ d hc; cases hc; omega)
            refine ih body (ctx.inc idx) pos _ o st2 hbody hallb
              ⟨⟨hpre1, CacheCons_of_eq hgood.2 (memo_body_cache cfg st idx pos _)⟩, ?_, ?_, hcl1⟩ hr
            · rw [hf.2.2.2.1]
              intro a ha hap
              cases ha with
              | head => exact hnot
              | tail _ ha =>
                intro hm
                exact hdisj a ha hap (by simp only [lrfMemos]; exact List.mem_cons_of_mem _ hm)
            · rw [hf.2.2.2.1]
              exact CtxExact_memo hex idx
      | any gs =>
        simp only at h
        have hgs : ∀ g' ∈ gs, GWF c.wf cfg g' :=
          GWF_list (by simpa [G.Core] using hg.core) (by have := hg.loc; simp only [G.All] at this; exact this.2)
        have halls : ∀ g' ∈ gs, g'.All (LrfP c) := by
          simp only [G.All] at hall; exact AllList_mem hall.2
        split at h
        · cases h
        · rename_i a st1 hl
          have hA := anyLoop_ind (run cfg fuel) ctx pos
            (fun _ s => Good c.wf cfg ctx pos s ∧ s.active = st.active ∧ Clean s.log) gs
            (by
              intro g' hg' a s o' s' hA hr
              obtain ⟨a1, a2, a3⟩ := hA
              have hgr := Good_regCall a1
              have hpost := hposOK g' ctx pos s.regCall o' s' (hgs g' hg').core hgr.1 hr
              have hcons := hconsOK g' ctx pos s.regCall o' s' (hgs g' hg') hgr hr
              refine ⟨Good_after hgr hpost hcons, by rw [hpost.active]; exact a2, ?_⟩
              exact ih g' ctx pos s.regCall o' s' (hgs g' hg') (halls g' hg')
                ⟨hgr, (by
                  show Disj c g' pos s.active
                  rw [a2]
                  exact hdisj.mono (fun i hi => by simp only [lrfMemos]; exact memosAny_mem hg' i hi)),
                  (by show CtxExact ctx pos s.active; rw [a2]; exact hex), a3⟩ hr)
            {} st a st1 ⟨hgood, rfl, hcl⟩ hl
          split at h
          · cases h; exact hA.2.2
          · cases h; rw [setError_log]; exact hA.2.2
      | choice gs =>
        simp only at h
        have hgs : ∀ g' ∈ gs, GWF c.wf cfg g' :=
          GWF_list (by simpa [G.Core] using hg.core) (by have := hg.loc; simp only [G.All] at this; exact this.2)
        have halls : ∀ g' ∈ gs, g'.All (LrfP c) := by
          simp only [G.All] at hall; exact AllList_mem hall.2
        have hF := choiceLoop_ind (run cfg fuel) ctx pos
          (fun _ s => Good c.wf cfg ctx pos s ∧ s.active = st.active ∧ Clean s.log)
          (fun _ _ s => Clean s.log) gs
          (by intro a s hA; exact hA.2.2)
          (by
            intro g' hg' a s o' s' hA hr
            obtain ⟨a1, a2, a3⟩ := hA
            have hgr := Good_regCall a1
            have hpost := hposOK g' ctx pos s.regCall o' s' (hgs g' hg').core hgr.1 hr
            have hcons := hconsOK g' ctx pos s.regCall o' s' (hgs g' hg') hgr hr
            have hc1 : Clean s'.log :=
              ih g' ctx pos s.regCall o' s' (hgs g' hg') (halls g' hg')
                ⟨hgr, (by
                  show Disj c g' pos s.active
                  rw [a2]
                  exact hdisj.mono (fun i hi => by simp only [lrfMemos]; exact memosAny_mem hg' i hi)),
                  (by show CtxExact ctx pos s.active; rw [a2]; exact hex), a3⟩ hr
            exact ⟨fun _ => by rw [setError_log]; exact hc1,
              fun _ => ⟨Good_after hgr hpost hcons, by rw [hpost.active]; exact a2, hc1⟩⟩)
        split at h
        · cases h
        · rename_i o1 a st1 hl
          cases h
          exact hF {} st (some o) a st' ⟨hgood, rfl, hcl⟩ hl
        · rename_i a st1 hl
          cases h
          exact hF {} st none a st' ⟨hgood, rfl, hcl⟩ hl
      | optional g' => simp [G.wrap] at hw
      | name g' nm => simp [G.wrap] at hw
      | single g' => simp [G.wrap] at hw
      | suppress g' => simp [G.wrap] at hw
      | ltrim g' m => simp [G.wrap] at hw
      | rtrim g' m => simp [G.wrap] at hw
      | seq k gs o => simp [G.shape] at hsh
      | many g' ae o => simp [G.shape] at hsh
      | sepBy v s ae o => simp [G.shape] at hsh

end PV.LRF
