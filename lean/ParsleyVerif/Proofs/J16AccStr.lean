/-
  C16, the converse — the String terminal and the string language `IsStrBody` (Spec/J16AccLang.lean), both
  directions, at the level of the terminal's byte specification (`stringSpec`, `Lang.strBody`, `Lang.strElem`):

    `isStrElem_fwd` / `isStrElem_inv`   the element table `IsStrElem` is exactly what `Lang.strElem` reads;
    `stringSpec_fwd`                     on `"` body `"` (whatever follows) the String terminal answers the node
                                         with the decoded value;
    `stringSpec_inv`                     whenever the String terminal answers a node the input starts with
                                         `"` body `"` for a body of the language, and the node carries its value.

  Everything lives in `PV.J16Acc`.
-/
import ParsleyVerif.Spec.J16AccLang
import ParsleyVerif.Props.C08
import ParsleyVerif.Proofs.J16Str
namespace PV.J16Acc
open PV PV.Text

/-! ### one element -/

theorem octDigit_lookup (a : Nat) (h : Lang.octDigit a = true) : Lang.simpleEscapes.lookup a = none := by
  simp [Lang.octDigit] at h
  exact lookup_none a (by omega) (by omega) (by omega) (by omega) (by omega) (by omega) (by omega) (by omega)

theorem hexEscape_append (n : Nat) (any : Bool) (ds t : Bytes) (hl : ds.length = n)
    (hd : ds.all Lang.hexDigit = true) (hv : any = true ∨ Utf8.validRune (Lang.digitsValue 16 ds) = true) :
    Lang.hexEscape n any (ds ++ t) = some (Lang.digitsValue 16 ds, 2 + n) := by
  have ht : (ds ++ t).take n = ds := by rw [← hl]; exact List.take_left
  unfold Lang.hexEscape
  rw [ht, if_pos ⟨by rw [List.length_append]; omega, hd, hv⟩]

/-- an element of the table is read as one element by the body reader, whatever follows: its code point, its width -/
theorem isStrElem_fwd {e : Bytes} {c : Nat} (h : IsStrElem e c) (t : Bytes) :
    Lang.strElem (e ++ t) = some (c, e.length) := by
  cases h with
  | plain h1 h2 h3 h4 h5 =>
    rw [strElem_not_nl _ (by simp; omega)]
    simp only [List.cons_append, List.nil_append, Lang.escElem, List.length_cons, List.length_nil]
    rw [if_neg h4, if_pos h5, if_pos h1]
    simp only
    rw [if_neg (by unfold Utf8.runeError; omega)]
  | simple hmem =>
    simp [Lang.simpleEscapes] at hmem
    rcases hmem with ⟨rfl, rfl⟩ | ⟨rfl, rfl⟩ | ⟨rfl, rfl⟩ | ⟨rfl, rfl⟩ | ⟨rfl, rfl⟩ | ⟨rfl, rfl⟩ | ⟨rfl, rfl⟩ | ⟨rfl, rfl⟩ <;> rfl
  | quote => rfl
  | @hex x n ds hx hl hd hv =>
    rw [strElem_not_nl _ (by simp)]
    have hesc : Lang.escElem 34 (92 :: x :: ds ++ t) = some (Lang.digitsValue 16 ds, 2 + n) := by
      rcases hx with ⟨rfl, rfl⟩ | ⟨rfl, rfl⟩ | ⟨rfl, rfl⟩
      · have : Lang.escElem 34 (92 :: 120 :: ds ++ t) = Lang.hexEscape 2 true (ds ++ t) := rfl
        rw [this, hexEscape_append 2 true ds t hl hd (.inl rfl)]
      · have : Lang.escElem 34 (92 :: 117 :: ds ++ t) = Lang.hexEscape 4 false (ds ++ t) := rfl
        rw [this, hexEscape_append 4 false ds t hl hd (.inr (hv.resolve_left (by omega)))]
      · have : Lang.escElem 34 (92 :: 85 :: ds ++ t) = Lang.hexEscape 8 false (ds ++ t) := rfl
        rw [this, hexEscape_append 8 false ds t hl hd (.inr (hv.resolve_left (by omega)))]
    rw [hesc]
    simp only [List.length_cons, hl]
    rw [if_neg (by omega)]
    congr 2; omega
  | @oct a b c' ha hb hc hle =>
    rw [strElem_not_nl _ (by simp)]
    have hesc : Lang.escElem 34 ([92, a, b, c'] ++ t) = some (Lang.digitsValue 8 [a, b, c'], 4) := by
      have ha' := ha
      simp [Lang.octDigit] at ha'
      simp only [List.cons_append, List.nil_append, Lang.escElem]
      rw [if_neg (by omega), if_neg (by simp)]
      simp only [octDigit_lookup a ha]
      rw [if_neg (by omega), if_neg (by omega), if_neg (by omega), if_neg (by omega), if_pos ha]
      unfold Lang.octEscape
      rw [if_pos]
      · rfl
      · refine ⟨by simp, by simp [hb, hc], ?_⟩
        exact hle
    rw [hesc]
    simp only [List.length_cons, List.length_nil]
    rw [if_neg (by omega)]
  | utf8 h1 hv =>
    obtain ⟨b, t', hbt, hb, ht⟩ := J16.encodeRune_multi c h1 hv
    have hlen : 2 ≤ (Utf8.encodeRune c).length := by
      rw [hbt]; cases t' with
      | nil => exact absurd rfl ht
      | cons _ _ => simp
    rw [strElem_not_nl _ (by simp [hbt]; omega)]
    have hdec := Utf8.decode_encode c t (J16.validScalar_of c hv)
    have hesc : Lang.escElem 34 (Utf8.encodeRune c ++ t) = some (c, (Utf8.encodeRune c).length) := by
      rw [← hdec, hbt, List.cons_append]
      simp only [Lang.escElem]
      rw [if_neg (by omega), if_pos (by omega), if_neg (by omega)]
    rw [hesc]
    simp only
    rw [if_neg (by omega)]


theorem lookup_mem : ∀ (l : List (Nat × Nat)) (e v : Nat), l.lookup e = some v → (e, v) ∈ l := by
  intro l
  induction l with
  | nil => intro e v h; cases h
  | cons p r ih =>
    intro e v h
    obtain ⟨a, b⟩ := p
    rw [List.lookup_cons] at h
    by_cases hea : (e == a) = true
    · rw [hea] at h
      simp only [Option.some.injEq] at h
      have : e = a := by simpa using hea
      subst this; subst h; exact List.mem_cons_self
    · have : (e == a) = false := by simpa using hea
      rw [this] at h
      exact List.mem_cons_of_mem _ (ih e v h)

theorem hexEscape_inv (n : Nat) (any : Bool) (r : Bytes) (c w : Nat) (h : Lang.hexEscape n any r = some (c, w)) :
    w = 2 + n ∧ (r.take n).length = n ∧ (r.take n).all Lang.hexDigit = true ∧ c = Lang.digitsValue 16 (r.take n) ∧
      (any = true ∨ Utf8.validRune (Lang.digitsValue 16 (r.take n)) = true) := by
  unfold Lang.hexEscape at h
  split at h
  · rename_i hc
    simp only [Option.some.injEq, Prod.mk.injEq] at h
    exact ⟨h.2.symm, by rw [List.length_take]; omega, hc.2.1, h.1.symm, hc.2.2⟩
  · cases h

theorem octEscape_inv (e : Nat) (r : Bytes) (c w : Nat) (h : Lang.octEscape e r = some (c, w)) :
    w = 4 ∧ (∃ a b, r.take 2 = [a, b] ∧ Lang.octDigit a = true ∧ Lang.octDigit b = true) ∧
      c = Lang.digitsValue 8 (e :: r.take 2) ∧ Lang.digitsValue 8 (e :: r.take 2) ≤ 255 := by
  unfold Lang.octEscape at h
  split at h
  · rename_i hc
    simp only [Option.some.injEq, Prod.mk.injEq] at h
    refine ⟨h.2.symm, ?_, h.1.symm, hc.2.2⟩
    obtain ⟨h2, hall, _⟩ := hc
    match r, h2, hall with
    | a :: b :: r', _, hall =>
      simp only [List.take_succ_cons, List.take_zero, List.all_cons, List.all_nil, Bool.and_true, Bool.and_eq_true] at hall
      exact ⟨a, b, rfl, hall.1, hall.2⟩
  · cases h

/-- whatever `escElem` reads at a head that is not a raw line break, other than (U+FFFD, 1), is an element of the table -/
theorem escElem_inv (l : Bytes) (c w : Nat) (h : Lang.escElem 34 l = some (c, w))
    (hnl : ¬ (l.head? = some 13 ∨ l.head? = some 10)) (hbad : ¬ (c = Utf8.runeError ∧ w = 1)) :
    IsStrElem (l.take w) c := by
  cases l with
  | nil => cases h
  | cons a r =>
    have ha : a ≠ 10 ∧ a ≠ 13 := by
      simp only [List.head?_cons, Option.some.injEq, not_or] at hnl; omega
    rw [escElem_cons] at h
    by_cases c1 : a = 34
    · rw [if_pos c1] at h; cases h
    rw [if_neg c1] at h
    by_cases c2 : a ≠ 92
    · rw [if_pos c2] at h
      by_cases c3 : a < 0x80
      · rw [if_pos c3] at h
        simp only [Option.some.injEq, Prod.mk.injEq] at h
        obtain ⟨rfl, rfl⟩ := h
        exact IsStrElem.plain c3 ha.2 ha.1 c1 c2
      · rw [if_neg c3] at h
        simp only [Option.some.injEq] at h
        cases Utf8.decodeRune_decoded (a :: r) (by simp) with
        | invalid hi =>
          rw [hi] at h
          simp only [Prod.mk.injEq] at h
          exact absurd ⟨h.1.symm, h.2.symm⟩ hbad
        | valid h1 h2 =>
          rw [h] at h1 h2
          simp only [] at h1 h2
          have hw := Utf8.decodeRune_width (a :: r) (by simp)
          rw [h] at hw
          simp only [] at hw
          have hc : 0x80 ≤ c := by
            apply Nat.le_of_not_lt
            intro hlt
            have e : Utf8.encodeRune c = [c] := by simp [Utf8.encodeRune, hlt]
            rw [e] at h2
            obtain ⟨w', rfl⟩ : ∃ w', w = w' + 1 := ⟨w - 1, by omega⟩
            simp only [List.take_succ_cons, List.cons.injEq] at h2
            omega
          rw [h2]
          exact IsStrElem.utf8 hc (Utf8.validRune_of c h1)
    rw [if_neg c2] at h
    have ha92 : a = 92 := by omega
    subst ha92
    cases r with
    | nil => cases h
    | cons e r2 =>
      simp only [] at h
      cases hl : Lang.simpleEscapes.lookup e with
      | some v =>
        rw [hl] at h
        simp only [Option.some.injEq, Prod.mk.injEq] at h
        obtain ⟨rfl, rfl⟩ := h
        exact IsStrElem.simple (lookup_mem _ _ _ hl)
      | none =>
        rw [hl] at h
        simp only [] at h
        by_cases d0 : e = 34
        · rw [if_pos d0] at h
          simp only [Option.some.injEq, Prod.mk.injEq] at h
          obtain ⟨rfl, rfl⟩ := h
          subst d0
          exact IsStrElem.quote
        rw [if_neg d0] at h
        have hex : ∀ n any, Lang.hexEscape n any r2 = some (c, w) →
            ((e = 120 ∧ n = 2) ∨ (e = 117 ∧ n = 4) ∨ (e = 85 ∧ n = 8)) → (any = true → e = 120) →
            IsStrElem ((92 :: e :: r2).take w) c := by
          intro n any hh he hany
          obtain ⟨hw, hlen, hall, hc, hv⟩ := hexEscape_inv n any r2 c w hh
          rw [hw, take_esc, hc]
          exact IsStrElem.hex he hlen hall (hv.imp hany id)
        by_cases d1 : e = 120
        · rw [if_pos d1] at h; exact hex _ _ h (.inl ⟨d1, rfl⟩) (fun _ => d1)
        rw [if_neg d1] at h
        by_cases d2 : e = 117
        · rw [if_pos d2] at h; exact hex _ _ h (.inr (.inl ⟨d2, rfl⟩)) (fun hf => by cases hf)
        rw [if_neg d2] at h
        by_cases d3 : e = 85
        · rw [if_pos d3] at h; exact hex _ _ h (.inr (.inr ⟨d3, rfl⟩)) (fun hf => by cases hf)
        rw [if_neg d3] at h
        by_cases d4 : Lang.octDigit e = true
        · rw [if_pos d4] at h
          obtain ⟨hw, ⟨x, y, hxy, hx, hy⟩, hc, hle⟩ := octEscape_inv e r2 c w h
          rw [hw]
          show IsStrElem (92 :: e :: r2.take 2) c
          rw [hc, hxy]
          rw [hxy] at hle
          exact IsStrElem.oct d4 hx hy hle
        · rw [if_neg d4] at h; cases h

/-- whatever the body reader reads as one element is an element of the table -/
theorem isStrElem_inv {l : Bytes} {c w : Nat} (h : Lang.strElem l = some (c, w)) :
    IsStrElem (l.take w) c ∧ 1 ≤ w ∧ w ≤ l.length := by
  obtain ⟨hnl, hesc, hbad⟩ := strElem_some l c w h
  exact ⟨escElem_inv l c w hesc hnl hbad, strElem_width l c w h⟩

/-- the first byte of an element: not CR, LF, `"`; a plain byte exactly when the element is that byte alone -/
theorem isStrElem_head' {e : Bytes} {c : Nat} (h : IsStrElem e c) :
    ∃ b t, e = b :: t ∧ b ≠ 13 ∧ b ≠ 10 ∧ b ≠ 34 ∧
      ((Lang.plainByte b = true ∧ t = [] ∧ c = b ∧ b < 0x80) ∨ Lang.plainByte b = false) := by
  cases h with
  | @plain b h1 h2 h3 h4 h5 =>
    refine ⟨_, [], rfl, h2, h3, h4, .inl ⟨?_, rfl, rfl, h1⟩⟩
    simp [Lang.plainByte]; omega
  | simple _ => exact ⟨92, _, rfl, by omega, by omega, by omega, .inr rfl⟩
  | quote => exact ⟨92, _, rfl, by omega, by omega, by omega, .inr rfl⟩
  | hex _ _ _ _ => exact ⟨92, _, rfl, by omega, by omega, by omega, .inr rfl⟩
  | oct _ _ _ _ => exact ⟨92, _, rfl, by omega, by omega, by omega, .inr rfl⟩
  | utf8 h1 hv =>
    obtain ⟨b, t, hbt, hb, _⟩ := J16.encodeRune_multi c h1 hv
    refine ⟨b, t, hbt, by omega, by omega, by omega, .inr ?_⟩
    simp [Lang.plainByte]; omega

/-- the first byte of an element: never CR, LF or `"` -/
theorem isStrElem_head {e : Bytes} {c : Nat} (h : IsStrElem e c) :
    ∃ b t, e = b :: t ∧ b ≠ 13 ∧ b ≠ 10 ∧ b ≠ 34 := by
  obtain ⟨b, t, h1, h2, h3, h4, _⟩ := isStrElem_head' h
  exact ⟨b, t, h1, h2, h3, h4⟩

theorem isStrElem_pos {e : Bytes} {c : Nat} (h : IsStrElem e c) : 1 ≤ e.length := by
  obtain ⟨b, t, h1, _⟩ := isStrElem_head h
  rw [h1]; simp


/-! ### bodies -/

theorem isStrBody_append {a va b vb : Bytes} (ha : IsStrBody a va) (hb : IsStrBody b vb) :
    IsStrBody (a ++ b) (va ++ vb) := by
  induction ha with
  | nil => exact hb
  | cons he _ ih =>
    rw [List.append_assoc, List.append_assoc]
    exact IsStrBody.cons he ih

theorem encodeRune_ascii (b : Nat) (h : b < 0x80) : Utf8.encodeRune b = [b] := by
  unfold Utf8.encodeRune; rw [if_pos h]

theorem plainByte_elem (b : Nat) (h : Lang.plainByte b = true) : IsStrElem [b] b ∧ b < 0x80 := by
  simp [Lang.plainByte] at h
  exact ⟨IsStrElem.plain (by omega) (by omega) (by omega) (by omega) (by omega), by omega⟩

/-- a run of plain bytes is a body, and its own value -/
theorem isStrBody_plain : ∀ (p : Bytes), (∀ x ∈ p, Lang.plainByte x = true) → IsStrBody p p := by
  intro p
  induction p with
  | nil => intro _; exact IsStrBody.nil
  | cons a r ih =>
    intro hp
    obtain ⟨he, ha⟩ := plainByte_elem a (hp a (by simp))
    have := IsStrBody.cons he (ih (fun x hx => hp x (by simp [hx])))
    rw [encodeRune_ascii a ha] at this
    exact this

theorem isStrBody_nil_inv {b v : Bytes} (h : IsStrBody b v) (hb : b = []) : v = [] := by
  cases h with
  | nil => rfl
  | cons he _ =>
    obtain ⟨x, t, hbt, _⟩ := isStrElem_head he
    rw [hbt] at hb; cases hb

/-- the elements read on a body followed by the closing quote: their values, their total width -/
theorem strElems_body {b v : Bytes} (h : IsStrBody b v) : ∀ (tail : Bytes) (N : Nat), b.length ≤ N →
    (Lang.strElems N (b ++ 34 :: tail)).flatMap (fun e => Utf8.encodeRune e.1) = v ∧
      widths (Lang.strElems N (b ++ 34 :: tail)) = b.length := by
  induction h with
  | nil =>
    intro tail N _
    cases N with
    | zero => exact ⟨rfl, rfl⟩
    | succ n =>
      simp only [List.nil_append, Lang.strElems, J16.strElem_quote]
      exact ⟨rfl, rfl⟩
  | @cons e c body v he _ ih =>
    intro tail N hN
    have hpos := isStrElem_pos he
    obtain ⟨n, rfl⟩ : ∃ n, N = n + 1 := ⟨N - 1, by simp only [List.length_append] at hN; omega⟩
    obtain ⟨i1, i2⟩ := ih tail n (by simp only [List.length_append] at hN; omega)
    simp only [List.append_assoc, Lang.strElems, isStrElem_fwd he, List.drop_left, List.flatMap_cons, widths,
      List.map_cons, List.sum_cons, List.length_append]
    simp only [widths] at i2
    rw [i1, i2]
    exact ⟨rfl, rfl⟩

/-- whatever `strElems` reads is a body of the language with the value it computes -/
theorem strElems_inv : ∀ (N : Nat) (l : Bytes),
    IsStrBody (l.take (widths (Lang.strElems N l))) ((Lang.strElems N l).flatMap (fun e => Utf8.encodeRune e.1)) := by
  intro N
  induction N with
  | zero => intro l; simp [Lang.strElems, widths]; exact IsStrBody.nil
  | succ n ih =>
    intro l
    unfold Lang.strElems
    cases he : Lang.strElem l with
    | none => simp [widths]; exact IsStrBody.nil
    | some p =>
      obtain ⟨c, w⟩ := p
      obtain ⟨hel, _, _⟩ := isStrElem_inv he
      simp only [widths, List.map_cons, List.sum_cons, List.flatMap_cons]
      rw [List.take_add]
      exact IsStrBody.cons hel (ih (l.drop w))

/-- a body splits into its maximal prefix of plain bytes (taken verbatim) and a body that does not start with one -/
theorem body_split {b v : Bytes} (h : IsStrBody b v) :
    ∃ p b' v', b = p ++ b' ∧ v = p ++ v' ∧ (∀ x ∈ p, Lang.plainByte x = true) ∧ IsStrBody b' v' ∧
      (∀ c, b'.head? = some c → Lang.plainByte c = false ∧ c ≠ 13 ∧ c ≠ 10 ∧ c ≠ 34) := by
  induction h with
  | nil => exact ⟨[], [], [], rfl, rfl, (by intro x hx; cases hx), IsStrBody.nil, (by intro c hc; cases hc)⟩
  | @cons e c body v he hb ih =>
    obtain ⟨b0, t0, hbt, h13, h10, h34, hpl⟩ := isStrElem_head' he
    rcases hpl with ⟨hp, rfl, rfl, hlt⟩ | hp
    · obtain ⟨p, b', v', i1, i2, i3, i4, i5⟩ := ih
      refine ⟨c :: p, b', v', ?_, ?_, ?_, i4, i5⟩
      · rw [hbt, i1]; rfl
      · rw [encodeRune_ascii c hlt, i2]; rfl
      · intro x hx
        simp only [List.mem_cons] at hx
        rcases hx with rfl | hx
        · exact hp
        · exact i3 x hx
    · refine ⟨[], e ++ body, Utf8.encodeRune c ++ v, rfl, rfl, (by intro x hx; cases hx), IsStrBody.cons he hb, ?_⟩
      intro x hx
      simp only [hbt, List.cons_append, List.head?_cons, Option.some.injEq] at hx
      subst hx; exact ⟨hp, h13, h10, h34⟩

/-- the body reader on a non-empty body followed by the closing quote: the value, all bytes consumed -/
theorem strBody_fwd {b v : Bytes} (h : IsStrBody b v) (hne : b ≠ []) (tail : Bytes) :
    Lang.strBody (b ++ 34 :: tail) = (some v, b.length) := by
  obtain ⟨p, b', v', h1, h2, h3, h4, h5⟩ := body_split h
  have hr : b ++ 34 :: tail = p ++ (b' ++ 34 :: tail) := by rw [h1, List.append_assoc]
  cases hq : b' with
  | nil =>
    rw [hq] at h1 hr
    simp only [List.nil_append, List.append_nil] at h1 hr
    rw [hq] at h4
    have hv' : v' = [] := isStrBody_nil_inv h4 rfl
    subst hv'
    simp only [List.append_nil] at h2
    have htw : (b ++ 34 :: tail).takeWhile Lang.plainByte = p := by
      rw [hr]; exact J16.takeWhile_append_stop _ _ _ _ h3 rfl
    have hpos : p.length ≠ 0 := by
      intro h0
      exact hne (by rw [h1]; exact List.length_eq_zero_iff.mp h0)
    unfold Lang.strBody
    simp only [htw]
    rw [show List.drop p.length (b ++ 34 :: tail) = 34 :: tail by rw [hr, List.drop_left]]
    simp only [or_true, if_true]
    rw [if_neg hpos, hr, List.take_left, h2, h1]
  | cons x t =>
    rw [hq] at h1 hr h4 h5
    obtain ⟨hb1, hb2, hb3, hb4⟩ := h5 x rfl
    have hX : (x :: t) ++ 34 :: tail = x :: (t ++ 34 :: tail) := rfl
    have htw : (b ++ 34 :: tail).takeWhile Lang.plainByte = p := by
      rw [hr, hX]; exact J16.takeWhile_append_stop _ _ _ _ h3 hb1
    have hdrop : List.drop p.length (b ++ 34 :: tail) = (x :: t) ++ 34 :: tail := by
      rw [hr, List.drop_left]
    have hfuel : (x :: t).length ≤ (b ++ 34 :: tail).length := by
      rw [hr]; simp only [List.length_append]; omega
    obtain ⟨hf1, hf2⟩ := strElems_body h4 tail _ hfuel
    simp only [widths] at hf2
    unfold Lang.strBody
    simp only [htw, hdrop]
    rw [hX]
    simp only
    rw [if_neg (by omega), ← hX, hf1, hf2]
    have hn : p.length + (x :: t).length ≠ 0 := by simp
    rw [if_neg hn, hr, List.take_left, h2, h1, List.length_append]

theorem strLex_len (b : Bytes) : (strLex b).length = b.length + 2 := by
  simp [strLex]

/-- **String, forward**: on `"` body `"` followed by anything -/
theorem stringSpec_fwd {b v : Bytes} (h : IsStrBody b v) (tail : Bytes) (pos : Nat) :
    stringSpec false (strLex b ++ tail) pos = .node (.term strTok (.str v) pos (pos + (strLex b).length)) := by
  have hl : strLex b ++ tail = 34 :: (b ++ 34 :: tail) := by simp [strLex]
  rw [hl, strLex_len]
  simp only [stringSpec]
  cases h with
  | nil =>
    simp only [List.nil_append, quotedSpec, List.head?_cons, if_true, J16.tok_str, List.length_nil]
  | @cons e c body v' he hb =>
    obtain ⟨x, t, hbt, _, _, h34⟩ := isStrElem_head he
    have hhead : (e ++ body ++ 34 :: tail).head? ≠ some 34 := by
      simp [hbt]; exact h34
    have hne : e ++ body ++ 34 :: tail ≠ [] := by simp
    unfold quotedSpec
    rw [if_neg hhead, if_neg hne, c08_unquoteString_value,
      strBody_fwd (IsStrBody.cons he hb) (by simp [hbt]) tail]
    simp only [List.drop_left, List.head?_cons, if_true, Option.getD_some, J16.tok_str]
    rw [show pos + 1 + (e ++ body).length + 1 = pos + ((e ++ body).length + 2) by omega]

/-- whatever the body reader answers before a closing quote (the body not being empty) is a body of the language -/
theorem strBody_inv {r : Bytes} {v : Option Bytes} {k : Nat} (h : Lang.strBody r = (v, k))
    (hq : (r.drop k).head? = some 34) (hh : r.head? ≠ some 34) : IsStrBody (r.take k) (v.getD []) := by
  unfold Lang.strBody at h
  simp only [] at h
  have htake : r.take (r.takeWhile Lang.plainByte).length = r.takeWhile Lang.plainByte := by
    have hp := List.takeWhile_prefix (l := r) Lang.plainByte
    exact (List.prefix_iff_eq_take.mp hp).symm
  have hplain : IsStrBody (r.take (r.takeWhile Lang.plainByte).length) (r.take (r.takeWhile Lang.plainByte).length) := by
    rw [htake]
    exact isStrBody_plain _ (fun x hx => mem_takeWhile_p _ _ x hx)
  generalize hi : (r.takeWhile Lang.plainByte).length = i at h hplain
  have hzero : ¬ ((none : Option Bytes), 0) = (v, k) := by
    intro h0
    simp only [Prod.mk.injEq] at h0
    rw [← h0.2, List.drop_zero] at hq
    exact hh hq
  cases hD : r.drop i with
  | nil =>
    rw [hD] at h
    simp only [Prod.mk.injEq] at h
    rw [← h.2, List.drop_length] at hq
    cases hq
  | cons b t =>
    rw [hD] at h
    simp only [] at h
    by_cases c : b = 13 ∨ b = 10 ∨ b = 34
    · rw [if_pos c] at h
      by_cases hz : i = 0
      · rw [if_pos hz] at h; exact absurd h hzero
      · rw [if_neg hz] at h
        simp only [Prod.mk.injEq] at h
        rw [← h.1, ← h.2]
        exact hplain
    · rw [if_neg c] at h
      have hw : ((Lang.strElems r.length (b :: t)).map (·.2)).sum = widths (Lang.strElems r.length (b :: t)) := rfl
      rw [hw] at h
      by_cases hz : i + widths (Lang.strElems r.length (b :: t)) = 0
      · rw [if_pos hz] at h; exact absurd h hzero
      · rw [if_neg hz] at h
        simp only [Prod.mk.injEq] at h
        rw [← h.1, ← h.2, List.take_add, hD]
        exact isStrBody_append hplain (strElems_inv r.length (b :: t))

/-- **String, inversion**: a node is answered only on `"` body `"` … with a body of the language -/
theorem stringSpec_inv {l : Bytes} {pos : Nat} {n : Node} (h : stringSpec false l pos = .node n) :
    ∃ b v t, IsStrBody b v ∧ l = strLex b ++ t ∧ n = .term strTok (.str v) pos (pos + (strLex b).length) := by
  obtain ⟨q, r, hl, hq, hcase⟩ := (stringSpec_node false l pos n).mp h
  have hq34 : q = 34 := by
    rcases hq with hq | ⟨_, hf⟩
    · exact hq
    · cases hf
  subst hq34
  rcases hcase with ⟨hhead, hn⟩ | ⟨hhead, _, v, k, hbody, hclose, hn⟩
  · cases r with
    | nil => cases hhead
    | cons x t =>
      simp only [List.head?_cons, Option.some.injEq] at hhead
      subst hhead
      refine ⟨[], [], t, IsStrBody.nil, ?_, ?_⟩
      · rw [hl]; rfl
      · rw [hn, J16.tok_str]; rfl
  · simp only [if_true] at hbody
    have hb := strBody_inv hbody hclose hhead
    cases hd : r.drop k with
    | nil => rw [hd] at hclose; cases hclose
    | cons x t =>
      rw [hd] at hclose
      simp only [List.head?_cons, Option.some.injEq] at hclose
      subst hclose
      have hk : k ≤ r.length := by
        apply Nat.le_of_not_lt
        intro hlt
        rw [List.drop_of_length_le (by omega)] at hd
        cases hd
      refine ⟨r.take k, v.getD [], t, hb, ?_, ?_⟩
      · rw [hl]
        have : r = r.take k ++ 34 :: t := by rw [← hd, List.take_append_drop]
        simp only [strLex, List.cons_append, List.append_assoc, List.nil_append]
        rw [← this]
      · rw [hn, J16.tok_str, strLex_len, List.length_take, Nat.min_eq_left hk]
        rw [show pos + 1 + k + 1 = pos + (k + 2) by omega]

/-! ### non-vacuity: `"a\n\x41é"` -/

theorem example_body : IsStrBody [97, 92, 110, 92, 120, 52, 49, 195, 169] [97, 10, 65, 195, 169] := by
  have h1 : IsStrElem [97] 97 := IsStrElem.plain (by omega) (by omega) (by omega) (by omega) (by omega)
  have h2 : IsStrElem [92, 110] 10 := IsStrElem.simple (by decide)
  have h3 : IsStrElem (92 :: 120 :: [52, 49]) (Lang.digitsValue 16 [52, 49]) :=
    IsStrElem.hex (.inl ⟨rfl, rfl⟩) rfl (by decide) (.inl rfl)
  have h4 : IsStrElem (Utf8.encodeRune 233) 233 := IsStrElem.utf8 (by omega) (by decide)
  exact IsStrBody.cons h1 (IsStrBody.cons h2 (IsStrBody.cons h3 (IsStrBody.cons h4 IsStrBody.nil)))

example (tail : Bytes) : stringSpec false (34 :: 97 :: 92 :: 110 :: 92 :: 120 :: 52 :: 49 :: 195 :: 169 :: 34 :: tail) 7 =
    .node (.term strTok (.str [97, 10, 65, 195, 169]) 7 18) :=
  stringSpec_fwd example_body tail 7

end PV.J16Acc
