/-
  SOUNDNESS of the fragment with the whitespace trims THROUGH the `Sentence` wrapper, for the exact trim meaning
  `DerivesW` (Spec/DerivesW.lean) — the "only if" half of the C04 iff with trims, with the returned TREES:

    every tree `Sentence(g) = SeqOf(g, End)` returns is the Sentence node `SEQ[y, EOF]` over an exact derivation
    `y` of `g` at the call position after which `End` matches.

  The `End` parser is outside the fragment (`FragLocalW .eof = False`: RightTrim does not move an EndNode), so
  `run_soundW` (Proofs/C1TSound.lean) does not speak about the wrapper itself; the sequence loop over `[g, End]`
  is followed here with the generic principle `seqParse_ind`, exactly as Proofs/S04Strat.lean does for `DerivesS`,
  with the frame's node list in the invariant so that the emitted tree is known.
-/
import ParsleyVerif.Proofs.C1TSound
import ParsleyVerif.Proofs.Sentence
namespace PV.S04W
open PV PV.Text PV.C1T

/-- what `End` returns: nothing, or the one EndNode at the call position, which is then the end of the input -/
theorem run_eof_inv (cfg : Cfg) (fuel : Nat) (ctx : Ctx) (pos : Nat) (st : St) (o : Out) (st' : St)
    (h : run cfg fuel .eof ctx pos st = some (o, st')) :
    st'.cache = st.cache ∧ ∀ n ∈ o.res.alts, n = .eof pos ∧ isEOF cfg.file pos = true := by
  cases fuel with
  | zero => simp [run] at h
  | succ f =>
    unfold run at h
    split at h
    · cases h
    · simp only at h
      split at h
      · rename_i he
        cases h
        refine ⟨rfl, fun n hn => ?_⟩
        simp only [Res.alts, List.mem_singleton] at hn
        exact ⟨hn, he⟩
      · cases h
        exact ⟨(logEv_fields st cfg _).1, fun n hn => by cases hn⟩

/-- the Sentence node over an exact derivation of `g` at `pos` that ends where `End` matches -/
def SentW (cfg : Cfg) (g : G) (pos : Nat) (x : Node) : Prop :=
  ∃ y, DerivesW cfg g pos y ∧ isEOF cfg.file y.rpos = true ∧
    x = .nt seqTok [y, .eof y.rpos] y.pos y.rpos (.select 0)

theorem seqAfter_result (m : Bool) (ss : SeqSt) (o : Out) : (seqAfter m ss o).result = ss.result := by
  unfold seqAfter; split <;> rfl

theorem handleResult_sentence (g : G) (p : Nat) (y : Node) :
    handleResult (sentenceShape g) p [y, .eof y.rpos] = .nt seqTok [y, .eof y.rpos] y.pos y.rpos (.select 0) := by
  simp [handleResult, sentenceShape, Node.rpos]

/-- **every tree `Sentence(g)` returns is the Sentence node over an exact derivation of `g` that ends at the end
    of the input** — from any cache that only holds exact derivations, with any fuel -/
theorem sentence_sound_w (cfg : Cfg) (bodyOf : Nat → G) (henv : ∀ g' ∈ cfg.env, ScopeS cfg bodyOf g')
    (g : G) (hg : ScopeS cfg bodyOf g) (fuel : Nat) (pos : Nat) (st : St)
    (hst : CacheS cfg bodyOf st) (o : Out) (st' : St)
    (h : run cfg fuel (G.sentence g) [] pos st = some (o, st')) :
    ∀ x ∈ o.res.alts, SentW cfg g pos x := by
  cases fuel with
  | zero => simp [run] at h
  | succ f =>
    rw [run_seqfam cfg f _ (sentenceShape g) [] pos st (sentence_shape g)] at h
    split at h
    · cases h
    · unfold runSeq at h
      split at h
      · cases h
      · rename_i b ss st1 hsp
        have hfin : seqFinish (sentenceShape g) pos ss st1 = (o, st') := by injection h
        have hsub := (seqFinish_res (sentenceShape g) pos ss st1).1
        rw [hfin] at hsub
        have hrs := run_soundW cfg bodyOf henv f
        have key := seqParse_ind (run cfg f) (sentenceShape g)
          (fun fr _ st => CacheS cfg bodyOf st ∧ (fr.depth = 0 → fr.ctx = [] ∧ fr.pos = pos) ∧
            (fr.depth = 1 → ∃ y, fr.nodes = [y] ∧ DerivesW cfg g pos y ∧ fr.pos = y.rpos) ∧
            (2 ≤ fr.depth → ∃ y, fr.nodes = [y, .eof y.rpos] ∧ DerivesW cfg g pos y ∧ isEOF cfg.file y.rpos = true))
          (fun ss st ss' st' => (CacheS cfg bodyOf st → CacheS cfg bodyOf st') ∧
            ((∀ x ∈ ss.result.alts, SentW cfg g pos x) → ∀ x ∈ ss'.result.alts, SentW cfg g pos x))
          (fun _ _ => ⟨id, id⟩)
          (fun _ _ _ _ _ _ h1 h2 => ⟨fun hc => h2.1 (h1.1 hc), fun hr => h2.2 (h1.2 hr)⟩)
          (fun fr ss st ss' st' hJ hE => ⟨hE.1 hJ.1, hJ.2⟩)
          ?hcall ?hnone f ⟨0, [], [], pos, true⟩ {} st b ss st1
          ⟨hst, fun _ => ⟨rfl, rfl⟩, (fun hc => by cases hc), (fun hc => by simp at hc)⟩ rfl hsp
        · intro x hx
          exact key.2 (by intro x hx; cases hx) x (hsub x hx)
        case hcall =>
          intro fr ss0 st0 g' o1 st2 hJ hd hl hrun
          obtain ⟨hC, h0, h1, _⟩ := hJ
          obtain ⟨d, nodes, ctx, p, m⟩ := fr
          simp only at hd hl hrun h0 h1 ⊢
          match d, hd, hl, hrun, h0, h1 with
          | 0, hd, hl, hrun, h0, _ =>
            have hg' : g' = g := by simpa [sentenceShape] using hl.symm
            subst hg'
            obtain ⟨hctx, hp⟩ := h0 rfl
            subst hctx hp
            have hnodes : nodes = [] := List.length_eq_zero_iff.mp hd.symm
            subst hnodes
            obtain ⟨hsnd, _, hC1⟩ := hrs g' [] p st0.regCall o1 st2 hg (CacheS_of_eq hC rfl) hrun
            refine ⟨⟨fun _ => hC1, (fun hr => by rw [seqAfter_result]; exact hr)⟩, ?_, ?_⟩
            · intro n hn
              refine ⟨hC1, (fun hc => by simp [Frame.next] at hc),
                fun _ => ⟨n, (by simp [Frame.next]), hsnd n hn, rfl⟩,
                (fun hc => by simp [Frame.next] at hc)⟩
            · intro _ hlc
              simp [sentenceShape] at hlc
          | 1, hd, hl, hrun, _, h1 =>
            have hg' : g' = .eof := by simpa [sentenceShape] using hl.symm
            subst hg'
            obtain ⟨y, hnodes, hy, hp⟩ := h1 rfl
            subst hnodes
            obtain ⟨hcache, heof⟩ := run_eof_inv cfg f ctx p st0.regCall o1 st2 hrun
            have hC1 : CacheS cfg bodyOf st2 := CacheS_of_eq hC (by rw [hcache]; rfl)
            refine ⟨⟨fun _ => hC1, (fun hr => by rw [seqAfter_result]; exact hr)⟩, ?_, ?_⟩
            · intro n hn
              obtain ⟨hne, hend⟩ := heof n hn
              subst hne
              refine ⟨hC1, (fun hc => by simp [Frame.next] at hc), (fun hc => by simp [Frame.next] at hc),
                fun _ => ⟨y, (by simp [Frame.next, hp]), hy, (by rw [← hp]; exact hend)⟩⟩
            · intro _ hlc
              simp [sentenceShape] at hlc
          | d + 2, _, hl, _, _, _ => simp [sentenceShape] at hl
        case hnone =>
          intro fr ss0 st0 hJ hd hl hlc
          obtain ⟨_, _, _, h2⟩ := hJ
          have hd2 : fr.depth = 2 := by simpa [sentenceShape] using hlc
          obtain ⟨y, hnodes, hy, hend⟩ := h2 (by omega)
          refine ⟨id, fun hgood x hx => ?_⟩
          simp only [seqEmit] at hx
          cases mem_appendNode _ _ _ hx with
          | inl h3 => rw [seqAfter_result] at h3; exact hgood x h3
          | inr h3 =>
            simp only [Res.alts, List.mem_singleton] at h3
            rw [hd2, hnodes] at h3
            rw [if_pos (by decide), handleResult_sentence] at h3
            exact ⟨y, hy, hend, h3⟩

end PV.S04W
