/-
  Stage 1 of the core tie: parsley/result_cache.go (Get, Save) — translated (nested finite maps) vs. `cacheGet`, `cacheSave`
  (a list, newest first).
-/
import ParsleyVerif.Proofs.CoreTieData
namespace PV.CoreTie
open PV.FactsCore

/-- `abstract_loop (f W) : T as L hL`: names `L` the generated loop function `f` applied to whatever it takes before its list
    argument — the variables of the enclosing function that the loop mentions, whose number and types depend on how the
    source is written (a temporary hoisted out of the loop adds one) — so that what is proved of the loop is proved of `L`
    from its two equations and not of one particular parameter list -/
syntax "abstract_loop " term:max " : " term " as " ident ident : tactic
macro_rules
  | `(tactic| abstract_loop $p : $t as $L $h) => `(tactic| first
      | generalize $h:ident : ($p : $t) = $L
      | generalize $h:ident : ($p _ : $t) = $L
      | generalize $h:ident : ($p _ _ : $t) = $L
      | generalize $h:ident : ($p _ _ _ : $t) = $L
      | generalize $h:ident : ($p _ _ _ _ : $t) = $L
      | generalize $h:ident : ($p _ _ _ _ _ : $t) = $L
      | generalize $h:ident : ($p _ _ _ _ _ _ : $t) = $L)

/-- the reuse test, for ANY function `L` on key lists that satisfies the two equations of the translated loop -/
theorem get_loop_of (L : List Int → CM (CorePrelude.Brk (Option Result × Bool) Unit)) (lrc saved : IntMap)
    (hnil : ∀ s, L [] s = .ok (.done ()) s)
    (hcons : ∀ key rest s, L (key :: rest) s =
      if CorePrelude.Data.IntMap_Get saved key > CorePrelude.Data.IntMap_Get lrc key then .ok (.ret (none, false)) s else L rest s)
    (keys : List Int) (s : Context) :
    L keys s =
      .ok (if keys.all (fun key => !decide (CorePrelude.Data.IntMap_Get saved key > CorePrelude.Data.IntMap_Get lrc key))
        then .done () else .ret (none, false)) s := by
  induction keys with
  | nil => simp [hnil]
  | cons key rest ih =>
    rw [hcons]
    by_cases h : CorePrelude.Data.IntMap_Get saved key > CorePrelude.Data.IntMap_Get lrc key
    · simp [h]
    · simp [h, ih]

theorem cacheGet_eq (c : List CacheEntry) (idx pos : Nat) (ctx : Ctx) :
    cacheGet c idx pos ctx = match cacheFind c idx pos with
      | none => none
      | some e => if e.ctx.all (fun kv => !(kv.2 > ctx.get kv.1)) then some e else none := rfl

/-- **ResultCache.Get**, translated -/
theorem tie_Get (W : World Context) (rc : CMap (CMap (Option Result))) (cache : List CacheEntry) (rel : CacheRel rc cache)
    (idx pos : Nat) (m : IntMap) (ctx : Ctx) (hm : CtxRel m ctx) (s : Context) :
    match cacheGet cache idx pos ctx with
    | none => ResultCache_Get W rc idx pos m s = .ok (none, false) s
    | some e => ∃ r, ResultCache_Get W rc idx pos m s = .ok (some r, true) s ∧ ResultRel r e := by
  have he := rel.entries idx pos
  rw [cacheGet_eq]
  cases hf : cacheFind cache idx pos with
  | none =>
    rw [hf] at he
    simp only [lookup] at he
    simp [ResultCache_Get, CorePrelude.Go.mapGet2, CorePrelude.Go.mapGet, he]
  | some e =>
    rw [hf] at he
    obtain ⟨r, h1, h2⟩ := he
    simp only [lookup] at h1
    have hk := CtxRel.keysAll h2.ctx hm
    -- the translated loop, whatever it takes before the key list, is a function `L` with the two equations of `get_loop_of`
    have hloop : ∀ (keys : List Int) (s : Context),
        ResultCache_Get W rc idx pos m s =
          (match (if keys.all (fun key => !decide (CorePrelude.Data.IntMap_Get r.LeftRecCtx key > CorePrelude.Data.IntMap_Get m key))
              then (CorePrelude.Brk.done () : CorePrelude.Brk (Option Result × Bool) Unit) else .ret (none, false)) with
            | .ret v => .ok v s
            | .done _ => .ok (some r, true) s) ∨ keys ≠ CorePrelude.Data.IntMap_Keys r.LeftRecCtx := by
      intro keys s
      by_cases hkeys : keys = CorePrelude.Data.IntMap_Keys r.LeftRecCtx
      · left
        subst hkeys
        conv => lhs; simp [ResultCache_Get, CorePrelude.Go.mapGet2, CorePrelude.Go.mapGet, h1]
        abstract_loop (ResultCache_Get_loop1 W) : List Int → CM (CorePrelude.Brk (Option Result × Bool) Unit) as L hL
        have hnil : ∀ s, L [] s = .ok (.done ()) s := by
          intro s; rw [← hL]; simp [ResultCache_Get_loop1]
        have hcons : ∀ key rest s, L (key :: rest) s =
            if CorePrelude.Data.IntMap_Get r.LeftRecCtx key > CorePrelude.Data.IntMap_Get m key then .ok (.ret (none, false)) s
            else L rest s := by
          intro key rest s
          rw [← hL]
          by_cases h : CorePrelude.Data.IntMap_Get r.LeftRecCtx key > CorePrelude.Data.IntMap_Get m key <;>
            simp [ResultCache_Get_loop1, h]
        rw [get_loop_of L m r.LeftRecCtx hnil hcons]
        by_cases hA : ((CorePrelude.Data.IntMap_Keys r.LeftRecCtx).all
            (fun key => !decide (CorePrelude.Data.IntMap_Get r.LeftRecCtx key > CorePrelude.Data.IntMap_Get m key))) = true
        · rw [if_pos hA]; rfl
        · rw [if_neg hA]; rfl
      · exact .inr hkeys
    have hrun := (hloop (CorePrelude.Data.IntMap_Keys r.LeftRecCtx) s).resolve_right (fun h => h rfl)
    by_cases hall : e.ctx.all (fun kv => !(kv.2 > ctx.get kv.1)) = true
    · simp only [hall, if_true]
      refine ⟨r, ?_, h2⟩
      rw [← hk] at hall
      rw [hrun]
      simp [hall]
    · simp only [hall, Bool.false_eq_true, if_false]
      rw [← hk] at hall
      rw [hrun]
      simp [hall]

theorem cacheFind_save (c : List CacheEntry) (e : CacheEntry) (i p : Nat) :
    cacheFind (cacheSave c e) i p = if e.idx = i ∧ e.pos = p then some e else cacheFind c i p := by
  unfold cacheFind cacheSave
  by_cases h : e.idx = i ∧ e.pos = p
  · simp [List.find?_cons, h]
  · have : (e.idx == i && e.pos == p) = false := by
      cases h1 : (e.idx == i && e.pos == p) with
      | false => rfl
      | true => simp at h1; exact absurd h1 h
    simp only [List.find?_cons, this, if_neg h, List.find?_filter]
    congr 1
    funext x
    cases hx : (x.idx == i && x.pos == p) with
    | false => simp
    | true =>
      simp only [Bool.and_eq_true, beq_iff_eq] at hx
      have : ¬ x.idx = e.idx ∨ ¬ x.pos = e.pos := by
        by_cases h1 : x.idx = e.idx
        · exact .inr fun h2 => h ⟨h1 ▸ hx.1, h2 ▸ hx.2⟩
        · exact .inl h1
      simpa using this

/-- **ResultCache.Save**, translated -/
theorem tie_Save (W : World Context) (rc : CMap (CMap (Option Result))) (cache : List CacheEntry) (rel : CacheRel rc cache)
    (r : Result) (e : CacheEntry) (hr : ResultRel r e) (s : Context) :
    ∃ rc', ResultCache_Save W rc e.idx e.pos (some r) s = .ok rc' s ∧ CacheRel rc' (cacheSave cache e) := by
  obtain ⟨h1, h2, h3⟩ := rel
  cases rc with
  | nil => simp [CorePrelude.Map.isNil] at h1
  | mk f =>
    -- the inner map under the key, as a function (empty when absent)
    obtain ⟨g, hg⟩ : ∃ g : Int → Option (Option Result), ∀ p, lookup (.mk f) e.idx p = g p := by
      cases hf : f e.idx with
      | none => exact ⟨fun _ => none, fun p => by simp [lookup, CorePrelude.Map.find, hf]⟩
      | some mm =>
        cases mm with
        | nil => exact ⟨fun _ => none, fun p => by simp [lookup, CorePrelude.Map.find, hf]⟩
        | mk g => exact ⟨g, fun p => by simp [lookup, CorePrelude.Map.find, hf]⟩
    let f' : Int → Option (CMap (Option Result)) := fun i =>
      if i = e.idx then some (.mk (fun p => if p = e.pos then some (some r) else g p)) else f i
    refine ⟨.mk f', ?_, ?_⟩
    · cases hf : f e.idx with
      | none =>
        have hg' : g = fun _ => none := by funext p; rw [← hg p]; simp [lookup, CorePrelude.Map.find, hf]
        simp only [ResultCache_Save, CorePrelude.Go.mapGet2, CorePrelude.Map.find, hf,
          CorePrelude.Go.mkMap, CorePrelude.Go.mapGet, bind_apply, pure_apply, Bool.not_false, if_true, ite_apply,
          mapSet_mk, Option.getD_some, CorePrelude.Res.ok.injEq, and_true]
        congr 1
        funext i
        by_cases hi : i = e.idx
        · simp [f', hi, hg']
        · simp [f', hi]
      | some mm =>
        have hnn := h2 e.idx mm (by simp [CorePrelude.Map.find, hf])
        cases mm with
        | nil => simp [CorePrelude.Map.isNil] at hnn
        | mk g0 =>
          have hg' : g = g0 := by funext p; rw [← hg p]; simp [lookup, CorePrelude.Map.find, hf]
          simp only [ResultCache_Save, CorePrelude.Go.mapGet2, CorePrelude.Map.find, hf,
            CorePrelude.Go.mapGet, bind_apply, pure_apply, Bool.not_true, Bool.false_eq_true, if_false, ite_apply,
            Option.getD_some, mapSet_mk, CorePrelude.Res.ok.injEq, and_true]
          congr 1
          funext i
          by_cases hi : i = e.idx
          · simp [f', hi, hg']
          · simp [f', hi]
    · refine ⟨rfl, ?_, ?_⟩
      · intro i mm hi
        simp only [CorePrelude.Map.find, f'] at hi
        by_cases hie : i = e.idx
        · simp only [hie, if_true, Option.some.injEq] at hi
          subst hi; rfl
        · simp only [hie, if_false] at hi
          exact h2 i mm (by simpa [CorePrelude.Map.find] using hi)
      · intro i p
        rw [cacheFind_save]
        by_cases hk : e.idx = i ∧ e.pos = p
        · obtain ⟨rfl, rfl⟩ := hk
          simp only [and_self, if_true]
          exact ⟨r, by simp [lookup, CorePrelude.Map.find, f'], hr⟩
        · simp only [hk, if_false]
          have hl : lookup (.mk f') i p = lookup (.mk f) i p := by
            by_cases hi : (i : Int) = e.idx
            · have hp : ¬ (p : Int) = e.pos := by
                intro hp; apply hk; constructor <;> omega
              have := hg p
              rw [← hi] at this
              simp [lookup, CorePrelude.Map.find, f', hi, hp] at this ⊢
              rw [← hi] at this ⊢
              exact this.symm
            · simp [lookup, CorePrelude.Map.find, f', hi]
          have := h3 i p
          rw [hl]
          exact this

end PV.CoreTie
