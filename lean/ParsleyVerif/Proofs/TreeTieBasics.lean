/-
  The tie of the TREE PASSES and the EVALUATION: vocabulary.

  `factgen -out-tree` translates parsley.Walk / StaticCheck / Transform / EvaluateNode / Evaluate, the node methods of
  package ast and the interpreters of ast/interpreter (Generated/FactsTree.lean; run-time Generated/TreePrelude.lean).
  In the translation a `*ast.NonTerminalNode` is an ADDRESS into the heap of the store, and the passes mutate the heap in
  place, as the Go code does.  This file says how a heap is read as a tree:

  * `Sk` (skeleton): the shape of a tree as it lies in a heap — the addresses of the non-terminals, the node values of
    the leaves (ast.EmptyNode, parser.EndNode, *ast.TerminalNode), node lists; `Sk.node` is the `parsley.Node` value of
    the root, `Sk.addrs` the addresses, `Sk.post` the node values in post-order (a node list is followed through its
    first item only);
  * `Shaped h sk`: the heap `h` holds that shape (every non-terminal's cell is there and its `children` slice holds the
    node values of the sub-skeletons; node lists are not empty);
  * `SameKids h h'`: two heaps with the same cells up to everything but the `children` fields being equal — what a
    call-back must preserve for the traversal to be determined by the shape;
  * `Agree h h' l`: the heaps agree on the addresses `l` (frame reasoning: a pass that writes below one child leaves
    the other children alone, because the addresses of a tree are distinct — `(Sk.addrs sk).Nodup`);
  * `visit f l`: call `f` on the nodes of `l` in order, stop after the first `true` — the specification of Walk.
-/
import ParsleyVerif.Generated.FactsTree
import ParsleyVerif.Model.Walk
namespace PV.TreeTie
open PV.CorePrelude hiding Node World
open PV.TreePrelude PV.FactsTree

abbrev TN := PV.TreePrelude.Node
abbrev TM := PV.FactsTree.M
abbrev TRes := PV.CorePrelude.Res
abbrev TSt := PV.FactsTree.St
abbrev TW := PV.TreePrelude.World TSt
abbrev TErr := PV.CorePrelude.Err
abbrev TCause := PV.CorePrelude.Cause
abbrev TInterp := PV.TreePrelude.Interp
abbrev TValue := PV.TreePrelude.Value
abbrev TCell := PV.FactsTree.NonTerminalNode
abbrev Heap := Ptr → Option PV.FactsTree.NonTerminalNode

/-! ### the monad -/

@[simp] theorem bind_apply {σ α β : Type} (x : CorePrelude.M σ α) (f : α → CorePrelude.M σ β) (s : σ) :
    (x >>= f) s = match x s with
      | .ok a s' => f a s'
      | .panic => .panic
      | .nofuel => .nofuel := by
  show PV.CorePrelude.M.bind x f s = _
  unfold PV.CorePrelude.M.bind
  cases x s <;> rfl

@[simp] theorem pure_apply {σ α : Type} (a : α) (s : σ) : (pure a : CorePrelude.M σ α) s = .ok a s := rfl

@[simp] theorem ite_apply {σ α : Type} (c : Prop) (inst : Decidable c) (a b : CorePrelude.M σ α) (s : σ) :
    (@ite (CorePrelude.M σ α) c inst a b) s = @ite (TRes σ α) c inst (a s) (b s) := by
  split <;> rfl

@[simp] theorem res_match_id {σ α : Type} (r : TRes σ α) :
    (match r with
      | .ok a s' => CorePrelude.Res.ok a s'
      | .panic => .panic
      | .nofuel => .nofuel) = r := by
  cases r <;> rfl

@[simp] theorem read_apply {σ α : Type} (f : σ → α) (s : σ) : CorePrelude.Go.read f s = .ok (f s) s := rfl
@[simp] theorem panic_apply {σ α : Type} (s : σ) : (CorePrelude.Go.panic : CorePrelude.M σ α) s = .panic := rfl
@[simp] theorem noMethod_apply {σ α : Type} (s : σ) : (TreePrelude.Go.noMethod : CorePrelude.M σ α) s = .panic := rfl
@[simp] theorem outOfFuel_apply {σ α : Type} (s : σ) : (CorePrelude.Go.outOfFuel : CorePrelude.M σ α) s = .nofuel := rfl

theorem load_apply (p : Ptr) (s : TSt) :
    (TreePrelude.Go.load p : TM TCell) s = match s.heap p with | some c => .ok c s | none => .panic := by
  unfold TreePrelude.Go.load
  cases s.heap p <;> rfl

@[simp] theorem load_some {p : Ptr} {s : TSt} {c : TCell} (h : s.heap p = some c) :
    (TreePrelude.Go.load p : TM TCell) s = .ok c s := by
  simp [load_apply, h]

/-- the heap after `*p = c` -/
def hset (h : Heap) (p : Ptr) (c : TCell) : Heap := fun q => if q = p then some c else h q

@[simp] theorem hset_same (h : Heap) (p : Ptr) (c : TCell) : hset h p c p = some c := by simp [hset]
theorem hset_other (h : Heap) (p q : Ptr) (c : TCell) (hq : q ≠ p) : hset h p c q = h q := by simp [hset, hq]

theorem store_some {p : Ptr} {s : TSt} {c0 : TCell} (c : TCell) (h : s.heap p = some c0) :
    (TreePrelude.Go.store p c : TM Unit) s = .ok () { s with heap := hset s.heap p c } := by
  simp only [TreePrelude.Go.store, h]
  rfl

/-! conditional rewrite rules that decide a generated comparison from the facts in the context (as in CoreTieBasics) -/
theorem dec_true (p : Prop) (inst : Decidable p) (h : p) : @decide p inst = true := by simp [h]
theorem dec_false (p : Prop) (inst : Decidable p) (h : ¬ p) : @decide p inst = false := by simp [h]

/-! ### skeletons -/

inductive Sk where
  | leaf (n : TN)
  | nt (a : Ptr) (kids : List Sk)
  | list (items : List Sk)

mutual
/-- the `parsley.Node` value of the root -/
def Sk.node : Sk → TN
  | .leaf n => n
  | .nt a _ => .ref a
  | .list items => .list (nodes items)
def nodes : List Sk → List TN
  | [] => []
  | k :: r => k.node :: nodes r
end

theorem nodes_eq_map (l : List Sk) : nodes l = l.map Sk.node := by
  induction l with
  | nil => rfl
  | cons k r ih => simp [nodes, ih]

mutual
/-- the addresses of the non-terminals, the root first -/
def Sk.addrs : Sk → List Ptr
  | .leaf _ => []
  | .nt a kids => a :: addrsL kids
  | .list items => addrsL items
def addrsL : List Sk → List Ptr
  | [] => []
  | k :: r => k.addrs ++ addrsL r
end

mutual
/-- the node values in post-order, as parsley.Walk meets them: a node list is followed through its first item -/
def Sk.post : Sk → List TN
  | .leaf n => [n]
  | .nt a kids => postL kids ++ [.ref a]
  | .list [] => [.list []]
  | .list (first :: rest) => first.post ++ [.list (first.node :: nodes rest)]
def postL : List Sk → List TN
  | [] => []
  | k :: r => k.post ++ postL r
end

mutual
/-- the fuel the translated recursions need on this shape -/
def Sk.fuel : Sk → Nat
  | .leaf _ => 1
  | .nt _ kids => fuelL kids + 1
  | .list items => fuelL items + 2
def fuelL : List Sk → Nat
  | [] => 0
  | k :: r => max k.fuel (fuelL r)
end

/-- a leaf: a value of one of the node types without children -/
def LeafNode : TN → Prop
  | .empty _ => True
  | .eof _ => True
  | .term _ => True
  | _ => False

mutual
/-- the heap holds this shape -/
def Shaped (h : Heap) : Sk → Prop
  | .leaf n => LeafNode n
  | .nt a kids => (∃ c, h a = some c ∧ c.children = nodes kids) ∧ ShapedL h kids
  | .list items => items ≠ [] ∧ ShapedL h items
def ShapedL (h : Heap) : List Sk → Prop
  | [] => True
  | k :: r => Shaped h k ∧ ShapedL h r
end

/-- the heaps agree on these addresses -/
def Agree (h h' : Heap) (l : List Ptr) : Prop := ∀ a ∈ l, h' a = h a

theorem Agree.refl (h : Heap) (l : List Ptr) : Agree h h l := fun _ _ => rfl

theorem Agree.mono {h h' : Heap} {l l' : List Ptr} (hl : ∀ a ∈ l', a ∈ l) (ha : Agree h h' l) : Agree h h' l' :=
  fun a m => ha a (hl a m)

theorem Agree.symm {h h' : Heap} {l : List Ptr} (ha : Agree h h' l) : Agree h' h l := fun a m => (ha a m).symm

theorem Agree.trans {h h' h'' : Heap} {l : List Ptr} (h1 : Agree h h' l) (h2 : Agree h' h'' l) : Agree h h'' l :=
  fun a m => (h2 a m).trans (h1 a m)

/-- every cell is there in both heaps or in neither, with the same `children` -/
def SameKids (h h' : Heap) : Prop := ∀ a, (h' a).map (·.children) = (h a).map (·.children)

theorem SameKids.refl (h : Heap) : SameKids h h := fun _ => rfl
theorem SameKids.trans {h h' h'' : Heap} (h1 : SameKids h h') (h2 : SameKids h' h'') : SameKids h h'' :=
  fun a => (h2 a).trans (h1 a)

/-- a cell without its schema -/
def stripS (c : TCell) : TCell := { c with schema := PV.TreePrelude.Value.nil }

/-- the same cells up to the schemas -/
def SameShape (h h' : Heap) : Prop := ∀ a, (h' a).map stripS = (h a).map stripS

theorem SameShape.refl (h : Heap) : SameShape h h := fun _ => rfl
theorem SameShape.trans {h h' h'' : Heap} (h1 : SameShape h h') (h2 : SameShape h' h'') : SameShape h h'' :=
  fun a => (h2 a).trans (h1 a)

theorem SameShape.kids {h h' : Heap} (hs : SameShape h h') : SameKids h h' := by
  intro a
  have := hs a
  cases h1 : h a <;> cases h2 : h' a <;> simp [h1, h2] at this ⊢
  have := congrArg (·.children) this
  simpa [stripS] using this

/-- cells with the same interpreter in both heaps -/
theorem SameShape.interp {h h' : Heap} (hs : SameShape h h') {a : Ptr} {c c' : TCell} (h1 : h a = some c) (h2 : h' a = some c') :
    c'.interpreter = c.interpreter := by
  have := hs a
  rw [h1, h2] at this
  simp only [Option.map_some, Option.some.injEq] at this
  have := congrArg (·.interpreter) this
  simpa [stripS] using this

mutual
theorem shaped_sameKids {h h' : Heap} (hk : SameKids h h') : ∀ sk, Shaped h sk → Shaped h' sk
  | .leaf _, hs => hs
  | .nt a kids, hs => by
    obtain ⟨⟨c, hc, hch⟩, hl⟩ := hs
    refine ⟨?_, shapedL_sameKids hk kids hl⟩
    have := hk a
    rw [hc] at this
    cases h2 : h' a with
    | none => simp [h2] at this
    | some c' =>
      rw [h2] at this
      simp only [Option.map_some, Option.some.injEq] at this
      exact ⟨c', rfl, this.trans hch⟩
  | .list items, hs => ⟨hs.1, shapedL_sameKids hk items hs.2⟩
theorem shapedL_sameKids {h h' : Heap} (hk : SameKids h h') : ∀ l, ShapedL h l → ShapedL h' l
  | [], _ => trivial
  | k :: r, hs => ⟨shaped_sameKids hk k hs.1, shapedL_sameKids hk r hs.2⟩
end

mutual
theorem shaped_agree {h h' : Heap} : ∀ sk, Agree h h' sk.addrs → Shaped h sk → Shaped h' sk
  | .leaf _, _, hs => hs
  | .nt a kids, ha, hs => by
    obtain ⟨⟨c, hc, hch⟩, hl⟩ := hs
    refine ⟨⟨c, ?_, hch⟩, shapedL_agree kids (ha.mono (by simp [Sk.addrs]; intro x hx; exact .inr hx)) hl⟩
    rw [ha a (by simp [Sk.addrs])]; exact hc
  | .list items, ha, hs => ⟨hs.1, shapedL_agree items (ha.mono (by simp [Sk.addrs])) hs.2⟩
theorem shapedL_agree {h h' : Heap} : ∀ l, Agree h h' (addrsL l) → ShapedL h l → ShapedL h' l
  | [], _, _ => trivial
  | k :: r, ha, hs =>
    ⟨shaped_agree k (ha.mono (by simp [addrsL]; intro x hx; exact .inl hx)) hs.1,
     shapedL_agree r (ha.mono (by simp [addrsL]; intro x hx; exact .inr hx)) hs.2⟩
end

theorem shapedL_mem {h : Heap} : ∀ {l : List Sk}, ShapedL h l → ∀ k ∈ l, Shaped h k
  | [], _, _, hk => by cases hk
  | k :: r, hs, x, hx => by
    rcases List.mem_cons.mp hx with e | hx
    · exact e ▸ hs.1
    · exact shapedL_mem hs.2 x hx

mutual
/-- a shaped skeleton's addresses are allocated -/
theorem shaped_alloc {h : Heap} : ∀ sk, Shaped h sk → ∀ a ∈ sk.addrs, h a ≠ none
  | .leaf _, _, a, ha => by simp [Sk.addrs] at ha
  | .nt a kids, hs, b, hb => by
    simp only [Sk.addrs, List.mem_cons] at hb
    rcases hb with e | hb
    · obtain ⟨⟨c, hc, _⟩, _⟩ := hs
      rw [e, hc]; simp
    · exact shapedL_alloc kids hs.2 b hb
  | .list items, hs, b, hb => shapedL_alloc items hs.2 b (by simpa [Sk.addrs] using hb)
theorem shapedL_alloc {h : Heap} : ∀ l, ShapedL h l → ∀ a ∈ addrsL l, h a ≠ none
  | [], _, a, ha => by simp [addrsL] at ha
  | k :: r, hs, a, ha => by
    simp only [addrsL, List.mem_append] at ha
    rcases ha with ha | ha
    · exact shaped_alloc k hs.1 a ha
    · exact shapedL_alloc r hs.2 a ha
end

theorem fuel_le_fuelL {k : Sk} : ∀ {l : List Sk}, k ∈ l → k.fuel ≤ fuelL l
  | [], hk => by cases hk
  | x :: r, hk => by
    rcases List.mem_cons.mp hk with e | hk
    · subst e; simp [fuelL]; omega
    · have := fuel_le_fuelL hk
      simp [fuelL]; omega

theorem fuel_pos (sk : Sk) : 0 < sk.fuel := by cases sk <;> simp [Sk.fuel]

/-! ### visiting a sequence of nodes -/

/-- call `f` on the nodes in order; stop after the first `true` -/
def visit (f : TN → TM Bool) : List TN → TM Bool
  | [] => pure false
  | n :: r => do
    let b ← f n
    if b then pure true else visit f r

theorem visit_append (f : TN → TM Bool) (l₁ l₂ : List TN) (s : TSt) :
    visit f (l₁ ++ l₂) s = (do let b ← visit f l₁; if b then pure true else visit f l₂) s := by
  induction l₁ generalizing s with
  | nil => simp [visit]
  | cons n r ih =>
    simp only [List.cons_append, visit, bind_apply]
    cases hf : f n s with
    | ok b s' =>
      cases b
      · simp [ih]
      · simp
    | panic => rfl
    | nofuel => rfl

/-- a call-back that never changes which cells there are nor their `children` -/
def KidStable (f : TN → TM Bool) : Prop := ∀ n s b s', f n s = .ok b s' → SameKids s.heap s'.heap

theorem visit_kidStable {f : TN → TM Bool} (hf : KidStable f) :
    ∀ (l : List TN) (s : TSt) b s', visit f l s = .ok b s' → SameKids s.heap s'.heap := by
  intro l
  induction l with
  | nil => intro s b s' h; simp [visit] at h; obtain ⟨_, rfl⟩ := h; exact SameKids.refl _
  | cons n r ih =>
    intro s b s' h
    simp only [visit, bind_apply] at h
    cases hf' : f n s with
    | ok b1 s1 =>
      rw [hf'] at h
      have k1 := hf n s b1 s1 hf'
      cases b1
      · simp at h; exact k1.trans (ih s1 b s' h)
      · simp at h; obtain ⟨_, rfl⟩ := h; exact k1
    | panic => rw [hf'] at h; cases h
    | nofuel => rw [hf'] at h; cases h

end PV.TreeTie

namespace PV.TreeTie
open PV.CorePrelude hiding Node World
open PV.TreePrelude PV.FactsTree

/-! ### computations that do not write the store -/

def ReadOnly {α : Type} (x : TM α) : Prop := ∀ s a s', x s = .ok a s' → s' = s

theorem ReadOnly.pure {α : Type} (a : α) : ReadOnly (pure a : TM α) := by
  intro s b s' h; simp at h; exact h.2.symm

theorem ReadOnly.panic {α : Type} : ReadOnly (CorePrelude.Go.panic : TM α) := by
  intro s b s' h; simp at h

theorem ReadOnly.noMethod {α : Type} : ReadOnly (TreePrelude.Go.noMethod : TM α) := by
  intro s b s' h; simp at h

theorem ReadOnly.outOfFuel {α : Type} : ReadOnly (CorePrelude.Go.outOfFuel : TM α) := by
  intro s b s' h; simp at h

theorem ReadOnly.bind {α β : Type} {x : TM α} {f : α → TM β} (hx : ReadOnly x) (hf : ∀ a, ReadOnly (f a)) :
    ReadOnly (x >>= f) := by
  intro s b s' h
  simp only [bind_apply] at h
  cases hxs : x s with
  | ok a s1 =>
    rw [hxs] at h
    have := hx s a s1 hxs
    subst this
    exact hf a _ b s' h
  | panic => rw [hxs] at h; cases h
  | nofuel => rw [hxs] at h; cases h

theorem ReadOnly.ite {α : Type} (c : Prop) [Decidable c] {x y : TM α} (hx : ReadOnly x) (hy : ReadOnly y) :
    ReadOnly (if c then x else y) := by
  split <;> assumption

theorem ReadOnly.load (p : Ptr) : ReadOnly (TreePrelude.Go.load p : TM TCell) := by
  intro s a s' h
  rw [load_apply] at h
  cases hh : s.heap p with
  | some c => rw [hh] at h; simp at h; exact h.2.symm
  | none => rw [hh] at h; cases h

theorem ReadOnly.nth {α : Type} (l : List α) (i : Int) : ReadOnly (CorePrelude.Go.nth l i : TM α) := by
  intro s a s' h
  unfold CorePrelude.Go.nth at h
  by_cases h0 : 0 ≤ i
  · simp only [h0, ↓reduceIte] at h
    cases hl : l[i.toNat]? with
    | some v => rw [hl] at h; simp at h; exact h.2.symm
    | none => rw [hl] at h; simp at h
  · simp [h0] at h

theorem ReadOnly.read {α : Type} (f : TSt → α) : ReadOnly (CorePrelude.Go.read f : TM α) := by
  intro s a s' h; simp at h; exact h.2.symm

end PV.TreeTie
