/-
  The tie of the TERMINAL PARSERS, part 5: the translated closures as LEAVES of the parser core.

  `tie_terminal` (Proofs/TermTieRegexp.lean) relates the translated closure to `Terminal.parse`.  The parser core's model
  (`run`, Model/Run.lean) reports a panic inside a terminal as an error VALUE (kind `.panic site`, at the position) — a
  difference of REPRESENTATION, like the dangling parser variable of Props/C01Q.lean: the Go program panics.  Therefore
    * `tie_term_corr`   wherever the model's terminal does not panic, the translated closure corresponds (`Corr`, the
                        vocabulary of Props/C01P.lean) to `run cfg (fuel+1) (.term t)`;
    * `termLeaf`        the translated closure with a Go panic reported the model's way (`panicAsValue`: an error value of
                        kind panic labelled with the model's site name) agrees with `run` at EVERY position (`tie_leaf`:
                        `AgreesF`), so that it can replace the model leaf `Terminal_parse` of the closed world;
    * `leaf_eq_closure` for a terminal with documented construction parameters, an engine within its contract and a
                        position in the file, the leaf IS the closure (nothing is relabelled);
  and two facts of Props/C08.lean restated about the translated code: totality and the node span.
-/
import ParsleyVerif.Proofs.TermTieRegexp
import ParsleyVerif.Props.C08
namespace PV.TermTie
open PV.CoreTie PV.Text PV.TermPrelude PV.FactsTerm PV.FactsCore

/-- the model's answer of a terminal, as `run` reports it -/
def termOut (cfg : Cfg) (t : Terminal) (pos : Nat) : Out :=
  match t.parse cfg.params cfg.file pos with
  | .node n => ⟨.one n, [], none⟩
  | .err e => ⟨.nil, [], some e⟩
  | .panic site => ⟨.nil, [], some ⟨pos, .panic (tokOf site)⟩⟩

/-- the site name the model gives to a panic of the terminal at this position (empty: no panic) -/
def panicSite (cfg : Cfg) (t : Terminal) (pos : Nat) : Bytes :=
  match t.parse cfg.params cfg.file pos with
  | .panic site => tokOf site
  | _ => []

/-- a Go panic of `x`, reported as the model reports a panic inside a terminal: the error value
    `parsley.NewError(pos, <panic: site>)` (`eKind (.panic site)`), the state unchanged; any other outcome of `x` as it is -/
def panicAsValue (site : Bytes) (pos : Int) (x : CM (CNode × IntSet × CErr)) : CM (CNode × IntSet × CErr) := fun s =>
  match x s with
  | .panic => .ok (.nil, [], .mk pos (.other 1 site)) s
  | r => r

/-- **the terminal leaf of the translated parser core**: the translated closure of the terminal; a panic inside it is
    reported the model's way -/
def termLeaf (cfg : Cfg) (T : TWorld) (X : RxNames) (schema : CorePrelude.Opaque) (t : Terminal)
    (m : IntMap) (pos : Int) : CM (CNode × IntSet × CErr) :=
  panicAsValue (panicSite cfg t pos.toNat) pos (termClosure T X schema t m pos)

/-- where the model's terminal does not panic, the translated closure corresponds to `run` on the terminal -/
theorem tie_term_corr (T : TWorld) (cfg : Cfg) (h0 : cfg.maxCalls = 0) (hT : TWorldRel T cfg) (X : RxNames)
    (schema : CorePrelude.Opaque) (t : Terminal) (hX : RegexpOK T cfg X t) (fuel : Nat) (m : IntMap) (c : Ctx) (pos : Nat)
    (s : Context) (st : St) (hs : StRel s st) (hnp : ∀ site, t.parse cfg.params cfg.file pos ≠ .panic site) :
    Corr (termClosure T X schema t m (pos : Int) s) (run cfg (fuel + 1) (.term t) c pos st) := by
  have h := tie_terminal T cfg hT X schema t hX m pos s
  rw [run, if_neg (run_budget0 cfg h0 st)]
  cases hp : t.parse cfg.params cfg.file pos with
  | node n =>
    rw [hp] at h
    exact ⟨s, h, hs⟩
  | err e =>
    rw [hp] at h
    exact ⟨s, h, hs.logEv cfg _⟩
  | panic site => exact absurd hp (hnp site)

/-- **the leaf agrees with `run` on the terminal**, at every position, for every terminal -/
theorem tie_leaf (T : TWorld) (cfg : Cfg) (h0 : cfg.maxCalls = 0) (hT : TWorldRel T cfg) (X : RxNames)
    (schema : CorePrelude.Opaque) (t : Terminal) (hX : RegexpOK T cfg X t) (fuel : Nat) :
    AgreesF (termLeaf cfg T X schema t) cfg (fuel + 1) (.term t) := by
  intro m c pos s st _ hs
  have h := tie_terminal T cfg hT X schema t hX m pos s
  rw [run, if_neg (run_budget0 cfg h0 st)]
  unfold termLeaf panicAsValue panicSite
  simp only [Int.toNat_natCast]
  cases hp : t.parse cfg.params cfg.file pos with
  | node n =>
    rw [hp] at h
    refine ⟨s, ?_, hs⟩
    simp only [CorrT] at h
    rw [h]; rfl
  | err e =>
    rw [hp] at h
    refine ⟨s, ?_, hs.logEv cfg _⟩
    simp only [CorrT] at h
    rw [h]; rfl
  | panic site =>
    rw [hp] at h
    refine ⟨s, ?_, hs⟩
    simp only [CorrT] at h
    rw [h]; rfl

/-- no relabelling where the closure does not panic -/
theorem leaf_eq_of_not_panic (cfg : Cfg) (T : TWorld) (X : RxNames) (schema : CorePrelude.Opaque) (t : Terminal)
    (m : IntMap) (pos : Int) (s : Context) (h : termClosure T X schema t m pos s ≠ .panic) :
    termLeaf cfg T X schema t m pos s = termClosure T X schema t m pos s := by
  unfold termLeaf panicAsValue
  cases hx : termClosure T X schema t m pos s with
  | panic => exact absurd hx h
  | ok a s' => rfl
  | nofuel => rfl

/-! ### C08's totality and span, about the translated closures -/

variable {σ : Type}

/-- **totality**: for a terminal with documented construction parameters (`Terminal.WF`), an engine that answers inside the
    bytes it was given (`LenOk`) and has the capturing group the terminal was built with (`GroupOk`), at a position in the
    file, the translated closure RETURNS — no panic, the state untouched — the embedding of what the model returns -/
theorem closure_total (T : TWorld) (cfg : Cfg) (hT : TWorldRel T cfg) (X : RxNames) (schema : CorePrelude.Opaque)
    (t : Terminal) (hX : RegexpOK T cfg X t) (m : IntMap) (pos : Nat) (s : σ)
    (h : InFile cfg.file pos) (wf : t.WF) (hl : cfg.params.LenOk t) (hg : cfg.params.GroupOk t) :
    (∃ n, t.parse cfg.params cfg.file pos = .node n ∧
      termClosure T X schema t m (pos : Int) s = .ok (eNode n, [], .nil) s) ∨
    (∃ e, t.parse cfg.params cfg.file pos = .err e ∧
      termClosure T X schema t m (pos : Int) s = .ok (.nil, [], eErr1 e) s) := by
  have hc := tie_terminal T cfg hT X schema t hX m pos s
  cases hp : t.parse cfg.params cfg.file pos with
  | node n => rw [hp] at hc; exact .inl ⟨n, rfl, hc⟩
  | err e => rw [hp] at hc; exact .inr ⟨e, rfl, hc⟩
  | panic site => exact absurd hp (c08_total cfg.params cfg.file t pos site h wf hl hg)

/-- without `GroupOk` the only panic of a translated closure is the documented one of terminal.Regexp -/
theorem closure_panic_only_missing_group (T : TWorld) (cfg : Cfg) (hT : TWorldRel T cfg) (X : RxNames)
    (schema : CorePrelude.Opaque) (t : Terminal) (hX : RegexpOK T cfg X t) (m : IntMap) (pos : Nat) (s : σ)
    (h : InFile cfg.file pos) (wf : t.WF) (hl : cfg.params.LenOk t)
    (hp : termClosure T X schema t m (pos : Int) s = .panic) :
    ∃ id tok name ml, t = .regexp id tok name true ∧ rest cfg.file pos ≠ [] ∧
      cfg.params.regexp id (rest cfg.file pos) = some (ml, none) := by
  have hc := tie_terminal T cfg hT X schema t hX m pos s
  cases hq : t.parse cfg.params cfg.file pos with
  | node n => rw [hq, hp] at hc; cases hc
  | err e => rw [hq, hp] at hc; cases hc
  | panic site => exact (c08_panic_only_missing_group cfg.params cfg.file t pos site h wf hl hq).2

/-- **the node span**: a node returned by a translated closure is a leaf that starts at the position the closure was
    called at and ends inside the file, the curtailing set is empty and the error nil -/
theorem closure_node_span (T : TWorld) (cfg : Cfg) (hT : TWorldRel T cfg) (X : RxNames) (schema : CorePrelude.Opaque)
    (t : Terminal) (hX : RegexpOK T cfg X t) (m : IntMap) (pos : Nat) (s s' : σ) (n : CNode) (cp : IntSet) (e : CErr)
    (h : InFile cfg.file pos) (wf : t.WF) (hl : cfg.params.LenOk t)
    (hr : termClosure T X schema t m (pos : Int) s = .ok (n, cp, e) s') (hn : n.isNil = false) :
    ∃ (tok : Bytes) (v : CorePrelude.Opaque) (rp : Nat), n = .leaf tok v (pos : Int) (rp : Int) ∧ pos ≤ rp ∧
      rp ≤ cfg.file.offset + cfg.file.len ∧ cp = [] ∧ e = .nil ∧ s' = s := by
  have hc := tie_terminal T cfg hT X schema t hX m pos s
  cases hq : t.parse cfg.params cfg.file pos with
  | node nd =>
    rw [hq] at hc
    simp only [CorrT] at hc
    rw [hc] at hr
    injection hr with h1 h2
    simp only [Prod.mk.injEq] at h1
    obtain ⟨hn1, hcp, he⟩ := h1
    obtain ⟨a, b, c⟩ := c08_node_span cfg.params cfg.file t pos nd h wf hl hq
    have hsp := spec_ranged cfg.params (rest cfg.file pos) pos t hl
    rw [← c08_spec cfg.params cfg.file t pos h wf hl, hq] at hsp
    obtain ⟨-, tok, v, p, r, rfl⟩ := hsp
    simp only [Node.pos, Node.rpos] at a b c
    subst a
    exact ⟨tok, eVal v, r, by rw [← hn1]; simp [eNode], b, c, hcp.symm, he.symm, h2.symm⟩
  | err er =>
    rw [hq] at hc
    simp only [CorrT] at hc
    rw [hc] at hr
    injection hr with h1 h2
    simp only [Prod.mk.injEq] at h1
    rw [← h1.1] at hn
    cases hn
  | panic site =>
    rw [hq] at hc
    simp only [CorrT] at hc
    rw [hc] at hr
    cases hr

end PV.TermTie
