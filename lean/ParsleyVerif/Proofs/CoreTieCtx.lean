/-
  Stage 1 of the core tie: parsley/context.go (RegisterCall, SetError, Error) — translated vs. `St.regCall`,
  `St.setError`, `st.ctxErr`.
-/
import ParsleyVerif.Proofs.CoreTieBasics
namespace PV.CoreTie
open PV.FactsCore

theorem tie_RegisterCall (W : World Context) (s : Context) (st : St) (rel : StRel s st) :
    ∃ s', Context_RegisterCall W s = .ok () s' ∧ StRel s' st.regCall := by
  refine ⟨{ s with callCount := s.callCount + 1 }, ?_, ?_⟩
  · simp [Context_RegisterCall]
  · obtain ⟨h1, h2, h3, h4, h5⟩ := rel
    refine ⟨?_, h2, h3, h4, h5⟩
    simp [St.regCall, h1]

theorem tie_Error (W : World Context) (s : Context) (st : St) (rel : StRel s st) :
    Context_Error W s = .ok (eErr st.ctxErr) s := by
  simp [Context_Error, rel.err]

theorem tie_SetError (W : World Context) (s : Context) (st : St) (rel : StRel s st) (e : Option PV.Err) :
    ∃ s', Context_SetError W (eErr e) s = .ok () s' ∧ StRel s' (st.setError e) := by
  obtain ⟨h1, h2, h3, h4, h5⟩ := rel
  obtain ⟨-, f2, -, -, f5⟩ := setError_ctxErr st e
  cases e with
  | none => exact ⟨s, by simp [Context_SetError, CorePrelude.Err.isNil], ⟨h1, h2, h3, h4, h5⟩⟩
  | some e =>
    cases hc : st.ctxErr with
    | none =>
      refine ⟨{ s with err := eErr (some e) }, ?_, ?_⟩
      · simp [Context_SetError, h2, hc, CorePrelude.Err.isNil]
      · exact ⟨by rw [f5]; exact h1, by simp [St.setError, hc], by rw [f2]; exact h3, h4, h5⟩
    | some c =>
      by_cases hge : e.pos ≥ c.pos
      · refine ⟨{ s with err := eErr (some e) }, ?_, ?_⟩
        · have : (c.pos : Int) ≤ (e.pos : Int) := by omega
          core_simp [Context_SetError, h2, hc, CorePrelude.Err.isNil]
        · exact ⟨by rw [f5]; exact h1, by simp [St.setError, hc, hge], by rw [f2]; exact h3, h4, h5⟩
      · refine ⟨s, ?_, ?_⟩
        · have : ¬ (c.pos : Int) ≤ (e.pos : Int) := by omega
          core_simp [Context_SetError, h2, hc, CorePrelude.Err.isNil]
        · exact ⟨by rw [f5]; exact h1, by simp [St.setError, hc, hge, h2], by rw [f2]; exact h3, h4, h5⟩

end PV.CoreTie
