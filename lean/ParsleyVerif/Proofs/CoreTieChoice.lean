/-
  Stage 2 of the core tie: combinator.Choice — translated closure vs. `run … (.choice gs)` (`choiceLoop`, `altErr`).
-/
import ParsleyVerif.Proofs.CoreTieAny
namespace PV.CoreTie
open PV.FactsCore

/-- the error selection shared by Any and Choice, as the translation computes it -/
theorem altErr_cases (pos : Nat) (a : AltSt) (oerr : Option PV.Err) :
    (oerr = none ∧ altErr pos a oerr = a) ∨
    (∃ e, oerr = some e ∧ (a.err = none ∨ ∃ ce, a.err = some ce ∧ e.pos ≥ ce.pos) ∧
      ((e.pos > pos ∨ e.kind.isNotFound = false) ∧ altErr pos a oerr = { a with err := some e } ∨
       (¬ e.pos > pos ∧ e.kind.isNotFound = true) ∧ altErr pos a oerr = { a with nf := some e })) ∨
    (∃ e ce, oerr = some e ∧ a.err = some ce ∧ ¬ e.pos ≥ ce.pos ∧ altErr pos a oerr = a) := by
  cases oerr with
  | none => exact .inl ⟨rfl, rfl⟩
  | some e =>
    cases hae : a.err with
    | none =>
      refine .inr (.inl ⟨e, rfl, .inl rfl, ?_⟩)
      by_cases hgt : e.pos > pos
      · exact .inl ⟨.inl hgt, by simp [altErr, hae, hgt]⟩
      · cases hk : e.kind.isNotFound
        · exact .inl ⟨.inr rfl, by simp [altErr, hae, hgt, hk]⟩
        · exact .inr ⟨⟨hgt, rfl⟩, by simp [altErr, hae, hgt, hk]⟩
    | some ce =>
      by_cases hge : e.pos ≥ ce.pos
      · refine .inr (.inl ⟨e, rfl, .inr ⟨ce, rfl, hge⟩, ?_⟩)
        by_cases hgt : e.pos > pos
        · exact .inl ⟨.inl hgt, by simp [altErr, hae, hge, hgt]⟩
        · cases hk : e.kind.isNotFound
          · exact .inl ⟨.inr rfl, by simp [altErr, hae, hge, hgt, hk]⟩
          · exact .inr ⟨⟨hgt, rfl⟩, by simp [altErr, hae, hge, hgt, hk]⟩
      · exact .inr (.inr ⟨e, ce, rfl, rfl, hge, by simp [altErr, hae, hge]⟩)

theorem choice_loop (W : World Context) (cfg : Cfg) (fuel : Nat) (m : IntMap) (c : Ctx) (hm : CtxRel m c) (pos : Nat) :
    ∀ (ps : List Parser) (gs : List G), AgreesAll W cfg fuel ps gs →
    ∀ (a : AltSt) (s : Context) (st : St), StRel s st →
      match choiceLoop (run cfg fuel) c pos gs a st with
      | none => Choice_parse_loop1 W m pos ps (eSet a.cp) (eErr a.err) (eErr a.nf) s = .nofuel
      | some (some o, _, st') => ∃ s', Choice_parse_loop1 W m pos ps (eSet a.cp) (eErr a.err) (eErr a.nf) s =
          .ok (.ret (eOut o)) s' ∧ StRel s' st'
      | some (none, a', st') => ∃ s', Choice_parse_loop1 W m pos ps (eSet a.cp) (eErr a.err) (eErr a.nf) s =
          .ok (.done (eSet a'.cp, eErr a'.err, eErr a'.nf)) s' ∧ StRel s' st' := by
  intro ps gs hall
  induction hall with
  | nil =>
    intro a s st hs
    exact ⟨s, by simp [Choice_parse_loop1], hs⟩
  | @cons p g ps gs hp _ ih =>
    intro a s st hs
    obtain ⟨s1, e1, r1⟩ := tie_RegisterCall W s st hs
    have h := hp m c pos s1 st.regCall hm r1
    simp only [choiceLoop]
    cases hr : run cfg fuel g c pos st.regCall with
    | none =>
      rw [hr] at h
      simp [Choice_parse_loop1, e1, corr_none h]
    | some r =>
      obtain ⟨o, st2⟩ := r
      rw [hr] at h
      obtain ⟨s2, e2, r2⟩ := corr_some h
      obtain ⟨ores, ocp, oerr⟩ := o
      dsimp only
      -- one round: the error selection, then the rest of the body on the selected state
      have key : ∀ (X : CRes Context (CorePrelude.Brk (CNode × IntSet × CErr) (IntSet × CErr × CErr))),
          (if (!(eRes ores).isNil) then (do
              Context_SetError W (eErr (altErr pos { a with cp := cpUnion a.cp ocp } oerr).err)
              pure (CorePrelude.Brk.ret (eRes ores, eSet (altErr pos { a with cp := cpUnion a.cp ocp } oerr).cp, CorePrelude.Err.nil)))
            else Choice_parse_loop1 W m pos ps (eSet (altErr pos { a with cp := cpUnion a.cp ocp } oerr).cp)
              (eErr (altErr pos { a with cp := cpUnion a.cp ocp } oerr).err)
              (eErr (altErr pos { a with cp := cpUnion a.cp ocp } oerr).nf) : CM _) s2 = X →
          Choice_parse_loop1 W m pos (p :: ps) (eSet a.cp) (eErr a.err) (eErr a.nf) s = X := by
        intro X hX
        rw [← hX]
        simp only [Choice_parse_loop1, bind_apply, e1, e2, eOut, ← eSet_union]
        obtain ⟨f1, -, -, -⟩ := altErr_fields pos { a with cp := cpUnion a.cp ocp } oerr
        simp only [f1]
        cases oerr with
        | none => simp [altErr]
        | some e2' =>
          cases hae : a.err with
          | none =>
            by_cases hgt : e2'.pos > pos
            · have : (pos : Int) < e2'.pos := by omega
              core_simp [altErr, hae, hgt]
            · have : ¬ (pos : Int) < e2'.pos := by omega
              cases hk : e2'.kind.isNotFound <;> core_simp [altErr, hae, hgt, hk]
          | some ce =>
            by_cases hge : e2'.pos ≥ ce.pos
            · have hge' : (ce.pos : Int) ≤ e2'.pos := by omega
              by_cases hgt : e2'.pos > pos
              · have : (pos : Int) < e2'.pos := by omega
                core_simp [altErr, hae, hge, hgt]
              · have : ¬ (pos : Int) < e2'.pos := by omega
                cases hk : e2'.kind.isNotFound <;> core_simp [altErr, hae, hge, hgt, hk]
            · have hge' : ¬ (ce.pos : Int) ≤ e2'.pos := by omega
              core_simp [altErr, hae, hge]
      cases hn : ores.isNil
      · -- the alternative matched: SetError, return
        simp only [Bool.not_false, if_true]
        obtain ⟨s3, e3, r3⟩ := tie_SetError W s2 st2 r2 (altErr pos { a with cp := cpUnion a.cp ocp } oerr).err
        exact ⟨s3, key _ (by simp [hn, e3, eOut]), r3⟩
      · simp only [Bool.not_true, Bool.false_eq_true, if_false]
        have := ih (altErr pos { a with cp := cpUnion a.cp ocp } oerr) s2 st2 r2
        cases hl : choiceLoop (run cfg fuel) c pos gs (altErr pos { a with cp := cpUnion a.cp ocp } oerr) st2 with
        | none => rw [hl] at this; exact key _ (by simp [hn, this])
        | some r' =>
          obtain ⟨oo, a', st'⟩ := r'
          rw [hl] at this
          cases oo with
          | none => obtain ⟨s', e3, r3⟩ := this; exact ⟨s', key _ (by simp [hn, e3]), r3⟩
          | some o' => obtain ⟨s', e3, r3⟩ := this; exact ⟨s', key _ (by simp [hn, e3]), r3⟩

/-- **combinator.Choice**: IF the world's `parse` agrees with `run cfg fuel` on every operand, THEN the translated closure
    agrees with `run cfg (fuel+1)` on the Choice node -/
theorem tie_Choice (W : World Context) (cfg : Cfg) (h0 : cfg.maxCalls = 0) (fuel : Nat) (ps : List Parser) (gs : List G)
    (hp : AgreesAll W cfg fuel ps gs) : AgreesF (Choice_parse W ps) cfg (fuel + 1) (.choice gs) := by
  intro m c pos s st hm hs
  rw [run, if_neg (run_budget0 cfg h0 st)]
  have h := choice_loop W cfg fuel m c hm pos ps gs hp {} s st hs
  cases hl : choiceLoop (run cfg fuel) c pos gs {} st with
  | none =>
    rw [hl] at h
    have h' : Choice_parse_loop1 W m pos ps CorePrelude.Data.EmptyIntSet .nil .nil s = .nofuel := h
    simp [Choice_parse, h', Corr]
  | some r =>
    obtain ⟨oo, a, st'⟩ := r
    rw [hl] at h
    cases oo with
    | some o =>
      obtain ⟨s', e1, r1⟩ := h
      have e1' : Choice_parse_loop1 W m pos ps CorePrelude.Data.EmptyIntSet .nil .nil s = .ok (.ret (eOut o)) s' := e1
      exact corr_intro (by simp [Choice_parse, e1']) r1
    | none =>
      obtain ⟨s', e1, r1⟩ := h
      have e1' : Choice_parse_loop1 W m pos ps CorePrelude.Data.EmptyIntSet .nil .nil s =
          .ok (.done (eSet a.cp, eErr a.err, eErr a.nf)) s' := e1
      cases hae : a.err with
      | some e => exact corr_intro (by simp [Choice_parse, e1', eOut, hae]) r1
      | none => exact corr_intro (by simp [Choice_parse, e1', eOut, hae]) r1

end PV.CoreTie
