/-
  THE COMBINATORIAL HALF WITH TRIMS (C01 with trims, completeness, half B) — no `run` here.

  Every end position an exact derivation (`DerivesW`) reaches is reached by a CURTAILED derivation
  (`DerivesCW`) from the zero counters — although LeftTrim hands the counters of the position BEFORE the
  whitespace to its operand, which then runs at a later position (with less input remaining) under counters
  it did not earn there.

  The cut argument of Proofs/CurtailCover.lean, with one more ghost: a PHASE `s ∈ {0, 1}`.  Between two
  resets of the counters (a sequence element that consumed) the evaluation visits at most two positions:
  `p`, and — after ONE LeftTrim that skipped the maximal whitespace run — `p' = p + run`, where no
  whitespace is left, so that no further LeftTrim moves (`skip_idem`).  Phase 0: nested activations of
  `memo k` start at `p`; their ends strictly shrink (or the derivation is cut), `c k + bound k ≤ hi + 1`.
  At the move every bound is RELAXED by one (`bound k + 1`): the first activation of `k` at `p'` may end
  exactly where the innermost activation at `p` ends — it is NOT a repetition, the starts differ, nothing
  can be cut.  Phase 1 therefore only has `c k + bound k ≤ hi + 2`, and the curtailment test
  `c k ≤ remaining p' + 1` still passes because of the `+ 1` in combinator/memoize.go
  (`leftRecCtx.Get(parserIndex) > Remaining(pos) + 1`): the slack that the grammar without trims never
  needs (there `c k ≤ remaining` always) is exactly what carrying the counters across whitespace costs.
  The bound is attained: `P → P 'b' | LeftTrim(P) | ε` on " b" enters `P` at 2 with counter 2 = remaining 2 + 1
  (test in Audit/C01W.lean; with the `+ 1` removed from a scratch copy of combinator/memoize.go the Go library
  rejects " b" under Sentence(P)).
-/
import ParsleyVerif.Proofs.C1TBasics
import ParsleyVerif.Proofs.CurtailCover
namespace PV.C1T
open PV PV.Text

/-! ### derivations with a size -/

mutual
inductive DerivesWN (cfg : Cfg) : Nat → G → Nat → Node → Prop
  | term {t pos n} : t.parse cfg.params cfg.file pos = .node n → DerivesWN cfg 1 (.term t) pos n
  | empty {pos} : DerivesWN cfg 1 .empty pos (.empty pos)
  | ref {m k g pos x} : cfg.env[k]? = some g → DerivesWN cfg m g pos x → DerivesWN cfg (m + 1) (.ref k) pos x
  | memo {m i g pos x} : DerivesWN cfg m g pos x → DerivesWN cfg (m + 1) (.memo i g) pos x
  | any {m gs g pos x} : g ∈ gs → DerivesWN cfg m g pos x → DerivesWN cfg (m + 1) (.any gs) pos x
  | optSome {m g pos x} : DerivesWN cfg m g pos x → DerivesWN cfg (m + 1) (.optional g) pos x
  | optNone {g pos} : DerivesWN cfg 1 (.optional g) pos (.empty pos)
  | seqOf {m gs o sh pos nodes} : (G.seq .seqOf gs o).shape = some sh → DerivesSeqWN cfg m sh 0 pos nodes →
      sh.lenCheck nodes.length = true → DerivesWN cfg (m + 1) (.seq .seqOf gs o) pos (handleResult sh pos nodes)
  | ltrim {n g m pos x} : (skipWhitespaces cfg.file pos m).2 = none →
      DerivesWN cfg n g (skipWhitespaces cfg.file pos m).1 x → DerivesWN cfg (n + 1) (.ltrim g m) pos x
  | rtrim {n g m pos x} : DerivesWN cfg n g pos x → movedErr cfg m x = none →
      DerivesWN cfg (n + 1) (.rtrim g m) pos (moved cfg m x)
inductive DerivesSeqWN (cfg : Cfg) : Nat → SeqShape → Nat → Nat → List Node → Prop
  | nil {sh d pos} : DerivesSeqWN cfg 0 sh d pos []
  | cons {a b sh d pos g n rest} : sh.lookup d = some g → DerivesWN cfg a g pos n →
      DerivesSeqWN cfg b sh (d + 1) n.rpos rest → DerivesSeqWN cfg (a + b + 1) sh d pos (n :: rest)
end

/-- every exact derivation has a size -/
theorem derivesWN_of_derivesW_both (cfg : Cfg) :
    (∀ {g pos x}, DerivesW cfg g pos x → ∃ n, DerivesWN cfg n g pos x) ∧
    (∀ {sh d pos nodes}, DerivesSeqW cfg sh d pos nodes → ∃ n, DerivesSeqWN cfg n sh d pos nodes) := by
  let M1 : (g : G) → (pos : Nat) → (x : Node) → DerivesW cfg g pos x → Prop :=
    fun g pos x _ => ∃ n, DerivesWN cfg n g pos x
  let M2 : (sh : SeqShape) → (d pos : Nat) → (nodes : List Node) → DerivesSeqW cfg sh d pos nodes → Prop :=
    fun sh d pos nodes _ => ∃ n, DerivesSeqWN cfg n sh d pos nodes
  refine ⟨fun {g pos x} h => @DerivesW.rec cfg M1 M2 ?_ ?_ ?_ ?_ ?_ ?_ ?_ ?_ ?_ ?_ ?_ ?_ g pos x h,
    fun {sh d pos nodes} h => @DerivesSeqW.rec cfg M1 M2 ?_ ?_ ?_ ?_ ?_ ?_ ?_ ?_ ?_ ?_ ?_ ?_ sh d pos nodes h⟩
  all_goals first
    | (intro t pos n hp; exact ⟨1, .term hp⟩)
    | (intro pos; exact ⟨1, .empty⟩)
    | (intro k g pos x hk _ ih; obtain ⟨n, hn⟩ := ih; exact ⟨n + 1, .ref hk hn⟩)
    | (intro i g pos x _ ih; obtain ⟨n, hn⟩ := ih; exact ⟨n + 1, .memo hn⟩)
    | (intro gs g pos x hm _ ih; obtain ⟨n, hn⟩ := ih; exact ⟨n + 1, .any hm hn⟩)
    | (intro g pos x _ ih; obtain ⟨n, hn⟩ := ih; exact ⟨n + 1, .optSome hn⟩)
    | (intro g pos; exact ⟨1, .optNone⟩)
    | (intro gs o sh pos nodes hs _ hl ih; obtain ⟨n, hn⟩ := ih; exact ⟨n + 1, .seqOf hs hn hl⟩)
    | (intro g m pos x hws _ ih; obtain ⟨n, hn⟩ := ih; exact ⟨n + 1, .ltrim hws hn⟩)
    | (intro g m pos x _ hok ih; obtain ⟨n, hn⟩ := ih; exact ⟨n + 1, .rtrim hn hok⟩)
    | (intro sh d pos; exact ⟨0, .nil⟩)
    | (intro sh d pos g n rest hl _ _ ih1 ih2; obtain ⟨a, ha⟩ := ih1; obtain ⟨b, hb⟩ := ih2
       exact ⟨a + b + 1, .cons hl ha hb⟩)

theorem derivesWN_of_derivesW (cfg : Cfg) {g : G} {pos : Nat} {x : Node} (h : DerivesW cfg g pos x) :
    ∃ n, DerivesWN cfg n g pos x := (derivesWN_of_derivesW_both cfg).1 h

/-- and a sized derivation is a derivation -/
theorem derivesW_of_derivesWN (cfg : Cfg) : ∀ n,
    (∀ g pos x, DerivesWN cfg n g pos x → DerivesW cfg g pos x) ∧
    (∀ sh d pos nodes, DerivesSeqWN cfg n sh d pos nodes → DerivesSeqW cfg sh d pos nodes) := by
  intro n
  induction n using Nat.strongRecOn with
  | _ n ih =>
    refine ⟨?_, ?_⟩
    · intro g pos x h
      cases h with
      | term hp => exact .term hp
      | empty => exact .empty
      | ref hk hd => exact .ref hk ((ih _ (by omega)).1 _ _ _ hd)
      | memo hd => exact .memo ((ih _ (by omega)).1 _ _ _ hd)
      | any hm hd => exact .any hm ((ih _ (by omega)).1 _ _ _ hd)
      | optSome hd => exact .optSome ((ih _ (by omega)).1 _ _ _ hd)
      | optNone => exact .optNone
      | seqOf hs hds hl => exact .seqOf hs ((ih _ (by omega)).2 _ _ _ _ hds) hl
      | ltrim hws hd => exact .ltrim hws ((ih _ (by omega)).1 _ _ _ hd)
      | rtrim hd hok => exact .rtrim ((ih _ (by omega)).1 _ _ _ hd) hok
    · intro sh d pos nodes h
      cases h with
      | nil => exact .nil
      | cons hl hx hrest => exact .cons hl ((ih _ (by omega)).1 _ _ _ hx) ((ih _ (by omega)).2 _ _ _ _ hrest)

/-! ### grammars the argument speaks about -/

/-- every `Memoize` index wraps one parser, terminals stay within the file -/
def GoodW (cfg : Cfg) (bodyOf : Nat → G) (g : G) : Prop := GOK bodyOf g ∧ TermsW cfg g

theorem GoodW.memo {cfg : Cfg} {bodyOf : Nat → G} {i : Nat} {g : G} (h : GoodW cfg bodyOf (.memo i g)) :
    g = bodyOf i ∧ GoodW cfg bodyOf g := by
  have h1 : g = bodyOf i ∧ GOK bodyOf g := by simpa [GOK, G.All, LocalOK] using h.1
  exact ⟨h1.1, h1.2, All_memo h.2⟩

theorem GoodW.any {cfg : Cfg} {bodyOf : Nat → G} {gs : List G} (h : GoodW cfg bodyOf (.any gs)) :
    ∀ g ∈ gs, GoodW cfg bodyOf g := fun g hg => ⟨All_any h.1 g hg, All_any h.2 g hg⟩

theorem GoodW.optional {cfg : Cfg} {bodyOf : Nat → G} {g : G} (h : GoodW cfg bodyOf (.optional g)) :
    GoodW cfg bodyOf g := ⟨All_optional h.1, All_optional h.2⟩

theorem GoodW.ltrim {cfg : Cfg} {bodyOf : Nat → G} {g : G} {m : WsMode} (h : GoodW cfg bodyOf (.ltrim g m)) :
    GoodW cfg bodyOf g := ⟨All_ltrim h.1, All_ltrim h.2⟩

theorem GoodW.rtrim {cfg : Cfg} {bodyOf : Nat → G} {g : G} {m : WsMode} (h : GoodW cfg bodyOf (.rtrim g m)) :
    GoodW cfg bodyOf g := ⟨All_rtrim h.1, All_rtrim h.2⟩

theorem GoodW.lookup {cfg : Cfg} {bodyOf : Nat → G} {g : G} {sh : SeqShape} (h : GoodW cfg bodyOf g)
    (hs : g.shape = some sh) : ∀ d g', sh.lookup d = some g' → GoodW cfg bodyOf g' :=
  fun d g' hl => ⟨shape_lookup_all h.1 hs d g' hl, shape_lookup_all h.2 hs d g' hl⟩

/-! ### positions and node kinds of derivations -/

theorem hi_eq (cfg : Cfg) : cfg.hi = cfg.file.offset + cfg.file.len := rfl

/-- a derivation started inside the file ends inside the file, not before its start, and never with an
    EndNode -/
theorem derivesWN_pos (cfg : Cfg) (henv : ∀ g' ∈ cfg.env, TermsW cfg g') : ∀ n,
    (∀ g pos x, TermsW cfg g → InFile cfg.file pos → DerivesWN cfg n g pos x →
      pos ≤ x.rpos ∧ x.rpos ≤ cfg.hi ∧ NotEof x) ∧
    (∀ sh d pos nodes, (∀ d g', sh.lookup d = some g' → TermsW cfg g') → InFile cfg.file pos →
      DerivesSeqWN cfg n sh d pos nodes → pos ≤ endOf pos nodes ∧ endOf pos nodes ≤ cfg.hi ∧ ∀ x ∈ nodes, NotEof x) := by
  intro n
  induction n using Nat.strongRecOn with
  | _ n ih =>
    refine ⟨?_, ?_⟩
    · intro g pos x hg hin h
      have hhi : pos ≤ cfg.hi := hin.2
      cases h with
      | term hp =>
        rename_i t
        have hT : TermGood cfg t := by simpa [TermsW, G.All, TermsLocalW] using hg
        obtain ⟨h1, h2⟩ := (hT pos hin).1 _ hp
        have := Node.WF_bounds cfg.hi _ h2
        obtain ⟨tok, v, r, rfl⟩ := Terminal.parse_node _ _ _ _ _ hp
        refine ⟨by omega, this.2, ?_⟩
        intro p hp'; cases hp'
      | empty => exact ⟨Nat.le_refl _, hhi, by intro p hp'; cases hp'⟩
      | ref hk hd => exact (ih _ (by omega)).1 _ _ _ (henv _ (List.mem_of_getElem? hk)) hin hd
      | memo hd => exact (ih _ (by omega)).1 _ _ _ (All_memo hg) hin hd
      | any hm hd => exact (ih _ (by omega)).1 _ _ _ (All_any hg _ hm) hin hd
      | optSome hd => exact (ih _ (by omega)).1 _ _ _ (All_optional hg) hin hd
      | optNone => exact ⟨Nat.le_refl _, hhi, by intro p hp'; cases hp'⟩
      | seqOf hs hds hl =>
        rw [handleResult_rpos]
        obtain ⟨a1, a2, a3⟩ := (ih _ (by omega)).2 _ _ _ _ (fun d g' hl' => shape_lookup_all hg hs d g' hl') hin hds
        exact ⟨a1, a2, handleResult_notEof _ _ _ a3⟩
      | ltrim hws hd =>
        rename_i n' g' m
        have hb := PV.WFT.skipWs_bounds cfg.file pos m hin
        have hin' : InFile cfg.file (skipWhitespaces cfg.file pos m).1 := ⟨by have := hin.1; omega, hb.2⟩
        obtain ⟨a1, a2, a3⟩ := (ih _ (by omega)).1 _ _ _ (All_ltrim hg) hin' hd
        exact ⟨by omega, a2, a3⟩
      | rtrim hd hok =>
        rename_i n' g' m x'
        obtain ⟨a1, a2, a3⟩ := (ih _ (by omega)).1 _ _ _ (All_rtrim hg) hin hd
        have hin' : InFile cfg.file x'.rpos := ⟨by have := hin.1; omega, a2⟩
        have hb := PV.WFT.skipWs_bounds cfg.file x'.rpos m hin'
        rw [moved_rpos cfg m x' a3]
        exact ⟨by omega, hb.2, moved_notEof cfg m x' a3⟩
    · intro sh d pos nodes hg hin h
      cases h with
      | nil => exact ⟨Nat.le_refl _, hin.2, by intro x hx; cases hx⟩
      | cons hl hx hrest =>
        obtain ⟨p1, p2, p3⟩ := (ih _ (by omega)).1 _ _ _ (hg _ _ hl) hin hx
        obtain ⟨q1, q2, q3⟩ := (ih _ (by omega)).2 _ _ _ _ hg (InFile_of_le hin p1 p2) hrest
        rw [endOf_cons]
        refine ⟨by omega, q2, ?_⟩
        intro y hy
        cases hy with
        | head => exact p3
        | tail _ hm => exact q3 y hm

/-! ### the cut -/

/-- every bound relaxed by one: what a LeftTrim that skipped whitespace does to the ghost -/
def relaxB (bound : Nat → Nat) : Nat → Nat := fun k => bound k + 1

/-- a strictly smaller derivation of an enclosing activation's own span (same start, same end), found at or
    below the end `e` of the tree being rebuilt -/
def Fail (cfg : Cfg) (bodyOf : Nat → G) (n pos : Nat) (bound : Nat → Nat) (e : Nat) : Prop :=
  ∃ k body n' z, n' ≤ n ∧ GoodW cfg bodyOf (.memo k body) ∧ DerivesWN cfg n' (.memo k body) pos z ∧
    z.rpos = bound k ∧ z.rpos ≤ e

theorem Fail.mono {cfg : Cfg} {bodyOf : Nat → G} {n m pos : Nat} {bound : Nat → Nat} {e e' : Nat}
    (h : Fail cfg bodyOf n pos bound e) (hnm : n ≤ m) (he : e ≤ e') : Fail cfg bodyOf m pos bound e' := by
  obtain ⟨k, body, n', z, h1, h2, h3, h4, h5⟩ := h
  exact ⟨k, body, n', z, by omega, h2, h3, h4, by omega⟩

/-- no whitespace at `pos`: SkipWhitespaces stays there, whatever the mode -/
def NoWs (cfg : Cfg) (pos : Nat) : Prop := ∀ m, (skipWhitespaces cfg.file pos m).1 = pos

theorem cut_endsW (cfg : Cfg) (bodyOf : Nat → G) (henv : ∀ g' ∈ cfg.env, GoodW cfg bodyOf g') : ∀ n,
    (∀ g pos x (c bound : Nat → Nat) (s : Nat), GoodW cfg bodyOf g → InFile cfg.file pos → DerivesWN cfg n g pos x →
      (∀ k, c k + bound k ≤ cfg.hi + 1 + s) → s ≤ 1 → (s = 1 → NoWs cfg pos) → (∀ k, x.rpos ≤ bound k) →
      (∃ y, DerivesCW cfg c g pos y ∧ y.rpos = x.rpos ∧ NotEof y) ∨ Fail cfg bodyOf n pos bound x.rpos) ∧
    (∀ sh d pos nodes (c bound : Nat → Nat) (s : Nat), (∀ d g', sh.lookup d = some g' → GoodW cfg bodyOf g') →
      InFile cfg.file pos → DerivesSeqWN cfg n sh d pos nodes →
      (∀ k, c k + bound k ≤ cfg.hi + 1 + s) → s ≤ 1 → (s = 1 → NoWs cfg pos) → (∀ k, endOf pos nodes ≤ bound k) →
      (∃ nodes', DerivesSeqCW cfg c sh d pos nodes' ∧ nodes'.length = nodes.length ∧
          endOf pos nodes' = endOf pos nodes ∧ ∀ y ∈ nodes', NotEof y) ∨
        Fail cfg bodyOf n pos bound (endOf pos nodes)) := by
  have henvC : ∀ g' ∈ cfg.env, TermsW cfg g' := fun g' hg' => (henv g' hg').2
  intro n
  induction n using Nat.strongRecOn with
  | _ n ih =>
    refine ⟨?_, ?_⟩
    · intro g pos x c bound s hg hin h hinv hs1 hnows hend
      cases h with
      | term hp =>
        obtain ⟨tok, v, r, rfl⟩ := Terminal.parse_node _ _ _ _ _ hp
        exact .inl ⟨_, .term hp, rfl, by intro p hp'; cases hp'⟩
      | empty => exact .inl ⟨_, .empty, rfl, by intro p hp'; cases hp'⟩
      | optNone => exact .inl ⟨_, .optNone, rfl, by intro p hp'; cases hp'⟩
      | ref hk hd =>
        cases (ih _ (by omega)).1 _ _ _ c bound s (henv _ (List.mem_of_getElem? hk)) hin hd hinv hs1 hnows hend with
        | inl h1 => obtain ⟨y, hy, he, hne⟩ := h1; exact .inl ⟨y, .ref hk hy, he, hne⟩
        | inr h1 => exact .inr (h1.mono (by omega) (Nat.le_refl _))
      | any hm hd =>
        cases (ih _ (by omega)).1 _ _ _ c bound s (hg.any _ hm) hin hd hinv hs1 hnows hend with
        | inl h1 => obtain ⟨y, hy, he, hne⟩ := h1; exact .inl ⟨y, .any hm hy, he, hne⟩
        | inr h1 => exact .inr (h1.mono (by omega) (Nat.le_refl _))
      | optSome hd =>
        cases (ih _ (by omega)).1 _ _ _ c bound s hg.optional hin hd hinv hs1 hnows hend with
        | inl h1 => obtain ⟨y, hy, he, hne⟩ := h1; exact .inl ⟨y, .optSome hy, he, hne⟩
        | inr h1 => exact .inr (h1.mono (by omega) (Nat.le_refl _))
      | seqOf hs hds hl =>
        rw [handleResult_rpos] at hend ⊢
        cases (ih _ (by omega)).2 _ _ _ _ c bound s (hg.lookup hs) hin hds hinv hs1 hnows hend with
        | inl h1 =>
          obtain ⟨nodes', h2, h3, h4, h5⟩ := h1
          refine .inl ⟨handleResult _ pos nodes', .seqOf hs h2 (by rw [h3]; exact hl), ?_, handleResult_notEof _ _ _ h5⟩
          rw [handleResult_rpos, h4]
        | inr h1 => exact .inr (h1.mono (by omega) (Nat.le_refl _))
      | ltrim hws hd =>
        rename_i n' g' m
        have hb := PV.WFT.skipWs_bounds cfg.file pos m hin
        have hin' : InFile cfg.file (skipWhitespaces cfg.file pos m).1 := ⟨by have := hin.1; omega, hb.2⟩
        by_cases hmv : (skipWhitespaces cfg.file pos m).1 = pos
        · -- nothing skipped: same position, same ghosts
          cases (ih _ (by omega)).1 _ _ _ c bound s hg.ltrim hin' hd hinv hs1 (by rw [hmv]; exact hnows) hend with
          | inl h1 => obtain ⟨y, hy, he, hne⟩ := h1; exact .inl ⟨y, .ltrim hws hy, he, hne⟩
          | inr h1 => rw [hmv] at h1; exact .inr (h1.mono (by omega) (Nat.le_refl _))
        · -- whitespace skipped: this is phase 0 (in phase 1 nothing is left to skip); relax every bound
          have hs0 : s = 0 := by
            rcases Nat.lt_or_ge s 1 with h1 | h1
            · omega
            · exact absurd (hnows (by omega) m) hmv
          subst hs0
          cases (ih _ (by omega)).1 _ _ _ c (relaxB bound) 1 hg.ltrim hin' hd
              (by intro k; have := hinv k; simp only [relaxB]; omega) (Nat.le_refl _)
              (by intro _ m'; exact skip_idem cfg.file pos m m' hin)
              (by intro k; have := hend k; simp only [relaxB]; omega) with
          | inl h1 => obtain ⟨y, hy, he, hne⟩ := h1; exact .inl ⟨y, .ltrim hws hy, he, hne⟩
          | inr h1 =>
            -- a repetition reported against a relaxed bound would end beyond the tree it lies in
            obtain ⟨k, body', n'', z, _, _, _, f4, f5⟩ := h1
            have := hend k
            simp only [relaxB] at f4
            omega
      | rtrim hd hok =>
        rename_i n' g' m x'
        obtain ⟨a1, a2, a3⟩ := (derivesWN_pos cfg henvC _).1 _ _ _ hg.rtrim.2 hin hd
        have hin' : InFile cfg.file x'.rpos := ⟨by have := hin.1; omega, a2⟩
        have hb := PV.WFT.skipWs_bounds cfg.file x'.rpos m hin'
        have hmr := moved_rpos cfg m x' a3
        rw [hmr] at hend ⊢
        cases (ih _ (by omega)).1 _ _ _ c bound s hg.rtrim hin hd hinv hs1 hnows
            (by intro k; have := hend k; omega) with
        | inl h1 =>
          obtain ⟨y, hy, he, hne⟩ := h1
          refine .inl ⟨moved cfg m y, .rtrim hy ?_, ?_, moved_notEof cfg m y hne⟩
          · rw [movedErr_eq cfg m y hne, he, ← movedErr_eq cfg m x' a3]; exact hok
          · rw [moved_rpos cfg m y hne, he]
        | inr h1 => exact .inr (h1.mono (by omega) hb.1)
      | memo hd =>
        rename_i m i body
        obtain ⟨hb, hgb⟩ := hg.memo
        obtain ⟨p1, p2, _⟩ := (derivesWN_pos cfg henvC _).1 _ _ _ hgb.2 hin hd
        by_cases hlt : x.rpos < bound i
        · -- a strictly shorter nested activation (or the first one after the whitespace): enter the body
          have hguard : c i ≤ remaining cfg.file pos + Facts.curtailSlack := by
            rw [remaining_eq hin]
            have := hinv i
            have : Facts.curtailSlack = 1 := rfl
            omega
          cases (ih _ (by omega)).1 _ _ _ (bump c i) (setB bound i x.rpos) s hgb hin hd
              (by
                intro k
                by_cases hk : k = i
                · subst hk; simp only [bump, setB, ↓reduceIte]; have := hinv k; omega
                · simp only [bump, setB, hk, ↓reduceIte]; exact hinv k)
              hs1 hnows
              (by
                intro k
                by_cases hk : k = i
                · subst hk; simp only [setB, ↓reduceIte]; exact Nat.le_refl _
                · simp only [setB, hk, ↓reduceIte]; exact hend k) with
          | inl h1 => obtain ⟨y, hy, he, hne⟩ := h1; exact .inl ⟨y, .memo hguard hy, he, hne⟩
          | inr h1 =>
            obtain ⟨k, body', n', z, f1, f2, f3, f4, f5⟩ := h1
            by_cases hk : k = i
            · -- the failure is ours: restart with the smaller derivation of our own span
              subst hk
              simp only [setB, ↓reduceIte] at f4
              have hb' := f2.memo.1
              cases (ih n' (by omega)).1 _ _ _ c bound s f2 hin f3 hinv hs1 hnows
                  (by intro k'; rw [f4]; exact hend k') with
              | inl h2 =>
                obtain ⟨y, hy, he, hne⟩ := h2
                refine .inl ⟨y, ?_, by rw [he, f4], hne⟩
                rw [hb, ← hb']; exact hy
              | inr h2 => exact .inr (h2.mono (by omega) (by omega))
            · simp only [setB, hk, ↓reduceIte] at f4
              exact .inr ⟨k, body', n', z, by omega, f2, f3, f4, f5⟩
        · -- same end as the enclosing activation of `i` at this position: report this derivation to it
          have : x.rpos = bound i := by have := hend i; omega
          exact .inr ⟨i, body, m + 1, x, Nat.le_refl _, hg, .memo hd, this, Nat.le_refl _⟩
    · intro sh d pos nodes c bound s hg hin h hinv hs1 hnows hend
      cases h with
      | nil => exact .inl ⟨[], .nil, rfl, rfl, by intro y hy; cases hy⟩
      | cons hl hx hrest =>
        rename_i a b g' x rest
        obtain ⟨p1, p2, _⟩ := (derivesWN_pos cfg henvC _).1 _ _ _ (hg _ _ hl).2 hin hx
        have hin' : InFile cfg.file x.rpos := InFile_of_le hin p1 p2
        obtain ⟨q1, q2, _⟩ := (derivesWN_pos cfg henvC _).2 _ _ _ _ (fun d g' hl' => (hg d g' hl').2) hin' hrest
        rw [endOf_cons] at hend ⊢
        cases (ih a (by omega)).1 _ _ _ c bound s (hg _ _ hl) hin hx hinv hs1 hnows
            (fun k => by have := hend k; omega) with
        | inr h1 => exact .inr (h1.mono (by omega) q1)
        | inl h1 =>
          obtain ⟨y, hy, hey, hney⟩ := h1
          by_cases hc : x.rpos > pos
          · -- input consumed: the rest starts afresh; a failure there would end beyond the file
            cases (ih b (by omega)).2 _ _ _ _ zeroC (topB cfg) 0 hg hin' hrest
                (by intro k; simp [zeroC, topB]) (by omega) (by intro h0; cases h0)
                (by intro k; simp only [topB]; omega) with
            | inl h2 =>
              obtain ⟨rest', r1, r2, r3, r4⟩ := h2
              refine .inl ⟨y :: rest', .cons hl hy ?_, by simp [r2], ?_, ?_⟩
              · rw [hey]; simp only [hc, ↓reduceIte]; exact r1
              · rw [endOf_cons, hey]; exact r3
              · intro w hw
                cases hw with
                | head => exact hney
                | tail _ hm => exact r4 w hm
            | inr h2 =>
              obtain ⟨k, body', n', z, _, f2, f3, f4, _⟩ := h2
              have := ((derivesWN_pos cfg henvC _).1 _ _ _ f2.2 hin' f3).2.1
              simp only [topB] at f4
              omega
          · have hxe : x.rpos = pos := by omega
            cases (ih b (by omega)).2 _ _ _ _ c bound s hg hin' hrest hinv hs1 (by rw [hxe]; exact hnows) hend with
            | inl h2 =>
              obtain ⟨rest', r1, r2, r3, r4⟩ := h2
              refine .inl ⟨y :: rest', .cons hl hy ?_, by simp [r2], ?_, ?_⟩
              · rw [hey]; simp only [hc, ↓reduceIte]; exact r1
              · rw [endOf_cons, hey]; exact r3
              · intro w hw
                cases hw with
                | head => exact hney
                | tail _ hm => exact r4 w hm
            | inr h2 =>
              rw [hxe] at h2
              exact .inr (h2.mono (by omega) (by rw [hxe]; exact Nat.le_refl _))

/-- **(B), ends, with trims.**  Every end position that an exact derivation reaches is reached by a curtailed
    derivation from the empty left-recursion context. -/
theorem derivesCW_of_derivesW_ends (cfg : Cfg) (bodyOf : Nat → G)
    (henv : ∀ g' ∈ cfg.env, GoodW cfg bodyOf g') (g : G) (hg : GoodW cfg bodyOf g)
    (pos : Nat) (hin : InFile cfg.file pos) (x : Node) (h : DerivesW cfg g pos x) :
    ∃ y, DerivesCW cfg zeroC g pos y ∧ y.rpos = x.rpos := by
  obtain ⟨n, hn⟩ := derivesWN_of_derivesW cfg h
  have hp := (derivesWN_pos cfg (fun g' hg' => (henv g' hg').2) n).1 _ _ _ hg.2 hin hn
  cases (cut_endsW cfg bodyOf henv n).1 g pos x zeroC (topB cfg) 0 hg hin hn
      (by intro k; simp [zeroC, topB]) (by omega) (by intro h0; cases h0) (by intro k; simp only [topB]; omega) with
  | inl h1 => obtain ⟨y, h2, h3, _⟩ := h1; exact ⟨y, h2, h3⟩
  | inr h1 =>
    obtain ⟨k, body', n', z, _, f2, f3, f4, _⟩ := h1
    have := ((derivesWN_pos cfg (fun g' hg' => (henv g' hg').2) _).1 _ _ _ f2.2 hin f3).2.1
    simp only [topB] at f4
    omega

end PV.C1T
