/-
  Completeness THROUGH the `Sentence` wrapper for the fragment with trims: Proofs/SentenceComplete.lean with
  the completeness argument for the operand abstracted (`sentence_complete_gen`), instantiated with the reuse
  invariant with trims (`run_completeW`).
-/
import ParsleyVerif.Proofs.SentenceComplete
import ParsleyVerif.Proofs.C1TComplete
namespace PV.C1T
open PV PV.Text

/-- **Sentence completeness**, generic in the completeness argument for the operand: if every answer of the
    operand at `pos` (from the state the wrapper calls it in) contains a tree `y` that ends at the end of the
    input, `Sentence(operand)` returns a result. -/
theorem sentence_complete_gen (cfg : Cfg) (g : G) (fuel : Nat) (pos : Nat) (st : St)
    (o : Out) (st' : St) (h : run cfg fuel (G.sentence g) [] pos st = some (o, st'))
    (y : Node) (hmem : ∀ fuel' o1 st2, run cfg fuel' g [] pos st.regCall = some (o1, st2) → y ∈ o1.res.alts)
    (hend : isEOF cfg.file y.rpos = true) :
    o.res.alts ≠ [] ∧ o.err = none := by
  cases fuel with
  | zero => simp [run] at h
  | succ f =>
    rw [run_seqfam cfg f _ (sentenceShape g) [] pos st (sentence_shape g)] at h
    split at h
    · cases h
    · unfold runSeq at h
      split at h
      · cases h
      · rename_i b ss st1 hsp
        have hfin : seqFinish (sentenceShape g) pos ss st1 = (o, st') := by injection h
        -- the result of the loop is not empty
        have hne : ss.result.alts ≠ [] := by
          cases f with
          | zero => simp [seqParse] at hsp
          | succ f1 =>
            have hsp' := hsp
            rw [show seqParse (run cfg (f1 + 1)) (sentenceShape g) (f1 + 1) 0 [] [] pos true {} st =
              seqParse (run cfg (f1 + 1)) (sentenceShape g) (f1 + 1) (Frame.mk 0 [] [] pos true).depth
                (Frame.mk 0 [] [] pos true).nodes (Frame.mk 0 [] [] pos true).ctx (Frame.mk 0 [] [] pos true).pos
                (Frame.mk 0 [] [] pos true).merge {} st from rfl, seqParse_succ] at hsp'
            have hl0 : (sentenceShape g).lookup (Frame.mk 0 [] [] pos true).depth = some g := rfl
            simp only [seqStep, hl0] at hsp'
            cases hr : run cfg (f1 + 1) g [] pos st.regCall with
            | none => simp [hr] at hsp'
            | some p =>
              obtain ⟨o1, st2⟩ := p
              have hym : y ∈ o1.res.alts := hmem (f1 + 1) o1 st2 hr
              have hnn : o1.res.isNil = false := by
                cases hres : o1.res with
                | nil => rw [hres] at hym; cases hym
                | one _ => rfl
                | list _ => rfl
              simp only [hr, hnn, Bool.false_eq_true, ↓reduceIte] at hsp'
              refine seqAlts_reach _ (fun s => s.result.alts ≠ []) y o1.res.alts hym ?_ ?_ ?_ _ _ _ _ _ hsp'
              · intro n _ ss2 st2 b2 ss3 st3 hk hq
                cases seqParse_result _ _ f1 ((Frame.mk 0 [] [] pos true).next n) ss2 st2 b2 ss3 st3 rfl hk with
                | inl h1 => rw [h1]; exact hq
                | inr h1 => exact h1
              · intro n _ ss2 st2 ss3 st3 hk
                exact seqParse_true_ne _ _ f1 _ ss2 st2 ss3 st3 hk
              · intro ss2 st2 b2 ss3 st3 hk
                exact seqParse_eof_ne cfg (f1 + 1) (sentenceShape g) f1 ((Frame.mk 0 [] [] pos true).next y) ss2 st2 b2 ss3 st3
                  rfl rfl rfl hend hk
        have hnil : ss.result.isNil = false := by
          cases hres : ss.result with
          | nil => rw [hres] at hne; exact absurd rfl hne
          | one _ => rfl
          | list _ => rfl
        have e1 : (seqFinish (sentenceShape g) pos ss st1).1.res = ss.result := by simp [seqFinish, hnil]
        have e2 : (seqFinish (sentenceShape g) pos ss st1).1.err = none := by
          simp only [seqFinish, hnil, Bool.false_eq_true, ↓reduceIte]
        rw [hfin] at e1 e2
        exact ⟨by rw [e1]; exact hne, e2⟩

/-- Sentence completeness for the fragment with trims -/
theorem sentence_completeW (cfg : Cfg) (bodyOf : Nat → G) (henv : ∀ g' ∈ cfg.env, FragW cfg g' ∧ GOK bodyOf g')
    (g : G) (hf : FragW cfg g) (hg : GOK bodyOf g) (fuel : Nat) (pos : Nat) (st : St) (hst : CacheC cfg bodyOf st)
    (o : Out) (st' : St) (h : run cfg fuel (G.sentence g) [] pos st = some (o, st'))
    (y : Node) (hy : DerivesCW cfg zeroC g pos y) (hend : isEOF cfg.file y.rpos = true) :
    o.res.alts ≠ [] ∧ o.err = none := by
  refine sentence_complete_gen cfg g fuel pos st o st' h y ?_ hend
  intro fuel' o1 st2 hr
  obtain ⟨hO, _, _⟩ := run_completeW cfg bodyOf henv fuel' g [] pos st.regCall o1 st2 hf hg (CacheC_of_eq hst rfl) hr
  exact hO zeroC y (by intro k _; exact Nat.zero_le _) hy

end PV.C1T
