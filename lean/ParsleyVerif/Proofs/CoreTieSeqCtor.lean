/-
  Stage 4 of the core tie, part 4: the constructors of the Sequence family (Seq, SeqOf, SeqTry, SeqFirstOrAll, newMany,
  newSepBy) and the setters Name / Token / Bind / HandleResult — the translated functions build a struct that shows the
  model's `SeqShape` (`SeqStatic`), so `tie_Sequence_Parse` applies to what they return.
-/
import ParsleyVerif.Proofs.CoreTieSeqParse
import ParsleyVerif.Proofs.CoreTieAny
namespace PV.CoreTie
open PV.FactsCore

theorem seqTok_str : CorePrelude.Go.str "SEQ" = seqTok := by decide +kernel
theorem manyTok_str : CorePrelude.Go.str "MANY" = manyTok := by decide +kernel
theorem sepByTok_str : CorePrelude.Go.str "SEP_BY" = sepByTok := by decide +kernel

theorem agreesAll_get (W : World Context) (cfg : Cfg) (fuel : Nat) :
    ∀ (ps : List Parser) (gs : List G), AgreesAll W cfg fuel ps gs → ps.length = gs.length ∧
      ∀ (d : Nat) (p : Parser) (g : G), ps[d]? = some p → gs[d]? = some g → Agrees W cfg fuel p g := by
  intro ps gs h
  induction h with
  | nil => exact ⟨rfl, fun d p g hp => by simp at hp⟩
  | @cons p g ps gs hpg _ ih =>
    refine ⟨by simp [ih.1], fun d p' g' hp hg => ?_⟩
    cases d with
    | zero => simp at hp hg; subst hp; subst hg; exact hpg
    | succ d => simp at hp hg; exact ih.2 d p' g' hp hg

/-- the look-up closure of SeqOf / SeqTry / SeqFirstOrAll -/
theorem list_lookup (W : World Context) (cfg : Cfg) (fuel : Nat) (ps : List Parser) (gs : List G)
    (hall : AgreesAll W cfg fuel ps gs) (hnn : ∀ p ∈ ps, p.isNil = false) (d : Nat) :
    ∃ h : Parser, (∀ s : Context,
        ((fun (i : Int) => do if decide (i < CorePrelude.Go.len ps) then (do let t2 ← CorePrelude.Go.nth ps i; pure t2) else (do pure CorePrelude.Parser.nil)) : Int → CM Parser) d s = .ok h s) ∧
      (match gs[d]? with
        | none => h = .nil
        | some g => h.isNil = false ∧ Agrees W cfg fuel h g) := by
  obtain ⟨hlen, hget⟩ := agreesAll_get W cfg fuel ps gs hall
  by_cases hd : d < ps.length
  · have hp : ps[d]? = some ps[d] := List.getElem?_eq_getElem hd
    have hg : gs[d]? = some gs[d] := List.getElem?_eq_getElem (by omega)
    refine ⟨ps[d], fun s => ?_, ?_⟩
    · have : ((d : Int) < (ps.length : Int)) := by omega
      simp [CorePrelude.Go.len, CorePrelude.Go.nth, this, hp]
    · rw [hg]; exact ⟨hnn _ (List.getElem_mem hd), hget d _ _ hp hg⟩
  · have hg : gs[d]? = none := List.getElem?_eq_none (by omega)
    refine ⟨.nil, fun s => ?_, by rw [hg]⟩
    have : ¬ ((d : Int) < (ps.length : Int)) := by omega
    simp [CorePrelude.Go.len, this]

/-- **SeqOf / SeqTry / SeqFirstOrAll** (no options set): the translated constructor returns a struct showing the model's shape -/
theorem tie_SeqOf (W : World Context) (cfg : Cfg) (fuel : Nat) (ps : List Parser) (gs : List G)
    (hall : AgreesAll W cfg fuel ps gs) (hnn : ∀ p ∈ ps, p.isNil = false) (s : Context) :
    (∃ S sh, SeqOf W ps s = .ok (some S) s ∧ (G.seq .seqOf gs {}).shape = some sh ∧ SeqStatic W cfg fuel sh S) ∧
    (∃ S sh, SeqTry W ps s = .ok (some S) s ∧ (G.seq .seqTry gs {}).shape = some sh ∧ SeqStatic W cfg fuel sh S) ∧
    (∃ S sh, SeqFirstOrAll W ps s = .ok (some S) s ∧ (G.seq .seqFirstOrAll gs {}).shape = some sh ∧ SeqStatic W cfg fuel sh S) := by
  obtain ⟨hlen, -⟩ := agreesAll_get W cfg fuel ps gs hall
  refine ⟨⟨_, _, rfl, rfl, ?_⟩, ⟨_, _, rfl, rfl, ?_⟩, ⟨_, _, rfl, rfl, ?_⟩⟩
  · refine ⟨seqTok_str, rfl, fun d => list_lookup W cfg fuel ps gs hall hnn d, fun d s => ?_, .inl ⟨rfl, rfl⟩, rfl⟩
    by_cases h : d = gs.length
    · have : (d : Int) = (ps.length : Int) := by omega
      simp [CorePrelude.Go.len, h, hlen]
    · have : ¬ (d : Int) = (ps.length : Int) := by omega
      simp [CorePrelude.Go.len, h, this]
  · refine ⟨seqTok_str, rfl, fun d => list_lookup W cfg fuel ps gs hall hnn d, fun d s => ?_, .inl ⟨rfl, rfl⟩, rfl⟩
    by_cases h1 : d > 0 <;> by_cases h2 : d ≤ gs.length
    all_goals
      first
      | (have a1 : (d : Int) > 0 := by omega
         have a2 : (d : Int) ≤ (ps.length : Int) := by omega
         (simp [CorePrelude.Go.len, h1, h2, a1, a2] <;> omega); done)
      | (have a1 : (d : Int) > 0 := by omega
         have a2 : ¬ (d : Int) ≤ (ps.length : Int) := by omega
         (simp [CorePrelude.Go.len, h1, h2, a1, a2] <;> omega); done)
      | (have a1 : ¬ (d : Int) > 0 := by omega
         (simp [CorePrelude.Go.len, h1, a1] <;> omega); done)
  · refine ⟨seqTok_str, rfl, fun d => list_lookup W cfg fuel ps gs hall hnn d, fun d s => ?_, .inl ⟨rfl, rfl⟩, rfl⟩
    by_cases h1 : d = 1 <;> by_cases h2 : d = gs.length
    all_goals
      first
      | (have a1 : (d : Int) = 1 := by omega
         (simp [CorePrelude.Go.len, h1, a1] <;> omega); done)
      | (have a1 : ¬ (d : Int) = 1 := by omega
         have a2 : (d : Int) = (ps.length : Int) := by omega
         (simp [CorePrelude.Go.len, h1, h2, a1, a2] <;> omega); done)
      | (have a1 : ¬ (d : Int) = 1 := by omega
         have a2 : ¬ (d : Int) = (ps.length : Int) := by omega
         (simp [CorePrelude.Go.len, h1, h2, a1, a2] <;> omega); done)

/-- **newMany** (Many / Many1) -/
theorem tie_newMany (W : World Context) (cfg : Cfg) (fuel : Nat) (p : Parser) (g : G) (ae : Bool)
    (hp : Agrees W cfg fuel p g) (hnn : p.isNil = false) (s : Context) :
    ∃ S sh, newMany W p ae s = .ok (some S) s ∧ (G.many g ae {}).shape = some sh ∧ SeqStatic W cfg fuel sh S := by
  refine ⟨_, _, rfl, rfl, manyTok_str, rfl, fun d => ⟨p, fun s => rfl, hnn, hp⟩, fun d s => ?_, .inl ⟨rfl, rfl⟩, rfl⟩
  by_cases h : d > 0
  · have : (d : Int) > 0 := by omega
    simp [h, this]
  · have : ¬ (d : Int) > 0 := by omega
    simp [h, this]

/-- **newSepBy** (SepBy / SepBy1) -/
theorem tie_newSepBy (W : World Context) (cfg : Cfg) (fuel : Nat) (pv psep : Parser) (gv gsep : G) (ae : Bool)
    (hv : Agrees W cfg fuel pv gv) (hs : Agrees W cfg fuel psep gsep) (hnv : pv.isNil = false) (hns : psep.isNil = false)
    (s : Context) :
    ∃ S sh, newSepBy W pv psep ae s = .ok (some S) s ∧ (G.sepBy gv gsep ae {}).shape = some sh ∧ SeqStatic W cfg fuel sh S := by
  refine ⟨_, _, rfl, rfl, sepByTok_str, rfl, fun d => ?_, fun d s => ?_, .inl ⟨rfl, rfl⟩, rfl⟩
  · have hmod : Int.tmod (d : Int) 2 = ((d % 2 : Nat) : Int) := by
      rw [Int.tmod_eq_emod_of_nonneg (Int.natCast_nonneg d)]; omega
    by_cases h : d % 2 = 0
    · refine ⟨pv, fun s => ?_, ?_⟩
      · simp [hmod, h]
      · simp [h]; exact ⟨hnv, hv⟩
    · have h1 : d % 2 = 1 := by omega
      refine ⟨psep, fun s => ?_, ?_⟩
      · simp [hmod, h1]
      · simp [h]; exact ⟨hns, hs⟩
  · have hmod : Int.tmod (d : Int) 2 = ((d % 2 : Nat) : Int) := by
      rw [Int.tmod_eq_emod_of_nonneg (Int.natCast_nonneg d)]; omega
    by_cases h0 : d = 0
    · subst h0; cases ae <;> simp
    · have a0 : ¬ (d : Int) = 0 := by omega
      by_cases h : d % 2 = 1
      · simp [hmod, h0, a0, h]
      · have : d % 2 = 0 := by omega
        simp [hmod, h0, a0, h, this]

/-- **the setters** Name / Token / Bind / HandleResult(ReturnSingle()) change the shape's option and nothing else -/
theorem tie_setters (W : World Context) (cfg : Cfg) (fuel : Nat) (sh : SeqShape) (S : Sequence)
    (h : SeqStatic W cfg fuel sh S) (s : Context) :
    (∀ nm, ∃ S', Sequence_Name W S nm s = .ok (S', some S') s ∧ SeqStatic W cfg fuel { sh with name := some nm } S') ∧
    (∀ t, ∃ S', Sequence_Token W S t s = .ok (S', some S') s ∧ SeqStatic W cfg fuel { sh with token := t } S') ∧
    (∀ i, ∃ S', Sequence_Bind W S (eInterp i) s = .ok (S', some S') s ∧ SeqStatic W cfg fuel { sh with interp := i } S') ∧
    (∃ S', Sequence_HandleResult W S (some (seqDefaultResultHandler_parse W true)) s = .ok (S', some S') s ∧
      SeqStatic W cfg fuel { sh with single := true } S') := by
  obtain ⟨h1, h2, h3, h4, h5, h6⟩ := h
  refine ⟨fun nm => ⟨{ S with customErr := CorePrelude.NotFoundError nm }, rfl, h1, h2, h3, h4, h5, rfl⟩,
    fun t => ⟨{ S with token := t }, rfl, rfl, h2, h3, h4, h5, h6⟩,
    fun i => ⟨{ S with interpreter := eInterp i }, rfl, h1, rfl, h3, h4, h5, h6⟩,
    ⟨{ S with resultHandler := some (seqDefaultResultHandler_parse W true) }, rfl, h1, h2, h3, h4, .inr ⟨rfl, rfl⟩, h6⟩⟩

end PV.CoreTie
