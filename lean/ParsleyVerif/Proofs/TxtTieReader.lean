/-
  THE TIE of the statement-level translator, text level, second batch: ReadRune, MatchString, MatchWord, ReadRegexp, Readf
  and isWordCharacter of text/reader.go as `factgen -out-prog` translates them (Generated/FactsProg.lean) against
  Model/Text.lean.  `FileRel` (Proofs/ProgTieText.lean) relates the translated file to the model's; positions are `Nat` in
  the model and `Int` in the translation; the model's `none` is a Go run-time panic and the theorems say that the
  translated function panics exactly there.  Domain: `offset ≤ pos` (the model's).
-/
import ParsleyVerif.Proofs.TxtTieBasics
namespace PV.TxtTie
open PV.ProgPrelude PV.FactsProg PV.ProgTie

/-- every element of the file's content is a byte -/
def ByteFile (f : Text.File) : Prop := ∀ b ∈ f.data, b < 256

/-- the model's answer (`none` = the Go code panics) as the outcome of a translated function that leaves the state alone -/
def outPB (m : Option (Nat × Bool)) (st : St) : Res (Int × Bool) :=
  match m with
  | none => .panic
  | some (q, b) => .ok ((q : Int), b) st

theorem tie_isWordCharacter (st : St) (b : Nat) : isWordCharacter (b : Int) st = .ok (Text.isWordByte b) st := by
  simp only [isWordCharacter, pure_apply, Text.isWordByte]
  congr 1
  rw [Bool.eq_iff_iff]
  simp only [Bool.or_eq_true, Bool.and_eq_true, decide_eq_true_eq]
  omega

theorem getD_lt (f : Text.File) (hb : ByteFile f) (i : Nat) (h : i < f.data.length) : f.data.getD i 0 < 256 := by
  apply hb
  simp [List.getD_eq_getElem?_getD, List.getElem?_eq_getElem h]

/-! ### ReadRune -/

theorem tie_ReadRune (st : St) (F : FactsProg.File) (f : Text.File) (rel : FileRel st F f) (hb : ByteFile f)
    (p ch : Nat) (h1 : f.offset ≤ p) :
    Reader_ReadRune ⟨F⟩ p ch st = outPB (Text.readRune f p ch) st := by
  have hoff := rel.off
  have hlen := rel.len
  generalize hpi : (p : Int) = pi
  generalize hci : (ch : Int) = ci
  unfold Reader_ReadRune
  simp only [ite_apply, bind_apply, pure_apply, File_Pos]
  subst hpi hci
  unfold Text.readRune
  rw [if_neg (by omega : ¬ p < f.offset)]
  simp only []
  by_cases c1 : p - f.offset ≥ f.len
  · rw [if_pos c1]
    simp only [Text.File.len] at c1
    go_decide_text []
    rfl
  · rw [if_neg c1]
    simp only [Text.File.len, ge_iff_le, Nat.not_le] at c1
    have hcur : ((p : Int) - F.offset) = ((p - f.offset : Nat) : Int) := by omega
    by_cases c2 : ch < 128
    · rw [if_pos c2]
      have hread := rel.read (p - f.offset) c1 ((p : Int) - F.offset) hcur
      have hbb := getD_lt f hb _ c1
      have hget : f.data[p - f.offset]? = some (f.data.getD (p - f.offset) 0) := by
        simp [List.getD_eq_getElem?_getD, List.getElem?_eq_getElem c1]
      rw [hget]
      simp only []
      by_cases c3 : ch = f.data.getD (p - f.offset) 0
      · have hw := (wrap8_eq_iff ch _ c2 hbb).mpr c3
        rw [if_pos c3]
        have c2i : (ch : Int) < 128 := by omega
        go_decide_text [hread, hw]
        try simp only [decide_true, if_true]
        simp only [outPB, Text.File.pos]
        congr 2; omega
      · have hw : ¬ Go.wrap 8 true (ch : Int) = Go.wrap 8 true ((f.data.getD (p - f.offset) 0 : Nat) : Int) :=
          fun e => c3 ((wrap8_eq_iff ch _ c2 hbb).mp e)
        rw [if_neg c3]
        have c2i : (ch : Int) < 128 := by omega
        go_decide_text [hread, hw]
        try simp only [decide_false, Bool.false_eq_true, if_false]
        rfl
    · rw [if_neg c2]
      have c2i : ¬ (ch : Int) < 128 := by omega
      obtain ⟨s', e1, e2, _, _, _⟩ := sliceFrom_view st F.data (p - f.offset) (by rw [rel.dlen]; omega)
      rw [← hcur] at e1
      have hv : (view st s').map Int.toNat = f.data.drop (p - f.offset) := by
        rw [e2, rel.data, ← ints, ← ints_drop, ints_toNat]
      go_decide_text [e1]
      simp only [Go.decodeRune, hv]
      generalize Utf8.decodeRune (f.data.drop (p - f.offset)) = rw
      obtain ⟨r, w⟩ := rw
      simp only []
      by_cases c3 : r = ch
      · rw [if_pos c3]
        go_decide_text []
        simp only [outPB, Text.File.pos]
        congr 2; omega
      · rw [if_neg c3]
        go_decide_text []
        rfl

/-! ### MatchString -/

/-- the model's answer as the outcome of a translated function that may have allocated: a panic where the model says
    `none`, else the model's pair in a state that only grew -/
def AgreesPB (r : Res (Int × Bool)) (m : Option (Nat × Bool)) (st : St) : Prop :=
  match m with
  | none => r = .panic
  | some (q, b) => ∃ st', r = .ok ((q : Int), b) st' ∧ Grows st st'

theorem strLen_ints (l : List Nat) : Go.strLen (ints l) = (l.length : Int) := by simp [Go.strLen]

theorem len_data {st : St} {F : FactsProg.File} {f : Text.File} (rel : FileRel st F f) :
    Go.len F.data = (f.data.length : Int) := by simp [Go.len, rel.dlen]

theorem tie_MatchString (st : St) (F : FactsProg.File) (f : Text.File) (rel : FileRel st F f)
    (p : Nat) (str : Text.Bytes) (h1 : f.offset ≤ p) :
    AgreesPB (Reader_MatchString ⟨F⟩ p (ints str) st) (Text.matchString f p str) st := by
  have hoff := rel.off
  generalize hpi : (p : Int) = pi
  unfold Reader_MatchString
  simp only [ite_apply, bind_apply, pure_apply, File_Pos, strLen_ints, len_data rel]
  subst hpi
  unfold Text.matchString
  by_cases c0 : str = []
  · subst c0
    simp [AgreesPB, Go.panic]
  · have c0' : ¬ ints str = ([] : Str) := fun e => c0 (ints_eq_nil.mp e)
    rw [if_neg c0, if_neg (by omega : ¬ p < f.offset)]
    simp only []
    go_decide_text []
    by_cases c1 : str.length + (p - f.offset) > f.data.length
    · rw [if_pos c1]
      go_decide_text []
      exact ⟨st, rfl, Grows.refl st⟩
    · rw [if_neg c1]
      have hcur : ((p : Int) - F.offset) = ((p - f.offset : Nat) : Int) := by omega
      obtain ⟨s1, e1, v1, l1, _, _⟩ := sliceFrom_view st F.data (p - f.offset) (by rw [rel.dlen]; omega)
      rw [← hcur] at e1
      obtain ⟨s2, st2, e2, g2, v2, _, _, _⟩ := bytesOf_spec st (ints str)
      have v1' : view st2 s1 = ints (f.data.drop (p - f.offset)) := by
        rw [view_grows g2 s1 (by rw [v1, rel.data, l1, rel.dlen]; simp), v1, rel.data, ← ints, ints_drop]
      go_decide_text [e1, e2]
      simp only [Go.hasPrefix, v1', v2, isPrefixOf_ints]
      by_cases c2 : str.isPrefixOf (f.data.drop (p - f.offset)) = true
      · rw [if_pos c2]
        simp only [c2, if_true, if_false, Bool.not_true, Bool.not_false, Bool.false_eq_true, reduceIte]
        refine ⟨st2, ?_, g2⟩
        simp only [Text.File.pos]
        congr 2; omega
      · rw [if_neg c2]
        simp only [c2, if_true, if_false, Bool.not_true, Bool.not_false, Bool.false_eq_true, reduceIte]
        exact ⟨st2, rfl, g2⟩

/-! ### MatchWord -/

/-- what the byte comparison loop answers: a panic, a mismatch (the function returns `(pos, false)`), or the end of the word -/
def LoopOut (r : Res (Option (Int × Bool) × Int)) (m : Option Bool) (p : Nat) (st : St) : Prop :=
  match m with
  | none => r = .panic
  | some false => ∃ k', r = .ok (some ((p : Int), false), k') st
  | some true => ∃ k', r = .ok (none, k') st

theorem matchWord_loop_tie (st : St) (F : FactsProg.File) (f : Text.File) (rel : FileRel st F f) (p cur : Nat) (rng : Sl)
    (word : Text.Bytes) (hv : view st rng = ints word) (hl : rng.len = word.length)
    (hfit : word.length + cur ≤ f.data.length) (hpc : (p : Int) - F.offset = (cur : Int)) :
    ∀ (fuel k : Nat) (pi ki : Int), pi = p → ki = k → word.length - k < fuel → k ≤ word.length →
      LoopOut (Reader_MatchWord_loop1 ⟨F⟩ pi rng fuel ki st) (Text.matchWordLoop f.data cur (word.drop k) k) p st := by
  -- (the cursor `cur := int(pos) - r.file.offset` is not a parameter of the loop function: the translator writes a
  -- temporary that no statement assigns again as the expression it stands for wherever a loop mentions it)
  intro fuel
  induction fuel with
  | zero => intro k pi ki _ _ hf; omega
  | succ fuel ih =>
    intro k pi ki e1 e3 hf hk
    rw [Reader_MatchWord_loop1]
    simp only [ite_apply, bind_apply, pure_apply]
    subst e1 e3
    have hlen : Go.len rng = (word.length : Int) := by simp [Go.len, hl]
    rcases Nat.lt_or_ge k word.length with c | c
    · obtain ⟨b, hb⟩ : ∃ b, word.getD k 0 = b := ⟨_, rfl⟩
      have hdrop : word.drop k = b :: word.drop (k + 1) := by rw [← hb]; exact drop_cons_getD word k c
      have hread : Go.idx rng (k : Int) st = .ok ((b : Nat) : Int) st := by
        rw [idx_view st rng _ hv (by simp [hl]) _ (by omega) (by simp; omega)]
        congr 1
        simp [ints, List.getD_eq_getElem?_getD, List.getElem?_map, List.getElem?_eq_getElem c, ← hb]
      rw [hdrop]
      simp only [Text.matchWordLoop]
      by_cases c1 : b ≥ 128
      · rw [if_pos c1]
        go_decide_text [hread, hlen]
        rfl
      · rw [if_neg c1]
        have hin : cur + k < f.data.length := by omega
        obtain ⟨d, hd⟩ : ∃ d, f.data.getD (cur + k) 0 = d := ⟨_, rfl⟩
        have hget : f.data[cur + k]? = some d := by
          simp [← hd, List.getD_eq_getElem?_getD, List.getElem?_eq_getElem hin]
        have hreadd : Go.idx F.data ((p : Int) - F.offset + (k : Int)) st = .ok ((d : Nat) : Int) st := by
          rw [← hd]; exact rel.read (cur + k) hin _ (by omega)
        rw [hget]
        simp only []
        by_cases c2 : b ≠ d
        · rw [if_pos c2]
          go_decide_text [hread, hlen, hreadd]
          exact ⟨_, rfl⟩
        · rw [if_neg c2]
          have c2' : b = d := by omega
          go_decide_text [hread, hlen, hreadd]
          exact ih (k + 1) _ _ rfl (by omega) (by omega) (by omega)
    · have hk' : k = word.length := by omega
      go_decide_text [hlen]
      rw [List.drop_of_length_le c]
      exact ⟨_, rfl⟩

theorem tie_MatchWord (st : St) (F : FactsProg.File) (f : Text.File) (rel : FileRel st F f)
    (p : Nat) (word : Text.Bytes) (h1 : f.offset ≤ p) :
    AgreesPB (Reader_MatchWord ⟨F⟩ p (ints word) st) (Text.matchWord f p word) st := by
  have hoff := rel.off
  generalize hpi : (p : Int) = pi
  unfold Reader_MatchWord
  simp only [ite_apply, bind_apply, pure_apply, File_Pos, strLen_ints, len_data rel]
  subst hpi
  unfold Text.matchWord
  by_cases c0 : word = []
  · subst c0
    simp [AgreesPB, Go.panic]
  · have c0' : ¬ ints word = ([] : Str) := fun e => c0 (ints_eq_nil.mp e)
    rw [if_neg c0, if_neg (by omega : ¬ p < f.offset)]
    simp only []
    go_decide_text []
    by_cases c1 : word.length + (p - f.offset) > f.data.length
    · rw [if_pos c1]
      go_decide_text []
      exact ⟨st, rfl, Grows.refl st⟩
    · rw [if_neg c1]
      have hcur : ((p : Int) - F.offset) = ((p - f.offset : Nat) : Int) := by omega
      obtain ⟨rng, st2, e2, g2, v2, l2, _, _⟩ := bytesOf_spec st (ints word)
      have rel2 := fileRel_grows rel g2
      have hlen2 : Go.len rng = (word.length : Int) := by simp [Go.len, l2]
      have hloop := matchWord_loop_tie st2 F f rel2 p (p - f.offset) rng word v2 (by simpa using l2) (by omega) hcur
        (word.length + 1) 0 (p : Int) 0 rfl rfl (by omega) (by omega)
      simp only [List.drop_zero] at hloop
      go_decide_text [e2, hlen2]
      generalize Text.matchWordLoop f.data (p - f.offset) word 0 = m at hloop
      rcases m with _ | b
      · simp only [LoopOut] at hloop
        rw [hloop]
        rfl
      · cases b
        · obtain ⟨k', hk⟩ := hloop
          rw [hk]
          exact ⟨st2, rfl, g2⟩
        · obtain ⟨k', hk⟩ := hloop
          rw [hk]
          simp only []
          by_cases c2 : f.data.length - (p - f.offset) - word.length = 0
          · rw [if_pos c2]
            go_decide_text []
            refine ⟨st2, ?_, g2⟩
            simp only [Text.File.pos]
            congr 2; omega
          · rw [if_neg c2]
            have hin : p - f.offset + word.length < f.data.length := by omega
            obtain ⟨d, hd⟩ : ∃ d, f.data.getD (p - f.offset + word.length) 0 = d := ⟨_, rfl⟩
            have hget : f.data[p - f.offset + word.length]? = some d := by
              simp [← hd, List.getD_eq_getElem?_getD, List.getElem?_eq_getElem hin]
            have hreadd : Go.idx F.data ((p : Int) - F.offset + (word.length : Int)) st2 = .ok ((d : Nat) : Int) st2 := by
              rw [← hd]; exact rel2.read _ hin _ (by omega)
            rw [hget]
            simp only []
            go_decide_text [hreadd, tie_isWordCharacter]
            cases hw : Text.isWordByte d
            · simp only [Bool.not_false, if_true]
              refine ⟨st2, ?_, g2⟩
              simp only [Text.File.pos]
              congr 2; omega
            · simp only [Bool.not_true, Bool.false_eq_true, if_false]
              exact ⟨st2, rfl, g2⟩

/-! ### ReadRegexp, Readf -/

/-- a translated `[]byte` result against the model's `Option Bytes` (`none` = nil) -/
def ValRel (st : St) (v : Sl) : Option Text.Bytes → Prop
  | none => v.isNil = true ∧ v.len = 0
  | some bs => v.isNil = false ∧ view st v = ints bs ∧ v.len = bs.length

theorem ValRel.grows {st st' : St} {v : Sl} {val : Option Text.Bytes} (h : ValRel st v val) (g : Grows st st') :
    ValRel st' v val := by
  cases val with
  | none => exact h
  | some bs =>
    obtain ⟨a, b, c⟩ := h
    exact ⟨a, by rw [view_grows g v (by rw [b]; simp [c]), b], c⟩

def AgreesPS (r : Res (Int × Sl)) (m : Option (Nat × Option Text.Bytes)) (st : St) : Prop :=
  match m with
  | none => r = .panic
  | some (q, val) => ∃ v st', r = .ok ((q : Int), v) st' ∧ Grows st st' ∧ ValRel st' v val

/-- the world's regexp engine, on the expression `expr`, finds what the model's engine parameter finds: the end of the
    match (`FindIndex(...)[1]`) -/
def EngineRel (X : Ext) (expr : Str) (engine : Text.Bytes → Option Nat) : Prop :=
  ∀ bs, (X.findIndex expr (ints bs)).map (fun lh => lh.2) = (engine bs).map Int.ofNat

theorem tie_ReadRegexp (X : Ext) (expr : Str) (engine : Text.Bytes → Option Nat) (hX : EngineRel X expr engine)
    (hc : ∀ r m, engine r = some m → m ≤ r.length)
    (st : St) (F : FactsProg.File) (f : Text.File) (rel : FileRel st F f) (wf : SlWF F.data)
    (p : Nat) (h1 : f.offset ≤ p) :
    AgreesPS (Reader_ReadRegexp X ⟨F⟩ p expr st) (Text.readRegexp engine f p) st := by
  have hoff := rel.off
  have hlen := rel.len
  generalize hpi : (p : Int) = pi
  unfold Reader_ReadRegexp
  simp only [ite_apply, bind_apply, pure_apply, File_Pos]
  subst hpi
  unfold Text.readRegexp
  rw [if_neg (by omega : ¬ p < f.offset)]
  simp only []
  by_cases c1 : p - f.offset ≥ f.len
  · rw [if_pos c1]
    simp only [Text.File.len] at c1
    go_decide_text []
    exact ⟨_, st, rfl, Grows.refl st, rfl, rfl⟩
  · rw [if_neg c1]
    simp only [Text.File.len, ge_iff_le, Nat.not_le] at c1
    have hcur : ((p : Int) - F.offset) = ((p - f.offset : Nat) : Int) := by omega
    obtain ⟨s1, e1, v1, l1, _, _⟩ := sliceFrom_view st F.data (p - f.offset) (by rw [rel.dlen]; omega)
    rw [← hcur] at e1
    have v1' : view st s1 = ints (f.data.drop (p - f.offset)) := by rw [v1, rel.data, ← ints, ints_drop]
    go_decide_text [e1]
    have hx := hX (f.data.drop (p - f.offset))
    simp only [Go.findIndex, v1']
    cases he : engine (f.data.drop (p - f.offset)) with
    | none =>
      rw [he] at hx
      cases hxx : X.findIndex expr (ints (f.data.drop (p - f.offset))) with
      | none =>
        simp only []
        have : Go.nilSl.isNil = true := rfl
        go_decide_text [this]
        exact ⟨_, st, rfl, Grows.refl st, rfl, rfl⟩
      | some lh => rw [hxx] at hx; simp at hx
    | some m =>
      rw [he] at hx
      have hm := hc _ m he
      simp only [List.length_drop] at hm
      cases hxx : X.findIndex expr (ints (f.data.drop (p - f.offset))) with
      | none => rw [hxx] at hx; simp at hx
      | some lh =>
        obtain ⟨lo, hi⟩ := lh
        rw [hxx] at hx
        simp only [Option.map_some, Option.some.injEq] at hx
        subst hx
        simp only []
        have g2 := Grows.push st [lo, (m : Int)]
        generalize hst2 : ({ st with arrays := st.arrays ++ [[lo, (m : Int)]] } : St) = st2 at g2
        have hidx : Go.idx { arr := st.arrays.length, off := 0, len := 2, cap := 2 } 1 st2 = .ok (m : Int) st2 := by
          subst hst2
          simp [Go.idx, cells, List.getD_eq_getElem?_getD]
        have hfalse : ({ arr := st.arrays.length, off := 0, len := 2, cap := 2 } : Sl).isNil = false := rfl
        obtain ⟨s4, e4, v4, l4, n4, _⟩ := slice_view st2 F.data (p - f.offset) (p - f.offset + m)
          (by omega) (by rw [rel.dlen]; omega) wf.cap
        have hhi : ((p : Int) - F.offset + (m : Int)) = ((p - f.offset + m : Nat) : Int) := by omega
        rw [← hhi, ← hcur] at e4
        go_decide_text [hfalse, hidx, e4]
        refine ⟨s4, st2, ?_, g2, ?_, ?_, ?_⟩
        · simp only [Text.File.pos]
          congr 2; omega
        · rw [n4]
          cases hn : F.data.isNil with
          | false => rfl
          | true => have := wf.nil hn; rw [rel.dlen] at this; omega
        · rw [v4, view_grows g2 F.data (by rw [rel.data]; simp [rel.dlen]), rel.data, ← ints, ← ints_drop, ← ints_take]
          congr 2; omega
        · rw [l4]; simp only [List.length_take, List.length_drop]; omega

/-- the translated custom reader function `f'` computes the model's `fn`: on a non-nil, well-formed slice that shows
    the non-empty bytes `bs` it returns (without a panic, writing to nothing that existed) a slice for `fn bs`'s value
    and `fn bs`'s length -/
def FnRel (f' : Sl → M (Sl × Int)) (fn : Text.Bytes → Option Text.Bytes × Nat) : Prop :=
  ∀ (st : St) (s : Sl) (bs : Text.Bytes), view st s = ints bs → s.len = bs.length → bs ≠ [] → s.isNil = false →
    s.len ≤ s.cap →
    ∃ v st', f' s st = .ok (v, ((fn bs).2 : Int)) st' ∧ Grows st st' ∧ ValRel st' v (fn bs).1

theorem tie_Readf (f' : Sl → M (Sl × Int)) (fn : Text.Bytes → Option Text.Bytes × Nat) (hf : FnRel f' fn)
    (st : St) (F : FactsProg.File) (f : Text.File) (rel : FileRel st F f) (wf : SlWF F.data)
    (p : Nat) (h1 : f.offset ≤ p) :
    AgreesPS (Reader_Readf ⟨F⟩ p f' st) (Text.readf fn f p) st := by
  have hoff := rel.off
  have hlen := rel.len
  generalize hpi : (p : Int) = pi
  unfold Reader_Readf
  simp only [ite_apply, bind_apply, pure_apply, File_Pos]
  subst hpi
  unfold Text.readf
  rw [if_neg (by omega : ¬ p < f.offset)]
  simp only []
  by_cases c1 : p - f.offset ≥ f.len
  · rw [if_pos c1]
    simp only [Text.File.len] at c1
    go_decide_text []
    exact ⟨_, st, rfl, Grows.refl st, rfl, rfl⟩
  · rw [if_neg c1]
    simp only [Text.File.len, ge_iff_le, Nat.not_le] at c1
    have hcur : ((p : Int) - F.offset) = ((p - f.offset : Nat) : Int) := by omega
    obtain ⟨s1, e1, v1, l1, _, _, n1, cp1⟩ := sliceFrom_view st F.data (p - f.offset) (by rw [rel.dlen]; omega)
    rw [← hcur] at e1
    have v1' : view st s1 = ints (f.data.drop (p - f.offset)) := by rw [v1, rel.data, ← ints, ints_drop]
    have hne : f.data.drop (p - f.offset) ≠ [] := by
      intro e; have := congrArg List.length e; simp at this; omega
    have hnil : s1.isNil = false := by
      rw [n1]
      cases hn : F.data.isNil with
      | false => rfl
      | true => have := wf.nil hn; rw [rel.dlen] at this; omega
    have hcap : s1.len ≤ s1.cap := by rw [l1, cp1]; have := wf.cap; omega
    obtain ⟨v, st2, e2, g2, vr⟩ := hf st s1 _ v1' (by rw [l1, rel.dlen]; simp) hne hnil hcap
    go_decide_text [e1, e2]
    generalize fn (f.data.drop (p - f.offset)) = res at vr
    obtain ⟨val, n⟩ := res
    simp only [] at vr ⊢
    by_cases c2 : n = 0
    · rw [if_pos c2]
      cases val with
      | none =>
        have hv := vr.1
        go_decide_text [hv]
        exact ⟨_, st2, rfl, g2, rfl, rfl⟩
      | some bs =>
        have hv := vr.1
        go_decide_text [hv]
        rfl
    · rw [if_neg c2]
      have hvl : Go.len v = ((val.getD []).length : Int) := by
        cases val with
        | none => simp [Go.len, vr.2]
        | some bs => simp [Go.len, vr.2.2]
      by_cases c3 : n < (val.getD []).length ∨ p - f.offset + n > f.len
      · rw [if_pos c3]
        simp only [Text.File.len] at c3
        rcases c3 with c3 | c3
        · go_decide_text [hvl]
          rfl
        · by_cases c4 : n < (val.getD []).length
          · go_decide_text [hvl]
            rfl
          · go_decide_text [hvl]
            rfl
      · rw [if_neg c3]
        simp only [Text.File.len, not_or, Nat.not_lt] at c3
        go_decide_text [hvl]
        refine ⟨v, st2, ?_, g2, vr⟩
        simp only [Text.File.pos]
        congr 2; omega

end PV.TxtTie
