/-
  C05 (full value theorem): concrete syntax of well-formed arithmetic expressions.

  `Cst` is an expression TOGETHER WITH its layout: every token carries the whitespace that follows it
  (the whitespace before the first token is a separate parameter of the theorems).  `Cst.WF n e` says that `e` is
  an expression of precedence level `n` (0 = expr, 1 = term, 2 = factor) written with exactly the parentheses
  its structure needs — the operands of an operator of level `j` are of level `j` (left) and `j + 1` (right),
  so `render` is the text whose canonical tree is `e` —, that every literal is in the integer syntax with a
  value that fits in 64 bits, and that every whitespace chunk consists of whitespace bytes.

  `render`: the text; `tree`: the tree the parser must build; `toExpr`: the abstract expression (Spec/Arith.lean)
  with the positions of its operator bytes, the argument of the reference evaluator.
-/
import ParsleyVerif.Proofs.A05Unique
namespace PV.A05
open PV PV.Text

inductive Cst
  | lit (lex ws : Bytes)
  | bin (o : Op) (l : Cst) (ws : Bytes) (r : Cst)
  | paren (ws1 : Bytes) (e : Cst) (ws2 : Bytes)
deriving Repr, Inhabited

/-- the byte an operator is written with -/
def opByte : Op → Nat
  | .add => 43 | .sub => 45 | .mul => 42 | .div => 47

theorem ofRune_opByte (o : Op) : Op.ofRune (opByte o) = some o := by cases o <;> rfl
theorem opByte_ascii (o : Op) : opByte o < 0x80 := by cases o <;> decide
theorem level_le_one (o : Op) : o.level ≤ 1 := by cases o <;> decide

namespace Cst

/-- the text -/
def render : Cst → Bytes
  | .lit lex ws => lex ++ ws
  | .bin o l ws r => l.render ++ (opByte o :: (ws ++ r.render))
  | .paren ws1 e ws2 => 40 :: (ws1 ++ (e.render ++ (41 :: ws2)))

end Cst

/-- a whitespace chunk -/
def WsOK (ws : Bytes) : Prop := ∀ b ∈ ws, isWs b = true
/-- a literal: integer syntax, value within int64 -/
def LitOK (lex : Bytes) : Prop :=
  Lang.isInt lex = true ∧ -(2 : Int) ^ 63 ≤ Lang.intValue lex ∧ Lang.intValue lex < (2 : Int) ^ 63

namespace Cst

/-- well-formed at precedence level `n` -/
def WF : Nat → Cst → Prop
  | _, .lit lex ws => LitOK lex ∧ WsOK ws
  | n, .bin o l ws r => n ≤ o.level ∧ l.WF o.level ∧ WsOK ws ∧ r.WF (o.level + 1)
  | _, .paren ws1 e ws2 => WsOK ws1 ∧ e.WF 0 ∧ WsOK ws2

/-- the tree, for the text starting at `p` -/
def tree : Cst → Nat → Node
  | .lit lex ws, p => .term (tokOf "INTEGER") (.int (Lang.intValue lex)) p (p + lex.length + ws.length)
  | .bin o l ws r, p =>
    binN (l.tree p)
      (.term (Utf8.encodeRune (opByte o)) (.rune (opByte o)) (p + l.render.length) (p + l.render.length + 1 + ws.length))
      (r.tree (p + l.render.length + 1 + ws.length))
  | .paren ws1 e ws2, p =>
    parN (.term (Utf8.encodeRune 40) (.rune 40) p (p + 1 + ws1.length))
      (e.tree (p + 1 + ws1.length))
      (.term (Utf8.encodeRune 41) (.rune 41) (p + 1 + ws1.length + e.render.length)
        (p + 1 + ws1.length + e.render.length + 1 + ws2.length))

/-- the abstract expression; a binary node carries the position of its operator byte -/
def toExpr : Cst → Nat → Expr
  | .lit lex _, _ => .lit (Lang.intValue lex)
  | .bin o l ws r, p => .bin o (l.toExpr p) (p + l.render.length) (r.toExpr (p + l.render.length + 1 + ws.length))
  | .paren ws1 e _, p => .paren (e.toExpr (p + 1 + ws1.length))

/-- operators on the left spine -/
def leftOps : Cst → Nat
  | .bin _ l _ _ => l.leftOps + 1
  | _ => 0

theorem render_length (e : Cst) : ∀ n, e.WF n → 0 < e.render.length := by
  induction e with
  | lit lex ws =>
    intro n h
    obtain ⟨b, r, hb, _⟩ := isInt_head lex h.1.1
    simp [render, hb]
  | bin o l ws r _ _ => intro n _; simp [render]; omega
  | paren ws1 e ws2 _ => intro n _; simp [render]

theorem leftOps_le (e : Cst) : e.leftOps ≤ e.render.length := by
  induction e with
  | lit lex ws => simp [leftOps]
  | bin o l ws r ih _ => simp [leftOps, render]; omega
  | paren ws1 e ws2 _ => simp [leftOps]

/-- the first byte of the text: a sign, a digit, or `(` — never a whitespace byte -/
theorem render_head (e : Cst) : ∀ n, e.WF n →
    ∃ b t, e.render = b :: t ∧ (b = 43 ∨ b = 45 ∨ (48 ≤ b ∧ b ≤ 57) ∨ b = 40) := by
  induction e with
  | lit lex ws =>
    intro n h
    obtain ⟨b, r, hb, hb2⟩ := isInt_head lex h.1.1
    refine ⟨b, r ++ ws, by simp [render, hb], ?_⟩
    rcases hb2 with h | h | h
    · exact .inl h
    · exact .inr (.inl h)
    · exact .inr (.inr (.inl h))
  | bin o l ws r ih _ =>
    intro n h
    obtain ⟨b, t, hb, hb2⟩ := ih _ h.2.1
    exact ⟨b, t ++ (opByte o :: (ws ++ r.render)), by simp [render, hb], hb2⟩
  | paren ws1 e ws2 _ => intro n _; exact ⟨40, _, rfl, .inr (.inr (.inr rfl))⟩

theorem tree_rpos (e : Cst) : ∀ p, (e.tree p).rpos = p + e.render.length := by
  induction e with
  | lit lex ws => intro p; simp [tree, render, Node.rpos]; omega
  | bin o l ws r _ ih2 =>
    intro p
    simp only [tree, binN_rpos, ih2, render, List.length_append, List.length_cons]
    omega
  | paren ws1 e ws2 _ =>
    intro p
    rw [tree, parN_rpos]
    simp only [Node.rpos, render, List.length_append, List.length_cons]
    omega

theorem tree_pos (e : Cst) : ∀ p, (e.tree p).pos = p := by
  induction e with
  | lit lex ws => intro p; rfl
  | bin o l ws r ih _ => intro p; simp only [tree, binN, Node.pos]; exact ih p
  | paren ws1 e ws2 _ => intro p; rfl

/-- the tree denotes the abstract expression -/
theorem exprOf_tree (e : Cst) : ∀ p, exprOf (e.tree p) = some (e.toExpr p) := by
  induction e with
  | lit lex ws => intro p; simp [tree, toExpr, exprOf]
  | bin o l ws r ih1 ih2 =>
    intro p
    simp only [tree, toExpr, binN]
    rw [exprOf_bin _ _ _ _ _ _ _ _ _ o (ofRune_opByte o), ih1, ih2]
  | paren ws1 e ws2 ih =>
    intro p
    simp only [tree, toExpr, parN]
    rw [exprOf_paren, ih]; rfl

end Cst

/-- what may follow an expression: nothing, an operator, or a closing parenthesis -/
def Stop (suf : Bytes) : Prop := ∀ b, suf.head? = some b → b = 43 ∨ b = 45 ∨ b = 42 ∨ b = 47 ∨ b = 41

theorem Stop_nil : Stop [] := by intro b h; cases h
theorem Stop_op (o : Op) (t : Bytes) : Stop (opByte o :: t) := by
  intro b h
  simp only [List.head?_cons, Option.some.injEq] at h
  subst h
  cases o <;> simp [opByte]
theorem Stop_close (t : Bytes) : Stop (41 :: t) := by
  intro b h
  simp only [List.head?_cons, Option.some.injEq] at h
  subst h; simp

theorem Stop.not_ws {suf : Bytes} (h : Stop suf) : ∀ b, suf.head? = some b → isWs b = false := by
  intro b hb
  rcases h b hb with rfl | rfl | rfl | rfl | rfl <;> decide

end PV.A05
