/-
  C02 termination: for every grammar accepted by the certificate (`EnvOK`, `GWF`) and every state a parse
  can reach (`Good`), SOME fuel makes `run` answer.

  Well-founded descent on the lexicographic measure
     (hi − pos,  budget of the left-recursion context,  rank bound of the left references,  size of the parser):
  a call at a later position decreases the first component whatever its context; entering the body of a
  Memoize increments its counter, which is below the curtailing threshold, so the budget decreases;
  following an un-memoized left reference decreases the rank; everything else at the same position
  descends into a sub-parser at a left position.  Later elements of a sequence run at a later position
  unless every earlier element returned a zero-width node, in which case (soundness of `mayBeEmpty`,
  `run_cons`) they are left positions too; Many / SepBy iterations consume.
-/
import ParsleyVerif.Proofs.WFCons
import ParsleyVerif.Proofs.RunHalts
import ParsleyVerif.Proofs.RunMono
namespace PV
open PV.Text

/-! ### the budget of a left-recursion context -/

def budget (M : List Nat) (ctx : Ctx) (cap : Nat) : Nat := (M.map (fun k => cap - ctx.get k)).sum

theorem sum_map_le (M : List Nat) (f f' : Nat → Nat) (hle : ∀ k, f' k ≤ f k) : (M.map f').sum ≤ (M.map f).sum := by
  induction M with
  | nil => simp
  | cons k M ih => simp only [List.map_cons, List.sum_cons]; have := hle k; omega

theorem sum_map_lt (M : List Nat) (f f' : Nat → Nat) (hle : ∀ k, f' k ≤ f k) (idx : Nat) (hm : idx ∈ M)
    (hlt : f' idx < f idx) : (M.map f').sum < (M.map f).sum := by
  induction M with
  | nil => cases hm
  | cons k M ih =>
    simp only [List.map_cons, List.sum_cons]
    cases hm with
    | head => have := sum_map_le M f f' hle; omega
    | tail _ hm' => have := ih hm'; have := hle k; omega

theorem budget_inc (M : List Nat) (ctx : Ctx) (cap idx : Nat) (hm : idx ∈ M) (hlt : ctx.get idx < cap) :
    budget M (ctx.inc idx) cap < budget M ctx cap := by
  unfold budget
  refine sum_map_lt M _ _ ?_ idx hm ?_
  · intro k
    by_cases hk : k = idx
    · subst hk; rw [Ctx.get_inc_self]; omega
    · rw [Ctx.get_inc_other _ _ _ hk]; exact Nat.le_refl _
  · show cap - (ctx.inc idx).get idx < cap - ctx.get idx
    rw [Ctx.get_inc_self]; omega

def capAt (cfg : Cfg) (pos : Nat) : Nat := remaining cfg.file pos + Facts.curtailSlack + 1

/-! ### left positions -/

def LeftBound (c : WFCert) (r : Nat) (g : G) : Prop := ∀ k ∈ leftRefsU c g, c.rank k < r

theorem LeftBound_exists (c : WFCert) (g : G) : ∃ r, LeftBound c r g := by
  unfold LeftBound
  generalize leftRefsU c g = l
  induction l with
  | nil => exact ⟨0, fun k hk => by cases hk⟩
  | cons a l ih =>
    obtain ⟨r, hr⟩ := ih
    refine ⟨max r (c.rank a + 1), fun k hk => ?_⟩
    cases hk with
    | head => omega
    | tail _ hk' => have := hr k hk'; omega

theorem leftRefsAll_mem {c : WFCert} : ∀ {gs : List G} {g : G}, g ∈ gs → ∀ k ∈ leftRefsU c g, k ∈ leftRefsAll c gs
  | [], g, hg, _, _ => by cases hg
  | g' :: gs, g, hg, k, hk => by
    simp only [leftRefsAll, List.mem_append]
    cases hg with
    | head => exact .inl hk
    | tail _ hm => exact .inr (leftRefsAll_mem hm k hk)

theorem leftRefsSeq_lookup {c : WFCert} : ∀ (gs : List G) (d : Nat) (gd : G),
    (∀ i, i < d → ∀ gi, gs[i]? = some gi → mayBeEmpty c gi = true) → gs[d]? = some gd →
    ∀ k ∈ leftRefsU c gd, k ∈ leftRefsSeq c gs
  | [], d, gd, _, hl => by simp at hl
  | g :: gs, 0, gd, _, hl => by
    simp only [List.getElem?_cons_zero, Option.some.injEq] at hl
    subst hl
    intro k hk
    simp only [leftRefsSeq, List.mem_append]
    exact .inl hk
  | g :: gs, d + 1, gd, hprev, hl => by
    have h0 := hprev 0 (by omega) g rfl
    intro k hk
    simp only [leftRefsSeq, h0, ↓reduceIte, List.mem_append]
    exact .inr (leftRefsSeq_lookup gs d gd
      (fun i hi gi hgi => hprev (i + 1) (by omega) gi (by simpa using hgi)) (by simpa using hl) k hk)

/-- element `d` of a Sequence-family parser is a left position when every earlier element may be empty -/
theorem leftRefs_lookup {c : WFCert} {cfg : Cfg} {g : G} {sh : SeqShape} (hs : g.shape = some sh)
    (hloc : LocalP c cfg g) (d : Nat) (gd : G)
    (hprev : ∀ i, i < d → ∀ gi, sh.lookup i = some gi → mayBeEmpty c gi = true)
    (hl : sh.lookup d = some gd) : ∀ k ∈ leftRefsU c gd, k ∈ leftRefsU c g := by
  cases g with
  | seq k gs o =>
    simp only [G.shape, Option.some.injEq] at hs
    subst hs
    simp only at hl hprev
    simp only [leftRefsU]
    exact leftRefsSeq_lookup gs d gd hprev hl
  | many g1 ae o =>
    simp only [G.shape, Option.some.injEq] at hs
    subst hs
    simp only [Option.some.injEq] at hl hprev
    subst hl
    simp only [leftRefsU]
    exact fun k hk => hk
  | sepBy v s ae o =>
    simp only [G.shape, Option.some.injEq] at hs
    subst hs
    simp only [LocalP] at hloc
    simp only at hl hprev
    simp only [leftRefsU, List.mem_append]
    intro k hk
    match d, hprev, hl with
    | 0, _, hl => simp at hl; subst hl; exact .inl hk
    | 1, hprev, hl =>
      simp at hl; subst hl
      have hv := hprev 0 (by omega) v (by simp)
      simp only [hv, ↓reduceIte]
      exact .inr hk
    | d + 2, hprev, _ =>
      have hv := hprev 0 (by omega) v (by simp)
      have hs' := hprev 1 (by omega) s (by simp)
      exact absurd ⟨hv, hs'⟩ hloc
  | _ => simp [G.shape] at hs

theorem sizeOf_lookup {g : G} {sh : SeqShape} (hs : g.shape = some sh) (i : Nat) (gd : G)
    (hl : sh.lookup i = some gd) : sizeOf gd < sizeOf g := by
  cases g with
  | seq k gs o =>
    simp only [G.shape, Option.some.injEq] at hs
    subst hs
    simp only at hl
    have := List.sizeOf_lt_of_mem (List.mem_of_getElem? hl)
    simp only [G.seq.sizeOf_spec]
    omega
  | many g1 ae o =>
    simp only [G.shape, Option.some.injEq] at hs
    subst hs
    simp only [Option.some.injEq] at hl
    subst hl
    simp only [G.many.sizeOf_spec]
    omega
  | sepBy v s ae o =>
    simp only [G.shape, Option.some.injEq] at hs
    subst hs
    simp only at hl
    simp only [G.sepBy.sizeOf_spec]
    split at hl <;> (cases hl; omega)
  | _ => simp [G.shape] at hs

/-! ### the measure of sequence frames -/

def seqMu (c : WFCert) (hi : Nat) (g : G) (sh : SeqShape) (fr : Frame) : Nat :=
  match g with
  | .seq _ gs _ => gs.length - fr.depth
  | _ => 2 * (hi - fr.pos) +
      (match sh.lookup fr.depth with | some gd => if mayBeEmpty c gd then 1 else 0 | none => 0)

theorem seqMu_dec {c : WFCert} {cfg : Cfg} {g : G} {sh : SeqShape} (hs : g.shape = some sh)
    (hloc : LocalP c cfg g) (hi : Nat) (fr : Frame) (gd : G) (hl : sh.lookup fr.depth = some gd) (n : Node)
    (h1 : fr.pos ≤ n.rpos) (h2 : n.rpos ≤ hi) (h3 : mayBeEmpty c gd = false → n.rpos > fr.pos) :
    seqMu c hi g sh (fr.next n) < seqMu c hi g sh fr := by
  cases g with
  | seq k gs o =>
    simp only [G.shape, Option.some.injEq] at hs
    subst hs
    simp only at hl
    have hlt : fr.depth < gs.length := by
      have := List.mem_of_getElem? hl
      exact (List.getElem?_eq_some_iff.mp hl).1
    simp only [seqMu, Frame.next]
    omega
  | many g1 ae o =>
    simp only [G.shape, Option.some.injEq] at hs
    subst hs
    simp only [Option.some.injEq] at hl
    subst hl
    simp only [LocalP] at hloc
    have := h3 hloc
    simp only [seqMu, Frame.next, hloc]
    simp only [Bool.false_eq_true, ↓reduceIte]
    omega
  | sepBy v s ae o =>
    simp only [G.shape, Option.some.injEq] at hs
    subst hs
    simp only [LocalP] at hloc
    simp only at hl
    simp only [seqMu, Frame.next]
    rcases Nat.mod_two_eq_zero_or_one fr.depth with hp | hp
    · have hp' : (fr.depth + 1) % 2 = 1 := by omega
      simp only [hp, hp', beq_self_eq_true, ↓reduceIte, Nat.succ_ne_self, Nat.reduceBEq, Bool.false_eq_true] at hl ⊢
      cases hl
      cases hv : mayBeEmpty c gd with
      | true =>
        have hs' : mayBeEmpty c s = false := by
          cases hs'' : mayBeEmpty c s with
          | false => rfl
          | true => exact absurd ⟨hv, hs''⟩ hloc
        simp only [hs', Bool.false_eq_true, ↓reduceIte]
        omega
      | false =>
        have := h3 hv
        simp only [Bool.false_eq_true, ↓reduceIte]
        split <;> omega
    · have hp' : (fr.depth + 1) % 2 = 0 := by omega
      simp only [hp, hp', beq_self_eq_true, ↓reduceIte, Nat.succ_ne_self, Nat.reduceBEq, Bool.false_eq_true] at hl ⊢
      cases hl
      cases hv : mayBeEmpty c gd with
      | true =>
        have hs' : mayBeEmpty c v = false := by
          cases hs'' : mayBeEmpty c v with
          | false => rfl
          | true => exact absurd ⟨hs'', hv⟩ hloc
        simp only [hs', Bool.false_eq_true, ↓reduceIte]
        omega
      | false =>
        have := h3 hv
        simp only [Bool.false_eq_true, ↓reduceIte]
        split <;> omega
  | _ => simp [G.shape] at hs

/-! ### termination -/

def Halts (c : WFCert) (cfg : Cfg) (g : G) (ctx : Ctx) (pos : Nat) : Prop :=
  ∀ st, Good c cfg ctx pos st → ∃ f x, run cfg f g ctx pos st = some x

theorem runMono (cfg : Cfg) : RunMono (run cfg) := run_mono cfg

/-! ### `run` answers when its sub-calls do (work budget disabled) -/

theorem run_optional_some (cfg : Cfg) (h0 : cfg.maxCalls = 0) (f : Nat) (g' : G) (ctx : Ctx) (pos : Nat) (st : St)
    (x : Out × St) (hx : run cfg f g' ctx pos st = some x) :
    ∃ y, run cfg (f + 1) (.optional g') ctx pos st = some y := by
  obtain ⟨o, st1⟩ := x
  unfold run
  simp only [h0, ne_eq, not_true_eq_false, false_and, ↓reduceIte, hx]
  exact ⟨_, rfl⟩

theorem run_name_some (cfg : Cfg) (h0 : cfg.maxCalls = 0) (f : Nat) (g' : G) (nm : Bytes) (ctx : Ctx) (pos : Nat) (st : St)
    (x : Out × St) (hx : run cfg f g' ctx pos st = some x) :
    ∃ y, run cfg (f + 1) (.name g' nm) ctx pos st = some y := by
  obtain ⟨o, st1⟩ := x
  unfold run
  simp only [h0, ne_eq, not_true_eq_false, false_and, ↓reduceIte, hx]
  repeat' split
  all_goals exact ⟨_, rfl⟩

theorem run_single_some (cfg : Cfg) (h0 : cfg.maxCalls = 0) (f : Nat) (g' : G) (ctx : Ctx) (pos : Nat) (st : St)
    (x : Out × St) (hx : run cfg f g' ctx pos st = some x) :
    ∃ y, run cfg (f + 1) (.single g') ctx pos st = some y := by
  obtain ⟨o, st1⟩ := x
  unfold run
  simp only [h0, ne_eq, not_true_eq_false, false_and, ↓reduceIte, hx]
  repeat' split
  all_goals exact ⟨_, rfl⟩

theorem run_suppress_some (cfg : Cfg) (h0 : cfg.maxCalls = 0) (f : Nat) (g' : G) (ctx : Ctx) (pos : Nat) (st : St)
    (x : Out × St) (hx : run cfg f g' ctx pos st = some x) :
    ∃ y, run cfg (f + 1) (.suppress g') ctx pos st = some y := by
  obtain ⟨o, st1⟩ := x
  unfold run
  simp only [h0, ne_eq, not_true_eq_false, false_and, ↓reduceIte, hx]
  exact ⟨_, rfl⟩

theorem run_leaf_some (cfg : Cfg) (h0 : cfg.maxCalls = 0) (g : G) (hg : (∃ t, g = .term t) ∨ g = .empty ∨ g = .eof)
    (ctx : Ctx) (pos : Nat) (st : St) :
    ∃ y, run cfg 1 g ctx pos st = some y := by
  rcases hg with ⟨t, rfl⟩ | rfl | rfl
  · unfold run
    simp only [h0, ne_eq, not_true_eq_false, false_and, ↓reduceIte]
    split <;> exact ⟨_, rfl⟩
  · unfold run
    simp only [h0, ne_eq, not_true_eq_false, false_and, ↓reduceIte]
    exact ⟨_, rfl⟩
  · unfold run
    simp only [h0, ne_eq, not_true_eq_false, false_and, ↓reduceIte]
    split <;> exact ⟨_, rfl⟩

theorem run_ref_some (cfg : Cfg) (h0 : cfg.maxCalls = 0) (f : Nat) (k : Nat) (g' : G) (hk : cfg.env[k]? = some g')
    (ctx : Ctx) (pos : Nat) (st : St)
    (x : Out × St) (hx : run cfg f g' ctx pos st = some x) :
    ∃ y, run cfg (f + 1) (.ref k) ctx pos st = some y := by
  unfold run
  simp only [h0, ne_eq, not_true_eq_false, false_and, ↓reduceIte, hk, hx]
  exact ⟨_, rfl⟩

theorem run_ref_none (cfg : Cfg) (h0 : cfg.maxCalls = 0) (k : Nat) (hk : cfg.env[k]? = none)
    (ctx : Ctx) (pos : Nat) (st : St) :
    ∃ y, run cfg 1 (.ref k) ctx pos st = some y := by
  unfold run
  simp only [h0, ne_eq, not_true_eq_false, false_and, ↓reduceIte, hk]
  exact ⟨_, rfl⟩

theorem run_any_some (cfg : Cfg) (h0 : cfg.maxCalls = 0) (f : Nat) (gs : List G) (ctx : Ctx) (pos : Nat) (st : St)
    (x : AltSt × St) (hx : anyLoop (run cfg f) ctx pos gs {} st = some x) :
    ∃ y, run cfg (f + 1) (.any gs) ctx pos st = some y := by
  obtain ⟨a, st1⟩ := x
  unfold run
  simp only [h0, ne_eq, not_true_eq_false, false_and, ↓reduceIte, hx]
  split <;> exact ⟨_, rfl⟩

theorem run_choice_some (cfg : Cfg) (h0 : cfg.maxCalls = 0) (f : Nat) (gs : List G) (ctx : Ctx) (pos : Nat) (st : St)
    (x : Option Out × AltSt × St) (hx : choiceLoop (run cfg f) ctx pos gs {} st = some x) :
    ∃ y, run cfg (f + 1) (.choice gs) ctx pos st = some y := by
  obtain ⟨oo, a, st1⟩ := x
  unfold run
  simp only [h0, ne_eq, not_true_eq_false, false_and, ↓reduceIte, hx]
  cases oo <;> exact ⟨_, rfl⟩

theorem run_seqfam_some (cfg : Cfg) (h0 : cfg.maxCalls = 0) (f : Nat) (g : G) (sh : SeqShape) (hs : g.shape = some sh)
    (ctx : Ctx) (pos : Nat) (st : St)
    (x : Bool × SeqSt × St) (hx : seqParse (run cfg f) sh f 0 [] ctx pos true {} st = some x) :
    ∃ y, run cfg (f + 1) g ctx pos st = some y := by
  obtain ⟨b, ss, st1⟩ := x
  rw [run_seqfam cfg f g sh ctx pos st hs]
  simp only [h0, ne_eq, not_true_eq_false, false_and, ↓reduceIte, runSeq, hx]
  exact ⟨_, rfl⟩


theorem run_memo_some (cfg : Cfg) (h0 : cfg.maxCalls = 0) (f : Nat) (idx : Nat) (body : G) (ctx : Ctx) (pos : Nat) (st : St)
    (hbody : cacheGet st.cache idx pos ctx = none → ¬ ctx.get idx > remaining cfg.file pos + Facts.curtailSlack →
      ∃ x, run cfg f body (ctx.inc idx) pos (({ st with active := (idx, pos) :: st.active } : St).logEv cfg
        (.body idx pos ((st.active.filter (fun a : Nat × Nat => a.1 == idx && a.2 == pos)).length + 1))) = some x) :
    ∃ y, run cfg (f + 1) (.memo idx body) ctx pos st = some y := by
  unfold run
  simp only [h0, ne_eq, not_true_eq_false, false_and, ↓reduceIte]
  cases hc : cacheGet st.cache idx pos ctx with
  | some e => exact ⟨_, rfl⟩
  | none =>
    simp only
    by_cases hcur : ctx.get idx > remaining cfg.file pos + Facts.curtailSlack
    · simp only [hcur, ↓reduceIte]; exact ⟨_, rfl⟩
    · obtain ⟨⟨o, st2⟩, hx⟩ := hbody hc hcur
      simp only [hcur, ↓reduceIte, hx]
      exact ⟨_, rfl⟩

/-! ### one step of the descent -/

theorem GWF_sub1 {c : WFCert} {cfg : Cfg} {g g' : G} (hg : GWF c cfg g)
    (h1 : g.Core (TermGood cfg) → g'.Core (TermGood cfg))
    (h2 : g.All (LocalP c cfg) → g'.All (LocalP c cfg)) : GWF c cfg g' := ⟨h1 hg.core, h2 hg.loc⟩

theorem halts_step (c : WFCert) (cfg : Cfg) (henv : EnvOK c cfg) (ctx : Ctx) (pos : Nat) (r : Nat) (g : G)
    (IHpos : ∀ g' ctx' pos', pos < pos' → GWF c cfg g' → Halts c cfg g' ctx' pos')
    (IHb : ∀ g' ctx', budget c.memos ctx' (capAt cfg pos) < budget c.memos ctx (capAt cfg pos) →
      GWF c cfg g' → Halts c cfg g' ctx' pos)
    (IHr : ∀ r' g', r' < r → GWF c cfg g' → LeftBound c r' g' → Halts c cfg g' ctx pos)
    (IHn : ∀ g', sizeOf g' < sizeOf g → GWF c cfg g' → LeftBound c r g' → Halts c cfg g' ctx pos)
    (hg : GWF c cfg g) (hlb : LeftBound c r g) : Halts c cfg g ctx pos := by
  have h0 := henv.maxCalls
  have hpos : ∀ f, RunPosOK cfg (run cfg f) := run_pos cfg henv.core
  have hcons : ∀ f, RunConsOK c cfg (run cfg f) := run_cons c cfg henv
  intro st hgood
  cases hsh : g.shape with
  | some sh =>
    -- the Sequence family
    have hloc : LocalP c cfg g := G.All_self hg.loc
    obtain ⟨f, x, hx⟩ := seqParse_halts (run cfg) (runMono cfg) sh
      (ConsJ c cfg g sh ctx pos) (ConsE c cfg g pos)
      (ConsE_refl c cfg g pos) (ConsE_trans c cfg g pos) (ConsJ_stable c cfg g sh ctx pos)
      (fun f fr ss st g' o st1 hJ hd hl hrun =>
        ConsJ_call c cfg (run cfg f) (hpos f) (hcons f) g sh hg hsh ctx pos fr ss st g' o st1 hJ hd hl hrun)
      (fun fr ss st hJ hd hl hlc => ConsJ_none c cfg g sh hsh ctx pos fr ss st hJ hd hl hlc)
      (seqMu c cfg.hi g sh)
      (by
        intro fr ss st gd hJ hd hl
        obtain ⟨⟨j1, j2, j3, j4, j5, j6⟩, k1, k2, k3⟩ := hJ
        have hgd := GWF_lookup hg hsh fr.depth gd hl
        have hgood' : Good c cfg fr.ctx fr.pos st.regCall :=
          ⟨⟨j1, StOK_regCall j4, j5⟩, CacheCons_of_eq k1 rfl⟩
        by_cases he : fr.pos = pos
        · obtain ⟨q1, q2⟩ := k2 he
          have hlb' : LeftBound c r gd := fun k hk =>
            hlb k (leftRefs_lookup hsh hloc fr.depth gd q2 hl k hk)
          have := IHn gd (sizeOf_lookup hsh fr.depth gd hl) hgd hlb' st.regCall (by rw [← q1, ← he]; exact hgood')
          rw [q1, he]; exact this
        · exact IHpos gd fr.ctx fr.pos (by omega) hgd st.regCall hgood')
      (by
        intro f fr ss st gd o st1 hJ hd hl hrun n hn
        obtain ⟨⟨j1, j2, j3, j4, j5, j6⟩, k1, k2, k3⟩ := hJ
        have hgd := GWF_lookup hg hsh fr.depth gd hl
        have hpre : Pre cfg fr.ctx fr.pos st.regCall := ⟨j1, StOK_regCall j4, j5⟩
        have hpost := hpos f gd fr.ctx fr.pos st.regCall o st1 hgd.core hpre hrun
        have hc := hcons f gd fr.ctx fr.pos st.regCall o st1 hgd ⟨hpre, CacheCons_of_eq k1 rfl⟩ hrun
        obtain ⟨hnp, hnw⟩ := hpost.nodes n hn
        have hb := Node.WF_bounds cfg.hi n hnw
        exact seqMu_dec hsh hloc cfg.hi fr gd hl n (by omega) hb.2 (fun hm => hc.cons hm n hn))
      (seqMu c cfg.hi g sh ⟨0, [], ctx, pos, true⟩ + 1) ⟨0, [], ctx, pos, true⟩ (Nat.lt_succ_self _) {} st
      (ConsJ_init hgood) rfl
    obtain ⟨y, hy⟩ := run_seqfam_some cfg h0 f g sh hsh ctx pos st x hx
    exact ⟨f + 1, y, hy⟩
  | none =>
  cases g with
  | term t => exact ⟨1, run_leaf_some cfg h0 _ (.inl ⟨t, rfl⟩) ctx pos st⟩
  | empty => exact ⟨1, run_leaf_some cfg h0 _ (.inr (.inl rfl)) ctx pos st⟩
  | eof => exact ⟨1, run_leaf_some cfg h0 _ (.inr (.inr rfl)) ctx pos st⟩
  | ref k =>
    cases hk : cfg.env[k]? with
    | none => exact ⟨1, run_ref_none cfg h0 k hk ctx pos st⟩
    | some g' =>
      have hrk : c.rank k < r := hlb k (by simp [leftRefsU])
      obtain ⟨f, x, hx⟩ := IHr (c.rank k) g' hrk (henv.rules g' (List.mem_of_getElem? hk))
        (fun k' hk' => henv.rank k g' hk k' hk') st hgood
      exact ⟨f + 1, run_ref_some cfg h0 f k g' hk ctx pos st x hx⟩
  | memo idx body =>
    have hbody : GWF c cfg body := ⟨by simpa [G.Core] using hg.core, by
      have := hg.loc; simp only [G.All] at this; exact this.2⟩
    have hloc : idx ∈ c.memos ∧ (mayBeEmpty c body = true → c.nullM idx = true) := by
      have := hg.loc; simp only [G.All] at this; exact this.1
    by_cases hrun : cacheGet st.cache idx pos ctx = none ∧ ¬ ctx.get idx > remaining cfg.file pos + Facts.curtailSlack
    · have hlt : budget c.memos (ctx.inc idx) (capAt cfg pos) < budget c.memos ctx (capAt cfg pos) :=
        budget_inc c.memos ctx (capAt cfg pos) idx hloc.1 (by unfold capAt; omega)
      obtain ⟨f, x, hx⟩ := IHb body (ctx.inc idx) hlt hbody _
        ⟨Pre_memo_body idx hgood.1 hrun.2, CacheCons_of_eq hgood.2 (memo_body_cache cfg st idx pos _)⟩
      exact ⟨f + 1, run_memo_some cfg h0 f idx body ctx pos st (fun _ _ => ⟨x, hx⟩)⟩
    · exact ⟨1, run_memo_some cfg h0 0 idx body ctx pos st (fun h1 h2 => absurd ⟨h1, h2⟩ hrun)⟩
  | any gs =>
    have hgs : ∀ g' ∈ gs, GWF c cfg g' :=
      GWF_list (by simpa [G.Core] using hg.core) (by have := hg.loc; simp only [G.All] at this; exact this.2)
    obtain ⟨f, x, hx⟩ := anyLoop_halts (run cfg) (runMono cfg) ctx pos (Good c cfg ctx pos) gs
      (fun g' hg' st' hI => IHn g'
        (by have := List.sizeOf_lt_of_mem hg'; simp only [G.any.sizeOf_spec]; omega) (hgs g' hg')
        (fun k hk => hlb k (by simp only [leftRefsU]; exact leftRefsAll_mem hg' k hk)) st'.regCall (Good_regCall hI))
      (fun f g' hg' st' o st'' hI hr =>
        Good_after (Good_regCall hI) (hpos f g' ctx pos st'.regCall o st'' (hgs g' hg').core (Good_regCall hI).1 hr)
          (hcons f g' ctx pos st'.regCall o st'' (hgs g' hg') (Good_regCall hI) hr))
      {} st hgood
    exact ⟨f + 1, run_any_some cfg h0 f gs ctx pos st x hx⟩
  | choice gs =>
    have hgs : ∀ g' ∈ gs, GWF c cfg g' :=
      GWF_list (by simpa [G.Core] using hg.core) (by have := hg.loc; simp only [G.All] at this; exact this.2)
    obtain ⟨f, x, hx⟩ := choiceLoop_halts (run cfg) (runMono cfg) ctx pos (Good c cfg ctx pos) gs
      (fun g' hg' st' hI => IHn g'
        (by have := List.sizeOf_lt_of_mem hg'; simp only [G.choice.sizeOf_spec]; omega) (hgs g' hg')
        (fun k hk => hlb k (by simp only [leftRefsU]; exact leftRefsAll_mem hg' k hk)) st'.regCall (Good_regCall hI))
      (fun f g' hg' st' o st'' hI hr =>
        Good_after (Good_regCall hI) (hpos f g' ctx pos st'.regCall o st'' (hgs g' hg').core (Good_regCall hI).1 hr)
          (hcons f g' ctx pos st'.regCall o st'' (hgs g' hg') (Good_regCall hI) hr))
      {} st hgood
    exact ⟨f + 1, run_choice_some cfg h0 f gs ctx pos st x hx⟩
  | optional g' =>
    have hg' : GWF c cfg g' := ⟨by simpa [G.Core] using hg.core, by
      have := hg.loc; simp only [G.All] at this; exact this.2⟩
    obtain ⟨f, x, hx⟩ := IHn g' (by simp only [G.optional.sizeOf_spec]; omega) hg'
      (fun k hk => hlb k (by simpa [leftRefsU] using hk)) st hgood
    exact ⟨f + 1, run_optional_some cfg h0 f g' ctx pos st x hx⟩
  | name g' nm =>
    have hg' : GWF c cfg g' := ⟨by simpa [G.Core] using hg.core, by
      have := hg.loc; simp only [G.All] at this; exact this.2⟩
    obtain ⟨f, x, hx⟩ := IHn g' (by simp only [G.name.sizeOf_spec]; omega) hg'
      (fun k hk => hlb k (by simpa [leftRefsU] using hk)) st hgood
    exact ⟨f + 1, run_name_some cfg h0 f g' nm ctx pos st x hx⟩
  | single g' =>
    have hg' : GWF c cfg g' := ⟨by simpa [G.Core] using hg.core, by
      have := hg.loc; simp only [G.All] at this; exact this.2⟩
    obtain ⟨f, x, hx⟩ := IHn g' (by simp only [G.single.sizeOf_spec]; omega) hg'
      (fun k hk => hlb k (by simpa [leftRefsU] using hk)) st hgood
    exact ⟨f + 1, run_single_some cfg h0 f g' ctx pos st x hx⟩
  | suppress g' =>
    have hg' : GWF c cfg g' := ⟨by simpa [G.Core] using hg.core, by
      have := hg.loc; simp only [G.All] at this; exact this.2⟩
    obtain ⟨f, x, hx⟩ := IHn g' (by simp only [G.suppress.sizeOf_spec]; omega) hg'
      (fun k hk => hlb k (by simpa [leftRefsU] using hk)) st hgood
    exact ⟨f + 1, run_suppress_some cfg h0 f g' ctx pos st x hx⟩
  | ltrim g' m => exact absurd hg.core (by simp [G.Core])
  | rtrim g' m => exact absurd hg.core (by simp [G.Core])
  | seq k gs o => simp [G.shape] at hsh
  | many g' ae o => simp [G.shape] at hsh
  | sepBy v s ae o => simp [G.shape] at hsh

/-! ### the descent -/

theorem halts_all (c : WFCert) (cfg : Cfg) (henv : EnvOK c cfg) :
    ∀ g, GWF c cfg g → ∀ ctx pos, Halts c cfg g ctx pos := by
  have A : ∀ d pos, cfg.hi - pos = d → ∀ g, GWF c cfg g → ∀ ctx, Halts c cfg g ctx pos := by
    intro d
    induction d using Nat.strongRecOn with
    | ind d ihd =>
      intro pos hd
      have IHpos : ∀ g' ctx' pos', pos < pos' → GWF c cfg g' → Halts c cfg g' ctx' pos' := by
        intro g' ctx' pos' hlt hg' st hgood
        have hle : pos' ≤ cfg.hi := hgood.1.1.2
        exact ihd (cfg.hi - pos') (by omega) pos' rfl g' hg' ctx' st hgood
      have B : ∀ b ctx, budget c.memos ctx (capAt cfg pos) = b → ∀ g, GWF c cfg g → Halts c cfg g ctx pos := by
        intro b
        induction b using Nat.strongRecOn with
        | ind b ihb =>
          intro ctx hb
          have IHb : ∀ g' ctx', budget c.memos ctx' (capAt cfg pos) < budget c.memos ctx (capAt cfg pos) →
              GWF c cfg g' → Halts c cfg g' ctx' pos :=
            fun g' ctx' hlt hg' => ihb _ (hb ▸ hlt) ctx' rfl g' hg'
          have C : ∀ r g, GWF c cfg g → LeftBound c r g → Halts c cfg g ctx pos := by
            intro r
            induction r using Nat.strongRecOn with
            | ind r ihr =>
              have D : ∀ n g, sizeOf g = n → GWF c cfg g → LeftBound c r g → Halts c cfg g ctx pos := by
                intro n
                induction n using Nat.strongRecOn with
                | ind n ihn =>
                  intro g hn hg hlb
                  exact halts_step c cfg henv ctx pos r g IHpos IHb
                    (fun r' g' hr' hg' hlb' => ihr r' hr' g' hg' hlb')
                    (fun g' hs' hg' hlb' => ihn (sizeOf g') (hn ▸ hs') g' rfl hg' hlb') hg hlb
              intro g hg hlb
              exact D _ g rfl hg hlb
          intro g hg
          obtain ⟨r, hr⟩ := LeftBound_exists c g
          exact C r g hg hr
      intro g hg ctx
      exact B _ ctx rfl g hg
  intro g hg ctx pos
  exact A _ pos rfl g hg ctx

end PV
