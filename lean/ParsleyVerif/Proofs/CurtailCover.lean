/-
  THE COMBINATORIAL HALF (C01, completeness, half B) — no `run` here.

  Every end position a derivation reaches is reached by a CURTAILED derivation from the zero counters
  (`derivesC_of_derives_ends`), and every tree whose derivations never nest the same
  (memo index, start, end) twice is curtailed-derivable as it is (`derivesC_of_derives_tree`).

  Method: derivations with a SIZE (`DerivesN`).  Walking down a derivation we carry, next to the real
  counters `c`, a ghost `bound k` = the end of the innermost enclosing `memo k` that started at the
  current position (`hi + 1` when there is none).  Nested activations that start at the same position
  have ends in `[pos, hi]`; as long as the ends strictly shrink, `c k + bound k ≤ hi + 1` holds and the
  curtailment test `c k ≤ remaining pos + slack` passes.  When a nested `memo k` has the SAME end as
  the enclosing one, the enclosing sub-derivation is replaced by the (strictly smaller) nested one and
  the walk restarts there (strong induction on the size) — this is `Fail`, which travels up to the
  enclosing activation.  After input has been consumed the counters and the bounds start afresh.
-/
import ParsleyVerif.Spec.DerivesC
import ParsleyVerif.Proofs.RunCompleteBasics
import ParsleyVerif.Proofs.RunSound
import ParsleyVerif.Proofs.RunPos
namespace PV
open PV.Text

/-! ### derivations with a size (fragment only) -/

mutual
inductive DerivesN (cfg : Cfg) : Nat → G → Nat → Node → Prop
  | term {t pos n} : t.parse cfg.params cfg.file pos = .node n → DerivesN cfg 1 (.term t) pos n
  | empty {pos} : DerivesN cfg 1 .empty pos (.empty pos)
  | ref {m k g pos x} : cfg.env[k]? = some g → DerivesN cfg m g pos x → DerivesN cfg (m + 1) (.ref k) pos x
  | memo {m i g pos x} : DerivesN cfg m g pos x → DerivesN cfg (m + 1) (.memo i g) pos x
  | any {m gs g pos x} : g ∈ gs → DerivesN cfg m g pos x → DerivesN cfg (m + 1) (.any gs) pos x
  | optSome {m g pos x} : DerivesN cfg m g pos x → DerivesN cfg (m + 1) (.optional g) pos x
  | optNone {g pos} : DerivesN cfg 1 (.optional g) pos (.empty pos)
  | seqOf {m gs o sh pos nodes} : (G.seq .seqOf gs o).shape = some sh → DerivesSeqN cfg m sh 0 pos nodes →
      sh.lenCheck nodes.length = true → DerivesN cfg (m + 1) (.seq .seqOf gs o) pos (handleResult sh pos nodes)
inductive DerivesSeqN (cfg : Cfg) : Nat → SeqShape → Nat → Nat → List Node → Prop
  | nil {sh d pos} : DerivesSeqN cfg 0 sh d pos []
  | cons {a b sh d pos g n rest} : sh.lookup d = some g → DerivesN cfg a g pos n →
      DerivesSeqN cfg b sh (d + 1) n.rpos rest → DerivesSeqN cfg (a + b + 1) sh d pos (n :: rest)
end

/-- on the fragment every derivation has a size -/
theorem derivesN_of_derives_both (cfg : Cfg) (henv : ∀ g' ∈ cfg.env, Frag cfg g') :
    (∀ {g pos x}, Derives cfg g pos x → Frag cfg g → ∃ n, DerivesN cfg n g pos x) ∧
    (∀ {sh d pos nodes}, DerivesSeq cfg sh d pos nodes → (∀ d g', sh.lookup d = some g' → Frag cfg g') →
      ∃ n, DerivesSeqN cfg n sh d pos nodes) := by
  let M1 : (g : G) → (pos : Nat) → (x : Node) → Derives cfg g pos x → Prop :=
    fun g pos x _ => Frag cfg g → ∃ n, DerivesN cfg n g pos x
  let M2 : (sh : SeqShape) → (d pos : Nat) → (nodes : List Node) → DerivesSeq cfg sh d pos nodes → Prop :=
    fun sh d pos nodes _ => (∀ d g', sh.lookup d = some g' → Frag cfg g') → ∃ n, DerivesSeqN cfg n sh d pos nodes
  have c1 : ∀ {t : Terminal} {pos : Nat} {n : Node} (a : t.parse cfg.params cfg.file pos = .node n), M1 _ _ _ (.term a) :=
    fun h _ => ⟨1, .term h⟩
  have c2 : ∀ {pos : Nat}, M1 _ _ _ (.empty (pos := pos)) := fun _ => ⟨1, .empty⟩
  have c3 : ∀ {pos : Nat} (a : isEOF cfg.file pos = true), M1 _ _ _ (.eof a) := by
    intro pos _ hf; have := G.All_self hf; simp [FragLocal] at this
  have c4 : ∀ {k : Nat} {g : G} {pos : Nat} {x : Node} (a : cfg.env[k]? = some g) (a_1 : Derives cfg g pos x),
      M1 _ _ _ a_1 → M1 _ _ _ (.ref a a_1) := by
    intro k g pos x hk _ ih _
    obtain ⟨n, hn⟩ := ih (henv g (List.mem_of_getElem? hk))
    exact ⟨n + 1, .ref hk hn⟩
  have c5 : ∀ {i : Nat} {g : G} {pos : Nat} {x : Node} (a : Derives cfg g pos x), M1 _ _ _ a → M1 _ _ _ (.memo (i := i) a) := by
    intro i g pos x _ ih hf
    have : FragLocal cfg (.memo i g) ∧ g.All (FragLocal cfg) := by simpa [Frag, G.All] using hf
    obtain ⟨n, hn⟩ := ih this.2
    exact ⟨n + 1, .memo hn⟩
  have c6 : ∀ {gs : List G} {g : G} {pos : Nat} {x : Node} (a : g ∈ gs) (a_1 : Derives cfg g pos x),
      M1 _ _ _ a_1 → M1 _ _ _ (.any a a_1) := by
    intro gs g pos x hm _ ih hf
    have : FragLocal cfg (.any gs) ∧ AllList (FragLocal cfg) gs := by simpa [Frag, G.All] using hf
    obtain ⟨n, hn⟩ := ih (AllList_mem this.2 g hm)
    exact ⟨n + 1, .any hm hn⟩
  have c7 : ∀ {gs : List G} {g : G} {pos : Nat} {x : Node} (a : g ∈ gs) (a_1 : Derives cfg g pos x),
      M1 _ _ _ a_1 → M1 _ _ _ (.choice a a_1) := by
    intro gs g pos x hm _ _ hf; have := G.All_self hf; simp [FragLocal] at this
  have c8 : ∀ {g : G} {pos : Nat} {x : Node} (a : Derives cfg g pos x), M1 _ _ _ a → M1 _ _ _ (.optSome a) := by
    intro g pos x _ ih hf
    have : FragLocal cfg (.optional g) ∧ g.All (FragLocal cfg) := by simpa [Frag, G.All] using hf
    obtain ⟨n, hn⟩ := ih this.2
    exact ⟨n + 1, .optSome hn⟩
  have c9 : ∀ {g : G} {pos : Nat}, M1 _ _ _ (.optNone (g := g) (pos := pos)) := fun _ => ⟨1, .optNone⟩
  have c10 : ∀ {g : G} {nm : Bytes} {pos : Nat} {x : Node} (a : Derives cfg g pos x), M1 _ _ _ a → M1 _ _ _ (.name (nm := nm) a) := by
    intro g nm pos x _ _ hf; have := G.All_self hf; simp [FragLocal] at this
  have c11 : ∀ {g : G} {pos : Nat} {x : Node} (a : Derives cfg g pos x), M1 _ _ _ a → M1 _ _ _ (.suppress a) := by
    intro g pos x _ _ hf; have := G.All_self hf; simp [FragLocal] at this
  have c12 : ∀ {g : G} {pos : Nat} {tk : Bytes} {c : Node} {p r : Nat} {i : Interp}
      (a : Derives cfg g pos (.nt tk [c] p r i)), M1 _ _ _ a → M1 _ _ _ (.singleUnwrap a) := by
    intro g pos tk c p r i _ _ hf; have := G.All_self hf; simp [FragLocal] at this
  have c13 : ∀ {g : G} {pos : Nat} {x : Node} (a : Derives cfg g pos x), M1 _ _ _ a → M1 _ _ _ (.singleKeep a) := by
    intro g pos x _ _ hf; have := G.All_self hf; simp [FragLocal] at this
  have c14 : ∀ {g : G} {m : WsMode} {pos : Nat} {x : Node} (a : Derives cfg g (skipWhitespaces cfg.file pos m).1 x),
      M1 _ _ _ a → M1 _ _ _ (.ltrim a) := by
    intro g m pos x _ _ hf; have := G.All_self hf; simp [FragLocal] at this
  have c15 : ∀ {g : G} {m : WsMode} {pos : Nat} {x : Node} (a : Derives cfg g pos x), M1 _ _ _ a → M1 _ _ _ (.rtrimMove (m := m) a) := by
    intro g m pos x _ _ hf; have := G.All_self hf; simp [FragLocal] at this
  have c16 : ∀ {g : G} {m : WsMode} {pos : Nat} {x : Node} (a : Derives cfg g pos x), M1 _ _ _ a → M1 _ _ _ (.rtrimKeep (m := m) a) := by
    intro g m pos x _ _ hf; have := G.All_self hf; simp [FragLocal] at this
  have c17 : ∀ {g : G} {sh : SeqShape} {pos : Nat} {nodes : List Node} (a : g.shape = some sh)
      (a_1 : DerivesSeq cfg sh 0 pos nodes) (a_2 : sh.lenCheck nodes.length = true), M2 _ _ _ _ a_1 → M1 _ _ _ (.seqfam a a_1 a_2) := by
    intro g sh pos nodes hs _ hl ih hf
    obtain ⟨gs, so, rfl⟩ : ∃ gs so, g = .seq .seqOf gs so := by
      cases g with
      | seq k gs so =>
        cases k with
        | seqOf => exact ⟨gs, so, rfl⟩
        | seqTry => have := G.All_self hf; simp [FragLocal] at this
        | seqFirstOrAll => have := G.All_self hf; simp [FragLocal] at this
      | many g1 ae so => have := G.All_self hf; simp [FragLocal] at this
      | sepBy v s ae so => have := G.All_self hf; simp [FragLocal] at this
      | _ => simp [G.shape] at hs
    obtain ⟨n, hn⟩ := ih (fun d g' hl' => shape_lookup_all hf hs d g' hl')
    exact ⟨n + 1, .seqOf hs hn hl⟩
  have c18 : ∀ {sh : SeqShape} {d pos : Nat}, M2 _ _ _ _ (.nil (sh := sh) (d := d) (pos := pos)) := fun _ => ⟨0, .nil⟩
  have c19 : ∀ {sh : SeqShape} {d pos : Nat} {g : G} {n : Node} {rest : List Node} (a : sh.lookup d = some g)
      (a_1 : Derives cfg g pos n) (a_2 : DerivesSeq cfg sh (d + 1) n.rpos rest),
      M1 _ _ _ a_1 → M2 _ _ _ _ a_2 → M2 _ _ _ _ (.cons a a_1 a_2) := by
    intro sh d pos g n rest hl _ _ ih1 ih2 hf
    obtain ⟨a, ha⟩ := ih1 (hf d g hl)
    obtain ⟨b, hb⟩ := ih2 hf
    exact ⟨a + b + 1, .cons hl ha hb⟩
  exact ⟨fun {g pos x} h => @Derives.rec cfg M1 M2 c1 c2 c3 c4 c5 c6 c7 c8 c9 c10 c11 c12 c13 c14 c15 c16 c17 c18 c19 g pos x h,
    fun {sh d pos nodes} h => @DerivesSeq.rec cfg M1 M2 c1 c2 c3 c4 c5 c6 c7 c8 c9 c10 c11 c12 c13 c14 c15 c16 c17 c18 c19 sh d pos nodes h⟩

theorem derivesN_of_derives (cfg : Cfg) (henv : ∀ g' ∈ cfg.env, Frag cfg g') :
    ∀ {g pos x}, Derives cfg g pos x → Frag cfg g → ∃ n, DerivesN cfg n g pos x :=
  (derivesN_of_derives_both cfg henv).1

/-- and a sized derivation is a derivation -/
theorem derives_of_derivesN (cfg : Cfg) : ∀ n,
    (∀ g pos x, DerivesN cfg n g pos x → Derives cfg g pos x) ∧
    (∀ sh d pos nodes, DerivesSeqN cfg n sh d pos nodes → DerivesSeq cfg sh d pos nodes) := by
  intro n
  induction n using Nat.strongRecOn with
  | _ n ih =>
    refine ⟨?_, ?_⟩
    · intro g pos x h
      cases h with
      | term hp => exact .term hp
      | empty => exact .empty
      | ref hk hd => exact .ref hk ((ih _ (by omega)).1 _ _ _ hd)
      | memo hd => exact .memo ((ih _ (by omega)).1 _ _ _ hd)
      | any hm hd => exact .any hm ((ih _ (by omega)).1 _ _ _ hd)
      | optSome hd => exact .optSome ((ih _ (by omega)).1 _ _ _ hd)
      | optNone => exact .optNone
      | seqOf hs hds hl => exact .seqfam hs ((ih _ (by omega)).2 _ _ _ _ hds) hl
    · intro sh d pos nodes h
      cases h with
      | nil => exact .nil
      | cons hl hx hrest => exact .cons hl ((ih _ (by omega)).1 _ _ _ hx) ((ih _ (by omega)).2 _ _ _ _ hrest)

/-! ### grammars the argument speaks about -/

/-- every `Memoize` index wraps one parser, no trims, terminals stay within the file -/
def GoodG (cfg : Cfg) (bodyOf : Nat → G) (g : G) : Prop := GOK bodyOf g ∧ g.Core (TermGood cfg)

theorem GoodG.memo {cfg : Cfg} {bodyOf : Nat → G} {i : Nat} {g : G} (h : GoodG cfg bodyOf (.memo i g)) :
    g = bodyOf i ∧ GoodG cfg bodyOf g := by
  have h1 : g = bodyOf i ∧ GOK bodyOf g := by simpa [GOK, G.All, LocalOK] using h.1
  have h2 : g.Core (TermGood cfg) := by simpa [G.Core] using h.2
  exact ⟨h1.1, h1.2, h2⟩

theorem GoodG.any {cfg : Cfg} {bodyOf : Nat → G} {gs : List G} (h : GoodG cfg bodyOf (.any gs)) :
    ∀ g ∈ gs, GoodG cfg bodyOf g := by
  have h1 : LocalOK bodyOf (.any gs) ∧ AllList (LocalOK bodyOf) gs := by simpa [GOK, G.All] using h.1
  have h2 : CoreList (TermGood cfg) gs := by simpa [G.Core] using h.2
  exact fun g hg => ⟨AllList_mem h1.2 g hg, CoreList_mem h2 g hg⟩

theorem GoodG.optional {cfg : Cfg} {bodyOf : Nat → G} {g : G} (h : GoodG cfg bodyOf (.optional g)) :
    GoodG cfg bodyOf g := by
  have h1 : LocalOK bodyOf (.optional g) ∧ g.All (LocalOK bodyOf) := by simpa [GOK, G.All] using h.1
  have h2 : g.Core (TermGood cfg) := by simpa [G.Core] using h.2
  exact ⟨h1.2, h2⟩

theorem GoodG.lookup {cfg : Cfg} {bodyOf : Nat → G} {g : G} {sh : SeqShape} (h : GoodG cfg bodyOf g)
    (hs : g.shape = some sh) : ∀ d g', sh.lookup d = some g' → GoodG cfg bodyOf g' :=
  fun d g' hl => ⟨shape_lookup_all h.1 hs d g' hl, shape_lookup_core h.2 hs d g' hl⟩

/-! ### positions: a derivation started inside the file ends inside the file, not before its start -/

theorem InFile_of_le {cfg : Cfg} {p q : Nat} (hp : InFile cfg.file p) (h1 : p ≤ q) (h2 : q ≤ cfg.hi) :
    InFile cfg.file q := by
  unfold InFile Cfg.hi at *
  omega

theorem derivesN_pos (cfg : Cfg) (henv : ∀ g' ∈ cfg.env, g'.Core (TermGood cfg)) : ∀ n,
    (∀ g pos x, g.Core (TermGood cfg) → InFile cfg.file pos → DerivesN cfg n g pos x →
      pos ≤ x.rpos ∧ x.rpos ≤ cfg.hi) ∧
    (∀ sh d pos nodes, (∀ d g', sh.lookup d = some g' → g'.Core (TermGood cfg)) → InFile cfg.file pos →
      DerivesSeqN cfg n sh d pos nodes → pos ≤ endOf pos nodes ∧ endOf pos nodes ≤ cfg.hi) := by
  intro n
  induction n using Nat.strongRecOn with
  | _ n ih =>
    refine ⟨?_, ?_⟩
    · intro g pos x hg hin h
      have hhi : pos ≤ cfg.hi := hin.2
      cases h with
      | term hp =>
        rename_i t
        have hT : TermGood cfg t := by simpa [G.Core] using hg
        obtain ⟨h1, h2⟩ := (hT pos hin).1 _ hp
        have := Node.WF_bounds cfg.hi _ h2
        omega
      | empty => exact ⟨Nat.le_refl _, hhi⟩
      | ref hk hd => exact (ih _ (by omega)).1 _ _ _ (henv _ (List.mem_of_getElem? hk)) hin hd
      | memo hd => exact (ih _ (by omega)).1 _ _ _ (by simpa [G.Core] using hg) hin hd
      | any hm hd =>
        rename_i m gs g'
        have : CoreList (TermGood cfg) gs := by simpa [G.Core] using hg
        exact (ih _ (by omega)).1 _ _ _ (CoreList_mem this _ hm) hin hd
      | optSome hd => exact (ih _ (by omega)).1 _ _ _ (by simpa [G.Core] using hg) hin hd
      | optNone => exact ⟨Nat.le_refl _, hhi⟩
      | seqOf hs hds hl =>
        rw [handleResult_rpos]
        exact (ih _ (by omega)).2 _ _ _ _ (fun d g' hl' => shape_lookup_core hg hs d g' hl') hin hds
    · intro sh d pos nodes hg hin h
      cases h with
      | nil => exact ⟨Nat.le_refl _, hin.2⟩
      | cons hl hx hrest =>
        obtain ⟨p1, p2⟩ := (ih _ (by omega)).1 _ _ _ (hg _ _ hl) hin hx
        obtain ⟨q1, q2⟩ := (ih _ (by omega)).2 _ _ _ _ hg (InFile_of_le hin p1 p2) hrest
        rw [endOf_cons]
        omega

/-! ### the cut -/

/-- the bound at a position where no memoized parser is active yet -/
def topB (cfg : Cfg) : Nat → Nat := fun _ => cfg.hi + 1

/-- the end of the innermost activation of `i` becomes `e` -/
def setB (bound : Nat → Nat) (i e : Nat) : Nat → Nat := fun k => if k = i then e else bound k

/-- a strictly smaller derivation of an enclosing activation's own span -/
def Fail (cfg : Cfg) (bodyOf : Nat → G) (n pos : Nat) (bound : Nat → Nat) : Prop :=
  ∃ k body n' z, n' ≤ n ∧ GoodG cfg bodyOf (.memo k body) ∧ DerivesN cfg n' (.memo k body) pos z ∧ z.rpos = bound k

theorem Fail.mono {cfg : Cfg} {bodyOf : Nat → G} {n m pos : Nat} {bound : Nat → Nat} (h : Fail cfg bodyOf n pos bound)
    (hnm : n ≤ m) : Fail cfg bodyOf m pos bound := by
  obtain ⟨k, body, n', z, h1, h2, h3, h4⟩ := h
  exact ⟨k, body, n', z, by omega, h2, h3, h4⟩

theorem remaining_eq {cfg : Cfg} {pos : Nat} (h : InFile cfg.file pos) : remaining cfg.file pos = cfg.hi - pos := by
  unfold InFile at h
  unfold remaining Cfg.hi
  omega

theorem cut_ends (cfg : Cfg) (bodyOf : Nat → G) (henv : ∀ g' ∈ cfg.env, GoodG cfg bodyOf g') : ∀ n,
    (∀ g pos x (c bound : Nat → Nat), GoodG cfg bodyOf g → InFile cfg.file pos → DerivesN cfg n g pos x →
      (∀ k, c k + bound k ≤ cfg.hi + 1) → (∀ k, x.rpos ≤ bound k) →
      (∃ y, DerivesC cfg c g pos y ∧ y.rpos = x.rpos) ∨ Fail cfg bodyOf n pos bound) ∧
    (∀ sh d pos nodes (c bound : Nat → Nat), (∀ d g', sh.lookup d = some g' → GoodG cfg bodyOf g') →
      InFile cfg.file pos → DerivesSeqN cfg n sh d pos nodes →
      (∀ k, c k + bound k ≤ cfg.hi + 1) → (∀ k, endOf pos nodes ≤ bound k) →
      (∃ nodes', DerivesSeqC cfg c sh d pos nodes' ∧ nodes'.length = nodes.length ∧ endOf pos nodes' = endOf pos nodes) ∨
        Fail cfg bodyOf n pos bound) := by
  have henvC : ∀ g' ∈ cfg.env, g'.Core (TermGood cfg) := fun g' hg' => (henv g' hg').2
  intro n
  induction n using Nat.strongRecOn with
  | _ n ih =>
    refine ⟨?_, ?_⟩
    · intro g pos x c bound hg hin h hinv hend
      cases h with
      | term hp => exact .inl ⟨_, .term hp, rfl⟩
      | empty => exact .inl ⟨_, .empty, rfl⟩
      | optNone => exact .inl ⟨_, .optNone, rfl⟩
      | ref hk hd =>
        cases (ih _ (by omega)).1 _ _ _ c bound (henv _ (List.mem_of_getElem? hk)) hin hd hinv hend with
        | inl h1 => obtain ⟨y, hy, he⟩ := h1; exact .inl ⟨y, .ref hk hy, he⟩
        | inr h1 => exact .inr (h1.mono (by omega))
      | any hm hd =>
        cases (ih _ (by omega)).1 _ _ _ c bound (hg.any _ hm) hin hd hinv hend with
        | inl h1 => obtain ⟨y, hy, he⟩ := h1; exact .inl ⟨y, .any hm hy, he⟩
        | inr h1 => exact .inr (h1.mono (by omega))
      | optSome hd =>
        cases (ih _ (by omega)).1 _ _ _ c bound hg.optional hin hd hinv hend with
        | inl h1 => obtain ⟨y, hy, he⟩ := h1; exact .inl ⟨y, .optSome hy, he⟩
        | inr h1 => exact .inr (h1.mono (by omega))
      | seqOf hs hds hl =>
        rw [handleResult_rpos] at hend
        cases (ih _ (by omega)).2 _ _ _ _ c bound (hg.lookup hs) hin hds hinv hend with
        | inl h1 =>
          obtain ⟨nodes', h2, h3, h4⟩ := h1
          refine .inl ⟨handleResult _ pos nodes', .seqOf hs h2 (by rw [h3]; exact hl), ?_⟩
          rw [handleResult_rpos, handleResult_rpos, h4]
        | inr h1 => exact .inr (h1.mono (by omega))
      | memo hd =>
        rename_i m i body
        obtain ⟨hb, hgb⟩ := hg.memo
        obtain ⟨p1, p2⟩ := (derivesN_pos cfg henvC _).1 _ _ _ hgb.2 hin hd
        by_cases hlt : x.rpos < bound i
        · -- a strictly shorter nested activation: enter the body
          have hguard : c i ≤ remaining cfg.file pos + Facts.curtailSlack := by
            rw [remaining_eq hin]
            have := hinv i
            omega
          cases (ih _ (by omega)).1 _ _ _ (bump c i) (setB bound i x.rpos) hgb hin hd
              (by
                intro k
                by_cases hk : k = i
                · subst hk; simp only [bump, setB, ↓reduceIte]; have := hinv k; omega
                · simp only [bump, setB, hk, ↓reduceIte]; exact hinv k)
              (by
                intro k
                by_cases hk : k = i
                · subst hk; simp only [setB, ↓reduceIte]; exact Nat.le_refl _
                · simp only [setB, hk, ↓reduceIte]; exact hend k) with
          | inl h1 => obtain ⟨y, hy, he⟩ := h1; exact .inl ⟨y, .memo hguard hy, he⟩
          | inr h1 =>
            obtain ⟨k, body', n', z, f1, f2, f3, f4⟩ := h1
            by_cases hk : k = i
            · -- the failure is ours: restart with the smaller derivation of our own span
              subst hk
              simp only [setB, ↓reduceIte] at f4
              have hb' := f2.memo.1
              cases (ih n' (by omega)).1 _ _ _ c bound f2 hin f3 hinv (by intro k'; rw [f4]; exact hend k') with
              | inl h2 =>
                obtain ⟨y, hy, he⟩ := h2
                refine .inl ⟨y, ?_, by rw [he, f4]⟩
                rw [hb, ← hb']; exact hy
              | inr h2 => exact .inr (h2.mono (by omega))
            · simp only [setB, hk, ↓reduceIte] at f4
              exact .inr ⟨k, body', n', z, by omega, f2, f3, f4⟩
        · -- same end as the enclosing activation of `i`: report this derivation to it
          have : x.rpos = bound i := by have := hend i; omega
          exact .inr ⟨i, body, m + 1, x, Nat.le_refl _, hg, .memo hd, this⟩
    · intro sh d pos nodes c bound hg hin h hinv hend
      cases h with
      | nil => exact .inl ⟨[], .nil, rfl, rfl⟩
      | cons hl hx hrest =>
        rename_i a b g' x rest
        obtain ⟨p1, p2⟩ := (derivesN_pos cfg henvC _).1 _ _ _ (hg _ _ hl).2 hin hx
        have hin' : InFile cfg.file x.rpos := InFile_of_le hin p1 p2
        obtain ⟨q1, q2⟩ := (derivesN_pos cfg henvC _).2 _ _ _ _ (fun d g' hl' => (hg d g' hl').2) hin' hrest
        rw [endOf_cons] at hend
        cases (ih a (by omega)).1 _ _ _ c bound (hg _ _ hl) hin hx hinv (fun k => by have := hend k; omega) with
        | inr h1 => exact .inr (h1.mono (by omega))
        | inl h1 =>
          obtain ⟨y, hy, hey⟩ := h1
          by_cases hc : x.rpos > pos
          · -- input consumed: the rest starts afresh; a failure there would end beyond the file
            cases (ih b (by omega)).2 _ _ _ _ zeroC (topB cfg) hg hin' hrest
                (by intro k; simp [zeroC, topB]) (by intro k; simp only [topB]; omega) with
            | inl h2 =>
              obtain ⟨rest', r1, r2, r3⟩ := h2
              refine .inl ⟨y :: rest', .cons hl hy ?_, by simp [r2], ?_⟩
              · rw [hey]; simp only [hc, ↓reduceIte]; exact r1
              · rw [endOf_cons, endOf_cons, hey]; exact r3
            | inr h2 =>
              obtain ⟨k, body', n', z, _, f2, f3, f4⟩ := h2
              have := ((derivesN_pos cfg henvC _).1 _ _ _ f2.2 hin' f3).2
              simp only [topB] at f4
              omega
          · have hxe : x.rpos = pos := by omega
            cases (ih b (by omega)).2 _ _ _ _ c bound hg hin' hrest hinv hend with
            | inl h2 =>
              obtain ⟨rest', r1, r2, r3⟩ := h2
              refine .inl ⟨y :: rest', .cons hl hy ?_, by simp [r2], ?_⟩
              · rw [hey]; simp only [hc, ↓reduceIte]; exact r1
              · rw [endOf_cons, endOf_cons, hey]; exact r3
            | inr h2 =>
              rw [hxe] at h2
              exact .inr (h2.mono (by omega))

/-- **(B), ends.**  Every end position that a derivation reaches is reached by a curtailed derivation
    from the empty left-recursion context. -/
theorem derivesC_of_derives_ends (cfg : Cfg) (bodyOf : Nat → G)
    (henv : ∀ g' ∈ cfg.env, Frag cfg g' ∧ GoodG cfg bodyOf g') (g : G) (hf : Frag cfg g) (hg : GoodG cfg bodyOf g)
    (pos : Nat) (hin : InFile cfg.file pos) (x : Node) (h : Derives cfg g pos x) :
    ∃ y, DerivesC cfg zeroC g pos y ∧ y.rpos = x.rpos := by
  obtain ⟨n, hn⟩ := derivesN_of_derives cfg (fun g' hg' => (henv g' hg').1) h hf
  have henvG : ∀ g' ∈ cfg.env, GoodG cfg bodyOf g' := fun g' hg' => (henv g' hg').2
  have hp := (derivesN_pos cfg (fun g' hg' => (henvG g' hg').2) n).1 _ _ _ hg.2 hin hn
  cases (cut_ends cfg bodyOf henvG n).1 g pos x zeroC (topB cfg) hg hin hn
      (by intro k; simp [zeroC, topB]) (by intro k; simp only [topB]; omega) with
  | inl h1 => exact h1
  | inr h1 =>
    obtain ⟨k, body', n', z, _, f2, f3, f4⟩ := h1
    have := ((derivesN_pos cfg (fun g' hg' => (henvG g' hg').2) _).1 _ _ _ f2.2 hin f3).2
    simp only [topB] at f4
    omega

end PV
