/-
  C17, part 2: what each combinator of `run` does to the call counter — for EVERY grammar, environment,
  input, context state and fuel.  (`run cfg (fuel+1) g …` runs its sub-parsers with `run cfg fuel`.)
-/
import ParsleyVerif.Proofs.CallsAcct
namespace PV
open PV.Text

/-- the calls made by a run, as a difference of the counter (meaningful because of `run_calls_le`) -/
def cost (st st' : St) : Nat := st'.calls - st.calls

section
variable (cfg : Cfg) (fuel : Nat) (ctx : Ctx) (pos : Nat) (st : St) (o : Out) (st' : St)

/-! ### leaves: no call -/
theorem calls_term (t : Terminal) (h : run cfg (fuel + 1) (.term t) ctx pos st = some (o, st')) :
    st'.calls = st.calls := by
  simp only [run] at h
  split at h
  · cases h
  · split at h <;> cases h
    · rfl
    · exact (logEv_fields _ _ _).2.2.1
    · rfl

theorem calls_empty (h : run cfg (fuel + 1) .empty ctx pos st = some (o, st')) : st'.calls = st.calls := by
  simp only [run] at h
  split at h <;> cases h
  rfl

theorem calls_eof (h : run cfg (fuel + 1) .eof ctx pos st = some (o, st')) : st'.calls = st.calls := by
  simp only [run] at h
  split at h
  · cases h
  · split at h <;> cases h
    · rfl
    · exact (logEv_fields _ _ _).2.2.1

/-! ### a reference is the referenced parser (no call); a dangling one answers without a call -/
theorem calls_ref (k : Nat) (h : run cfg (fuel + 1) (.ref k) ctx pos st = some (o, st')) :
    (∃ g', cfg.env[k]? = some g' ∧ run cfg fuel g' ctx pos st = some (o, st')) ∨
    (cfg.env[k]? = none ∧ st'.calls = st.calls) := by
  simp only [run] at h
  split at h
  · cases h
  · split at h
    · rename_i g' hk; exact .inl ⟨g', hk, h⟩
    · rename_i hk; cases h; exact .inr ⟨hk, rfl⟩

/-! ### Memoize: a cache hit and a curtailment make no call; otherwise the calls are those of the body -/
theorem calls_memo_hit (idx : Nat) (body : G) (e : CacheEntry) (hc : cacheGet st.cache idx pos ctx = some e)
    (h : run cfg (fuel + 1) (.memo idx body) ctx pos st = some (o, st')) :
    st'.calls = st.calls ∧ o = ⟨e.res, e.cp, e.err⟩ := by
  simp only [run, hc] at h
  split at h
  · cases h
  · cases h; exact ⟨(logEv_fields _ _ _).2.2.1, rfl⟩

theorem calls_memo_curtail (idx : Nat) (body : G) (hc : cacheGet st.cache idx pos ctx = none)
    (hcur : ctx.get idx > remaining cfg.file pos + Facts.curtailSlack)
    (h : run cfg (fuel + 1) (.memo idx body) ctx pos st = some (o, st')) :
    st'.calls = st.calls ∧ o = ⟨.nil, [idx], none⟩ := by
  simp only [run, hc, hcur, ↓reduceIte] at h
  split at h
  · cases h
  · cases h; exact ⟨(logEv_fields _ _ _).2.2.1, rfl⟩

theorem calls_memo_body (idx : Nat) (body : G) (hc : cacheGet st.cache idx pos ctx = none)
    (hcur : ¬ ctx.get idx > remaining cfg.file pos + Facts.curtailSlack)
    (h : run cfg (fuel + 1) (.memo idx body) ctx pos st = some (o, st')) :
    ∃ st1 st2, st1.calls = st.calls ∧ st1.cache = st.cache ∧
      run cfg fuel body (ctx.inc idx) pos st1 = some (o, st2) ∧ st'.calls = st2.calls := by
  simp only [run, hc, hcur, ↓reduceIte] at h
  split at h
  · cases h
  · split at h
    · cases h
    · rename_i o2 st2 hr
      cases h
      refine ⟨_, st2, ?_, ?_, hr, rfl⟩
      · exact (logEv_fields _ _ _).2.2.1
      · exact (logEv_fields _ _ _).1

/-! ### Any: one call per alternative, all alternatives -/
theorem calls_any (gs : List G) (h : run cfg (fuel + 1) (.any gs) ctx pos st = some (o, st')) :
    ∃ invs : List Inv, invs.map Inv.g = gs ∧
      (∀ i ∈ invs, i.ok (run cfg fuel) ∧ i.ctx = ctx ∧ i.pos = pos) ∧ Chained st.calls invs st'.calls := by
  simp only [run] at h
  split at h
  · cases h
  · split at h
    · cases h
    · rename_i a st1 hl
      obtain ⟨invs, h1, h2, h3⟩ := anyLoop_calls _ _ _ _ _ _ _ _ hl
      refine ⟨invs, h1, h2, ?_⟩
      split at h <;> cases h
      · exact h3
      · rw [(setError_ctxErr _ _).2.2.2.2]; exact h3

/-! ### Choice: one call per alternative tried (up to the first that matches) -/
theorem choiceLoop_some_nonnil (r : RunFn) (ctx : Ctx) (pos : Nat) :
    ∀ (gs : List G) (a : AltSt) (st : St) (o : Out) (a' : AltSt) (st' : St),
      choiceLoop r ctx pos gs a st = some (some o, a', st') → o.res.isNil = false := by
  intro gs
  induction gs with
  | nil => intro a st o a' st' hl; simp [choiceLoop] at hl
  | cons g gs ih =>
    intro a st o a' st' hl
    simp only [choiceLoop] at hl
    split at hl
    · cases hl
    · rename_i o2 st2 _
      by_cases hn2 : o2.res.isNil = true
      · simp only [hn2, Bool.not_true, Bool.false_eq_true, ↓reduceIte] at hl
        exact ih _ _ _ _ _ hl
      · have hn' : o2.res.isNil = false := by simpa using hn2
        simp only [hn', Bool.not_false, ↓reduceIte] at hl
        cases hl
        exact hn'

theorem calls_choice (gs : List G) (h : run cfg (fuel + 1) (.choice gs) ctx pos st = some (o, st')) :
    ∃ invs : List Inv, invs.map Inv.g <+: gs ∧
      (∀ i ∈ invs, i.ok (run cfg fuel) ∧ i.ctx = ctx ∧ i.pos = pos) ∧ Chained st.calls invs st'.calls ∧
      (o.res.isNil = true → invs.map Inv.g = gs) := by
  simp only [run] at h
  split at h
  · cases h
  · split at h
    · cases h
    · rename_i o1 a st1 hl
      cases h
      obtain ⟨invs, h1, h2, h3, _, h5⟩ := choiceLoop_calls _ _ _ _ _ _ _ _ _ hl
      refine ⟨invs, h1, h2, h3, ?_⟩
      intro hn
      -- the early return carries a non-nil result
      rw [choiceLoop_some_nonnil _ _ _ _ _ _ _ _ _ hl] at hn
      cases hn
    · rename_i a st1 hl
      cases h
      obtain ⟨invs, h1, h2, h3, h4, _⟩ := choiceLoop_calls _ _ _ _ _ _ _ _ _ hl
      exact ⟨invs, h1, h2, h3, fun _ => (h4 rfl).1⟩

/-! ### the wrappers make no call of their own -/
theorem calls_optional (g : G) (h : run cfg (fuel + 1) (.optional g) ctx pos st = some (o, st')) :
    ∃ o1, run cfg fuel g ctx pos st = some (o1, st') := by
  simp only [run] at h
  split at h
  · cases h
  · split at h
    · cases h
    · rename_i o1 st1 hr; cases h; exact ⟨o1, hr⟩

theorem calls_suppress (g : G) (h : run cfg (fuel + 1) (.suppress g) ctx pos st = some (o, st')) :
    ∃ o1, run cfg fuel g ctx pos st = some (o1, st') := by
  simp only [run] at h
  split at h
  · cases h
  · split at h
    · cases h
    · rename_i o1 st1 hr; cases h; exact ⟨o1, hr⟩

theorem calls_name (g : G) (nm : Bytes) (h : run cfg (fuel + 1) (.name g nm) ctx pos st = some (o, st')) :
    ∃ o1, run cfg fuel g ctx pos st = some (o1, st') := by
  simp only [run] at h
  split at h
  · cases h
  · split at h
    · cases h
    · rename_i o1 st1 hr
      refine ⟨o1, ?_⟩
      rw [hr]
      (repeat' split at h) <;> cases h <;> rfl

theorem calls_single (g : G) (h : run cfg (fuel + 1) (.single g) ctx pos st = some (o, st')) :
    ∃ o1, run cfg fuel g ctx pos st = some (o1, st') := by
  simp only [run] at h
  split at h
  · cases h
  · split at h
    · cases h
    · rename_i o1 st1 hr
      refine ⟨o1, ?_⟩
      rw [hr]
      (repeat' split at h) <;> cases h <;> rfl

theorem calls_rtrim (g : G) (m : WsMode) (h : run cfg (fuel + 1) (.rtrim g m) ctx pos st = some (o, st')) :
    ∃ o1, run cfg fuel g ctx pos st = some (o1, st') := by
  simp only [run] at h
  split at h
  · cases h
  · split at h
    · cases h
    · rename_i o1 st1 hr
      refine ⟨o1, ?_⟩
      rw [hr]
      (repeat' split at h) <;> cases h <;> rfl

theorem calls_ltrim (g : G) (m : WsMode) (h : run cfg (fuel + 1) (.ltrim g m) ctx pos st = some (o, st')) :
    ∃ o1 st1, run cfg fuel g ctx (skipWhitespaces cfg.file pos m).1 st = some (o1, st1) ∧ st'.calls = st1.calls := by
  simp only [run] at h
  split at h
  · cases h
  · split at h
    · cases h
    · rename_i o1 st1 hr
      refine ⟨o1, st1, hr, ?_⟩
      (repeat' split at h) <;> cases h <;> first | rfl | exact (setError_ctxErr _ _).2.2.2.2

/-! ### the Sequence family: one call per element invocation -/
theorem calls_seqfam (g : G) (sh : SeqShape) (hs : g.shape = some sh)
    (h : run cfg (fuel + 1) g ctx pos st = some (o, st')) :
    ∃ invs : List Inv, (∀ i ∈ invs, i.ok (run cfg fuel) ∧ ∃ d, sh.lookup d = some i.g) ∧
      Chained st.calls invs st'.calls := by
  have key : ∀ (b : Bool) (ss : SeqSt) (st1 : St),
      seqParse (run cfg fuel) sh fuel 0 [] ctx pos true {} st = some (b, ss, st1) →
      st'.calls = st1.calls →
      ∃ invs : List Inv, (∀ i ∈ invs, i.ok (run cfg fuel) ∧ ∃ d, sh.lookup d = some i.g) ∧
        Chained st.calls invs st'.calls := by
    intro b ss st1 hp he
    rw [he]
    exact seqParse_calls (run cfg fuel) sh fuel ⟨0, [], ctx, pos, true⟩ {} st b ss st1 rfl hp
  cases g <;> simp only [G.shape, Option.some.injEq, reduceCtorEq] at hs
  all_goals
    subst hs
    simp only [run, G.shape] at h
    split at h
    · cases h
    · split at h
      · cases h
      · rename_i b ss st1 hp
        refine key b ss st1 hp ?_
        split at h
        · cases h; rfl
        · cases h; exact (setError_ctxErr _ _).2.2.2.2

end

/-! ### the counter never goes down, so `cost` is the number of calls made -/
theorem run_calls_le (cfg : Cfg) : ∀ (fuel : Nat) (g : G) (ctx : Ctx) (pos : Nat) (st : St) (o : Out) (st' : St),
    run cfg fuel g ctx pos st = some (o, st') → st.calls ≤ st'.calls := by
  intro fuel
  induction fuel with
  | zero => intro g ctx pos st o st' h; simp [run] at h
  | succ fuel ih =>
    intro g ctx pos st o st' h
    have hinv : ∀ i : Inv, i.ok (run cfg fuel) → i.st.calls + 1 ≤ i.st'.calls := by
      intro i hi
      exact ih _ _ _ _ _ _ hi
    have hseq : ∀ sh, g.shape = some sh → st.calls ≤ st'.calls := by
      intro sh hs
      obtain ⟨invs, h1, h2⟩ := calls_seqfam cfg fuel ctx pos st o st' g sh hs h
      have := h2.le (fun i hi => hinv i (h1 i hi).1)
      omega
    cases g with
    | term t => exact Nat.le_of_eq (calls_term cfg fuel ctx pos st o st' t h).symm
    | empty => exact Nat.le_of_eq (calls_empty cfg fuel ctx pos st o st' h).symm
    | eof => exact Nat.le_of_eq (calls_eof cfg fuel ctx pos st o st' h).symm
    | ref k =>
      rcases calls_ref cfg fuel ctx pos st o st' k h with ⟨g', _, hr⟩ | ⟨_, he⟩
      · exact ih _ _ _ _ _ _ hr
      · omega
    | memo idx body =>
      cases hc : cacheGet st.cache idx pos ctx with
      | some e => exact Nat.le_of_eq (calls_memo_hit cfg fuel ctx pos st o st' idx body e hc h).1.symm
      | none =>
        by_cases hcur : ctx.get idx > remaining cfg.file pos + Facts.curtailSlack
        · exact Nat.le_of_eq (calls_memo_curtail cfg fuel ctx pos st o st' idx body hc hcur h).1.symm
        · obtain ⟨st1, st2, e1, _, hr, e2⟩ := calls_memo_body cfg fuel ctx pos st o st' idx body hc hcur h
          have := ih _ _ _ _ _ _ hr
          omega
    | any gs =>
      obtain ⟨invs, _, h1, h2⟩ := calls_any cfg fuel ctx pos st o st' gs h
      have := h2.le (fun i hi => hinv i (h1 i hi).1)
      omega
    | choice gs =>
      obtain ⟨invs, _, h1, h2, _⟩ := calls_choice cfg fuel ctx pos st o st' gs h
      have := h2.le (fun i hi => hinv i (h1 i hi).1)
      omega
    | seq k gs o => exact hseq _ rfl
    | many g' ae o => exact hseq _ rfl
    | sepBy v s ae o => exact hseq _ rfl
    | optional g' => obtain ⟨o1, hr⟩ := calls_optional cfg fuel ctx pos st o st' g' h; exact ih _ _ _ _ _ _ hr
    | name g' nm => obtain ⟨o1, hr⟩ := calls_name cfg fuel ctx pos st o st' g' nm h; exact ih _ _ _ _ _ _ hr
    | single g' => obtain ⟨o1, hr⟩ := calls_single cfg fuel ctx pos st o st' g' h; exact ih _ _ _ _ _ _ hr
    | suppress g' => obtain ⟨o1, hr⟩ := calls_suppress cfg fuel ctx pos st o st' g' h; exact ih _ _ _ _ _ _ hr
    | rtrim g' m => obtain ⟨o1, hr⟩ := calls_rtrim cfg fuel ctx pos st o st' g' m h; exact ih _ _ _ _ _ _ hr
    | ltrim g' m =>
      obtain ⟨o1, st1, hr, he⟩ := calls_ltrim cfg fuel ctx pos st o st' g' m h
      have := ih _ _ _ _ _ _ hr
      omega

theorem Inv.ok_le (cfg : Cfg) (fuel : Nat) (i : Inv) (h : i.ok (run cfg fuel)) : i.st.calls + 1 ≤ i.st'.calls :=
  run_calls_le cfg fuel _ _ _ _ _ _ h

/-- the cost of an invocation is the cost of the sub-parser's run -/
theorem Inv.cost_eq (i : Inv) : i.cost = PV.cost i.st.regCall i.st' := rfl

/-! ### the totals -/

/-- **Any**: `calls' = calls + |alternatives| + Σ cost(alternative i)` -/
theorem calls_any_total (cfg : Cfg) (fuel : Nat) (ctx : Ctx) (pos : Nat) (st : St) (o : Out) (st' : St) (gs : List G)
    (h : run cfg (fuel + 1) (.any gs) ctx pos st = some (o, st')) :
    ∃ invs : List Inv, invs.map Inv.g = gs ∧
      (∀ i ∈ invs, i.ok (run cfg fuel) ∧ i.ctx = ctx ∧ i.pos = pos) ∧
      st'.calls = st.calls + gs.length + (invs.map Inv.cost).sum := by
  obtain ⟨invs, h1, h2, h3⟩ := calls_any cfg fuel ctx pos st o st' gs h
  refine ⟨invs, h1, h2, ?_⟩
  have := h3.total (fun i hi => Inv.ok_le cfg fuel i (h2 i hi).1)
  rw [this, ← h1, List.length_map]

/-- **Choice**: `calls' = calls + |alternatives tried| + Σ cost(alternative i)`; all of them when none matched -/
theorem calls_choice_total (cfg : Cfg) (fuel : Nat) (ctx : Ctx) (pos : Nat) (st : St) (o : Out) (st' : St) (gs : List G)
    (h : run cfg (fuel + 1) (.choice gs) ctx pos st = some (o, st')) :
    ∃ invs : List Inv, invs.map Inv.g <+: gs ∧
      (∀ i ∈ invs, i.ok (run cfg fuel) ∧ i.ctx = ctx ∧ i.pos = pos) ∧
      st'.calls = st.calls + invs.length + (invs.map Inv.cost).sum ∧
      (o.res.isNil = true → invs.length = gs.length) := by
  obtain ⟨invs, h1, h2, h3, h4⟩ := calls_choice cfg fuel ctx pos st o st' gs h
  refine ⟨invs, h1, h2, h3.total (fun i hi => Inv.ok_le cfg fuel i (h2 i hi).1), ?_⟩
  intro hn
  rw [← h4 hn, List.length_map]

/-- **the Sequence family** (SeqOf, SeqTry, SeqFirstOrAll, Many, SepBy):
    `calls' = calls + |element invocations| + Σ cost(invocation i)` -/
theorem calls_seqfam_total (cfg : Cfg) (fuel : Nat) (ctx : Ctx) (pos : Nat) (st : St) (o : Out) (st' : St)
    (g : G) (sh : SeqShape) (hs : g.shape = some sh)
    (h : run cfg (fuel + 1) g ctx pos st = some (o, st')) :
    ∃ invs : List Inv, (∀ i ∈ invs, i.ok (run cfg fuel) ∧ ∃ d, sh.lookup d = some i.g) ∧
      st'.calls = st.calls + invs.length + (invs.map Inv.cost).sum := by
  obtain ⟨invs, h1, h2⟩ := calls_seqfam cfg fuel ctx pos st o st' g sh hs h
  exact ⟨invs, h1, h2.total (fun i hi => Inv.ok_le cfg fuel i (h1 i hi).1)⟩

end PV
