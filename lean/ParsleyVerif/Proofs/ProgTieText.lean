/-
  THE TIE of the statement-level translator, text package: the reader primitives of Model/Text.lean against the
  Lean definitions `factgen -out-prog` translates from text/reader.go and text/file.go (Generated/FactsProg.lean).

  The model keeps a file's bytes in a list; the translated code reads them through a slice of the array heap.  `FileRel`
  says that the translated `File` struct, in a given state, shows a given model file: its byte slice reads as the
  model's bytes and `len`, `offset`, `filename` agree.  Positions are `Nat` in the model and `Int` in the translation;
  the theorems are stated on the model's domain `offset ≤ pos` (below it the Go cursor is negative).
-/
import ParsleyVerif.Proofs.ProgTieBasics
import ParsleyVerif.Model.Text
import ParsleyVerif.Proofs.Search
import ParsleyVerif.Proofs.FileSet
import ParsleyVerif.Generated.FactsProg
set_option linter.unusedSimpArgs false
namespace PV.ProgTie
open PV.ProgPrelude PV.FactsProg

/-- the translated `File` struct `F`, read in state `st`, shows the model file `f` -/
structure FileRel (st : St) (F : FactsProg.File) (f : Text.File) : Prop where
  data : view st F.data = f.data.map Int.ofNat
  dlen : F.data.len = f.data.length
  len : F.len = (f.data.length : Int)
  off : F.offset = (f.offset : Int)
  name : F.filename = f.name

/-- reading inside a slice whose view is known -/
theorem idx_view (st : St) (s : Sl) (l : List Int) (hv : view st s = l) (hl : s.len = l.length) (i : Int)
    (h0 : 0 ≤ i) (h1 : i < l.length) : Go.idx s i st = .ok (l.getD i.toNat 0) st := by
  have hi : i.toNat < l.length := by omega
  have e : (cells st s.arr)[s.off + i.toNat]? = some (l.getD i.toNat 0) := by
    have : l[i.toNat]? = some (l.getD i.toNat 0) := by
      simp [List.getD_eq_getElem?_getD, List.getElem?_eq_getElem hi]
    rw [← this, ← hv]
    simp only [view, List.getElem?_take, List.getElem?_drop]
    rw [if_pos (by omega)]
  simp only [Go.idx, e]
  rw [if_pos ⟨h0, by omega⟩]

theorem FileRel.read {st : St} {F : FactsProg.File} {f : Text.File} (rel : FileRel st F f) (cur : Nat)
    (hc : cur < f.data.length) (i : Int) (hi : i = cur) :
    Go.idx F.data i st = .ok ((f.data.getD cur 0 : Nat) : Int) st := by
  subst hi
  rw [idx_view st F.data _ rel.data (by simp [rel.dlen]) _ (by omega) (by simp; omega)]
  congr 1
  simp [List.getD_eq_getElem?_getD, List.getElem?_map, List.getElem?_eq_getElem hc]

theorem drop_cons_getD (l : List Nat) (n : Nat) (hn : n < l.length) : l.drop n = l.getD n 0 :: l.drop (n + 1) := by
  have e : l.getD n 0 = l[n] := by simp [List.getD_eq_getElem?_getD, hn]
  rw [e]; exact List.drop_eq_getElem_cons hn

/-- nothing the translator was asked for in text/reader.go and text/file.go is missing -/
def textFunctions : List String :=
  ["File_setLines", "File_Len", "File_SetOffset", "File_Pos", "File_Position", "Reader_Remaining", "Reader_IsEOF",
   "Reader_Pos", "Reader_SkipWhitespaces"]

theorem tie_text_translated : textFunctions.all (fun f => FactsProg.translatedProg.contains f) = true := by decide

/-! ### Remaining, IsEOF, Pos -/

theorem tie_Remaining (st : St) (F : FactsProg.File) (f : Text.File) (rel : FileRel st F f) (p : Nat)
    (h1 : f.offset ≤ p) (h2 : p - f.offset ≤ f.len) :
    Reader_Remaining ⟨F⟩ p st = .ok ((Text.remaining f p : Nat) : Int) st := by
  simp only [Reader_Remaining, pure_apply, rel.len, rel.off, Text.remaining, Text.File.len] at h2 ⊢
  congr 1
  omega

theorem tie_IsEOF (st : St) (F : FactsProg.File) (f : Text.File) (rel : FileRel st F f) (p : Nat) (h1 : f.offset ≤ p) :
    Reader_IsEOF ⟨F⟩ p st = .ok (Text.isEOF f p) st := by
  simp only [Reader_IsEOF, pure_apply, rel.len, rel.off, Text.isEOF, Text.File.len]
  congr 1
  rw [Bool.eq_iff_iff]
  simp only [decide_eq_true_eq, ge_iff_le]
  constructor <;> intro h <;> omega

theorem tie_Pos (st : St) (F : FactsProg.File) (f : Text.File) (rel : FileRel st F f) (cur : Nat) :
    Reader_Pos ⟨F⟩ cur st = .ok ((f.pos cur : Nat) : Int) st ∧ File_Pos F cur st = .ok ((f.pos cur : Nat) : Int) st := by
  simp only [Reader_Pos, File_Pos, bind_apply, pure_apply, rel.off, Text.File.pos]
  constructor <;> rfl

/-! ### SkipWhitespaces -/

/-- decides the generated conditions from the facts in the context and evaluates the reads of the file's bytes -/
macro "go_decide_text" "[" ls:Lean.Parser.Tactic.simpLemma,* "]" : tactic => `(tactic|
  simp (disch := first | omega | assumption) only [dec_true, dec_false, ite_pos', ite_neg',
    Bool.true_or, Bool.false_or, Bool.or_true, Bool.or_false, Bool.true_and, Bool.false_and, Bool.and_true, Bool.and_false,
    Bool.not_true, Bool.not_false, Bool.false_eq_true, eq_self, if_true, if_false, Int.toNat_natCast,
    ite_apply, bind_apply, pure_apply, $ls,*])

/-- the scanning loop: from any cursor, with any sufficient fuel, the translated loop returns what the model's
    `skipLoop` returns on the rest of the file -/
theorem skip_loop_tie (st : St) (F : FactsProg.File) (f : Text.File) (rel : FileRel st F f) :
    ∀ (fuel cur nl : Nat) (ci ni : Int), ci = cur → ni = nl → f.data.length - cur < fuel →
      Reader_SkipWhitespaces_loop1 ⟨F⟩ fuel ci ni st =
        .ok (((Text.skipLoop f (f.data.drop cur) cur nl).1 : Int), ((Text.skipLoop f (f.data.drop cur) cur nl).2 : Int)) st := by
  intro fuel
  induction fuel with
  | zero => intro cur nl ci ni _ _ hf; omega
  | succ fuel ih =>
    intro cur nl ci ni e1 e2 hf
    subst e1 e2
    rw [Reader_SkipWhitespaces_loop1]
    simp only [ite_apply, bind_apply, pure_apply, File_Pos]
    rcases Nat.lt_or_ge cur f.data.length with c | c
    · have hlen : (cur : Int) < F.len := by rw [rel.len]; omega
      obtain ⟨b, hb⟩ : ∃ b, f.data.getD cur 0 = b := ⟨_, rfl⟩
      have hread : Go.idx F.data (cur : Int) st = .ok ((b : Nat) : Int) st := by rw [← hb]; exact rel.read cur c _ rfl
      rw [drop_cons_getD _ _ c, hb]
      simp only [Text.skipLoop]
      have hcase : b = 32 ∨ b = 9 ∨ b = 10 ∨ b = 12 ∨ (b ≠ 32 ∧ b ≠ 9 ∧ b ≠ 10 ∧ b ≠ 12) := by omega
      have hoff := rel.off
      rcases hcase with hcase | hcase | hcase | hcase | hcase
      · -- ' '
        subst hcase
        have i1 : Text.isWs 32 = true := by decide
        have i2 : Text.isBreak 32 = false := by decide
        go_decide_text [hread]
        try simp only [i1, i2, if_true, Bool.false_eq_true, false_and, if_false]
        exact ih (cur + 1) nl _ _ (by omega) rfl (by omega)
      · -- '\t'
        subst hcase
        have i1 : Text.isWs 9 = true := by decide
        have i2 : Text.isBreak 9 = false := by decide
        go_decide_text [hread]
        try simp only [i1, i2, if_true, Bool.false_eq_true, false_and, if_false]
        exact ih (cur + 1) nl _ _ (by omega) rfl (by omega)
      · -- '\n'
        subst hcase
        have i1 : Text.isWs 10 = true := by decide
        have i2 : Text.isBreak 10 = true := by decide
        by_cases hnl : nl = 0
        · go_decide_text [hread]
          try simp only [i1, i2, hnl, if_true, and_self]
          exact ih (cur + 1) (f.pos cur) _ _ (by omega) (by simp only [Text.File.pos]; omega) (by omega)
        · go_decide_text [hread]
          try simp only [i1, i2, hnl, if_true, and_false, if_false]
          exact ih (cur + 1) nl _ _ (by omega) rfl (by omega)
      · -- '\f'
        subst hcase
        have i1 : Text.isWs 12 = true := by decide
        have i2 : Text.isBreak 12 = true := by decide
        by_cases hnl : nl = 0
        · go_decide_text [hread]
          try simp only [i1, i2, hnl, if_true, and_self]
          exact ih (cur + 1) (f.pos cur) _ _ (by omega) (by simp only [Text.File.pos]; omega) (by omega)
        · go_decide_text [hread]
          try simp only [i1, i2, hnl, if_true, and_false, if_false]
          exact ih (cur + 1) nl _ _ (by omega) rfl (by omega)
      · -- any other byte ends the run
        have i1 : Text.isWs b = false := by
          have e1 : (b == 32) = false := by simpa using hcase.1
          have e2 : (b == 9) = false := by simpa using hcase.2.1
          have e3 : (b == 10) = false := by simpa using hcase.2.2.1
          have e4 : (b == 12) = false := by simpa using hcase.2.2.2
          simp [Text.isWs, Facts.wsBytes, List.contains, List.elem, e1, e2, e3, e4]
        go_decide_text [hread]
        try simp only [i1, Bool.false_eq_true, if_false]
    · -- at the end of the file
      have hlen : ¬ (cur : Int) < F.len := by rw [rel.len]; omega
      go_decide_text []
      rw [List.drop_of_length_le c]
      rfl

/-- the Go constants WsNone … WsSpacesForceNl (as go/types evaluates them) -/
def modeCode : Text.WsMode → Int
  | .none => 0
  | .spaces => 1
  | .spacesNl => 2
  | .forceNl => 3

/-- the package-level error values of text/reader.go, by name -/
def errName : Text.WsErr → String
  | .noneErr => "text.wsNoneErr"
  | .forceNlErr => "text.wsSpacesForceNlErr"
  | .spacesErr => "text.wsSpacesErr"

/-- the model's error (position, kind) as the opaque interface value the translation builds:
    `parsley.NewError(pos, <package-level error>)`, or nil -/
def errObj : Option (Nat × Text.WsErr) → Obj
  | none => .nil
  | some (q, e) => .mk "parsley.NewError" [(q : Int)] [] [.named (errName e)]

theorem tie_SkipWhitespaces (st : St) (F : FactsProg.File) (f : Text.File) (rel : FileRel st F f) (p : Nat)
    (h1 : f.offset ≤ p) (mode : Text.WsMode) :
    Reader_SkipWhitespaces ⟨F⟩ p (modeCode mode) st =
      .ok (((Text.skipWhitespaces f p mode).1 : Int), errObj (Text.skipWhitespaces f p mode).2) st := by
  have hoff := rel.off
  have hlen := rel.len
  simp only [Reader_SkipWhitespaces, Text.skipWhitespaces]
  simp only [ite_apply, bind_apply, pure_apply, File_Pos]
  rw [skip_loop_tie st F f rel _ (p - f.offset) 0 ((p : Int) - F.offset) 0 (by omega) (by simp) (by omega)]
  generalize Text.skipLoop f (f.data.drop (p - f.offset)) (p - f.offset) 0 = res
  obtain ⟨cur, nl⟩ := res
  simp only [Text.File.pos]
  generalize hm : modeCode mode = m
  cases mode
  · have hm' : m = 0 := by simpa [modeCode] using hm.symm
    by_cases c : cur > p - f.offset
    · go_decide_text []
      simp [errObj, errName, hoff, c]
    · go_decide_text []
      simp [errObj, hoff, c]
  · have hm' : m = 1 := by simpa [modeCode] using hm.symm
    by_cases c : nl > 0
    · go_decide_text []
      simp [errObj, errName, hoff, c]
    · go_decide_text []
      simp [errObj, hoff, c]
  · have hm' : m = 2 := by simpa [modeCode] using hm.symm
    go_decide_text []
    simp [errObj, hoff]
  · have hm' : m = 3 := by simpa [modeCode] using hm.symm
    by_cases c : nl = 0
    · go_decide_text []
      simp [errObj, errName, hoff, c]
    · go_decide_text []
      simp [errObj, hoff, c]

/-! ### sort.Search: the assumed meaning (a left-to-right scan for the least index) against the model's transcribed
    binary search, for a monotone predicate -/

/-- the scan the prelude's `searchFrom` performs, for a pure predicate -/
def scan (P : Nat → Bool) : Nat → Nat → Nat
  | 0, i => i
  | k + 1, i => if P i then i else scan P k (i + 1)

theorem searchFrom_scan (st : St) (f : Int → M Bool) (P : Nat → Bool) :
    ∀ (k i : Nat), (∀ j, i ≤ j → j < i + k → f (j : Int) st = .ok (P j) st) →
      searchFrom f k (i : Int) st = .ok ((scan P k i : Nat) : Int) st := by
  intro k
  induction k with
  | zero => intro i _; rfl
  | succ k ih =>
    intro i hf
    rw [searchFrom, scan]
    simp only [bind_apply, hf i (Nat.le_refl _) (by omega)]
    cases hP : P i with
    | true => simp
    | false =>
      simp only [Bool.false_eq_true, if_false, ite_apply]
      have := ih (i + 1) (fun j h1 h2 => hf j (by omega) (by omega))
      rw [show ((i : Int) + 1) = ((i + 1 : Nat) : Int) by omega]
      exact this

theorem scan_spec (P : Nat → Bool) : ∀ (k i : Nat),
    i ≤ scan P k i ∧ scan P k i ≤ i + k ∧ (∀ j, i ≤ j → j < scan P k i → P j = false) ∧
    (scan P k i < i + k → P (scan P k i) = true) := by
  intro k
  induction k with
  | zero => intro i; simp [scan]; intro j h1 h2; omega
  | succ k ih =>
    intro i
    rw [scan]
    cases hP : P i with
    | true => simp [hP]; intro j h1 h2; omega
    | false =>
      simp only [Bool.false_eq_true, if_false]
      obtain ⟨a1, a2, a3, a4⟩ := ih (i + 1)
      refine ⟨by omega, by omega, ?_, fun h => a4 (by omega)⟩
      intro j h1 h2
      by_cases hj : j = i
      · subst hj; exact hP
      · exact a3 j (by omega) h2

theorem scan_eq_goSearch (P : Nat → Bool) (n : Nat) (mono : ∀ a b, a ≤ b → b < n → P a = true → P b = true) :
    scan P n 0 = goSearch n P := by
  obtain ⟨_, a2, a3, a4⟩ := scan_spec P n 0
  exact (goSearch_unique P n _ mono (by omega) (fun k hk => a3 k (Nat.zero_le _) hk) (fun h => a4 (by omega))).symm

/-- `sort.Search(len(L), func(i) bool { return L[i] > pos })` on a slice that reads as the ascending list `ls` -/
theorem search_gt_tie (st : St) (L : Sl) (ls : List Nat) (hl : L.len = ls.length)
    (srt : ls.Pairwise (· < ·)) (pos : Nat) (f : Int → M Bool)
    (hf : ∀ j, j < ls.length → f (j : Int) st = .ok (decide (ls.getD j 0 > pos)) st) :
    Go.search (Go.len L) f st = .ok ((goSearch ls.length (fun i => decide (ls.getD i 0 > pos)) : Nat) : Int) st := by
  have mono : ∀ a b, a ≤ b → b < ls.length →
      (fun i => decide (ls.getD i 0 > pos)) a = true → (fun i => decide (ls.getD i 0 > pos)) b = true := by
    intro a b hab hb ha
    simp only [decide_eq_true_eq] at ha ⊢
    by_cases e : a = b
    · subst e; exact ha
    · have ha' : a < ls.length := by omega
      have := (List.pairwise_iff_getElem.mp srt) a b ha' hb (by omega)
      simp only [List.getD_eq_getElem?_getD, List.getElem?_eq_getElem ha', List.getElem?_eq_getElem hb, Option.getD_some] at ha ⊢
      omega
  simp only [Go.search, Go.len, hl]
  rw [if_pos (by omega)]
  have := searchFrom_scan st f (fun i => decide (ls.getD i 0 > pos)) ls.length 0 (fun j _ h2 => hf j (by omega))
  simp only [Int.natCast_zero] at this
  rw [Int.toNat_natCast, this, scan_eq_goSearch _ _ mono]

/-! ### setLines -/

theorem FileRel.frame {h h' : Data.Heap} {mh : Data.MHeap} {g : Nat → Nat} {F : FactsProg.File} {f : Text.File}
    (rel : FileRel ⟨h, mh, g⟩ F f) {base : Nat} (fr : Data.Frame base h h') (hd : F.data.arr < base) (L : Sl) :
    FileRel ⟨h', mh, g⟩ { F with lines := L } f := by
  refine ⟨?_, rel.dlen, rel.len, rel.off, rel.name⟩
  have := rel.data
  simp only [view, cells_mk] at this ⊢
  rw [fr.2 _ hd]; exact this

/-- the scanning loop of setLines: from byte `k` on, with the line starts found so far in the slice `L`, it appends the
    model's `linesFrom` of the rest; the file's bytes (below `base`) are never written -/
theorem setLines_loop_tie (h : Data.Heap) (mh : Data.MHeap) (g : Nat → Nat) (F : FactsProg.File) (f : Text.File)
    (rel : FileRel ⟨h, mh, g⟩ F f) (base : Nat) (hd : F.data.arr < base) :
    ∀ (fuel k : Nat) (L : Data.Slice) (hc : Data.Heap), Data.Frame base h hc → Data.SWF hc L → base ≤ L.arr →
      f.data.length - k < fuel →
      ∃ (L' : Data.Slice) (h' : Data.Heap) (kf : Int),
        File_setLines_loop1 F.data fuel { F with lines := sl L } k ⟨hc, mh, g⟩ =
          .ok ({ F with lines := sl L' }, kf) ⟨h', mh, g⟩ ∧
        Data.view h' L' = Data.view hc L ++ (Text.linesFrom (f.data.drop k) k).map Int.ofNat ∧
        Data.SWF h' L' ∧ Data.Frame base h h' ∧ base ≤ L'.arr := by
  intro fuel
  induction fuel with
  | zero => intro k L hc _ _ _ hf; omega
  | succ fuel ih =>
    intro k L hc fr w hb hf
    have relc : FileRel ⟨hc, mh, g⟩ { F with lines := sl L } f := rel.frame fr hd _
    rw [File_setLines_loop1]
    simp only [ite_apply, bind_apply, pure_apply]
    have hdl : Go.len F.data = (f.data.length : Int) := by simp [Go.len, rel.dlen]
    simp only [hdl]
    rcases Nat.lt_or_ge k f.data.length with c | c
    · obtain ⟨b, hb'⟩ : ∃ b, f.data.getD k 0 = b := ⟨_, rfl⟩
      have hread : Go.idx F.data (k : Int) ⟨hc, mh, g⟩ = .ok ((b : Nat) : Int) ⟨hc, mh, g⟩ := by
        rw [← hb']; exact relc.read k c _ rfl
      rw [drop_cons_getD _ _ c, hb']
      simp only [Text.linesFrom]
      by_cases h10 : b = 10
      · go_decide_text [hread]
        obtain ⟨p1, p2, p3, p4, _⟩ := Data.append_spec g hc L ((k : Int) + 1) w base hb
        rw [append_sl]
        simp only []
        obtain ⟨L', h', kf, e, v, w', fr', hb''⟩ := ih (k + 1) _ _ (fr.trans p3) p1 p4 (by omega)
        rw [show ((k : Int) + 1) = ((k + 1 : Nat) : Int) by omega] at e ⊢
        refine ⟨L', h', kf, e, ?_, w', fr', hb''⟩
        rw [v, p2]
        simp
      · go_decide_text [hread]
        obtain ⟨L', h', kf, e, v, w', fr', hb''⟩ := ih (k + 1) L hc fr w hb (by omega)
        rw [show ((k : Int) + 1) = ((k + 1 : Nat) : Int) by omega]
        exact ⟨L', h', kf, e, v, w', fr', hb''⟩
    · go_decide_text []
      refine ⟨L, hc, k, rfl, ?_, w, fr, hb⟩
      rw [List.drop_of_length_le c]
      simp [Text.linesFrom]

/-- **setLines**: the receiver comes back with `lines` reading as the model's `File.lines` (0, then the offset after
    every line feed), in a fresh array; nothing that existed is written. -/
theorem tie_setLines (h : Data.Heap) (mh : Data.MHeap) (g : Nat → Nat) (F : FactsProg.File) (f : Text.File)
    (rel : FileRel ⟨h, mh, g⟩ F f) (hd : F.data.arr < h.length) :
    ∃ (L : Data.Slice) (h' : Data.Heap),
      File_setLines F ⟨h, mh, g⟩ = .ok { F with lines := sl L } ⟨h', mh, g⟩ ∧
      Data.view h' L = f.lines.map Int.ofNat ∧ Data.SWF h' L ∧ Data.Frame h.length h h' := by
  simp only [File_setLines, bind_apply, pure_apply]
  have e0 : Go.litSlice [0] ⟨h, mh, g⟩ = .ok (sl { arr := h.length, len := 1, cap := 1 }) ⟨h ++ [[0]], mh, g⟩ := rfl
  rw [e0]
  simp only []
  have fr0 : Data.Frame h.length h (h ++ [[0]]) := ⟨by simp, fun a ha => Data.cells_append_lt _ _ _ ha⟩
  have w0 : Data.SWF (h ++ [[0]]) { arr := h.length, len := 1, cap := 1 } :=
    ⟨by simp, Nat.le_refl _, by show (Data.cells (h ++ [[0]]) h.length).length = 1; simp [Data.cells_append_eq]⟩
  have hdl : Go.len F.data = (f.data.length : Int) := by simp [Go.len, rel.dlen]
  obtain ⟨L', h', kf, e, v, w', fr', _⟩ := setLines_loop_tie h mh g F f rel h.length hd (f.data.length + 1) 0
    { arr := h.length, len := 1, cap := 1 } (h ++ [[0]]) fr0 w0 (Nat.le_refl _) (by omega)
  simp only [Int.natCast_zero] at e
  simp only [hdl, Int.toNat_natCast, e]
  refine ⟨L', h', rfl, ?_, w', fr'⟩
  rw [v]
  have : Data.view (h ++ [[0]]) { arr := h.length, len := 1, cap := 1 } = [0] := by
    simp [Data.view, Data.cells_append_eq]
  rw [this]
  simp [Text.File.lines]

/-! ### Position -/

/-- the model's answer as the opaque interface value the translation builds -/
def posObj : Text.PosResult → Obj
  | .unknown => .mk "parsley.nilPosition" [0] [] []
  | .at_ name l c => .mk "text.Position" [(l : Int), (c : Int)] [name] []
  | .panic => .nil

/-- the line search and the answer, once `lines` reads as the model's line table -/
theorem position_search_tie (st : St) (F : FactsProg.File) (f : Text.File)
    (hv : view st F.lines = f.lines.map Int.ofNat) (hl : F.lines.len = f.lines.length) (p : Nat) (hp : p ≤ f.len)
    :
    f.position p ≠ .panic ∧
    ∃ (i : Nat) (l : Nat), f.position p = .at_ f.name (i + 1) (p - l + 1) ∧ l ≤ p ∧
      Go.search (Go.len F.lines) (fun (i' : Int) => do let t ← Go.idx F.lines i'; pure (decide (t > (p : Int)))) st =
        .ok ((i : Int) + 1) st ∧
      Go.idx F.lines (i : Int) st = .ok (l : Int) st := by
  have srt := Text.File.lines_pairwise f
  have hlen1 : 1 ≤ f.lines.length := by simp [Text.File.lines]
  have hf : ∀ j, j < f.lines.length →
      (fun (i' : Int) => (do let t ← Go.idx F.lines i'; pure (decide (t > (p : Int))) : M Bool)) (j : Int) st =
        .ok (decide (f.lines.getD j 0 > p)) st := by
    intro j hj
    simp only [bind_apply, pure_apply]
    rw [idx_view st F.lines _ hv (by simp [hl]) _ (by omega) (by simp; omega)]
    simp only [Int.toNat_natCast]
    congr 1
    rw [Bool.eq_iff_iff]
    simp only [decide_eq_true_eq, List.getD_eq_getElem?_getD, List.getElem?_map, List.getElem?_eq_getElem hj,
      Option.map_some, Option.getD_some]
    constructor <;> intro hh <;> (simp only [Int.ofNat_eq_natCast] at *; omega)
  have hs := search_gt_tie st F.lines f.lines hl srt p
    (fun (i' : Int) => do let t ← Go.idx F.lines i'; pure (decide (t > (p : Int)))) hf
  have mono : ∀ a b, a ≤ b → b < f.lines.length →
      (fun i => decide (f.lines.getD i 0 > p)) a = true → (fun i => decide (f.lines.getD i 0 > p)) b = true := by
    intro a b hab hb ha
    simp only [decide_eq_true_eq] at ha ⊢
    by_cases e : a = b
    · subst e; exact ha
    · have ha' : a < f.lines.length := by omega
      have := (List.pairwise_iff_getElem.mp srt) a b ha' hb (by omega)
      simp only [List.getD_eq_getElem?_getD, List.getElem?_eq_getElem ha', List.getElem?_eq_getElem hb, Option.getD_some] at ha ⊢
      omega
  obtain ⟨s1, s2, s3⟩ := goSearch_spec _ f.lines.length mono
  generalize hsv : goSearch f.lines.length (fun i => decide (f.lines.getD i 0 > p)) = s at hs s1 s2 s3
  have hs0 : s ≠ 0 := by
    intro e0
    subst e0
    have := s3 (by omega)
    simp [Text.File.lines] at this
  obtain ⟨i, rfl⟩ : ∃ i, s = i + 1 := ⟨s - 1, by omega⟩
  have hi : i < f.lines.length := by omega
  have hle : f.lines.getD i 0 ≤ p := by
    have := s2 i (by omega)
    simp only [decide_eq_false_iff_not] at this
    omega
  have hpos : f.position p = .at_ f.name (i + 1) (p - f.lines.getD i 0 + 1) := by
    simp only [Text.File.position, hsv]
    rw [if_neg (by omega), if_neg (by omega)]
    simp only [Nat.add_sub_cancel, List.getElem?_eq_getElem hi, List.getD_eq_getElem?_getD, Option.getD_some]
  have hne : f.position p ≠ .panic := by rw [hpos]; intro hh; cases hh
  refine ⟨hne, i, f.lines.getD i 0, hpos, hle, ?_, ?_⟩
  · rw [hs]; rfl
  · rw [idx_view st F.lines _ hv (by simp [hl]) _ (by omega) (by simp; omega)]
    simp only [Int.toNat_natCast]
    congr 1
    simp [List.getD_eq_getElem?_getD, List.getElem?_map, List.getElem?_eq_getElem hi]

/-- the cache of line starts is either absent (nil, as NewFile leaves it) or reads as the model's line table -/
def LinesInv (st : St) (F : FactsProg.File) (f : Text.File) : Prop :=
  F.lines.isNil = true ∨
  (F.lines.isNil = false ∧ view st F.lines = f.lines.map Int.ofNat ∧ F.lines.len = f.lines.length)

/-- **Position**: the translated function answers what the model answers (never a panic on the model's side either),
    fills the line cache on first use, keeps the relation to the model file and writes to nothing that existed. -/
theorem tie_Position (h : Data.Heap) (mh : Data.MHeap) (g : Nat → Nat) (F : FactsProg.File) (f : Text.File)
    (rel : FileRel ⟨h, mh, g⟩ F f) (hd : F.data.arr < h.length) (inv : LinesInv ⟨h, mh, g⟩ F f) (p : Nat) :
    f.position p ≠ .panic ∧
    ∃ (F' : FactsProg.File) (h' : Data.Heap),
      File_Position F p ⟨h, mh, g⟩ = .ok (F', posObj (f.position p)) ⟨h', mh, g⟩ ∧
      FileRel ⟨h', mh, g⟩ F' f ∧ LinesInv ⟨h', mh, g⟩ F' f ∧ Data.Frame h.length h h' := by
  have hlen := rel.len
  by_cases hp : p > f.len
  · have e : f.position p = .unknown := by simp [Text.File.position, hp]
    have hne : f.position p ≠ .panic := by rw [e]; intro hh; cases hh
    refine ⟨hne, F, h, ?_, rel, inv, Data.Frame.refl _ _⟩
    have hp' : (p : Int) > F.len := by rw [hlen]; simp only [Text.File.len] at hp; omega
    rw [e]
    simp only [File_Position]
    simp only [ite_apply, bind_apply, pure_apply]
    go_decide_text []
    rfl
  · have hp' : ¬ (p : Int) > F.len := by rw [hlen]; simp only [Text.File.len] at hp; omega
    have hple : p ≤ f.len := by omega
    simp only [File_Position]
    simp only [ite_apply, bind_apply, pure_apply]
    rcases inv with hnil | ⟨hnn, hv, hl⟩
    · -- first use: setLines, then the search in the fresh table
      obtain ⟨L, h', e, v, w, fr⟩ := tie_setLines h mh g F f rel hd
      have rel' : FileRel ⟨h', mh, g⟩ { F with lines := sl L } f := rel.frame fr hd _
      have hv' : view ⟨h', mh, g⟩ ({ F with lines := sl L } : FactsProg.File).lines = f.lines.map Int.ofNat := by
        simp only [view_sl]; exact v
      have hl' : ({ F with lines := sl L } : FactsProg.File).lines.len = f.lines.length := by
        have := view_length w; rw [v] at this; simp at this; simp [this]
      obtain ⟨hne, i, l, hpos, hle, hs, hi⟩ := position_search_tie ⟨h', mh, g⟩ _ f hv' hl' p hple
      refine ⟨hne, { F with lines := sl L }, h', ?_, rel', Or.inr ⟨rfl, hv', hl'⟩, fr⟩
      go_decide_text [hnil, e, hs]
      have e1 : ((i : Int) + 1 - 1) = i := by omega
      have a1 : ((i : Int) + 1) = ((i + 1 : Nat) : Int) := by omega
      have a2 : ((p : Int) - l + 1) = ((p - l + 1 : Nat) : Int) := by omega
      simp only [e1, hi, hpos, posObj]
      simp only [a1, a2, rel.name]
    · obtain ⟨hne, i, l, hpos, hle, hs, hi⟩ := position_search_tie ⟨h, mh, g⟩ F f hv hl p hple
      refine ⟨hne, F, h, ?_, rel, Or.inr ⟨hnn, hv, hl⟩, Data.Frame.refl _ _⟩
      go_decide_text [hnn, hs]
      have e1 : ((i : Int) + 1 - 1) = i := by omega
      have a1 : ((i : Int) + 1) = ((i + 1 : Nat) : Int) := by omega
      have a2 : ((p : Int) - l + 1) = ((p - l + 1 : Nat) : Int) := by omega
      simp only [e1, hi, hpos, posObj]
      simp only [a1, a2, rel.name]

end PV.ProgTie
