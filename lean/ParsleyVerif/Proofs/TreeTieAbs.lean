/-
  Reading a heap as a model tree (`PV.Walk.T`): the abstraction `absT`, its frame property, the post-order of the abstract
  tree; the translated Walk against the model's `walk`.
-/
import ParsleyVerif.Proofs.TreeTieWalk
import ParsleyVerif.Proofs.Walk
namespace PV.TreeTie
open PV.CorePrelude hiding Node World
open PV.TreePrelude PV.FactsTree
open PV.Walk (T ICap Checker Transformer walk walkList check checkList transform transformList postorder postorderAll takeThrough)

/-- how node values, interpreters and schemas are named in the model: `key` gives every node value its id,
    `icode` every interpreter value its number (nil: none) -/
structure Enc where
  key : TN → Nat
  icode : TInterp → Option Nat

/-- a schema value of the model as an `interface{}` value, and back -/
def encS : Option Nat → TValue
  | none => .nil
  | some k => .other 0 [(k : Int)]

def decS : TValue → Option Nat
  | .other 0 [k] => some k.toNat
  | _ => none

@[simp] theorem decS_encS (x : Option Nat) : decS (encS x) = x := by
  cases x <;> simp [encS, decS]

/-- an error code of the model as a `parsley.Error` -/
def encErr (e : Nat) : TErr := .mk 0 (.other e [])

def encErrO : Option Nat → TErr
  | none => PV.CorePrelude.Err.nil
  | some e => encErr e

@[simp] theorem encErr_isNil (e : Nat) : (encErr e).isNil = false := rfl

mutual
/-- the model tree a heap shows below a skeleton -/
def absT (E : Enc) (h : Heap) : Sk → T
  | .leaf n => .leaf (E.key n)
  | .nt a kids =>
    match h a with
    | some c => .nt (E.key (.ref a)) (E.icode c.interpreter) (decS c.schema) (absL E h kids)
    | none => .nt (E.key (.ref a)) none none (absL E h kids)
  | .list items => .list (E.key (.list (nodes items))) (absL E h items)
def absL (E : Enc) (h : Heap) : List Sk → List T
  | [] => []
  | k :: r => absT E h k :: absL E h r
end

mutual
theorem abs_agree (E : Enc) {h h' : Heap} : ∀ sk, Agree h h' sk.addrs → absT E h' sk = absT E h sk
  | .leaf _, _ => rfl
  | .nt a kids, ha => by
    have hk := absL_agree E kids (ha.mono (by simp [Sk.addrs]; intro x hx; exact .inr hx))
    simp only [absT, ha a (by simp [Sk.addrs]), hk]
  | .list items, ha => by
    simp only [absT, absL_agree E items (ha.mono (by simp [Sk.addrs]))]
theorem absL_agree (E : Enc) {h h' : Heap} : ∀ l, Agree h h' (addrsL l) → absL E h' l = absL E h l
  | [], _ => rfl
  | k :: r, ha => by
    simp only [absL, abs_agree E k (ha.mono (by simp [addrsL]; intro x hx; exact .inl hx)),
      absL_agree E r (ha.mono (by simp [addrsL]; intro x hx; exact .inr hx))]
end

mutual
/-- the ids of the abstract tree in post-order are the keys of the skeleton's nodes in post-order -/
theorem postorder_abs (E : Enc) (h : Heap) : ∀ sk, postorder (absT E h sk) = sk.post.map E.key
  | .leaf n => by simp [absT, postorder, Sk.post]
  | .nt a kids => by
    cases hh : h a <;> simp [absT, hh, postorder, Sk.post, postorderAll_abs E h kids]
  | .list [] => by simp [absT, absL, postorder, Sk.post, nodes]
  | .list (first :: rest) => by
    simp [absT, absL, postorder, Sk.post, postorder_abs E h first, nodes]
theorem postorderAll_abs (E : Enc) (h : Heap) : ∀ l, postorderAll (absL E h l) = (postL l).map E.key
  | [] => rfl
  | k :: r => by simp [absL, postorderAll, postL, postorder_abs E h k, postorderAll_abs E h r]
end

/-! ### Walk against the model -/

/-- the call-back of the model: it records the id of the node in `ext` and answers `stop id` -/
def logStop (key : TN → Nat) (stop : Nat → Bool) : TN → TM Bool :=
  fun n s => .ok (stop (key n)) { s with ext := s.ext ++ [(key n : Int)] }

theorem logStop_kidStable (key : TN → Nat) (stop : Nat → Bool) : KidStable (logStop key stop) := by
  intro n s b s' h
  simp only [logStop] at h
  injection h with _ h2
  subst h2
  exact SameKids.refl _

theorem takeThrough_map {α β} (g : α → β) (p : β → Bool) (l : List α) :
    (takeThrough (fun a => p (g a)) l).map g = takeThrough p (l.map g) := by
  induction l with
  | nil => rfl
  | cons a l ih => by_cases h : p (g a) <;> simp [takeThrough, h, ih]

theorem logStop_apply (key : TN → Nat) (stop : Nat → Bool) (n : TN) (s : TSt) :
    logStop key stop n s = .ok (stop (key n)) { s with ext := s.ext ++ [(key n : Int)] } := rfl

theorem visit_logStop (key : TN → Nat) (stop : Nat → Bool) (l : List TN) (s : TSt) :
    visit (logStop key stop) l s =
      .ok ((l.map key).any stop) { s with ext := s.ext ++ (takeThrough stop (l.map key)).map Int.ofNat } := by
  induction l generalizing s with
  | nil => simp [visit, takeThrough]
  | cons n r ih =>
    simp only [visit, bind_apply, logStop_apply]
    cases hst : stop (key n)
    · simp only [Bool.false_eq_true, ↓reduceIte, ih]
      simp [takeThrough, hst, List.append_assoc]
    · simp [takeThrough, hst]

/-- **parsley.Walk, translated, is the model's `walk`**: on every shape, for every stop predicate — the result, and the
    sequence of the call-back's calls (recorded in `ext`) -/
theorem tie_Walk (W : TW) (E : Enc) (stop : Nat → Bool) (sk : Sk) (fuel : Nat) (s : TSt)
    (hs : Shaped s.heap sk) (hfu : sk.fuel ≤ fuel) :
    Walk W fuel sk.node (logStop E.key stop) s =
      .ok (walk stop (absT E s.heap sk)).2
        { s with ext := s.ext ++ (walk stop (absT E s.heap sk)).1.map Int.ofNat } := by
  rw [walk_visit W _ (logStop_kidStable _ _) sk fuel s hs hfu, visit_logStop, PV.Walk.walk_spec, postorder_abs]

end PV.TreeTie
