/-
  unicode/utf8, the other direction of `decode_encode`: whatever `decodeRune` accepts is the encoding of
  the rune it returns (so a decoded rune is re-encoded to exactly the bytes that were read), and the
  only other answer is (RuneError, 1).
-/
import ParsleyVerif.Proofs.Utf8
namespace PV.Utf8

theorem isCont_iff (b : Nat) : isCont b = true ↔ 0x80 ≤ b ∧ b ≤ 0xBF := by
  unfold isCont; simp

theorem encodeRune_length_le (c : Nat) : 1 ≤ (encodeRune c).length ∧ (encodeRune c).length ≤ 4 ∧
    (c < 0x80 → (encodeRune c).length = 1) ∧ (c < 0x800 → (encodeRune c).length ≤ 2) ∧
    (c < 0x10000 → (encodeRune c).length ≤ 3) := by
  unfold encodeRune
  by_cases c1 : c < 0x80
  · rw [if_pos c1]; simp
  · rw [if_neg c1]
    by_cases c2 : c < 0x800
    · rw [if_pos c2]; simp; omega
    · rw [if_neg c2]
      split
      · simp; omega
      · split
        · simp; omega
        · rename_i h; simp; omega

/-- the answers of `decodeRune` on a non-empty input -/
inductive Decoded (l : List Nat) : Prop
  | invalid (h : decodeRune l = (runeError, 1))
  | valid (h1 : ValidScalar (decodeRune l).1) (h2 : l.take (decodeRune l).2 = encodeRune (decodeRune l).1)

theorem decoded_ite (l : List Nat) (c : Bool) (r w : Nat) (hd : decodeRune l = if c then (r, w) else (runeError, 1))
    (hv : c = true → ValidScalar r ∧ l.take w = encodeRune r) : Decoded l := by
  cases c with
  | false => exact .invalid (by rw [hd]; rfl)
  | true =>
    have e : decodeRune l = (r, w) := by rw [hd]; rfl
    obtain ⟨h1, h2⟩ := hv rfl
    exact .valid (by rw [e]; exact h1) (by rw [e]; exact h2)

theorem decodeRune_decoded (l : List Nat) (h : l ≠ []) : Decoded l := by
  cases l with
  | nil => exact absurd rfl h
  | cons b0 r =>
    by_cases c1 : b0 < 0x80
    · have e : decodeRune (b0 :: r) = (b0, 1) := by simp [decodeRune, c1]
      refine .valid ?_ ?_
      · rw [e]; unfold ValidScalar; simp only []; omega
      · rw [e]; simp [encodeRune, c1]
    · by_cases c2 : b0 < 0xC2
      · exact .invalid (by simp [decodeRune, c1, c2])
      · by_cases c3 : b0 ≤ 0xDF
        · cases r with
          | nil => exact .invalid (by simp [decodeRune, c1, c2, c3])
          | cons b1 r' =>
            refine decoded_ite _ (isCont b1) ((b0 % 32) * 64 + b1 % 64) 2 ?_ ?_
            · simp only [decodeRune]; rw [if_neg c1, if_neg c2, if_pos c3]
            · intro hc
              rw [isCont_iff] at hc
              refine ⟨by unfold ValidScalar; omega, ?_⟩
              unfold encodeRune
              rw [if_neg (by omega), if_pos (by omega)]
              simp only [List.take_succ_cons, List.take_zero]
              congr 1
              · omega
              · congr 1; omega
        · by_cases c4 : b0 ≤ 0xEF
          · match r with
            | [] => exact .invalid (by simp [decodeRune, c1, c2, c3, c4])
            | [_] => exact .invalid (by simp [decodeRune, c1, c2, c3, c4])
            | b1 :: b2 :: r' =>
              refine decoded_ite _ ((if b0 = 0xE0 then 0xA0 else 0x80) ≤ b1 && b1 ≤ (if b0 = 0xED then 0x9F else 0xBF) && isCont b2)
                ((b0 % 16) * 4096 + (b1 % 64) * 64 + b2 % 64) 3 ?_ ?_
              · simp only [decodeRune]; rw [if_neg c1, if_neg c2, if_neg c3, if_pos c4]
              · intro hc
                simp only [Bool.and_eq_true, decide_eq_true_eq, isCont_iff] at hc
                obtain ⟨⟨hlo, hhi⟩, hc2⟩ := hc
                have hlo' : 0x80 ≤ b1 ∧ (b0 = 0xE0 → 0xA0 ≤ b1) := by split at hlo <;> omega
                have hhi' : b1 ≤ 0xBF ∧ (b0 = 0xED → b1 ≤ 0x9F) := by split at hhi <;> omega
                have hvs : ValidScalar ((b0 % 16) * 4096 + (b1 % 64) * 64 + b2 % 64) := by
                  unfold ValidScalar; omega
                refine ⟨hvs, ?_⟩
                unfold encodeRune
                rw [if_neg (by omega), if_neg (by omega)]
                rw [validRune_of _ hvs]
                simp only [Bool.not_true, Bool.false_eq_true, if_false]
                rw [if_pos (by omega)]
                simp only [List.take_succ_cons, List.take_zero]
                congr 1
                · omega
                · congr 1
                  · omega
                  · congr 1; omega
          · by_cases c5 : b0 ≤ 0xF4
            · match r with
              | [] => exact .invalid (by simp [decodeRune, c1, c2, c3, c4, c5])
              | [_] => exact .invalid (by simp [decodeRune, c1, c2, c3, c4, c5])
              | [_, _] => exact .invalid (by simp [decodeRune, c1, c2, c3, c4, c5])
              | b1 :: b2 :: b3 :: r' =>
                refine decoded_ite _ ((if b0 = 0xF0 then 0x90 else 0x80) ≤ b1 && b1 ≤ (if b0 = 0xF4 then 0x8F else 0xBF) && isCont b2 && isCont b3)
                  ((b0 % 8) * 262144 + (b1 % 64) * 4096 + (b2 % 64) * 64 + b3 % 64) 4 ?_ ?_
                · simp only [decodeRune]; rw [if_neg c1, if_neg c2, if_neg c3, if_neg c4, if_pos c5]
                · intro hc
                  simp only [Bool.and_eq_true, decide_eq_true_eq, isCont_iff] at hc
                  obtain ⟨⟨⟨hlo, hhi⟩, hc2⟩, hc3⟩ := hc
                  have hlo' : 0x80 ≤ b1 ∧ (b0 = 0xF0 → 0x90 ≤ b1) := by split at hlo <;> omega
                  have hhi' : b1 ≤ 0xBF ∧ (b0 = 0xF4 → b1 ≤ 0x8F) := by split at hhi <;> omega
                  have hvs : ValidScalar ((b0 % 8) * 262144 + (b1 % 64) * 4096 + (b2 % 64) * 64 + b3 % 64) := by
                    unfold ValidScalar; omega
                  refine ⟨hvs, ?_⟩
                  unfold encodeRune
                  rw [if_neg (by omega), if_neg (by omega)]
                  rw [validRune_of _ hvs]
                  simp only [Bool.not_true, Bool.false_eq_true, if_false]
                  rw [if_neg (by omega)]
                  simp only [List.take_succ_cons, List.take_zero]
                  congr 1
                  · omega
                  · congr 1
                    · omega
                    · congr 1
                      · omega
                      · congr 1; omega
            · exact .invalid (by simp [decodeRune, c1, c2, c3, c4, c5])

/-- a decoded rune needs no more bytes than were read, unless it is the (RuneError, 1) answer -/
theorem decodeRune_encode_le (l : List Nat) (h : l ≠ []) :
    decodeRune l = (runeError, 1) ∨ (encodeRune (decodeRune l).1).length = (decodeRune l).2 := by
  cases decodeRune_decoded l h with
  | invalid h => exact Or.inl h
  | valid h1 h2 =>
    right
    rw [← h2, List.length_take]
    have := (decodeRune_width l h).2
    omega

end PV.Utf8
