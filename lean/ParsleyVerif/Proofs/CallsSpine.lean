/-
  C17, part 7: steps shared by the left-recursive families whose closed forms are proved in CallsHidden.lean,
  CallsMutual.lean and CallsPbPc.lean — for ANY configuration whose file sits at base offset 1.

  `tail_alts`: the loop of `(*sequence).parse` over the alternatives `l` that the (left-)recursive element of
  a sequence `… P 'c'` returned, `'c'` being the last element: one call per alternative; the alternatives that
  are followed by the character `c` in the input emit a node, the others nothing.  The cache is not touched.
-/
import ParsleyVerif.Proofs.CallsFam
import ParsleyVerif.Proofs.CallsOther
namespace PV.C17b
open PV.Text PV.C17

variable {cfg : Cfg}

/-- the byte at (1-based) position `p` of the input is `ch` -/
def fol (data : Bytes) (ch : Nat) (p : Nat) : Bool := data[p - 1]? == some ch

/-- the terminal node of the rune `ch` read at position `p` -/
def runeNode (ch p : Nat) : Node := .term (Utf8.encodeRune ch) (.rune ch) p (p + 1)

/-- the node the sequence builds from the nodes `pre` of its first elements, the node `x` of the recursive
    element and the character `ch` after it -/
def extN (sh : SeqShape) (pre : List Node) (ch : Nat) (x : Node) : Node :=
  handleResult sh (x.rpos + 1) (pre ++ [x] ++ [runeNode ch x.rpos])

def extAllG (sh : SeqShape) (pre : List Node) (ch : Nat) (data : Bytes) (l : List Node) : List Node :=
  (l.filter (fun x => fol data ch x.rpos)).map (extN sh pre ch)

theorem handleResult_two (sh : SeqShape) (pos : Nat) : ∀ (l : List Node), 2 ≤ l.length →
    notEmptyNode (handleResult sh pos l)
  | [], h => by simp at h
  | [_], h => by simp at h
  | _ :: _ :: _, _ => trivial

theorem extN_notEmpty (sh : SeqShape) (pre : List Node) (ch : Nat) (x : Node) : notEmptyNode (extN sh pre ch x) :=
  handleResult_two sh _ _ (by simp)

theorem extN_rpos (sh : SeqShape) (hs : sh.single = false) (pre : List Node) (ch : Nat) (x : Node) :
    (extN sh pre ch x).rpos = x.rpos + 1 := by
  rw [extN, handleResult_rpos sh hs _ _ (runeNode ch x.rpos) (by simp)]
  rfl

theorem extAllG_rpos (sh : SeqShape) (hs : sh.single = false) (pre : List Node) (ch : Nat) (data : Bytes) (l : List Node) :
    (extAllG sh pre ch data l).map Node.rpos = ((l.map Node.rpos).filter (fol data ch)).map (· + 1) := by
  induction l with
  | nil => rfl
  | cons x l ih =>
    simp only [extAllG, List.filter_cons, List.map_cons] at ih ⊢
    by_cases h : fol data ch x.rpos = true
    · simp only [h, ↓reduceIte, List.map_cons, extN_rpos sh hs, ih]
    · simp only [h, Bool.false_eq_true, ↓reduceIte, ih]

theorem extAllG_length_le (sh : SeqShape) (pre : List Node) (ch : Nat) (data : Bytes) (l : List Node) :
    (extAllG sh pre ch data l).length ≤ l.length := by
  simp only [extAllG, List.length_map]
  exact List.length_filter_le _ _

theorem pickErr_none_left (e : Option Err) : pickErr none e = e := by
  cases e <;> rfl

theorem readRune_fol_true (hoff : cfg.file.offset = 1) (ch p : Nat) (hp : 1 ≤ p) (hch : ch < 128)
    (h : fol cfg.file.data ch p = true) : readRune cfg.file p ch = some (p + 1, true) :=
  readRune_hit cfg.file hoff p ch hp hch (by simpa [fol] using h)

theorem readRune_fol_false (hoff : cfg.file.offset = 1) (ch p : Nat) (hp : 1 ≤ p) (hch : ch < 128)
    (h : fol cfg.file.data ch p = false) : readRune cfg.file p ch = some (p, false) := by
  cases hd : cfg.file.data[p - 1]? with
  | none =>
    exact readRune_end cfg.file hoff p ch hp (List.getElem?_eq_none_iff.mp hd)
  | some b =>
    refine readRune_miss cfg.file hoff p ch b hp hch hd ?_
    intro hb
    subst hb
    simp [fol, hd] at h

/-- the last element `'c'` after an alternative of the recursive element that `c` follows: one call, one node -/
theorem tail_ok (h0 : cfg.maxCalls = 0) (hoff : cfg.file.offset = 1) (sh : SeqShape) (d0 ch : Nat) (nm : Bytes)
    (hch : ch < 128) (hl : sh.lookup (d0 + 1) = some (.term (.rune ch nm))) (hl2 : sh.lookup (d0 + 2) = none)
    (hlc2 : sh.lenCheck (d0 + 2) = true) (htok : (Utf8.encodeRune ch == eofTok) = false)
    (fr f : Nat) (pre : List Node) (x : Node) (hx : 1 ≤ x.rpos) (hf : fol cfg.file.data ch x.rpos = true)
    (ss : SeqSt) (st : St) :
    seqParse (run cfg (fr + 1)) sh (f + 2) (d0 + 1) (pre ++ [x]) [] x.rpos false ss st =
      some (false, { ss with result := appendNode ss.result (.one (extN sh pre ch x)) }, st.regCall) := by
  have hr := readRune_fol_true hoff ch x.rpos hx hch hf
  rw [seqParse]
  simp only [hl, run_rune_ok h0 fr ch nm [] x.rpos (x.rpos + 1) st.regCall hr, pickErr_none, Bool.false_eq_true,
    ↓reduceIte, Res.alts, seqAlts]
  rw [seqParse]
  simp only [hl2, hlc2, pickErr_none, ↓reduceIte]
  have hlast : (pre ++ [x] ++ [Node.term (Utf8.encodeRune ch) (Val.rune ch) x.rpos (x.rpos + 1)]).getLast? =
      some (Node.term (Utf8.encodeRune ch) (Val.rune ch) x.rpos (x.rpos + 1)) := by simp
  have hd : d0 + 1 + 1 > 0 := by omega
  rw [if_pos hd, hlast]
  simp only [Bool.false_and, Bool.false_eq_true, ↓reduceIte, Node.token, htok]
  rfl

/-- … after an alternative that `c` does not follow: one call, nothing emitted -/
theorem tail_fail (h0 : cfg.maxCalls = 0) (hoff : cfg.file.offset = 1) (sh : SeqShape) (d0 ch : Nat) (nm : Bytes)
    (hch : ch < 128) (hl : sh.lookup (d0 + 1) = some (.term (.rune ch nm)))
    (hlc1 : sh.lenCheck (d0 + 1) = false)
    (fr f : Nat) (pre : List Node) (x : Node) (hx : 1 ≤ x.rpos) (hf : fol cfg.file.data ch x.rpos = false)
    (ss : SeqSt) (st : St) :
    ∃ ss' st', seqParse (run cfg (fr + 1)) sh (f + 1) (d0 + 1) (pre ++ [x]) [] x.rpos false ss st = some (false, ss', st') ∧
      ss'.result = ss.result ∧ ss'.cp = ss.cp ∧ st'.calls = st.calls + 1 ∧ st'.cache = st.cache := by
  have hr := readRune_fol_false hoff ch x.rpos hx hch hf
  obtain ⟨st1, h1, h2, h3⟩ := run_rune_fail h0 fr ch nm [] x.rpos x.rpos st.regCall hr
  rw [seqParse]
  simp only [hl, h1, hlc1, Bool.false_eq_true, ↓reduceIte]
  exact ⟨_, st1, rfl, rfl, rfl, h2, h3⟩

/-- **the loop over the alternatives of the recursive element** -/
theorem tail_alts (h0 : cfg.maxCalls = 0) (hoff : cfg.file.offset = 1) (sh : SeqShape) (d0 ch : Nat) (nm : Bytes)
    (hch : ch < 128) (hl : sh.lookup (d0 + 1) = some (.term (.rune ch nm))) (hl2 : sh.lookup (d0 + 2) = none)
    (hlc1 : sh.lenCheck (d0 + 1) = false) (hlc2 : sh.lenCheck (d0 + 2) = true)
    (htok : (Utf8.encodeRune ch == eofTok) = false)
    (fr f : Nat) (pre : List Node) (ctx : Ctx) (pos : Nat) (merge : Bool) :
    ∀ (l : List Node), (∀ x ∈ l, pos < x.rpos) →
    ∀ (acc : List Node) (ss : SeqSt) (st : St), ss.result = resOf acc →
    ∃ ss' st', seqAlts (fun nd ss st =>
          seqParse (run cfg (fr + 1)) sh (f + 2) (d0 + 1) (pre ++ [nd]) (if nd.rpos > pos then [] else ctx) nd.rpos
            (merge && !(decide (nd.rpos > pos))) ss st) l ss st = some (false, ss', st') ∧
      ss'.result = resOf (acc ++ extAllG sh pre ch cfg.file.data l) ∧ ss'.cp = ss.cp ∧
      st'.calls = st.calls + l.length ∧ st'.cache = st.cache := by
  intro l
  induction l with
  | nil =>
    intro _ acc ss st hr
    exact ⟨ss, st, rfl, by simp [extAllG, hr], rfl, rfl, rfl⟩
  | cons x l ih =>
    intro hl' acc ss st hr
    have hx := hl' x (List.mem_cons_self ..)
    have hgt : x.rpos > pos := hx
    have hx1 : 1 ≤ x.rpos := by omega
    simp only [seqAlts, hgt, ↓reduceIte, decide_true, Bool.not_true, Bool.and_false]
    by_cases hp : fol cfg.file.data ch x.rpos = true
    · rw [tail_ok h0 hoff sh d0 ch nm hch hl hl2 hlc2 htok fr f pre x hx1 hp]
      simp only
      obtain ⟨ss', st', e1, e2, e3, e4, e5⟩ := ih (fun y hy => hl' y (List.mem_cons_of_mem _ hy)) (acc ++ [extN sh pre ch x])
        { ss with result := appendNode ss.result (.one (extN sh pre ch x)) } st.regCall
        (by simp only [hr]; exact appendNode_resOf acc _ (extN_notEmpty sh pre ch x))
      refine ⟨ss', st', e1, ?_, e3, ?_, e5⟩
      · rw [e2]; simp [extAllG, hp]
      · rw [e4]; simp [St.regCall]; omega
    · have hp' : fol cfg.file.data ch x.rpos = false := by simpa using hp
      obtain ⟨ss1, st1, a1, a2, a3, a4, a5⟩ := tail_fail h0 hoff sh d0 ch nm hch hl hlc1 fr (f + 1) pre x hx1 hp' ss st
      rw [a1]
      simp only
      obtain ⟨ss', st', e1, e2, e3, e4, e5⟩ := ih (fun y hy => hl' y (List.mem_cons_of_mem _ hy)) acc ss1 st1
        (by rw [a2, hr])
      refine ⟨ss', st', e1, ?_, by rw [e3, a3], ?_, by rw [e5, a5]⟩
      · rw [e2]; simp [extAllG, hp']
      · rw [e4, a4]; simp; omega

/-- the same loop applied to the result `resOf l` of the recursive element (`l` not empty) -/
theorem tail_alts_res (h0 : cfg.maxCalls = 0) (hoff : cfg.file.offset = 1) (sh : SeqShape) (d0 ch : Nat) (nm : Bytes)
    (hch : ch < 128) (hl : sh.lookup (d0 + 1) = some (.term (.rune ch nm))) (hl2 : sh.lookup (d0 + 2) = none)
    (hlc1 : sh.lenCheck (d0 + 1) = false) (hlc2 : sh.lenCheck (d0 + 2) = true)
    (htok : (Utf8.encodeRune ch == eofTok) = false)
    (fr f : Nat) (pre : List Node) (ctx : Ctx) (pos : Nat) (merge : Bool)
    (l : List Node) (hpos : ∀ x ∈ l, pos < x.rpos)
    (acc : List Node) (ss : SeqSt) (st : St) (hr : ss.result = resOf acc) :
    ∃ ss' st', seqAlts (fun nd ss st =>
          seqParse (run cfg (fr + 1)) sh (f + 2) (d0 + 1) (pre ++ [nd]) (if nd.rpos > pos then [] else ctx) nd.rpos
            (merge && !(decide (nd.rpos > pos))) ss st) (resOf l).alts ss st = some (false, ss', st') ∧
      ss'.result = resOf (acc ++ extAllG sh pre ch cfg.file.data l) ∧ ss'.cp = ss.cp ∧
      st'.calls = st.calls + l.length ∧ st'.cache = st.cache := by
  rw [resOf_alts]
  exact tail_alts h0 hoff sh d0 ch nm hch hl hl2 hlc1 hlc2 htok fr f pre ctx pos merge l hpos acc ss st hr

/-- the outcome of a sequence (without a name) whose loop ended with the nodes `l` -/
theorem run_shape_res (h0 : cfg.maxCalls = 0) (fuel : Nat) (g : G) (sh : SeqShape) (ctx : Ctx) (pos : Nat) (st : St)
    (hs : g.shape = some sh) (hnm : sh.name = none) (b : Bool) (ss' : SeqSt) (st1 : St) (l : List Node)
    (hseq : seqParse (run cfg fuel) sh fuel 0 [] ctx pos true {} st = some (b, ss', st1))
    (hres : ss'.result = resOf l) :
    ∃ e st', run cfg (fuel + 1) g ctx pos st = some (⟨resOf l, ss'.cp, e⟩, st') ∧
      st'.calls = st1.calls ∧ st'.cache = st1.cache ∧ (l ≠ [] → e = none) := by
  rw [run_shape h0 fuel g sh ctx pos st hs, hseq]
  simp only [hnm, hres]
  by_cases hn : (resOf l).isNil = true
  · simp only [hn, ↓reduceIte]
    rw [(isNil_iff _).mp hn]
    refine ⟨_, _, rfl, rfl, rfl, ?_⟩
    intro hne
    rw [resOf_isNil] at hn
    cases l with
    | nil => exact absurd rfl hne
    | cons => cases hn
  · simp only [hn, Bool.false_eq_true, ↓reduceIte]
    exact ⟨_, _, rfl, (setError_ctxErr _ _).2.2.2.2, (setError_ctxErr _ _).2.1, fun _ => rfl⟩

/-- the fields of the sequence object after an element answered with `o` -/
def ssUpd (merge : Bool) (ss : SeqSt) (o : Out) : SeqSt :=
  if merge then { cp := cpUnion ss.cp o.cp, result := ss.result, err := pickErr ss.err o.err }
  else { cp := ss.cp, result := ss.result, err := pickErr ss.err o.err }

theorem ssUpd_result (merge : Bool) (ss : SeqSt) (o : Out) : (ssUpd merge ss o).result = ss.result := by
  cases merge <;> rfl
theorem ssUpd_cp_true (ss : SeqSt) (o : Out) : (ssUpd true ss o).cp = cpUnion ss.cp o.cp := rfl
theorem ssUpd_cp_false (ss : SeqSt) (o : Out) : (ssUpd false ss o).cp = ss.cp := rfl

/-- element `d` answers with a result that is not nil: one call, then the loop over its alternatives -/
theorem seq_step_alts (sh : SeqShape) (r : RunFn) (f d : Nat) (nodes : List Node) (ctx : Ctx) (pos : Nat) (merge : Bool)
    (ss : SeqSt) (st st1 : St) (g : G) (o : Out) (hl : sh.lookup d = some g)
    (hr : r g ctx pos st.regCall = some (o, st1)) (hn : o.res.isNil = false) :
    seqParse r sh (f + 1) d nodes ctx pos merge ss st =
      seqAlts (fun n ss st =>
          seqParse r sh f (d + 1) (nodes ++ [n]) (if n.rpos > pos then [] else ctx) n.rpos
            (merge && !(decide (n.rpos > pos))) ss st) o.res.alts (ssUpd merge ss o) st1 := by
  rw [seqParse]
  simp only [hl, hr]
  obtain ⟨res, cp, err⟩ := o
  cases res with
  | nil => cases hn
  | one => cases merge <;> rfl
  | list => cases merge <;> rfl

/-- element `d` answers nil where the sequence may not end: one call, nothing emitted -/
theorem seq_step_nil (sh : SeqShape) (r : RunFn) (f d : Nat) (nodes : List Node) (ctx : Ctx) (pos : Nat) (merge : Bool)
    (ss : SeqSt) (st st1 : St) (g : G) (o : Out) (hl : sh.lookup d = some g)
    (hr : r g ctx pos st.regCall = some (o, st1)) (hn : o.res = .nil) (hlc : sh.lenCheck d = false) :
    seqParse r sh (f + 1) d nodes ctx pos merge ss st = some (false, ssUpd merge ss o, st1) := by
  rw [seqParse]
  simp only [hl, hr]
  obtain ⟨res, cp, err⟩ := o
  cases hn
  simp only [hlc, Bool.false_eq_true, ↓reduceIte]
  cases merge <;> rfl

theorem resOf_isNil_false (l : List Node) (h : l ≠ []) : (resOf l).isNil = false := by
  rw [resOf_isNil]
  cases l with
  | nil => exact absurd rfl h
  | cons => rfl

/-- `resOf` and `AppendNode` of two results without EMPTY nodes -/
theorem nlAppend1_ne (acc : List Node) (x : Node) (hx : notEmptyNode x) : nlAppend1 acc x = acc ++ [x] := by
  cases x with
  | empty p => exact hx.elim
  | term => rfl
  | eof => rfl
  | nt => rfl

theorem foldl_nlAppend1 : ∀ (b acc : List Node), (∀ x ∈ b, notEmptyNode x) → b.foldl nlAppend1 acc = acc ++ b := by
  intro b
  induction b with
  | nil => intro acc _; simp
  | cons x b ih =>
    intro acc h
    rw [List.foldl_cons, nlAppend1_ne acc x (h x (List.mem_cons_self ..)), ih _ (fun y hy => h y (List.mem_cons_of_mem _ hy))]
    simp

theorem appendNode_resOf_list (a b : List Node) (hb : ∀ x ∈ b, notEmptyNode x) :
    appendNode (resOf a) (resOf b) = resOf (a ++ b) := by
  match b, hb with
  | [], _ => simp only [List.append_nil]; cases h : resOf a <;> rfl
  | [y], hb => exact appendNode_resOf a y (hb y (List.mem_cons_self ..))
  | y :: z :: rest, hb =>
    match a with
    | [] => rfl
    | [x] =>
      show Res.list ((y :: z :: rest).foldl nlAppend1 [x]) = _
      rw [foldl_nlAppend1 _ _ hb]; rfl
    | x :: x2 :: r =>
      show Res.list ((y :: z :: rest).foldl nlAppend1 (x :: x2 :: r)) = _
      rw [foldl_nlAppend1 _ _ hb]; rfl

theorem extAllG_notEmpty (sh : SeqShape) (pre : List Node) (ch : Nat) (data : Bytes) (l : List Node) :
    ∀ x ∈ extAllG sh pre ch data l, notEmptyNode x := by
  intro x hx
  simp only [extAllG, List.mem_map] at hx
  obtain ⟨y, _, rfl⟩ := hx
  exact extN_notEmpty sh pre ch y

/-- Any of two parsers, with the curtailing parsers of the outcome -/
theorem run_any2c (h0 : cfg.maxCalls = 0) (f : Nat) (g1 g2 : G) (ctx : Ctx) (pos : Nat) (st : St) (o1 o2 : Out)
    (s1 s2 : St) (h1 : run cfg (f + 1) g1 ctx pos st.regCall = some (o1, s1))
    (h2 : run cfg (f + 1) g2 ctx pos s1.regCall = some (o2, s2)) :
    ∃ e st', run cfg (f + 2) (.any [g1, g2]) ctx pos st =
        some (⟨appendNode o1.res o2.res, cpUnion (cpUnion [] o1.cp) o2.cp, e⟩, st') ∧
      st'.calls = s2.calls ∧ st'.cache = s2.cache ∧ ((appendNode o1.res o2.res).isNil = false → e = none) := by
  rw [run_any_eq h0]
  simp only [anyLoop, h1, h2]
  obtain ⟨a1, a2, _, _⟩ := altErr_fields pos
    { cp := cpUnion ({} : AltSt).cp o1.cp, res := appendNode ({} : AltSt).res o1.res, err := ({} : AltSt).err,
      nf := ({} : AltSt).nf } o1.err
  generalize altErr pos _ o1.err = A at a1 a2
  have a1' : A.cp = cpUnion [] o1.cp := a1
  have a2' : A.res = o1.res := a2
  obtain ⟨b1, b2, _, _⟩ := altErr_fields pos
    { cp := cpUnion A.cp o2.cp, res := appendNode A.res o2.res, err := A.err, nf := A.nf } o2.err
  generalize altErr pos _ o2.err = B at b1 b2
  have b1' : B.cp = cpUnion (cpUnion [] o1.cp) o2.cp := by rw [b1, a1']
  have b2' : B.res = appendNode o1.res o2.res := by rw [b2, a2']
  by_cases hn : (appendNode o1.res o2.res).isNil = true
  · simp only [b2', b1', hn, ↓reduceIte]
    rw [(isNil_iff _).mp hn]
    exact ⟨_, _, rfl, rfl, rfl, fun h => by cases h⟩
  · simp only [b2', b1', hn, Bool.false_eq_true, ↓reduceIte]
    exact ⟨_, _, rfl, (setError_ctxErr _ _).2.2.2.2, (setError_ctxErr _ _).2.1, fun _ => rfl⟩

theorem nodeA_ne : notEmptyNode nodeA := trivial

theorem tok_ne (ch : Nat) (hch : ch < 128) : (Utf8.encodeRune ch == eofTok) = false := by
  have : ch < 0x80 := hch
  simp [Utf8.encodeRune, this, eofTok]

theorem cpUnion_nil_left (b : List Nat) : cpUnion [] b = b := by
  cases b <;> simp [cpUnion]

/-! ### a left-recursive rule `X → Y 'c' | 'd'` at position 1 -/

/-- `SeqOf(Y, 'c')` -/
def lrS (j ch : Nat) : G := seqOfT [.ref j, runeT ch]

def lrSh (j ch : Nat) : SeqShape :=
  { lookup := fun i => [G.ref j, runeT ch][i]?, lenCheck := fun len => len == 2, token := seqTok,
    interp := .none, single := false, name := none }

theorem lrS_shape (j ch : Nat) : (lrS j ch).shape = some (lrSh j ch) := rfl

/-- `SeqOf(Y, 'c')` at position 1 once `Y` answers with the alternatives `L` (all of which consumed input): one
    call for `Y`, one `c` per alternative.  `K`, `Q`: what is known of the cache before and after `Y`. -/
theorem run_lrS (h0 : cfg.maxCalls = 0) (hoff : cfg.file.offset = 1) (j ch : Nat) (hch : ch < 128) (Pin : G)
    (hj : cfg.env[j]? = some Pin) (f : Nat) (ctx : Ctx) (L : List Node) (hL : ∀ x ∈ L, 1 < x.rpos) (c : Nat)
    (cp0 : List Nat) (K : List CacheEntry) (Q : List CacheEntry → Prop)
    (inner : ∀ s : St, s.cache = K →
      ∃ e s1, run cfg (f + 2) Pin ctx 1 s = some (⟨resOf L, cp0, e⟩, s1) ∧ s1.calls = s.calls + c ∧ Q s1.cache)
    (st : St) (hcache : st.cache = K) :
    ∃ e st', run cfg (f + 4) (lrS j ch) ctx 1 st =
        some (⟨resOf (extAllG (lrSh j ch) [] ch cfg.file.data L), cp0, e⟩, st') ∧
      st'.calls = st.calls + 1 + c + L.length ∧ Q st'.cache := by
  have hl0 : (lrSh j ch).lookup 0 = some (.ref j) := rfl
  have hlc : (lrSh j ch).lenCheck 0 = false := rfl
  obtain ⟨e1, s1, i1, i2, i3⟩ := inner st.regCall hcache
  have href : run cfg (f + 3) (.ref j) ctx 1 st.regCall = some (⟨resOf L, cp0, e1⟩, s1) := by
    rw [run_ref h0 (f + 2) j Pin hj]
    exact i1
  have hcp : (ssUpd true {} ⟨resOf L, cp0, e1⟩).cp = cp0 := by
    rw [ssUpd_cp_true]; exact cpUnion_nil_left cp0
  have hseq : ∃ b ss' st1, seqParse (run cfg (f + 3)) (lrSh j ch) (f + 3) 0 [] ctx 1 true {} st = some (b, ss', st1) ∧
      ss'.result = resOf (extAllG (lrSh j ch) [] ch cfg.file.data L) ∧ ss'.cp = cp0 ∧
      st1.calls = st.calls + 1 + c + L.length ∧ Q st1.cache := by
    by_cases hnil : L = []
    · subst hnil
      rw [seq_step_nil (lrSh j ch) (run cfg (f + 3)) (f + 2) 0 _ ctx 1 true _ st s1 _ _ hl0 href rfl hlc]
      refine ⟨_, _, _, rfl, ?_, hcp, ?_, i3⟩
      · rw [ssUpd_result]; rfl
      · rw [i2]; simp [St.regCall]
    · rw [seq_step_alts (lrSh j ch) (run cfg (f + 3)) (f + 2) 0 _ ctx 1 true _ st s1 _ _ hl0 href (resOf_isNil_false L hnil)]
      obtain ⟨ss', st', t1, t2, t3, t4, t5⟩ := tail_alts_res h0 hoff (lrSh j ch) 0 ch [34, ch, 34] hch rfl rfl rfl rfl
        (tok_ne ch hch) (f + 2) f [] ctx 1 true L hL []
        (ssUpd true {} ⟨resOf L, cp0, e1⟩) s1 (by rw [ssUpd_result]; rfl)
      refine ⟨_, _, _, t1, t2, by rw [t3, hcp], ?_, by rw [t5]; exact i3⟩
      rw [t4, i2]; simp [St.regCall]
  obtain ⟨b, ss', st1, q1, q2, q3, q4, q5⟩ := hseq
  obtain ⟨e, st', r1, r2, r3, _⟩ := run_shape_res h0 (f + 3) (lrS j ch) (lrSh j ch) ctx 1 st (lrS_shape j ch) rfl b ss' st1 _ q1 q2
  rw [q3] at r1
  exact ⟨e, st', r1, by rw [r2, q4], by rw [r3]; exact q5⟩

/-- the base alternative `'d'` at position 1 -/
def baseL (data : Bytes) (bch : Nat) : List Node := if fol data bch 1 then [runeNode bch 1] else []

theorem run_base (h0 : cfg.maxCalls = 0) (hoff : cfg.file.offset = 1) (bch : Nat) (hbch : bch < 128) (fuel : Nat) (ctx : Ctx)
    (st : St) :
    ∃ e st', run cfg (fuel + 1) (runeT bch) ctx 1 st = some (⟨resOf (baseL cfg.file.data bch), [], e⟩, st') ∧
      st'.calls = st.calls ∧ st'.cache = st.cache := by
  by_cases hb : fol cfg.file.data bch 1 = true
  · have hr := readRune_fol_true hoff bch 1 (Nat.le_refl _) hbch hb
    rw [runeT, run_rune_ok h0 fuel bch _ ctx 1 2 st hr]
    simp only [baseL, hb, ↓reduceIte]
    exact ⟨_, _, rfl, rfl, rfl⟩
  · have hb' : fol cfg.file.data bch 1 = false := by simpa using hb
    have hr := readRune_fol_false hoff bch 1 (Nat.le_refl _) hbch hb'
    obtain ⟨s1, h1, h2, h3⟩ := run_rune_fail h0 fuel bch [34, bch, 34] ctx 1 1 st hr
    rw [runeT, h1]
    simp only [baseL, hb']
    exact ⟨_, _, rfl, h2, h3⟩

theorem baseL_notEmpty (data : Bytes) (bch : Nat) : ∀ x ∈ baseL data bch, notEmptyNode x := by
  intro x hx
  unfold baseL at hx
  split at hx
  · simp only [List.mem_singleton] at hx; subst hx; trivial
  · cases hx

theorem baseL_rpos (data : Bytes) (bch : Nat) :
    (baseL data bch).map Node.rpos = if fol data bch 1 then [2] else [] := by
  unfold baseL
  split <;> rfl

/-- **one activation of Memoize(Y 'c' | 'd') at position 1** (first look-up, empty cache) whose inner activation of
    `Y` answers with `L`: 3 calls (`Y 'c'`, its element `Y`, `'d'`) plus one call (`c`) per alternative in `L` -/
theorem lr_step (h0 : cfg.maxCalls = 0) (hoff : cfg.file.offset = 1) (idx j ch bch : Nat) (hch : ch < 128) (hbch : bch < 128)
    (Pin : G) (hj : cfg.env[j]? = some Pin) (f : Nat) (ctx : Ctx)
    (hcur : ¬ ctx.get idx > remaining cfg.file 1 + Facts.curtailSlack)
    (L : List Node) (hL : ∀ x ∈ L, 1 < x.rpos) (c : Nat) (cp0 : List Nat)
    (inner : ∀ s : St, s.cache = [] →
      ∃ e s1, run cfg (f + 2) Pin (ctx.inc idx) 1 s = some (⟨resOf L, cp0, e⟩, s1) ∧ s1.calls = s.calls + c) :
    ∃ L' : List Node,
      L'.map Node.rpos = ((L.map Node.rpos).filter (fol cfg.file.data ch)).map (· + 1) ++
        (if fol cfg.file.data bch 1 then [2] else []) ∧
      ∀ st : St, st.cache = [] →
        ∃ e st', run cfg (f + 6) (.memo idx (.any [lrS j ch, runeT bch])) ctx 1 st = some (⟨resOf L', cp0, e⟩, st') ∧
          st'.calls = st.calls + c + 3 + L.length := by
  refine ⟨extAllG (lrSh j ch) [] ch cfg.file.data L ++ baseL cfg.file.data bch, ?_, ?_⟩
  · rw [List.map_append, extAllG_rpos (lrSh j ch) rfl, baseL_rpos]
  intro st hcache
  rw [run_memo_eq h0 (f + 5) idx _ ctx 1 st (by rw [hcache]; rfl) hcur]
  obtain ⟨e, s2, h1, h2, _⟩ := run_lrS h0 hoff j ch hch Pin hj f (ctx.inc idx) L hL c cp0 [] (fun _ => True)
    (fun s hs => by obtain ⟨e, s1, a, b⟩ := inner s hs; exact ⟨e, s1, a, b, trivial⟩)
    (memoEnter cfg idx 1 st).regCall
    (by show (memoEnter cfg idx 1 st).cache = []; rw [(memoEnter_fields _ _ _ _).2, hcache])
  obtain ⟨eb, s3, b1, b2, _⟩ := run_base h0 hoff bch hbch (f + 3) (ctx.inc idx) s2.regCall
  obtain ⟨e', s4, r1, r2, _, _⟩ := run_any2c h0 (f + 3) (lrS j ch) (runeT bch) (ctx.inc idx) 1 (memoEnter cfg idx 1 st) _ _ s2 _ h1 b1
  have hres : appendNode (resOf (extAllG (lrSh j ch) [] ch cfg.file.data L)) (resOf (baseL cfg.file.data bch)) =
      resOf (extAllG (lrSh j ch) [] ch cfg.file.data L ++ baseL cfg.file.data bch) :=
    appendNode_resOf_list _ _ (baseL_notEmpty _ _)
  have hcp : cpUnion (cpUnion [] cp0) [] = cp0 := by rw [cpUnion_nil_right, cpUnion_nil_left]
  simp only [hres, hcp] at r1
  rw [r1]
  refine ⟨_, _, rfl, ?_⟩
  show s4.calls = _
  rw [r2, b2]
  show s2.calls + 1 = _
  rw [h2]
  show (memoEnter cfg idx 1 st).calls + 1 + 1 + c + L.length + 1 = _
  rw [(memoEnter_fields _ _ _ _).1]
  omega

/-! ### cache hits, Any of three parsers, Sentence after alternatives that do not reach the end -/

theorem run_memo_hit_eq (h0 : cfg.maxCalls = 0) (fuel idx : Nat) (body : G) (ctx : Ctx) (pos : Nat) (st : St)
    (e : CacheEntry) (hcache : cacheGet st.cache idx pos ctx = some e) :
    run cfg (fuel + 1) (.memo idx body) ctx pos st = some (⟨e.res, e.cp, e.err⟩, st.logEv cfg (.hit idx pos)) := by
  have hb : ¬ (cfg.maxCalls ≠ 0 ∧ st.calls > cfg.maxCalls) := by simp [h0]
  conv => lhs; unfold run
  rw [if_neg hb]
  simp only [hcache]

/-- Any of three parsers -/
theorem run_any3c (h0 : cfg.maxCalls = 0) (f : Nat) (g1 g2 g3 : G) (ctx : Ctx) (pos : Nat) (st : St) (o1 o2 o3 : Out)
    (s1 s2 s3 : St) (h1 : run cfg (f + 1) g1 ctx pos st.regCall = some (o1, s1))
    (h2 : run cfg (f + 1) g2 ctx pos s1.regCall = some (o2, s2))
    (h3 : run cfg (f + 1) g3 ctx pos s2.regCall = some (o3, s3)) :
    ∃ e st', run cfg (f + 2) (.any [g1, g2, g3]) ctx pos st =
        some (⟨appendNode (appendNode o1.res o2.res) o3.res, cpUnion (cpUnion (cpUnion [] o1.cp) o2.cp) o3.cp, e⟩, st') ∧
      st'.calls = s3.calls ∧ st'.cache = s3.cache ∧
      ((appendNode (appendNode o1.res o2.res) o3.res).isNil = false → e = none) := by
  rw [run_any_eq h0]
  simp only [anyLoop, h1, h2, h3]
  obtain ⟨a1, a2, _, _⟩ := altErr_fields pos
    { cp := cpUnion ({} : AltSt).cp o1.cp, res := appendNode ({} : AltSt).res o1.res, err := ({} : AltSt).err,
      nf := ({} : AltSt).nf } o1.err
  generalize altErr pos _ o1.err = A at a1 a2
  have a1' : A.cp = cpUnion [] o1.cp := a1
  have a2' : A.res = o1.res := a2
  obtain ⟨b1, b2, _, _⟩ := altErr_fields pos
    { cp := cpUnion A.cp o2.cp, res := appendNode A.res o2.res, err := A.err, nf := A.nf } o2.err
  generalize altErr pos _ o2.err = B at b1 b2
  have b1' : B.cp = cpUnion (cpUnion [] o1.cp) o2.cp := by rw [b1, a1']
  have b2' : B.res = appendNode o1.res o2.res := by rw [b2, a2']
  obtain ⟨c1, c2, _, _⟩ := altErr_fields pos
    { cp := cpUnion B.cp o3.cp, res := appendNode B.res o3.res, err := B.err, nf := B.nf } o3.err
  generalize altErr pos _ o3.err = C at c1 c2
  have c1' : C.cp = cpUnion (cpUnion (cpUnion [] o1.cp) o2.cp) o3.cp := by rw [c1, b1']
  have c2' : C.res = appendNode (appendNode o1.res o2.res) o3.res := by rw [c2, b2']
  by_cases hn : (appendNode (appendNode o1.res o2.res) o3.res).isNil = true
  · simp only [c2', c1', hn, ↓reduceIte]
    rw [(isNil_iff _).mp hn]
    exact ⟨_, _, rfl, rfl, rfl, fun h => by cases h⟩
  · simp only [c2', c1', hn, Bool.false_eq_true, ↓reduceIte]
    exact ⟨_, _, rfl, (setError_ctxErr _ _).2.2.2.2, (setError_ctxErr _ _).2.1, fun _ => rfl⟩

theorem run_eof_fail (h0 : cfg.maxCalls = 0) (fuel : Nat) (ctx : Ctx) (pos : Nat) (st : St)
    (he : isEOF cfg.file pos = false) :
    ∃ st', run cfg (fuel + 1) .eof ctx pos st = some (⟨.nil, [], some ⟨pos, .other endErrMsg⟩⟩, st') ∧
      st'.calls = st.calls ∧ st'.cache = st.cache := by
  refine ⟨st.logEv cfg (.termFail pos (.other endErrMsg)), ?_, (logEv_fields _ _ _).2.2.1, (logEv_fields _ _ _).1⟩
  simp [run, h0, he]

/-- **Sentence(g)** when the alternatives `pre` that `g` returns first do not end at the end of the input and the
    next one, `h`, does: one call for `g`, one `End` per alternative in `pre` (they fail), one for `End` after `h`
    (which matches, so the remaining alternatives are not tried) -/
theorem sentence_skip (h0 : cfg.maxCalls = 0) (f : Nat) (g : G) (pos : Nat) (st st1 : St) (R : Res) (cp : List Nat)
    (e : Option Err) (pre : List Node) (h : Node) (rest : List Node)
    (hrun : run cfg (f + 3) g [] pos st.regCall = some (⟨R, cp, e⟩, st1))
    (hR : R.alts = pre ++ h :: rest)
    (hpre : ∀ x ∈ pre, x.rpos > pos ∧ isEOF cfg.file x.rpos = false)
    (hgt : h.rpos > pos) (heof : isEOF cfg.file h.rpos = true) :
    ∃ o st', run cfg (f + 4) (G.sentence g) [] pos st = some (o, st') ∧ o.res.isNil = false ∧ o.err = none ∧
      st'.calls = st1.calls + pre.length + 1 := by
  generalize hsh : sentShOf g = sh
  have hshape : (G.sentence g).shape = some sh := by rw [← hsh]; rfl
  have hl0 : sh.lookup 0 = some g := by rw [← hsh]; rfl
  have hl1 : sh.lookup (0 + 1) = some .eof := by rw [← hsh]; rfl
  have hl2 : sh.lookup 2 = none := by rw [← hsh]; rfl
  have hlc1 : sh.lenCheck (0 + 1) = false := by rw [← hsh]; rfl
  have hlc : sh.lenCheck 2 = true := by rw [← hsh]; rfl
  have hnm : sh.name = none := by rw [← hsh]; rfl
  have hnil : R.isNil = false := by
    cases R with
    | nil => simp [Res.alts] at hR
    | one => rfl
    | list => rfl
  rw [run_shape h0 (f + 3) _ sh [] pos st hshape]
  rw [seq_step_alts sh (run cfg (f + 3)) (f + 2) 0 [] [] pos true {} st st1 g _ hl0 hrun hnil]
  simp only [hnm]
  -- `End` after `h`
  have key : ∀ (ss : SeqSt) (s : St), ∃ ss', seqAlts (fun nd ss st =>
        seqParse (run cfg (f + 3)) sh (f + 2) (0 + 1) ([] ++ [nd])
          (if nd.rpos > pos then [] else []) nd.rpos (true && !(decide (nd.rpos > pos))) ss st)
        (h :: rest) ss s = some (true, ss', s.regCall) ∧ ss'.result.isNil = false := by
    intro ss s
    simp only [seqAlts, hgt, ↓reduceIte, decide_true, Bool.not_true, Bool.and_false, List.nil_append, Nat.zero_add]
    rw [seqParse]
    have hl1' : sh.lookup 1 = some .eof := hl1
    simp only [hl1', run_eof_ok h0 (f + 2) [] h.rpos s.regCall heof]
    simp only [pickErr_none, Bool.false_eq_true, ↓reduceIte, Res.alts, seqAlts]
    rw [seqParse]
    simp only [hl2, hlc, pickErr_none, ↓reduceIte]
    refine ⟨{ ss with result := appendNode ss.result (.one (handleResult sh h.rpos [h, .eof h.rpos])) }, ?_, ?_⟩
    · simp [Node.rpos, Node.token, eofTok]
    · cases hs : ss.result <;> simp [appendNode, Res.isNil]
  -- the alternatives before it
  have skip : ∀ (pre : List Node), (∀ x ∈ pre, x.rpos > pos ∧ isEOF cfg.file x.rpos = false) →
      ∀ (ss : SeqSt) (s : St), ∃ ss' s', seqAlts (fun nd ss st =>
        seqParse (run cfg (f + 3)) sh (f + 2) (0 + 1) ([] ++ [nd])
          (if nd.rpos > pos then [] else []) nd.rpos (true && !(decide (nd.rpos > pos))) ss st)
        (pre ++ h :: rest) ss s = some (true, ss', s') ∧ ss'.result.isNil = false ∧
        s'.calls = s.calls + pre.length + 1 := by
    intro pre
    induction pre with
    | nil =>
      intro _ ss s
      obtain ⟨ss', k1, k2⟩ := key ss s
      exact ⟨ss', _, k1, k2, rfl⟩
    | cons x pre ih =>
      intro hp ss s
      obtain ⟨hx1, hx2⟩ := hp x (List.mem_cons_self ..)
      obtain ⟨s1, e1, e2, _⟩ := run_eof_fail h0 (f + 2) [] x.rpos s.regCall hx2
      have hstep := seq_step_nil sh (run cfg (f + 3)) (f + 1) (0 + 1) ([] ++ [x]) [] x.rpos false ss s s1 .eof _ hl1 e1 rfl hlc1
      obtain ⟨ss', s', i1, i2, i3⟩ := ih (fun y hy => hp y (List.mem_cons_of_mem _ hy))
        (ssUpd false ss ⟨.nil, [], some ⟨x.rpos, .other endErrMsg⟩⟩) s1
      refine ⟨ss', s', ?_, i2, ?_⟩
      · simp only [List.cons_append, seqAlts, hx1, ↓reduceIte, decide_true, Bool.not_true, Bool.and_false]
        rw [hstep]
        exact i1
      · rw [i3, e2]; simp [St.regCall]; omega
  rw [hR]
  obtain ⟨ss', s', k1, k2, k3⟩ := skip pre hpre (ssUpd true {} ⟨R, cp, e⟩) st1
  simp only [k1, k2, Bool.false_eq_true, ↓reduceIte]
  exact ⟨_, _, rfl, k2, rfl, by rw [(setError_ctxErr _ _).2.2.2.2, k3]⟩

theorem resOf_map_rpos_ne (l : List Node) (h : l ≠ []) : ∃ hd tl, (resOf l).alts = hd :: tl ∧ l = hd :: tl := by
  rw [resOf_alts]
  cases l with
  | nil => exact absurd rfl h
  | cons a b => exact ⟨a, b, rfl, rfl⟩

end PV.C17b
