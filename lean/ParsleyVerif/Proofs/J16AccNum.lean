/-
  C16, the converse — the Integer, Float, Bool and Nil terminals on lexemes of their documented languages
  (`Lang.IsInt`, `Lang.IsFloat`; Spec/Lang.lean), followed by a delimiter, both directions, at the level of the
  terminals' byte specification (`integerSpec`, `floatSpec`, `wordAt`).

  Everything lives in `PV.J16Acc`.
-/
import ParsleyVerif.Spec.J16AccLang
import ParsleyVerif.Props.C08
import ParsleyVerif.Proofs.J16Num
namespace PV.J16Acc
open PV PV.Text

/-- what may follow a value: nothing, whitespace (space, tab, LF, FF), `,`, `]`, `}` -/
def ADelim (tail : Bytes) : Prop :=
  ∀ c, tail.head? = some c → c = 32 ∨ c = 9 ∨ c = 10 ∨ c = 12 ∨ c = 44 ∨ c = 93 ∨ c = 125

theorem adelim_nil : ADelim [] := by intro c h; cases h

theorem adelim_cons {c : Nat} {t : Bytes} (h : c = 32 ∨ c = 9 ∨ c = 10 ∨ c = 12 ∨ c = 44 ∨ c = 93 ∨ c = 125) :
    ADelim (c :: t) := by
  intro x hx
  simp only [List.head?_cons, Option.some.injEq] at hx
  subst hx; exact h

/-! ### alphabets -/

/-- the bytes of an integer lexeme: signs, hexadecimal digits, `x`, `X` -/
def IntCh (b : Nat) : Prop := b = 45 ∨ b = 43 ∨ Lang.hexDigit b = true ∨ b = 120 ∨ b = 88

/-- the bytes of a float lexeme: signs, `.`, `e`, `E`, decimal digits -/
def FloatCh (b : Nat) : Prop := b = 45 ∨ b = 43 ∨ b = 46 ∨ b = 101 ∨ b = 69 ∨ (48 ≤ b ∧ b ≤ 57)

theorem digit_le {b : Nat} (h : Lang.digit b = true) : 48 ≤ b ∧ b ≤ 57 := by
  unfold Lang.digit at h; simpa using h

theorem digit_hex {b : Nat} (h : Lang.digit b = true) : Lang.hexDigit b = true := by
  have := digit_le h
  unfold Lang.hexDigit; simp; omega

theorem octDigit_hex {b : Nat} (h : Lang.octDigit b = true) : Lang.hexDigit b = true := by
  unfold Lang.octDigit at h
  simp at h
  unfold Lang.hexDigit; simp; omega

theorem nzDigit_le {b : Nat} (h : Lang.nzDigit b = true) : 49 ≤ b ∧ b ≤ 57 := by
  unfold Lang.nzDigit at h; simpa using h

/-- an unsigned integer lexeme: first byte a digit, all bytes hexadecimal digits or `x` / `X` -/
theorem isIntBody_chars {w : Bytes} (h : Lang.isIntBody w = true) :
    (∃ c t, w = c :: t ∧ 48 ≤ c ∧ c ≤ 57) ∧ ∀ b ∈ w, Lang.hexDigit b = true ∨ b = 120 ∨ b = 88 := by
  cases w with
  | nil => cases h
  | cons c t =>
    unfold Lang.isIntBody at h
    rw [hexLit_cons, octalLit_cons] at h
    simp only [Bool.or_eq_true, Bool.and_eq_true, decide_eq_true_eq] at h
    rcases h with (h | ⟨hc, h⟩) | ⟨hc, h⟩
    · have h' : Lang.nzDigit c = true ∧ Lang.star Lang.digit t = true := by
        simpa [Lang.decimalLit] using h
      have hc := nzDigit_le h'.1
      refine ⟨⟨c, t, rfl, by omega, hc.2⟩, ?_⟩
      intro b hb
      rcases List.mem_cons.mp hb with rfl | hb
      · left; unfold Lang.hexDigit; simp; omega
      · exact .inl (digit_hex ((star_iff _ _).mp h'.2 b hb))
    · subst hc
      refine ⟨⟨48, t, rfl, by omega, by omega⟩, ?_⟩
      cases t with
      | nil => cases h
      | cons x r =>
        have h' : (x = 120 ∨ x = 88) ∧ Lang.plus1 Lang.hexDigit r = true := by
          simpa [hexTail] using h
        intro b hb
        rcases List.mem_cons.mp hb with rfl | hb
        · left; rfl
        · rcases List.mem_cons.mp hb with rfl | hb
          · exact .inr h'.1
          · exact .inl (((plus1_iff _ _).mp h'.2).2 b hb)
    · subst hc
      refine ⟨⟨48, t, rfl, by omega, by omega⟩, ?_⟩
      intro b hb
      rcases List.mem_cons.mp hb with rfl | hb
      · left; rfl
      · exact .inl (octDigit_hex ((star_iff _ _).mp h b hb))

/-- ALPHABET of the integer language -/
theorem isInt_chars {w : Bytes} (h : Lang.isInt w = true) : ∀ b ∈ w, IntCh b := by
  unfold Lang.isInt at h
  rcases (optSign_iff _ _).mp h with h | ⟨s, r, rfl, hs, h⟩
  · intro b hb
    rcases (isIntBody_chars h).2 b hb with h | h | h
    · exact .inr (.inr (.inl h))
    · exact .inr (.inr (.inr (.inl h)))
    · exact .inr (.inr (.inr (.inr h)))
  · intro b hb
    rcases List.mem_cons.mp hb with rfl | hb
    · rcases (sign_iff _).mp hs with h | h
      · exact .inl h
      · exact .inr (.inl h)
    · rcases (isIntBody_chars h).2 b hb with h | h | h
      · exact .inr (.inr (.inl h))
      · exact .inr (.inr (.inr (.inl h)))
      · exact .inr (.inr (.inr (.inr h)))

theorem isExponent_chars {w : Bytes} (h : Lang.isExponent w = true) : ∀ b ∈ w, FloatCh b := by
  cases w with
  | nil => cases h
  | cons e r =>
    have h' : (e = 101 ∨ e = 69) ∧ Lang.optSign (Lang.plus1 Lang.digit) r = true := by
      simpa [Lang.isExponent] using h
    have hd : ∀ {u : Bytes}, Lang.plus1 Lang.digit u = true → ∀ b ∈ u, FloatCh b := by
      intro u hu b hb
      exact .inr (.inr (.inr (.inr (.inr (digit_le (((plus1_iff _ _).mp hu).2 b hb))))))
    intro b hb
    rcases List.mem_cons.mp hb with rfl | hb
    · rcases h'.1 with h | h
      · exact .inr (.inr (.inr (.inl h)))
      · exact .inr (.inr (.inr (.inr (.inl h))))
    · rcases (optSign_iff _ _).mp h'.2 with h | ⟨s, r', rfl, hs, h⟩
      · exact hd h b hb
      · rcases List.mem_cons.mp hb with rfl | hb
        · rcases (sign_iff _).mp hs with h | h
          · exact .inl h
          · exact .inr (.inl h)
        · exact hd h b hb

/-- an unsigned float lexeme: digits, then `.`; all bytes in the float alphabet -/
theorem isFloatBody_chars {w : Bytes} (h : Lang.isFloatBody w = true) :
    (∃ c t, w = c :: t ∧ (c = 46 ∨ (48 ≤ c ∧ c ≤ 57))) ∧ 46 ∈ w ∧ ∀ b ∈ w, FloatCh b := by
  unfold Lang.isFloatBody at h
  obtain ⟨a, f, rfl, ha, hf⟩ := (cat_iff _ _ _).mp h
  have ha' := (star_iff _ _).mp ha
  cases f with
  | nil => cases hf
  | cons d r =>
    have hd : d = 46 := by
      by_cases hd : d = 46
      · exact hd
      · exfalso
        unfold Lang.isFraction at hf
        split at hf
        · rename_i heq; injection heq with h1 _; exact hd h1
        · cases hf
    subst hd
    have hf' : Lang.cat (Lang.plus1 Lang.digit) (Lang.opt Lang.isExponent) r = true := hf
    obtain ⟨fr, ex, rfl, hfr, hex⟩ := (cat_iff _ _ _).mp hf'
    refine ⟨?_, by simp, ?_⟩
    · cases a with
      | nil => exact ⟨46, _, rfl, .inl rfl⟩
      | cons c t => exact ⟨c, _, rfl, .inr (digit_le (ha' c (by simp)))⟩
    · intro b hb
      rcases List.mem_append.mp hb with hb | hb
      · exact .inr (.inr (.inr (.inr (.inr (digit_le (ha' b hb))))))
      · rcases List.mem_cons.mp hb with rfl | hb
        · exact .inr (.inr (.inl rfl))
        · rcases List.mem_append.mp hb with hb | hb
          · exact .inr (.inr (.inr (.inr (.inr (digit_le (((plus1_iff _ _).mp hfr).2 b hb))))))
          · rcases (opt_iff _ _).mp hex with rfl | hex
            · cases hb
            · exact isExponent_chars hex b hb

/-- ALPHABET of the float language; every float lexeme contains a `.` -/
theorem isFloat_chars {w : Bytes} (h : Lang.isFloat w = true) : 46 ∈ w ∧ ∀ b ∈ w, FloatCh b := by
  unfold Lang.isFloat at h
  rcases (optSign_iff _ _).mp h with h | ⟨s, r, rfl, hs, h⟩
  · exact (isFloatBody_chars h).2
  · obtain ⟨_, h46, hall⟩ := isFloatBody_chars h
    refine ⟨List.mem_cons_of_mem _ h46, ?_⟩
    intro b hb
    rcases List.mem_cons.mp hb with rfl | hb
    · rcases (sign_iff _).mp hs with h | h
      · exact .inl h
      · exact .inr (.inl h)
    · exact hall b hb

theorem intCh_not_dot : ¬ IntCh 46 := by
  intro h
  rcases h with h | h | h | h | h <;> revert h <;> decide

theorem adelim_not_intCh {tail : Bytes} (ht : ADelim tail) : ∀ c, tail.head? = some c → ¬ IntCh c := by
  intro c hc h
  have hd := ht c hc
  rcases h with h | h | h | h | h
  · omega
  · omega
  · unfold Lang.hexDigit at h; simp at h; omega
  · omega
  · omega

theorem adelim_not_floatCh {tail : Bytes} (ht : ADelim tail) : ∀ c, tail.head? = some c → ¬ FloatCh c := by
  intro c hc h
  have hd := ht c hc
  unfold FloatCh at h
  omega

theorem adelim_not_dot {tail : Bytes} (h : ADelim tail) : tail.head? ≠ some 46 := by
  intro hc
  have := h 46 hc
  omega

/-! ### longest prefixes -/

/-- a prefix of `l ++ tail` longer than `l` contains the first byte of `tail` -/
theorem take_append_mem {l tail : Bytes} {j : Nat} (h1 : l.length < j) (h2 : j ≤ (l ++ tail).length) :
    ∃ c, tail.head? = some c ∧ c ∈ (l ++ tail).take j := by
  cases tail with
  | nil => simp at h2; omega
  | cons c t =>
    refine ⟨c, rfl, ?_⟩
    obtain ⟨m, rfl⟩ : ∃ m, j = l.length + (m + 1) := ⟨j - l.length - 1, by omega⟩
    rw [List.take_length_add_append]
    simp

/-- a word of `L` followed by a byte outside the alphabet of `L` is the longest prefix in `L` -/
theorem longestPrefix_append {L : Bytes → Bool} (P : Nat → Prop) (hL : ∀ w, L w = true → ∀ b ∈ w, P b)
    {l tail : Bytes} (hl : L l = true) (ht : ∀ c, tail.head? = some c → ¬ P c) :
    Lang.longestPrefix L (l ++ tail) = some l.length := by
  apply longestPrefix_eq_some (by simp) (by rw [List.take_left]; exact hl)
  intro j h1 h2
  obtain ⟨c, hc, hmem⟩ := take_append_mem h1 h2
  apply Bool.eq_false_iff.mpr
  intro h
  exact ht c hc (hL _ h c hmem)

theorem longestPrefix_isInt_append {l tail : Bytes} (h : Lang.IsInt l) (ht : ADelim tail) :
    Lang.longestPrefix Lang.isInt (l ++ tail) = some l.length :=
  longestPrefix_append IntCh (fun _ => isInt_chars) h (adelim_not_intCh ht)

theorem longestPrefix_isFloat_append {l tail : Bytes} (h : Lang.IsFloat l) (ht : ADelim tail) :
    Lang.longestPrefix Lang.isFloat (l ++ tail) = some l.length :=
  longestPrefix_append FloatCh (fun _ hw => (isFloat_chars hw).2) h (adelim_not_floatCh ht)

theorem longestPrefix_isFloat_int {l tail : Bytes} (h : Lang.IsInt l) (ht : ADelim tail) :
    Lang.longestPrefix Lang.isFloat (l ++ tail) = none := by
  rw [longestPrefix_none]
  intro j hj
  apply Bool.eq_false_iff.mpr
  intro hf
  obtain ⟨h46, hall⟩ := isFloat_chars hf
  by_cases hjl : j ≤ l.length
  · rw [List.take_append_of_le_length hjl] at h46
    exact intCh_not_dot (isInt_chars h 46 (List.mem_of_mem_take h46))
  · obtain ⟨c, hc, hmem⟩ := take_append_mem (by omega) hj
    exact adelim_not_floatCh ht c hc (hall c hmem)

theorem integerMatch_append {l tail : Bytes} (h : Lang.IsInt l) (ht : ADelim tail) :
    integerMatch (l ++ tail) = some l.length := by
  rw [integerMatch_eq_longest]; exact longestPrefix_isInt_append h ht

theorem floatMatch_append {l tail : Bytes} (h : Lang.IsFloat l) (ht : ADelim tail) :
    floatMatch (l ++ tail) = some l.length := by
  rw [floatMatch_eq_longest]; exact longestPrefix_isFloat_append h ht

/-! ### first bytes -/

theorem isInt_head {l : Bytes} (h : Lang.IsInt l) : ∃ c t, l = c :: t ∧ (c = 45 ∨ c = 43 ∨ (48 ≤ c ∧ c ≤ 57)) := by
  have h' : Lang.optSign Lang.isIntBody l = true := h
  rcases (optSign_iff _ _).mp h' with h | ⟨s, r, rfl, hs, _⟩
  · obtain ⟨⟨c, t, rfl, hc⟩, _⟩ := isIntBody_chars h
    exact ⟨c, t, rfl, .inr (.inr hc)⟩
  · refine ⟨s, r, rfl, ?_⟩
    rcases (sign_iff _).mp hs with h | h
    · exact .inl h
    · exact .inr (.inl h)

theorem isFloat_head {l : Bytes} (h : Lang.IsFloat l) :
    ∃ c t, l = c :: t ∧ (c = 45 ∨ c = 43 ∨ c = 46 ∨ (48 ≤ c ∧ c ≤ 57)) := by
  have h' : Lang.optSign Lang.isFloatBody l = true := h
  rcases (optSign_iff _ _).mp h' with h | ⟨s, r, rfl, hs, _⟩
  · obtain ⟨⟨c, t, rfl, hc⟩, _⟩ := isFloatBody_chars h
    exact ⟨c, t, rfl, .inr (.inr hc)⟩
  · refine ⟨s, r, rfl, ?_⟩
    rcases (sign_iff _).mp hs with h | h
    · exact .inl h
    · exact .inr (.inl h)

/-! ### forward: a lexeme followed by a delimiter -/

/-- Integer on an integer lexeme in int64 range followed by a delimiter -/
theorem integerSpec_fwd {l tail : Bytes} (h : Lang.IsInt l)
    (hr : -(2 : Int) ^ 63 ≤ Lang.intValue l ∧ Lang.intValue l < (2 : Int) ^ 63) (ht : ADelim tail) (pos : Nat) :
    integerSpec (l ++ tail) pos = .node (.term intTok (.int (Lang.intValue l)) pos (pos + l.length)) := by
  unfold integerSpec
  rw [integerMatch_append h ht]
  simp only [List.drop_left, List.take_left]
  rw [if_neg (adelim_not_dot ht), (c08_parseInt0_spec l h _).mpr ⟨rfl, hr.1, hr.2⟩, J16.tok_int]

/-- the float expression does not match where an integer lexeme followed by a delimiter stands -/
theorem floatMatch_int {l tail : Bytes} (h : Lang.IsInt l) (ht : ADelim tail) : floatMatch (l ++ tail) = none := by
  rw [floatMatch_eq_longest]; exact longestPrefix_isFloat_int h ht

/-- Float on a float lexeme that ParseFloat accepts, followed by a delimiter -/
theorem floatSpec_fwd (P : Params) {l tail : Bytes} (h : Lang.IsFloat l) (hf : P.floatOk l = true) (ht : ADelim tail)
    (pos : Nat) : floatSpec P (l ++ tail) pos = .node (.term floatTok (.float l) pos (pos + l.length)) := by
  unfold floatSpec
  rw [floatMatch_append h ht]
  simp only [List.take_left, hf, if_true, J16.tok_float]

theorem adelim_not_word {tail : Bytes} (h : ADelim tail) : (tail.head?.all fun d => !isWordByte d) = true := by
  cases tail with
  | nil => rfl
  | cons c t =>
    have := h c rfl
    simp only [List.head?_cons, Option.all_some, isWordByte]
    simp; omega

/-- a word followed by a delimiter -/
theorem wordAt_adelim (w tail : Bytes) (ht : ADelim tail) : wordAt w (w ++ tail) = true := by
  rw [c08_wordAt]
  exact ⟨List.prefix_append w tail, by rw [List.drop_left]; exact adelim_not_word ht⟩

/-! ### inversion -/

theorem integerSpec_inv {l : Bytes} {pos : Nat} {n : Node} (h : integerSpec l pos = .node n) :
    ∃ lex t, l = lex ++ t ∧ Lang.IsInt lex ∧ -(2 : Int) ^ 63 ≤ Lang.intValue lex ∧ Lang.intValue lex < (2 : Int) ^ 63 ∧
      n = .term intTok (.int (Lang.intValue lex)) pos (pos + lex.length) := by
  obtain ⟨k, v, hm, _, hp, hn⟩ := (integerSpec_node l pos n).mp h
  have hint : Lang.IsInt (l.take k) := integerMatch_sound l k hm
  have hk : k ≤ l.length := longestPrefix_le (integerMatch_eq_longest l ▸ hm)
  obtain ⟨hv, h1, h2⟩ := (c08_parseInt0_spec _ hint v).mp hp
  subst hv
  have hlen : (l.take k).length = k := by rw [List.length_take]; omega
  refine ⟨l.take k, l.drop k, (List.take_append_drop k l).symm, hint, h1, h2, ?_⟩
  rw [hn, hlen, J16.tok_int]

theorem floatSpec_inv (P : Params) {l : Bytes} {pos : Nat} {n : Node} (h : floatSpec P l pos = .node n) :
    ∃ lex t, l = lex ++ t ∧ Lang.IsFloat lex ∧ P.floatOk lex = true ∧
      n = .term floatTok (.float lex) pos (pos + lex.length) := by
  obtain ⟨k, hm, hok, hn⟩ := (floatSpec_node P l pos n).mp h
  have hfl : Lang.IsFloat (l.take k) := floatMatch_sound l k hm
  have hk : k ≤ l.length := longestPrefix_le (floatMatch_eq_longest l ▸ hm)
  have hlen : (l.take k).length = k := by rw [List.length_take]; omega
  refine ⟨l.take k, l.drop k, (List.take_append_drop k l).symm, hfl, hok, ?_⟩
  rw [hn, hlen, J16.tok_float]

/-- a word terminal's match: the word, then whatever follows -/
theorem wordAt_inv {w l : Bytes} (h : wordAt w l = true) : ∃ t, l = w ++ t := by
  obtain ⟨t, ht⟩ := ((c08_wordAt w l).mp h).1
  exact ⟨t, ht.symm⟩

/-! ### not vacuous -/
-- `0x1F`, `-017`, `+.5e-3`
example : Lang.IsInt [48, 120, 49, 70] ∧ ADelim [12, 49] :=
  ⟨(by decide : Lang.isInt [48, 120, 49, 70] = true), adelim_cons (by decide)⟩
example : integerMatch ([45, 48, 49, 55] ++ [93]) = some 4 :=
  integerMatch_append (by decide : Lang.isInt [45, 48, 49, 55] = true) (adelim_cons (by decide))
example : floatMatch ([43, 46, 53, 101, 45, 51] ++ [12]) = some 6 :=
  floatMatch_append (by decide : Lang.isFloat [43, 46, 53, 101, 45, 51] = true) (adelim_cons (by decide))

end PV.J16Acc
