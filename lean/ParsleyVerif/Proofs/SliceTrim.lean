import ParsleyVerif.Proofs.SliceStepAll
/-
  SetReaderPos: it keeps the invariant (so every reachable state satisfies it), and it changes what a handle
  reads only if the handle can see a trimmed node or the trimmed array (`affected`).
-/
namespace PV.Slice

/-! ### what the loop touches -/

theorem bump_bump (o : NodeObj) (a b : Nat) : (o.bump a).bump b = o.bump (a + b) := by
  cases o <;> simp [NodeObj.bump, Nat.add_assoc]

theorem bump_zero (o : NodeObj) : o.bump 0 = o := by cases o <;> simp [NodeObj.bump]

/-- node objects only had their end position moved -/
def NodesSim (nodes nodes' : List NodeObj) : Prop :=
  nodes'.length = nodes.length ∧ ∀ (n : Nat) (o : NodeObj), nodes[n]? = some o → ∃ e, nodes'[n]? = some (o.bump e)

theorem NodesSim.refl (nodes : List NodeObj) : NodesSim nodes nodes :=
  ⟨rfl, fun n o h => ⟨0, by rw [bump_zero]; exact h⟩⟩

theorem NodesSim.trans {a b c : List NodeObj} (h1 : NodesSim a b) (h2 : NodesSim b c) : NodesSim a c := by
  refine ⟨by rw [h2.1, h1.1], fun n o ho => ?_⟩
  obtain ⟨e1, he1⟩ := h1.2 n o ho
  obtain ⟨e2, he2⟩ := h2.2 n _ he1
  exact ⟨e1 + e2, by rw [he2, bump_bump]⟩

theorem NodesSim.modify (nodes : List NodeObj) (m d : Nat) : NodesSim nodes (nodes.modify m (NodeObj.bump d)) := by
  refine ⟨by simp, fun n o ho => ?_⟩
  rw [List.getElem?_modify]
  by_cases hmn : m = n
  · subst hmn; exact ⟨d, by simp [ho]⟩
  · exact ⟨0, by simp [hmn, ho, bump_zero]⟩

theorem NodesSim.nt {nodes nodes' : List NodeObj} (h : NodesSim nodes nodes') {n tok : Nat} {sl : Slice} {pos rpos : Nat}
    (hn : nodes'[n]? = some (NodeObj.nt tok sl pos rpos)) : ∃ r0, nodes[n]? = some (NodeObj.nt tok sl pos r0) := by
  have hlt : n < nodes.length := by
    rw [← h.1]
    by_cases hl : n < nodes'.length
    · exact hl
    · rw [List.getElem?_eq_none (by omega)] at hn; cases hn
  have hs : nodes[n]? = some nodes[n] := by simp [hlt]
  obtain ⟨e, he⟩ := h.2 n _ hs
  rw [he] at hn
  cases ho : nodes[n] with
  | term t v p r => rw [ho] at hn; simp [NodeObj.bump] at hn
  | nt t c p r =>
    rw [ho] at hn
    simp only [NodeObj.bump, Option.some.injEq, NodeObj.nt.injEq] at hn
    obtain ⟨h1, h2, h3, _⟩ := hn
    exact ⟨r, by rw [hs, ho, h1, h2, h3]⟩

/-- arrays keep their number and sizes -/
def SameShape (arrs arrs' : Arrs) : Prop :=
  arrs'.length = arrs.length ∧ ∀ a, (cells arrs' a).length = (cells arrs a).length

theorem SameShape.refl (arrs : Arrs) : SameShape arrs arrs := ⟨rfl, fun _ => rfl⟩

theorem SameShape.trans {a b c : Arrs} (h1 : SameShape a b) (h2 : SameShape b c) : SameShape a c :=
  ⟨by rw [h2.1, h1.1], fun x => by rw [h2.2 x, h1.2 x]⟩

theorem SameShape.write (arrs : Arrs) (a i : Nat) (v : Handle) : SameShape arrs (writeCell arrs a i v) := by
  refine ⟨by simp [writeCell], fun b => ?_⟩
  unfold writeCell
  by_cases hab : a = b
  · subst hab
    by_cases ha : a < arrs.length
    · rw [cells_modify_same _ _ _ ha]; simp
    · rw [cells_modify_oob _ _ _ (by omega)]
  · rw [cells_modify_ne _ _ _ _ hab]

theorem SameShape.swf {arrs arrs' : Arrs} (h : SameShape arrs arrs') {sl : Slice} (w : SWF arrs sl) : SWF arrs' sl := by
  refine ⟨w.1, ?_⟩
  rcases w.2 with h0 | ⟨h1, h2⟩
  · exact Or.inl h0
  · exact Or.inr ⟨by rw [h.1]; exact h1, by rw [h.2]; exact h2⟩

theorem setRPCell_sim (d : Nat) (nodes : List NodeObj) (c : Handle) : NodesSim nodes (setRPCell d nodes c).1 := by
  cases c <;> simp only [setRPCell]
  · exact NodesSim.refl _
  · exact NodesSim.modify _ _ _
  · exact NodesSim.refl _
  · exact NodesSim.refl _
  · exact NodesSim.refl _

theorem setRPCell_ok (d : Nat) (nodes : List NodeObj) (c : Handle) {n : Nat} (hc : CellOK n c) :
    CellOK n (setRPCell d nodes c).2 := by
  cases c <;> simp only [setRPCell] <;> first | exact hc | trivial

theorem setRPCell_node_ne (d : Nat) (nodes : List NodeObj) (c : Handle) (n : Nat) (hne : c ≠ Handle.ptr n) :
    (setRPCell d nodes c).1[n]? = nodes[n]? := by
  cases c with
  | ptr m =>
    simp only [setRPCell]
    rw [List.getElem?_modify]
    have : m ≠ n := fun h => hne (by rw [h])
    simp [this]
  | _ => rfl

theorem setRPCell_nil (d : Nat) (nodes : List NodeObj) (c : Handle) (h : (setRPCell d nodes c).2 = Handle.nil) :
    c = Handle.nil := by
  cases c <;> simp [setRPCell] at h ⊢

/-- a nil cell after `nl[k] = SetReaderPos(nl[k], f)` was a nil cell before -/
theorem writeCell_nil_back (d : Nat) (nodes : List NodeObj) (arrs : Arrs) (arr k a j : Nat)
    (h : (cells (writeCell arrs arr k (setRPCell d nodes ((cells arrs arr).getD k Handle.nil)).2) a)[j]? = some Handle.nil) :
    (cells arrs a)[j]? = some Handle.nil := by
  unfold writeCell at h
  by_cases haa : arr = a
  · subst haa
    by_cases hlt : arr < arrs.length
    · rw [cells_modify_same _ _ _ hlt, List.getElem?_set] at h
      by_cases hkj : k = j
      · subst hkj
        by_cases hb : k < (cells arrs arr).length
        · simp only [if_true, hb] at h
          have := setRPCell_nil d nodes _ (by simpa using h)
          rw [List.getElem?_eq_getElem hb] at this ⊢
          simpa using this
        · simp [hb] at h
      · simpa [hkj] using h
    · rw [cells_modify_oob _ _ _ (by omega)] at h; exact h
  · rw [cells_modify_ne _ _ _ _ haa] at h; exact h

/-- the loop of NodeList.SetReaderPos over cells `k .. k+cnt-1` of array `arr`; `arrs0` is the heap before the loop -/
theorem trimLoop_spec (d arr : Nat) (arrs0 : Arrs) (N : Nat) :
    ∀ (cnt k : Nat) (nodes : List NodeObj) (arrs : Arrs),
      (∀ j, k ≤ j → (cells arrs arr)[j]? = (cells arrs0 arr)[j]?) → CellsOK N arrs →
      NodesSim nodes (trimLoop d arr cnt k nodes arrs).1 ∧
      SameShape arrs (trimLoop d arr cnt k nodes arrs).2 ∧
      CellsOK N (trimLoop d arr cnt k nodes arrs).2 ∧
      (∀ a, a ≠ arr → cells (trimLoop d arr cnt k nodes arrs).2 a = cells arrs a) ∧
      (∀ n, (∀ j, k ≤ j → j < k + cnt → (cells arrs0 arr)[j]? ≠ some (Handle.ptr n)) →
        (trimLoop d arr cnt k nodes arrs).1[n]? = nodes[n]?) ∧
      (∀ (a j : Nat), (cells (trimLoop d arr cnt k nodes arrs).2 a)[j]? = some Handle.nil → (cells arrs a)[j]? = some Handle.nil) := by
  intro cnt
  induction cnt with
  | zero =>
    intro k nodes arrs _ ok
    exact ⟨NodesSim.refl _, SameShape.refl _, ok, fun _ _ => rfl, fun _ _ => rfl, fun _ _ h => h⟩
  | succ cnt ih =>
    intro k nodes arrs h0 ok
    simp only [trimLoop]
    have hcell : CellOK N ((cells arrs arr).getD k Handle.nil) := by
      rw [List.getD_eq_getElem?_getD]
      cases hk : (cells arrs arr)[k]? with
      | none => trivial
      | some c => exact ok arr c (List.mem_of_getElem? hk)
    have ok1 : CellsOK N (writeCell arrs arr k (setRPCell d nodes ((cells arrs arr).getD k Handle.nil)).2) :=
      cellsOK_write ok _ _ _ (setRPCell_ok d nodes _ hcell)
    have h1 : ∀ j, k + 1 ≤ j →
        (cells (writeCell arrs arr k (setRPCell d nodes ((cells arrs arr).getD k Handle.nil)).2) arr)[j]? = (cells arrs0 arr)[j]? := by
      intro j hj
      rw [← h0 j (by omega)]
      unfold writeCell
      by_cases ha : arr < arrs.length
      · rw [cells_modify_same _ _ _ ha, List.getElem?_set]
        have : ¬ k = j := by omega
        simp [this]
      · rw [cells_modify_oob _ _ _ (by omega)]
    obtain ⟨r1, r2, r3, r4, r5, r6⟩ := ih (k + 1) (setRPCell d nodes ((cells arrs arr).getD k Handle.nil)).1 _ h1 ok1
    refine ⟨(setRPCell_sim d nodes _).trans r1, (SameShape.write arrs arr k _).trans r2, r3, ?_, ?_, ?_⟩
    · intro a ha
      rw [r4 a ha]
      unfold writeCell
      exact cells_modify_ne _ _ _ _ (fun h => ha h.symm)
    · intro n hn
      rw [r5 n (fun j hj1 hj2 => hn j (by omega) (by omega))]
      apply setRPCell_node_ne
      intro hc
      apply hn k (Nat.le_refl _) (by omega)
      rw [← h0 k (Nat.le_refl _)]
      rw [List.getD_eq_getElem?_getD] at hc
      cases hk : (cells arrs arr)[k]? with
      | none => rw [hk] at hc; simp at hc
      | some c => rw [hk] at hc; simp at hc; rw [hc]
    · intro a j hj
      exact writeCell_nil_back d nodes arrs arr k a j (r6 a j hj)

/-! ### SetReaderPos keeps the invariant -/

theorem view_nil_back {arrs arrs' : Arrs}
    (h : ∀ (a j : Nat), (cells arrs' a)[j]? = some Handle.nil → (cells arrs a)[j]? = some Handle.nil) (sl : Slice)
    (hm : Handle.nil ∈ view arrs' sl) : Handle.nil ∈ view arrs sl := by
  obtain ⟨j, hj⟩ := List.getElem?_of_mem hm
  simp only [view, List.getElem?_take] at hj
  by_cases hlt : j < sl.len
  · rw [if_pos hlt] at hj
    have := h sl.arr j hj
    apply List.mem_of_getElem? (i := j)
    simp only [view, List.getElem?_take, if_pos hlt]
    exact this
  · rw [if_neg hlt] at hj; cases hj

theorem Inv.reshape {s : St} {top : Nat → Nat} (inv : Inv s top) (nodes' : List NodeObj) (arrs' : Arrs)
    (hn : NodesSim s.nodes nodes') (sh : SameShape s.arrs arrs') (ok : CellsOK s.nodes.length arrs')
    (hnil : ∀ sl, Handle.nil ∈ view arrs' sl → Handle.nil ∈ view s.arrs sl) :
    Inv ({ s with nodes := nodes', arrs := arrs' } : St) top := by
  have hmono : ∀ {h : Handle}, HWF s top h → HWF ({ s with nodes := nodes', arrs := arrs' } : St) top h := by
    intro h hw
    cases h with
    | ptr m => show m < nodes'.length; rw [hn.1]; exact hw
    | list sl => exact ⟨sh.swf hw.1, hw.2.1, hw.2.2.1, fun h => hw.2.2.2 (hnil sl h)⟩
    | _ => trivial
  refine ⟨fun a ha => inv.topz a (by simp at ha; rw [sh.1] at ha; exact ha), (by show CellsOK nodes'.length arrs'; rw [hn.1]; exact ok),
    fun e he => hmono (inv.pool e he), fun kv hkv => ⟨hmono (inv.memo kv hkv).1, (inv.memo kv hkv).2⟩, ?_, inv.own, inv.uniq,
    fun b hb => ⟨sh.swf (inv.bufs b hb).1, (inv.bufs b hb).2⟩⟩
  intro n tok sl pos rpos hnn
  obtain ⟨r0, hr0⟩ := hn.nt hnn
  exact ⟨sh.swf (inv.nodes n tok sl pos r0 hr0).1, (inv.nodes n tok sl pos r0 hr0).2⟩

theorem setRP_shape (d : Nat) {s : St} {top : Nat → Nat} (inv : Inv s top) (h : Handle) :
    NodesSim s.nodes (setRP d s h).1.nodes ∧ SameShape s.arrs (setRP d s h).1.arrs ∧
    CellsOK s.nodes.length (setRP d s h).1.arrs ∧
    (∀ sl, Handle.nil ∈ view (setRP d s h).1.arrs sl → Handle.nil ∈ view s.arrs sl) ∧
    (setRP d s h).1 = ({ s with nodes := (setRP d s h).1.nodes, arrs := (setRP d s h).1.arrs } : St) := by
  cases h with
  | ptr m => exact ⟨NodesSim.modify _ _ _, SameShape.refl _, inv.cellok, fun _ h => h, rfl⟩
  | list sl =>
    obtain ⟨r1, r2, r3, _, _, r6⟩ := trimLoop_spec d sl.arr s.arrs s.nodes.length sl.len 0 s.nodes s.arrs (fun _ _ => rfl) inv.cellok
    exact ⟨r1, r2, r3, view_nil_back r6, rfl⟩
  | nil => exact ⟨NodesSim.refl _, SameShape.refl _, inv.cellok, fun _ h => h, rfl⟩
  | empty p => exact ⟨NodesSim.refl _, SameShape.refl _, inv.cellok, fun _ h => h, rfl⟩
  | eof p => exact ⟨NodesSim.refl _, SameShape.refl _, inv.cellok, fun _ h => h, rfl⟩

theorem setRP_result (d : Nat) (s : St) (h : Handle) :
    (setRP d s h).2 = h ∨ (∃ p, h = Handle.empty p ∧ (setRP d s h).2 = Handle.empty (p + d)) := by
  cases h with
  | empty p => exact Or.inr ⟨p, rfl, rfl⟩
  | _ => exact Or.inl rfl

theorem step_trim_inv (grow : Nat → Nat) {s : St} {top : Nat → Nat} (inv : Inv s top) (i d : Nat) :
    (∃ top', Inv (step grow s (Op.setReaderPos i d)).1 top') ∧ Ext s (step grow s (Op.setReaderPos i d)).1 := by
  simp only [step]
  split
  · rename_i h hg
    split
    · exact ⟨⟨top, inv⟩, Ext.refl _⟩
    · obtain ⟨hn, sh, ok, hnil, heq⟩ := setRP_shape d inv h
      have inv1 := inv.reshape _ _ hn sh ok hnil
      rw [← heq] at inv1
      have inv2 := inv1.kill i
      have hext : Ext s (((setRP d s h).1.kill i).push (setRP d s h).2) := by
        refine Ext.trans (s2 := (setRP d s h).1) ?_ ((Ext.kill _ i).trans (Ext.push _ _))
        rw [heq]; exact Ext.of_eq rfl rfl
      refine ⟨?_, hext⟩
      have hw := inv.get_hwf hg
      have hw1 : HWF ((setRP d s h).1.kill i) top h := by
        cases h with
        | ptr m => show m < (setRP d s (Handle.ptr m)).1.nodes.length; rw [hn.1]; exact hw
        | list sl => exact ⟨sh.swf hw.1, hw.2.1, hw.2.2.1, fun h => hw.2.2.2 (hnil sl h)⟩
        | _ => trivial
      rcases setRP_result d s h with hr | ⟨p, hp, hr⟩
      · rw [hr]
        cases h with
        | list sl =>
          refine ⟨_, inv2.push_list sl hw1.1 hw1.2.1 (inv.get_safe hg) hw1.2.2.2 ?_ ?_⟩
          · intro hm k e slk hk hl
            obtain ⟨e0, h0, _, hlv⟩ := kill_pool_get hk
            obtain ⟨_, hki, rfl⟩ := hlv hl.1
            have hpool : (setRP d s (Handle.list sl)).1.pool = s.pool := by rw [heq]
            have hmemo : (setRP d s (Handle.list sl)).1.memo = s.memo := by rw [heq]
            rw [hpool] at h0
            have hl0 : Linear s e slk := ⟨hl.1, hl.2.1, by rw [← inMemo_congr (s := s) (s' := (setRP d s (Handle.list sl)).1.kill i) hmemo]; exact hl.2.2⟩
            obtain ⟨ei, hei, hli, hhi⟩ := get_some hg
            have hm' : inMemo s (Handle.list sl) = false := by
              rw [← inMemo_congr (s := s) (s' := (setRP d s (Handle.list sl)).1.kill i) hmemo]; exact hm
            intro harr
            exact hki (inv.uniq k i e ei slk sl h0 hei hl0 ⟨hli, hhi, hm'⟩ harr)
          · intro b hb hc
            have hbufs : (setRP d s (Handle.list sl)).1.bufs = s.bufs := by rw [heq]
            have hb' : b ∈ s.bufs := by rw [← hbufs]; exact hb
            exact inv.buf_ne hw b hb' hc
        | nil => exact ⟨top, inv2.push_flat _ hw1 (by intro sl; simp)⟩
        | ptr m => exact ⟨top, inv2.push_flat _ hw1 (by intro sl; simp)⟩
        | empty p => exact ⟨top, inv2.push_flat _ hw1 (by intro sl; simp)⟩
        | eof p => exact ⟨top, inv2.push_flat _ hw1 (by intro sl; simp)⟩
      · rw [hr]
        exact ⟨top, inv2.push_flat _ trivial (by intro sl; simp)⟩
  · exact ⟨⟨top, inv⟩, Ext.refl _⟩

/-! ### what SetReaderPos can change -/

theorem setRP_frame (d : Nat) {s : St} {top : Nat → Nat} (inv : Inv s top) (h : Handle) :
    (setRP d s h).1.nodes.length = s.nodes.length ∧
    (∀ n, n ∉ trimNodes s h → (setRP d s h).1.nodes[n]? = s.nodes[n]?) ∧
    (∀ a, trimArr h ≠ some a → cells (setRP d s h).1.arrs a = cells s.arrs a) := by
  cases h with
  | ptr m =>
    refine ⟨by simp [setRP], fun n hn => ?_, fun _ _ => rfl⟩
    simp only [setRP, List.getElem?_modify]
    have : m ≠ n := fun h => hn (by simp [trimNodes, h])
    simp [this]
  | list sl =>
    obtain ⟨r1, _, _, r4, r5, _⟩ := trimLoop_spec d sl.arr s.arrs s.nodes.length sl.len 0 s.nodes s.arrs (fun _ _ => rfl) inv.cellok
    refine ⟨r1.1, fun n hn => ?_, fun a ha => ?_⟩
    · apply r5 n
      intro j _ hj hc
      apply hn
      simp only [trimNodes, List.mem_filterMap]
      refine ⟨Handle.ptr n, ?_, rfl⟩
      have : (view s.arrs sl)[j]? = some (Handle.ptr n) := by
        simp only [view, List.getElem?_take]
        rw [if_pos (by omega)]; exact hc
      exact List.mem_of_getElem? this
    · apply r4 a
      intro h; apply ha; simp [trimArr, h]
  | nil => exact ⟨rfl, fun _ _ => rfl, fun _ _ => rfl⟩
  | empty p => exact ⟨rfl, fun _ _ => rfl, fun _ _ => rfl⟩
  | eof p => exact ⟨rfl, fun _ _ => rfl, fun _ _ => rfl⟩

/-- node `n` exists and cannot see the written objects -/
def Clean (s : St) (wn : List Nat) (wa : Option Nat) (n : Nat) : Prop :=
  n < s.nodes.length ∧ (dirtyTable s wn wa).getD n false = false

theorem clean_unfold {s : St} {wn : List Nat} {wa : Option Nat} {n : Nat} (hc : Clean s wn wa n) :
    dirtyNode s.nodes s.arrs wn wa (build (dirtyNode s.nodes s.arrs wn wa) n) n = false := by
  have := hc.2
  unfold dirtyTable at this
  rw [List.getD_eq_getElem?_getD, build_get _ _ _ hc.1] at this
  simpa using this

theorem view_eq_of_not_written {arrs arrs' : Arrs} {wa : Option Nat} {sl : Slice}
    (hf : ∀ a, wa ≠ some a → cells arrs' a = cells arrs a) (hw : ¬ (wa = some sl.arr ∧ 0 < sl.len)) :
    view arrs' sl = view arrs sl := by
  unfold view
  by_cases h : wa = some sl.arr
  · have : sl.len = 0 := by
      by_cases h0 : 0 < sl.len
      · exact absurd ⟨h, h0⟩ hw
      · omega
    rw [this]; simp
  · rw [hf sl.arr h]

theorem trim_agree (d : Nat) {s : St} {top : Nat → Nat} (inv : Inv s top) (h : Handle) :
    Agree s (setRP d s h).1 (Clean s (trimNodes s h) (trimArr h)) := by
  obtain ⟨f1, f2, f3⟩ := setRP_frame d inv h
  refine ⟨fun n hc => ⟨hc.1, by rw [f1]; exact hc.1⟩, fun n hc => ?_, fun n tok sl pos rpos hc hn => ?_,
    fun n tok sl pos rpos m hc hn hm hmn => ?_⟩
  · apply f2
    have := clean_unfold hc
    unfold dirtyNode at this
    simp only [Bool.or_eq_false_iff] at this
    intro hmem
    have h1 := this.1
    simp [List.contains_eq_mem, hmem] at h1
  · apply view_eq_of_not_written f3
    have := clean_unfold hc
    unfold dirtyNode at this
    rw [hn] at this
    simp only [Bool.or_eq_false_iff, decide_eq_false_iff_not] at this
    exact this.2.1
  · refine ⟨by have := hc.1; omega, ?_⟩
    have := clean_unfold hc
    unfold dirtyNode at this
    rw [hn] at this
    simp only [Bool.or_eq_false_iff, List.any_eq_false] at this
    have hcd := this.2.2 (Handle.ptr m) hm
    simp only [cellDirty, Bool.not_eq_true] at hcd
    unfold dirtyTable
    rw [List.getD_eq_getElem?_getD] at hcd ⊢
    rw [build_get _ _ _ (by have := hc.1; omega)]
    rw [build_get _ _ _ hmn] at hcd
    exact hcd

/-- **SetReaderPos frame lemma**: a handle that cannot see the trimmed objects reads the same afterwards -/
theorem trim_frame (d : Nat) {s : St} {top : Nat → Nat} (inv : Inv s top) (h h' : Handle) (hw' : HWF s top h')
    (na : affected s (trimNodes s h) (trimArr h) h' = false) :
    render (setRP d s h).1 h' = render s h' := by
  obtain ⟨_, _, f3⟩ := setRP_frame d inv h
  apply render_agree (trim_agree d inv h) h'
  · cases h' with
    | ptr m =>
      simp only [affected, cellDirty] at na
      exact ⟨hw', na⟩
    | list sl =>
      intro m hm
      simp only [affected, Bool.or_eq_false_iff, List.any_eq_false] at na
      have hcd := na.2 (Handle.ptr m) hm
      simp only [cellDirty, Bool.not_eq_true] at hcd
      exact ⟨view_cellOK inv.cellok sl _ hm, hcd⟩
    | _ => trivial
  · intro sl hsl
    subst hsl
    apply view_eq_of_not_written f3
    simp only [affected, Bool.or_eq_false_iff, decide_eq_false_iff_not] at na
    exact na.1

end PV.Slice
