/-
  The tie of the translated `text.NewFile` (Generated/FactsProg.lean `NewFile`): the prelude's `bytes.Replace(s, old, new, -1)`
  (`Go.bytesReplaceAll`, general left-to-right non-overlapping replacement) instantiated at old = "\r\n", new = "\n" is the
  model's `normCRLF`; the struct the translated function returns shows `Text.newFile name raw`.
  Hand-written sides and the proof about the generated definition.
-/
import ParsleyVerif.Proofs.TxtTieFileSet
namespace PV.TxtTie
open PV.ProgPrelude PV.FactsProg PV.ProgTie

/-- replacing every "\r\n" by "\n", from the left and without overlap, is the model's CRLF normalisation -/
theorem replaceAll_crlf (l : List Nat) : replaceAll [13, 10] [10] 0 (ints l) = ints (Text.normCRLF l) := by
  fun_induction Text.normCRLF l with
  | case1 r ih =>
    simp only [ints_cons, replaceAll]
    rw [if_pos (by simp)]
    simp only [List.length_cons, List.length_nil, Nat.zero_add, Nat.add_one_sub_one, List.singleton_append, replaceAll]
    rw [ih]; rfl
  | case2 b r h ih =>
    have hp : [13, 10].isPrefixOf ((b : Int) :: ints r) = false := by
      cases r with
      | nil => simp [List.isPrefixOf]
      | cons c r =>
        rw [Bool.eq_false_iff]
        intro hp
        simp only [ints_cons, List.isPrefixOf_cons_cons, List.isPrefixOf_nil_left, Bool.and_true, Bool.and_eq_true,
          beq_iff_eq] at hp
        exact h r (by omega) (by rw [show c = 10 by omega])
    rw [ints_cons, replaceAll, if_neg (by rw [hp]; simp), ih]
    rfl
  | case3 => rfl

/-- where `old` does not occur nothing is replaced -/
theorem replaceAll_absent (old new : List Int) (l : List Int) (h : occursIn old l = false) : replaceAll old new 0 l = l := by
  induction l with
  | nil => rfl
  | cons b r ih =>
    simp only [occursIn, Bool.or_eq_false_iff] at h
    simp only [replaceAll]
    rw [if_neg (by rw [h.1]; simp), ih h.2]

/-- `bytes.Replace(s, old, new, -1)` for a non-empty `old`: the result shows the replaced bytes; it is either the nil slice
    (nothing allocated) or one fresh array -/
theorem bytesReplaceAll_spec (st : St) (s old new : Sl) (ho : view st old ≠ []) :
    ∃ d st', Go.bytesReplaceAll s old new st = .ok d st' ∧ Grows st st' ∧
      view st' d = replaceAll (view st old) (view st new) 0 (view st s) ∧
      d.len = (replaceAll (view st old) (view st new) 0 (view st s)).length ∧
      ((d = Go.nilSl ∧ st' = st) ∨ (d.isNil = false ∧ d.arr = st.arrays.length ∧ st'.arrays.length = st.arrays.length + 1)) := by
  by_cases hoc : occursIn (view st old) (view st s) = true
  · refine ⟨_, _, by simp only [Go.bytesReplaceAll, hoc, if_true, if_neg ho]; rfl, Grows.push st _, ?_, rfl, Or.inr ⟨rfl, rfl, by simp⟩⟩
    simp [view, cells, List.getD_eq_getElem?_getD]
  · have hoc' : occursIn (view st old) (view st s) = false := by simpa using hoc
    rw [replaceAll_absent _ _ _ hoc']
    by_cases hs : view st s = []
    · refine ⟨Go.nilSl, st, ?_, Grows.refl st, ?_, ?_, Or.inl ⟨rfl, rfl⟩⟩
      · rw [hs] at hoc'
        simp only [Go.bytesReplaceAll, hoc', Bool.false_eq_true, if_false, Go.appendList, hs, if_true]
      · rw [hs]; simp [view, Go.nilSl]
      · rw [hs]; rfl
    · have hpos : 0 < (view st s).length := List.length_pos_iff.mpr hs
      refine ⟨_, _, by
        simp only [Go.bytesReplaceAll, hoc', Bool.false_eq_true, if_false, Go.appendList, if_neg hs]
        rw [if_neg (by simp only [Go.nilSl]; omega)], Grows.push st _, ?_, ?_, Or.inr ⟨rfl, rfl, by simp⟩⟩
      · simp only [Go.nilSl, Nat.zero_add]
        simp [view, cells, List.getD_eq_getElem?_getD]
      · simp [Go.nilSl]

/-- `[]byte(str)`, with the number of arrays afterwards -/
theorem bytesOf_spec' (st : St) (str : Str) :
    ∃ s st', Go.bytesOf str st = .ok s st' ∧ Grows st st' ∧ view st' s = str ∧ s.len = str.length ∧
      st'.arrays.length = st.arrays.length + 1 := by
  refine ⟨_, _, rfl, Grows.push st _, ?_, rfl, by simp⟩
  simp [view, cells, List.getD_eq_getElem?_getD]

theorem lit_crlf : Go.lit "\r\n" = [13, 10] := by decide
theorem lit_lf : Go.lit "\n" = [10] := by decide

/-- **NewFile**: for every state and every data slice of it (a header into an existing array, or an empty one — the nil
    slice included) the translated function returns a file that shows the model's `newFile name raw` (data = the
    CRLF-normalised bytes, len = their number, offset = `Facts.newFileOffset`, the name kept), with the line cache absent
    (nil); nothing that existed is written, the data array is fresh (or the nil slice, for an empty input) -/
theorem tie_NewFile (st : St) (name : String) (D : Sl) (raw : List Nat) (hv : view st D = ints raw)
    (hD : D.arr < st.arrays.length ∨ D.len = 0) :
    ∃ (F : FactsProg.File) (st' : St),
      NewFile name D st = .ok F st' ∧ FileOk st' F (Text.newFile name raw) ∧ F.lines = Go.nilSl ∧
      F.offset = (Facts.newFileOffset : Int) ∧ F.filename = name ∧
      view st' F.data = ints (Text.normCRLF raw) ∧ F.len = ((Text.normCRLF raw).length : Int) ∧
      Keeps st.arrays.length st st' ∧ (F.data.isNil = true ∨ st.arrays.length ≤ F.data.arr) := by
  obtain ⟨t1, st1, e1, g1, v1, l1, n1⟩ := bytesOf_spec' st (Go.lit "\r\n")
  obtain ⟨t2, st2, e2, g2, v2, l2, n2⟩ := bytesOf_spec' st1 (Go.lit "\n")
  have v1' : view st2 t1 = [13, 10] := by rw [view_grows g2 t1 (by rw [v1, l1]), v1, lit_crlf]
  have v2' : view st2 t2 = [10] := by rw [v2, lit_lf]
  have g12 : Grows st st2 := g1.trans g2
  have hD2 : view st2 D = ints raw := by
    rcases hD with ha | h0
    · simp only [view, cells_grows g12 ha]; exact hv
    · rw [← hv]; simp [view, h0]
  have hlen12 : st.arrays.length ≤ st2.arrays.length := g12.keeps.len
  have hlen2 : 2 ≤ st2.arrays.length := by omega
  obtain ⟨d, st3, e3, g3, v3, l3, hfresh⟩ := bytesReplaceAll_spec st2 D t1 t2 (by rw [v1']; simp)
  rw [v1', v2', hD2, replaceAll_crlf] at v3 l3
  have g13 : Grows st st3 := g12.trans g3
  refine ⟨{ filename := name, data := d, lines := Go.nilSl, len := Go.len d, offset := 1 }, st3, ?_, ?_, rfl, rfl, rfl, v3,
    (by simp [Go.len, l3]), g13.keeps, ?_⟩
  · simp only [NewFile, bind_apply, e1, e2, e3, pure_apply]
  · refine ⟨⟨by rw [v3]; rfl, by simpa [Text.newFile] using l3, by simp [Go.len, l3, Text.newFile], rfl, rfl⟩, Or.inl rfl, ?_, fun h => by cases h⟩
    rcases hfresh with ⟨hd, hs⟩ | ⟨_, ha, hl⟩
    · rw [hd, hs]; show 0 < st2.arrays.length; omega
    · show d.arr < st3.arrays.length; omega
  · rcases hfresh with ⟨hd, _⟩ | ⟨_, ha, _⟩
    · left; rw [hd]; rfl
    · right; show st.arrays.length ≤ d.arr; omega

end PV.TxtTie
