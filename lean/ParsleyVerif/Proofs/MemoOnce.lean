/-
  C03, "evaluates at most once per position": the invariant, by induction on fuel over all of `run`.

  From a state in which
    * every cache entry was stored with an empty left-recursion context and an empty curtailing set, and
    * every (parser, position) whose body has been started exactly once is either still running (on the
      ghost activation stack) or has its entry in the cache,
  a call whose final log contains no curtail event (and, for the second part, no re-entry) re-establishes
  both, returns an empty curtailing set, and restores the activation stack.
  `K` switches the second part (and the `NoReentry` hypothesis) on and off, so that the first part is
  available under `NoCurtail` alone.
-/
import ParsleyVerif.Proofs.MemoBasics
namespace PV
open PV.Text

def GoodLog (K : Prop) (log : List Ev) : Prop := NoCurtail log ∧ (K → NoReentry log)

theorem GoodLog.of_suffix {K : Prop} {l l' : List Ev} (h : GoodLog K l') (hs : l <:+ l') : GoodLog K l :=
  ⟨h.1.of_suffix hs, fun k => (h.2 k).of_suffix hs⟩

def hasKey (c : List CacheEntry) (i p : Nat) : Prop := ∃ e ∈ c, e.idx = i ∧ e.pos = p

structure OInv (K : Prop) (st : St) : Prop where
  ent : ∀ e ∈ st.cache, e.ctx = [] ∧ e.cp = []
  once : K → ∀ i p, bodyRuns st.log i p ≤ 1
  done : K → ∀ i p, bodyRuns st.log i p = 1 → (i, p) ∈ st.active ∨ hasKey st.cache i p

structure OPost (K : Prop) (st : St) (o : Out) (st' : St) : Prop where
  inv : OInv K st'
  active : st'.active = st.active
  cp : o.cp = []

def RunOnce (K : Prop) (r : RunFn) : Prop :=
  ∀ g ctx pos st o st', r g ctx pos st = some (o, st') → GoodLog K st'.log → OInv K st → OPost K st o st'

theorem OInv.of_eq {K : Prop} {st st' : St} (h : OInv K st) (hc : st'.cache = st.cache) (hl : st'.log = st.log)
    (ha : st'.active = st.active) : OInv K st' :=
  ⟨by rw [hc]; exact h.ent, by rw [hl]; exact h.once, by rw [hl, ha, hc]; exact h.done⟩

theorem OInv.setError {K : Prop} {st : St} (h : OInv K st) (e : Option Err) : OInv K (st.setError e) :=
  h.of_eq (setError_cache _ _) (setError_log _ _) (setError_active _ _)

theorem OInv.logOther {K : Prop} {st : St} (h : OInv K st) (ev : Ev) (hev : ∀ i p d, ev ≠ Ev.body i p d) :
    OInv K { st with log := ev :: st.log } :=
  ⟨h.ent, fun k i p => by simp only [bodyRuns_cons_other _ _ hev]; exact h.once k i p,
   fun k i p => by simp only [bodyRuns_cons_other _ _ hev]; exact h.done k i p⟩

theorem cacheGet_of_hasKey {c : List CacheEntry} (hent : ∀ e ∈ c, e.ctx = [] ∧ e.cp = []) {i p : Nat}
    (hk : hasKey c i p) (ctx : Ctx) : ∃ e, cacheGet c i p ctx = some e := by
  obtain ⟨x, hx, hi, hp⟩ := hk
  unfold cacheGet
  cases hf : c.find? (fun e => e.idx == i && e.pos == p) with
  | none =>
    have := List.find?_eq_none.mp hf x hx
    simp [hi, hp] at this
  | some e =>
    have hm := List.mem_of_find?_eq_some hf
    simp [(hent e hm).1]

theorem hasKey_cacheSave_self (c : List CacheEntry) (e : CacheEntry) : hasKey (cacheSave c e) e.idx e.pos :=
  ⟨e, List.mem_cons_self .., rfl, rfl⟩

theorem hasKey_cacheSave {c : List CacheEntry} {i p : Nat} (h : hasKey c i p) (e : CacheEntry) :
    hasKey (cacheSave c e) i p := by
  obtain ⟨x, hx, hi, hp⟩ := h
  by_cases hk : x.idx = e.idx ∧ x.pos = e.pos
  · exact ⟨e, List.mem_cons_self .., by rw [← hk.1]; exact hi, by rw [← hk.2]; exact hp⟩
  · refine ⟨x, ?_, hi, hp⟩
    unfold cacheSave
    refine List.mem_cons_of_mem _ (List.mem_filter.mpr ⟨hx, ?_⟩)
    simp only [Bool.not_eq_eq_eq_not, Bool.not_true, Bool.and_eq_false_imp, beq_iff_eq, beq_eq_false_iff_ne, ne_eq]
    intro h1 h2; exact hk ⟨h1, h2⟩

theorem Ctx.filter_nil (c : Ctx) : Ctx.filter c [] = [] := by
  unfold Ctx.filter
  simp

theorem seqAfter_cp (m : Bool) (ss : SeqSt) (o : Out) (h1 : ss.cp = []) (h2 : o.cp = []) :
    (seqAfter m ss o).cp = [] := by
  unfold seqAfter
  cases m <;> simp [h1, h2, cpUnion]

/-! ### the Sequence family -/

theorem seqParse_once (K : Prop) (r : RunFn) (hg : RunGrow r) (hr : RunOnce K r) (sh : SeqShape) :
    ∀ (fuel : Nat) (fr : Frame) ss st b ss' st',
      (GoodLog K st.log → OInv K st ∧ ss.cp = []) → fr.depth = fr.nodes.length →
      seqParse r sh fuel fr.depth fr.nodes fr.ctx fr.pos fr.merge ss st = some (b, ss', st') →
      Grow st st' ∧ (GoodLog K st'.log → OInv K st → ss.cp = [] → OInv K st' ∧ ss'.cp = [] ∧ st'.active = st.active) := by
  have call : ∀ (fr : Frame) (ss : SeqSt) (s : St) (g : G) (o : Out) (s1 : St),
      r g fr.ctx fr.pos s.regCall = some (o, s1) →
      Grow s s1 ∧ (GoodLog K s1.log → OInv K s → ss.cp = [] →
        OInv K s1 ∧ (seqAfter fr.merge ss o).cp = [] ∧ s1.active = s.active) := by
    intro fr ss s g o s1 hrun
    have hgr : Grow s s1 := (Grow.regCall s).trans (hg _ _ _ _ _ _ hrun)
    refine ⟨hgr, fun hgood hinv hcp => ?_⟩
    have hp := hr _ _ _ _ _ _ hrun hgood (hinv.of_eq rfl rfl rfl)
    exact ⟨hp.inv, seqAfter_cp _ _ _ hcp hp.cp, hp.active⟩
  refine seqParse_ind r sh
    (fun _ ss st => GoodLog K st.log → OInv K st ∧ ss.cp = [])
    (fun ss st ss' st' => Grow st st' ∧
      (GoodLog K st'.log → OInv K st → ss.cp = [] → OInv K st' ∧ ss'.cp = [] ∧ st'.active = st.active))
    ?_ ?_ ?_ ?_ ?_
  · intro ss st; exact ⟨Grow.refl _, fun _ h1 h2 => ⟨h1, h2, rfl⟩⟩
  · intro a b c d e f h1 h2
    refine ⟨h1.1.trans h2.1, fun hgood hinv hcp => ?_⟩
    obtain ⟨i1, c1, a1⟩ := h1.2 (hgood.of_suffix h2.1.log) hinv hcp
    obtain ⟨i2, c2, a2⟩ := h2.2 hgood i1 c1
    exact ⟨i2, c2, by rw [a2, a1]⟩
  · intro fr ss st ss' st' hJ hE hgood
    obtain ⟨i0, c0⟩ := hJ (hgood.of_suffix hE.1.log)
    obtain ⟨i1, c1, _⟩ := hE.2 hgood i0 c0
    exact ⟨i1, c1⟩
  · intro fr ss st g o st1 hJ _ _ hrun
    obtain ⟨hgr, hc⟩ := call fr ss st g o st1 hrun
    refine ⟨⟨hgr, hc⟩, ?_, ?_⟩
    · intro n _ hgood
      obtain ⟨i0, c0⟩ := hJ (hgood.of_suffix hgr.log)
      obtain ⟨i1, c1, _⟩ := hc hgood i0 c0
      exact ⟨i1, c1⟩
    · intro _ _
      exact ⟨hgr, hc⟩
  · intro fr ss st _ _ _ _
    refine ⟨Grow.refl _, fun _ hinv hcp => ⟨hinv, ?_, rfl⟩⟩
    exact seqAfter_cp _ _ _ hcp rfl

/-! ### the induction -/

theorem run_once (K : Prop) (cfg : Cfg) (hgh : cfg.ghost = true) : ∀ fuel, RunOnce K (run cfg fuel) := by
  intro fuel
  induction fuel with
  | zero => intro g ctx pos st o st' h; simp [run] at h
  | succ fuel ih =>
    intro g ctx pos st o st' h hgood hinv
    have hgrow := run_grow cfg fuel
    cases hsh : g.shape with
    | some sh =>
      rw [run_seqfam cfg fuel g sh ctx pos st hsh] at h
      split at h
      · cases h
      · unfold runSeq at h
        split at h
        · cases h
        · rename_i b ss st1 hsp
          have hfin := seqFinish_fields sh pos ss st1
          generalize seqFinish sh pos ss st1 = fin at h hfin
          obtain ⟨fo, fs⟩ := fin
          cases h
          obtain ⟨hcp, hst⟩ := hfin
          simp only at hcp hst
          have hfl : st'.log = st1.log := by
            cases hst with
            | inl h1 => rw [h1]
            | inr h1 => rw [h1, setError_log]
          obtain ⟨_, hE⟩ := seqParse_once K (run cfg fuel) hgrow ih sh fuel ⟨0, [], ctx, pos, true⟩ {} st b ss st1
            (fun _ => ⟨hinv, rfl⟩) rfl hsp
          obtain ⟨i1, c1, a1⟩ := hE (by rw [← hfl]; exact hgood) hinv rfl
          cases hst with
          | inl h1 => rw [h1]; exact ⟨i1, a1, by rw [hcp]; exact c1⟩
          | inr h1 => rw [h1]; exact ⟨i1.setError _, by rw [setError_active]; exact a1, by rw [hcp]; exact c1⟩
    | none =>
    cases hw : g.wrap cfg.file pos with
    | some w =>
      rw [run_wrap cfg fuel g w ctx pos st hw] at h
      split at h
      · cases h
      · split at h
        · cases h
        · rename_i o1 st1 hr
          cases h
          rw [wrap_fix_eq hw] at hgood ⊢
          have hp := ih _ _ _ _ _ _ hr hgood hinv
          exact ⟨hp.inv, hp.active, wrap_out_cp hw _ hp.cp⟩
    | none =>
    unfold run at h
    split at h
    · cases h
    · cases g with
      | term t =>
        simp only at h
        split at h
        · cases h; exact ⟨hinv, rfl, rfl⟩
        · cases h
          rw [logEv_ghost hgh]
          exact ⟨hinv.logOther _ (by intro _ _ _ hc; cases hc), rfl, rfl⟩
        · cases h; exact ⟨hinv, rfl, rfl⟩
      | empty => simp only at h; cases h; exact ⟨hinv, rfl, rfl⟩
      | eof =>
        simp only at h
        split at h
        · cases h; exact ⟨hinv, rfl, rfl⟩
        · cases h
          rw [logEv_ghost hgh]
          exact ⟨hinv.logOther _ (by intro _ _ _ hc; cases hc), rfl, rfl⟩
      | ref k =>
        simp only at h
        split at h
        · exact ih _ _ _ _ _ _ h hgood hinv
        · cases h; exact ⟨hinv, rfl, rfl⟩
      | memo idx body =>
        simp only at h
        cases hc : cacheGet st.cache idx pos ctx with
        | some e =>
          simp only [hc] at h
          cases h
          rw [logEv_ghost hgh]
          exact ⟨hinv.logOther _ (by intro _ _ _ hc; cases hc), rfl, (hinv.ent e (cacheGet_some hc).1).2⟩
        | none =>
          simp only [hc] at h
          by_cases hcur : ctx.get idx > remaining cfg.file pos + Facts.curtailSlack
          · simp only [hcur, ↓reduceIte] at h
            cases h
            rw [logEv_ghost hgh] at hgood
            exact absurd (List.mem_cons_self ..) (hgood.1 idx pos)
          · simp only [hcur, ↓reduceIte] at h
            split at h
            · cases h
            · rename_i o2 st2 hr
              cases h
              rw [logEv_ghost hgh] at hr
              simp only at hr hgood
              have hsuf := (hgrow _ _ _ _ _ _ hr).log
              simp only at hsuf
              -- the body of this (parser, position) has not been started before
              have hzero : K → bodyRuns st.log idx pos = 0 := by
                intro k
                have h1 := hinv.once k idx pos
                by_cases h0 : bodyRuns st.log idx pos = 0
                · exact h0
                · exfalso
                  have h1' : bodyRuns st.log idx pos = 1 := by omega
                  cases hinv.done k idx pos h1' with
                  | inr hk =>
                    obtain ⟨e, he⟩ := cacheGet_of_hasKey hinv.ent hk ctx
                    rw [hc] at he; cases he
                  | inl hact =>
                    have hd := (hgood.2 k) idx pos _ (hsuf.subset (List.mem_cons_self ..))
                    have hpos : 0 < (st.active.filter (fun a => a.1 == idx && a.2 == pos)).length := by
                      apply List.length_pos_of_mem (a := (idx, pos))
                      exact List.mem_filter.mpr ⟨hact, by simp⟩
                    omega
              generalize hdd : (st.active.filter (fun a => a.1 == idx && a.2 == pos)).length + 1 = dd at hr hsuf
              have hinv1 : OInv K { st with active := (idx, pos) :: st.active, log := Ev.body idx pos dd :: st.log } := by
                refine ⟨hinv.ent, ?_, ?_⟩
                · intro k i p
                  simp only [bodyRuns_cons_body]
                  have := hinv.once k i p
                  by_cases hip : idx = i ∧ pos = p
                  · obtain ⟨rfl, rfl⟩ := hip
                    have := hzero k
                    simp; omega
                  · simp only [hip, ↓reduceIte]; omega
                · intro k i p
                  simp only [bodyRuns_cons_body]
                  by_cases hip : idx = i ∧ pos = p
                  · obtain ⟨rfl, rfl⟩ := hip
                    intro _; exact .inl (List.mem_cons_self ..)
                  · simp only [hip, ↓reduceIte, Nat.add_zero]
                    intro h1
                    cases hinv.done k i p h1 with
                    | inl ha => exact .inl (List.mem_cons_of_mem _ ha)
                    | inr hk => exact .inr hk
              have hp := ih _ _ _ _ _ _ hr hgood hinv1
              have hact2 : st2.active = (idx, pos) :: st.active := hp.active
              refine ⟨⟨?_, hp.inv.once, ?_⟩, rfl, hp.cp⟩
              · intro e he
                cases mem_cacheSave he with
                | inl h1 => subst h1; simp only [hp.cp, Ctx.filter_nil, and_self]
                | inr h1 => exact hp.inv.ent e h1
              · intro k i p h1
                cases hp.inv.done k i p h1 with
                | inl ha =>
                  rw [hact2] at ha
                  cases ha with
                  | head => exact .inr (hasKey_cacheSave_self st2.cache _)
                  | tail _ ha => exact .inl ha
                | inr hk => exact .inr (hasKey_cacheSave hk _)
      | any gs =>
        simp only at h
        split at h
        · cases h
        · rename_i a st1 hl
          have hA := anyLoop_ind (run cfg fuel) ctx pos
            (fun a s => Grow st s ∧ (GoodLog K s.log → OInv K s ∧ s.active = st.active ∧ a.cp = [])) gs
            (by
              intro g' _ a s o' s' hA hr
              have hgr : Grow s s' := (Grow.regCall s).trans (hgrow _ _ _ _ _ _ hr)
              refine ⟨hA.1.trans hgr, fun hgood' => ?_⟩
              obtain ⟨i0, a0, c0⟩ := hA.2 (hgood'.of_suffix hgr.log)
              have hp := ih _ _ _ _ _ _ hr hgood' (i0.of_eq rfl rfl rfl)
              refine ⟨hp.inv, by rw [hp.active]; exact a0, ?_⟩
              rw [(altErr_fields pos _ o'.err).1]
              simp [c0, hp.cp, cpUnion])
            {} st a st1 ⟨Grow.refl _, fun _ => ⟨hinv, rfl, rfl⟩⟩ hl
          split at h
          · cases h
            obtain ⟨i1, a1, c1⟩ := hA.2 hgood
            exact ⟨i1, a1, c1⟩
          · cases h
            rw [setError_log] at hgood
            obtain ⟨i1, a1, c1⟩ := hA.2 hgood
            exact ⟨i1.setError _, by rw [setError_active]; exact a1, c1⟩
      | choice gs =>
        simp only at h
        have hF := choiceLoop_ind (run cfg fuel) ctx pos
          (fun a s => Grow st s ∧ (GoodLog K s.log → OInv K s ∧ s.active = st.active ∧ a.cp = []))
          (fun out a s => GoodLog K s.log → OInv K s ∧ s.active = st.active ∧ a.cp = [] ∧
            ∀ o', out = some o' → o'.cp = []) gs
          (by
            intro a s hA hgood'
            obtain ⟨i0, a0, c0⟩ := hA.2 hgood'
            exact ⟨i0, a0, c0, by intro o' ho; cases ho⟩)
          (by
            intro g' _ a s o' s' hA hr
            have hgr : Grow s s' := (Grow.regCall s).trans (hgrow _ _ _ _ _ _ hr)
            have key : GoodLog K s'.log → OInv K s' ∧ s'.active = st.active ∧
                (altErr pos { a with cp := cpUnion a.cp o'.cp } o'.err).cp = [] := by
              intro hgood'
              obtain ⟨i0, a0, c0⟩ := hA.2 (hgood'.of_suffix hgr.log)
              have hp := ih _ _ _ _ _ _ hr hgood' (i0.of_eq rfl rfl rfl)
              refine ⟨hp.inv, by rw [hp.active]; exact a0, ?_⟩
              rw [(altErr_fields pos _ o'.err).1]
              simp [c0, hp.cp, cpUnion]
            refine ⟨fun _ hgood' => ?_, fun _ => ⟨hA.1.trans hgr, key⟩⟩
            rw [setError_log] at hgood'
            obtain ⟨i1, a1, c1⟩ := key hgood'
            refine ⟨i1.setError _, by rw [setError_active]; exact a1, c1, ?_⟩
            intro o2 ho2
            cases ho2
            exact c1)
        split at h
        · cases h
        · rename_i o1 a st1 hl
          cases h
          obtain ⟨i1, a1, _, c2⟩ := hF {} st (some o) a st' ⟨Grow.refl _, fun _ => ⟨hinv, rfl, rfl⟩⟩ hl hgood
          exact ⟨i1, a1, c2 o rfl⟩
        · rename_i a st1 hl
          cases h
          obtain ⟨i1, a1, c1, _⟩ := hF {} st none a st' ⟨Grow.refl _, fun _ => ⟨hinv, rfl, rfl⟩⟩ hl hgood
          exact ⟨i1, a1, c1⟩
      | optional g' => simp [G.wrap] at hw
      | name g' nm => simp [G.wrap] at hw
      | single g' => simp [G.wrap] at hw
      | suppress g' => simp [G.wrap] at hw
      | ltrim g' m => simp [G.wrap] at hw
      | rtrim g' m => simp [G.wrap] at hw
      | seq k gs o => simp [G.shape] at hsh
      | many g' ae o => simp [G.shape] at hsh
      | sepBy v s ae o => simp [G.shape] at hsh

end PV
