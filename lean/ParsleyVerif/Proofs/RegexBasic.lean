/-
  Generic lemmas about the backtracking semantics of Spec/Regex.lean: the run equations, the candidate
  lists of `p*` and `p+` for a byte class `p` (`[n, …, 0]` and `[n, …, 1]` with `n = spanLen p l`), and what
  the first candidate of `p* X`, `p+ X`, `[-+]? X`, `X*` is.
-/
import ParsleyVerif.Spec.Regex
import ParsleyVerif.Proofs.Terminal
namespace PV
open PV.Text
open Rx

namespace Rx

/-- `[n, n-1, …, 0]` -/
def down : Nat → List Nat
  | 0 => [0]
  | n + 1 => (n + 1) :: down n

theorem down_map_succ (n : Nat) : (down n).map (1 + ·) ++ [0] = down (n + 1) := by
  induction n with
  | zero => rfl
  | succ n ih => rw [down, List.map_cons, List.cons_append, ih, Nat.add_comm 1]; rfl

theorem head?_down (n : Nat) : (down n).head? = some n := by cases n <;> rfl

theorem findSome?_down_none (g : Nat → Option Nat) (n : Nat) (h : ∀ i, i ≤ n → g i = none) :
    (down n).findSome? g = none := by
  induction n with
  | zero => simp [down, h 0]
  | succ n ih =>
    rw [down, List.findSome?_cons, h (n + 1) (Nat.le_refl _)]
    exact ih (fun i hi => h i (by omega))

theorem findSome?_down (g : Nat → Option Nat) (n : Nat) (h : ∀ i, i < n → g i = none) :
    (down n).findSome? g = g n := by
  cases n with
  | zero => simp [down]
  | succ n =>
    rw [down, List.findSome?_cons, findSome?_down_none g n (fun i hi => h i (by omega))]
    cases g (n + 1) <;> rfl

theorem findSome?_down_some (g : Nat → Option Nat) (n : Nat) (h : (g n).isSome) :
    (down n).findSome? g = g n := by
  cases n with
  | zero => simp [down]
  | succ n =>
    rw [down, List.findSome?_cons]
    cases hg : g (n + 1) with
    | none => rw [hg] at h; cases h
    | some v => rfl

/-! run equations -/
@[simp] theorem run_byte_cons (p : Nat → Bool) (f c : Nat) (t : Bytes) :
    (Re.byte p).run f (c :: t) = if p c then [1] else [] := rfl
@[simp] theorem run_byte_nil (p : Nat → Bool) (f : Nat) : (Re.byte p).run f [] = [] := rfl
@[simp] theorem run_eps (f : Nat) (l : Bytes) : Re.eps.run f l = [0] := rfl
theorem run_seq (a b : Re) (f : Nat) (l : Bytes) :
    (Re.seq a b).run f l = (a.run f l).flatMap fun i => (b.run f (l.drop i)).map (i + ·) := rfl
@[simp] theorem run_alt (a b : Re) (f : Nat) (l : Bytes) : (Re.alt a b).run f l = a.run f l ++ b.run f l := rfl
theorem run_star (a : Re) (f : Nat) (l : Bytes) : (Re.star a).run f l = starRun (a.run f) f l := rfl
@[simp] theorem run_group_opt (a : Re) (f : Nat) (l : Bytes) : a.opt.run f l = a.run f l ++ [0] := rfl

@[simp] theorem run_seq_byte_cons (p : Nat → Bool) (b : Re) (f c : Nat) (t : Bytes) :
    (Re.seq (.byte p) b).run f (c :: t) = if p c then (b.run f t).map (1 + ·) else [] := by
  rw [run_seq, run_byte_cons]
  by_cases h : p c = true
  · simp [h]
  · simp [h]

@[simp] theorem run_seq_byte_nil (p : Nat → Bool) (b : Re) (f : Nat) :
    (Re.seq (.byte p) b).run f [] = [] := by
  rw [run_seq, run_byte_nil]; rfl

theorem run_seq_assoc (a b c : Re) (f : Nat) (l : Bytes) :
    (Re.seq (.seq a b) c).run f l = (Re.seq a (.seq b c)).run f l := by
  simp only [run_seq, List.flatMap_assoc, List.flatMap_map, List.map_flatMap, List.map_map, List.drop_drop]
  congr 1; funext i; congr 1; funext j; congr 1
  funext k; simp [Nat.add_assoc]

theorem run_seq_alt (a b c : Re) (f : Nat) (l : Bytes) :
    (Re.seq (.alt a b) c).run f l = (Re.seq a c).run f l ++ (Re.seq b c).run f l := by
  simp only [run_seq, run_alt, List.flatMap_append]

theorem run_seq_eps (c : Re) (f : Nat) (l : Bytes) : (Re.seq .eps c).run f l = c.run f l := by
  simp [run_seq]

theorem head?_run_seq (a b : Re) (f : Nat) (l : Bytes) :
    ((Re.seq a b).run f l).head? = (a.run f l).findSome? fun i => ((b.run f (l.drop i)).head?).map (i + ·) := by
  rw [run_seq, List.head?_flatMap]; simp only [List.head?_map]

/-! star and plus of a byte class -/
theorem spanLen_nil (p : Nat → Bool) : spanLen p [] = 0 := rfl
theorem spanLen_cons (p : Nat → Bool) (c : Nat) (t : Bytes) :
    spanLen p (c :: t) = if p c then spanLen p t + 1 else 0 := by
  unfold spanLen; rw [List.takeWhile_cons]; by_cases h : p c = true <;> simp [h]

theorem starRun_byte (p : Nat → Bool) (F : Nat) : ∀ (f : Nat) (l : Bytes), l.length ≤ f →
    starRun ((Re.byte p).run F) f l = down (spanLen p l) := by
  intro f
  induction f with
  | zero => intro l h; cases l with
    | nil => rfl
    | cons => simp at h
  | succ f ih =>
    intro l h
    cases l with
    | nil => simp [starRun, spanLen_nil, down]
    | cons c t =>
      rw [starRun, run_byte_cons, spanLen_cons]
      by_cases hc : p c = true
      · have := ih t (by simpa using h)
        simp [hc, this, down_map_succ]
      · simp [hc, down]

theorem run_star_byte (p : Nat → Bool) (f : Nat) (l : Bytes) (h : l.length ≤ f) :
    (Re.star (.byte p)).run f l = down (spanLen p l) := starRun_byte p f f l h

theorem run_plus_byte (p : Nat → Bool) (f : Nat) (l : Bytes) (h : l.length ≤ f) :
    (Re.byte p).plus.run f l = if 0 < spanLen p l then (down (spanLen p l - 1)).map (1 + ·) else [] := by
  unfold Re.plus
  cases l with
  | nil => simp [spanLen_nil]
  | cons c t =>
    rw [run_seq_byte_cons, spanLen_cons]
    by_cases hc : p c = true
    · simp [hc, run_star_byte p f t (by simp at h; omega)]
    · simp [hc]

theorem spanLen_drop (p : Nat → Bool) (l : Bytes) (i : Nat) (h : i < spanLen p l) :
    ∃ c t, l.drop i = c :: t ∧ p c = true := by
  induction l generalizing i with
  | nil => simp [spanLen_nil] at h
  | cons c t ih =>
    rw [spanLen_cons] at h
    by_cases hc : p c = true
    · cases i with
      | zero => exact ⟨c, t, rfl, hc⟩
      | succ i => rw [if_pos hc] at h; exact ih i (by omega)
    · rw [if_neg hc] at h; omega

def isSign (b : Nat) : Bool := b == 45 || b == 43

theorem signLen_cons (c : Nat) (t : Bytes) : signLen (c :: t) = if isSign c = true then 1 else 0 := by
  unfold signLen isSign
  split
  · rename_i h; cases h; rfl
  · rename_i h; cases h; rfl
  · rename_i h1 h2
    have a : c ≠ 45 := fun e => h1 t (by rw [e])
    have b : c ≠ 43 := fun e => h2 t (by rw [e])
    simp [a, b]

theorem head?_signed (X : Re) (f : Nat) (l : Bytes)
    (hX : ∀ c t, l = c :: t → isSign c = true → X.run f l = []) :
    ((Re.seq (Re.byte isSign).opt X).run f l).head? =
      ((X.run f (l.drop (signLen l))).head?).map (signLen l + ·) := by
  unfold Re.opt
  rw [run_seq_alt, run_seq_eps]
  cases l with
  | nil => simp [signLen]
  | cons c t =>
    rw [run_seq_byte_cons, signLen_cons]
    by_cases hc : isSign c = true
    · rw [if_pos hc, if_pos hc, hX c t rfl hc]; simp
    · rw [if_neg hc, if_neg hc]; simp

theorem findSome?_plus (g : Nat → Option Nat) (n : Nat) (hn : 0 < n) (h : ∀ i, 0 < i → i < n → g i = none) :
    ((down (n - 1)).map (1 + ·)).findSome? g = g n := by
  rw [List.findSome?_map, findSome?_down]
  · show g (1 + (n - 1)) = g n
    congr 1; omega
  · intro i hi; exact h (1 + i) (by omega) (by omega)

theorem findSome?_plus_some (g : Nat → Option Nat) (n : Nat) (hn : 0 < n) (h : (g n).isSome) :
    ((down (n - 1)).map (1 + ·)).findSome? g = g n := by
  have e : 1 + (n - 1) = n := by omega
  rw [List.findSome?_map, findSome?_down_some]
  · show g (1 + (n - 1)) = g n
    rw [e]
  · show (g (1 + (n - 1))).isSome
    rw [e]; exact h

/-- `p* X` where `X` cannot start with a byte of `p`: only the longest run of `p` is followed by `X` -/
theorem head?_star_byte_seq (p : Nat → Bool) (X : Re) (f : Nat) (l : Bytes) (h : l.length ≤ f)
    (hX : ∀ c t, p c = true → X.run f (c :: t) = []) :
    ((Re.seq (.star (.byte p)) X).run f l).head? =
      ((X.run f (l.drop (spanLen p l))).head?).map (spanLen p l + ·) := by
  rw [head?_run_seq, run_star_byte p f l h, findSome?_down]
  intro i hi
  obtain ⟨c, t, hd, hc⟩ := spanLen_drop p l i hi
  rw [hd, hX c t hc]; rfl

/-- `p+ X` where `X` cannot start with a byte of `p` -/
theorem head?_plus_byte_seq (p : Nat → Bool) (X : Re) (f : Nat) (l : Bytes) (h : l.length ≤ f)
    (hX : ∀ c t, p c = true → X.run f (c :: t) = []) :
    ((Re.seq (Re.byte p).plus X).run f l).head? =
      if 0 < spanLen p l then ((X.run f (l.drop (spanLen p l))).head?).map (spanLen p l + ·) else none := by
  rw [head?_run_seq, run_plus_byte p f l h]
  by_cases hn : 0 < spanLen p l
  · rw [if_pos hn, if_pos hn, findSome?_plus _ _ hn]
    intro i _ hi
    obtain ⟨c, t, hd, hc⟩ := spanLen_drop p l i hi
    rw [hd, hX c t hc]; rfl
  · rw [if_neg hn, if_neg hn]; rfl

/-- `p+ X` where `X` succeeds after the longest run: the greedy first candidate wins -/
theorem head?_plus_byte_seq_some (p : Nat → Bool) (X : Re) (f : Nat) (l : Bytes) (h : l.length ≤ f)
    (hX : ((X.run f (l.drop (spanLen p l))).head?).isSome) :
    ((Re.seq (Re.byte p).plus X).run f l).head? =
      if 0 < spanLen p l then ((X.run f (l.drop (spanLen p l))).head?).map (spanLen p l + ·) else none := by
  rw [head?_run_seq, run_plus_byte p f l h]
  by_cases hn : 0 < spanLen p l
  · rw [if_pos hn, if_pos hn, findSome?_plus_some _ _ hn]
    simpa using hX
  · rw [if_neg hn, if_neg hn]; rfl

theorem head?_plus_byte (p : Nat → Bool) (f : Nat) (l : Bytes) (h : l.length ≤ f) :
    ((Re.byte p).plus.run f l).head? = if 0 < spanLen p l then some (spanLen p l) else none := by
  rw [run_plus_byte p f l h]
  by_cases hn : 0 < spanLen p l
  · rw [if_pos hn, if_pos hn, List.head?_map, head?_down]; simp; omega
  · rw [if_neg hn, if_neg hn]; rfl

theorem head?_star_byte (p : Nat → Bool) (f : Nat) (l : Bytes) (h : l.length ≤ f) :
    ((Re.star (.byte p)).run f l).head? = some (spanLen p l) := by
  rw [run_star_byte p f l h, head?_down]

/-- `p{n,n}` -/
theorem run_rep_byte (p : Nat → Bool) (f : Nat) : ∀ (n : Nat) (l : Bytes),
    (Re.rep n (.byte p)).run f l = if n ≤ l.length ∧ (l.take n).all p = true then [n] else [] := by
  intro n
  induction n with
  | zero => intro l; simp [Re.rep]
  | succ n ih =>
    intro l
    cases l with
    | nil => simp [Re.rep]
    | cons c t =>
      rw [Re.rep, run_seq_byte_cons, ih t]
      have hiff : (n + 1 ≤ (c :: t).length ∧ ((c :: t).take (n + 1)).all p = true) ↔
          (p c = true ∧ n ≤ t.length ∧ (t.take n).all p = true) := by
        rw [List.take_succ_cons, List.all_cons, Bool.and_eq_true, List.length_cons]
        constructor
        · intro ⟨a, b, c⟩; exact ⟨b, by omega, c⟩
        · intro ⟨a, b, c⟩; exact ⟨by omega, a, c⟩
      by_cases hc : p c = true
      · by_cases ht : n ≤ t.length ∧ (t.take n).all p = true
        · rw [if_pos hc, if_pos ht, if_pos (hiff.2 ⟨hc, ht⟩), Nat.add_comm]; rfl
        · rw [if_pos hc, if_neg ht, if_neg (fun h => ht (hiff.1 h).2)]; rfl
      · rw [if_neg hc, if_neg (fun h => hc (hiff.1 h).1)]

/-! the greedy star of a body that never matches the empty string -/
theorem starRun_ne_nil (ra : Bytes → List Nat) (f : Nat) (l : Bytes) : starRun ra f l ≠ [] := by
  cases f <;> simp [starRun]

theorem head?_starRun_succ (ra : Bytes → List Nat) (f : Nat) (l : Bytes) :
    (starRun ra (f + 1) l).head? =
      match (ra l).find? (0 < ·) with
      | some i => (starRun ra f (l.drop i)).head?.map (i + ·)
      | none => some 0 := by
  rw [starRun, List.head?_append, List.head?_flatMap]
  generalize (ra l) = xs
  induction xs with
  | nil => rfl
  | cons x xs ih =>
    by_cases hx : 0 < x
    · have hne := starRun_ne_nil ra f (l.drop x)
      cases hs : starRun ra f (l.drop x) with
      | nil => exact absurd hs hne
      | cons y ys => simp [hx, hs]
    · simp only [List.filter_cons, List.find?_cons]
      simp only [hx, decide_false, Bool.false_eq_true, if_false]
      exact ih

/-! literals -/
@[simp] theorem run_seq_lit_nil (X : Re) (f : Nat) (l : Bytes) : (Re.seq (Re.lit []) X).run f l = X.run f l :=
  run_seq_eps X f l
@[simp] theorem run_seq_lit_cons (b : Nat) (bs : Bytes) (X : Re) (f : Nat) (l : Bytes) :
    (Re.seq (Re.lit (b :: bs)) X).run f l = (Re.seq (.byte (· == b)) (.seq (Re.lit bs) X)).run f l :=
  run_seq_assoc _ _ _ f l
theorem run_lit (bs : Bytes) (f : Nat) (l : Bytes) : (Re.lit bs).run f l = (Re.seq (Re.lit bs) .eps).run f l := by
  simp [run_seq]

/-! the classes of the five expressions as the model's predicates -/
def is19 (b : Nat) : Bool := 49 ≤ b && b ≤ 57
def isX (b : Nat) : Bool := b == 120 || b == 88
def isE (b : Nat) : Bool := b == 101 || b == 69
def isEsc (b : Nat) : Bool := [97, 98, 102, 110, 114, 116, 118, 39].contains b

theorem cSign_has : cSign.has = isSign := by funext b; simp [cSign, Class.has, Item.has, isSign]
theorem cDigit_has : cDigit.has = isDigit := by funext b; simp [cDigit, Class.has, Item.has, isDigit]
theorem cHex_has : cHex.has = isHex := by funext b; simp [cHex, Class.has, Item.has, isHex, isDigit, Bool.or_assoc]
theorem c19_has : Class.has ⟨false, [.range '1' '9']⟩ = is19 := by funext b; simp [Class.has, Item.has, is19]
theorem cOct_has : Class.has ⟨false, [.range '0' '7']⟩ = isOct := by funext b; simp [Class.has, Item.has, isOct]
theorem cX_has : Class.has ⟨false, [.ch 'x', .ch 'X']⟩ = isX := by funext b; simp [Class.has, Item.has, isX]
theorem cE_has : Class.has ⟨false, [.ch 'e', .ch 'E']⟩ = isE := by funext b; simp [Class.has, Item.has, isE]
theorem cBq_has : Class.has ⟨true, [.ch '`']⟩ = (fun b => b != 96) := by
  funext b; cases h : b == 96 <;> simp [Class.has, Item.has, bne, h]
theorem cNq_has : Class.has ⟨true, [.ch '\'']⟩ = (fun b => b != 39) := by
  funext b; cases h : b == 39 <;> simp [Class.has, Item.has, bne, h]
theorem cEsc_has : Class.has ⟨false, [.ch 'a', .ch 'b', .ch 'f', .ch 'n', .ch 'r', .ch 't', .ch 'v', .ch '\'']⟩ = isEsc := by
  funext b; simp [Class.has, Item.has, isEsc]; rfl

end Rx
end PV
