/-
  THE TIE for parsley/file_set.go (`NewFileSet`, `AddFile`, `Position`; the calls of the interface parsley.File are
  dispatched to the translated methods of text.File) and text/position.go `Position.String` as `factgen -out-prog`
  translates them, against Model/Text.lean `FileSet.addFile`, `FileSet.position`, `PosResult.render`.

  `FSRel st FS fs`: the translated file set `FS`, read in state `st`, shows the model's `fs`: the same `pos`, the offset
  slice reads as the model's offsets, the files are related one by one (`FileOk`: `FileRel`, the line cache absent or the
  model's line table, the arrays exist), and no file's array is the array of the offset slice (they are different
  allocations: `append(fs.offset, …)` may write in place).
-/
import ParsleyVerif.Proofs.TxtTieHeap
import ParsleyVerif.Proofs.FileSet
namespace PV.TxtTie
open PV.ProgPrelude PV.ProgTie

/-- every array that existed, except possibly `a`, is untouched -/
structure Only (a : Nat) (st st' : St) : Prop where
  cells : ∀ b, b < st.arrays.length → b ≠ a → ProgPrelude.cells st' b = ProgPrelude.cells st b
  len : st.arrays.length ≤ st'.arrays.length
  maps : st'.maps = st.maps
  grow : st'.grow = st.grow

theorem Keeps.only {st st' : St} (k : Keeps st.arrays.length st st') (a : Nat) : Only a st st' :=
  ⟨fun _ hb _ => k.cells hb, k.len, k.maps, k.grow⟩

theorem Only.view {a : Nat} {st st' : St} (o : Only a st st') (s : Sl) (h1 : s.arr < st.arrays.length) (h2 : s.arr ≠ a) :
    view st' s = view st s := by
  unfold ProgPrelude.view
  rw [o.cells _ h1 h2]

theorem Only.keeps {a n : Nat} {st st' : St} (o : Only a st st') (hn : n ≤ a) (hl : n ≤ st.arrays.length) : Keeps n st st' :=
  ⟨⟨o.len, fun b hb => o.cells b (by omega) (by omega)⟩, o.maps, o.grow⟩

/-- `append(s, v)` on a well-formed slice: only the array of `s` may be written -/
theorem append_spec1 (st : St) (s : Sl) (v : Int) (w : SWFs st s) :
    ∃ s' st', Go.append s v st = .ok s' st' ∧ Only s.arr st st' ∧ view st' s' = view st s ++ [v] ∧ SWFs st' s' ∧
      (s'.arr = s.arr ∨ s'.arr = st.arrays.length) := by
  have hvl := w.view_length
  by_cases h1 : s.len < s.cap
  · have hfit := w.fits
    have hc := cells_modify_same st s.arr (fun c => c.set (s.off + s.len) v) w.arr
    refine ⟨{ s with len := s.len + 1, isNil := false },
      { st with arrays := st.arrays.modify s.arr (fun c => c.set (s.off + s.len) v) }, ?_, ?_, ?_, ?_, Or.inl rfl⟩
    · simp only [Go.append, if_pos h1]
    · exact ⟨fun b _ hb => cells_modify_ne st s.arr b _ (fun e => hb e.symm), by simp, rfl, rfl⟩
    · unfold ProgPrelude.view
      rw [hc]
      generalize ProgPrelude.cells st s.arr = c at hfit ⊢
      show List.take (s.len + 1) (List.drop s.off (c.set (s.off + s.len) v)) = _
      apply List.ext_getElem?
      intro i
      simp only [List.getElem?_take, List.getElem?_drop, List.getElem?_set, List.getElem?_append, List.length_take,
        List.length_drop]
      grind
    · refine ⟨by simpa using w.arr, h1, ?_⟩
      rw [hc]
      show s.off + s.cap ≤ _
      simp only [List.length_set]; exact hfit
  · have hc : ProgPrelude.cells { st with arrays := st.arrays ++ [view st s ++ [v] ++ List.replicate (max (st.grow s.cap) (s.len + 1) - (s.len + 1)) 0] } st.arrays.length
          = view st s ++ [v] ++ List.replicate (max (st.grow s.cap) (s.len + 1) - (s.len + 1)) 0 :=
        Data.cells_append_eq st.arrays _
    refine ⟨{ arr := st.arrays.length, off := 0, len := s.len + 1, cap := max (st.grow s.cap) (s.len + 1) },
      { st with arrays := st.arrays ++ [view st s ++ [v] ++ List.replicate (max (st.grow s.cap) (s.len + 1) - (s.len + 1)) 0] },
      ?_, ?_, ?_, ?_, Or.inr rfl⟩
    · simp only [Go.append, if_neg h1]
    · exact ⟨fun b hb _ => Data.cells_append_lt st.arrays _ b hb, by simp, rfl, rfl⟩
    · show List.take (s.len + 1) (List.drop 0 (ProgPrelude.cells _ st.arrays.length)) = _
      rw [hc, List.drop_zero]
      rw [List.take_append_of_le_length (by rw [List.length_append, hvl]; simp)]
      rw [List.take_of_length_le (by rw [List.length_append, hvl]; simp)]
    · refine ⟨by simp, Nat.le_max_right _ _, ?_⟩
      rw [hc]
      simp only [List.length_append, List.length_replicate, hvl, List.length_cons, List.length_nil]
      omega

/-! ### a file of the set -/

/-- the translated file `F` shows the model file `f`, its line cache is absent or the model's line table, and its
    arrays exist -/
structure FileOk (st : St) (F : FactsProg.File) (f : Text.File) : Prop where
  rel : FileRel st F f
  inv : LinesInv st F f
  darr : F.data.arr < st.arrays.length
  larr : F.lines.isNil = false → F.lines.arr < st.arrays.length

theorem FileOk.only {a : Nat} {st st' : St} {F : FactsProg.File} {f : Text.File} (ok : FileOk st F f) (o : Only a st st')
    (h1 : F.data.arr ≠ a) (h2 : F.lines.isNil = false → F.lines.arr ≠ a) : FileOk st' F f := by
  refine ⟨⟨?_, ok.rel.dlen, ok.rel.len, ok.rel.off, ok.rel.name⟩, ?_, by have := o.len; have := ok.darr; omega,
    fun h => by have := o.len; have := ok.larr h; omega⟩
  · rw [o.view _ ok.darr h1]; exact ok.rel.data
  · rcases ok.inv with hn | ⟨hn, hv, hl⟩
    · exact Or.inl hn
    · exact Or.inr ⟨hn, by rw [o.view _ (ok.larr hn) (h2 hn)]; exact hv, hl⟩

theorem FileOk.keeps {st st' : St} {F : FactsProg.File} {f : Text.File} (ok : FileOk st F f)
    (k : Keeps st.arrays.length st st') : FileOk st' F f :=
  ok.only (k.only st'.arrays.length) (by have := ok.darr; have := k.len; omega)
    (fun h => by have := ok.larr h; have := k.len; omega)

/-- `setLines`, with the fact that the table lives in a fresh array -/
theorem tie_setLines' (h : Data.Heap) (mh : Data.MHeap) (g : Nat → Nat) (F : FactsProg.File) (f : Text.File)
    (rel : FileRel ⟨h, mh, g⟩ F f) (hd : F.data.arr < h.length) :
    ∃ (L : Data.Slice) (h' : Data.Heap),
      FactsProg.File_setLines F ⟨h, mh, g⟩ = .ok { F with lines := sl L } ⟨h', mh, g⟩ ∧
      Data.view h' L = f.lines.map Int.ofNat ∧ Data.SWF h' L ∧ Data.Frame h.length h h' ∧ h.length ≤ L.arr := by
  simp only [FactsProg.File_setLines, bind_apply, pure_apply]
  have e0 : Go.litSlice [0] ⟨h, mh, g⟩ = .ok (sl { arr := h.length, len := 1, cap := 1 }) ⟨h ++ [[0]], mh, g⟩ := rfl
  rw [e0]
  simp only []
  have fr0 : Data.Frame h.length h (h ++ [[0]]) := ⟨by simp, fun a ha => Data.cells_append_lt _ _ _ ha⟩
  have w0 : Data.SWF (h ++ [[0]]) { arr := h.length, len := 1, cap := 1 } :=
    ⟨by simp, Nat.le_refl _, by show (Data.cells (h ++ [[0]]) h.length).length = 1; simp [Data.cells_append_eq]⟩
  have hdl : Go.len F.data = (f.data.length : Int) := by simp [Go.len, rel.dlen]
  obtain ⟨L', h', kf, e, v, w', fr', hb'⟩ := setLines_loop_tie h mh g F f rel h.length hd (f.data.length + 1) 0
    { arr := h.length, len := 1, cap := 1 } (h ++ [[0]]) fr0 w0 (Nat.le_refl _) (by omega)
  simp only [Int.natCast_zero] at e
  simp only [hdl, Int.toNat_natCast, e]
  refine ⟨L', h', rfl, ?_, w', fr', hb'⟩
  rw [v]
  have : Data.view (h ++ [[0]]) { arr := h.length, len := 1, cap := 1 } = [0] := by
    simp [Data.view, Data.cells_append_eq]
  rw [this]
  simp [Text.File.lines]

theorem keeps_of_frame {h h' : Data.Heap} {mh : Data.MHeap} {g : Nat → Nat} (fr : Data.Frame h.length h h') :
    Keeps (ProgPrelude.St.arrays ⟨h, mh, g⟩).length ⟨h, mh, g⟩ ⟨h', mh, g⟩ := ⟨fr, rfl, rfl⟩

/-- **Position** of a file of the set: the model's answer (never a panic), the file stays related (line cache filled on
    first use, in a fresh array), every array that existed is untouched -/
theorem tie_Position' (st : St) (F : FactsProg.File) (f : Text.File) (ok : FileOk st F f) (p : Nat) :
    f.position p ≠ .panic ∧
    ∃ (F' : FactsProg.File) (st' : St),
      FactsProg.File_Position F p st = .ok (F', posObj (f.position p)) st' ∧ FileOk st' F' f ∧
      Keeps st.arrays.length st st' ∧ F'.data = F.data ∧
      (F'.lines = F.lines ∨ (F'.lines.isNil = false ∧ st.arrays.length ≤ F'.lines.arr)) := by
  obtain ⟨h, mh, g⟩ := st
  obtain ⟨rel, inv, hd, hla⟩ := ok
  have hd' : F.data.arr < h.length := hd
  have hlen := rel.len
  by_cases hp : p > f.len
  · have e : f.position p = .unknown := by simp [Text.File.position, hp]
    have hne : f.position p ≠ .panic := by rw [e]; intro hh; cases hh
    refine ⟨hne, F, ⟨h, mh, g⟩, ?_, ⟨rel, inv, hd, hla⟩, Keeps.refl _ _, rfl, Or.inl rfl⟩
    have hp' : (p : Int) > F.len := by rw [hlen]; simp only [Text.File.len] at hp; omega
    rw [e]
    simp only [FactsProg.File_Position]
    simp only [ite_apply, bind_apply, pure_apply]
    go_decide_text []
    rfl
  · have hp' : ¬ (p : Int) > F.len := by rw [hlen]; simp only [Text.File.len] at hp; omega
    have hple : p ≤ f.len := by omega
    simp only [FactsProg.File_Position]
    simp only [ite_apply, bind_apply, pure_apply]
    rcases inv with hnil | ⟨hnn, hv, hl⟩
    · obtain ⟨L, h', e, v, w, fr, hfresh⟩ := tie_setLines' h mh g F f rel hd
      have rel' : FileRel ⟨h', mh, g⟩ { F with lines := sl L } f := rel.frame fr hd _
      have hv' : view ⟨h', mh, g⟩ ({ F with lines := sl L } : FactsProg.File).lines = f.lines.map Int.ofNat := by
        simp only [view_sl]; exact v
      have hl' : ({ F with lines := sl L } : FactsProg.File).lines.len = f.lines.length := by
        have := view_length w; rw [v] at this; simp at this; simp [this]
      obtain ⟨hne, i, l, hpos, hle, hs, hi⟩ := position_search_tie ⟨h', mh, g⟩ _ f hv' hl' p hple
      refine ⟨hne, { F with lines := sl L }, ⟨h', mh, g⟩, ?_, ⟨rel', Or.inr ⟨rfl, hv', hl'⟩, ?_, fun _ => ?_⟩,
        keeps_of_frame fr, rfl, Or.inr ⟨rfl, hfresh⟩⟩
      · go_decide_text [hnil, e, hs]
        have e1 : ((i : Int) + 1 - 1) = i := by omega
        have a1 : ((i : Int) + 1) = ((i + 1 : Nat) : Int) := by omega
        have a2 : ((p : Int) - l + 1) = ((p - l + 1 : Nat) : Int) := by omega
        simp only [e1, hi, hpos, posObj]
        simp only [a1, a2, rel.name]
      · have := fr.1; show F.data.arr < h'.length; omega
      · exact w.1
    · obtain ⟨hne, i, l, hpos, hle, hs, hi⟩ := position_search_tie ⟨h, mh, g⟩ F f hv hl p hple
      refine ⟨hne, F, ⟨h, mh, g⟩, ?_, ⟨rel, Or.inr ⟨hnn, hv, hl⟩, hd, hla⟩, Keeps.refl _ _, rfl, Or.inl rfl⟩
      go_decide_text [hnn, hs]
      have e1 : ((i : Int) + 1 - 1) = i := by omega
      have a1 : ((i : Int) + 1) = ((i + 1 : Nat) : Int) := by omega
      have a2 : ((p : Int) - l + 1) = ((p - l + 1 : Nat) : Int) := by omega
      simp only [e1, hi, hpos, posObj]
      simp only [a1, a2, rel.name]

/-! ### the file set -/

/-- a file's arrays are not the array `a` -/
def Apart (a : Nat) (F : FactsProg.File) : Prop := F.data.arr ≠ a ∧ (F.lines.isNil = false → F.lines.arr ≠ a)

/-- the translated files show the model's files, one by one -/
def FilesRel (st : St) (Fs : List FactsProg.File) (fl : List Text.File) : Prop :=
  Fs.length = fl.length ∧
    ∀ (i : Nat) (F : FactsProg.File) (f : Text.File), Fs[i]? = some F → fl[i]? = some f → FileOk st F f

theorem FilesRel.nil (st : St) : FilesRel st [] [] := ⟨rfl, fun i F f h => by simp at h⟩

theorem FilesRel.cons_iff {st : St} {F : FactsProg.File} {f : Text.File} {Fs : List FactsProg.File} {fl : List Text.File} :
    FilesRel st (F :: Fs) (f :: fl) ↔ FileOk st F f ∧ FilesRel st Fs fl := by
  constructor
  · intro ⟨h1, h2⟩
    exact ⟨h2 0 F f rfl rfl, (by simpa using h1), fun i G g hG hg => h2 (i + 1) G g (by simpa using hG) (by simpa using hg)⟩
  · intro ⟨h0, h1, h2⟩
    refine ⟨(by simp [h1]), fun i G g hG hg => ?_⟩
    cases i with
    | zero => simp at hG hg; subst hG hg; exact h0
    | succ i => exact h2 i G g (by simpa using hG) (by simpa using hg)

theorem FilesRel.imp {st st' : St} {Fs : List FactsProg.File} {fl : List Text.File} (h : FilesRel st Fs fl)
    (hi : ∀ F f, F ∈ Fs → FileOk st F f → FileOk st' F f) : FilesRel st' Fs fl :=
  ⟨h.1, fun i F f hF hf => hi F f (List.mem_of_getElem? hF) (h.2 i F f hF hf)⟩

theorem FilesRel.mem {st : St} {Fs : List FactsProg.File} {fl : List Text.File} (h : FilesRel st Fs fl)
    {F : FactsProg.File} (hF : F ∈ Fs) : ∃ f, FileOk st F f := by
  obtain ⟨i, hi, e⟩ := List.getElem_of_mem hF
  have hi' : i < fl.length := by rw [← h.1]; exact hi
  exact ⟨fl[i], h.2 i F fl[i] (by rw [List.getElem?_eq_getElem hi, e]) (List.getElem?_eq_getElem hi')⟩

theorem FilesRel.snoc {st : St} {Fs : List FactsProg.File} {fl : List Text.File} (h : FilesRel st Fs fl)
    {F : FactsProg.File} {f : Text.File} (ok : FileOk st F f) : FilesRel st (Fs ++ [F]) (fl ++ [f]) := by
  refine ⟨(by simp [h.1]), fun i G g hG hg => ?_⟩
  by_cases hi : i < Fs.length
  · rw [List.getElem?_append_left hi] at hG
    rw [List.getElem?_append_left (by rw [← h.1]; exact hi)] at hg
    exact h.2 i G g hG hg
  · rw [List.getElem?_append_right (by omega)] at hG
    rw [List.getElem?_append_right (by rw [← h.1]; omega)] at hg
    have h1 := h.1
    cases hk : i - Fs.length with
    | zero =>
      rw [hk] at hG; rw [← h1, hk] at hg
      simp at hG hg; subst hG hg; exact ok
    | succ k => rw [hk] at hG; simp at hG

theorem FilesRel.set {st : St} {Fs : List FactsProg.File} {fl : List Text.File} (h : FilesRel st Fs fl) (k : Nat)
    {F' : FactsProg.File} {f : Text.File} (hf : fl[k]? = some f) (ok : FileOk st F' f) : FilesRel st (Fs.set k F') fl := by
  refine ⟨(by simp [h.1]), fun i G g hG hg => ?_⟩
  by_cases hik : k = i
  · subst hik
    have hk : k < Fs.length := by
      rw [h.1]; exact (List.getElem?_eq_some_iff.mp hf).1
    rw [List.getElem?_set_self hk] at hG
    rw [hf] at hg
    cases hG; cases hg; exact ok
  · rw [List.getElem?_set_ne hik] at hG
    exact h.2 i G g hG hg

structure FSRel (st : St) (FS : FactsProg.FileSet) (fs : Text.FileSet) : Prop where
  pos : FS.pos = (fs.pos : Int)
  off : view st FS.offset = ints fs.offsets
  owf : SWFs st FS.offset
  files : FilesRel st FS.files fs.files
  sep : ∀ F ∈ FS.files, Apart FS.offset.arr F
  flen : fs.files.length = fs.offsets.length
  srt : fs.offsets.Pairwise (· < ·)
  below : ∀ o ∈ fs.offsets, o < fs.pos

theorem FSRel.olen {st : St} {FS : FactsProg.FileSet} {fs : Text.FileSet} (r : FSRel st FS fs) :
    FS.offset.len = fs.offsets.length := by
  have := r.owf.view_length; rw [r.off] at this; simpa using this.symm

/-- **AddFile**: the model's `addFile`; the set's copy of the file is the file as it is after SetOffset; only the array
    of the offset slice may be written -/
theorem tie_AddFile (st : St) (FS : FactsProg.FileSet) (fs : Text.FileSet) (r : FSRel st FS fs)
    (F : FactsProg.File) (f : Text.File) (ok : FileOk st F f) (ap : Apart FS.offset.arr F) :
    ∃ (FS' : FactsProg.FileSet) (st' : St),
      FactsProg.FileSet_AddFile FS F st = .ok FS' st' ∧ FSRel st' FS' (fs.addFile f).1 ∧ Only FS.offset.arr st st' ∧
      FS'.files = FS.files ++ [{ F with offset := FS.pos }] ∧
      (FS'.offset.arr = FS.offset.arr ∨ FS'.offset.arr = st.arrays.length) := by
  obtain ⟨s', st', e1, o1, v1, w1, ha⟩ := append_spec1 st FS.offset FS.pos r.owf
  have hgap : Facts.fileSetGap = 1 := by decide
  have hA : ∀ G : FactsProg.File, G.data.arr < st.arrays.length → (G.lines.isNil = false → G.lines.arr < st.arrays.length) →
      Apart FS.offset.arr G → Apart s'.arr G := by
    intro G g1 g2 g3
    rcases ha with ha | ha
    · rw [ha]; exact g3
    · rw [ha]; exact ⟨by omega, fun h => by have := g2 h; omega⟩
  have hcall : ∃ P : Int, P = FS.pos + F.len + 1 ∧ FactsProg.FileSet_AddFile FS F st =
      .ok { pos := P, files := FS.files ++ [{ F with offset := FS.pos }], offset := s' } st' := by
    simp only [FactsProg.FileSet_AddFile, FactsProg.File_SetOffset, FactsProg.File_Len, Bool.false_eq_true, if_false,
      bind_apply, pure_apply, e1]
    exact ⟨_, by omega, rfl⟩
  obtain ⟨P, hP, hcall⟩ := hcall
  refine ⟨{ pos := P, files := FS.files ++ [{ F with offset := FS.pos }], offset := s' }, st', hcall, ?_, o1, rfl, ha⟩
  · have okF : FileOk st' { F with offset := FS.pos } { f with offset := fs.pos } := by
      have ok' := ok.only o1 ap.1 ap.2
      exact ⟨⟨ok'.rel.data, ok'.rel.dlen, ok'.rel.len, r.pos, ok'.rel.name⟩, ok'.inv, ok'.darr, ok'.larr⟩
    refine ⟨?_, ?_, w1, ?_, ?_, ?_, ?_, ?_⟩
    · show P = ((fs.pos + f.len + Facts.fileSetGap : Nat) : Int)
      rw [hP, r.pos, ok.rel.len, hgap]; simp [Text.File.len]
    · rw [v1, r.off]; simp [Text.FileSet.addFile, ints_append, r.pos]
    · show FilesRel st' (FS.files ++ [_]) (fs.files ++ [_])
      exact (r.files.imp (fun G g hG okG => okG.only o1 (r.sep G hG).1 (r.sep G hG).2)).snoc okF
    · intro G hG
      simp only [List.mem_append, List.mem_singleton] at hG
      rcases hG with hG | hG
      · obtain ⟨g, hg⟩ := r.files.mem hG
        exact hA G hg.darr hg.larr (r.sep G hG)
      · subst hG; exact hA _ ok.darr ok.larr ap
    · simp [Text.FileSet.addFile, r.flen]
    · simp only [Text.FileSet.addFile]
      rw [List.pairwise_append]
      refine ⟨r.srt, by simp, fun a ha b hb => ?_⟩
      simp only [List.mem_singleton] at hb; subst hb; exact r.below a ha
    · intro o ho
      simp only [Text.FileSet.addFile, List.mem_append, List.mem_singleton] at ho ⊢
      rcases ho with ho | ho
      · have := r.below o ho; omega
      · subst ho; omega

/-- **FileSet.Position**: a panic where the model says `.panic` (no offset at or below the position), else the model's
    answer; the set stays related to the same model set (a file's line cache may have been filled, in a fresh array) and
    every array that existed is untouched -/
theorem tie_FSPosition (st : St) (FS : FactsProg.FileSet) (fs : Text.FileSet) (r : FSRel st FS fs) (p : Nat) :
    (fs.position p = .panic → FactsProg.FileSet_Position FS p st = .panic) ∧
    (fs.position p ≠ .panic → ∃ (FS' : FactsProg.FileSet) (st' : St),
      FactsProg.FileSet_Position FS p st = .ok (FS', posObj (fs.position p)) st' ∧ FSRel st' FS' fs ∧
      Keeps st.arrays.length st st') := by
  have hpos := r.pos
  have hol := r.olen
  generalize hpi : (p : Int) = pi
  unfold FactsProg.FileSet_Position
  simp only [ite_apply, bind_apply, pure_apply]
  subst hpi
  unfold Text.FileSet.position
  by_cases c0 : p = 0 ∨ p ≥ fs.pos
  · rw [if_pos c0]
    refine ⟨fun h => (by cases h), fun _ => ⟨FS, st, ?_, r, Keeps.refl _ _⟩⟩
    rcases c0 with c0 | c0
    · subst c0
      go_decide_text []
      rfl
    · by_cases c00 : p = 0
      · subst c00
        go_decide_text []
        rfl
      · go_decide_text []
        rfl
  · rw [if_neg c0]
    simp only [not_or, Nat.not_le, ge_iff_le] at c0
    simp only []
    have g1 : ¬ (p : Int) = 0 := by omega
    have g2 : ¬ (p : Int) ≥ FS.pos := by omega
    go_decide_text []
    -- the search
    have hf : ∀ j, j < fs.offsets.length →
        (fun (i' : Int) => (do let t ← Go.idx FS.offset i'; pure (decide (t > (p : Int))) : M Bool)) (j : Int) st =
          .ok (decide (fs.offsets.getD j 0 > p)) st := by
      intro j hj
      simp only [bind_apply, pure_apply]
      rw [idx_view st FS.offset _ r.off (by simp [hol]) _ (by omega) (by simp; omega)]
      simp only [Int.toNat_natCast]
      congr 1
      rw [Bool.eq_iff_iff]
      simp only [decide_eq_true_eq, ints, List.getD_eq_getElem?_getD, List.getElem?_map, List.getElem?_eq_getElem hj,
        Option.map_some, Option.getD_some]
      constructor <;> intro hh <;> (simp only [Int.ofNat_eq_natCast] at *; omega)
    have hs := search_gt_tie st FS.offset fs.offsets hol r.srt p
      (fun (i' : Int) => do let t ← Go.idx FS.offset i'; pure (decide (t > (p : Int)))) hf
    have mono : ∀ a b, a ≤ b → b < fs.offsets.length →
        (fun i => decide (fs.offsets.getD i 0 > p)) a = true → (fun i => decide (fs.offsets.getD i 0 > p)) b = true := by
      intro a b hab hb ha
      simp only [decide_eq_true_eq] at ha ⊢
      by_cases e : a = b
      · subst e; exact ha
      · have ha' : a < fs.offsets.length := by omega
        have := (List.pairwise_iff_getElem.mp r.srt) a b ha' hb (by omega)
        simp only [List.getD_eq_getElem?_getD, List.getElem?_eq_getElem ha', List.getElem?_eq_getElem hb, Option.getD_some] at ha ⊢
        omega
    obtain ⟨s1, s2, s3⟩ := goSearch_spec _ fs.offsets.length mono
    generalize hsv : goSearch fs.offsets.length (fun i => decide (fs.offsets.getD i 0 > p)) = s at hs s1 s2 s3
    rw [hs]
    simp only []
    by_cases c1 : s = 0
    · subst c1
      rw [if_pos rfl]
      refine ⟨fun _ => ?_, fun h => absurd rfl h⟩
      have p1 : Go.listIdx FS.files ((0 : Nat) - 1 : Int) st = .panic := by
        simp only [Go.listIdx]; rw [if_neg (by omega)]
      have p2 : Go.idx FS.offset ((0 : Nat) - 1 : Int) st = .panic := idx_panic _ _ _ (Or.inl (by omega))
      simp only [Int.natCast_zero] at p1 p2 ⊢
      first | rw [p1] | rw [p2]
    · rw [if_neg c1]
      obtain ⟨k, rfl⟩ : ∃ k, s = k + 1 := ⟨s - 1, by omega⟩
      have hk : k < fs.offsets.length := by omega
      have hkf : k < fs.files.length := by rw [r.flen]; exact hk
      have hkF : k < FS.files.length := by rw [r.files.1]; exact hkf
      have hle : fs.offsets.getD k 0 ≤ p := by
        have := s2 k (by omega)
        simp only [decide_eq_false_iff_not] at this
        omega
      obtain ⟨o, ho⟩ : ∃ o, fs.offsets.getD k 0 = o := ⟨_, rfl⟩
      have hgo : fs.offsets[k]? = some o := by
        simp [← ho, List.getD_eq_getElem?_getD, List.getElem?_eq_getElem hk]
      have okk : FileOk st FS.files[k] fs.files[k] :=
        r.files.2 k _ _ (List.getElem?_eq_getElem hkF) (List.getElem?_eq_getElem hkf)
      simp only [Nat.add_sub_cancel, List.getElem?_eq_getElem hkf, hgo]
      obtain ⟨hne, F', st', e, ok', k', hdata, hlines⟩ := tie_Position' st FS.files[k] fs.files[k] okk (p - o)
      refine ⟨fun h => absurd h hne, fun _ => ?_⟩
      have hidx : ((k + 1 : Nat) : Int) - 1 = (k : Int) := by omega
      have hli : Go.listIdx FS.files (k : Int) st = .ok FS.files[k] st := by
        simp only [Go.listIdx, Int.toNat_natCast, List.getElem?_eq_getElem hkF]
        rw [if_pos (by omega)]
      have hoi : Go.idx FS.offset (k : Int) st = .ok (o : Int) st := by
        rw [idx_view st FS.offset _ r.off (by simp [hol]) _ (by omega) (by simp; omega)]
        congr 1
        simp [ints, List.getD_eq_getElem?_getD, List.getElem?_map, List.getElem?_eq_getElem hk, ← ho]
      have hsub : ((p : Int) - (o : Int)) = ((p - o : Nat) : Int) := by omega
      rw [hidx]
      simp only [hli, hoi, hsub, e, Int.toNat_natCast]
      refine ⟨{ FS with files := FS.files.set k F' }, st', rfl, ?_, k'⟩
      have hov : view st' FS.offset = view st FS.offset := k'.view _ r.owf.arr
      refine ⟨r.pos, (by show view st' FS.offset = _; rw [hov]; exact r.off), (show SWFs st' FS.offset from ?_),
        (show FilesRel st' (FS.files.set k F') fs.files from ?_),
        (show ∀ G ∈ FS.files.set k F', Apart FS.offset.arr G from ?_), r.flen, r.srt, r.below⟩
      · refine ⟨by have := k'.len; have := r.owf.arr; omega, r.owf.cap, ?_⟩
        rw [k'.cells r.owf.arr]; exact r.owf.fits
      · exact (r.files.imp (fun G g _ okG => okG.keeps k')).set k (List.getElem?_eq_getElem hkf) ok'
      · intro G hG
        rcases List.mem_or_eq_of_mem_set hG with hG | hG
        · exact r.sep G hG
        · subst hG
          have hsepk := r.sep FS.files[k] (List.getElem_mem hkF)
          refine ⟨by rw [hdata]; exact hsepk.1, fun hn => ?_⟩
          rcases hlines with hl | ⟨_, hl⟩
          · rw [hl] at hn ⊢; exact hsepk.2 hn
          · have := r.owf.arr; omega

/-! ### NewFileSet -/

theorem newFileSet_loop_tie (n : Nat) :
    ∀ (Fs : List FactsProg.File) (fl : List Text.File) (FS : FactsProg.FileSet) (fs : Text.FileSet) (st : St),
      FSRel st FS fs → n ≤ FS.offset.arr → n ≤ st.arrays.length → FilesRel st Fs fl →
      (∀ F ∈ Fs, F.data.arr < n ∧ (F.lines.isNil = false → F.lines.arr < n)) →
      ∃ (FS' : FactsProg.FileSet) (st' : St),
        FactsProg.NewFileSet_loop1 Fs FS st = .ok FS' st' ∧
        FSRel st' FS' (fl.foldl (fun fs f => (fs.addFile f).1) fs) ∧ n ≤ FS'.offset.arr ∧ Keeps n st st' := by
  intro Fs
  induction Fs with
  | nil =>
    intro fl FS fs st r _ _ hfr _
    have : fl = [] := by have := hfr.1; simpa using this.symm
    subst this
    exact ⟨FS, st, rfl, r, by assumption, Keeps.refl _ _⟩
  | cons F Fs ih =>
    intro fl FS fs st r hn hnl hfr hlow
    cases fl with
    | nil => have := hfr.1; simp at this
    | cons f fl =>
      obtain ⟨ok, hrest⟩ := FilesRel.cons_iff.mp hfr
      have hF := hlow F (by simp)
      have ap : Apart FS.offset.arr F := ⟨by omega, fun h => by have := hF.2 h; omega⟩
      obtain ⟨FS1, st1, e1, r1, o1, _, ha⟩ := tie_AddFile st FS fs r F f ok ap
      have k1 : Keeps n st st1 := o1.keeps hn hnl
      have hn1 : n ≤ FS1.offset.arr := by rcases ha with ha | ha <;> omega
      have hrest1 : FilesRel st1 Fs fl := hrest.imp (fun G g hG okG => by
        have hG' := hlow G (by simp [hG])
        exact okG.only o1 (by omega) (fun h => by have := hG'.2 h; omega))
      obtain ⟨FS', st', e2, r2, hn2, k2⟩ := ih fl FS1 (fs.addFile f).1 st1 r1 hn1 (by have := o1.len; omega) hrest1
        (fun G hG => hlow G (by simp [hG]))
      refine ⟨FS', st', ?_, r2, hn2, k1.trans k2⟩
      rw [FactsProg.NewFileSet_loop1]
      simp only [bind_apply, e1, e2]

/-- **NewFileSet(files…)**: the model's `buildFS` (AddFile for each file in order on the empty set); the files' arrays
    are untouched -/
theorem tie_NewFileSet (st : St) (Fs : List FactsProg.File) (fl : List Text.File) (hfr : FilesRel st Fs fl) :
    ∃ (FS : FactsProg.FileSet) (st' : St),
      FactsProg.NewFileSet Fs st = .ok FS st' ∧ FSRel st' FS (Text.buildFS fl) ∧ Keeps st.arrays.length st st' := by
  have g1 : Grows st { st with arrays := st.arrays ++ [[]] } := Grows.push st []
  have e0 : Go.litSlice [] st = .ok { arr := st.arrays.length, off := 0, len := 0, cap := 0 } { st with arrays := st.arrays ++ [[]] } := rfl
  have r0 : FSRel { st with arrays := st.arrays ++ [[]] } { pos := 1, files := [], offset := { arr := st.arrays.length, off := 0, len := 0, cap := 0 } }
      ({} : Text.FileSet) := by
    refine ⟨(show (1 : Int) = ((Facts.fileSetFirstPos : Nat) : Int) by decide), by simp [view], ⟨by simp, Nat.le_refl _, Nat.zero_le _⟩, FilesRel.nil _, fun F h => by simp at h, rfl,
      List.Pairwise.nil, fun o h => by simp at h⟩
  have hfr1 : FilesRel { st with arrays := st.arrays ++ [[]] } Fs fl := hfr.imp (fun G g _ okG => okG.keeps g1.keeps)
  have hlow : ∀ F ∈ Fs, F.data.arr < st.arrays.length ∧ (F.lines.isNil = false → F.lines.arr < st.arrays.length) := by
    intro F hF
    obtain ⟨g, okG⟩ := hfr.mem hF
    exact ⟨okG.darr, okG.larr⟩
  obtain ⟨FS', st', e, r, _, k⟩ := newFileSet_loop_tie st.arrays.length Fs fl _ _ _ r0 (Nat.le_refl _) (by simp) hfr1 hlow
  refine ⟨FS', st', ?_, r, g1.keeps.trans k⟩
  simp only [FactsProg.NewFileSet, bind_apply, pure_apply, e0, e]

/-! ### Position.String -/

theorem lit_append (a b : String) : Go.lit (a ++ b) = Go.lit a ++ Go.lit b := by
  simp [Go.lit, ByteArray.data_append]

/-- **Position.String**: the bytes of the model's rendering "file:line:column" / "line:column" -/
theorem tie_PositionString (st : St) (name : String) (l c : Nat) :
    FactsProg.Position_String { Filename := name, Line := l, Column := c } st =
      .ok (Go.lit (Text.PosResult.render (.at_ name l c))) st := by
  have e1 : toString ((l : Nat) : Int) = toString l := rfl
  have e2 : toString ((c : Nat) : Int) = toString c := rfl
  simp only [FactsProg.Position_String, Text.PosResult.render, ite_apply, pure_apply]
  by_cases h : name = ""
  · subst h
    simp [Go.sprintf, Fmt.out, e1, e2, lit_append]
    rfl
  · simp [Go.sprintf, Fmt.out, e1, e2, lit_append, h]
    rfl

end PV.TxtTie
