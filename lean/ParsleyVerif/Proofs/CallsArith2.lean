/-
  C17, part 15: the arithmetic family with two operators per level (family 8 of the suite, "arith2"):
      E → E + T | E - T | T ;  T → T * F | T / F | F ;  F → 1 | ( E )
  on ANY input `1 o₁ 1 … o_k 1` with operators in {+, -, *, /}.  The run, described by functions defined by recursion
  over the levels of the two left spines, as in CallsArith.lean; the differences: every activation of a memoized rule
  runs its inner activation in the FIRST alternative and reads it from the cache in the SECOND (as in CallsPbPc.lean;
  in the lowest activation the inner one is curtailed twice), and the alternatives come out in the order
  (`*`- or `+`-extensions, `/`- or `-`-extensions, base).
-/
import ParsleyVerif.Proofs.CallsArithInput
namespace PV.C17b
open PV.Text PV.C17

/-- `SeqOf(X, 'c', Y)` -/
def opS (j ch j2 : Nat) : G := seqOfT [.ref j, runeT ch, .ref j2]

def opSh (j ch j2 : Nat) : SeqShape :=
  { lookup := fun i => [G.ref j, runeT ch, G.ref j2][i]?, lenCheck := fun len => len == 3, token := seqTok,
    interp := .none, single := false, name := none }

theorem opS_shape (j ch j2 : Nat) : (opS j ch j2).shape = some (opSh j ch j2) := rfl

def ar2TBody : G := .any [opS 1 42 2, opS 1 47 2, .ref 2]
def ar2T : G := .memo 1 ar2TBody
def ar2EBody : G := .any [opS 0 43 1, opS 0 45 1, .ref 1]
def ar2E : G := .memo 0 ar2EBody
def arith2Env : List G := [ar2E, ar2T, arF]

/-- what the proofs use of the input: length 2k+1, `1` at the odd positions, everything else only at even positions
    (so that a `1` follows), no `(` -/
structure IsAr2 (k : Nat) (cfg : Cfg) : Prop where
  env : cfg.env = arith2Env
  off : cfg.file.offset = 1
  max : cfg.maxCalls = 0
  len : cfg.file.data.length = 2 * k + 1
  noParen : ∀ p, fol cfg.file.data 40 p = false
  one : ∀ p, p % 2 = 1 → p ≤ 2 * k + 1 → fol cfg.file.data 49 p = true
  op : ∀ ch p, ch ≠ 49 → fol cfg.file.data ch p = true → p % 2 = 0 ∧ p ≤ 2 * k

variable {k : Nat} {cfg : Cfg}

theorem ar2_remaining (hc : IsAr2 k cfg) (q : Nat) (hq : 1 ≤ q) (hq2 : q ≤ 2 * k + 2) :
    remaining cfg.file q + Facts.curtailSlack = 2 * k + 3 - q := by
  have h1 : cfg.file.len = 2 * k + 1 := hc.len
  have h2 : Facts.curtailSlack = 1 := rfl
  rw [remaining, h1, hc.off, h2]
  omega

/-- `F` at an odd position: the `1`; 3 calls -/
theorem run_ar2F (hc : IsAr2 k cfg) (f : Nat) (ctx : Ctx) (q : Nat) (hq1 : q % 2 = 1) (hq2 : q ≤ 2 * k + 1) (st : St) :
    ∃ st', run cfg (f + 4) arF ctx q st = some (⟨.one (runeNode 49 q), [], none⟩, st') ∧
      st'.calls = st.calls + 3 ∧ st'.cache = st.cache := by
  have hq0 : 1 ≤ q := by omega
  have hr1 := readRune_fol_true hc.off 49 q hq0 (by omega) (hc.one q hq1 hq2)
  have h1 := run_rune_ok hc.max (f + 2) 49 [34, 49, 34] ctx q (q + 1) st.regCall hr1
  have hr2 := readRune_fol_false hc.off 40 q hq0 (by omega) (hc.noParen q)
  obtain ⟨s2, p1, p2, p3⟩ := run_rune_fail hc.max (f + 1) 40 [34, 40, 34] ctx q q st.regCall.regCall.regCall hr2
  have hseq := seq_step_nil parenSh (run cfg (f + 2)) (f + 1) 0 [] ctx q true {} st.regCall.regCall s2 (runeT 40) _ rfl p1 rfl rfl
  obtain ⟨e2, s3, r1, r2, r3, _⟩ := run_shape_res hc.max (f + 2) arParen parenSh ctx q st.regCall.regCall rfl rfl false _ s2 []
    hseq (by rw [ssUpd_result]; rfl)
  have hcp2 : (ssUpd true {} ⟨.nil, [], some ⟨q, .notFound [34, 40, 34]⟩⟩).cp = [] := by
    simp [ssUpd, cpUnion]
  rw [hcp2] at r1
  obtain ⟨e', s4, a1, a2, a3, a4⟩ := run_any2c hc.max (f + 2) (runeT 49) arParen ctx q st _ _ st.regCall s3 h1 r1
  have hcp : cpUnion (cpUnion [] []) [] = [] := by simp [cpUnion]
  have hres : appendNode (Res.one (Node.term (Utf8.encodeRune 49) (Val.rune 49) q (q + 1))) (resOf []) =
      .one (runeNode 49 q) := rfl
  simp only [hcp, hres] at a1 a4
  have he : e' = none := a4 rfl
  subst he
  refine ⟨s4, a1, ?_, ?_⟩
  · rw [a2, r2, p2]; rfl
  · rw [a3, r3, p3]; rfl

/-! ### `T` -/

/-- the node of `T c F` from the node `x` of `T` -/
def mulExt (ch : Nat) (x : Node) : Node :=
  handleResult (opSh 1 ch 2) (x.rpos + 2) [x, runeNode ch x.rpos, runeNode 49 (x.rpos + 1)]

theorem mulExt_rpos (ch : Nat) (x : Node) : (mulExt ch x).rpos = x.rpos + 2 := rfl

def isOp (data : Bytes) (ch : Nat) (x : Node) : Bool := fol data ch x.rpos

/-- the loop of `T c F` over the alternatives of the inner `T`: one call (`c`) each, and 4 more (`F`, and the 3
    inside it) where `c` follows -/
theorem mul_alts (hc : IsAr2 k cfg) (ch : Nat) (hch : ch < 128) (hne : ch ≠ 49) (fr f : Nat) (ctx : Ctx) (pos : Nat)
    (merge : Bool) :
    ∀ (l : List Node), (∀ x ∈ l, pos < x.rpos ∧ x.rpos % 2 = 0) →
    ∀ (acc : List Node) (ss : SeqSt) (st : St), ss.result = resOf acc →
    ∃ ss' st', seqAlts (fun nd ss st =>
          seqParse (run cfg (fr + 5)) (opSh 1 ch 2) (f + 3) (0 + 1) ([] ++ [nd]) (if nd.rpos > pos then [] else ctx) nd.rpos
            (merge && !(decide (nd.rpos > pos))) ss st) l ss st = some (false, ss', st') ∧
      ss'.result = resOf (acc ++ (l.filter (isOp cfg.file.data ch)).map (mulExt ch)) ∧ ss'.cp = ss.cp ∧
      st'.calls = st.calls + l.length + 4 * (l.filter (isOp cfg.file.data ch)).length ∧ st'.cache = st.cache := by
  intro l
  induction l with
  | nil =>
    intro _ acc ss st hr
    exact ⟨ss, st, rfl, by simp [hr], rfl, rfl, rfl⟩
  | cons x l ih =>
    intro hl' acc ss st hr
    obtain ⟨hx, hx2⟩ := hl' x (List.mem_cons_self ..)
    have hgt : x.rpos > pos := hx
    have hx1 : 1 ≤ x.rpos := by omega
    simp only [seqAlts, hgt, ↓reduceIte, decide_true, Bool.not_true, Bool.and_false, List.nil_append, Nat.zero_add]
    by_cases hp : isOp cfg.file.data ch x = true
    · have hs := hc.op ch _ hne hp
      have hrc := readRune_fol_true hc.off ch x.rpos hx1 hch hp
      rw [seq_step_rune_ok hc.max (opSh 1 ch 2) (fr + 4) (f + 2) 1 [x] [] x.rpos false ss st ch [34, ch, 34] _ rfl hrc]
      have hgt2 : x.rpos + 1 > x.rpos := by omega
      simp only [hgt2, ↓reduceIte, decide_true, Bool.not_true, Bool.and_false]
      obtain ⟨s2, f1, f2, f3⟩ := run_ar2F hc fr [] (x.rpos + 1) (by omega) (by omega) st.regCall.regCall
      have href : run cfg (fr + 4 + 1) (.ref 2) [] (x.rpos + 1) st.regCall.regCall =
          some (⟨.one (runeNode 49 (x.rpos + 1)), [], none⟩, s2) := by
        rw [run_ref hc.max (fr + 4) 2 arF (by rw [hc.env]; rfl)]
        exact f1
      rw [seq_step_one (opSh 1 ch 2) (run cfg (fr + 4 + 1)) (f + 1) 2 _ [] (x.rpos + 1) ss st.regCall s2 (.ref 2) _ [] rfl href]
      rw [seq_step_end (opSh 1 ch 2) (run cfg (fr + 4 + 1)) f 3 _ _ _ _ ss s2 (runeNode 49 (x.rpos + 1)) rfl rfl (by omega)
        (by simp) rfl]
      simp only
      obtain ⟨ss', st', e1, e2, e3, e4, e5⟩ := ih (fun y hy => hl' y (List.mem_cons_of_mem _ hy)) (acc ++ [mulExt ch x])
        { ss with result := appendNode ss.result (.one (mulExt ch x)) } s2
        (by simp only [hr]; exact appendNode_resOf acc _ trivial)
      refine ⟨ss', st', e1, ?_, e3, ?_, by rw [e5, f3]; rfl⟩
      · rw [e2]; simp [hp]
      · rw [e4, f2]; simp [hp, St.regCall]; omega
    · have hp' : fol cfg.file.data ch x.rpos = false := by simpa [isOp] using hp
      obtain ⟨ss1, st1, a1, a2, a3, a4, a5⟩ := tail_fail hc.max hc.off (opSh 1 ch 2) 0 ch [34, ch, 34] hch rfl rfl
        (fr + 4) (f + 2) [] x hx1 hp' ss st
      have a1' : seqParse (run cfg (fr + 5)) (opSh 1 ch 2) (f + 3) 1 [x] [] x.rpos false ss st = some (false, ss1, st1) := a1
      rw [a1']
      simp only
      obtain ⟨ss', st', e1, e2, e3, e4, e5⟩ := ih (fun y hy => hl' y (List.mem_cons_of_mem _ hy)) acc ss1 st1
        (by rw [a2, hr])
      simp only [List.nil_append, Nat.zero_add] at e1
      refine ⟨ss', st', e1, ?_, by rw [e3, a3], ?_, by rw [e5, a5]⟩
      · rw [e2]; simp [hp]
      · rw [e4, a4]; simp [hp]; omega

/-- `SeqOf(T, 'c', F)` once the inner `T` has answered with `L` -/
theorem run_mulS (hc : IsAr2 k cfg) (ch : Nat) (hch : ch < 128) (hne : ch ≠ 49) (q : Nat) (f : Nat) (ctx : Ctx)
    (L : List Node) (hL : ∀ x ∈ L, q < x.rpos ∧ x.rpos % 2 = 0) (c : Nat) (K Kin : List CacheEntry) (e0 : Option Err)
    (inner : ∀ s : St, s.cache = K →
      ∃ s1, run cfg (f + 2) ar2T ctx q s = some (⟨resOf L, [1], e0⟩, s1) ∧ s1.calls = s.calls + c ∧ s1.cache = Kin)
    (st : St) (hcache : st.cache = K) :
    ∃ e st', run cfg (f + 6) (opS 1 ch 2) ctx q st =
        some (⟨resOf ((L.filter (isOp cfg.file.data ch)).map (mulExt ch)), [1], e⟩, st') ∧
      st'.calls = st.calls + 1 + c + L.length + 4 * (L.filter (isOp cfg.file.data ch)).length ∧ st'.cache = Kin := by
  obtain ⟨s1, i1, i2, i3⟩ := inner st.regCall hcache
  have href : run cfg (f + 5) (.ref 1) ctx q st.regCall = some (⟨resOf L, [1], e0⟩, s1) := by
    rw [run_ref hc.max (f + 4) 1 ar2T (by rw [hc.env]; rfl)]
    exact run_mono cfg (f + 2) (f + 4) (by omega) _ _ _ _ _ i1
  have hcp : (ssUpd true {} ⟨resOf L, [1], e0⟩).cp = [1] := by
    rw [ssUpd_cp_true]; exact cpUnion_nil_left [1]
  have hseq : ∃ b ss' st1, seqParse (run cfg (f + 5)) (opSh 1 ch 2) (f + 5) 0 [] ctx q true {} st = some (b, ss', st1) ∧
      ss'.result = resOf ((L.filter (isOp cfg.file.data ch)).map (mulExt ch)) ∧ ss'.cp = [1] ∧
      st1.calls = st.calls + 1 + c + L.length + 4 * (L.filter (isOp cfg.file.data ch)).length ∧ st1.cache = Kin := by
    by_cases hnil : L = []
    · subst hnil
      rw [seq_step_nil (opSh 1 ch 2) (run cfg (f + 5)) (f + 4) 0 _ ctx q true _ _ s1 _ _ rfl href rfl rfl]
      refine ⟨_, _, _, rfl, ?_, hcp, ?_, i3⟩
      · rw [ssUpd_result]; rfl
      · rw [i2]; simp [St.regCall]
    · rw [seq_step_alts (opSh 1 ch 2) (run cfg (f + 5)) (f + 4) 0 _ ctx q true _ _ s1 _ _ rfl href
        (resOf_isNil_false L hnil)]
      obtain ⟨ss', st', t1, t2, t3, t4, t5⟩ := mul_alts hc ch hch hne f (f + 1) ctx q true L hL []
        (ssUpd true {} ⟨resOf L, [1], e0⟩) s1 (by rw [ssUpd_result]; rfl)
      rw [← resOf_alts L] at t1
      refine ⟨_, _, _, t1, t2, by rw [t3, hcp], ?_, by rw [t5, i3]⟩
      rw [t4, i2]; simp [St.regCall]
  obtain ⟨b, ss', st1, q1, q2, q3, q4, q5⟩ := hseq
  obtain ⟨e1, s2, r1, r2, r3, _⟩ := run_shape_res hc.max (f + 5) (opS 1 ch 2) (opSh 1 ch 2) ctx q _ (opS_shape 1 ch 2) rfl
    b ss' st1 _ q1 q2
  rw [q3] at r1
  exact ⟨e1, s2, r1, by rw [r2, q4], by rw [r3, q5]⟩

/-- the alternatives of `T` at `q`, `j` levels above the curtailed activation, and its calls -/
def TN2 (data : Bytes) (q : Nat) : Nat → List Node
  | 0 => []
  | j + 1 => ((TN2 data q j).filter (isOp data 42)).map (mulExt 42) ++
      ((TN2 data q j).filter (isOp data 47)).map (mulExt 47) ++ [runeNode 49 q]

def TC2 (data : Bytes) (q : Nat) : Nat → Nat
  | 0 => 0
  | j + 1 => TC2 data q j + 8 + 2 * (TN2 data q j).length +
      4 * (((TN2 data q j).filter (isOp data 42)).length + ((TN2 data q j).filter (isOp data 47)).length)

theorem TN2_good (hc : IsAr2 k cfg) (q : Nat) (hq1 : q % 2 = 1) (hq2 : q ≤ 2 * k + 1) :
    ∀ j, ∀ x ∈ TN2 cfg.file.data q j, goodNode k q x := by
  intro j
  induction j with
  | zero => intro x hx; cases hx
  | succ j ih =>
    intro x hx
    simp only [TN2, List.mem_append, List.mem_map, List.mem_filter, List.mem_singleton] at hx
    rcases hx with (⟨y, ⟨hy, hs⟩, rfl⟩ | ⟨y, ⟨hy, hs⟩, rfl⟩) | rfl
    · obtain ⟨g1, g2, g3, _, _⟩ := ih y hy
      have := hc.op 42 _ (by omega) hs
      exact ⟨by rw [mulExt_rpos]; omega, by rw [mulExt_rpos]; omega, by rw [mulExt_rpos]; omega, trivial, rfl⟩
    · obtain ⟨g1, g2, g3, _, _⟩ := ih y hy
      have := hc.op 47 _ (by omega) hs
      exact ⟨by rw [mulExt_rpos]; omega, by rw [mulExt_rpos]; omega, by rw [mulExt_rpos]; omega, trivial, rfl⟩
    · exact ⟨by show q < q + 1; omega, by show (q + 1) % 2 = 0; omega, by show q + 1 ≤ _; omega, trivial, rfl⟩

theorem mulExt_notEmpty (data : Bytes) (ch : Nat) (l : List Node) :
    ∀ x ∈ (l.filter (isOp data ch)).map (mulExt ch), notEmptyNode x := by
  intro x hx
  obtain ⟨y, _, rfl⟩ := List.mem_map.mp hx
  trivial

/-- **one level of the spine of `T`**: the inner activation is run by the first alternative (`inner1`) and answered
    again from the cache `Kin` it left behind (`inner2`) in the second -/
theorem ar2_T_step (hc : IsAr2 k cfg) (q : Nat) (hq1 : q % 2 = 1) (hq2 : q ≤ 2 * k + 1) (f : Nat) (ctx : Ctx)
    (hcur : ¬ ctx.get 1 > remaining cfg.file q + Facts.curtailSlack) (L : List Node)
    (hL : ∀ x ∈ L, q < x.rpos ∧ x.rpos % 2 = 0) (c : Nat) (K Kin : List CacheEntry) (hK : look K 1 q = none)
    (e0 : Option Err)
    (inner1 : ∀ s : St, s.cache = K →
      ∃ s1, run cfg (f + 2) ar2T (ctx.inc 1) q s = some (⟨resOf L, [1], e0⟩, s1) ∧ s1.calls = s.calls + c ∧
        s1.cache = Kin)
    (inner2 : ∀ s : St, s.cache = Kin →
      ∃ s1, run cfg (f + 2) ar2T (ctx.inc 1) q s = some (⟨resOf L, [1], e0⟩, s1) ∧ s1.calls = s.calls + 0 ∧
        s1.cache = Kin) :
    ∀ st : St, st.cache = K →
      ∃ st', run cfg (f + 8) ar2T ctx q st =
          some (⟨resOf ((L.filter (isOp cfg.file.data 42)).map (mulExt 42) ++
            (L.filter (isOp cfg.file.data 47)).map (mulExt 47) ++ [runeNode 49 q]), [1], none⟩, st') ∧
        st'.calls = st.calls + c + 8 + 2 * L.length +
          4 * ((L.filter (isOp cfg.file.data 42)).length + (L.filter (isOp cfg.file.data 47)).length) ∧
        st'.cache = cacheSave Kin (TEnt q (ctx.filter [1])
          ((L.filter (isOp cfg.file.data 42)).map (mulExt 42) ++
            (L.filter (isOp cfg.file.data 47)).map (mulExt 47) ++ [runeNode 49 q])) := by
  intro st hcache
  rw [ar2T, run_memo_eq' hc.max (f + 7) 1 ar2TBody ctx q st (by rw [hcache]; exact hK) hcur]
  obtain ⟨e1, s1, a1, a2, a3⟩ := run_mulS hc 42 (by omega) (by omega) q f (ctx.inc 1) L hL c K Kin e0 inner1
    (memoEnter cfg 1 q st).regCall
    (by show (memoEnter cfg 1 q st).cache = K; rw [(memoEnter_fields _ _ _ _).2, hcache])
  obtain ⟨e2, s2, b1, b2, b3⟩ := run_mulS hc 47 (by omega) (by omega) q f (ctx.inc 1) L hL 0 Kin Kin e0 inner2
    s1.regCall a3
  obtain ⟨s3, f1, f2, f3⟩ := run_ar2F hc (f + 1) (ctx.inc 1) q hq1 hq2 s2.regCall
  have hrefF : run cfg (f + 5 + 1) (.ref 2) (ctx.inc 1) q s2.regCall = some (⟨.one (runeNode 49 q), [], none⟩, s3) := by
    rw [run_ref hc.max (f + 5) 2 arF (by rw [hc.env]; rfl)]
    exact f1
  obtain ⟨e', s4, r1, r2, r3, r4⟩ := run_any3c hc.max (f + 5) _ _ _ (ctx.inc 1) q (memoEnter cfg 1 q st) _ _ _ s1 s2 s3
    a1 b1 hrefF
  have hres : appendNode (appendNode (resOf ((L.filter (isOp cfg.file.data 42)).map (mulExt 42)))
        (resOf ((L.filter (isOp cfg.file.data 47)).map (mulExt 47)))) (.one (runeNode 49 q)) =
      resOf ((L.filter (isOp cfg.file.data 42)).map (mulExt 42) ++
        (L.filter (isOp cfg.file.data 47)).map (mulExt 47) ++ [runeNode 49 q]) := by
    rw [appendNode_resOf_list _ _ (mulExt_notEmpty _ _ _)]
    exact appendNode_resOf _ _ trivial
  have hcp : cpUnion (cpUnion (cpUnion [] [1]) [1]) [] = [1] := by simp [cpUnion]
  simp only [hres, hcp] at r1 r4
  have he : e' = none := r4 (resOf_isNil_snoc _ _)
  subst he
  rw [ar2TBody, r1]
  refine ⟨_, rfl, ?_, ?_⟩
  · show s4.calls = _
    rw [r2, f2]
    show s2.calls + 1 + 3 = _
    rw [b2]
    show s1.calls + 1 + 1 + 0 + _ + _ + 1 + 3 = _
    rw [a2]
    show (memoEnter cfg 1 q st).calls + 1 + 1 + c + _ + _ + 1 + 1 + 0 + _ + _ + 1 + 3 = _
    rw [(memoEnter_fields _ _ _ _).1]
    omega
  · show cacheSave s4.cache _ = _
    rw [r3, f3]
    show cacheSave s2.cache _ = _
    rw [b3]
    rfl

def TEntry2 (data : Bytes) (q j t : Nat) : CacheEntry := TEnt q (cT [] t) (TN2 data q j)

/-- the cache after level `j` (entered with count `D - j`) returned -/
def TCache2 (data : Bytes) (q D : Nat) (K : List CacheEntry) : Nat → List CacheEntry
  | 0 => K
  | j + 1 => cacheSave (TCache2 data q D K j) (TEntry2 data q (j + 1) (D - (j + 1)))

theorem look_TCache2 (data : Bytes) (q D : Nat) (K : List CacheEntry) (j i p : Nat) :
    look (TCache2 data q D K j) i p =
      if 1 ≤ j ∧ i = 1 ∧ p = q then some (TEntry2 data q j (D - j)) else look K i p := by
  induction j with
  | zero => simp [TCache2]
  | succ j ih =>
    rw [TCache2, look_cacheSave, ih]
    by_cases h : i = 1 ∧ p = q
    · obtain ⟨rfl, rfl⟩ := h
      simp [TEntry2, TEnt]
    · have h1 : ¬ ((TEntry2 data q (j + 1) (D - (j + 1))).idx = i ∧ (TEntry2 data q (j + 1) (D - (j + 1))).pos = p) := by
        intro x; exact h ⟨x.1.symm, x.2.symm⟩
      have h2 : ¬ (1 ≤ j ∧ i = 1 ∧ p = q) := fun x => h x.2
      have h3 : ¬ (1 ≤ j + 1 ∧ i = 1 ∧ p = q) := fun x => h x.2
      rw [if_neg h1, if_neg h2, if_neg h3]

/-- **the spine of `T`** at the odd position `q`, from a cache `K` without an entry for (`T`, `q`) -/
theorem ar2_T_level (hc : IsAr2 k cfg) (q : Nat) (hq1 : q % 2 = 1) (hq2 : q ≤ 2 * k + 1) (c0 : Ctx)
    (hc0 : ∀ kv ∈ c0, kv.1 ≠ 1) (K : List CacheEntry) (hK : look K 1 q = none) :
    ∀ j t, j + t = 2 * k + 4 - q → ∀ st : St, st.cache = K →
      ∃ st', run cfg (6 * j + 2) ar2T (cT c0 t) q st = some (⟨resOf (TN2 cfg.file.data q j), [1], none⟩, st') ∧
        st'.calls = st.calls + TC2 cfg.file.data q j ∧ st'.cache = TCache2 cfg.file.data q (2 * k + 4 - q) K j := by
  intro j
  induction j with
  | zero =>
    intro t ht st hcache
    rw [ar2T, run_memo_curtail_eq hc.max 1 1 ar2TBody (cT c0 t) q st
      (cacheGet_of_look_none _ _ _ _ (by rw [hcache]; exact hK))
      (by rw [ar2_remaining hc q (by omega) (by omega), cT_get c0 hc0]; omega)]
    exact ⟨_, rfl, (logEv_fields _ _ _).2.2.1, by rw [(logEv_fields _ _ _).1, hcache]; rfl⟩
  | succ j ih =>
    intro t ht st hcache
    have inner := ih (t + 1) (by omega)
    rw [← cT_inc c0 hc0] at inner
    -- the second alternative: the cache of the inner level (or, at the lowest level, a second curtailment)
    have inner2 : ∀ s : St, s.cache = TCache2 cfg.file.data q (2 * k + 4 - q) K j →
        ∃ s1, run cfg (6 * j + 2) ar2T ((cT c0 t).inc 1) q s = some (⟨resOf (TN2 cfg.file.data q j), [1], none⟩, s1) ∧
          s1.calls = s.calls + 0 ∧ s1.cache = TCache2 cfg.file.data q (2 * k + 4 - q) K j := by
      intro s hs
      cases j with
      | zero =>
        obtain ⟨s1, a, b, c⟩ := inner s hs
        exact ⟨s1, a, b, c⟩
      | succ j =>
        have hl : look s.cache 1 q = some (TEntry2 cfg.file.data q (j + 1) (2 * k + 4 - q - (j + 1))) := by
          rw [hs, look_TCache2]; simp
        have ht' : 2 * k + 4 - q - (j + 1) = t + 1 := by omega
        rw [ht'] at hl
        have hget : cacheGet s.cache 1 q ((cT c0 t).inc 1) = some (TEntry2 cfg.file.data q (j + 1) (t + 1)) := by
          rw [cacheGet_look, hl, cT_inc c0 hc0]
          have : (cT c0 (t + 1)).get 1 = t + 1 := cT_get c0 hc0 (t + 1)
          simp [TEntry2, TEnt, cT]
          exact Nat.le_of_eq this.symm
        rw [ar2T, run_memo_hit_eq hc.max _ 1 ar2TBody _ q s _ hget]
        exact ⟨_, rfl, (logEv_fields _ _ _).2.2.1, by rw [(logEv_fields _ _ _).1, hs]⟩
    obtain ⟨st', h1, h2, h3⟩ := ar2_T_step hc q hq1 hq2 (6 * j) (cT c0 t)
      (by rw [ar2_remaining hc q (by omega) (by omega), cT_get c0 hc0]; omega)
      (TN2 cfg.file.data q j) (fun x hx => by
        obtain ⟨a, b, _⟩ := TN2_good hc q hq1 hq2 j x hx
        exact ⟨a, b⟩)
      (TC2 cfg.file.data q j) K _ hK none inner inner2 st hcache
    refine ⟨st', ?_, ?_, ?_⟩
    · rw [show 6 * (j + 1) + 2 = 6 * j + 8 by omega]; exact h1
    · rw [h2, TC2]; omega
    · rw [h3, TCache2, cT_filter c0 hc0]
      have : t = 2 * k + 4 - q - (j + 1) := by omega
      rw [this]
      rfl

/-- the alternatives, the calls and the cache of a whole first run of `T` at `q` -/
def TNf2 (data : Bytes) (k q : Nat) : List Node := TN2 data q (2 * k + 4 - q)
def TCf2 (data : Bytes) (k q : Nat) : Nat := TC2 data q (2 * k + 4 - q)
def TKf2 (data : Bytes) (k q : Nat) (K : List CacheEntry) : List CacheEntry :=
  TCache2 data q (2 * k + 4 - q) K (2 * k + 4 - q)

theorem look_TKf2 (data : Bytes) (k q : Nat) (hq : q ≤ 2 * k + 1) (K : List CacheEntry) (i p : Nat) :
    look (TKf2 data k q K) i p = if i = 1 ∧ p = q then some (TEnt q [] (TNf2 data k q)) else look K i p := by
  rw [TKf2, look_TCache2]
  have h1 : 1 ≤ 2 * k + 4 - q := by omega
  by_cases h : i = 1 ∧ p = q
  · rw [if_pos ⟨h1, h⟩, if_pos h, Nat.sub_self]
    rfl
  · rw [if_neg (fun x => h x.2), if_neg h]

def TInv2 (data : Bytes) (k : Nat) (K : List CacheEntry) : Prop :=
  ∀ q e, look K 1 q = some e → e = TEnt q [] (TNf2 data k q)

def tCache2 (data : Bytes) (k : Nat) (K : List CacheEntry) (q : Nat) : List CacheEntry :=
  match look K 1 q with
  | some _ => K
  | none => TKf2 data k q K
def tCost2 (data : Bytes) (k : Nat) (K : List CacheEntry) (q : Nat) : Nat :=
  match look K 1 q with
  | some _ => 0
  | none => TCf2 data k q

theorem TInv2_tCache2 (data : Bytes) (k : Nat) (K : List CacheEntry) (q : Nat) (hq : q ≤ 2 * k + 1)
    (h : TInv2 data k K) : TInv2 data k (tCache2 data k K q) := by
  unfold tCache2
  split
  · exact h
  · intro q' e he
    rw [look_TKf2 data k q hq] at he
    by_cases hh : q' = q
    · subst hh
      simp only [true_and, ↓reduceIte, Option.some.injEq] at he
      exact he.symm
    · have : ¬ (1 = 1 ∧ q' = q) := fun x => hh x.2
      rw [if_neg this] at he
      exact h q' e he

theorem look_tCache2_other (data : Bytes) (k : Nat) (K : List CacheEntry) (q : Nat) (hq : q ≤ 2 * k + 1) (i p : Nat)
    (h : ¬ (i = 1 ∧ p = q)) : look (tCache2 data k K q) i p = look K i p := by
  unfold tCache2
  split
  · rfl
  · rw [look_TKf2 data k q hq, if_neg h]

/-- **a call of `T`** at an odd position from any context without a count for `T` -/
theorem ar2_T_call (hc : IsAr2 k cfg) (q : Nat) (hq1 : q % 2 = 1) (hq2 : q ≤ 2 * k + 1) (c0 : Ctx)
    (hc0 : ∀ kv ∈ c0, kv.1 ≠ 1) (F : Nat) (hF : 12 * k + 20 ≤ F) (st : St) (hinv : TInv2 cfg.file.data k st.cache) :
    ∃ st', run cfg F ar2T c0 q st = some (⟨resOf (TNf2 cfg.file.data k q), [1], none⟩, st') ∧
      st'.calls = st.calls + tCost2 cfg.file.data k st.cache q ∧ st'.cache = tCache2 cfg.file.data k st.cache q := by
  cases hl : look st.cache 1 q with
  | some e =>
    have he := hinv q e hl
    obtain ⟨F', rfl⟩ : ∃ F', F = F' + 1 := ⟨F - 1, by omega⟩
    rw [ar2T, run_memo_hit_eq hc.max F' 1 ar2TBody c0 q st e (cacheGet_of_look_nilctx _ _ _ _ e hl (by rw [he]; rfl))]
    refine ⟨_, by rw [he]; rfl, ?_, ?_⟩
    · rw [(logEv_fields _ _ _).2.2.1]; simp [tCost2, hl]
    · rw [(logEv_fields _ _ _).1]; simp [tCache2, hl]
  | none =>
    obtain ⟨st', h1, h2, h3⟩ := ar2_T_level hc q hq1 hq2 c0 hc0 st.cache hl (2 * k + 4 - q) 0 (by omega) st rfl
    refine ⟨st', run_mono cfg _ F (by omega) _ _ _ _ _ h1, ?_, ?_⟩
    · rw [h2]; simp [tCost2, hl, TCf2]
    · rw [h3]; simp [tCache2, hl, TKf2]

theorem TNf2_ne (data : Bytes) (k q : Nat) (hq : q ≤ 2 * k + 1) : TNf2 data k q ≠ [] := by
  obtain ⟨d, hd⟩ : ∃ d, 2 * k + 4 - q = d + 1 := ⟨2 * k + 3 - q, by omega⟩
  rw [TNf2, hd, TN2]
  simp

theorem TNf2_good (hc : IsAr2 k cfg) (q : Nat) (hq1 : q % 2 = 1) (hq2 : q ≤ 2 * k + 1) :
    ∀ x ∈ TNf2 cfg.file.data k q, goodNode k q x :=
  TN2_good hc q hq1 hq2 _

/-! ### `E` -/

/-- the node of `E c T` from the node `x` of `E` and the node `y` of `T` -/
def addExt (ch : Nat) (x y : Node) : Node := handleResult (opSh 0 ch 1) y.rpos ([x, runeNode ch x.rpos] ++ [y])

theorem addExt_rpos (ch : Nat) (x y : Node) : (addExt ch x y).rpos = y.rpos := rfl

def pRes2 (data : Bytes) (k ch : Nat) (l : List Node) : List Node :=
  l.flatMap (fun x => if isOp data ch x then (TNf2 data k (x.rpos + 1)).map (addExt ch x) else [])

def pCache2 (data : Bytes) (k ch : Nat) : List CacheEntry → List Node → List CacheEntry
  | K, [] => K
  | K, x :: l => if isOp data ch x then pCache2 data k ch (tCache2 data k K (x.rpos + 1)) l else pCache2 data k ch K l

def pCost2 (data : Bytes) (k ch : Nat) : List CacheEntry → List Node → Nat
  | _, [] => 0
  | K, x :: l =>
    if isOp data ch x then 2 + tCost2 data k K (x.rpos + 1) + pCost2 data k ch (tCache2 data k K (x.rpos + 1)) l
    else 1 + pCost2 data k ch K l

/-- the loop of `E c T` over the alternatives of the inner `E` -/
theorem add_alts (hc : IsAr2 k cfg) (ch : Nat) (hch : ch < 128) (hne : ch ≠ 49) (fr f : Nat) (hfr : 12 * k + 20 ≤ fr)
    (ctx : Ctx) (merge : Bool) :
    ∀ (l : List Node), (∀ x ∈ l, goodNode k 1 x) →
    ∀ (acc : List Node) (ss : SeqSt) (st : St), ss.result = resOf acc → TInv2 cfg.file.data k st.cache →
    ∃ ss' st', seqAlts (fun nd ss st =>
          seqParse (run cfg (fr + 1)) (opSh 0 ch 1) (f + 3) (0 + 1) ([] ++ [nd]) (if nd.rpos > 1 then [] else ctx) nd.rpos
            (merge && !(decide (nd.rpos > 1))) ss st) l ss st = some (false, ss', st') ∧
      ss'.result = resOf (acc ++ pRes2 cfg.file.data k ch l) ∧ ss'.cp = ss.cp ∧
      st'.calls = st.calls + pCost2 cfg.file.data k ch st.cache l ∧ st'.cache = pCache2 cfg.file.data k ch st.cache l := by
  intro l
  induction l with
  | nil =>
    intro _ acc ss st hr _
    exact ⟨ss, st, rfl, by simp [pRes2, hr], rfl, rfl, rfl⟩
  | cons x l ih =>
    intro hl' acc ss st hr hinv
    obtain ⟨hx, hx2, hx3, _, _⟩ := hl' x (List.mem_cons_self ..)
    have hgt : x.rpos > 1 := hx
    have hx1 : 1 ≤ x.rpos := by omega
    simp only [seqAlts, hgt, ↓reduceIte, decide_true, Bool.not_true, Bool.and_false, List.nil_append, Nat.zero_add]
    by_cases hp : isOp cfg.file.data ch x = true
    · have hs := hc.op ch _ hne hp
      have hrc := readRune_fol_true hc.off ch x.rpos hx1 hch hp
      rw [seq_step_rune_ok hc.max (opSh 0 ch 1) fr (f + 2) 1 [x] [] x.rpos false ss st ch [34, ch, 34] _ rfl hrc]
      have hgt2 : x.rpos + 1 > x.rpos := by omega
      simp only [hgt2, ↓reduceIte, decide_true, Bool.not_true, Bool.and_false]
      obtain ⟨s2, c1, c2, c3⟩ := ar2_T_call hc (x.rpos + 1) (by omega) (by omega) [] (fun kv h => by cases h) fr hfr
        st.regCall.regCall hinv
      have hcc : st.regCall.regCall.cache = st.cache := rfl
      have hcl : st.regCall.regCall.calls = st.calls + 1 + 1 := rfl
      rw [hcc, hcl] at c2
      rw [hcc] at c3
      have href : run cfg (fr + 1) (.ref 1) [] (x.rpos + 1) st.regCall.regCall =
          some (⟨resOf (TNf2 cfg.file.data k (x.rpos + 1)), [1], none⟩, s2) := by
        rw [run_ref hc.max fr 1 ar2T (by rw [hc.env]; rfl)]
        exact c1
      rw [seq_step_alts (opSh 0 ch 1) (run cfg (fr + 1)) (f + 1) 2 _ [] (x.rpos + 1) false ss st.regCall s2 (.ref 1) _ rfl href
        (resOf_isNil_false _ (TNf2_ne _ _ _ (by omega)))]
      obtain ⟨ss1, m1, m2, m3⟩ := emit_alts (opSh 0 ch 1) (run cfg (fr + 1)) f 2
        ([x] ++ [Node.term (Utf8.encodeRune ch) (Val.rune ch) x.rpos (x.rpos + 1)]) [] (x.rpos + 1) false rfl rfl
        (by simp) (TNf2 cfg.file.data k (x.rpos + 1))
        (fun y hy => (TNf2_good hc (x.rpos + 1) (by omega) (by omega) y hy).2.2.2.2)
        acc (ssUpd false ss ⟨resOf (TNf2 cfg.file.data k (x.rpos + 1)), [1], none⟩) s2
        (by rw [ssUpd_result]; exact hr)
      rw [resOf_alts, m1]
      simp only
      obtain ⟨ss', st', e1, e2, e3, e4, e5⟩ := ih (fun y hy => hl' y (List.mem_cons_of_mem _ hy)) _ ss1 s2 m2
        (by rw [c3]; exact TInv2_tCache2 _ _ _ _ (by omega) hinv)
      simp only [List.nil_append, Nat.zero_add] at e1
      refine ⟨ss', st', e1, ?_, by rw [e3, m3, ssUpd_cp_false], ?_, ?_⟩
      · rw [e2]
        simp only [pRes2, List.flatMap_cons, hp, ↓reduceIte, List.append_assoc]
        rfl
      · rw [e4, c2, c3]
        simp only [pCost2, hp, ↓reduceIte]
        omega
      · rw [e5, c3]
        simp only [pCache2, hp, ↓reduceIte]
    · have hp' : fol cfg.file.data ch x.rpos = false := by simpa [isOp] using hp
      obtain ⟨ss1, st1, a1, a2, a3, a4, a5⟩ := tail_fail hc.max hc.off (opSh 0 ch 1) 0 ch [34, ch, 34] hch rfl rfl
        fr (f + 2) [] x hx1 hp' ss st
      have a1' : seqParse (run cfg (fr + 1)) (opSh 0 ch 1) (f + 3) 1 [x] [] x.rpos false ss st = some (false, ss1, st1) := a1
      rw [a1']
      simp only
      obtain ⟨ss', st', e1, e2, e3, e4, e5⟩ := ih (fun y hy => hl' y (List.mem_cons_of_mem _ hy)) acc ss1 st1
        (by rw [a2, hr]) (by rw [a5]; exact hinv)
      simp only [List.nil_append, Nat.zero_add] at e1
      have hp2 : isOp cfg.file.data ch x = false := by simpa using hp
      refine ⟨ss', st', e1, ?_, by rw [e3, a3], ?_, ?_⟩
      · rw [e2]; simp [pRes2, hp2]
      · rw [e4, a4, a5]; simp only [pCost2, hp2, Bool.false_eq_true, ↓reduceIte]; omega
      · rw [e5, a5]; simp only [pCache2, hp2, Bool.false_eq_true, ↓reduceIte]

theorem TInv2_pCache2 (hc : IsAr2 k cfg) (ch : Nat) (hne : ch ≠ 49) : ∀ (l : List Node), (∀ x ∈ l, goodNode k 1 x) → ∀ K,
    TInv2 cfg.file.data k K → TInv2 cfg.file.data k (pCache2 cfg.file.data k ch K l) := by
  intro l
  induction l with
  | nil => intro _ K h; exact h
  | cons x l ih =>
    intro hl K h
    by_cases hp : isOp cfg.file.data ch x = true
    · have hs := hc.op ch _ hne hp
      simp only [pCache2, hp, ↓reduceIte]
      exact ih (fun y hy => hl y (List.mem_cons_of_mem _ hy)) _ (TInv2_tCache2 _ _ _ _ (by omega) h)
    · have hp2 : isOp cfg.file.data ch x = false := by simpa using hp
      simp only [pCache2, hp2, Bool.false_eq_true, ↓reduceIte]
      exact ih (fun y hy => hl y (List.mem_cons_of_mem _ hy)) _ h

theorem look_pCache2_other (hc : IsAr2 k cfg) (ch : Nat) (hne : ch ≠ 49) (i p : Nat) (hip : i ≠ 1 ∨ p = 1) :
    ∀ (l : List Node), (∀ x ∈ l, goodNode k 1 x) → ∀ K, look (pCache2 cfg.file.data k ch K l) i p = look K i p := by
  intro l
  induction l with
  | nil => intro _ K; rfl
  | cons x l ih =>
    intro hl K
    obtain ⟨hx, _⟩ := hl x (List.mem_cons_self ..)
    by_cases hp : isOp cfg.file.data ch x = true
    · have hs := hc.op ch _ hne hp
      simp only [pCache2, hp, ↓reduceIte]
      rw [ih (fun y hy => hl y (List.mem_cons_of_mem _ hy)), look_tCache2_other _ _ _ _ (by omega)]
      intro h
      rcases hip with h1 | h1
      · exact h1 h.1
      · omega
    · have hp2 : isOp cfg.file.data ch x = false := by simpa using hp
      simp only [pCache2, hp2, Bool.false_eq_true, ↓reduceIte]
      exact ih (fun y hy => hl y (List.mem_cons_of_mem _ hy)) _

theorem pRes2_good (hc : IsAr2 k cfg) (ch : Nat) (hne : ch ≠ 49) (l : List Node) (hl : ∀ x ∈ l, goodNode k 1 x) :
    ∀ z ∈ pRes2 cfg.file.data k ch l, goodNode k 1 z := by
  intro z hz
  simp only [pRes2, List.mem_flatMap] at hz
  obtain ⟨x, hx, hz⟩ := hz
  obtain ⟨g1, g2, g3, _, _⟩ := hl x hx
  by_cases hp : isOp cfg.file.data ch x = true
  · have hs := hc.op ch _ hne hp
    simp only [hp, ↓reduceIte, List.mem_map] at hz
    obtain ⟨y, hy, rfl⟩ := hz
    obtain ⟨a1, a2, a3, _, _⟩ := TNf2_good hc (x.rpos + 1) (by omega) (by omega) y hy
    exact ⟨by rw [addExt_rpos]; omega, by rw [addExt_rpos]; exact a2, by rw [addExt_rpos]; exact a3, trivial, rfl⟩
  · have hp2 : isOp cfg.file.data ch x = false := by simpa using hp
    simp [hp2] at hz

theorem pRes2_notEmpty (hc : IsAr2 k cfg) (ch : Nat) (hne : ch ≠ 49) (l : List Node) (hl : ∀ x ∈ l, goodNode k 1 x) :
    ∀ z ∈ pRes2 cfg.file.data k ch l, notEmptyNode z :=
  fun z hz => (pRes2_good hc ch hne l hl z hz).2.2.2.1

/-- `SeqOf(E, 'c', T)` once the inner `E` has answered with `L` -/
theorem run_addS (hc : IsAr2 k cfg) (ch : Nat) (hch : ch < 128) (hne : ch ≠ 49) (f : Nat) (hf : 12 * k + 22 ≤ f)
    (ctx : Ctx) (L : List Node) (hL : ∀ x ∈ L, goodNode k 1 x) (c : Nat) (K Kin : List CacheEntry)
    (hKin : TInv2 cfg.file.data k Kin) (cpin : List Nat) (e0 : Option Err)
    (inner : ∀ s : St, s.cache = K →
      ∃ s1, run cfg (f + 2) ar2E ctx 1 s = some (⟨resOf L, cpin, e0⟩, s1) ∧ s1.calls = s.calls + c ∧ s1.cache = Kin)
    (st : St) (hcache : st.cache = K) :
    ∃ e st', run cfg (f + 6) (opS 0 ch 1) ctx 1 st = some (⟨resOf (pRes2 cfg.file.data k ch L), cpin, e⟩, st') ∧
      st'.calls = st.calls + 1 + c + pCost2 cfg.file.data k ch Kin L ∧ st'.cache = pCache2 cfg.file.data k ch Kin L := by
  obtain ⟨s1, i1, i2, i3⟩ := inner st.regCall hcache
  have href : run cfg (f + 5) (.ref 0) ctx 1 st.regCall = some (⟨resOf L, cpin, e0⟩, s1) := by
    rw [run_ref hc.max (f + 4) 0 ar2E (by rw [hc.env]; rfl)]
    exact run_mono cfg (f + 2) (f + 4) (by omega) _ _ _ _ _ i1
  have hcp : (ssUpd true {} ⟨resOf L, cpin, e0⟩).cp = cpin := by
    rw [ssUpd_cp_true]; exact cpUnion_nil_left cpin
  have hseq : ∃ b ss' st1, seqParse (run cfg (f + 5)) (opSh 0 ch 1) (f + 5) 0 [] ctx 1 true {} st = some (b, ss', st1) ∧
      ss'.result = resOf (pRes2 cfg.file.data k ch L) ∧ ss'.cp = cpin ∧
      st1.calls = st.calls + 1 + c + pCost2 cfg.file.data k ch Kin L ∧
      st1.cache = pCache2 cfg.file.data k ch Kin L := by
    by_cases hnil : L = []
    · subst hnil
      rw [seq_step_nil (opSh 0 ch 1) (run cfg (f + 5)) (f + 4) 0 _ ctx 1 true _ _ s1 _ _ rfl href rfl rfl]
      refine ⟨_, _, _, rfl, ?_, hcp, ?_, i3⟩
      · rw [ssUpd_result]; rfl
      · rw [i2]; simp [St.regCall, pCost2]
    · rw [seq_step_alts (opSh 0 ch 1) (run cfg (f + 5)) (f + 4) 0 _ ctx 1 true _ _ s1 _ _ rfl href
        (resOf_isNil_false L hnil)]
      obtain ⟨ss', st', t1, t2, t3, t4, t5⟩ := add_alts hc ch hch hne (f + 4) (f + 1) (by omega) ctx true L hL []
        (ssUpd true {} ⟨resOf L, cpin, e0⟩) s1 (by rw [ssUpd_result]; rfl) (by rw [i3]; exact hKin)
      rw [← resOf_alts L] at t1
      refine ⟨_, _, _, t1, t2, by rw [t3, hcp], ?_, by rw [t5, i3]⟩
      rw [t4, i2, i3]; simp [St.regCall]
  obtain ⟨b, ss', st1, q1, q2, q3, q4, q5⟩ := hseq
  obtain ⟨e1, s2, r1, r2, r3, _⟩ := run_shape_res hc.max (f + 5) (opS 0 ch 1) (opSh 0 ch 1) ctx 1 _ (opS_shape 0 ch 1) rfl
    b ss' st1 _ q1 q2
  rw [q3] at r1
  exact ⟨e1, s2, r1, by rw [r2, q4], by rw [r3, q5]⟩

/-- **one level of the spine of `E`** -/
theorem ar2_E_step (hc : IsAr2 k cfg) (f : Nat) (hf : 12 * k + 22 ≤ f) (t : Nat) (ht : t ≤ 2 * k + 2) (L : List Node)
    (hL : ∀ x ∈ L, goodNode k 1 x) (c : Nat) (Kin : List CacheEntry) (hKin : TInv2 cfg.file.data k Kin)
    (cpin : List Nat) (hcpin : cpin = [0] ∨ cpin = [0, 1]) (e0 : Option Err)
    (inner1 : ∀ s : St, s.cache = [] →
      ∃ s1, run cfg (f + 2) ar2E (ctx0 (t + 1)) 1 s = some (⟨resOf L, cpin, e0⟩, s1) ∧ s1.calls = s.calls + c ∧
        s1.cache = Kin)
    (inner2 : ∀ s : St, s.cache = pCache2 cfg.file.data k 43 Kin L →
      ∃ s1, run cfg (f + 2) ar2E (ctx0 (t + 1)) 1 s = some (⟨resOf L, cpin, e0⟩, s1) ∧ s1.calls = s.calls + 0 ∧
        s1.cache = pCache2 cfg.file.data k 43 Kin L) :
    ∀ st : St, st.cache = [] →
      ∃ st', run cfg (f + 8) ar2E (ctx0 t) 1 st =
          some (⟨resOf (pRes2 cfg.file.data k 43 L ++ pRes2 cfg.file.data k 45 L ++ TNf2 cfg.file.data k 1), [0, 1],
            none⟩, st') ∧
        st'.calls = st.calls + c + 5 + pCost2 cfg.file.data k 43 Kin L +
          pCost2 cfg.file.data k 45 (pCache2 cfg.file.data k 43 Kin L) L +
          tCost2 cfg.file.data k (pCache2 cfg.file.data k 45 (pCache2 cfg.file.data k 43 Kin L) L) 1 ∧
        st'.cache = cacheSave
          (tCache2 cfg.file.data k (pCache2 cfg.file.data k 45 (pCache2 cfg.file.data k 43 Kin L) L) 1)
          (EEnt t (pRes2 cfg.file.data k 43 L ++ pRes2 cfg.file.data k 45 L ++ TNf2 cfg.file.data k 1)) := by
  intro st hcache
  rw [ar2E, run_memo_eq' hc.max (f + 7) 0 ar2EBody (ctx0 t) 1 st (by rw [hcache]; rfl)
    (by rw [ar2_remaining hc 1 (by omega) (by omega), ctx0_get]; omega), ctx0_inc]
  have hK1 : TInv2 cfg.file.data k (pCache2 cfg.file.data k 43 Kin L) := TInv2_pCache2 hc 43 (by omega) L hL Kin hKin
  have hK2 : TInv2 cfg.file.data k (pCache2 cfg.file.data k 45 (pCache2 cfg.file.data k 43 Kin L) L) :=
    TInv2_pCache2 hc 45 (by omega) L hL _ hK1
  obtain ⟨e1, s1, a1, a2, a3⟩ := run_addS hc 43 (by omega) (by omega) f hf (ctx0 (t + 1)) L hL c [] Kin hKin cpin e0 inner1
    (memoEnter cfg 0 1 st).regCall
    (by show (memoEnter cfg 0 1 st).cache = []; rw [(memoEnter_fields _ _ _ _).2, hcache])
  obtain ⟨e2, s2, b1, b2, b3⟩ := run_addS hc 45 (by omega) (by omega) f hf (ctx0 (t + 1)) L hL 0 _ _ hK1 cpin e0 inner2
    s1.regCall a3
  have hinv3 : TInv2 cfg.file.data k s2.regCall.cache := by
    show TInv2 cfg.file.data k s2.cache
    rw [b3]; exact hK2
  obtain ⟨s3, c1, c2, c3⟩ := ar2_T_call hc 1 (by omega) (by omega) (ctx0 (t + 1))
    (fun kv h => by cases t <;> simp [ctx0] at h <;> simp [h]) (f + 5) (by omega) s2.regCall hinv3
  have hrefT : run cfg (f + 5 + 1) (.ref 1) (ctx0 (t + 1)) 1 s2.regCall =
      some (⟨resOf (TNf2 cfg.file.data k 1), [1], none⟩, s3) := by
    rw [run_ref hc.max (f + 5) 1 ar2T (by rw [hc.env]; rfl)]
    exact c1
  obtain ⟨e', s4, r1, r2, r3, r4⟩ := run_any3c hc.max (f + 5) _ _ _ (ctx0 (t + 1)) 1 (memoEnter cfg 0 1 st) _ _ _ s1 s2 s3
    a1 b1 hrefT
  have hres : appendNode (appendNode (resOf (pRes2 cfg.file.data k 43 L)) (resOf (pRes2 cfg.file.data k 45 L)))
        (resOf (TNf2 cfg.file.data k 1)) =
      resOf (pRes2 cfg.file.data k 43 L ++ pRes2 cfg.file.data k 45 L ++ TNf2 cfg.file.data k 1) := by
    rw [appendNode_resOf_list _ _ (pRes2_notEmpty hc 45 (by omega) L hL),
      appendNode_resOf_list _ _ (fun x hx => (TNf2_good hc 1 (by omega) (by omega) x hx).2.2.2.1)]
  have hcp : cpUnion (cpUnion (cpUnion [] cpin) cpin) [1] = [0, 1] := by
    rcases hcpin with rfl | rfl <;> simp [cpUnion]
  simp only [hres, hcp] at r1 r4
  have he : e' = none := r4 (resOf_isNil_false _ (by simp [TNf2_ne cfg.file.data k 1 (by omega)]))
  subst he
  rw [ar2EBody, r1]
  have hs2c : s2.regCall.cache = pCache2 cfg.file.data k 45 (pCache2 cfg.file.data k 43 Kin L) L := b3
  rw [hs2c] at c2 c3
  refine ⟨_, rfl, ?_, ?_⟩
  · show s4.calls = _
    rw [r2, c2]
    show s2.calls + 1 + _ = _
    rw [b2]
    show s1.calls + 1 + 1 + 0 + _ + 1 + _ = _
    rw [a2]
    show (memoEnter cfg 0 1 st).calls + 1 + 1 + c + _ + 1 + 1 + 0 + _ + 1 + _ = _
    rw [(memoEnter_fields _ _ _ _).1]
    omega
  · show cacheSave s4.cache _ = _
    rw [r3, c3]
    rfl

def EN2 (data : Bytes) (k : Nat) : Nat → List Node
  | 0 => []
  | j + 1 => pRes2 data k 43 (EN2 data k j) ++ pRes2 data k 45 (EN2 data k j) ++ TNf2 data k 1

def EK2 (data : Bytes) (k : Nat) : Nat → List CacheEntry
  | 0 => []
  | j + 1 => cacheSave
      (tCache2 data k (pCache2 data k 45 (pCache2 data k 43 (EK2 data k j) (EN2 data k j)) (EN2 data k j)) 1)
      (EEnt (2 * k + 3 - (j + 1)) (EN2 data k (j + 1)))

def EC2 (data : Bytes) (k : Nat) : Nat → Nat
  | 0 => 0
  | j + 1 => EC2 data k j + 5 + pCost2 data k 43 (EK2 data k j) (EN2 data k j) +
      pCost2 data k 45 (pCache2 data k 43 (EK2 data k j) (EN2 data k j)) (EN2 data k j) +
      tCost2 data k (pCache2 data k 45 (pCache2 data k 43 (EK2 data k j) (EN2 data k j)) (EN2 data k j)) 1

theorem EN2_good (hc : IsAr2 k cfg) : ∀ j, ∀ x ∈ EN2 cfg.file.data k j, goodNode k 1 x := by
  intro j
  induction j with
  | zero => intro x hx; cases hx
  | succ j ih =>
    intro x hx
    simp only [EN2, List.mem_append] at hx
    rcases hx with (hx | hx) | hx
    · exact pRes2_good hc 43 (by omega) _ ih x hx
    · exact pRes2_good hc 45 (by omega) _ ih x hx
    · exact TNf2_good hc 1 (by omega) (by omega) x hx

theorem TInv2_cacheSave_E (data : Bytes) (k : Nat) (K : List CacheEntry) (e : CacheEntry) (he : e.idx = 0)
    (h : TInv2 data k K) : TInv2 data k (cacheSave K e) := by
  intro q x hx
  rw [look_cacheSave, if_neg (by rw [he]; omega)] at hx
  exact h q x hx

theorem EK2_inv (hc : IsAr2 k cfg) : ∀ j, TInv2 cfg.file.data k (EK2 cfg.file.data k j) := by
  intro j
  induction j with
  | zero => intro q e h; cases h
  | succ j ih =>
    rw [EK2]
    exact TInv2_cacheSave_E _ _ _ _ rfl (TInv2_tCache2 _ _ _ _ (by omega)
      (TInv2_pCache2 hc 45 (by omega) _ (EN2_good hc j) _ (TInv2_pCache2 hc 43 (by omega) _ (EN2_good hc j) _ ih)))

theorem ctx0_filter01 (t : Nat) : (ctx0 t).filter [0, 1] = ctx0 t := by
  cases t <;> simp [ctx0, Ctx.filter]

/-- **the spine of `E`** -/
theorem ar2_E_level (hc : IsAr2 k cfg) : ∀ j t, j + t = 2 * k + 3 → ∀ st : St, st.cache = [] →
    ∃ st', run cfg (12 * k + 24 + 6 * j) ar2E (ctx0 t) 1 st =
        some (⟨resOf (EN2 cfg.file.data k j), if j = 0 then [0] else [0, 1], none⟩, st') ∧
      st'.calls = st.calls + EC2 cfg.file.data k j ∧ st'.cache = EK2 cfg.file.data k j := by
  intro j
  induction j with
  | zero =>
    intro t ht st hcache
    rw [ar2E, run_memo_curtail_eq hc.max _ 0 ar2EBody (ctx0 t) 1 st (by rw [hcache]; rfl)
      (by rw [ar2_remaining hc 1 (by omega) (by omega), ctx0_get]; omega)]
    exact ⟨_, rfl, (logEv_fields _ _ _).2.2.1, by rw [(logEv_fields _ _ _).1, hcache]; rfl⟩
  | succ j ih =>
    intro t ht st hcache
    have inner := ih (t + 1) (by omega)
    -- the second alternative: the cache (or, at the lowest level, a second curtailment)
    have inner2 : ∀ s : St, s.cache = pCache2 cfg.file.data k 43 (EK2 cfg.file.data k j) (EN2 cfg.file.data k j) →
        ∃ s1, run cfg (12 * k + 22 + 6 * j + 2) ar2E (ctx0 (t + 1)) 1 s =
            some (⟨resOf (EN2 cfg.file.data k j), if j = 0 then [0] else [0, 1], none⟩, s1) ∧
          s1.calls = s.calls + 0 ∧
          s1.cache = pCache2 cfg.file.data k 43 (EK2 cfg.file.data k j) (EN2 cfg.file.data k j) := by
      intro s hs
      cases j with
      | zero =>
        have hs' : s.cache = [] := hs
        obtain ⟨s1, a, b, c⟩ := inner s hs'
        refine ⟨s1, by rw [show 12 * k + 22 + 6 * 0 + 2 = 12 * k + 24 + 6 * 0 by omega]; exact a, b, ?_⟩
        rw [c]; rfl
      | succ j =>
        have hl : look s.cache 0 1 = some (EEnt (2 * k + 3 - (j + 1)) (EN2 cfg.file.data k (j + 1))) := by
          rw [hs, look_pCache2_other hc 43 (by omega) 0 1 (.inl (by omega)) _ (EN2_good hc (j + 1)), EK2, look_cacheSave]
          simp [EEnt]
        have ht' : 2 * k + 3 - (j + 1) = t + 1 := by omega
        rw [ht'] at hl
        have hget : cacheGet s.cache 0 1 (ctx0 (t + 1)) = some (EEnt (t + 1) (EN2 cfg.file.data k (j + 1))) := by
          rw [cacheGet_look, hl]
          simp [EEnt, ctx0, Ctx.filter, Ctx.get]
        rw [ar2E, run_memo_hit_eq hc.max _ 0 ar2EBody _ 1 s _ hget]
        exact ⟨_, rfl, (logEv_fields _ _ _).2.2.1, by rw [(logEv_fields _ _ _).1, hs]⟩
    obtain ⟨st', h1, h2, h3⟩ := ar2_E_step hc (12 * k + 22 + 6 * j) (by omega) t (by omega) (EN2 cfg.file.data k j)
      (EN2_good hc j) (EC2 cfg.file.data k j) (EK2 cfg.file.data k j) (EK2_inv hc j)
      (if j = 0 then [0] else [0, 1]) (by by_cases h : j = 0 <;> simp [h]) none
      (fun s hs => by
        obtain ⟨s1, a, b, c⟩ := inner s hs
        exact ⟨s1, by rw [show 12 * k + 22 + 6 * j + 2 = 12 * k + 24 + 6 * j by omega]; exact a, b, c⟩)
      inner2 st hcache
    refine ⟨st', ?_, ?_, ?_⟩
    · rw [show 12 * k + 24 + 6 * (j + 1) = 12 * k + 22 + 6 * j + 8 by omega]
      simp only [Nat.add_one_ne_zero, ↓reduceIte]
      exact h1
    · rw [h2, EC2]; omega
    · rw [h3, EK2]
      have : t = 2 * k + 3 - (j + 1) := by omega
      rw [this]
      rfl
