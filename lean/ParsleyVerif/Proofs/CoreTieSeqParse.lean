/-
  Stage 4 of the core tie, part 3: (*sequence).Parse and (*Sequence).Parse — translated vs. `run` on a parser of the
  Sequence family (SeqOf / SeqTry / SeqFirstOrAll / Many / SepBy), through `run_seqfam`.
-/
import ParsleyVerif.Proofs.CoreTieSeq
namespace PV.CoreTie
open PV.FactsCore

/-- the translated `Sequence` struct (what the constructors SeqOf … and the setters Name / Token / Bind / HandleResult
    build) shows the model's `SeqShape` -/
structure SeqStatic (W : World Context) (cfg : Cfg) (fuel : Nat) (sh : SeqShape) (S : Sequence) : Prop where
  tok : S.token = sh.token
  interp : S.interpreter = eInterp sh.interp
  look : ∀ d : Nat, ∃ h : Parser, (∀ s : Context, S.parserLookUp (d : Int) s = .ok h s) ∧
    (match sh.lookup d with
      | none => h = .nil
      | some g => h.isNil = false ∧ Agrees W cfg fuel h g)
  len : ∀ (d : Nat) (s : Context), S.lenCheck (d : Int) s = .ok (sh.lenCheck d) s
  /-- no handler (the default, `seqDefaultResultHandler(false)`) or `ReturnSingle()` -/
  hand : (S.resultHandler = none ∧ sh.single = false) ∨
    (S.resultHandler = some (seqDefaultResultHandler_parse W true) ∧ sh.single = true)
  name : S.customErr = match sh.name with
    | none => .nil
    | some nm => CorePrelude.NotFoundError nm

/-- the struct `(*Sequence).Parse` builds -/
def seqOf (W : World Context) (sh : SeqShape) (S : Sequence) : sequence :=
  { token := S.token, parserLookUp := S.parserLookUp, lenCheck := S.lenCheck, interpreter := S.interpreter,
    curtailingParsers := CorePrelude.Data.EmptyIntSet, result := .nil, err := .nil, nodes := [],
    resultHandler := some (seqDefaultResultHandler_parse W sh.single) }

theorem seqOf_static (W : World Context) (cfg : Cfg) (fuel : Nat) (sh : SeqShape) (S : Sequence)
    (h : SeqStatic W cfg fuel sh S) : Static W cfg fuel sh (seqOf W sh S) :=
  ⟨h.tok, h.interp, h.look, h.len, ⟨_, rfl, fun pos nodes s => tie_handler W sh pos nodes s⟩⟩

theorem seqOf_mkS (W : World Context) (sh : SeqShape) (S : Sequence) : seqOf W sh S = mkS (seqOf W sh S) {} [] := rfl

/-- **(*Sequence).Parse**, translated with fuel 2·fuel − 1, on a struct showing the shape of `g`: `run cfg (fuel+1) g` -/
theorem tie_Sequence_Parse (W : World Context) (cfg : Cfg) (h0 : cfg.maxCalls = 0) (fuel : Nat) (g : G) (sh : SeqShape)
    (hg : g.shape = some sh) (S : Sequence) (hS : SeqStatic W cfg fuel sh S) :
    AgreesF (Sequence_Parse W (2 * fuel - 1) S) cfg (fuel + 1) g := by
  intro m c pos s st hm hs
  rw [run_seqfam cfg fuel g sh c pos st hg, if_neg (run_budget0 cfg h0 st)]
  unfold runSeq
  have hst := seqOf_static W cfg fuel sh S hS
  have hsim := seq_parse_sim W cfg fuel sh (seqOf W sh S) hst fuel 0 [] m c pos true {} [] s st rfl hm rfl hs
  rw [← seqOf_mkS] at hsim
  have hname := hS.name
  -- the struct built by Parse is `seqOf W sh S` (no handler: the default one; or ReturnSingle())
  rcases hS.hand with ⟨h1, h2⟩ | ⟨h1, h2⟩ <;>
  · simp only [seqOf, h2, CorePrelude.Data.EmptyIntSet] at hsim
    cases hr : seqParse (run cfg fuel) sh fuel 0 [] c pos true {} st with
    | none =>
      rw [hr] at hsim
      simp only [SimB, Int.natCast_zero] at hsim
      simp [Sequence_Parse, sequence_Parse, h1, hsim, Corr, CorePrelude.Data.EmptyIntSet]
    | some r =>
      obtain ⟨b, ss, st1⟩ := r
      rw [hr] at hsim
      obtain ⟨s1, buf1, e1, r1, -⟩ := hsim
      simp only [Int.natCast_zero, mkS] at e1
      dsimp only
      unfold seqFinish
      cases hn : ss.result.isNil
      · -- a result: SetError, no error returned
        simp only [Bool.false_eq_true, if_false]
        cases hse : ss.err with
        | none =>
          have r1' : StRel s1 (st1.setError none) := by simpa [St.setError] using r1
          cases hn' : sh.name <;>
            exact corr_intro (by simp [Sequence_Parse, sequence_Parse, h1, e1, hn, hse, eOut, CorePrelude.Data.EmptyIntSet]) r1'
        | some e =>
          obtain ⟨s2, e2, r2⟩ := tie_SetError W s1 st1 r1 (some e)
          simp only [eErr_some] at e2
          cases hn' : sh.name <;>
            exact corr_intro (by simp [Sequence_Parse, sequence_Parse, h1, e1, hn, hse, eOut, e2, CorePrelude.Data.EmptyIntSet]) r2
      · have hres : ss.result = .nil := by cases h : ss.result <;> simp_all [PV.Res.isNil]
        simp only [if_true]
        cases hse : ss.err with
        | none =>
          cases hn' : sh.name <;>
            exact corr_intro (by simp [Sequence_Parse, sequence_Parse, h1, e1, hres, hse, eOut, CorePrelude.Data.EmptyIntSet]) r1
        | some e =>
          cases hn' : sh.name with
          | none =>
            rw [hn'] at hname
            exact corr_intro (by simp [Sequence_Parse, sequence_Parse, h1, e1, hres, hse, eOut, hname, CorePrelude.Cause.isNil,
              CorePrelude.Data.EmptyIntSet]) r1
          | some nm =>
            rw [hn'] at hname
            by_cases hpos : e.pos = pos
            · cases hk : e.kind.isNotFound <;>
                exact corr_intro (by core_simp [Sequence_Parse, sequence_Parse, h1, e1, hres, hse, eOut, hname,
                  CorePrelude.NotFoundError, CorePrelude.NewError, hpos, hk, CorePrelude.Cause.isNil, CorePrelude.Data.EmptyIntSet]) r1
            · exact corr_intro (by core_simp [Sequence_Parse, sequence_Parse, h1, e1, hres, hse, eOut, hname,
                CorePrelude.NotFoundError, CorePrelude.NewError, hpos, CorePrelude.Cause.isNil, CorePrelude.Data.EmptyIntSet]) r1

end PV.CoreTie
