/-
  C05 (full value theorem): the fragment `ref, memo, any, seq .seqOf, Trim(terminal)` — the combinators of the
  arithmetic grammar — and two derivation relations on it, both with the trims read EXACTLY (the node a
  `Trim(terminal)` returns has its end moved past the whitespace; `Derives` of Spec/Derives.lean is the
  monotone reading that also allows the un-moved node):

  * `DC cfg c g pos x`   curtailed derivations (the relation `DerivesC` of Spec/DerivesC.lean on this fragment):
                         what the parser is guaranteed to find under the left-recursion counters `c`;
  * `DSR cfg R g pos x`  derivations with the rule references abstracted by `R` (the relation `DerivesR` of
                         Proofs/ArithAbs.lean on this fragment): what the parser can return.
-/
import ParsleyVerif.Spec.DerivesC
import ParsleyVerif.Proofs.A05Lex
namespace PV.A05
open PV PV.Text

/-- text.Trim(terminal) -/
def trimT (t : Terminal) : G := .rtrim (.ltrim (.term t) .spacesNl) .spacesNl

theorem trimT_eq (t : Terminal) : trimT t = Garith.trim (.term t) := rfl

mutual
inductive DC (cfg : Cfg) : (Nat → Nat) → G → Nat → Node → Prop
  | trim {c t pos n} : t.parse cfg.params cfg.file (sk cfg.file pos) = .node n →
      DC cfg c (trimT t) pos (mv cfg.file n)
  | ref {c k g pos x} : cfg.env[k]? = some g → DC cfg c g pos x → DC cfg c (.ref k) pos x
  | memo {c i g pos x} : c i ≤ remaining cfg.file pos + Facts.curtailSlack →
      DC cfg (bump c i) g pos x → DC cfg c (.memo i g) pos x
  | any {c gs g pos x} : g ∈ gs → DC cfg c g pos x → DC cfg c (.any gs) pos x
  | seqOf {c gs o sh pos nodes} : (G.seq .seqOf gs o).shape = some sh → DCSeq cfg c sh 0 pos nodes →
      sh.lenCheck nodes.length = true → DC cfg c (.seq .seqOf gs o) pos (handleResult sh pos nodes)
inductive DCSeq (cfg : Cfg) : (Nat → Nat) → SeqShape → Nat → Nat → List Node → Prop
  | nil {c sh d pos} : DCSeq cfg c sh d pos []
  | cons {c sh d pos g n rest} : sh.lookup d = some g → DC cfg c g pos n →
      DCSeq cfg (if n.rpos > pos then zeroC else c) sh (d + 1) n.rpos rest →
      DCSeq cfg c sh d pos (n :: rest)
end

mutual
inductive DSR (cfg : Cfg) (R : Nat → Nat → Node → Prop) : G → Nat → Node → Prop
  | trim {t pos n} : t.parse cfg.params cfg.file (sk cfg.file pos) = .node n →
      DSR cfg R (trimT t) pos (mv cfg.file n)
  | eof {pos} : isEOF cfg.file pos = true → DSR cfg R .eof pos (.eof pos)
  | ref {k pos x} : R k pos x → DSR cfg R (.ref k) pos x
  | memo {i g pos x} : DSR cfg R g pos x → DSR cfg R (.memo i g) pos x
  | any {gs g pos x} : g ∈ gs → DSR cfg R g pos x → DSR cfg R (.any gs) pos x
  | seqOf {gs o sh pos nodes} : (G.seq .seqOf gs o).shape = some sh → DSRSeq cfg R sh 0 pos nodes →
      sh.lenCheck nodes.length = true → DSR cfg R (.seq .seqOf gs o) pos (handleResult sh pos nodes)
inductive DSRSeq (cfg : Cfg) (R : Nat → Nat → Node → Prop) : SeqShape → Nat → Nat → List Node → Prop
  | nil {sh d pos} : DSRSeq cfg R sh d pos []
  | cons {sh d pos g n rest} : sh.lookup d = some g → DSR cfg R g pos n →
      DSRSeq cfg R sh (d + 1) n.rpos rest → DSRSeq cfg R sh d pos (n :: rest)
end

/-- `R` is closed under the rule bodies -/
def Closed (cfg : Cfg) (R : Nat → Nat → Node → Prop) : Prop :=
  ∀ k g pos x, cfg.env[k]? = some g → DSR cfg R g pos x → R k pos x

theorem DSRSeq.snoc {cfg : Cfg} {R : Nat → Nat → Node → Prop} {sh : SeqShape} {g : G} {n : Node} :
    ∀ {nodes : List Node} {d p : Nat}, DSRSeq cfg R sh d p nodes →
      sh.lookup (d + nodes.length) = some g → DSR cfg R g (endOf p nodes) n →
      DSRSeq cfg R sh d p (nodes ++ [n])
  | [], d, p, _, hl, hd => by
    simp only [List.length_nil, Nat.add_zero] at hl
    exact .cons hl (by simpa [endOf] using hd) .nil
  | m :: rest, d, p, h, hl, hd => by
    cases h with
    | cons hl' hm hrest =>
      refine .cons hl' hm (DSRSeq.snoc (g := g) hrest ?_ ?_)
      · simpa [Nat.add_assoc, Nat.add_comm 1] using hl
      · rw [endOf_cons] at hd; exact hd

/-! ### the fragment -/

/-- the terminal never returns a node whose token is "EOF" -/
def TermNoEOF (cfg : Cfg) (t : Terminal) : Prop :=
  ∀ pos n, t.parse cfg.params cfg.file pos = .node n → n.token ≠ eofTok

mutual
/-- the fragment; `eofOK` says whether `End` is allowed (it is for soundness, it is not for completeness:
    a sequence stops enumerating at the first alternative that ends with an EOF node) -/
def Frag (cfg : Cfg) (eofOK : Bool) : G → Prop
  | .ref _ => True
  | .eof => eofOK = true
  | .memo _ g => Frag cfg eofOK g
  | .any gs => FragL cfg eofOK gs
  | .seq .seqOf gs o => o.token.getD seqTok ≠ eofTok ∧ FragL cfg eofOK gs
  | .rtrim (.ltrim (.term t) .spacesNl) .spacesNl => TermNoEOF cfg t
  | _ => False
def FragL (cfg : Cfg) (eofOK : Bool) : List G → Prop
  | [] => True
  | g :: gs => Frag cfg eofOK g ∧ FragL cfg eofOK gs
end

theorem FragL_mem {cfg : Cfg} {b : Bool} : ∀ {gs : List G}, FragL cfg b gs → ∀ g ∈ gs, Frag cfg b g
  | [], _, g, hg => by cases hg
  | g' :: gs, h, g, hg => by
    simp only [FragL] at h
    cases hg with
    | head => exact h.1
    | tail _ hm => exact FragL_mem h.2 g hm

theorem Frag_rtrim {cfg : Cfg} {b : Bool} {g : G} {m : WsMode} (h : Frag cfg b (.rtrim g m)) :
    ∃ t, g = .ltrim (.term t) .spacesNl ∧ m = .spacesNl ∧ TermNoEOF cfg t := by
  cases g with
  | ltrim g1 m1 =>
    cases g1 with
    | term t =>
      cases m1 <;> cases m <;> simp only [Frag] at h
      exact ⟨t, rfl, rfl, h⟩
    | _ => simp only [Frag] at h
  | _ => simp only [Frag] at h

theorem Frag_seq {cfg : Cfg} {b : Bool} {k : SeqKind} {gs : List G} {o : SeqOpts} (h : Frag cfg b (.seq k gs o)) :
    k = .seqOf ∧ o.token.getD seqTok ≠ eofTok ∧ FragL cfg b gs := by
  cases k <;> simp only [Frag] at h
  exact ⟨rfl, h⟩

mutual
theorem Frag_mono {cfg : Cfg} : ∀ (g : G), Frag cfg false g → Frag cfg true g
  | .ref _, _ => by simp only [Frag]
  | .eof, h => by simp [Frag] at h
  | .memo _ g, h => by simp only [Frag] at h ⊢; exact Frag_mono g h
  | .any gs, h => by simp only [Frag] at h ⊢; exact FragL_mono gs h
  | .seq k gs o, h => by
    obtain ⟨rfl, h1, h2⟩ := Frag_seq h
    simp only [Frag]; exact ⟨h1, FragL_mono gs h2⟩
  | .rtrim g m, h => by
    obtain ⟨t, rfl, rfl, ht⟩ := Frag_rtrim h
    simp only [Frag]; exact ht
  | .term _, h => by simp [Frag] at h
  | .empty, h => by simp [Frag] at h
  | .choice _, h => by simp [Frag] at h
  | .many _ _ _, h => by simp [Frag] at h
  | .sepBy _ _ _ _, h => by simp [Frag] at h
  | .optional _, h => by simp [Frag] at h
  | .name _ _, h => by simp [Frag] at h
  | .ltrim _ _, h => by simp [Frag] at h
  | .single _, h => by simp [Frag] at h
  | .suppress _, h => by simp [Frag] at h
theorem FragL_mono {cfg : Cfg} : ∀ (gs : List G), FragL cfg false gs → FragL cfg true gs
  | [], _ => by simp only [FragL]
  | g :: gs, h => by
    simp only [FragL] at h ⊢; exact ⟨Frag_mono g h.1, FragL_mono gs h.2⟩
end

theorem mv_token (f : File) (n : Node) : (mv f n).token = n.token := by
  cases n <;> simp [mv, setRposNode, Node.token]

theorem mv_rpos_term (f : File) (t : Bytes) (v : Val) (p r : Nat) : (mv f (.term t v p r)).rpos = sk f r := by
  rw [mv_term]; rfl

end PV.A05
