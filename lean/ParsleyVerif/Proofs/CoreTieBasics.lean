/-
  The tie of the PARSER CORE: vocabulary.

  `factgen -out-core` translates the parse closures of the combinators, the context, the result cache, AppendNode
  (Generated/FactsCore.lean; run-time Generated/CorePrelude.lean).  This file says how the values of the hand-written
  model (Model/Node.lean, Model/Run.lean) are read as values of the translation:

  * `eNode` / `eRes` / `eErr` / `eSet` / `eOut`: FUNCTIONS from model values to translated values (nodes, results, errors,
    curtailing sets, the triple a parser returns); positions `Nat ↦ Int`;
  * `CtxRel m c`: the translated left-recursion context `m` (a data.IntMap at value level: ascending association list)
    holds the same counters as the model's `c` (insertion-ordered list) — a RELATION, the order is not observable;
  * `StRel s st`: the translated `parsley.Context` `s` (call count, furthest error, result cache as nested finite maps)
    shows the model state `st` (the ghost fields `active`, `log` are ignored); transformation and static check are off
    (the model's `parse` is parsley.Parse without them);
  * `Corr x y`: the outcome `x` of a translated call corresponds to the outcome `y` of a model run (fuel exhausted on
    both sides, or the embedded triple in a related state);
  * `Agrees W cfg fuel p g`: the world's `parse` on the handle `p` simulates `run cfg fuel g` — the hypothesis of every
    combinator tie about its operands (discharged by induction on the fuel when the world is built from the ties);
  * `WorldRel W cfg`: the world's reader answers what the model's file functions answer (C10P proves exactly these
    equations of the TRANSLATED reader functions, on positions `offset ≤ pos`).
-/
import ParsleyVerif.Model.Run
import ParsleyVerif.Proofs.RunBasics
import ParsleyVerif.Generated.FactsCore
namespace PV.CoreTie
open PV.FactsCore

abbrev CNode := PV.CorePrelude.Node
abbrev CErr := PV.CorePrelude.Err
abbrev CCause := PV.CorePrelude.Cause
abbrev CRes := PV.CorePrelude.Res
abbrev CM := PV.FactsCore.M
abbrev World := PV.CorePrelude.World
abbrev Parser := PV.CorePrelude.Parser
abbrev IntSet := PV.CorePrelude.IntSet
abbrev IntMap := PV.CorePrelude.IntMap
abbrev CMap := PV.CorePrelude.Map

/-! ### the monad -/

@[simp] theorem bind_apply {α β : Type} (x : CM α) (f : α → CM β) (s : Context) :
    (x >>= f) s = match x s with
      | .ok a s' => f a s'
      | .panic => .panic
      | .nofuel => .nofuel := by
  show PV.CorePrelude.M.bind x f s = _
  unfold PV.CorePrelude.M.bind
  cases x s <;> rfl

@[simp] theorem pure_apply {α : Type} (a : α) (s : Context) : (pure a : CM α) s = .ok a s := rfl

@[simp] theorem ite_apply {α : Type} (c : Prop) (inst : Decidable c) (a b : CM α) (s : Context) :
    (@ite (CM α) c inst a b) s = @ite (CRes Context α) c inst (a s) (b s) := by
  split <;> rfl

@[simp] theorem res_match_id {α : Type} (r : CRes Context α) :
    (match r with
      | .ok a s' => CorePrelude.Res.ok a s'
      | .panic => .panic
      | .nofuel => .nofuel) = r := by
  cases r <;> rfl

@[simp] theorem read_apply {α : Type} (f : Context → α) (s : Context) : CorePrelude.Go.read f s = .ok (f s) s := rfl
@[simp] theorem modify_apply (f : Context → Context) (s : Context) : CorePrelude.Go.modify f s = .ok () (f s) := rfl
@[simp] theorem panic_apply {α : Type} (s : Context) : (CorePrelude.Go.panic : CM α) s = .panic := rfl
@[simp] theorem outOfFuel_apply {α : Type} (s : Context) : (CorePrelude.Go.outOfFuel : CM α) s = .nofuel := rfl

@[simp] theorem map_default {α : Type} : (default : CMap α) = .nil := rfl
@[simp] theorem mapSet_mk {α : Type} (f : Int → Option α) (k : Int) (v : α) (s : Context) :
    (CorePrelude.Go.mapSet (.mk f) k v : CM (CMap α)) s = .ok (.mk fun k' => if k' = k then some v else f k') s := rfl
@[simp] theorem deref_some {α : Type} (a : α) (s : Context) : (CorePrelude.Go.deref (some a) : CM α) s = .ok a s := rfl
@[simp] theorem deref_none {α : Type} (s : Context) : (CorePrelude.Go.deref (none : Option α) : CM α) s = .panic := rfl

/-! conditional rewrite rules that decide a generated comparison from the facts in the context (the discharger is
    `omega`), so that the proofs do not depend on how the Go source spells a comparison (`a >= b` or `b <= a`) -/
theorem dec_true (p : Prop) (inst : Decidable p) (h : p) : @decide p inst = true := by simp [h]
theorem dec_false (p : Prop) (inst : Decidable p) (h : ¬ p) : @decide p inst = false := by simp [h]

theorem ite_pos' {α : Sort _} (c : Prop) (inst : Decidable c) (a b : α) (h : c) : @ite α c inst a b = a := by simp [h]
theorem ite_neg' {α : Sort _} (c : Prop) (inst : Decidable c) (a b : α) (h : ¬ c) : @ite α c inst a b = b := by simp [h]

/-- `simp` with the rules above -/
syntax "core_simp" " [" Lean.Parser.Tactic.simpLemma,* "]" : tactic
macro_rules
  | `(tactic| core_simp [$ls,*]) => `(tactic| simp (disch := omega) [dec_true, dec_false, ite_pos', ite_neg', $ls,*])

syntax "core_simp_all" " [" Lean.Parser.Tactic.simpLemma,* "]" : tactic
macro_rules
  | `(tactic| core_simp_all [$ls,*]) => `(tactic| simp (disch := omega) [dec_true, dec_false, ite_pos', ite_neg', $ls,*, *])

/-! ### values -/

def eVal : Val → CorePrelude.Opaque
  | .rune c => [0, c]
  | .str b => 1 :: b.map Int.ofNat
  | .int i => [2, i]
  | .float l => 3 :: l.map Int.ofNat
  | .dur l => 4 :: l.map Int.ofNat
  | .bool b => [5, if b then 1 else 0]
  | .nil => [6]
  | .opaque id => [7, id]

def eInterp : Interp → CorePrelude.Opaque
  | .none => []
  | .select i => [1, i]
  | .array => [2]
  | .object => [3]
  | .nilI => [4]
  | .custom id => [5, id]

mutual
def eNode : PV.Node → CNode
  | .term t v p r => .leaf t (eVal v) p r
  | .empty p => .empty p
  | .eof p => .eof p
  | .nt t c p r i => .nonterm t (eNodes c) p r (eInterp i)
def eNodes : List PV.Node → List CNode
  | [] => []
  | n :: r => eNode n :: eNodes r
end

@[simp] theorem eNodes_eq_map (l : List PV.Node) : eNodes l = l.map eNode := by
  induction l with
  | nil => rfl
  | cons n r ih => simp [eNodes, ih]

def eRes : PV.Res → CNode
  | .nil => .nil
  | .one n => eNode n
  | .list l => .list (l.map eNode)

@[simp] theorem isNil_nil : CorePrelude.Node.isNil .nil = true := rfl
@[simp] theorem isNil_list (l : List CNode) : CorePrelude.Node.isNil (.list l) = false := rfl
@[simp] theorem isNil_empty (p : Int) : CorePrelude.Node.isNil (.empty p) = false := rfl
@[simp] theorem isNil_eof (p : Int) : CorePrelude.Node.isNil (.eof p) = false := rfl
@[simp] theorem asNodeList_list (l : List CNode) : CorePrelude.Node.asNodeList (.list l) = (l, true) := rfl
@[simp] theorem asNodeList_nil : CorePrelude.Node.asNodeList .nil = ([], false) := rfl
@[simp] theorem errIsNil_nil : CorePrelude.Err.isNil .nil = true := rfl
@[simp] theorem errIsNil_mk (p : Int) (c : CCause) : CorePrelude.Err.isNil (.mk p c) = false := rfl

@[simp] theorem eRes_nil : eRes .nil = .nil := rfl
@[simp] theorem eRes_one (n : PV.Node) : eRes (.one n) = eNode n := rfl
@[simp] theorem eRes_list (l : List PV.Node) : eRes (.list l) = .list (l.map eNode) := rfl

def eKind : ErrKind → CCause
  | .notFound n => .notFound n
  | .ws e => .whitespace (tokOf e.msg)
  | .other m => .other 0 m
  | .panic s => .other 1 s

@[simp] theorem eKind_notFound (n : Text.Bytes) : eKind (.notFound n) = .notFound n := rfl

def eErr1 (e : PV.Err) : CErr := .mk e.pos (eKind e.kind)

def eErr : Option PV.Err → CErr
  | none => .nil
  | some e => eErr1 e

def eSet (l : List Nat) : IntSet := l.map Int.ofNat

def eOut (o : Out) : CNode × IntSet × CErr := (eRes o.res, eSet o.cp, eErr o.err)

@[simp] theorem eNode_isNil (n : PV.Node) : (eNode n).isNil = false := by cases n <;> simp [eNode, CorePrelude.Node.isNil]

@[simp] theorem eNode_ne_nil (n : PV.Node) : eNode n ≠ .nil := by cases n <;> simp [eNode]

@[simp] theorem eRes_isNil (r : PV.Res) : (eRes r).isNil = r.isNil := by
  cases r with
  | nil => rfl
  | one n => simp [eRes, PV.Res.isNil]
  | list l => rfl

@[simp] theorem eErr_isNil (e : Option PV.Err) : (eErr e).isNil = e.isNone := by
  cases e <;> simp [eErr, eErr1, CorePrelude.Err.isNil]

@[simp] theorem eErr_none : eErr none = .nil := rfl
@[simp] theorem eErr_some (e : PV.Err) : eErr (some e) = .mk e.pos (eKind e.kind) := rfl

@[simp] theorem errPos_some (e : PV.Err) (s : Context) :
    (CorePrelude.Err_Pos (.mk (e.pos : Int) (eKind e.kind)) : CM Int) s = .ok (e.pos : Int) s := rfl

@[simp] theorem errPos_mk (p : Int) (c : CCause) (s : Context) : (CorePrelude.Err_Pos (.mk p c) : CM Int) s = .ok p s := rfl
@[simp] theorem errCause_mk (p : Int) (c : CCause) (s : Context) : (CorePrelude.Err_Cause (.mk p c) : CM CCause) s = .ok c s := rfl

@[simp] theorem isNotFound_mk (p : Int) (k : ErrKind) :
    CorePrelude.IsNotFoundError (.mk p (eKind k)) = k.isNotFound := by
  cases k <;> rfl

@[simp] theorem isWhitespace_mk (p : Int) (k : ErrKind) :
    CorePrelude.IsWhitespaceError (.mk p (eKind k)) = k.isWs := by
  cases k <;> rfl

/-! ### the left-recursion context -/

/-- the translated IntMap `m` and the model context `c` hold the same counters under the same keys -/
structure CtxRel (m : IntMap) (c : Ctx) : Prop where
  /-- the value-level invariant of data.IntMap: keys strictly ascending -/
  sorted : (m.map (·.1)).Pairwise (· < ·)
  /-- the same entries -/
  fwd : ∀ k v, (k, v) ∈ m → ∃ kn vn : Nat, k = kn ∧ v = vn ∧ (kn, vn) ∈ c
  bwd : ∀ kn vn : Nat, (kn, vn) ∈ c → ((kn : Int), (vn : Int)) ∈ m
  /-- the model list is a function of the key -/
  func : ∀ k v v', (k, v) ∈ c → (k, v') ∈ c → v = v'

/-! ### the state -/

structure ResultRel (r : Result) (e : CacheEntry) : Prop where
  node : r.Node = eRes e.res
  cp : r.CurtailingParsers = eSet e.cp
  err : r.Error = eErr e.err
  ctx : CtxRel r.LeftRecCtx e.ctx

/-- `rc[idx][pos]` with Go's comma-ok reading -/
def lookup (rc : CMap (CMap (Option Result))) (idx pos : Int) : Option (Option Result) :=
  ((rc.find idx).getD .nil).find pos

def cacheFind (c : List CacheEntry) (idx pos : Nat) : Option CacheEntry :=
  c.find? (fun e => e.idx == idx && e.pos == pos)

structure CacheRel (rc : CMap (CMap (Option Result))) (c : List CacheEntry) : Prop where
  /-- NewResultCache made the map; every inner map was made by Save -/
  notNil : rc.isNil = false
  innerNotNil : ∀ (idx : Int) m, rc.find idx = some m → m.isNil = false
  entries : ∀ idx pos : Nat,
    match cacheFind c idx pos with
    | none => lookup rc idx pos = none
    | some e => ∃ r, lookup rc idx pos = some (some r) ∧ ResultRel r e

structure StRel (s : Context) (st : St) : Prop where
  calls : s.callCount = (st.calls : Int)
  err : s.err = eErr st.ctxErr
  cache : CacheRel s.resultCache st.cache
  noTransform : s.transformationEnabled = false
  noStaticCheck : s.staticCheckEnabled = false

/-- only `calls`, `ctxErr`, `cache` of the model state matter (the ghost fields do not) -/
theorem StRel.of_fields {s : Context} {st st' : St} (rel : StRel s st) (h1 : st'.calls = st.calls)
    (h2 : st'.ctxErr = st.ctxErr) (h3 : st'.cache = st.cache) : StRel s st' :=
  ⟨by rw [h1]; exact rel.calls, by rw [h2]; exact rel.err, by rw [h3]; exact rel.cache, rel.noTransform, rel.noStaticCheck⟩

theorem StRel.logEv {s : Context} {st : St} (rel : StRel s st) (cfg : Cfg) (ev : Ev) : StRel s (st.logEv cfg ev) :=
  rel.of_fields (logEv_fields st cfg ev).2.2.1 (logEv_fields st cfg ev).2.1 (logEv_fields st cfg ev).1

/-! ### outcomes -/

def Corr (x : CRes Context (CNode × IntSet × CErr)) (y : Option (Out × St)) : Prop :=
  match y with
  | none => x = .nofuel
  | some (o, st') => ∃ s', x = .ok (eOut o) s' ∧ StRel s' st'

/-- the world's `parse` on the handle `p` simulates the model's `run` on the grammar `g` with this fuel -/
def Agrees (W : World Context) (cfg : Cfg) (fuel : Nat) (p : Parser) (g : G) : Prop :=
  ∀ (m : IntMap) (c : Ctx) (pos : Nat) (s : Context) (st : St), CtxRel m c → StRel s st →
    Corr (W.parse p m (pos : Int) s) (run cfg fuel g c pos st)

def modeCode : Text.WsMode → Int
  | .none => 0
  | .spaces => 1
  | .spacesNl => 2
  | .forceNl => 3

/-- the world's reader is the model's file -/
structure WorldRel (W : World Context) (cfg : Cfg) : Prop where
  remaining : ∀ p : Nat, W.Reader_Remaining p = (Text.remaining cfg.file p : Nat)
  isEOF : ∀ p : Nat, W.Reader_IsEOF p = Text.isEOF cfg.file p
  pos0 : W.Reader_Pos 0 = (cfg.file.pos 0 : Nat)
  skipWs : ∀ (p : Nat) (m : Text.WsMode),
    W.Reader_SkipWhitespaces p (modeCode m) =
      ((((Text.skipWhitespaces cfg.file p m).1 : Nat) : Int), eErr (wsToErr (Text.skipWhitespaces cfg.file p m).2))

theorem corr_none {x : CRes Context (CNode × IntSet × CErr)} (h : Corr x none) : x = .nofuel := h

theorem corr_some {x : CRes Context (CNode × IntSet × CErr)} {o : Out} {st' : St} (h : Corr x (some (o, st'))) :
    ∃ s', x = .ok (eOut o) s' ∧ StRel s' st' := h

theorem corr_intro {x : CRes Context (CNode × IntSet × CErr)} {o : Out} {st' : St} {s' : Context}
    (e : x = .ok (eOut o) s') (r : StRel s' st') : Corr x (some (o, st')) := ⟨s', e, r⟩

end PV.CoreTie
