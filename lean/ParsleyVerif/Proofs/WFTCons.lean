/-
  C02 (extended certificate): the invariant of `run` for the WHOLE combinator set, trims included.

  With the trims the positional invariant of Proofs/RunPos.lean ("a result starts at the call position and
  its children are contiguous") is false — LeftTrim's results start after the whitespace, RightTrim moves
  the reader position of a node past the whitespace without touching its children.  What termination and the
  re-entry bound need is weaker and does hold for every grammar:

    * `NodeOK lo hi x`: the READER POSITION of a result lies in `[lo, hi]`, hereditarily along the
      single-child spine of the tree (the spine is what `ReturnSingle` / `Single` may later return instead of
      the node); `lo` is the call position for a parser the certificate says may be empty and the call
      position + 1 otherwise (`loOf`) — this is the soundness of `mayBeEmptyT`;
    * every cached result satisfies the same with the certificate's `nullM` of its Memoize index;
    * the ghost log only contains body events within the re-entry bound, and the activation stack is
      restored by every call (`ActOK`, `LogOK` of Proofs/RunPos.lean).

  One induction on fuel (`run_T`) — it replaces `run_pos` + `run_cons` for this purpose.
-/
import ParsleyVerif.Proofs.WFTTerm
import ParsleyVerif.Proofs.RunPos
import ParsleyVerif.Proofs.RunSound
namespace PV.WFT
open PV PV.Text

/-! ### reader positions of results -/

inductive NodeOK (lo hi : Nat) : Node → Prop
  | term (t : Bytes) (v : Val) (p r : Nat) : lo ≤ r → r ≤ hi → NodeOK lo hi (.term t v p r)
  | empty (p : Nat) : lo ≤ p → p ≤ hi → NodeOK lo hi (.empty p)
  | eof (p : Nat) : lo ≤ p → p ≤ hi → NodeOK lo hi (.eof p)
  | nt (t : Bytes) (cs : List Node) (p r : Nat) (i : Interp) : lo ≤ r → r ≤ hi →
      (∀ c, cs = [c] → NodeOK lo hi c) → NodeOK lo hi (.nt t cs p r i)

theorem NodeOK.bounds {lo hi : Nat} {x : Node} (h : NodeOK lo hi x) : lo ≤ x.rpos ∧ x.rpos ≤ hi := by
  cases h <;> exact ⟨by assumption, by assumption⟩

theorem NodeOK.mono {lo lo' hi : Nat} (hle : lo' ≤ lo) {x : Node} (h : NodeOK lo hi x) : NodeOK lo' hi x := by
  induction h with
  | term t v p r h1 h2 => exact .term t v p r (by omega) h2
  | empty p h1 h2 => exact .empty p (by omega) h2
  | eof p h1 h2 => exact .eof p (by omega) h2
  | nt t cs p r i h1 h2 _ ih => exact .nt t cs p r i (by omega) h2 ih

theorem NodeOK.child {lo hi : Nat} {t : Bytes} {c : Node} {p r : Nat} {i : Interp}
    (h : NodeOK lo hi (.nt t [c] p r i)) : NodeOK lo hi c := by
  cases h with
  | nt _ _ _ _ _ _ _ hc => exact hc c rfl

/-- the least reader position of a result: the call position, +1 when the parser cannot be empty -/
def loOf (nullable : Bool) (pos : Nat) : Nat := if nullable then pos else pos + 1

theorem loOf_ge (b : Bool) (pos : Nat) : pos ≤ loOf b pos := by unfold loOf; split <;> omega
theorem loOf_mono (b : Bool) {p q : Nat} (h : p ≤ q) : loOf b p ≤ loOf b q := by unfold loOf; split <;> omega
theorem loOf_true (pos : Nat) : loOf true pos = pos := rfl
theorem loOf_imp {b b' : Bool} (h : b' = true → b = true) (pos : Nat) : loOf b pos ≤ loOf b' pos := by
  unfold loOf
  cases b' with
  | true => rw [h rfl]; exact Nat.le_refl _
  | false => split <;> simp

theorem handleResult_nodeOK (lo hi : Nat) (sh : SeqShape) (p : Nat) (nodes : List Node)
    (hA : nodes = [] → lo ≤ p ∧ p ≤ hi)
    (hB : ∀ l, nodes.getLast? = some l → lo ≤ l.rpos ∧ l.rpos ≤ hi)
    (hC : ∀ n, nodes = [n] → NodeOK lo hi n) : NodeOK lo hi (handleResult sh p nodes) := by
  cases nodes with
  | nil =>
    obtain ⟨h1, h2⟩ := hA rfl
    exact .nt _ _ _ _ _ h1 h2 (fun c hc => by cases hc)
  | cons n rest =>
    cases rest with
    | nil =>
      by_cases hs : sh.single = true
      · have : handleResult sh p [n] = n := by simp [handleResult, hs]
        rw [this]; exact hC n rfl
      · have : handleResult sh p [n] = .nt sh.token [n] n.pos n.rpos sh.interp := by simp [handleResult, hs]
        rw [this]
        obtain ⟨h1, h2⟩ := hB n rfl
        exact .nt _ _ _ _ _ h1 h2 (fun c hc => by cases hc; exact hC n rfl)
    | cons m rest =>
      have : handleResult sh p (n :: m :: rest) =
          .nt sh.token (n :: m :: rest) n.pos (((m :: rest).getLast?).getD n).rpos sh.interp := rfl
      rw [this]
      obtain ⟨h1, h2⟩ := hB _ List.getLast?_cons
      exact .nt _ _ _ _ _ h1 h2 (fun c hc => by cases hc)

/-! ### SkipWhitespaces stays inside the file (no assumption on the base offset) -/

theorem skipLoop_fst (f : File) : ∀ (l : Bytes) (cur nl : Nat), (skipLoop f l cur nl).1 = cur + wsRun l
  | [], cur, nl => by simp [skipLoop, wsRun]
  | b :: r, cur, nl => by
    unfold skipLoop
    by_cases hw : isWs b = true
    · rw [if_pos hw, skipLoop_fst f r]
      have e1 : wsRun (b :: r) = 1 + wsRun r := by simp [wsRun, List.takeWhile_cons, hw]; omega
      omega
    · rw [if_neg hw]; simp [wsRun, List.takeWhile_cons, hw]

theorem skipWs_fst (f : File) (pos : Nat) (m : WsMode) :
    (skipWhitespaces f pos m).1 = f.pos ((pos - f.offset) + wsRun (rest f pos)) := by
  have h := skipLoop_fst f (f.data.drop (pos - f.offset)) (pos - f.offset) 0
  have hr : List.drop (pos - f.offset) f.data = rest f pos := rfl
  rw [hr] at h
  unfold skipWhitespaces
  simp only [hr]
  split
  · simp only [h]
  · split
    · simp only [h]
    · split <;> simp only [h]

theorem skipWs_bounds (f : File) (pos : Nat) (m : WsMode) (h : InFile f pos) :
    pos ≤ (skipWhitespaces f pos m).1 ∧ (skipWhitespaces f pos m).1 ≤ f.offset + f.len := by
  rw [skipWs_fst]
  have h1 := wsRun_le (rest f pos)
  have h2 := rest_length f pos h
  obtain ⟨h3, h4⟩ := h
  unfold File.pos
  omega

theorem setRposNode_ok (f : File) (m : WsMode) {lo hi : Nat} (hlo : f.offset ≤ lo) (hhi : hi = f.offset + f.len)
    {n : Node} (h : NodeOK lo hi n) : NodeOK lo hi (setRposNode f m n none).1 := by
  cases h with
  | term t v p r h1 h2 =>
    have hb := skipWs_bounds f r m ⟨by omega, by omega⟩
    have : (setRposNode f m (.term t v p r) none).1 = .term t v p (skipWhitespaces f r m).1 := by
      simp [setRposNode]
    rw [this]; exact .term _ _ _ _ (by omega) (by omega)
  | empty p h1 h2 =>
    have hb := skipWs_bounds f p m ⟨by omega, by omega⟩
    have : (setRposNode f m (.empty p) none).1 = .empty (skipWhitespaces f p m).1 := by
      simp [setRposNode]
    rw [this]; exact .empty _ (by omega) (by omega)
  | eof p h1 h2 => exact .eof p h1 h2
  | nt t cs p r i h1 h2 hc =>
    have hb := skipWs_bounds f r m ⟨by omega, by omega⟩
    have : (setRposNode f m (.nt t cs p r i) none).1 = .nt t cs p (skipWhitespaces f r m).1 i := by
      simp [setRposNode]
    rw [this]; exact .nt _ _ _ _ _ (by omega) (by omega) hc

/-! ### the certificate as predicates -/

/-- the local conditions of the extended certificate, as a predicate on one sub-parser -/
def LocalT (rx : Nat → Bool) (c : WFCert) : G → Prop
  | .memo i g => i ∈ c.memos ∧ (mayBeEmptyT rx c g = true → c.nullM i = true)
  | .many g _ _ => mayBeEmptyT rx c g = false
  | .sepBy v s _ _ => ¬ (mayBeEmptyT rx c v = true ∧ mayBeEmptyT rx c s = true)
  | _ => True

/-- a parser in the scope of the extended theorem: ANY parser with the local conditions everywhere -/
def GWFT (rx : Nat → Bool) (c : WFCert) (g : G) : Prop := g.All (LocalT rx c)

structure EnvT (rx : Nat → Bool) (c : WFCert) (cfg : Cfg) : Prop where
  maxCalls : cfg.maxCalls = 0
  rxs : RxSound rx cfg.params
  rules : ∀ g ∈ cfg.env, GWFT rx c g
  nullable : ∀ k g, cfg.env[k]? = some g → mayBeEmptyT rx c g = true → c.nullable k = true
  rank : ∀ k g, cfg.env[k]? = some g → ∀ k' ∈ leftRefsT rx c g, c.rank k' < c.rank k

theorem GWFT_list {rx : Nat → Bool} {c : WFCert} {gs : List G} (h : AllList (LocalT rx c) gs) :
    ∀ g ∈ gs, GWFT rx c g := fun g hg => AllList_mem h g hg

theorem GWFT_lookup {rx : Nat → Bool} {c : WFCert} {g : G} {sh : SeqShape} (hg : GWFT rx c g) (hs : g.shape = some sh)
    (i : Nat) (g' : G) (hl : sh.lookup i = some g') : GWFT rx c g' :=
  shape_lookup_all hg hs i g' hl

/-! ### the part of the certificate the INVARIANT needs (the rest is only needed for termination)

    `run_T` below uses the nullability closure only: Memoize operands (`LocalM`) and rules (`EnvM.nullable`).
    The all-nullable certificate satisfies it for EVERY grammar (`EnvM_top`), which gives the re-entry bound
    without any hypothesis on the grammar. -/

def LocalM (rx : Nat → Bool) (c : WFCert) : G → Prop
  | .memo i g => mayBeEmptyT rx c g = true → c.nullM i = true
  | _ => True

def GWM (rx : Nat → Bool) (c : WFCert) (g : G) : Prop := g.All (LocalM rx c)

theorem GWM_list {rx : Nat → Bool} {c : WFCert} {gs : List G} (h : AllList (LocalM rx c) gs) :
    ∀ g ∈ gs, GWM rx c g := fun g hg => AllList_mem h g hg

theorem GWM_lookup {rx : Nat → Bool} {c : WFCert} {g : G} {sh : SeqShape} (hg : GWM rx c g) (hs : g.shape = some sh)
    (i : Nat) (g' : G) (hl : sh.lookup i = some g') : GWM rx c g' :=
  shape_lookup_all hg hs i g' hl

structure EnvM (rx : Nat → Bool) (c : WFCert) (cfg : Cfg) : Prop where
  rxs : RxSound rx cfg.params
  rules : ∀ g ∈ cfg.env, GWM rx c g
  nullable : ∀ k g, cfg.env[k]? = some g → mayBeEmptyT rx c g = true → c.nullable k = true

mutual
theorem All_imp {P Q : G → Prop} (h : ∀ g, P g → Q g) : ∀ g : G, g.All P → g.All Q
  | .term t, hg => by simp only [G.All] at hg ⊢; exact h _ hg
  | .empty, hg => by simp only [G.All] at hg ⊢; exact h _ hg
  | .eof, hg => by simp only [G.All] at hg ⊢; exact h _ hg
  | .ref _, hg => by simp only [G.All] at hg ⊢; exact h _ hg
  | .memo _ g, hg => by simp only [G.All] at hg ⊢; exact ⟨h _ hg.1, All_imp h g hg.2⟩
  | .any gs, hg => by simp only [G.All] at hg ⊢; exact ⟨h _ hg.1, AllList_imp h gs hg.2⟩
  | .choice gs, hg => by simp only [G.All] at hg ⊢; exact ⟨h _ hg.1, AllList_imp h gs hg.2⟩
  | .seq _ gs _, hg => by simp only [G.All] at hg ⊢; exact ⟨h _ hg.1, AllList_imp h gs hg.2⟩
  | .many g _ _, hg => by simp only [G.All] at hg ⊢; exact ⟨h _ hg.1, All_imp h g hg.2⟩
  | .sepBy v s _ _, hg => by
    simp only [G.All] at hg ⊢; exact ⟨h _ hg.1, All_imp h v hg.2.1, All_imp h s hg.2.2⟩
  | .optional g, hg => by simp only [G.All] at hg ⊢; exact ⟨h _ hg.1, All_imp h g hg.2⟩
  | .name g _, hg => by simp only [G.All] at hg ⊢; exact ⟨h _ hg.1, All_imp h g hg.2⟩
  | .ltrim g _, hg => by simp only [G.All] at hg ⊢; exact ⟨h _ hg.1, All_imp h g hg.2⟩
  | .rtrim g _, hg => by simp only [G.All] at hg ⊢; exact ⟨h _ hg.1, All_imp h g hg.2⟩
  | .single g, hg => by simp only [G.All] at hg ⊢; exact ⟨h _ hg.1, All_imp h g hg.2⟩
  | .suppress g, hg => by simp only [G.All] at hg ⊢; exact ⟨h _ hg.1, All_imp h g hg.2⟩
theorem AllList_imp {P Q : G → Prop} (h : ∀ g, P g → Q g) : ∀ gs : List G, AllList P gs → AllList Q gs
  | [], _ => by simp only [AllList]
  | g :: gs, hg => by
    simp only [AllList] at hg ⊢; exact ⟨All_imp h g hg.1, AllList_imp h gs hg.2⟩
end

theorem LocalT_weak {rx : Nat → Bool} {c : WFCert} (g : G) (h : LocalT rx c g) : LocalM rx c g := by
  cases g <;> simp only [LocalM] <;> first | trivial | exact h.2

theorem GWFT.weak {rx : Nat → Bool} {c : WFCert} {g : G} (h : GWFT rx c g) : GWM rx c g := All_imp LocalT_weak g h

theorem EnvT.weak {rx : Nat → Bool} {c : WFCert} {cfg : Cfg} (h : EnvT rx c cfg) : EnvM rx c cfg :=
  ⟨h.rxs, fun g hg => (h.rules g hg).weak, h.nullable⟩

/-- the certificate that declares everything nullable -/
def topCert : WFCert := { nullable := fun _ => true, nullM := fun _ => true, rank := fun _ => 0, memos := [] }

mutual
theorem GWM_top : ∀ g : G, GWM rxAll topCert g
  | .term t => by simp [GWM, G.All, LocalM]
  | .empty => by simp [GWM, G.All, LocalM]
  | .eof => by simp [GWM, G.All, LocalM]
  | .ref _ => by simp [GWM, G.All, LocalM]
  | .memo _ g => by simp only [GWM, G.All, LocalM]; exact ⟨fun _ => rfl, GWM_top g⟩
  | .any gs => by simp only [GWM, G.All, LocalM]; exact ⟨trivial, GWM_topList gs⟩
  | .choice gs => by simp only [GWM, G.All, LocalM]; exact ⟨trivial, GWM_topList gs⟩
  | .seq _ gs _ => by simp only [GWM, G.All, LocalM]; exact ⟨trivial, GWM_topList gs⟩
  | .many g _ _ => by simp only [GWM, G.All, LocalM]; exact ⟨trivial, GWM_top g⟩
  | .sepBy v s _ _ => by simp only [GWM, G.All, LocalM]; exact ⟨trivial, GWM_top v, GWM_top s⟩
  | .optional g => by simp only [GWM, G.All, LocalM]; exact ⟨trivial, GWM_top g⟩
  | .name g _ => by simp only [GWM, G.All, LocalM]; exact ⟨trivial, GWM_top g⟩
  | .ltrim g _ => by simp only [GWM, G.All, LocalM]; exact ⟨trivial, GWM_top g⟩
  | .rtrim g _ => by simp only [GWM, G.All, LocalM]; exact ⟨trivial, GWM_top g⟩
  | .single g => by simp only [GWM, G.All, LocalM]; exact ⟨trivial, GWM_top g⟩
  | .suppress g => by simp only [GWM, G.All, LocalM]; exact ⟨trivial, GWM_top g⟩
theorem GWM_topList : ∀ gs : List G, AllList (LocalM rxAll topCert) gs
  | [] => by simp only [AllList]
  | g :: gs => by simp only [AllList]; exact ⟨GWM_top g, GWM_topList gs⟩
end

/-- EVERY configuration satisfies the invariant's hypotheses with the all-nullable certificate -/
theorem EnvM_top (cfg : Cfg) : EnvM rxAll topCert cfg :=
  ⟨rxSound_all cfg.params, fun g _ => GWM_top g, fun _ _ _ _ => rfl⟩

/-! ### list forms of `mayBeEmptyT` -/

theorem mbeAnyT_true {rx : Nat → Bool} {c : WFCert} : ∀ {gs : List G} {g : G}, g ∈ gs → mayBeEmptyT rx c g = true →
    mbeAnyT rx c gs = true
  | [], g, hg, _ => by cases hg
  | g' :: gs, g, hg, h => by
    simp only [mbeAnyT, Bool.or_eq_true]
    cases hg with
    | head => exact .inl h
    | tail _ hm => exact .inr (mbeAnyT_true hm h)

theorem mbeAllT_of_lookup {rx : Nat → Bool} {c : WFCert} : ∀ (gs : List G),
    (∀ i, i < gs.length → ∀ gi, gs[i]? = some gi → mayBeEmptyT rx c gi = true) → mbeAllT rx c gs = true
  | [], _ => rfl
  | g :: gs, h => by
    simp only [mbeAllT, Bool.and_eq_true]
    refine ⟨h 0 (by simp) g rfl, mbeAllT_of_lookup gs ?_⟩
    intro i hi gi hgi
    exact h (i + 1) (by simp; omega) gi (by simpa using hgi)

/-- with `mayBeEmptyT g = false`, a Sequence-family parser cannot emit a result while all the elements
    matched so far may be empty -/
theorem shape_emit_consT {rx : Nat → Bool} {c : WFCert} {g : G} {sh : SeqShape} (hs : g.shape = some sh)
    (hne : mayBeEmptyT rx c g = false) (d : Nat) (hlc : sh.lenCheck d = true)
    (hprev : ∀ i, i < d → ∀ gi, sh.lookup i = some gi → mayBeEmptyT rx c gi = true) : False := by
  cases g with
  | seq k gs o =>
    simp only [G.shape, Option.some.injEq] at hs
    subst hs
    simp only at hlc hprev
    cases k with
    | seqOf =>
      simp only [beq_iff_eq] at hlc
      subst hlc
      have := mbeAllT_of_lookup (rx := rx) (c := c) gs (fun i hi gi hgi => hprev i hi gi hgi)
      simp [mayBeEmptyT, this] at hne
    | seqTry =>
      simp only [Bool.and_eq_true, decide_eq_true_eq] at hlc
      cases gs with
      | nil => simp at hlc; omega
      | cons g0 rest =>
        have := hprev 0 (by omega) g0 rfl
        simp [mayBeEmptyT, mbeHeadT, this] at hne
    | seqFirstOrAll =>
      cases gs with
      | nil => simp [mayBeEmptyT, mbeHeadT] at hne
      | cons g0 rest =>
        have hd : 0 < d := by
          simp only [Bool.or_eq_true, beq_iff_eq, List.length_cons] at hlc
          omega
        have := hprev 0 hd g0 rfl
        simp [mayBeEmptyT, mbeHeadT, this] at hne
  | many g1 ae o =>
    simp only [G.shape, Option.some.injEq] at hs
    subst hs
    simp only [mayBeEmptyT, Bool.or_eq_false_iff] at hne
    simp only [hne.1, Bool.false_or, decide_eq_true_eq] at hlc
    have := hprev 0 hlc g1 rfl
    simp [this] at hne
  | sepBy v s ae o =>
    simp only [G.shape, Option.some.injEq] at hs
    subst hs
    simp only [mayBeEmptyT, Bool.or_eq_false_iff] at hne
    simp only [hne.1, Bool.and_false, Bool.false_or, beq_iff_eq] at hlc
    have := hprev 0 (by omega) v (by simp)
    simp [this] at hne
  | _ => simp [G.shape] at hs

/-- a Sequence-family parser that cannot be empty and accepts ONE element has a first element that cannot
    be empty (the one-element result is what `ReturnSingle` / `Single` may return as the result) -/
theorem shape_first_consT {rx : Nat → Bool} {c : WFCert} {g : G} {sh : SeqShape} (hs : g.shape = some sh)
    (hne : mayBeEmptyT rx c g = false) (hlc : sh.lenCheck 1 = true) (g0 : G) (hl : sh.lookup 0 = some g0) :
    mayBeEmptyT rx c g0 = false := by
  cases g with
  | seq k gs o =>
    simp only [G.shape, Option.some.injEq] at hs
    subst hs
    simp only at hlc hl
    cases gs with
    | nil => simp at hl
    | cons g1 rest =>
      simp only [List.getElem?_cons_zero, Option.some.injEq] at hl
      subst hl
      cases k with
      | seqOf =>
        simp only [beq_iff_eq, List.length_cons] at hlc
        have : rest = [] := List.length_eq_zero_iff.mp (by omega)
        subst this
        simpa [mayBeEmptyT, mbeAllT] using hne
      | seqTry => simpa [mayBeEmptyT, mbeHeadT] using hne
      | seqFirstOrAll => simpa [mayBeEmptyT, mbeHeadT] using hne
  | many g1 ae o =>
    simp only [G.shape, Option.some.injEq] at hs
    subst hs
    simp only [Option.some.injEq] at hl
    subst hl
    simp only [mayBeEmptyT, Bool.or_eq_false_iff] at hne
    exact hne.2
  | sepBy v s ae o =>
    simp only [G.shape, Option.some.injEq] at hs
    subst hs
    simp at hl
    subst hl
    simp only [mayBeEmptyT, Bool.or_eq_false_iff] at hne
    exact hne.2
  | _ => simp [G.shape] at hs

/-! ### the invariant -/

/-- what holds of the mutable state: the ghost log is within the re-entry bound, and the cached results
    of a Memoize index that cannot be empty consume -/
structure StT (c : WFCert) (cfg : Cfg) (st : St) : Prop where
  log : LogOK cfg st.log
  cache : ∀ e ∈ st.cache, ∀ x ∈ e.res.alts, NodeOK (loOf (c.nullM e.idx) e.pos) cfg.hi x

/-- the states a call may start in -/
def GoodT (c : WFCert) (cfg : Cfg) (ctx : Ctx) (pos : Nat) (st : St) : Prop :=
  InFile cfg.file pos ∧ ActOK ctx pos st.active ∧ StT c cfg st

def ResT (rx : Nat → Bool) (c : WFCert) (cfg : Cfg) (g : G) (pos : Nat) (res : Res) : Prop :=
  ∀ x ∈ res.alts, NodeOK (loOf (mayBeEmptyT rx c g) pos) cfg.hi x

structure PostT (rx : Nat → Bool) (c : WFCert) (cfg : Cfg) (g : G) (pos : Nat) (st0 : St) (o : Out) (st' : St) : Prop where
  res : ResT rx c cfg g pos o.res
  st : StT c cfg st'
  active : st'.active = st0.active

def RunTOK (rx : Nat → Bool) (c : WFCert) (cfg : Cfg) (r : RunFn) : Prop :=
  ∀ g ctx pos st o st', GWM rx c g → GoodT c cfg ctx pos st → r g ctx pos st = some (o, st') →
    PostT rx c cfg g pos st o st'

theorem StT_of_eq {c : WFCert} {cfg : Cfg} {st st' : St} (h : StT c cfg st) (hc : st'.cache = st.cache)
    (hl : st'.log = st.log) : StT c cfg st' :=
  ⟨by rw [hl]; exact h.log, by rw [hc]; exact h.cache⟩

theorem StT_setError {c : WFCert} {cfg : Cfg} {st : St} (h : StT c cfg st) (e : Option Err) :
    StT c cfg (st.setError e) := by
  obtain ⟨_, h2, _, h4, _⟩ := setError_ctxErr st e
  exact StT_of_eq h h2 h4

theorem StT_logEv_notBody {c : WFCert} {cfg : Cfg} {st : St} (h : StT c cfg st) (ev : Ev)
    (hev : ∀ idx p d, ev ≠ Ev.body idx p d) : StT c cfg (st.logEv cfg ev) := by
  obtain ⟨h1, _, _, _, h5⟩ := logEv_fields st cfg ev
  refine ⟨?_, by rw [h1]; exact h.cache⟩
  cases h5 with
  | inl h5 => rw [h5]; exact h.log
  | inr h5 =>
    rw [h5]
    intro idx p d hm
    cases hm with
    | head => exact absurd rfl (hev idx p d)
    | tail _ hm => exact h.log idx p d hm

theorem GoodT_regCall {c : WFCert} {cfg : Cfg} {ctx : Ctx} {pos : Nat} {st : St} (h : GoodT c cfg ctx pos st) :
    GoodT c cfg ctx pos st.regCall :=
  ⟨h.1, h.2.1, StT_of_eq h.2.2 rfl rfl⟩

/-- a later position is a position a call may start at, with the SAME left-recursion context (this is
    what LeftTrim does after it skipped whitespace) -/
theorem ActOK_later {ctx : Ctx} {pos : Nat} {act : List (Nat × Nat)} (h : ActOK ctx pos act) (q : Nat) (hq : pos ≤ q) :
    ActOK ctx q act := by
  by_cases hc : q > pos
  · refine ⟨fun a ha => by have := h.1 a ha; omega, fun k => ?_⟩
    have : actCount act k q = 0 := by
      unfold actCount
      rw [List.length_eq_zero_iff, List.filter_eq_nil_iff]
      intro a ha
      have := h.1 a ha
      simp only [Bool.and_eq_true, beq_iff_eq, not_and]
      intro _; omega
    omega
  · have : q = pos := by omega
    subst this
    exact h

theorem ltrimFinish_st (pos pos' : Nat) (wsErr : Option Err) (o : Out) (st : St) :
    (ltrimFinish pos pos' wsErr o st).2.cache = st.cache ∧ (ltrimFinish pos pos' wsErr o st).2.log = st.log ∧
    (ltrimFinish pos pos' wsErr o st).2.active = st.active := by
  have hst : ∀ s : St, s = (match st.ctxErr with
      | some ce => if ce.pos = pos' && ce.kind.isNotFound then st.setError (some ⟨pos, ce.kind⟩) else st
      | none => st) → s.cache = st.cache ∧ s.log = st.log ∧ s.active = st.active := by
    intro s hs
    subst hs
    split
    · split
      · obtain ⟨_, h2, h3, h4, _⟩ := setError_ctxErr st (some ⟨pos, _⟩)
        exact ⟨h2, h4, h3⟩
      · exact ⟨rfl, rfl, rfl⟩
    · exact ⟨rfl, rfl, rfl⟩
  unfold ltrimFinish
  simp only
  cases o.err with
  | none =>
    cases wsErr with
    | none => exact hst _ rfl
    | some w => exact hst _ rfl
  | some e =>
    cases wsErr with
    | none => exact hst _ rfl
    | some w =>
      simp only
      split
      · exact hst _ rfl
      · split
        · exact hst _ rfl
        · exact hst _ rfl

theorem seqFinish_st (sh : SeqShape) (pos : Nat) (ss : SeqSt) (st : St) :
    (seqFinish sh pos ss st).2.cache = st.cache ∧ (seqFinish sh pos ss st).2.log = st.log ∧
    (seqFinish sh pos ss st).2.active = st.active := by
  by_cases hnil : ss.result.isNil = true
  · have e1 : (seqFinish sh pos ss st).2 = st := by simp [seqFinish, hnil]
    rw [e1]; exact ⟨rfl, rfl, rfl⟩
  · have hnil' : ss.result.isNil = false := by simpa using hnil
    have e1 : (seqFinish sh pos ss st).2 = st.setError ss.err := by simp [seqFinish, hnil']
    obtain ⟨_, h2, h3, h4, _⟩ := setError_ctxErr st ss.err
    rw [e1]; exact ⟨h2, h4, h3⟩

/-! ### the Sequence family -/

def SeqJT (rx : Nat → Bool) (c : WFCert) (cfg : Cfg) (g : G) (sh : SeqShape) (ctx0 : Ctx) (pos0 : Nat)
    (fr : Frame) (ss : SeqSt) (st : St) : Prop :=
  InFile cfg.file fr.pos ∧ pos0 ≤ fr.pos ∧
  (∀ l, fr.nodes.getLast? = some l → l.rpos = fr.pos) ∧
  (∀ n, fr.nodes = [n] → ∃ g0, sh.lookup 0 = some g0 ∧ NodeOK (loOf (mayBeEmptyT rx c g0) pos0) cfg.hi n) ∧
  StT c cfg st ∧ ActOK fr.ctx fr.pos st.active ∧
  (fr.pos = pos0 → fr.ctx = ctx0 ∧ ∀ i, i < fr.depth → ∀ gi, sh.lookup i = some gi → mayBeEmptyT rx c gi = true) ∧
  ResT rx c cfg g pos0 ss.result

def SeqET (rx : Nat → Bool) (c : WFCert) (cfg : Cfg) (g : G) (pos0 : Nat) (ss : SeqSt) (st : St) (ss' : SeqSt) (st' : St) : Prop :=
  (StT c cfg st → StT c cfg st') ∧ st'.active = st.active ∧
  (ResT rx c cfg g pos0 ss.result → ResT rx c cfg g pos0 ss'.result)

theorem SeqET_refl (rx : Nat → Bool) (c : WFCert) (cfg : Cfg) (g : G) (pos0 : Nat) (ss : SeqSt) (st : St) :
    SeqET rx c cfg g pos0 ss st ss st := ⟨id, rfl, id⟩

theorem SeqET_trans (rx : Nat → Bool) (c : WFCert) (cfg : Cfg) (g : G) (pos0 : Nat) (a : SeqSt) (b : St) (c' : SeqSt) (d : St)
    (e : SeqSt) (f : St) (h1 : SeqET rx c cfg g pos0 a b c' d) (h2 : SeqET rx c cfg g pos0 c' d e f) :
    SeqET rx c cfg g pos0 a b e f :=
  ⟨fun h => h2.1 (h1.1 h), by rw [h2.2.1, h1.2.1], fun h => h2.2.2 (h1.2.2 h)⟩

theorem SeqJT_stable (rx : Nat → Bool) (c : WFCert) (cfg : Cfg) (g : G) (sh : SeqShape) (ctx0 : Ctx) (pos0 : Nat)
    (fr : Frame) (ss : SeqSt) (st : St) (ss' : SeqSt) (st' : St)
    (hJ : SeqJT rx c cfg g sh ctx0 pos0 fr ss st) (hE : SeqET rx c cfg g pos0 ss st ss' st') :
    SeqJT rx c cfg g sh ctx0 pos0 fr ss' st' := by
  obtain ⟨j1, j2, j3, j4, j5, j6, j7, j8⟩ := hJ
  exact ⟨j1, j2, j3, j4, hE.1 j5, by rw [hE.2.1]; exact j6, j7, hE.2.2 j8⟩

theorem seqAfter_resultT (m : Bool) (ss : SeqSt) (o : Out) : (seqAfter m ss o).result = ss.result := by
  unfold seqAfter; split <;> rfl

theorem ResT_emit {rx : Nat → Bool} {c : WFCert} {cfg : Cfg} {g : G} {sh : SeqShape} {pos0 : Nat} (hs : g.shape = some sh)
    (fr : Frame) (ss : SeqSt) (hd : fr.depth = fr.nodes.length) (hin : InFile cfg.file fr.pos) (hle : pos0 ≤ fr.pos)
    (hlast : ∀ l, fr.nodes.getLast? = some l → l.rpos = fr.pos)
    (hone : ∀ n, fr.nodes = [n] → ∃ g0, sh.lookup 0 = some g0 ∧ NodeOK (loOf (mayBeEmptyT rx c g0) pos0) cfg.hi n)
    (hprev : fr.pos = pos0 → ∀ i, i < fr.depth → ∀ gi, sh.lookup i = some gi → mayBeEmptyT rx c gi = true)
    (hlc : sh.lenCheck fr.depth = true) (h : ResT rx c cfg g pos0 ss.result) :
    ResT rx c cfg g pos0 (seqEmit sh fr ss).result := by
  intro x hx
  simp only [seqEmit] at hx
  cases mem_appendNode _ _ _ hx with
  | inl h1 => exact h x h1
  | inr h1 =>
    simp only [Res.alts, List.mem_singleton] at h1
    subst h1
    have hn : (if fr.depth > 0 then fr.nodes else []) = fr.nodes := by
      split
      · rfl
      · have : fr.nodes.length = 0 := by omega
        exact (List.length_eq_zero_iff.mp this).symm
    rw [hn]
    have hhi : fr.pos ≤ cfg.hi := hin.2
    have hlo : loOf (mayBeEmptyT rx c g) pos0 ≤ fr.pos := by
      cases hm : mayBeEmptyT rx c g with
      | true => exact hle
      | false =>
        by_cases he : fr.pos = pos0
        · exact (shape_emit_consT hs hm fr.depth hlc (hprev he)).elim
        · show pos0 + 1 ≤ fr.pos; omega
    refine handleResult_nodeOK _ _ sh fr.pos fr.nodes (fun _ => ⟨hlo, hhi⟩)
      (fun l hl => by rw [hlast l hl]; exact ⟨hlo, hhi⟩) ?_
    intro n hnn
    obtain ⟨g0, hl0, hn0⟩ := hone n hnn
    cases hm : mayBeEmptyT rx c g with
    | true => exact hn0.mono (loOf_ge _ _)
    | false =>
      have hd1 : fr.depth = 1 := by rw [hd, hnn]; rfl
      have := shape_first_consT hs hm (by rw [← hd1]; exact hlc) g0 hl0
      rw [this] at hn0
      exact hn0

theorem SeqJT_call (rx : Nat → Bool) (c : WFCert) (cfg : Cfg) (r : RunFn) (hc : RunTOK rx c cfg r)
    (g : G) (sh : SeqShape) (hg : GWM rx c g) (hs : g.shape = some sh) (ctx0 : Ctx) (pos0 : Nat)
    (fr : Frame) (ss : SeqSt) (st : St) (g' : G) (o : Out) (st1 : St)
    (hJ : SeqJT rx c cfg g sh ctx0 pos0 fr ss st) (hd : fr.depth = fr.nodes.length)
    (hl : sh.lookup fr.depth = some g') (hrun : r g' fr.ctx fr.pos st.regCall = some (o, st1)) :
    SeqET rx c cfg g pos0 ss st (seqAfter fr.merge ss o) st1 ∧
    (∀ n ∈ o.res.alts, SeqJT rx c cfg g sh ctx0 pos0 (fr.next n) (seqAfter fr.merge ss o) st1) ∧
    (o.res.isNil = true → sh.lenCheck fr.depth = true →
      SeqET rx c cfg g pos0 ss st (seqEmit sh fr (seqAfter fr.merge ss o)) st1) := by
  obtain ⟨j1, j2, j3, j4, j5, j6, j7, j8⟩ := hJ
  have hg' := GWM_lookup hg hs fr.depth g' hl
  have hgood : GoodT c cfg fr.ctx fr.pos st.regCall := ⟨j1, j6, StT_of_eq j5 rfl rfl⟩
  have hpost := hc g' fr.ctx fr.pos st.regCall o st1 hg' hgood hrun
  have hact : st1.active = st.active := hpost.active
  refine ⟨⟨fun _ => hpost.st, hact, fun h => by rw [seqAfter_resultT]; exact h⟩, ?_, ?_⟩
  · intro n hn
    have hnok := hpost.res n hn
    have hb := hnok.bounds
    have hge := loOf_ge (mayBeEmptyT rx c g') fr.pos
    refine ⟨?_, ?_, ?_, ?_, hpost.st, ?_, ?_, by rw [seqAfter_resultT]; exact j8⟩
    · simp only [Frame.next]
      exact ⟨by have := j1.1; omega, by have := hb.2; unfold Cfg.hi at this; exact this⟩
    · simp only [Frame.next]; omega
    · simp only [Frame.next]
      intro l hl'
      rw [List.getLast?_concat] at hl'
      cases hl'; rfl
    · simp only [Frame.next]
      intro m hm
      cases hnodes : fr.nodes with
      | nil =>
        rw [hnodes] at hm
        simp only [List.nil_append, List.cons.injEq, and_true] at hm
        subst hm
        have hd0 : fr.depth = 0 := by rw [hd, hnodes]; rfl
        rw [hd0] at hl
        exact ⟨g', hl, hnok.mono (loOf_mono _ j2)⟩
      | cons a rest =>
        rw [hnodes] at hm
        have := congrArg List.length hm
        simp at this
    · simp only [Frame.next]
      rw [hact]
      exact ActOK_next j6 n.rpos (by omega)
    · simp only [Frame.next]
      intro he
      have hfp : fr.pos = pos0 := by omega
      have hnr : ¬ n.rpos > fr.pos := by omega
      obtain ⟨q1, q2⟩ := j7 hfp
      refine ⟨by simp only [hnr, ↓reduceIte]; exact q1, ?_⟩
      intro i hi gi hgi
      by_cases hid : i < fr.depth
      · exact q2 i hid gi hgi
      · have : i = fr.depth := by omega
        subst this
        rw [hl] at hgi
        cases hgi
        cases hm : mayBeEmptyT rx c g' with
        | true => rfl
        | false =>
          rw [hm] at hb
          have : fr.pos + 1 ≤ n.rpos := hb.1
          omega
  · intro _ hlc
    refine ⟨fun _ => hpost.st, hact, fun h => ?_⟩
    exact ResT_emit hs fr _ hd j1 j2 j3 j4 (fun he => (j7 he).2) hlc (by rw [seqAfter_resultT]; exact h)

theorem SeqJT_none (rx : Nat → Bool) (c : WFCert) (cfg : Cfg) (g : G) (sh : SeqShape) (hs : g.shape = some sh)
    (ctx0 : Ctx) (pos0 : Nat) (fr : Frame) (ss : SeqSt) (st : St)
    (hJ : SeqJT rx c cfg g sh ctx0 pos0 fr ss st) (hd : fr.depth = fr.nodes.length)
    (_hl : sh.lookup fr.depth = none) (hlc : sh.lenCheck fr.depth = true) :
    SeqET rx c cfg g pos0 ss st (seqEmit sh fr (seqAfter fr.merge ss ⟨.nil, [], none⟩)) st := by
  obtain ⟨j1, j2, j3, j4, j5, j6, j7, j8⟩ := hJ
  refine ⟨id, rfl, fun h => ?_⟩
  exact ResT_emit hs fr _ hd j1 j2 j3 j4 (fun he => (j7 he).2) hlc (by rw [seqAfter_resultT]; exact h)

theorem SeqJT_init {rx : Nat → Bool} {c : WFCert} {cfg : Cfg} {g : G} {sh : SeqShape} {ctx : Ctx} {pos : Nat} {st : St}
    (h : GoodT c cfg ctx pos st) : SeqJT rx c cfg g sh ctx pos ⟨0, [], ctx, pos, true⟩ {} st := by
  obtain ⟨hin, hact, hst⟩ := h
  refine ⟨hin, Nat.le_refl _, (by intro l hl; cases hl), (by intro n hn; cases hn), hst, hact, ?_, ?_⟩
  · intro _
    exact ⟨rfl, fun i hi => by simp at hi⟩
  · intro x hx; cases hx

theorem seqParse_T (rx : Nat → Bool) (c : WFCert) (cfg : Cfg) (r : RunFn) (hc : RunTOK rx c cfg r)
    (g : G) (sh : SeqShape) (hg : GWM rx c g) (hs : g.shape = some sh) (ctx0 : Ctx) (pos0 : Nat) :
    ∀ (fuel : Nat) (fr : Frame) ss st b ss' st', SeqJT rx c cfg g sh ctx0 pos0 fr ss st →
      fr.depth = fr.nodes.length →
      seqParse r sh fuel fr.depth fr.nodes fr.ctx fr.pos fr.merge ss st = some (b, ss', st') →
      SeqET rx c cfg g pos0 ss st ss' st' :=
  seqParse_ind r sh (SeqJT rx c cfg g sh ctx0 pos0) (SeqET rx c cfg g pos0)
    (SeqET_refl rx c cfg g pos0) (SeqET_trans rx c cfg g pos0) (SeqJT_stable rx c cfg g sh ctx0 pos0)
    (fun fr ss st g' o st1 hJ hd hl hrun => SeqJT_call rx c cfg r hc g sh hg hs ctx0 pos0 fr ss st g' o st1 hJ hd hl hrun)
    (fun fr ss st hJ hd hl hlc => SeqJT_none rx c cfg g sh hs ctx0 pos0 fr ss st hJ hd hl hlc)

/-! ### the induction -/

/-- the state in which the body of a Memoize starts is a state a call may start in -/
theorem GoodT_memo_body {c : WFCert} {cfg : Cfg} {ctx : Ctx} {pos : Nat} {st : St} (idx : Nat) (hgood : GoodT c cfg ctx pos st)
    (hcur : ¬ ctx.get idx > remaining cfg.file pos + Facts.curtailSlack) :
    GoodT c cfg (ctx.inc idx) pos (({ st with active := (idx, pos) :: st.active } : St).logEv cfg
      (.body idx pos ((st.active.filter (fun a : Nat × Nat => a.1 == idx && a.2 == pos)).length + 1))) := by
  obtain ⟨hin, hact, hst⟩ := hgood
  have hcount : actCount st.active idx pos ≤ ctx.get idx := hact.2 idx
  have hf := logEv_fields ({ st with active := (idx, pos) :: st.active }) cfg
    (.body idx pos ((st.active.filter (fun a : Nat × Nat => a.1 == idx && a.2 == pos)).length + 1))
  simp only at hf
  generalize ({ st with active := (idx, pos) :: st.active } : St).logEv cfg
    (.body idx pos ((st.active.filter (fun a : Nat × Nat => a.1 == idx && a.2 == pos)).length + 1)) = st1 at hf
  refine ⟨hin, ?_, ?_, by rw [hf.1]; exact hst.cache⟩
  · rw [hf.2.2.2.1]
    refine ⟨?_, ?_⟩
    · intro a ha
      cases ha with
      | head => exact Nat.le_refl _
      | tail _ ha => exact hact.1 a ha
    · intro k
      by_cases hk : k = idx
      · subst hk
        rw [Ctx.get_inc_self]
        have : actCount ((k, pos) :: st.active) k pos = actCount st.active k pos + 1 := by
          simp [actCount]
        omega
      · rw [Ctx.get_inc_other _ _ _ hk]
        have : actCount ((idx, pos) :: st.active) k pos = actCount st.active k pos := by
          have : (idx == k) = false := by
            simp only [beq_eq_false_iff_ne, ne_eq]; exact fun e => hk e.symm
          simp [actCount, this]
        rw [this]; exact hact.2 k
  · cases hf.2.2.2.2 with
    | inl h5 => rw [h5]; exact hst.log
    | inr h5 =>
      rw [h5]
      intro i p d hm
      cases hm with
      | head =>
        have : actCount st.active idx pos = (st.active.filter (fun a => a.1 == idx && a.2 == pos)).length := rfl
        omega
      | tail _ hm => exact hst.log i p d hm

theorem memo_body_active (cfg : Cfg) (st : St) (idx pos d : Nat) :
    (({ st with active := (idx, pos) :: st.active } : St).logEv cfg (.body idx pos d)).active = (idx, pos) :: st.active :=
  (logEv_fields _ cfg _).2.2.2.1

theorem run_T (rx : Nat → Bool) (c : WFCert) (cfg : Cfg) (henv : EnvM rx c cfg) : ∀ fuel, RunTOK rx c cfg (run cfg fuel) := by
  intro fuel
  induction fuel with
  | zero => intro g ctx pos st o st' _ _ h; simp [run] at h
  | succ fuel ih =>
    intro g ctx pos st o st' hg hgood h
    obtain ⟨hin, hact, hst⟩ := hgood
    have hhi : pos ≤ cfg.hi := hin.2
    cases hsh : g.shape with
    | some sh =>
      rw [run_seqfam cfg fuel g sh ctx pos st hsh] at h
      split at h
      · cases h
      · unfold runSeq at h
        split at h
        · cases h
        · rename_i b ss st1 hsp
          cases h
          have hE := seqParse_T rx c cfg (run cfg fuel) ih g sh hg hsh ctx pos fuel ⟨0, [], ctx, pos, true⟩ {} st b ss st1
            (SeqJT_init ⟨hin, hact, hst⟩) rfl hsp
          obtain ⟨f1, _⟩ := seqFinish_res sh pos ss st1
          obtain ⟨f2, f3, f4⟩ := seqFinish_st sh pos ss st1
          exact ⟨fun x hx => hE.2.2 (by intro x hx; cases hx) x (f1 x hx), StT_of_eq (hE.1 hst) f2 f3,
            f4.trans hE.2.1⟩
    | none =>
    by_cases hlt : ∃ g' m, g = .ltrim g' m
    · obtain ⟨g', m, rfl⟩ := hlt
      have hg' : GWM rx c g' := by
        have : LocalM rx c (.ltrim g' m) ∧ g'.All (LocalM rx c) := by simpa [GWM, G.All] using hg
        exact this.2
      rw [run_ltrim] at h
      split at h
      · cases h
      · split at h
        · cases h
        · rename_i o1 st1 hr
          have hfin : ltrimFinish pos (skipWhitespaces cfg.file pos m).1 (wsToErr (skipWhitespaces cfg.file pos m).2) o1 st1 = (o, st') := by
            injection h
          have hb := skipWs_bounds cfg.file pos m hin
          have hpost := ih g' ctx _ st o1 st1 hg'
            ⟨⟨by have := hin.1; omega, hb.2⟩, ActOK_later hact _ hb.1, hst⟩ hr
          obtain ⟨f1, _⟩ := ltrimFinish_res pos (skipWhitespaces cfg.file pos m).1 (wsToErr (skipWhitespaces cfg.file pos m).2) o1 st1
          obtain ⟨f2, f3, f4⟩ := ltrimFinish_st pos (skipWhitespaces cfg.file pos m).1 (wsToErr (skipWhitespaces cfg.file pos m).2) o1 st1
          rw [hfin] at f1 f2 f3 f4
          refine ⟨fun x hx => ?_, StT_of_eq hpost.st f2 f3, by rw [f4]; exact hpost.active⟩
          have := hpost.res x (f1 x hx)
          simp only [mayBeEmptyT]
          exact this.mono (loOf_mono _ hb.1)
    unfold run at h
    split at h
    · cases h
    · cases g with
      | term t =>
        simp only at h
        have hT := termLeaf_all rx cfg henv.rxs t
        split at h
        · rename_i n hp
          cases h
          refine ⟨fun x hx => ?_, hst, rfl⟩
          simp only [Res.alts, List.mem_singleton] at hx
          subst hx
          obtain ⟨tok, v, r, rfl, h1, h2, h3⟩ := hT pos _ hin hp
          refine .term _ _ _ _ ?_ h2
          simp only [mayBeEmptyT]
          cases hn : termNullable rx t with
          | true => exact h1
          | false => have := h3 hn; show pos + 1 ≤ r; omega
        · cases h
          exact ⟨(by intro x hx; cases hx), StT_logEv_notBody hst _ (by intro _ _ _ hc; cases hc),
            (logEv_fields st cfg _).2.2.2.1⟩
        · cases h
          exact ⟨(by intro x hx; cases hx), hst, rfl⟩
      | empty =>
        simp only at h
        cases h
        refine ⟨fun x hx => ?_, hst, rfl⟩
        simp only [Res.alts, List.mem_singleton] at hx
        subst hx
        exact .empty pos (by simp [mayBeEmptyT, loOf]) hhi
      | eof =>
        simp only at h
        split at h
        · cases h
          refine ⟨fun x hx => ?_, hst, rfl⟩
          simp only [Res.alts, List.mem_singleton] at hx
          subst hx
          exact .eof pos (by simp [mayBeEmptyT, loOf]) hhi
        · cases h
          exact ⟨(by intro x hx; cases hx), StT_logEv_notBody hst _ (by intro _ _ _ hc; cases hc),
            (logEv_fields st cfg _).2.2.2.1⟩
      | ref k =>
        simp only at h
        split at h
        · rename_i g' hk
          have hres := ih g' ctx pos st o st' (henv.rules g' (List.mem_of_getElem? hk)) ⟨hin, hact, hst⟩ h
          refine ⟨fun x hx => ?_, hres.st, hres.active⟩
          exact (hres.res x hx).mono (loOf_imp (by simpa [mayBeEmptyT] using henv.nullable k g' hk) pos)
        · cases h
          exact ⟨(by intro x hx; cases hx), hst, rfl⟩
      | memo idx body =>
        simp only at h
        have hbody : GWM rx c body := by
          have := hg; simp only [GWM, G.All] at this; exact this.2
        have hloc : mayBeEmptyT rx c body = true → c.nullM idx = true := by
          have := hg; simp only [GWM, G.All] at this; exact this.1
        cases hc : cacheGet st.cache idx pos ctx with
        | some e =>
          simp only [hc] at h
          cases h
          obtain ⟨hm, hi, hp⟩ := cacheGet_some hc
          refine ⟨fun x hx => ?_, StT_logEv_notBody hst _ (by intro _ _ _ hc; cases hc),
            (logEv_fields st cfg _).2.2.2.1⟩
          have := hst.cache e hm x hx
          rw [hi, hp] at this
          simpa [mayBeEmptyT] using this
        | none =>
          simp only [hc] at h
          by_cases hcur : ctx.get idx > remaining cfg.file pos + Facts.curtailSlack
          · simp only [hcur, ↓reduceIte] at h
            cases h
            exact ⟨(by intro x hx; cases hx), StT_logEv_notBody hst _ (by intro _ _ _ hc; cases hc),
              (logEv_fields st cfg _).2.2.2.1⟩
          · simp only [hcur, ↓reduceIte] at h
            split at h
            · cases h
            · rename_i o2 st2 hr
              cases h
              have hres := ih body (ctx.inc idx) pos _ o st2 hbody (GoodT_memo_body idx ⟨hin, hact, hst⟩ hcur) hr
              have hbc : ∀ x ∈ o.res.alts, NodeOK (loOf (c.nullM idx) pos) cfg.hi x :=
                fun x hx => (hres.res x hx).mono (loOf_imp hloc pos)
              refine ⟨fun x hx => by simpa [mayBeEmptyT] using hbc x hx, ⟨hres.st.log, ?_⟩, rfl⟩
              intro e he
              cases mem_cacheSave he with
              | inl h1 => subst h1; exact hbc
              | inr h1 => exact hres.st.cache e h1
      | any gs =>
        simp only at h
        have hgs : ∀ g' ∈ gs, GWM rx c g' :=
          GWM_list (by have := hg; simp only [GWM, G.All] at this; exact this.2)
        split at h
        · cases h
        · rename_i a st1 hl
          have hA := anyLoop_ind (run cfg fuel) ctx pos
            (fun a s => StT c cfg s ∧ s.active = st.active ∧ ResT rx c cfg (.any gs) pos a.res) gs
            (by
              intro g' hg' a s o' s' hA hr
              obtain ⟨a1, a2, a3⟩ := hA
              have hpost := ih g' ctx pos s.regCall o' s' (hgs g' hg')
                ⟨hin, by show ActOK ctx pos s.active; rw [a2]; exact hact, StT_of_eq a1 rfl rfl⟩ hr
              refine ⟨hpost.st, by rw [hpost.active]; exact a2, fun x hx => ?_⟩
              rw [(altErr_fields pos _ o'.err).2.1] at hx
              cases mem_appendNode _ _ _ hx with
              | inl h1 => exact a3 x h1
              | inr h1 =>
                refine (hpost.res x h1).mono (loOf_imp ?_ pos)
                intro hm
                simp only [mayBeEmptyT]
                exact mbeAnyT_true hg' hm)
            {} st a st1 ⟨hst, rfl, fun x hx => by cases hx⟩ hl
          obtain ⟨a1, a2, a3⟩ := hA
          split at h
          · cases h
            exact ⟨(by intro x hx; cases hx), a1, a2⟩
          · cases h
            exact ⟨a3, StT_setError a1 _, by rw [(setError_ctxErr st1 a.err).2.2.1]; exact a2⟩
      | choice gs =>
        simp only at h
        have hgs : ∀ g' ∈ gs, GWM rx c g' :=
          GWM_list (by have := hg; simp only [GWM, G.All] at this; exact this.2)
        have hF := choiceLoop_ind (run cfg fuel) ctx pos
          (fun _ s => StT c cfg s ∧ s.active = st.active)
          (fun out _ s => StT c cfg s ∧ s.active = st.active ∧ ∀ o', out = some o' → ResT rx c cfg (.choice gs) pos o'.res) gs
          (by intro a s hA; exact ⟨hA.1, hA.2, (by intro o' ho; cases ho)⟩)
          (by
            intro g' hg' a s o' s' hA hr
            obtain ⟨a1, a2⟩ := hA
            have hpost := ih g' ctx pos s.regCall o' s' (hgs g' hg')
              ⟨hin, by show ActOK ctx pos s.active; rw [a2]; exact hact, StT_of_eq a1 rfl rfl⟩ hr
            have hact' : s'.active = st.active := by rw [hpost.active]; exact a2
            refine ⟨fun _ => ⟨StT_setError hpost.st _, by rw [(setError_ctxErr s' _).2.2.1]; exact hact', ?_⟩,
              fun _ => ⟨hpost.st, hact'⟩⟩
            intro o2 ho2
            cases ho2
            intro x hx
            refine (hpost.res x hx).mono (loOf_imp ?_ pos)
            intro hm
            simp only [mayBeEmptyT]
            exact mbeAnyT_true hg' hm)
        split at h
        · cases h
        · rename_i o1 a st1 hl
          cases h
          obtain ⟨a1, a2, a3⟩ := hF {} st (some o) a st' ⟨hst, rfl⟩ hl
          exact ⟨a3 o rfl, a1, a2⟩
        · rename_i a st1 hl
          cases h
          obtain ⟨a1, a2, _⟩ := hF {} st none a st' ⟨hst, rfl⟩ hl
          exact ⟨(by intro x hx; cases hx), a1, a2⟩
      | optional g' =>
        simp only at h
        have hg' : GWM rx c g' := by
          have := hg; simp only [GWM, G.All] at this; exact this.2
        split at h
        · cases h
        · rename_i o1 st1 hr
          cases h
          have hres := ih g' ctx pos st o1 _ hg' ⟨hin, hact, hst⟩ hr
          refine ⟨fun x hx => ?_, hres.st, hres.active⟩
          simp only [mayBeEmptyT, loOf_true]
          cases mem_appendNode _ _ _ hx with
          | inl h1 => exact (hres.res x h1).mono (loOf_ge _ _)
          | inr h1 =>
            simp only [Res.alts, List.mem_singleton] at h1
            subst h1; exact .empty pos (Nat.le_refl _) hhi
      | name g' nm =>
        simp only at h
        have hg' : GWM rx c g' := by
          have := hg; simp only [GWM, G.All] at this; exact this.2
        split at h
        · cases h
        · rename_i o1 st1 hr
          have hres := ih g' ctx pos st o1 st1 hg' ⟨hin, hact, hst⟩ hr
          split at h
          · split at h
            · cases h; exact ⟨(by intro x hx; cases hx), hres.st, hres.active⟩
            · cases h; exact ⟨(by intro x hx; cases hx), hres.st, hres.active⟩
          · split at h
            · cases h; exact ⟨(by intro x hx; cases hx), hres.st, hres.active⟩
            · cases h
              exact ⟨fun x hx => by simpa [mayBeEmptyT] using hres.res x hx, hres.st, hres.active⟩
      | single g' =>
        simp only at h
        have hg' : GWM rx c g' := by
          have := hg; simp only [GWM, G.All] at this; exact this.2
        split at h
        · cases h
        · rename_i o1 st1 hr
          have hres := ih g' ctx pos st o1 st1 hg' ⟨hin, hact, hst⟩ hr
          split at h
          · cases h; exact ⟨(by intro x hx; cases hx), hres.st, hres.active⟩
          · split at h
            · rename_i tk c' p r i hres'
              cases h
              refine ⟨fun x hx => ?_, hres.st, hres.active⟩
              simp only [Res.alts, List.mem_singleton] at hx
              subst hx
              have hm : Node.nt tk [x] p r i ∈ o1.res.alts := by rw [hres']; simp [Res.alts]
              have := (hres.res _ hm).child
              simpa [mayBeEmptyT] using this
            · cases h
              exact ⟨fun x hx => by simpa [mayBeEmptyT] using hres.res x hx, hres.st, hres.active⟩
      | suppress g' =>
        simp only at h
        have hg' : GWM rx c g' := by
          have := hg; simp only [GWM, G.All] at this; exact this.2
        split at h
        · cases h
        · rename_i o1 st1 hr
          cases h
          have hres := ih g' ctx pos st o1 _ hg' ⟨hin, hact, hst⟩ hr
          exact ⟨fun x hx => by simpa [mayBeEmptyT] using hres.res x hx, hres.st, hres.active⟩
      | ltrim g' m => exact absurd ⟨g', m, rfl⟩ hlt
      | rtrim g' m =>
        simp only at h
        have hg' : GWM rx c g' := by
          have := hg; simp only [GWM, G.All] at this; exact this.2
        split at h
        · cases h
        · rename_i o1 st1 hr
          have hres := ih g' ctx pos st o1 st1 hg' ⟨hin, hact, hst⟩ hr
          split at h
          · cases h
            exact ⟨fun x hx => by simpa [mayBeEmptyT] using hres.res x hx, hres.st, hres.active⟩
          · cases hsr : setRposRes cfg.file m o1.res with
            | mk res' ws =>
              simp only [hsr] at h
              cases ws with
              | some w => simp only at h; cases h; exact ⟨(by intro x hx; cases hx), hres.st, hres.active⟩
              | none =>
                simp only at h
                cases h
                refine ⟨fun x hx => ?_, hres.st, hres.active⟩
                have : res' = (setRposRes cfg.file m o1.res).1 := by rw [hsr]
                rw [this] at hx
                obtain ⟨n, hn, hxe⟩ := mem_setRposRes cfg.file m o1.res x hx
                rw [hxe]
                simp only [mayBeEmptyT]
                exact setRposNode_ok cfg.file m (by have := hin.1; have := loOf_ge (mayBeEmptyT rx c g') pos; omega) rfl
                  (hres.res n hn)
      | seq k gs o => simp [G.shape] at hsh
      | many g' ae o => simp [G.shape] at hsh
      | sepBy v s ae o => simp [G.shape] at hsh

end PV.WFT
