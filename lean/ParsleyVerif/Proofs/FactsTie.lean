/-
  The model's decision expressions EQUAL the functions that `factgen -out-fn` translates from the Go source
  on every run (Generated/FactsFn.lean).  A semantically different expression in the source breaks one of
  these theorems; a harmless rewrite (operand order, an equivalent comparison) does not.
-/
import ParsleyVerif.Model.Run
import ParsleyVerif.Generated.FactsFn
import ParsleyVerif.Proofs.FactsTieText
namespace PV
open PV.Text

theorem nat_beq_decide (a b : Nat) : (a == b) = decide (a = b) := by
  by_cases h : a = b <;> simp [h]

theorem tie_untranslated : FactsFn.untranslated = [] := by decide

theorem tie_lenCheck_seqOf (gs : List G) (o : SeqOpts) (sh : SeqShape) (h : (G.seq .seqOf gs o).shape = some sh)
    (len : Nat) : sh.lenCheck len = FactsFn.lenCheckSeqOf len gs.length := by
  simp only [G.shape, Option.some.injEq] at h; subst h
  rw [Bool.eq_iff_iff]
  simp [FactsFn.lenCheckSeqOf] <;> omega

theorem tie_lenCheck_seqTry (gs : List G) (o : SeqOpts) (sh : SeqShape) (h : (G.seq .seqTry gs o).shape = some sh)
    (len : Nat) : sh.lenCheck len = FactsFn.lenCheckSeqTry len gs.length := by
  simp only [G.shape, Option.some.injEq] at h; subst h
  rw [Bool.eq_iff_iff]
  simp [FactsFn.lenCheckSeqTry] <;> omega

theorem tie_lenCheck_seqFirstOrAll (gs : List G) (o : SeqOpts) (sh : SeqShape)
    (h : (G.seq .seqFirstOrAll gs o).shape = some sh) (len : Nat) :
    sh.lenCheck len = FactsFn.lenCheckSeqFirstOrAll len gs.length := by
  simp only [G.shape, Option.some.injEq] at h; subst h
  rw [Bool.eq_iff_iff]
  simp [FactsFn.lenCheckSeqFirstOrAll] <;> omega

theorem tie_lenCheck_many (g : G) (ae : Bool) (o : SeqOpts) (sh : SeqShape) (h : (G.many g ae o).shape = some sh)
    (len : Nat) : sh.lenCheck len = FactsFn.lenCheckMany ae len := by
  simp only [G.shape, Option.some.injEq] at h; subst h
  rw [Bool.eq_iff_iff]
  cases ae <;> simp [FactsFn.lenCheckMany] <;> omega

theorem tie_lenCheck_sepBy (v s : G) (ae : Bool) (o : SeqOpts) (sh : SeqShape) (h : (G.sepBy v s ae o).shape = some sh)
    (len : Nat) : sh.lenCheck len = FactsFn.lenCheckSepBy ae len := by
  simp only [G.shape, Option.some.injEq] at h; subst h
  rw [Bool.eq_iff_iff]
  cases ae <;> simp [FactsFn.lenCheckSepBy] <;> omega

theorem tie_sepBy_lookup (v s : G) (ae : Bool) (o : SeqOpts) (sh : SeqShape) (h : (G.sepBy v s ae o).shape = some sh)
    (i : Nat) : sh.lookup i = some (if FactsFn.sepByIsValue i then v else s) := by
  simp only [G.shape, Option.some.injEq] at h; subst h
  have hv : FactsFn.sepByIsValue i = decide (i % 2 = 0) := by
    rw [Bool.eq_iff_iff]; simp [FactsFn.sepByIsValue] <;> omega
  rw [hv]
  by_cases hi : i % 2 = 0 <;> simp [hi]

/- (the ties of Memoize's curtailment test, ResultCache.Get's reuse test, the sequence's context-reset test and
   Context.SetError's test to single translated expressions stood here.  They are subsumed: the four functions are translated
   whole on every run (Generated/FactsCore.lean) and the model's run cases are proved to agree with the translated bodies —
   Proofs/CoreTieMemo.lean `tie_Memoize`, CoreTieCache.lean `tie_Get`, CoreTieSeq.lean (parseNext), CoreTieCtx.lean
   `tie_SetError`; Props/C01P.lean — and that tie, unlike the search for one `if` in the source text, is not broken when the
   function is restructured without changing what it computes.) -/

end PV
