/-
  The model's decision expressions EQUAL the functions that `factgen -out-fn` translates from the Go source
  on every run (Generated/FactsFn.lean).  A semantically different expression in the source breaks one of
  these theorems; a harmless rewrite (operand order, an equivalent comparison) does not.
-/
import ParsleyVerif.Model.Run
import ParsleyVerif.Generated.FactsFn
import ParsleyVerif.Proofs.FactsTieText
namespace PV
open PV.Text

theorem nat_beq_decide (a b : Nat) : (a == b) = decide (a = b) := by
  by_cases h : a = b <;> simp [h]

theorem tie_untranslated : FactsFn.untranslated = [] := by decide

theorem tie_lenCheck_seqOf (gs : List G) (o : SeqOpts) (sh : SeqShape) (h : (G.seq .seqOf gs o).shape = some sh)
    (len : Nat) : sh.lenCheck len = FactsFn.lenCheckSeqOf len gs.length := by
  simp only [G.shape, Option.some.injEq] at h; subst h
  rw [Bool.eq_iff_iff]
  simp [FactsFn.lenCheckSeqOf] <;> omega

theorem tie_lenCheck_seqTry (gs : List G) (o : SeqOpts) (sh : SeqShape) (h : (G.seq .seqTry gs o).shape = some sh)
    (len : Nat) : sh.lenCheck len = FactsFn.lenCheckSeqTry len gs.length := by
  simp only [G.shape, Option.some.injEq] at h; subst h
  rw [Bool.eq_iff_iff]
  simp [FactsFn.lenCheckSeqTry] <;> omega

theorem tie_lenCheck_seqFirstOrAll (gs : List G) (o : SeqOpts) (sh : SeqShape)
    (h : (G.seq .seqFirstOrAll gs o).shape = some sh) (len : Nat) :
    sh.lenCheck len = FactsFn.lenCheckSeqFirstOrAll len gs.length := by
  simp only [G.shape, Option.some.injEq] at h; subst h
  rw [Bool.eq_iff_iff]
  simp [FactsFn.lenCheckSeqFirstOrAll] <;> omega

theorem tie_lenCheck_many (g : G) (ae : Bool) (o : SeqOpts) (sh : SeqShape) (h : (G.many g ae o).shape = some sh)
    (len : Nat) : sh.lenCheck len = FactsFn.lenCheckMany ae len := by
  simp only [G.shape, Option.some.injEq] at h; subst h
  rw [Bool.eq_iff_iff]
  cases ae <;> simp [FactsFn.lenCheckMany] <;> omega

theorem tie_lenCheck_sepBy (v s : G) (ae : Bool) (o : SeqOpts) (sh : SeqShape) (h : (G.sepBy v s ae o).shape = some sh)
    (len : Nat) : sh.lenCheck len = FactsFn.lenCheckSepBy ae len := by
  simp only [G.shape, Option.some.injEq] at h; subst h
  rw [Bool.eq_iff_iff]
  cases ae <;> simp [FactsFn.lenCheckSepBy] <;> omega

theorem tie_sepBy_lookup (v s : G) (ae : Bool) (o : SeqOpts) (sh : SeqShape) (h : (G.sepBy v s ae o).shape = some sh)
    (i : Nat) : sh.lookup i = some (if FactsFn.sepByIsValue i then v else s) := by
  simp only [G.shape, Option.some.injEq] at h; subst h
  have hv : FactsFn.sepByIsValue i = decide (i % 2 = 0) := by
    rw [Bool.eq_iff_iff]; simp [FactsFn.sepByIsValue] <;> omega
  rw [hv]
  by_cases hi : i % 2 = 0 <;> simp [hi]

/-- Memoize's curtailment test (the model compares with `remaining + Facts.curtailSlack`) -/
theorem tie_curtails (cnt rem : Nat) : decide (cnt > rem + Facts.curtailSlack) = FactsFn.curtails cnt rem := by
  rw [Bool.eq_iff_iff]
  simp [FactsFn.curtails, Facts.curtailSlack] <;> omega

/-- ResultCache.Get's reuse test, per stored key -/
theorem tie_cacheGet (c : List CacheEntry) (idx pos : Nat) (ctx : Ctx) :
    cacheGet c idx pos ctx =
      match c.find? (fun e => e.idx == idx && e.pos == pos) with
      | none => none
      | some e => if e.ctx.all (fun kv => !FactsFn.cacheRejects kv.2 (ctx.get kv.1)) then some e else none := by
  have hr : ∀ a b : Nat, FactsFn.cacheRejects a b = decide (a > b) := by
    intro a b; rw [Bool.eq_iff_iff]; simp [FactsFn.cacheRejects] <;> omega
  simp only [cacheGet, hr]
  cases List.find? (fun e => e.idx == idx && e.pos == pos) c <;> rfl

/-- the sequence resets the left-recursion context exactly when the translated test says so -/
theorem tie_seqResets (fr_pos : Nat) (n : Node) : decide (n.rpos > fr_pos) = FactsFn.seqResets n.rpos fr_pos := by
  rw [Bool.eq_iff_iff]
  simp [FactsFn.seqResets] <;> omega

/-- Context.SetError -/
theorem tie_setError (st : St) (e : Err) :
    st.setError (some e) =
      if FactsFn.setErrorTakes st.ctxErr.isNone e.pos ((st.ctxErr.map Err.pos).getD 0) then { st with ctxErr := some e } else st := by
  have ht : ∀ (b : Bool) (x y : Nat), FactsFn.setErrorTakes b x y = (b || decide (x ≥ y)) := by
    intro b x y; rw [Bool.eq_iff_iff]; cases b <;> simp [FactsFn.setErrorTakes] <;> omega
  unfold St.setError
  cases h : st.ctxErr with
  | none => simp [ht]
  | some c =>
    simp only [ht, Option.isNone_some, Bool.false_or, Option.map_some, Option.getD_some]
    by_cases hp : e.pos ≥ c.pos <;> simp [hp]

end PV
