/-
  C02 (extended certificate) TERMINATION: for every grammar accepted by `wfT` (`EnvT`, `GWFT`: the whole
  combinator set, trims included, every built-in terminal) and every state a parse can reach (`GoodT`),
  SOME fuel makes `run` answer.

  The descent of Proofs/WFHalts.lean, lexicographically on
     (hi − pos,  budget of the left-recursion context,  rank bound of the left references,  size of the parser),
  with two more cases:
    * `RightTrim(p)` calls `p` at the same position with the same context: a sub-parser at a left position;
    * `LeftTrim(p)` calls `p` at the position after the whitespace with the SAME context (Model/Run.lean):
      when no whitespace was skipped this is a sub-parser at a left position (size decreases, the left
      references of `p` are those of `LeftTrim(p)`); when whitespace was skipped the position increased and
      the first component decreases WHATEVER the context is — the counters that LeftTrim carries across the
      whitespace can only make curtailment come earlier.
  Results of `RightTrim` end later than the operand's, results of `LeftTrim` start and end later: both keep
  "a parser that cannot be empty consumes" (`run_T`), which is what the sequence loop needs.
-/
import ParsleyVerif.Proofs.WFTCons
import ParsleyVerif.Proofs.WFHalts
import ParsleyVerif.Proofs.Trim
namespace PV.WFT
open PV PV.Text

/-! ### left positions -/

def LeftBound (rx : Nat → Bool) (c : WFCert) (r : Nat) (g : G) : Prop := ∀ k ∈ leftRefsT rx c g, c.rank k < r

theorem LeftBound_exists (rx : Nat → Bool) (c : WFCert) (g : G) : ∃ r, LeftBound rx c r g := by
  unfold LeftBound
  generalize leftRefsT rx c g = l
  induction l with
  | nil => exact ⟨0, fun k hk => by cases hk⟩
  | cons a l ih =>
    obtain ⟨r, hr⟩ := ih
    refine ⟨max r (c.rank a + 1), fun k hk => ?_⟩
    cases hk with
    | head => omega
    | tail _ hk' => have := hr k hk'; omega

theorem leftRefsAll_mem {rx : Nat → Bool} {c : WFCert} : ∀ {gs : List G} {g : G}, g ∈ gs → ∀ k ∈ leftRefsT rx c g, k ∈ leftRefsAllT rx c gs
  | [], g, hg, _, _ => by cases hg
  | g' :: gs, g, hg, k, hk => by
    simp only [leftRefsAllT, List.mem_append]
    cases hg with
    | head => exact .inl hk
    | tail _ hm => exact .inr (leftRefsAll_mem hm k hk)

theorem leftRefsSeq_lookup {rx : Nat → Bool} {c : WFCert} : ∀ (gs : List G) (d : Nat) (gd : G),
    (∀ i, i < d → ∀ gi, gs[i]? = some gi → mayBeEmptyT rx c gi = true) → gs[d]? = some gd →
    ∀ k ∈ leftRefsT rx c gd, k ∈ leftRefsSeqT rx c gs
  | [], d, gd, _, hl => by simp at hl
  | g :: gs, 0, gd, _, hl => by
    simp only [List.getElem?_cons_zero, Option.some.injEq] at hl
    subst hl
    intro k hk
    simp only [leftRefsSeqT, List.mem_append]
    exact .inl hk
  | g :: gs, d + 1, gd, hprev, hl => by
    have h0 := hprev 0 (by omega) g rfl
    intro k hk
    simp only [leftRefsSeqT, h0, ↓reduceIte, List.mem_append]
    exact .inr (leftRefsSeq_lookup gs d gd
      (fun i hi gi hgi => hprev (i + 1) (by omega) gi (by simpa using hgi)) (by simpa using hl) k hk)

/-- element `d` of a Sequence-family parser is a left position when every earlier element may be empty -/
theorem leftRefs_lookup {rx : Nat → Bool} {c : WFCert} {g : G} {sh : SeqShape} (hs : g.shape = some sh)
    (hloc : LocalT rx c g) (d : Nat) (gd : G)
    (hprev : ∀ i, i < d → ∀ gi, sh.lookup i = some gi → mayBeEmptyT rx c gi = true)
    (hl : sh.lookup d = some gd) : ∀ k ∈ leftRefsT rx c gd, k ∈ leftRefsT rx c g := by
  cases g with
  | seq k gs o =>
    simp only [G.shape, Option.some.injEq] at hs
    subst hs
    simp only at hl hprev
    simp only [leftRefsT]
    exact leftRefsSeq_lookup gs d gd hprev hl
  | many g1 ae o =>
    simp only [G.shape, Option.some.injEq] at hs
    subst hs
    simp only [Option.some.injEq] at hl hprev
    subst hl
    simp only [leftRefsT]
    exact fun k hk => hk
  | sepBy v s ae o =>
    simp only [G.shape, Option.some.injEq] at hs
    subst hs
    simp only [LocalT] at hloc
    simp only at hl hprev
    simp only [leftRefsT, List.mem_append]
    intro k hk
    match d, hprev, hl with
    | 0, _, hl => simp at hl; subst hl; exact .inl hk
    | 1, hprev, hl =>
      simp at hl; subst hl
      have hv := hprev 0 (by omega) v (by simp)
      simp only [hv, ↓reduceIte]
      exact .inr hk
    | d + 2, hprev, _ =>
      have hv := hprev 0 (by omega) v (by simp)
      have hs' := hprev 1 (by omega) s (by simp)
      exact absurd ⟨hv, hs'⟩ hloc
  | _ => simp [G.shape] at hs

/-! ### the measure of sequence frames -/

def seqMu (rx : Nat → Bool) (c : WFCert) (hi : Nat) (g : G) (sh : SeqShape) (fr : Frame) : Nat :=
  match g with
  | .seq _ gs _ => gs.length - fr.depth
  | _ => 2 * (hi - fr.pos) +
      (match sh.lookup fr.depth with | some gd => if mayBeEmptyT rx c gd then 1 else 0 | none => 0)

theorem seqMu_dec {rx : Nat → Bool} {c : WFCert} {g : G} {sh : SeqShape} (hs : g.shape = some sh)
    (hloc : LocalT rx c g) (hi : Nat) (fr : Frame) (gd : G) (hl : sh.lookup fr.depth = some gd) (n : Node)
    (h1 : fr.pos ≤ n.rpos) (h2 : n.rpos ≤ hi) (h3 : mayBeEmptyT rx c gd = false → n.rpos > fr.pos) :
    seqMu rx c hi g sh (fr.next n) < seqMu rx c hi g sh fr := by
  cases g with
  | seq k gs o =>
    simp only [G.shape, Option.some.injEq] at hs
    subst hs
    simp only at hl
    have hlt : fr.depth < gs.length := by
      have := List.mem_of_getElem? hl
      exact (List.getElem?_eq_some_iff.mp hl).1
    simp only [seqMu, Frame.next]
    omega
  | many g1 ae o =>
    simp only [G.shape, Option.some.injEq] at hs
    subst hs
    simp only [Option.some.injEq] at hl
    subst hl
    simp only [LocalT] at hloc
    have := h3 hloc
    simp only [seqMu, Frame.next, hloc]
    simp only [Bool.false_eq_true, ↓reduceIte]
    omega
  | sepBy v s ae o =>
    simp only [G.shape, Option.some.injEq] at hs
    subst hs
    simp only [LocalT] at hloc
    simp only at hl
    simp only [seqMu, Frame.next]
    rcases Nat.mod_two_eq_zero_or_one fr.depth with hp | hp
    · have hp' : (fr.depth + 1) % 2 = 1 := by omega
      simp only [hp, hp', beq_self_eq_true, ↓reduceIte, Nat.succ_ne_self, Nat.reduceBEq, Bool.false_eq_true] at hl ⊢
      cases hl
      cases hv : mayBeEmptyT rx c gd with
      | true =>
        have hs' : mayBeEmptyT rx c s = false := by
          cases hs'' : mayBeEmptyT rx c s with
          | false => rfl
          | true => exact absurd ⟨hv, hs''⟩ hloc
        simp only [hs', Bool.false_eq_true, ↓reduceIte]
        omega
      | false =>
        have := h3 hv
        simp only [Bool.false_eq_true, ↓reduceIte]
        split <;> omega
    · have hp' : (fr.depth + 1) % 2 = 0 := by omega
      simp only [hp, hp', beq_self_eq_true, ↓reduceIte, Nat.succ_ne_self, Nat.reduceBEq, Bool.false_eq_true] at hl ⊢
      cases hl
      cases hv : mayBeEmptyT rx c gd with
      | true =>
        have hs' : mayBeEmptyT rx c v = false := by
          cases hs'' : mayBeEmptyT rx c v with
          | false => rfl
          | true => exact absurd ⟨hs'', hv⟩ hloc
        simp only [hs', Bool.false_eq_true, ↓reduceIte]
        omega
      | false =>
        have := h3 hv
        simp only [Bool.false_eq_true, ↓reduceIte]
        split <;> omega
  | _ => simp [G.shape] at hs

/-! ### termination -/

def Halts (rx : Nat → Bool) (c : WFCert) (cfg : Cfg) (g : G) (ctx : Ctx) (pos : Nat) : Prop :=
  ∀ st, GoodT c cfg ctx pos st → ∃ f x, run cfg f g ctx pos st = some x

/-! ### `run` on the trims answers when the operand does -/

theorem run_ltrim_some (cfg : Cfg) (h0 : cfg.maxCalls = 0) (f : Nat) (g' : G) (m : WsMode) (ctx : Ctx) (pos : Nat) (st : St)
    (x : Out × St) (hx : run cfg f g' ctx (skipWhitespaces cfg.file pos m).1 st = some x) :
    ∃ y, run cfg (f + 1) (.ltrim g' m) ctx pos st = some y := by
  obtain ⟨o, st1⟩ := x
  rw [run_ltrim]
  simp only [h0, ne_eq, not_true_eq_false, false_and, ↓reduceIte, hx]
  exact ⟨_, rfl⟩

theorem run_rtrim_some (cfg : Cfg) (h0 : cfg.maxCalls = 0) (f : Nat) (g' : G) (m : WsMode) (ctx : Ctx) (pos : Nat) (st : St)
    (x : Out × St) (hx : run cfg f g' ctx pos st = some x) :
    ∃ y, run cfg (f + 1) (.rtrim g' m) ctx pos st = some y := by
  obtain ⟨o, st1⟩ := x
  rw [run_rtrim cfg f g' m ctx pos st (.inl h0), hx]
  simp only
  cases o.err with
  | some e => exact ⟨_, rfl⟩
  | none =>
    simp only
    cases hsr : setRposRes cfg.file m o.res with
    | mk res' ws =>
      cases ws with
      | some w => exact ⟨_, rfl⟩
      | none => exact ⟨_, rfl⟩

/-! ### one step of the descent -/

theorem GWFT_sub {rx : Nat → Bool} {c : WFCert} {g g' : G} (hg : GWFT rx c g)
    (h : g.All (LocalT rx c) → LocalT rx c g ∧ g'.All (LocalT rx c)) : GWFT rx c g' := (h hg).2

theorem halts_step (rx : Nat → Bool) (c : WFCert) (cfg : Cfg) (henv : EnvT rx c cfg) (ctx : Ctx) (pos : Nat) (r : Nat) (g : G)
    (IHpos : ∀ g' ctx' pos', pos < pos' → GWFT rx c g' → Halts rx c cfg g' ctx' pos')
    (IHb : ∀ g' ctx', budget c.memos ctx' (capAt cfg pos) < budget c.memos ctx (capAt cfg pos) →
      GWFT rx c g' → Halts rx c cfg g' ctx' pos)
    (IHr : ∀ r' g', r' < r → GWFT rx c g' → LeftBound rx c r' g' → Halts rx c cfg g' ctx pos)
    (IHn : ∀ g', sizeOf g' < sizeOf g → GWFT rx c g' → LeftBound rx c r g' → Halts rx c cfg g' ctx pos)
    (hg : GWFT rx c g) (hlb : LeftBound rx c r g) : Halts rx c cfg g ctx pos := by
  have h0 := henv.maxCalls
  have hT : ∀ f, RunTOK rx c cfg (run cfg f) := run_T rx c cfg henv.weak
  intro st hgood
  cases hsh : g.shape with
  | some sh =>
    -- the Sequence family
    have hloc : LocalT rx c g := G.All_self hg
    obtain ⟨f, x, hx⟩ := seqParse_halts (run cfg) (runMono cfg) sh
      (SeqJT rx c cfg g sh ctx pos) (SeqET rx c cfg g pos)
      (SeqET_refl rx c cfg g pos) (SeqET_trans rx c cfg g pos) (SeqJT_stable rx c cfg g sh ctx pos)
      (fun f fr ss st g' o st1 hJ hd hl hrun =>
        SeqJT_call rx c cfg (run cfg f) (hT f) g sh hg.weak hsh ctx pos fr ss st g' o st1 hJ hd hl hrun)
      (fun fr ss st hJ hd hl hlc => SeqJT_none rx c cfg g sh hsh ctx pos fr ss st hJ hd hl hlc)
      (seqMu rx c cfg.hi g sh)
      (by
        intro fr ss st gd hJ hd hl
        obtain ⟨j1, j2, j3, j4, j5, j6, j7, j8⟩ := hJ
        have hgd := GWFT_lookup hg hsh fr.depth gd hl
        have hgood' : GoodT c cfg fr.ctx fr.pos st.regCall := ⟨j1, j6, StT_of_eq j5 rfl rfl⟩
        by_cases he : fr.pos = pos
        · obtain ⟨q1, q2⟩ := j7 he
          have hlb' : LeftBound rx c r gd := fun k hk =>
            hlb k (leftRefs_lookup hsh hloc fr.depth gd q2 hl k hk)
          have := IHn gd (sizeOf_lookup hsh fr.depth gd hl) hgd hlb' st.regCall (by rw [← q1, ← he]; exact hgood')
          rw [q1, he]; exact this
        · exact IHpos gd fr.ctx fr.pos (by omega) hgd st.regCall hgood')
      (by
        intro f fr ss st gd o st1 hJ hd hl hrun n hn
        obtain ⟨j1, j2, j3, j4, j5, j6, j7, j8⟩ := hJ
        have hgd := GWFT_lookup hg hsh fr.depth gd hl
        have hgood' : GoodT c cfg fr.ctx fr.pos st.regCall := ⟨j1, j6, StT_of_eq j5 rfl rfl⟩
        have hpost := hT f gd fr.ctx fr.pos st.regCall o st1 hgd.weak hgood' hrun
        have hb := (hpost.res n hn).bounds
        have hge := loOf_ge (mayBeEmptyT rx c gd) fr.pos
        exact seqMu_dec hsh hloc cfg.hi fr gd hl n (by omega) hb.2
          (fun hm => by rw [hm] at hb; have : fr.pos + 1 ≤ n.rpos := hb.1; omega))
      (seqMu rx c cfg.hi g sh ⟨0, [], ctx, pos, true⟩ + 1) ⟨0, [], ctx, pos, true⟩ (Nat.lt_succ_self _) {} st
      (SeqJT_init hgood) rfl
    obtain ⟨y, hy⟩ := run_seqfam_some cfg h0 f g sh hsh ctx pos st x hx
    exact ⟨f + 1, y, hy⟩
  | none =>
  cases g with
  | term t => exact ⟨1, run_leaf_some cfg h0 _ (.inl ⟨t, rfl⟩) ctx pos st⟩
  | empty => exact ⟨1, run_leaf_some cfg h0 _ (.inr (.inl rfl)) ctx pos st⟩
  | eof => exact ⟨1, run_leaf_some cfg h0 _ (.inr (.inr rfl)) ctx pos st⟩
  | ref k =>
    cases hk : cfg.env[k]? with
    | none => exact ⟨1, run_ref_none cfg h0 k hk ctx pos st⟩
    | some g' =>
      have hrk : c.rank k < r := hlb k (by simp [leftRefsT])
      obtain ⟨f, x, hx⟩ := IHr (c.rank k) g' hrk (henv.rules g' (List.mem_of_getElem? hk))
        (fun k' hk' => henv.rank k g' hk k' hk') st hgood
      exact ⟨f + 1, run_ref_some cfg h0 f k g' hk ctx pos st x hx⟩
  | memo idx body =>
    have hbody : GWFT rx c body := by
      have := hg; simp only [GWFT, G.All] at this; exact this.2
    have hloc : idx ∈ c.memos ∧ (mayBeEmptyT rx c body = true → c.nullM idx = true) := by
      have := hg; simp only [GWFT, G.All] at this; exact this.1
    by_cases hrun : cacheGet st.cache idx pos ctx = none ∧ ¬ ctx.get idx > remaining cfg.file pos + Facts.curtailSlack
    · have hlt : budget c.memos (ctx.inc idx) (capAt cfg pos) < budget c.memos ctx (capAt cfg pos) :=
        budget_inc c.memos ctx (capAt cfg pos) idx hloc.1 (by unfold capAt; omega)
      obtain ⟨f, x, hx⟩ := IHb body (ctx.inc idx) hlt hbody _ (GoodT_memo_body idx hgood hrun.2)
      exact ⟨f + 1, run_memo_some cfg h0 f idx body ctx pos st (fun _ _ => ⟨x, hx⟩)⟩
    · exact ⟨1, run_memo_some cfg h0 0 idx body ctx pos st (fun h1 h2 => absurd ⟨h1, h2⟩ hrun)⟩
  | any gs =>
    have hgs : ∀ g' ∈ gs, GWFT rx c g' :=
      GWFT_list (by have := hg; simp only [GWFT, G.All] at this; exact this.2)
    obtain ⟨f, x, hx⟩ := anyLoop_halts (run cfg) (runMono cfg) ctx pos (GoodT c cfg ctx pos) gs
      (fun g' hg' st' hI => IHn g'
        (by have := List.sizeOf_lt_of_mem hg'; simp only [G.any.sizeOf_spec]; omega) (hgs g' hg')
        (fun k hk => hlb k (by simp only [leftRefsT]; exact leftRefsAll_mem hg' k hk)) st'.regCall (GoodT_regCall hI))
      (fun f g' hg' st' o st'' hI hr => by
        have hpost := hT f g' ctx pos st'.regCall o st'' (hgs g' hg').weak (GoodT_regCall hI) hr
        exact ⟨hI.1, by rw [hpost.active]; exact hI.2.1, hpost.st⟩)
      {} st hgood
    exact ⟨f + 1, run_any_some cfg h0 f gs ctx pos st x hx⟩
  | choice gs =>
    have hgs : ∀ g' ∈ gs, GWFT rx c g' :=
      GWFT_list (by have := hg; simp only [GWFT, G.All] at this; exact this.2)
    obtain ⟨f, x, hx⟩ := choiceLoop_halts (run cfg) (runMono cfg) ctx pos (GoodT c cfg ctx pos) gs
      (fun g' hg' st' hI => IHn g'
        (by have := List.sizeOf_lt_of_mem hg'; simp only [G.choice.sizeOf_spec]; omega) (hgs g' hg')
        (fun k hk => hlb k (by simp only [leftRefsT]; exact leftRefsAll_mem hg' k hk)) st'.regCall (GoodT_regCall hI))
      (fun f g' hg' st' o st'' hI hr => by
        have hpost := hT f g' ctx pos st'.regCall o st'' (hgs g' hg').weak (GoodT_regCall hI) hr
        exact ⟨hI.1, by rw [hpost.active]; exact hI.2.1, hpost.st⟩)
      {} st hgood
    exact ⟨f + 1, run_choice_some cfg h0 f gs ctx pos st x hx⟩
  | optional g' =>
    have hg' : GWFT rx c g' := by
      have := hg; simp only [GWFT, G.All] at this; exact this.2
    obtain ⟨f, x, hx⟩ := IHn g' (by simp only [G.optional.sizeOf_spec]; omega) hg'
      (fun k hk => hlb k (by simpa [leftRefsT] using hk)) st hgood
    exact ⟨f + 1, run_optional_some cfg h0 f g' ctx pos st x hx⟩
  | name g' nm =>
    have hg' : GWFT rx c g' := by
      have := hg; simp only [GWFT, G.All] at this; exact this.2
    obtain ⟨f, x, hx⟩ := IHn g' (by simp only [G.name.sizeOf_spec]; omega) hg'
      (fun k hk => hlb k (by simpa [leftRefsT] using hk)) st hgood
    exact ⟨f + 1, run_name_some cfg h0 f g' nm ctx pos st x hx⟩
  | single g' =>
    have hg' : GWFT rx c g' := by
      have := hg; simp only [GWFT, G.All] at this; exact this.2
    obtain ⟨f, x, hx⟩ := IHn g' (by simp only [G.single.sizeOf_spec]; omega) hg'
      (fun k hk => hlb k (by simpa [leftRefsT] using hk)) st hgood
    exact ⟨f + 1, run_single_some cfg h0 f g' ctx pos st x hx⟩
  | suppress g' =>
    have hg' : GWFT rx c g' := by
      have := hg; simp only [GWFT, G.All] at this; exact this.2
    obtain ⟨f, x, hx⟩ := IHn g' (by simp only [G.suppress.sizeOf_spec]; omega) hg'
      (fun k hk => hlb k (by simpa [leftRefsT] using hk)) st hgood
    exact ⟨f + 1, run_suppress_some cfg h0 f g' ctx pos st x hx⟩
  | ltrim g' m =>
    have hg' : GWFT rx c g' := by
      have := hg; simp only [GWFT, G.All] at this; exact this.2
    have hb := skipWs_bounds cfg.file pos m hgood.1
    have hlb' : LeftBound rx c r g' := fun k hk => hlb k (by simpa [leftRefsT] using hk)
    by_cases he : (skipWhitespaces cfg.file pos m).1 = pos
    · -- no whitespace: the operand runs at the same position, with the same context
      obtain ⟨f, x, hx⟩ := IHn g' (by simp only [G.ltrim.sizeOf_spec]; omega) hg' hlb' st hgood
      exact ⟨f + 1, run_ltrim_some cfg h0 f g' m ctx pos st x (by rw [he]; exact hx)⟩
    · -- whitespace skipped: a later position, the context is carried over unchanged
      obtain ⟨f, x, hx⟩ := IHpos g' ctx (skipWhitespaces cfg.file pos m).1 (by omega) hg' st
        ⟨⟨by have := hgood.1.1; omega, hb.2⟩, ActOK_later hgood.2.1 _ hb.1, hgood.2.2⟩
      exact ⟨f + 1, run_ltrim_some cfg h0 f g' m ctx pos st x hx⟩
  | rtrim g' m =>
    have hg' : GWFT rx c g' := by
      have := hg; simp only [GWFT, G.All] at this; exact this.2
    obtain ⟨f, x, hx⟩ := IHn g' (by simp only [G.rtrim.sizeOf_spec]; omega) hg'
      (fun k hk => hlb k (by simpa [leftRefsT] using hk)) st hgood
    exact ⟨f + 1, run_rtrim_some cfg h0 f g' m ctx pos st x hx⟩
  | seq k gs o => simp [G.shape] at hsh
  | many g' ae o => simp [G.shape] at hsh
  | sepBy v s ae o => simp [G.shape] at hsh

/-! ### the descent -/

theorem halts_all (rx : Nat → Bool) (c : WFCert) (cfg : Cfg) (henv : EnvT rx c cfg) :
    ∀ g, GWFT rx c g → ∀ ctx pos, Halts rx c cfg g ctx pos := by
  have A : ∀ d pos, cfg.hi - pos = d → ∀ g, GWFT rx c g → ∀ ctx, Halts rx c cfg g ctx pos := by
    intro d
    induction d using Nat.strongRecOn with
    | ind d ihd =>
      intro pos hd
      have IHpos : ∀ g' ctx' pos', pos < pos' → GWFT rx c g' → Halts rx c cfg g' ctx' pos' := by
        intro g' ctx' pos' hlt hg' st hgood
        have hle : pos' ≤ cfg.hi := hgood.1.2
        exact ihd (cfg.hi - pos') (by omega) pos' rfl g' hg' ctx' st hgood
      have B : ∀ b ctx, budget c.memos ctx (capAt cfg pos) = b → ∀ g, GWFT rx c g → Halts rx c cfg g ctx pos := by
        intro b
        induction b using Nat.strongRecOn with
        | ind b ihb =>
          intro ctx hb
          have IHb : ∀ g' ctx', budget c.memos ctx' (capAt cfg pos) < budget c.memos ctx (capAt cfg pos) →
              GWFT rx c g' → Halts rx c cfg g' ctx' pos :=
            fun g' ctx' hlt hg' => ihb _ (hb ▸ hlt) ctx' rfl g' hg'
          have C : ∀ r g, GWFT rx c g → LeftBound rx c r g → Halts rx c cfg g ctx pos := by
            intro r
            induction r using Nat.strongRecOn with
            | ind r ihr =>
              have D : ∀ n g, sizeOf g = n → GWFT rx c g → LeftBound rx c r g → Halts rx c cfg g ctx pos := by
                intro n
                induction n using Nat.strongRecOn with
                | ind n ihn =>
                  intro g hn hg hlb
                  exact halts_step rx c cfg henv ctx pos r g IHpos IHb
                    (fun r' g' hr' hg' hlb' => ihr r' hr' g' hg' hlb')
                    (fun g' hs' hg' hlb' => ihn (sizeOf g') (hn ▸ hs') g' rfl hg' hlb') hg hlb
              intro g hg hlb
              exact D _ g rfl hg hlb
          intro g hg
          obtain ⟨r, hr⟩ := LeftBound_exists rx c g
          exact C r g hg hr
      intro g hg ctx
      exact B _ ctx rfl g hg
  intro g hg ctx pos
  exact A _ pos rfl g hg ctx

end PV.WFT
