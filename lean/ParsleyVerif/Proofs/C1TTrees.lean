/-
  THE COMBINATORIAL HALF WITH TRIMS, tree version (cf. Proofs/CurtailTrees.lean) — no `run` here.

  `ContainsW cfg k e g pos x`: the tree `x` has an exact derivation from `g` at `pos` in which — on the part
  that still STARTS AT `pos` (through references, memoized bodies, alternatives, options, sequence elements
  preceded by zero-width elements only, a LeftTrim that skipped NOTHING, a RightTrim) — a `memo k` node spans
  `pos … e`.  A LeftTrim that skipped whitespace ends that part: what follows starts elsewhere.

  `AcyclicW`: no derivation of the body of `memo k` spanning `pos … e` contains a `memo k` node with the same
  span.  Under `AcyclicW` every exact derivation IS a curtailed derivation from the zero counters, tree for
  tree — with the same phase argument as Proofs/C1TCover.lean: after a LeftTrim that moved, the first
  activation of `k` may end where the innermost activation before the whitespace ends (relaxed bound), and the
  `+ 1` of the curtailment test pays for it.
-/
import ParsleyVerif.Proofs.C1TCover
namespace PV.C1T
open PV PV.Text

mutual
inductive ContainsW (cfg : Cfg) (k e : Nat) : G → Nat → Node → Prop
  | here {body pos x} : DerivesW cfg (.memo k body) pos x → x.rpos = e → ContainsW cfg k e (.memo k body) pos x
  | ref {r g pos x} : cfg.env[r]? = some g → ContainsW cfg k e g pos x → ContainsW cfg k e (.ref r) pos x
  | memo {i g pos x} : ContainsW cfg k e g pos x → ContainsW cfg k e (.memo i g) pos x
  | any {gs g pos x} : g ∈ gs → ContainsW cfg k e g pos x → ContainsW cfg k e (.any gs) pos x
  | optSome {g pos x} : ContainsW cfg k e g pos x → ContainsW cfg k e (.optional g) pos x
  | seqOf {gs o sh pos nodes} : (G.seq .seqOf gs o).shape = some sh → ContainsSeqW cfg k e sh 0 pos nodes →
      sh.lenCheck nodes.length = true → ContainsW cfg k e (.seq .seqOf gs o) pos (handleResult sh pos nodes)
  | ltrim {g m pos x} : (skipWhitespaces cfg.file pos m).2 = none → (skipWhitespaces cfg.file pos m).1 = pos →
      ContainsW cfg k e g pos x → ContainsW cfg k e (.ltrim g m) pos x
  | rtrim {g m pos x} : ContainsW cfg k e g pos x → movedErr cfg m x = none →
      ContainsW cfg k e (.rtrim g m) pos (moved cfg m x)
inductive ContainsSeqW (cfg : Cfg) (k e : Nat) : SeqShape → Nat → Nat → List Node → Prop
  | head {sh d pos g n rest} : sh.lookup d = some g → ContainsW cfg k e g pos n →
      DerivesSeqW cfg sh (d + 1) n.rpos rest → ContainsSeqW cfg k e sh d pos (n :: rest)
  | tail {sh d pos g n rest} : sh.lookup d = some g → DerivesW cfg g pos n → n.rpos = pos →
      ContainsSeqW cfg k e sh (d + 1) n.rpos rest → ContainsSeqW cfg k e sh d pos (n :: rest)
end

/-- the same (memo index, start, end) is never nested in itself -/
def AcyclicW (cfg : Cfg) (bodyOf : Nat → G) : Prop :=
  ∀ k pos x, InFile cfg.file pos → ¬ ContainsW cfg k x.rpos (bodyOf k) pos x

theorem derivesW_pos (cfg : Cfg) (henv : ∀ g' ∈ cfg.env, TermsW cfg g') {g : G} {pos : Nat} {x : Node}
    (h : DerivesW cfg g pos x) (hg : TermsW cfg g) (hin : InFile cfg.file pos) :
    pos ≤ x.rpos ∧ x.rpos ≤ cfg.hi ∧ NotEof x := by
  obtain ⟨n, hn⟩ := derivesWN_of_derivesW cfg h
  exact (derivesWN_pos cfg henv n).1 _ _ _ hg hin hn

theorem derivesSeqW_pos (cfg : Cfg) (henv : ∀ g' ∈ cfg.env, TermsW cfg g') {sh : SeqShape} {d pos : Nat} {nodes : List Node}
    (h : DerivesSeqW cfg sh d pos nodes) (hg : ∀ d g', sh.lookup d = some g' → TermsW cfg g') (hin : InFile cfg.file pos) :
    pos ≤ endOf pos nodes ∧ endOf pos nodes ≤ cfg.hi := by
  obtain ⟨n, hn⟩ := (derivesWN_of_derivesW_both cfg).2 h
  obtain ⟨a, b, _⟩ := (derivesWN_pos cfg henv n).2 _ _ _ _ hg hin hn
  exact ⟨a, b⟩

/-- the contained node ends no later than the tree that contains it; the containing tree is a derivation -/
theorem containsW_end_le (cfg : Cfg) (henv : ∀ g' ∈ cfg.env, TermsW cfg g') (k e : Nat) :
    (∀ {g pos x}, ContainsW cfg k e g pos x → TermsW cfg g → InFile cfg.file pos →
      e ≤ x.rpos ∧ pos ≤ x.rpos ∧ x.rpos ≤ cfg.hi ∧ NotEof x) ∧
    (∀ {sh d pos nodes}, ContainsSeqW cfg k e sh d pos nodes → (∀ d g', sh.lookup d = some g' → TermsW cfg g') →
      InFile cfg.file pos → e ≤ endOf pos nodes ∧ pos ≤ endOf pos nodes ∧ endOf pos nodes ≤ cfg.hi ∧ ∀ y ∈ nodes, NotEof y) := by
  let M1 : (g : G) → (pos : Nat) → (x : Node) → ContainsW cfg k e g pos x → Prop :=
    fun g pos x _ => TermsW cfg g → InFile cfg.file pos → e ≤ x.rpos ∧ pos ≤ x.rpos ∧ x.rpos ≤ cfg.hi ∧ NotEof x
  let M2 : (sh : SeqShape) → (d pos : Nat) → (nodes : List Node) → ContainsSeqW cfg k e sh d pos nodes → Prop :=
    fun sh d pos nodes _ => (∀ d g', sh.lookup d = some g' → TermsW cfg g') → InFile cfg.file pos →
      e ≤ endOf pos nodes ∧ pos ≤ endOf pos nodes ∧ endOf pos nodes ≤ cfg.hi ∧ ∀ y ∈ nodes, NotEof y
  have c1 : ∀ {body : G} {pos : Nat} {x : Node} (a : DerivesW cfg (G.memo k body) pos x) (a_1 : x.rpos = e),
      M1 _ _ _ (.here a a_1) := by
    intro body pos x hd he hg hin
    have := derivesW_pos cfg henv hd hg hin
    exact ⟨by omega, this.1, this.2.1, this.2.2⟩
  have c2 : ∀ {r : Nat} {g : G} {pos : Nat} {x : Node} (a : cfg.env[r]? = some g) (a_1 : ContainsW cfg k e g pos x),
      M1 _ _ _ a_1 → M1 _ _ _ (.ref a a_1) := by
    intro r g pos x hk _ ih _ hin
    exact ih (henv g (List.mem_of_getElem? hk)) hin
  have c3 : ∀ {i : Nat} {g : G} {pos : Nat} {x : Node} (a : ContainsW cfg k e g pos x), M1 _ _ _ a → M1 _ _ _ (.memo (i := i) a) := by
    intro i g pos x _ ih hg hin
    exact ih (All_memo hg) hin
  have c4 : ∀ {gs : List G} {g : G} {pos : Nat} {x : Node} (a : g ∈ gs) (a_1 : ContainsW cfg k e g pos x),
      M1 _ _ _ a_1 → M1 _ _ _ (.any a a_1) := by
    intro gs g pos x hm _ ih hg hin
    exact ih (All_any hg g hm) hin
  have c5 : ∀ {g : G} {pos : Nat} {x : Node} (a : ContainsW cfg k e g pos x), M1 _ _ _ a → M1 _ _ _ (.optSome a) := by
    intro g pos x _ ih hg hin
    exact ih (All_optional hg) hin
  have c6 : ∀ {gs : List G} {o : SeqOpts} {sh : SeqShape} {pos : Nat} {nodes : List Node}
      (a : (G.seq SeqKind.seqOf gs o).shape = some sh) (a_1 : ContainsSeqW cfg k e sh 0 pos nodes)
      (a_2 : sh.lenCheck nodes.length = true), M2 _ _ _ _ a_1 → M1 _ _ _ (.seqOf a a_1 a_2) := by
    intro gs o sh pos nodes hs _ _ ih hg hin
    obtain ⟨i1, i2, i3, i4⟩ := ih (fun d g' hl => shape_lookup_all hg hs d g' hl) hin
    rw [handleResult_rpos]
    exact ⟨i1, i2, i3, handleResult_notEof _ _ _ i4⟩
  have c7 : ∀ {g : G} {m : WsMode} {pos : Nat} {x : Node} (a : (skipWhitespaces cfg.file pos m).2 = none)
      (a_1 : (skipWhitespaces cfg.file pos m).1 = pos) (a_2 : ContainsW cfg k e g pos x),
      M1 _ _ _ a_2 → M1 _ _ _ (.ltrim a a_1 a_2) := by
    intro g m pos x _ _ _ ih hg hin
    exact ih (All_ltrim hg) hin
  have c8 : ∀ {g : G} {m : WsMode} {pos : Nat} {x : Node} (a : ContainsW cfg k e g pos x)
      (a_1 : movedErr cfg m x = none), M1 _ _ _ a → M1 _ _ _ (.rtrim a a_1) := by
    intro g m pos x _ _ ih hg hin
    obtain ⟨i1, i2, i3, i4⟩ := ih (All_rtrim hg) hin
    have hin' : InFile cfg.file x.rpos := ⟨by have := hin.1; omega, i3⟩
    have hb := PV.WFT.skipWs_bounds cfg.file x.rpos m hin'
    rw [moved_rpos cfg m x i4]
    exact ⟨by omega, by omega, hb.2, moved_notEof cfg m x i4⟩
  have c9 : ∀ {sh : SeqShape} {d pos : Nat} {g : G} {n : Node} {rest : List Node} (a : sh.lookup d = some g)
      (a_1 : ContainsW cfg k e g pos n) (a_2 : DerivesSeqW cfg sh (d + 1) n.rpos rest),
      M1 _ _ _ a_1 → M2 _ _ _ _ (.head a a_1 a_2) := by
    intro sh d pos g n rest hl _ hds ih hg hin
    obtain ⟨i1, i2, i3, i4⟩ := ih (hg d g hl) hin
    obtain ⟨m, hm⟩ := (derivesWN_of_derivesW_both cfg).2 hds
    obtain ⟨j1, j2, j3⟩ := (derivesWN_pos cfg henv m).2 _ _ _ _ hg (InFile_of_le hin i2 i3) hm
    rw [endOf_cons]
    refine ⟨by omega, by omega, j2, ?_⟩
    intro y hy
    cases hy with
    | head => exact i4
    | tail _ hmm => exact j3 y hmm
  have c10 : ∀ {sh : SeqShape} {d pos : Nat} {g : G} {n : Node} {rest : List Node} (a : sh.lookup d = some g)
      (a_1 : DerivesW cfg g pos n) (a_2 : n.rpos = pos) (a_3 : ContainsSeqW cfg k e sh (d + 1) n.rpos rest),
      M2 _ _ _ _ a_3 → M2 _ _ _ _ (.tail a a_1 a_2 a_3) := by
    intro sh d pos g n rest hl hdn hz _ ih hg hin
    rw [endOf_cons]
    obtain ⟨i1, i2, i3, i4⟩ := ih hg (by rw [hz]; exact hin)
    have hn := derivesW_pos cfg henv hdn (hg d g hl) hin
    refine ⟨i1, by omega, i3, ?_⟩
    intro y hy
    cases hy with
    | head => exact hn.2.2
    | tail _ hmm => exact i4 y hmm
  exact ⟨fun {g pos x} h => @ContainsW.rec cfg k e M1 M2 c1 c2 c3 c4 c5 c6 c7 c8 c9 c10 g pos x h,
    fun {sh d pos nodes} h => @ContainsSeqW.rec cfg k e M1 M2 c1 c2 c3 c4 c5 c6 c7 c8 c9 c10 sh d pos nodes h⟩

theorem cut_treesW (cfg : Cfg) (bodyOf : Nat → G) (henv : ∀ g' ∈ cfg.env, GoodW cfg bodyOf g')
    (hac : AcyclicW cfg bodyOf) : ∀ n,
    (∀ g pos x (c bound : Nat → Nat) (s : Nat), GoodW cfg bodyOf g → InFile cfg.file pos → DerivesWN cfg n g pos x →
      (∀ k, c k + bound k ≤ cfg.hi + 1 + s) → s ≤ 1 → (s = 1 → NoWs cfg pos) → (∀ k, x.rpos ≤ bound k) →
      DerivesCW cfg c g pos x ∨ ∃ k, bound k ≤ x.rpos ∧ ContainsW cfg k (bound k) g pos x) ∧
    (∀ sh d pos nodes (c bound : Nat → Nat) (s : Nat), (∀ d g', sh.lookup d = some g' → GoodW cfg bodyOf g') →
      InFile cfg.file pos → DerivesSeqWN cfg n sh d pos nodes →
      (∀ k, c k + bound k ≤ cfg.hi + 1 + s) → s ≤ 1 → (s = 1 → NoWs cfg pos) → (∀ k, endOf pos nodes ≤ bound k) →
      DerivesSeqCW cfg c sh d pos nodes ∨
        ∃ k, bound k ≤ endOf pos nodes ∧ ContainsSeqW cfg k (bound k) sh d pos nodes) := by
  have henvC : ∀ g' ∈ cfg.env, TermsW cfg g' := fun g' hg' => (henv g' hg').2
  intro n
  induction n using Nat.strongRecOn with
  | _ n ih =>
    refine ⟨?_, ?_⟩
    · intro g pos x c bound s hg hin h hinv hs1 hnows hend
      cases h with
      | term hp => exact .inl (.term hp)
      | empty => exact .inl .empty
      | optNone => exact .inl .optNone
      | ref hk hd =>
        cases (ih _ (by omega)).1 _ _ _ c bound s (henv _ (List.mem_of_getElem? hk)) hin hd hinv hs1 hnows hend with
        | inl h1 => exact .inl (.ref hk h1)
        | inr h1 => obtain ⟨k, h2, h3⟩ := h1; exact .inr ⟨k, h2, .ref hk h3⟩
      | any hm hd =>
        cases (ih _ (by omega)).1 _ _ _ c bound s (hg.any _ hm) hin hd hinv hs1 hnows hend with
        | inl h1 => exact .inl (.any hm h1)
        | inr h1 => obtain ⟨k, h2, h3⟩ := h1; exact .inr ⟨k, h2, .any hm h3⟩
      | optSome hd =>
        cases (ih _ (by omega)).1 _ _ _ c bound s hg.optional hin hd hinv hs1 hnows hend with
        | inl h1 => exact .inl (.optSome h1)
        | inr h1 => obtain ⟨k, h2, h3⟩ := h1; exact .inr ⟨k, h2, .optSome h3⟩
      | seqOf hs hds hl =>
        rw [handleResult_rpos] at hend ⊢
        cases (ih _ (by omega)).2 _ _ _ _ c bound s (hg.lookup hs) hin hds hinv hs1 hnows hend with
        | inl h1 => exact .inl (.seqOf hs h1 hl)
        | inr h1 => obtain ⟨k, h2, h3⟩ := h1; exact .inr ⟨k, h2, .seqOf hs h3 hl⟩
      | ltrim hws hd =>
        rename_i n' g' m
        have hb := PV.WFT.skipWs_bounds cfg.file pos m hin
        have hin' : InFile cfg.file (skipWhitespaces cfg.file pos m).1 := ⟨by have := hin.1; omega, hb.2⟩
        by_cases hmv : (skipWhitespaces cfg.file pos m).1 = pos
        · cases (ih _ (by omega)).1 _ _ _ c bound s hg.ltrim hin' hd hinv hs1 (by rw [hmv]; exact hnows) hend with
          | inl h1 => exact .inl (.ltrim hws h1)
          | inr h1 =>
            obtain ⟨k, h2, h3⟩ := h1
            rw [hmv] at h3
            exact .inr ⟨k, h2, .ltrim hws hmv h3⟩
        · have hs0 : s = 0 := by
            rcases Nat.lt_or_ge s 1 with h1 | h1
            · omega
            · exact absurd (hnows (by omega) m) hmv
          subst hs0
          cases (ih _ (by omega)).1 _ _ _ c (relaxB bound) 1 hg.ltrim hin' hd
              (by intro k; have := hinv k; simp only [relaxB]; omega) (Nat.le_refl _)
              (by intro _ m'; exact skip_idem cfg.file pos m m' hin)
              (by intro k; have := hend k; simp only [relaxB]; omega) with
          | inl h1 => exact .inl (.ltrim hws h1)
          | inr h1 =>
            obtain ⟨k, f1, _⟩ := h1
            have := hend k
            simp only [relaxB] at f1
            omega
      | rtrim hd hok =>
        rename_i n' g' m x'
        obtain ⟨a1, a2, a3⟩ := (derivesWN_pos cfg henvC _).1 _ _ _ hg.rtrim.2 hin hd
        have hin' : InFile cfg.file x'.rpos := ⟨by have := hin.1; omega, a2⟩
        have hb := PV.WFT.skipWs_bounds cfg.file x'.rpos m hin'
        have hmr := moved_rpos cfg m x' a3
        rw [hmr] at hend ⊢
        cases (ih _ (by omega)).1 _ _ _ c bound s hg.rtrim hin hd hinv hs1 hnows
            (by intro k; have := hend k; omega) with
        | inl h1 => exact .inl (.rtrim h1 hok)
        | inr h1 => obtain ⟨k, h2, h3⟩ := h1; exact .inr ⟨k, by omega, .rtrim h3 hok⟩
      | memo hd =>
        rename_i m i body
        obtain ⟨hb, hgb⟩ := hg.memo
        obtain ⟨p1, p2, _⟩ := (derivesWN_pos cfg henvC _).1 _ _ _ hgb.2 hin hd
        by_cases hlt : x.rpos < bound i
        · have hguard : c i ≤ remaining cfg.file pos + Facts.curtailSlack := by
            rw [remaining_eq hin]
            have := hinv i
            have : Facts.curtailSlack = 1 := rfl
            omega
          cases (ih _ (by omega)).1 _ _ _ (bump c i) (setB bound i x.rpos) s hgb hin hd
              (by
                intro k
                by_cases hk : k = i
                · subst hk; simp only [bump, setB, ↓reduceIte]; have := hinv k; omega
                · simp only [bump, setB, hk, ↓reduceIte]; exact hinv k)
              hs1 hnows
              (by
                intro k
                by_cases hk : k = i
                · subst hk; simp only [setB, ↓reduceIte]; exact Nat.le_refl _
                · simp only [setB, hk, ↓reduceIte]; exact hend k) with
          | inl h1 => exact .inl (.memo hguard h1)
          | inr h1 =>
            obtain ⟨k, f1, f2⟩ := h1
            by_cases hk : k = i
            · -- the body would contain `memo i` with our own span: excluded by acyclicity
              subst hk
              simp only [setB, ↓reduceIte] at f2
              rw [hb] at f2
              exact absurd f2 (hac k pos x hin)
            · simp only [setB, hk, ↓reduceIte] at f1 f2
              exact .inr ⟨k, f1, .memo f2⟩
        · have he : x.rpos = bound i := by have := hend i; omega
          refine .inr ⟨i, by omega, .here ((derivesW_of_derivesWN cfg _).1 _ _ _ (.memo hd)) he⟩
    · intro sh d pos nodes c bound s hg hin h hinv hs1 hnows hend
      cases h with
      | nil => exact .inl .nil
      | cons hl hx hrest =>
        rename_i a b g' x rest
        obtain ⟨p1, p2, _⟩ := (derivesWN_pos cfg henvC _).1 _ _ _ (hg _ _ hl).2 hin hx
        have hin' : InFile cfg.file x.rpos := InFile_of_le hin p1 p2
        obtain ⟨q1, q2, _⟩ := (derivesWN_pos cfg henvC _).2 _ _ _ _ (fun d g' hl' => (hg d g' hl').2) hin' hrest
        rw [endOf_cons] at hend ⊢
        cases (ih a (by omega)).1 _ _ _ c bound s (hg _ _ hl) hin hx hinv hs1 hnows
            (fun k => by have := hend k; omega) with
        | inr h1 =>
          obtain ⟨k, h2, h3⟩ := h1
          exact .inr ⟨k, by omega, .head hl h3 ((derivesW_of_derivesWN cfg _).2 _ _ _ _ hrest)⟩
        | inl hy =>
          by_cases hc : x.rpos > pos
          · cases (ih b (by omega)).2 _ _ _ _ zeroC (topB cfg) 0 hg hin' hrest
                (by intro k; simp [zeroC, topB]) (by omega) (by intro h0; cases h0)
                (by intro k; simp only [topB]; omega) with
            | inl r1 =>
              refine .inl (.cons hl hy ?_)
              simp only [hc, ↓reduceIte]; exact r1
            | inr h2 =>
              obtain ⟨k, f1, _⟩ := h2
              simp only [topB] at f1
              omega
          · have hxe : x.rpos = pos := by omega
            cases (ih b (by omega)).2 _ _ _ _ c bound s hg hin' hrest hinv hs1 (by rw [hxe]; exact hnows) hend with
            | inl r1 =>
              refine .inl (.cons hl hy ?_)
              simp only [hc, ↓reduceIte]; exact r1
            | inr h2 =>
              obtain ⟨k, f1, f2⟩ := h2
              exact .inr ⟨k, f1, .tail hl ((derivesW_of_derivesWN cfg _).1 _ _ _ hx) hxe f2⟩

/-- **(B), trees, with trims.**  In an acyclic grammar every exact derivation is a curtailed derivation from
    the empty left-recursion context — the same tree. -/
theorem derivesCW_of_derivesW_tree (cfg : Cfg) (bodyOf : Nat → G)
    (henv : ∀ g' ∈ cfg.env, GoodW cfg bodyOf g') (hac : AcyclicW cfg bodyOf)
    (g : G) (hg : GoodW cfg bodyOf g)
    (pos : Nat) (hin : InFile cfg.file pos) (x : Node) (h : DerivesW cfg g pos x) :
    DerivesCW cfg zeroC g pos x := by
  obtain ⟨n, hn⟩ := derivesWN_of_derivesW cfg h
  have hp := (derivesWN_pos cfg (fun g' hg' => (henv g' hg').2) n).1 _ _ _ hg.2 hin hn
  cases (cut_treesW cfg bodyOf henv hac n).1 g pos x zeroC (topB cfg) 0 hg hin hn
      (by intro k; simp [zeroC, topB]) (by omega) (by intro h0; cases h0) (by intro k; simp only [topB]; omega) with
  | inl h1 => exact h1
  | inr h1 =>
    obtain ⟨k, f1, _⟩ := h1
    simp only [topB] at f1
    omega

end PV.C1T
